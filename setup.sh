#!/bin/sh
# setup_cmd: offline sanity check and build-cache warm-up. Everything is rebuilt by ./check
# on every invocation anyway; this only makes the first check faster.
set -e
export GOFLAGS=-mod=mod GOPROXY=off GOSUMDB=off GOTOOLCHAIN=local
cd "$(dirname "$0")/harness"
go version
go vet ./ev ./gen >/dev/null
go test -c -vet=off -tags verif -o /dev/null ./codec
for p in $(go list ./... | grep -v -e /ev$ -e /gen$ -e /cmd/); do
  go test -c -vet=off -tags verif -o /dev/null "$p" || exit 1
done
echo setup ok
