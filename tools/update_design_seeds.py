#!/usr/bin/env python3
"""Rewrites the table between <!-- SEEDS-BEGIN --> and <!-- SEEDS-END --> in DESIGN.md from seeded/*/meta.json."""
import glob, json, os, re
V = os.path.dirname(os.path.dirname(os.path.abspath(__file__)))
rows = ["| seed | breaks | change (first sentence) | result of the property's check (quick tier) | other checks | note |", "|---|---|---|---|---|---|"]
tot = caught = first_missed = 0
for d in sorted(glob.glob(os.path.join(V, "seeded", "*"))):
    m = json.load(open(os.path.join(d, "meta.json")))
    prop = m.get("property")
    checks = m.get("checks", {})
    own = checks.get(prop, {})
    others = "; ".join("%s %s" % (k, v["result"]) for k, v in sorted(checks.items()) if k != prop)
    summ = re.split(r"(?<=[.:;])\s", m.get("summary", "").replace("|", "/").replace("\n", " "))[0][:170]
    fn = m.get("framework_note", "")
    note = ""
    if "MISSED" in fn or "First evaluation" in fn or "could not see" in fn or "only manifests" in fn:
        note = "missed first; check strengthened" if own.get("result") == "caught" else "MISSED"
        first_missed += 1
    tot += 1
    caught += own.get("result") == "caught"
    rows.append("| %s | %s | %s | %s %ss | %s | %s |" % (os.path.basename(d), prop, summ, own.get("result", "?"), own.get("wall_s", "?"), others, note))
rows.append("")
rows.append("%d seeded changes; %d caught by the check of the property they break (as of the last evaluation); %d of them were missed at first and led to a stronger generator or oracle." % (tot, caught, first_missed))
p = os.path.join(V, "DESIGN.md")
s = open(p).read()
a, b = s.index("<!-- SEEDS-BEGIN -->"), s.index("<!-- SEEDS-END -->")
s = s[:a] + "<!-- SEEDS-BEGIN -->\n" + "\n".join(rows) + "\n" + s[b:]
open(p, "w").write(s)
print(rows[-1])
