#!/usr/bin/env python3
"""Confirms and evaluates a seeded property-breaking change produced by an independent sub-agent.

  tools/seed_eval.py <seed-name> <worktree> <prop> [<prop>...] [--tier quick|thorough] [--noconfirm]

1. confirmation (in a fresh scratch copy of /repo HEAD, not in the agent's worktree):
   patch applies, project builds, the existing pkg test suite passes with the patch, the
   demonstration fails with the patch and passes without it;
2. copies patch.diff, the demonstration and meta.json to /verif/seeded/<seed-name>/ and adds
   what was run to meta.json;
3. runs ./check <prop> against the patched scratch copy (VERIF_REPO), evidence and replays
   redirected to scratch, and records caught / missed per property.
"""
import glob, json, os, shutil, subprocess, sys, time

V = os.path.dirname(os.path.dirname(os.path.abspath(__file__)))
ENV = dict(os.environ, GOFLAGS="-mod=mod", GOPROXY="off", GOSUMDB="off", GOTOOLCHAIN="local")


def sh(cmd, cwd=None, env=None, timeout=3600):
    p = subprocess.run(cmd, cwd=cwd, env=env or ENV, capture_output=True, text=True, timeout=timeout, shell=isinstance(cmd, str))
    return p.returncode, p.stdout + p.stderr


def main():
    a = sys.argv[1:]
    tier = "quick"
    if "--tier" in a:
        i = a.index("--tier"); tier = a[i + 1]; del a[i:i + 2]
    noconfirm = "--noconfirm" in a
    if noconfirm:
        a.remove("--noconfirm")
    name, wt, props = a[0], a[1], a[2:]
    dst = os.path.join(V, "seeded", name)
    if wt == "-":  # re-evaluate a stored seed (its worktree is gone): checks only
        noconfirm = True
        meta = json.load(open(os.path.join(dst, "meta.json")))
        out = dst
    else:
        out = os.path.join(wt, "OUT")
        meta = json.load(open(os.path.join(out, "meta.json")))
        os.makedirs(dst, exist_ok=True)
        shutil.copytree(out, dst, dirs_exist_ok=True)
        # also archive demonstration files the agent left only in the worktree
        rc0, o0 = sh(["git", "status", "--porcelain", "--untracked-files=all"], cwd=wt)
        for ln in o0.splitlines():
            if ln.startswith("?? ") and not ln[3:].startswith("OUT/"):
                rel = ln[3:]
                tgt = os.path.join(dst, "worktree-files", rel)
                os.makedirs(os.path.dirname(tgt), exist_ok=True)
                try:
                    shutil.copy(os.path.join(wt, rel), tgt)
                except Exception:
                    pass
    scratch = "/tmp/seedeval-%s-%d" % (name, os.getpid())
    ran = {}
    try:
        os.makedirs(scratch)
        rc, o = sh("git -C /repo archive HEAD | tar -x -C " + scratch)
        assert rc == 0, o
        sh("git init -q . && git add -A && git -c user.email=x -c user.name=x commit -qm base", cwd=scratch)
        patch = os.path.join(dst, "patch.diff")
        rc, o = sh(["git", "apply", "--check", patch], cwd=scratch)
        ran["patch_applies"] = rc == 0
        ported = False
        if rc != 0 and noconfirm:
            # /repo has moved on since the seed was made (fix commits): port the change with
            # context fuzz; it must still build
            rc2, o2 = sh("patch -p1 --fuzz=3 --no-backup-if-mismatch < " + patch, cwd=scratch)
            rc3, o3 = sh(["go", "build", "./..."], cwd=scratch)
            if rc2 == 0 and rc3 == 0:
                ported = True
                meta["ported_to"] = sh(["git", "-C", "/repo", "rev-parse", "--short", "HEAD"])[1].strip()
                print("patch ported to HEAD with context fuzz")
            else:
                print("patch does not apply, porting failed:\n" + o + o2 + o3)
                return finish(dst, meta, {}, {})
        elif rc != 0:
            print("patch does not apply:\n" + o)
            return finish(dst, meta, ran, {})
        # demo files: test files in OUT are placed where the worktree has them
        # demo files = untracked .go files the agent left in its worktree (outside OUT/)
        demos = []
        rc, o = (0, "") if wt == "-" else sh(["git", "status", "--porcelain", "--untracked-files=all"], cwd=wt)
        created = set()  # files the patch itself creates are part of the change, not of the demo
        for ln in open(patch, errors="replace"):
            if ln.startswith("+++ b/"):
                created.add(ln[6:].strip())
        for ln in o.splitlines():
            if ln.startswith("?? ") and ln.endswith(".go") and not ln[3:].startswith("OUT/") and ln[3:] not in created:
                demos.append((os.path.join(wt, ln[3:]), ln[3:]))
        ran["demo_files"] = [d[1] for d in demos]
        if not noconfirm:
            for src, rel in demos:
                os.makedirs(os.path.dirname(os.path.join(scratch, rel)), exist_ok=True)
                shutil.copy(src, os.path.join(scratch, rel))
            shutil.copytree(out, os.path.join(scratch, "OUT"))
            import re
            demo_cmd = meta.get("demo_cmd", "").replace(wt, scratch)
            demo_cmd = re.sub(r"\s{2,}\(.*$", "", demo_cmd)  # agents sometimes append a "(comment)" to the command
            denv = dict(ENV, WT=scratch)
            rc, o = sh(["bash", "-c", demo_cmd], cwd=scratch, env=denv, timeout=1200)
            ran["demo_without_change_passes"] = rc == 0
            rc, o = sh(["git", "apply", patch], cwd=scratch)
            ran["patch_applied_for_demo"] = rc == 0
            os.rename(os.path.join(scratch, "OUT"), os.path.join(scratch, "_OUT"))  # demo files of several packages in one directory are not a package
            rc, o = sh(["go", "build", "./..."], cwd=scratch)
            os.rename(os.path.join(scratch, "_OUT"), os.path.join(scratch, "OUT"))
            ran["builds_with_change"] = rc == 0
            rc, o = sh(["bash", "-c", demo_cmd], cwd=scratch, env=denv, timeout=1200)
            ran["demo_with_change_fails"] = rc != 0
            ran["demo_tail"] = o[-600:]
            for src, rel in demos:
                os.remove(os.path.join(scratch, rel))
            shutil.rmtree(os.path.join(scratch, "OUT"), ignore_errors=True)
            rc, o = sh(["go", "test", "-vet=off", "-count=1", "./pkg/..."], cwd=scratch, timeout=1800)
            ran["existing_pkg_tests_pass_with_change"] = rc == 0
            for pl in ("plugins/device-injector", "plugins/ulimit-adjuster"):
                rc, o = sh(["go", "test", "-vet=off", "-count=1", "./..."], cwd=os.path.join(scratch, pl), timeout=1800)
                ran["existing_%s_tests_pass_with_change" % pl.split("/")[1]] = rc == 0
        elif not ported:
            sh(["git", "apply", patch], cwd=scratch)
        results = {}
        for p in props:
            t0 = time.time()
            env = dict(ENV, VERIF_REPO=scratch, VERIF_TIER=tier, VERIF_EVIDENCE_DIR=scratch + "-out", VERIF_REPLAY_DIR=scratch + "-out")
            rc, o = sh([os.path.join(V, "check"), p, "--tier", tier], cwd=V, env=env)
            verdict = [l for l in o.splitlines() if l.startswith(("VIOLATION", "OK ", "INCONCLUSIVE", "KNOWN-FINDING"))]
            results[p] = {"exit": rc, "result": "caught" if rc == 1 else "missed" if rc == 0 else "inconclusive",
                          "tier": tier, "wall_s": round(time.time() - t0, 1), "lines": verdict[:4]}
            # keep the shrunk failing case next to the seed as an illustration
            for ln in verdict:
                if ln.startswith("VIOLATION") and "replay=" in ln:
                    rp = ln.split("replay=", 1)[1].strip()
                    if os.path.exists(rp) and rp.startswith(scratch + "-out"):
                        shutil.copy(rp, os.path.join(dst, "caught-by-%s.json" % p))
            print(name, p, results[p]["result"], results[p]["wall_s"], "s", flush=True)
        return finish(dst, meta, ran, results)
    finally:
        shutil.rmtree(scratch, ignore_errors=True)
        shutil.rmtree(scratch + "-out", ignore_errors=True)


def finish(dst, meta, ran, results):
    if "builds_with_change" in ran or "confirmed_by_framework_author" not in meta:
        meta["confirmed_by_framework_author"] = ran
    prev = meta.get("checks", {})
    prev.update(results)
    meta["checks"] = prev
    json.dump(meta, open(os.path.join(dst, "meta.json"), "w"), indent=1)
    print(json.dumps(ran, indent=1)[:1500])
    return 0


if __name__ == "__main__":
    sys.exit(main())
