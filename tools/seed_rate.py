#!/usr/bin/env python3
"""Detection rate of stored seeds over several VERIF_SEED values.

  tools/seed_rate.py <n-seeds> <seed-name>...

For each stored seed: scratch copy of /repo HEAD + its patch (ported with context fuzz if it
no longer applies), then ./check <property> with VERIF_SEED = 2..n+1; prints "<seed> <prop>
k/n caught". A catch that depends on the luck of one pseudo-random stream shows here."""
import json, os, shutil, subprocess, sys

V = os.path.dirname(os.path.dirname(os.path.abspath(__file__)))
ENV = dict(os.environ, GOFLAGS="-mod=mod", GOPROXY="off", GOSUMDB="off", GOTOOLCHAIN="local")


def sh(cmd, cwd=None, env=None):
    p = subprocess.run(cmd, cwd=cwd, env=env or ENV, capture_output=True, text=True, shell=isinstance(cmd, str))
    return p.returncode, p.stdout + p.stderr


def main():
    n = int(sys.argv[1])
    for name in sys.argv[2:]:
        meta = json.load(open(os.path.join(V, "seeded", name, "meta.json")))
        prop = meta["property"]
        scratch = "/tmp/seedrate-%s-%d" % (name, os.getpid())
        try:
            os.makedirs(scratch)
            sh("git -C /repo archive HEAD | tar -x -C " + scratch)
            patch = os.path.join(V, "seeded", name, "patch.diff")
            rc, _ = sh("git init -q . && git apply " + patch, cwd=scratch)
            if rc != 0:
                rc, _ = sh("patch -p1 --fuzz=3 --no-backup-if-mismatch < " + patch, cwd=scratch)
                rc2, _ = sh(["go", "build", "./..."], cwd=scratch)
                if rc != 0 or rc2 != 0:
                    print(name, prop, "patch does not apply to HEAD", flush=True)
                    continue
            res = []
            for sd in range(2, n + 2):
                env = dict(ENV, VERIF_SEED=str(sd), VERIF_REPO=scratch, VERIF_EVIDENCE_DIR=scratch + "-out", VERIF_REPLAY_DIR=scratch + "-out")
                rc, _ = sh([os.path.join(V, "check"), prop], cwd=V, env=env)
                res.append(rc)
            print(name, prop, "%d/%d caught" % (sum(1 for r in res if r == 1), len(res)), "rcs", res, flush=True)
        finally:
            shutil.rmtree(scratch, ignore_errors=True)
            shutil.rmtree(scratch + "-out", ignore_errors=True)


if __name__ == "__main__":
    main()
