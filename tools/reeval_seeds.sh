#!/bin/bash
export GOFLAGS=-mod=mod GOPROXY=off GOSUMDB=off GOTOOLCHAIN=local
cd /verif
for n in "$@"; do
  p=$(python3 -c "import json;print(json.load(open('seeded/$n/meta.json'))['property'])")
  python3 tools/seed_eval.py $n - $p --noconfirm > /tmp/reeval-$n.log 2>&1
  python3 -c "
import json;m=json.load(open('seeded/$n/meta.json'));print('$n',{k:(v['result'],v['wall_s']) for k,v in m['checks'].items()}, m.get('ported_to',''))"
done
