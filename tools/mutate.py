#!/usr/bin/env python3
"""Sensitivity runner: applies hand-written mutants (exact string replacements) one at a time
to a scratch copy of /repo, checks that the copy still builds, runs the named checks against
it (VERIF_REPO) and reports which mutants were caught.

  tools/mutate.py <mutants.json> [--only name,...] [--tier quick] [--baseline]

mutants.json: [{"name":..., "file":..., "old":..., "new":..., "props":[...], "note":...}, ...]
With --baseline the repo's own test suite (pkg/...) is also run on each mutant to confirm it
survives the existing tests.
"""
import json, os, shutil, subprocess, sys, time

V = os.path.dirname(os.path.dirname(os.path.abspath(__file__)))
ENV = dict(os.environ, GOFLAGS="-mod=mod", GOPROXY="off", GOSUMDB="off", GOTOOLCHAIN="local")


def sh(cmd, cwd=None, env=None, timeout=1800):
    p = subprocess.run(cmd, cwd=cwd, env=env or ENV, capture_output=True, text=True, timeout=timeout)
    return p.returncode, p.stdout + p.stderr


def main():
    args = sys.argv[1:]
    spec = json.load(open(args[0]))
    only = None
    tier = "quick"
    baseline = "--baseline" in args
    if "--only" in args:
        only = set(args[args.index("--only") + 1].split(","))
    if "--tier" in args:
        tier = args[args.index("--tier") + 1]
    scratch = "/tmp/mut-%d" % os.getpid()
    results = []
    try:
        os.makedirs(scratch)
        rc, out = sh(["bash", "-c", "git -C /repo archive HEAD | tar -x -C " + scratch])
        assert rc == 0, out
        for m in spec:
            if only and m["name"] not in only:
                continue
            path = os.path.join(scratch, m["file"])
            orig = open(path).read()
            if orig.count(m["old"]) != m.get("count", 1):
                results.append((m["name"], "STALE (old text occurs %d times)" % orig.count(m["old"]), {}))
                print(results[-1], flush=True)
                continue
            open(path, "w").write(orig.replace(m["old"], m["new"]))
            try:
                rc, out = sh(["go", "build", "./..."], cwd=scratch)
                if rc != 0:
                    results.append((m["name"], "DOES NOT BUILD", {}))
                    print(results[-1], out[-400:], flush=True)
                    continue
                base = ""
                if baseline:
                    rc, out = sh(["go", "test", "-vet=off", "-count=1", "./pkg/..."], cwd=scratch)
                    base = "baseline-pass" if rc == 0 else "BASELINE-FAILS"
                per = {}
                for p in m["props"]:
                    t0 = time.time()
                    env = dict(ENV, VERIF_REPO=scratch, VERIF_TIER=tier, VERIF_EVIDENCE_DIR=scratch + "-out", VERIF_REPLAY_DIR=scratch + "-out")
                    rc, out = sh([os.path.join(V, "check"), p, "--tier", tier], cwd=V, env=env)
                    per[p] = ("caught" if rc == 1 else "MISSED" if rc == 0 else "inconclusive") + " %.0fs" % (time.time() - t0)
                    # replays written while running against a mutant are not findings of the real tree
                    for ln in out.splitlines():
                        if ln.startswith("VIOLATION") and "replay=" in ln:
                            rp = ln.split("replay=", 1)[1].strip()
                            if "/regress/" not in rp and "/known/" not in rp and os.path.exists(rp):
                                os.remove(rp)
                results.append((m["name"], base, per))
                print(results[-1], flush=True)
            finally:
                open(path, "w").write(orig)
    finally:
        shutil.rmtree(scratch, ignore_errors=True)
        shutil.rmtree(scratch + "-out", ignore_errors=True)
    print("\n| mutant | baseline | result |\n|---|---|---|")
    for name, base, per in results:
        print("| %s | %s | %s |" % (name, base, ", ".join("%s %s" % kv for kv in per.items())))


if __name__ == "__main__":
    main()
