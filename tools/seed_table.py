#!/usr/bin/env python3
"""Prints the markdown table of seeded changes (from seeded/*/meta.json) for DESIGN.md."""
import glob, json, os
V = os.path.dirname(os.path.dirname(os.path.abspath(__file__)))
print("| seed | property | what the change does (short) | needs | checks: result (quick tier, wall) | note |")
print("|---|---|---|---|---|---|")
for d in sorted(glob.glob(os.path.join(V, "seeded", "*"))):
    m = json.load(open(os.path.join(d, "meta.json")))
    res = "; ".join("%s %s %ss" % (k, v["result"], v["wall_s"]) for k, v in sorted(m.get("checks", {}).items()))
    short = lambda s, n: (s[:n] + "…") if len(s) > n else s
    note = "strengthened first" if "framework_note" in m and "MISSED by" not in m["framework_note"] else ("missed, see 11.5" if "framework_note" in m else "")
    print("| %s | %s | %s | %s | %s | %s |" % (os.path.basename(d), m.get("property"), short(m.get("summary", "").replace("|", "/").replace("\n", " "), 160),
                                           short(m.get("needs", "").replace("|", "/").replace("\n", " "), 140), res, note))
