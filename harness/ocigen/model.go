package ocigen

// Reference model of "apply one container adjustment to an OCI spec", written from the
// documented semantics (pkg/api/adjustment.go notes, the removal-marker convention of
// pkg/api/helpers.go, docs of the spec generator) and from the text of property C13. It
// shares no code with pkg/runtime-tools/generate.
//
//   * keyed collections (annotations, env by variable name, mounts by destination, devices
//     by path): removals first, then sets; a set therefore wins over a removal of the same
//     key within one adjustment whatever the order of the entries;
//   * args replace when non-empty; hooks, rlimits and CDI device names append;
//   * an added device also appends an allow rule to linux.resources.devices;
//   * a memory limit also sets swap to the same value;
//   * CPU fields, hugepage limits (by page size), unified entries (by key), pids limit,
//     cgroups path, OOM score adjustment, block-I/O class and RDT class are set when given;
//     an empty class name clears the corresponding section.
//
// The model writes into s (a private copy) and returns the CDI names an injector should be
// handed (nil = injector must not be called).

import (
	"os"
	"sort"
	"strings"

	rspec "github.com/opencontainers/runtime-spec/specs-go"
)

func sortedKeys(m map[string]string) []string {
	ks := make([]string, 0, len(m))
	for k := range m {
		ks = append(ks, k)
	}
	sort.Strings(ks)
	return ks
}

func modelHooks(dst *[]rspec.Hook, add []AdjHook) {
	for _, h := range add {
		o := rspec.Hook{Path: h.Path, Args: append([]string(nil), h.Args...), Env: append([]string(nil), h.Env...)}
		if h.Timeout != nil {
			t := int(*h.Timeout)
			o.Timeout = &t
		}
		*dst = append(*dst, o)
	}
}

func (h *AdjHooks) count() int {
	if h == nil {
		return 0
	}
	return len(h.Prestart) + len(h.CreateRuntime) + len(h.CreateContainer) + len(h.StartContainer) + len(h.Poststart) + len(h.Poststop)
}

func modelResources(s *rspec.Spec) *rspec.LinuxResources {
	if s.Linux.Resources == nil {
		s.Linux.Resources = &rspec.LinuxResources{}
	}
	return s.Linux.Resources
}

func applyModel(s *rspec.Spec, a *Adj, inj *Inject, step int) (cdi []string) {
	// --- annotations
	if len(a.Annotations) > 0 {
		keys := sortedKeys(a.Annotations)
		for _, k := range keys {
			if key, rm := marked(k); rm {
				delete(s.Annotations, key)
			}
		}
		for _, k := range keys {
			if _, rm := marked(k); !rm {
				if s.Annotations == nil {
					s.Annotations = map[string]string{}
				}
				s.Annotations[k] = a.Annotations[k]
			}
		}
	}

	// --- environment
	if len(a.Env) > 0 {
		removed, set := map[string]bool{}, map[string]string{}
		for _, e := range a.Env {
			if key, rm := marked(e.K); rm {
				removed[key] = true
			} else {
				set[e.K] = e.V
			}
		}
		var out []string
		have := map[string]bool{}
		for _, e := range s.Process.Env {
			k, _, _ := strings.Cut(e, "=")
			if v, ok := set[k]; ok {
				out = append(out, k+"="+v)
				have[k] = true
			} else if !removed[k] {
				out = append(out, e)
			}
		}
		for _, e := range a.Env {
			if _, rm := marked(e.K); !rm && !have[e.K] {
				out = append(out, e.K+"="+e.V)
			}
		}
		s.Process.Env = out
	}

	// --- args
	if len(a.Args) > 0 {
		s.Process.Args = append([]string(nil), a.Args...)
	}

	// --- hooks
	if a.Hooks.count() > 0 {
		if s.Hooks == nil {
			s.Hooks = &rspec.Hooks{}
		}
		modelHooks(&s.Hooks.Prestart, a.Hooks.Prestart)
		modelHooks(&s.Hooks.CreateRuntime, a.Hooks.CreateRuntime)
		modelHooks(&s.Hooks.CreateContainer, a.Hooks.CreateContainer)
		modelHooks(&s.Hooks.StartContainer, a.Hooks.StartContainer)
		modelHooks(&s.Hooks.Poststart, a.Hooks.Poststart)
		modelHooks(&s.Hooks.Poststop, a.Hooks.Poststop)
	}

	// --- CDI devices
	if len(a.CDI) > 0 {
		cdi = append([]string(nil), a.CDI...)
		// what the harness's injector callback appends when it is called; the oracle does
		// not depend on where among the other families this happens (injected names are
		// disjoint from every alphabet; the injected hook is matched wherever it sits in
		// the list of its kind)
		inj.apply(s, step)
	}

	// --- devices
	if len(a.Devices) > 0 {
		gone := map[string]bool{}
		for _, d := range a.Devices {
			key, _ := marked(d.Path)
			gone[key] = true
		}
		var out []rspec.LinuxDevice
		for _, d := range s.Linux.Devices {
			if !gone[d.Path] {
				out = append(out, d)
			}
		}
		for _, d := range a.Devices {
			if _, rm := marked(d.Path); rm {
				continue
			}
			o := rspec.LinuxDevice{Path: d.Path, Type: d.Type, Major: d.Major, Minor: d.Minor, UID: d.UID, GID: d.GID}
			if d.FileMode != nil {
				m := os.FileMode(*d.FileMode)
				o.FileMode = &m
			}
			out = append(out, o)
			major, minor := d.Major, d.Minor
			r := modelResources(s)
			// the access string is derived by the implementation; the oracle only
			// requires a non-empty combination of r, w, m
			r.Devices = append(r.Devices, rspec.LinuxDeviceCgroup{Allow: true, Type: d.Type, Major: &major, Minor: &minor, Access: "rwm"})
		}
		s.Linux.Devices = out
	}

	// --- cgroups path, OOM score
	if a.CgroupsPath != "" {
		s.Linux.CgroupsPath = a.CgroupsPath
	}
	if a.OomScoreAdj != nil {
		v := int(*a.OomScoreAdj)
		s.Process.OOMScoreAdj = &v
	}

	// --- resources
	if c := a.CPU; c != nil {
		if c.Period != nil || c.Quota != nil || c.Shares != nil || c.Cpus != "" || c.Mems != "" || c.RtRuntime != nil || c.RtPeriod != nil {
			r := modelResources(s)
			if r.CPU == nil {
				r.CPU = &rspec.LinuxCPU{}
			}
			if c.Period != nil {
				v := *c.Period
				r.CPU.Period = &v
			}
			if c.Quota != nil {
				v := *c.Quota
				r.CPU.Quota = &v
			}
			if c.Shares != nil {
				v := *c.Shares
				r.CPU.Shares = &v
			}
			if c.Cpus != "" {
				r.CPU.Cpus = c.Cpus
			}
			if c.Mems != "" {
				r.CPU.Mems = c.Mems
			}
			if c.RtRuntime != nil {
				v := *c.RtRuntime
				r.CPU.RealtimeRuntime = &v
			}
			if c.RtPeriod != nil {
				v := *c.RtPeriod
				r.CPU.RealtimePeriod = &v
			}
		}
	}
	if a.MemLimit != nil {
		r := modelResources(s)
		if r.Memory == nil {
			r.Memory = &rspec.LinuxMemory{}
		}
		l, sw := *a.MemLimit, *a.MemLimit
		r.Memory.Limit, r.Memory.Swap = &l, &sw
	}
	for _, h := range a.Hugepages {
		r := modelResources(s)
		found := false
		for i := range r.HugepageLimits {
			if r.HugepageLimits[i].Pagesize == h.PageSize {
				r.HugepageLimits[i].Limit = h.Limit
				found = true
				break
			}
		}
		if !found {
			r.HugepageLimits = append(r.HugepageLimits, rspec.LinuxHugepageLimit{Pagesize: h.PageSize, Limit: h.Limit})
		}
	}
	for _, k := range sortedKeys(a.Unified) {
		r := modelResources(s)
		if r.Unified == nil {
			r.Unified = map[string]string{}
		}
		r.Unified[k] = a.Unified[k]
	}
	if a.Pids != nil {
		modelResources(s).Pids = &rspec.LinuxPids{Limit: *a.Pids}
	}
	if a.BlockIOClass != nil {
		if *a.BlockIOClass == "" {
			if s.Linux.Resources != nil {
				s.Linux.Resources.BlockIO = nil
			}
		} else {
			modelResources(s).BlockIO, _ = resolveBlockIO(*a.BlockIOClass)
		}
	}
	if a.RdtClass != nil {
		if *a.RdtClass == "" {
			s.Linux.IntelRdt = nil
		} else {
			s.Linux.IntelRdt, _ = resolveRdt(*a.RdtClass)
		}
	}

	// --- mounts (order is judged separately: parents before children)
	if len(a.Mounts) > 0 {
		gone := map[string]bool{}
		for _, m := range a.Mounts {
			key, _ := marked(m.Dest)
			gone[key] = true
		}
		var out []rspec.Mount
		for _, m := range s.Mounts {
			if !gone[m.Destination] {
				out = append(out, m)
			}
		}
		for _, m := range a.Mounts {
			if _, rm := marked(m.Dest); rm {
				continue
			}
			out = append(out, rspec.Mount{Destination: m.Dest, Type: m.Type, Source: m.Source, Options: append([]string(nil), m.Options...)})
		}
		s.Mounts = out
	}

	// --- rlimits
	for _, l := range a.Rlimits {
		s.Process.Rlimits = append(s.Process.Rlimits, rspec.POSIXRlimit{Type: l.Type, Hard: l.Hard, Soft: l.Soft})
	}
	return cdi
}
