package ocigen

// C13 — applying an adjustment changes exactly what it names, deterministically.
//
// run applies the adjustment Reps times to fresh deep copies of the spec through the real
// generate.SpecGenerator(...).Adjust and judges:
//   (1) "the same inputs always give the same spec": all results (canonical JSON + names
//       handed to the CDI injector) are identical;
//   (2) "removes the items marked for removal and sets the items given, with a set winning
//       over a removal of the same key ... and leaves everything else untouched; requested
//       ... changes appear in the spec with the requested values": the result equals the
//       reference model's (model.go), family by family (see compare);
//   (3) "after mount adjustments every mount comes after all mounts of its parent
//       directories".

import (
	"bytes"
	"encoding/json"
	"fmt"
	"os"
	"path"
	"path/filepath"
	"reflect"
	"sort"
	"strings"
	"testing"

	nri "github.com/containerd/nri/pkg/api"
	xgen "github.com/containerd/nri/pkg/runtime-tools/generate"
	rspec "github.com/opencontainers/runtime-spec/specs-go"
	rgen "github.com/opencontainers/runtime-tools/generate"

	"nriverif/ev"
)

// stepResult is what one Adjust call of a history left behind.
type stepResult struct {
	canon    string // canonical JSON of the spec after the step + CDI calls of the step
	cdiCalls [][]string
}

func copySpec(s *rspec.Spec) *rspec.Spec {
	out := &rspec.Spec{}
	b, _ := json.Marshal(s)
	_ = json.Unmarshal(b, out)
	return out
}

// fillSentinel makes v a recognisable non-zero value of its type.
func fillSentinel(v reflect.Value) {
	switch v.Kind() {
	case reflect.String:
		v.SetString("~sentinel~")
	case reflect.Bool:
		v.SetBool(true)
	case reflect.Int, reflect.Int8, reflect.Int16, reflect.Int32, reflect.Int64:
		v.SetInt(0x5a)
	case reflect.Uint, reflect.Uint8, reflect.Uint16, reflect.Uint32, reflect.Uint64:
		v.SetUint(0x5a)
	case reflect.Struct:
		for i := 0; i < v.NumField(); i++ {
			if v.Field(i).CanSet() {
				fillSentinel(v.Field(i))
			}
		}
	}
}

// walkSlices visits every non-nil slice reachable from v through pointers, struct fields
// and slice elements.
func walkSlices(v reflect.Value, path string, visit func(path string, s reflect.Value)) {
	switch v.Kind() {
	case reflect.Ptr:
		if !v.IsNil() {
			walkSlices(v.Elem(), path, visit)
		}
	case reflect.Struct:
		t := v.Type()
		for i := 0; i < v.NumField(); i++ {
			if t.Field(i).IsExported() {
				walkSlices(v.Field(i), path+"."+t.Field(i).Name, visit)
			}
		}
	case reflect.Slice:
		if v.IsNil() {
			return
		}
		visit(path, v)
		if k := v.Type().Elem().Kind(); k == reflect.Struct || k == reflect.Ptr || k == reflect.Slice {
			for i := 0; i < v.Len(); i++ {
				walkSlices(v.Index(i), fmt.Sprintf("%s[%d]", path, i), visit)
			}
		}
	}
}

// aliasProbe appends a sentinel element to a shallow view of every slice of the spec that
// has spare capacity (exactly what a later `s = append(s, x)` by a CDI injector, a second
// Adjust or the runtime does: it writes into the spare capacity) and requires that nothing
// else changes: neither any other part of the spec nor the adjustment object. A slice
// whose spare capacity overlaps the storage of another one fails this.
func aliasProbe(spec *rspec.Spec, adj *nri.ContainerAdjustment) (fail string, probed int) {
	specSnap, adjSnap := canon(spec), canon(adj)
	walkSlices(reflect.ValueOf(spec), "spec", func(path string, sl reflect.Value) {
		if fail != "" || sl.Cap() == sl.Len() {
			return
		}
		probed++
		elem := reflect.New(sl.Type().Elem()).Elem()
		fillSentinel(elem)
		_ = reflect.Append(sl, elem) // the view is dropped; only spare capacity was written
		if now := canon(spec); now != specSnap {
			var d []string
			diff("", generic([]byte(specSnap)), generic([]byte(now)), &d, 4)
			fail = fmt.Sprintf("appending one element to %s (len %d) changed other parts of the spec (its spare capacity is shared): %s", path, sl.Len(), strings.Join(d, "; "))
			return
		}
		if now := canon(adj); now != adjSnap {
			fail = fmt.Sprintf("appending one element to %s (len %d) changed the adjustment object: before %s, after %s", path, sl.Len(), adjSnap, now)
		}
	})
	return fail, probed
}

// harnessGen is one generator under test over the caller's spec, with the harness's callbacks.
type harnessGen struct {
	xg       *xgen.Generator
	rg       *rgen.Generator
	step     int        // current step number (names what the injector appends)
	cdiCalls [][]string // names handed to the injector in the current step
}

// newHarnessGen builds the generator the way a runtime does: over the caller's *Spec, with a
// CDI injector (records the names; fails for an unresolvable device, otherwise edits the
// spec it is handed when inj is set), class resolvers (fail for an unknown class) and an
// annotation filter (rejects one forbidden annotation, passes everything else unchanged).
func newHarnessGen(spec *rspec.Spec, fromSpec bool, inj *Inject) *harnessGen {
	h := &harnessGen{}
	if fromSpec {
		g := rgen.NewFromSpec(spec)
		h.rg = &g
	} else {
		h.rg = &rgen.Generator{Config: spec}
	}
	h.xg = xgen.SpecGenerator(h.rg,
		xgen.WithBlockIOResolver(resolveBlockIO),
		xgen.WithRdtResolver(resolveRdt),
		xgen.WithAnnotationFilter(func(m map[string]string) (map[string]string, error) {
			if _, bad := m[failAnnotation]; bad {
				return nil, fmt.Errorf("annotation %q is not allowed", failAnnotation)
			}
			return m, nil
		}),
		xgen.WithCDIDeviceInjector(func(s *rspec.Spec, names []string) error {
			h.cdiCalls = append(h.cdiCalls, append([]string(nil), names...))
			for _, n := range names {
				if n == failCDIName {
					return fmt.Errorf("unresolvable CDI device %q", n)
				}
			}
			inj.apply(s, h.step) // a real injector edits the spec it is handed
			return nil
		}),
	)
	return h
}

func (h *harnessGen) adjust(step int, adj *nri.ContainerAdjustment) (err error, panicked any) {
	defer func() {
		if p := recover(); p != nil {
			panicked = p
		}
	}()
	h.step, h.cdiCalls = step, nil
	return h.xg.Adjust(adj), nil
}

// runHistory applies the adjustments one after another to ONE generator created over a
// fresh copy of the spec. The result of every step is read through the pointer the harness
// handed to the generator (a runtime keeps its *Spec; what the generator holds internally
// is not observable to it).
//
// With judge set, every step that is expected to succeed is compared with the model
// (folded step by step from the state of the caller's spec before the step) and followed by
// the aliasing probe. A step carrying a failure token may fail: nothing is demanded of what
// a failed Adjust leaves in the spec (the statement speaks about applied adjustments); the
// state it left is simply the spec the next step starts from. The steps AFTER a failed one
// are judged like any other ("requested ... changes appear in the spec with the requested
// values") and must in addition equal what a FRESH generator over a copy of the same spec
// state gives for the same adjustment ("the same inputs always give the same spec").
// shared, when non-nil, supplies the adjustment objects (the same ones as in earlier
// histories) instead of fresh ones.
func runHistory(specJSON []byte, steps []Adj, fromSpec bool, inj *Inject, shared []*nri.ContainerAdjustment, judge, probe bool) (results []stepResult, out ev.Outcome) {
	spec := &rspec.Spec{}
	if err := json.Unmarshal(specJSON, spec); err != nil {
		return nil, ev.Outcome{Excluded: "spec not decodable"}
	}
	h := newHarnessGen(spec, fromSpec, inj)
	afterFailure := false
	for step := 0; step < len(steps); step++ {
		a := &steps[step]
		mayFail := a.failToken() != ""
		var orig, want *rspec.Spec
		var wantCDI []string
		if judge {
			orig = copySpec(spec)
			if !mayFail {
				want = copySpec(spec)
				wantCDI = applyModel(want, a, inj, step)
			}
		}
		adj := a.ToNRI()
		if shared != nil {
			adj = shared[step]
		}
		err, panicked := h.adjust(step, adj)
		if panicked != nil {
			return nil, ev.Failf("Adjust panicked (step %d of the history): %v", step, panicked)
		}
		if err != nil && !mayFail {
			return nil, ev.Failf("Adjust failed (step %d of the history) although every callback succeeded: %v", step, err)
		}
		results = append(results, stepResult{canon: fmt.Sprintf("%s failed=%v cdi=%s", canon(spec), err != nil, canon(h.cdiCalls)), cdiCalls: h.cdiCalls})
		if mayFail {
			if err != nil {
				afterFailure = true
			} else {
				out.Lenient = append(out.Lenient, "failing_callback_but_adjust_succeeded")
			}
			continue // nothing is demanded of a step whose callback failed
		}
		if judge {
			// CDI names as handed to the injector
			if wantCDI == nil {
				if len(h.cdiCalls) != 0 {
					return nil, ev.Failf("step %d: CDI injector called although no CDI device was requested: %s", step, canon(h.cdiCalls))
				}
			} else if len(h.cdiCalls) != 1 || !reflect.DeepEqual(h.cdiCalls[0], wantCDI) {
				return nil, ev.Failf("step %d: CDI devices: requested %s, injector was handed %s", step, canon(wantCDI), canon(h.cdiCalls))
			}
			got := copySpec(spec)
			gotCopy, wantCopy := canon(got), canon(want)
			var injected *Inject
			if len(a.CDI) > 0 {
				injected = inj
			}
			fail, lenient := compare(orig, want, got, a, injected, step)
			if fail != "" {
				o := ev.Failf("step %d: %s", step, fail)
				if afterFailure {
					o = ev.Failf("step %d (after an earlier Adjust on this generator failed; spec read through the caller's pointer): %s", step, fail)
				}
				o.History = map[string]any{"result": json.RawMessage(gotCopy), "model": json.RawMessage(wantCopy), "before_step": orig}
				return nil, o
			}
			out.Lenient = append(out.Lenient, lenient...)
			if afterFailure {
				// the same spec state and the same adjustment through a fresh generator
				fresh := newHarnessGen(orig, fromSpec, inj)
				ferr, fpanic := fresh.adjust(step, a.ToNRI())
				if ferr != nil || fpanic != nil {
					return nil, ev.Failf("step %d: a fresh generator over the same spec fails on this adjustment: %v %v", step, ferr, fpanic)
				}
				if fc := canon(orig); fc != gotCopy {
					var d []string
					diff("", generic([]byte(fc)), generic([]byte(gotCopy)), &d, 6)
					o := ev.Failf("step %d: the same inputs gave different specs: after an earlier failed Adjust the generator gives another result than a fresh generator over the same spec: %s", step, strings.Join(d, "; "))
					o.History = map[string]any{"reused_generator": json.RawMessage(gotCopy), "fresh_generator": json.RawMessage(fc)}
					return nil, o
				}
			}
		}
		if probe {
			fail, _ := aliasProbe(spec, adj)
			if fail != "" {
				return nil, ev.Failf("step %d: %s", step, fail)
			}
		}
	}
	return results, out
}

func canon(v any) string {
	b, err := json.Marshal(v) // map keys sorted
	if err != nil {
		return "marshal error: " + err.Error()
	}
	return string(b)
}

// generic decodes JSON keeping numbers exact.
func generic(b []byte) any {
	dec := json.NewDecoder(bytes.NewReader(b))
	dec.UseNumber()
	var v any
	_ = dec.Decode(&v)
	return v
}

// prune removes null values, empty objects and empty arrays bottom-up: setters of the
// generator allocate empty sub-sections, which carry no meaning.
func prune(v any) any {
	switch x := v.(type) {
	case map[string]any:
		for k, e := range x {
			p := prune(e)
			if p == nil {
				delete(x, k)
			} else {
				x[k] = p
			}
		}
		if len(x) == 0 {
			return nil
		}
		return x
	case []any:
		if len(x) == 0 {
			return nil
		}
		for i := range x {
			if p := prune(x[i]); p != nil {
				x[i] = p
			} else if _, isObj := x[i].(map[string]any); isObj {
				x[i] = map[string]any{}
			}
		}
		return x
	}
	return v
}

// diff lists the JSON paths where want and got differ (at most max entries).
func diff(pathPrefix string, want, got any, out *[]string, max int) {
	if len(*out) >= max {
		return
	}
	wm, wok := want.(map[string]any)
	gm, gok := got.(map[string]any)
	if wok && gok {
		keys := map[string]bool{}
		for k := range wm {
			keys[k] = true
		}
		for k := range gm {
			keys[k] = true
		}
		ks := make([]string, 0, len(keys))
		for k := range keys {
			ks = append(ks, k)
		}
		sort.Strings(ks)
		for _, k := range ks {
			diff(pathPrefix+"."+k, wm[k], gm[k], out, max)
		}
		return
	}
	if !reflect.DeepEqual(want, got) {
		*out = append(*out, fmt.Sprintf("%s: want %s, got %s", strings.TrimPrefix(pathPrefix, "."), canon(want), canon(got)))
	}
}

func isAncestor(parent, child string) bool {
	if parent == child {
		return false
	}
	if parent == "/" {
		return strings.HasPrefix(child, "/")
	}
	return strings.HasPrefix(child, parent+"/")
}

func resources(s *rspec.Spec) *rspec.LinuxResources {
	if s.Linux == nil || s.Linux.Resources == nil {
		return &rspec.LinuxResources{}
	}
	return s.Linux.Resources
}

func accessOK(s string) bool {
	if s == "" {
		return false
	}
	for _, c := range s {
		if !strings.ContainsRune("rwm", c) {
			return false
		}
	}
	return true
}

// compare judges got (the implementation's result) against want (the model's result);
// orig is the spec before the adjustment. It consumes want and got.
func compare(orig, want, got *rspec.Spec, a *Adj, injected *Inject, step int) (fail string, lenient []string) {
	if got.Process == nil || got.Linux == nil {
		return fmt.Sprintf("process or linux section vanished: process nil=%v linux nil=%v", got.Process == nil, got.Linux == nil), nil
	}

	// --- the hook appended by the CDI injector callback in this step must be there exactly
	// once, in the list of its kind (wherever the implementation calls the injector relative
	// to its own hook handling); it is then taken out so that the requested hooks are
	// compared in order below
	if injected != nil && hookList(&rspec.Hooks{}, injected.HookKind) != nil {
		strip := func(s *rspec.Spec) (inKind, elsewhere int) {
			if s.Hooks == nil {
				return 0, 0
			}
			for _, kind := range hookKinds {
				l := hookList(s.Hooks, kind)
				var keep []rspec.Hook
				for _, h := range *l {
					if isInjectedHook(h, step) {
						if kind == injected.HookKind {
							inKind++
						} else {
							elsewhere++
						}
						continue
					}
					keep = append(keep, h)
				}
				*l = keep
			}
			return inKind, elsewhere
		}
		gotHooks := canon(got.Hooks)
		strip(want)
		if in, other := strip(got); in != 1 || other != 0 {
			return fmt.Sprintf("the %s hook appended by the CDI injector appears %d times in its list and %d times in other lists: %s", injected.HookKind, in, other, gotHooks), nil
		}
	}

	// --- environment: as name->value, no duplicate names, untouched entries keep their order
	{
		named := map[string]bool{}
		for _, e := range a.Env {
			k, _ := marked(e.K)
			named[k] = true
		}
		wantEnv := map[string]string{}
		for _, e := range want.Process.Env {
			k, v, _ := strings.Cut(e, "=")
			wantEnv[k] = v
		}
		gotEnv := map[string]string{}
		var gotUntouched, origUntouched []string
		for _, e := range got.Process.Env {
			k, v, ok := strings.Cut(e, "=")
			if !ok {
				return fmt.Sprintf("env entry %q has no '='", e), nil
			}
			if _, dup := gotEnv[k]; dup {
				return fmt.Sprintf("env: variable %s appears twice: %q", k, got.Process.Env), nil
			}
			gotEnv[k] = v
			if !named[k] {
				gotUntouched = append(gotUntouched, e)
			}
		}
		// (the model keeps untouched entries in their original order and has what the CDI
		// injector appended at the end)
		for _, e := range want.Process.Env {
			if k, _, _ := strings.Cut(e, "="); !named[k] {
				origUntouched = append(origUntouched, e)
			}
		}
		if !reflect.DeepEqual(wantEnv, gotEnv) {
			return fmt.Sprintf("env differs: want %s, got %s (original %q, adjustment %s)", canon(wantEnv), canon(gotEnv), orig.Process.Env, canon(a.Env)), nil
		}
		if !reflect.DeepEqual(gotUntouched, origUntouched) {
			return fmt.Sprintf("env: untouched entries changed or reordered: before %q, after %q", origUntouched, gotUntouched), nil
		}
	}

	// --- mounts: keyed by destination; order judged by the parents-first rule only
	if len(a.Mounts) == 0 {
		if w, g := canon(want.Mounts), canon(got.Mounts); w != g && !(len(want.Mounts) == 0 && len(got.Mounts) == 0) {
			return fmt.Sprintf("mounts changed although the adjustment names none: before %s, after %s", w, g), nil
		}
	} else {
		wm, gm := map[string]string{}, map[string]string{}
		for _, m := range want.Mounts {
			wm[m.Destination] = canon(m)
		}
		for _, m := range got.Mounts {
			if _, dup := gm[m.Destination]; dup {
				return fmt.Sprintf("mounts: destination %q appears twice: %s", m.Destination, canon(got.Mounts)), nil
			}
			gm[m.Destination] = canon(m)
		}
		if !reflect.DeepEqual(wm, gm) {
			return fmt.Sprintf("mounts differ: want %s, got %s (original %s, adjustment %s)", canon(wm), canon(gm), canon(orig.Mounts), canon(a.Mounts)), nil
		}
		for j := range got.Mounts {
			cj := path.Clean(got.Mounts[j].Destination)
			for i := j + 1; i < len(got.Mounts); i++ {
				if ci := path.Clean(got.Mounts[i].Destination); isAncestor(ci, cj) {
					return fmt.Sprintf("mount order: %q (index %d) comes before its parent directory %q (index %d): %s",
						got.Mounts[j].Destination, j, got.Mounts[i].Destination, i, canon(got.Mounts)), nil
				}
			}
		}
	}

	// --- devices: keyed by path
	if len(a.Devices) == 0 {
		if w, g := canon(want.Linux.Devices), canon(got.Linux.Devices); w != g && !(len(want.Linux.Devices) == 0 && len(got.Linux.Devices) == 0) {
			return fmt.Sprintf("devices changed although the adjustment names none: before %s, after %s", w, g), nil
		}
	} else {
		wd, gd := map[string]string{}, map[string]string{}
		for _, d := range want.Linux.Devices {
			wd[d.Path] = canon(d)
		}
		for _, d := range got.Linux.Devices {
			if _, dup := gd[d.Path]; dup {
				return fmt.Sprintf("devices: path %q appears twice: %s", d.Path, canon(got.Linux.Devices)), nil
			}
			gd[d.Path] = canon(d)
		}
		if !reflect.DeepEqual(wd, gd) {
			return fmt.Sprintf("devices differ: want %s, got %s (original %s, adjustment %s)", canon(wd), canon(gd), canon(orig.Linux.Devices), canon(a.Devices)), nil
		}
	}

	// --- device cgroup rules: original rules untouched, then one allow rule per added
	// device (type, major, minor as requested; access string chosen by the implementation)
	{
		or, wr, gr := resources(orig).Devices, resources(want).Devices, resources(got).Devices
		if len(wr) != len(gr) {
			return fmt.Sprintf("device cgroup rules: want %d rules, got %d: want %s, got %s", len(wr), len(gr), canon(wr), canon(gr)), nil
		}
		for i := range wr {
			w, g := wr[i], gr[i]
			if i < len(or) {
				if canon(w) != canon(g) {
					return fmt.Sprintf("device cgroup rule %d changed: before %s, after %s", i, canon(w), canon(g)), nil
				}
				continue
			}
			if !g.Allow || g.Type != w.Type || g.Major == nil || g.Minor == nil || *g.Major != *w.Major || *g.Minor != *w.Minor || !accessOK(g.Access) {
				return fmt.Sprintf("device cgroup rule %d for an added device: want allow %s %d:%d, got %s", i, w.Type, *w.Major, *w.Minor, canon(g)), nil
			}
		}
		if len(gr) > len(or) {
			lenient = append(lenient, "device_rule_access_string")
		}
	}

	// --- rlimits: the last entry of each requested type carries the request; entries of
	// other types are untouched
	{
		req := map[string]AdjRlimit{}
		for _, l := range a.Rlimits {
			req[l.Type] = l
		}
		last := map[string]rspec.POSIXRlimit{}
		var gotOther, origOther []rspec.POSIXRlimit
		for _, l := range got.Process.Rlimits {
			last[l.Type] = l
			if _, ok := req[l.Type]; !ok {
				gotOther = append(gotOther, l)
			}
		}
		for _, l := range orig.Process.Rlimits {
			if _, ok := req[l.Type]; !ok {
				origOther = append(origOther, l)
			}
		}
		for ty, r := range req {
			if l, ok := last[ty]; !ok || l.Hard != r.Hard || l.Soft != r.Soft {
				return fmt.Sprintf("rlimit %s: requested hard=%d soft=%d, spec has %s", ty, r.Hard, r.Soft, canon(got.Process.Rlimits)), nil
			}
		}
		if !reflect.DeepEqual(gotOther, origOther) {
			return fmt.Sprintf("rlimits of types the adjustment does not name changed: before %s, after %s", canon(origOther), canon(gotOther)), nil
		}
	}

	// --- hugepage limits: keyed by page size
	{
		wh, gh := map[string]uint64{}, map[string]uint64{}
		for _, h := range resources(want).HugepageLimits {
			wh[h.Pagesize] = h.Limit
		}
		for _, h := range resources(got).HugepageLimits {
			if _, dup := gh[h.Pagesize]; dup {
				return fmt.Sprintf("hugepage limits: page size %q appears twice: %s", h.Pagesize, canon(resources(got).HugepageLimits)), nil
			}
			gh[h.Pagesize] = h.Limit
		}
		if !reflect.DeepEqual(wh, gh) {
			return fmt.Sprintf("hugepage limits differ: want %v, got %v", wh, gh), nil
		}
	}

	// --- memory swap follows a requested memory limit by design: accept it, or untouched
	if a.MemLimit != nil {
		var os_, gs *int64
		if m := resources(orig).Memory; m != nil {
			os_ = m.Swap
		}
		if m := resources(got).Memory; m != nil {
			gs = m.Swap
		}
		same := (os_ == nil && gs == nil) || (os_ != nil && gs != nil && *os_ == *gs)
		follows := gs != nil && *gs == *a.MemLimit
		if !same && !follows {
			return fmt.Sprintf("memory swap is neither untouched nor equal to the requested limit %d: %s", *a.MemLimit, canon(resources(got).Memory)), nil
		}
		if follows && !same {
			lenient = append(lenient, "memory_swap_follows_limit")
		}
		if m := resources(got).Memory; m != nil {
			m.Swap = nil
		}
		if m := resources(want).Memory; m != nil {
			m.Swap = nil
		}
	}

	// --- everything else, compared exactly: annotations, args, the six hook lists in order,
	// CPU fields, memory limit, unified, pids, block I/O, RDT, cgroups path, OOM score and
	// every section the adjustment cannot name.
	for _, s := range []*rspec.Spec{want, got} {
		s.Process.Env, s.Process.Rlimits, s.Mounts, s.Linux.Devices = nil, nil, nil, nil
		if s.Linux.Resources != nil {
			s.Linux.Resources.Devices, s.Linux.Resources.HugepageLimits = nil, nil
		}
	}
	wj, gj := canon(want), canon(got)
	wv, gv := prune(generic([]byte(wj))), prune(generic([]byte(gj)))
	if !reflect.DeepEqual(wv, gv) {
		var d []string
		diff("", wv, gv, &d, 6)
		return "spec differs from the expected result at: " + strings.Join(d, "; "), nil
	}
	return "", lenient
}

// classify computes the histogram classes and the non-triviality of a case.
func classify(c *C13Case) (classes []string, nontrivial bool) {
	s, a := &c.Spec, &c.Adj
	add := func(k string) { classes = append(classes, k) }
	families := 0

	keyed := func(fam string, entries []string, present func(string) bool) {
		if len(entries) == 0 {
			return
		}
		families++
		rmAt, setAt := map[string]int{}, map[string]int{}
		for i, k := range entries {
			if key, rm := marked(k); rm {
				rmAt[key] = i
			} else {
				setAt[k] = i
			}
		}
		seen := map[string]bool{}
		for _, m := range []map[string]int{setAt, rmAt} {
			for k := range m {
				if fam == "mnt" || fam == "dev" {
					// paths always start with '/': look at the path segments instead
					for _, seg := range strings.Split(k, "/") {
						if c := firstByteClass(seg); c != "" && seg != "." {
							seen["path_segment_"+c] = true
						}
					}
				} else if c := firstByteClass(k); c != "" {
					seen["key_"+c] = true
				}
			}
		}
		for k, si := range setAt {
			if ri, both := rmAt[k]; both {
				nontrivial = true
				if k != "" && k[0] < '-' {
					// the plain key sorts BEFORE its removal marker
					seen["both_key_first_byte_below_dash"] = true
				}
				if fam == "ann" {
					seen["remove_and_set_same_key"] = true
				} else if ri < si {
					seen["remove_then_set"] = true
				} else {
					seen["set_then_remove"] = true
				}
				if present(k) {
					seen["both_on_present"] = true
				} else {
					seen["both_on_absent"] = true
				}
			} else if present(k) {
				nontrivial = true
				seen["replace_present"] = true
			} else {
				seen["add_new"] = true
			}
		}
		for k := range rmAt {
			if strings.HasPrefix(k, "-") {
				// the item to remove has a key that itself starts with a dash (its marker is "--...")
				if present(k) {
					nontrivial = true
					seen["dash_key_removal_present"] = true
					if sib := strings.TrimLeft(k, "-"); (sib != "" && present(sib)) || (k[1:] != "" && present(k[1:])) {
						seen["dash_key_removal_sibling_present"] = true
					}
				} else {
					seen["dash_key_removal_absent"] = true
				}
			}
			if _, both := setAt[k]; both {
				continue
			}
			if present(k) {
				nontrivial = true
				seen["remove_present"] = true
			} else {
				seen["remove_absent"] = true
			}
		}
		ks := make([]string, 0, len(seen))
		for k := range seen {
			ks = append(ks, k)
		}
		sort.Strings(ks)
		for _, k := range ks {
			add(fam + ":" + k)
		}
	}

	var ents []string
	for k := range a.Annotations {
		ents = append(ents, k)
	}
	sort.Strings(ents)
	keyed("ann", ents, func(k string) bool { _, ok := s.Annotations[k]; return ok })

	ents = nil
	for _, e := range a.Env {
		ents = append(ents, e.K)
	}
	envHas := map[string]bool{}
	for _, e := range s.Process.Env {
		k, _, _ := strings.Cut(e, "=")
		envHas[k] = true
	}
	keyed("env", ents, func(k string) bool { return envHas[k] })

	ents = nil
	for _, m := range a.Mounts {
		ents = append(ents, m.Dest)
	}
	mntHas := map[string]bool{}
	for _, m := range s.Mounts {
		mntHas[m.Destination] = true
	}
	keyed("mnt", ents, func(k string) bool { return mntHas[k] })
	for _, m := range a.Mounts {
		if _, rm := marked(m.Dest); rm {
			continue
		}
		var props []string
		for _, o := range m.Options {
			if o == "rprivate" || o == "rshared" || o == "rslave" {
				props = append(props, o)
			}
		}
		if len(props) >= 2 && props[0] != "rprivate" {
			add("mnt:earlier_shared_or_slave_propagation_overridden_by_last_rprivate")
			break
		}
	}
	if len(a.Mounts) > 0 {
		// shape of the resulting mount table
		var dests []string
		gone := map[string]bool{}
		for _, m := range a.Mounts {
			k, rm := marked(m.Dest)
			gone[k] = true
			if !rm {
				dests = append(dests, k)
			}
		}
		for _, m := range s.Mounts {
			if !gone[m.Destination] {
				dests = append(dests, m.Destination)
			}
		}
		chain, unclean, root := false, false, false
		for i, d := range dests {
			if d == "/" {
				root = true
			} else if path.Clean(d) != d {
				unclean = true
			}
			for j, e := range dests {
				if i != j && isAncestor(path.Clean(d), path.Clean(e)) {
					chain = true
				}
			}
		}
		if chain {
			add("mnt:parent_and_child_in_result")
		}
		if unclean {
			add("mnt:unclean_spelling_in_result")
		}
		if root {
			add("mnt:root_in_result")
		}
	}

	ents = nil
	for _, d := range a.Devices {
		ents = append(ents, d.Path)
	}
	devHas := map[string]bool{}
	for _, d := range s.Linux.Devices {
		devHas[d.Path] = true
	}
	keyed("dev", ents, func(k string) bool { return devHas[k] })
	{
		// ids shared between two id spaces: a device set at the (cleaned) destination of a mount
		isBind := func(m rspec.Mount) bool {
			if m.Type == "bind" {
				return true
			}
			for _, o := range m.Options {
				if o == "bind" || o == "rbind" {
					return true
				}
			}
			return false
		}
		atMount, atBind, alsoRemoved, atAdjMount := false, false, false, false
		for _, d := range a.Devices {
			if _, rm := marked(d.Path); rm {
				continue
			}
			for _, m := range s.Mounts {
				if path.Clean(m.Destination) != path.Clean(d.Path) {
					continue
				}
				atMount = true
				if isBind(m) {
					atBind = true
					for _, am := range a.Mounts {
						if k, rm := marked(am.Dest); rm && k == m.Destination {
							alsoRemoved = true
						}
					}
				}
			}
			for _, am := range a.Mounts {
				if _, rm := marked(am.Dest); !rm && path.Clean(am.Dest) == path.Clean(d.Path) {
					atAdjMount = true
				}
			}
			if c.Inject != nil && c.Inject.MountAtDevice && len(a.CDI) > 0 && path.Clean(d.Path) == "/dev/nvidia0" {
				add("dev:set_at_bind_mount_from_injector")
			}
		}
		if atMount {
			add("dev:set_at_mount_destination_in_spec")
		}
		if atBind {
			add("dev:set_at_bind_mount_destination_in_spec")
		}
		if alsoRemoved {
			add("dev:set_at_bind_mount_removed_by_same_adjustment")
		}
		if atAdjMount {
			add("dev:set_at_mount_added_by_same_adjustment")
		}
	}

	scalar := func(name string, requested, replaces bool) {
		if !requested {
			return
		}
		families++
		if replaces {
			nontrivial = true
			add(name + ":replaces")
		} else {
			add(name + ":new")
		}
	}
	r := resources(s)
	scalar("args", len(a.Args) > 0, len(s.Process.Args) > 0)
	{
		// argument values some layer might want to interpret
		defined := map[string]bool{}
		for _, e := range s.Process.Env {
			k, _, _ := strings.Cut(e, "=")
			defined[k] = true
		}
		for _, e := range a.Env {
			if k, rm := marked(e.K); !rm {
				defined[k] = true
			}
		}
		dollar, escaped, ref := false, false, false
		for _, arg := range a.Args {
			if strings.Contains(arg, "$") || strings.Contains(arg, "%") || strings.Contains(arg, "\\") {
				dollar = true
			}
			if strings.Contains(arg, "$$") {
				escaped = true
			}
			for name := range defined {
				if name != "" && strings.Contains(arg, "$("+name+")") {
					ref = true
				}
			}
		}
		if dollar {
			add("args:value_with_metacharacters")
		}
		if escaped {
			add("args:value_with_double_dollar")
		}
		if ref {
			add("args:value_with_reference_to_defined_variable")
		}
	}
	if n := a.Hooks.count(); n > 0 {
		families++
		if s.Hooks != nil {
			add("hooks:appended_to_existing")
		} else {
			add("hooks:new")
		}
	}
	if len(a.Rlimits) > 0 {
		families++
		same := false
		for _, l := range a.Rlimits {
			for _, o := range s.Process.Rlimits {
				if o.Type == l.Type {
					same = true
				}
			}
		}
		if same {
			nontrivial = true
			add("rlimits:type_already_present")
		} else {
			add("rlimits:new_types")
		}
	}
	if len(a.CDI) > 0 {
		families++
		add("cdi")
	}
	if c := a.CPU; c != nil {
		oc := r.CPU
		if oc == nil {
			oc = &rspec.LinuxCPU{}
		}
		any_ := c.Period != nil || c.Quota != nil || c.Shares != nil || c.RtRuntime != nil || c.RtPeriod != nil || c.Cpus != "" || c.Mems != ""
		repl := (c.Period != nil && oc.Period != nil) || (c.Quota != nil && oc.Quota != nil) || (c.Shares != nil && oc.Shares != nil) ||
			(c.RtRuntime != nil && oc.RealtimeRuntime != nil) || (c.RtPeriod != nil && oc.RealtimePeriod != nil) ||
			(c.Cpus != "" && oc.Cpus != "") || (c.Mems != "" && oc.Mems != "")
		scalar("cpu", any_, repl)
		if c.Quota != nil {
			add("cpu:quota")
		}
		if c.Period != nil {
			add("cpu:period")
		}
	}
	scalar("memlimit", a.MemLimit != nil, r.Memory != nil && r.Memory.Limit != nil)
	if len(a.Hugepages) > 0 {
		repl := false
		for _, h := range a.Hugepages {
			for _, o := range r.HugepageLimits {
				if o.Pagesize == h.PageSize {
					repl = true
				}
			}
		}
		scalar("hugepages", true, repl)
	}
	if len(a.Unified) > 0 {
		repl := false
		for k := range a.Unified {
			if _, ok := r.Unified[k]; ok {
				repl = true
			}
		}
		scalar("unified", true, repl)
	}
	// literal dash-named keys in families without removal markers
	literalDash := func(fam string, adjKeys, specKeys []string) {
		inAdj, inSpec := map[string]bool{}, map[string]bool{}
		for _, k := range adjKeys {
			inAdj[k] = true
		}
		for _, k := range specKeys {
			inSpec[k] = true
		}
		dash, pair, sib := false, false, false
		for _, k := range adjKeys {
			if !strings.HasPrefix(k, "-") {
				continue
			}
			dash = true
			for _, sk := range []string{k[1:], strings.TrimLeft(k, "-")} {
				if sk != "" && inAdj[sk] {
					pair = true
				}
				if sk != "" && inSpec[sk] {
					sib = true
				}
			}
		}
		fb := map[string]bool{}
		for _, k := range adjKeys {
			if c := firstByteClass(k); c != "" {
				fb[c] = true
			}
		}
		for _, c := range []string{"first_byte_below_dash", "first_byte_above_z", "single_odd_char"} {
			if fb[c] {
				add(fam + ":key_" + c)
			}
		}
		if dash {
			add(fam + ":literal_dash_key")
		}
		if pair {
			add(fam + ":literal_dash_key_and_sibling_in_adjustment")
		}
		if sib {
			add(fam + ":literal_dash_key_sibling_in_spec")
		}
	}
	{
		var ak, sk []string
		for k := range a.Unified {
			ak = append(ak, k)
		}
		for k := range r.Unified {
			sk = append(sk, k)
		}
		sort.Strings(ak)
		literalDash("unified", ak, sk)
		ak, sk = nil, nil
		for _, h := range a.Hugepages {
			ak = append(ak, h.PageSize)
		}
		for _, h := range r.HugepageLimits {
			sk = append(sk, h.Pagesize)
		}
		literalDash("hugepages", ak, sk)
		ak, sk = nil, nil
		for _, l := range a.Rlimits {
			ak = append(ak, l.Type)
		}
		for _, l := range s.Process.Rlimits {
			sk = append(sk, l.Type)
		}
		literalDash("rlimits", ak, sk)
		literalDash("cdi", a.CDI, nil)
		// values and other plain strings
		var vals []string
		for k, v := range a.Annotations {
			if _, rm := marked(k); !rm {
				vals = append(vals, v)
			}
		}
		for _, e := range a.Env {
			if _, rm := marked(e.K); !rm {
				vals = append(vals, e.V)
			}
		}
		for _, m := range a.Mounts {
			vals = append(vals, m.Options...)
		}
		if h := a.Hooks; h != nil {
			for _, l := range [][]AdjHook{h.Prestart, h.CreateRuntime, h.CreateContainer, h.StartContainer, h.Poststart, h.Poststop} {
				for _, x := range l {
					vals = append(vals, x.Path)
				}
			}
		}
		for _, v := range vals {
			if strings.HasPrefix(v, "-") {
				add("values:literal_dash_value")
				break
			}
		}
	}
	scalar("pids", a.Pids != nil, r.Pids != nil)
	scalar("cgroups_path", a.CgroupsPath != "", s.Linux.CgroupsPath != "")
	scalar("oom_score_adj", a.OomScoreAdj != nil, s.Process.OOMScoreAdj != nil)
	if a.BlockIOClass != nil {
		if *a.BlockIOClass == "" {
			scalar("blockio_clear", true, r.BlockIO != nil)
		} else {
			scalar("blockio", true, r.BlockIO != nil)
		}
	}
	if a.RdtClass != nil {
		if *a.RdtClass == "" {
			scalar("rdt_clear", true, s.Linux.IntelRdt != nil)
		} else {
			scalar("rdt", true, s.Linux.IntelRdt != nil)
		}
	}
	// --- histories and the editing CDI injector
	steps := append([]Adj{*a}, c.More...)
	add(fmt.Sprintf("history:%d_steps", len(steps)))
	kindsOf := func(h *AdjHooks) (ks []int) {
		if h == nil {
			return nil
		}
		for i, l := range [][]AdjHook{h.Prestart, h.CreateRuntime, h.CreateContainer, h.StartContainer, h.Poststart, h.Poststop} {
			if len(l) > 0 {
				ks = append(ks, i)
			}
		}
		return ks
	}
	kindIdx := map[string]int{}
	for i, k := range hookKinds {
		kindIdx[k] = i
	}
	injectorFired, laterAppend := false, false
	for i := range steps {
		fires := c.Inject != nil && len(steps[i].CDI) > 0
		if fires {
			injectorFired = true
		}
		ks := kindsOf(steps[i].Hooks)
		if len(ks) < 2 {
			continue
		}
		// some later append goes to a hook list of a kind this step requested, other than
		// the last kind it requested: by the injector within this step, or by a later step
		earlier := map[int]bool{}
		for _, k := range ks[:len(ks)-1] {
			earlier[k] = true
		}
		if fires {
			if k, ok := kindIdx[c.Inject.HookKind]; ok && earlier[k] {
				laterAppend = true
			}
		}
		for j := i + 1; j < len(steps); j++ {
			for _, k := range kindsOf(steps[j].Hooks) {
				if earlier[k] {
					laterAppend = true
				}
			}
			if c.Inject != nil && len(steps[j].CDI) > 0 {
				if k, ok := kindIdx[c.Inject.HookKind]; ok && earlier[k] {
					laterAppend = true
				}
			}
		}
	}
	failedSeen, successAfterFailure := false, false
	for i := range steps {
		if tok := steps[i].failToken(); tok != "" {
			add("failing_callback:" + tok)
			failedSeen = true
		} else if failedSeen {
			successAfterFailure = true
		}
	}
	if failedSeen {
		add("history:with_failing_step")
	}
	if successAfterFailure {
		add("history:successful_step_after_failing_step")
	}
	if injectorFired {
		add("injector:edits_spec")
		if c.Inject.HookKind != "" {
			add("injector:appends_hook")
		}
	}
	if laterAppend {
		add("hooks:several_kinds_then_append_to_earlier_kind")
	}
	bucket := "families:0"
	switch {
	case families >= 9:
		bucket = "families:9+"
	case families >= 5:
		bucket = "families:5-8"
	case families >= 2:
		bucket = "families:2-4"
	case families == 1:
		bucket = "families:1"
	}
	return append([]string{bucket}, classes...), nontrivial
}

// firstByteClass classifies a key by its first byte relative to the removal marker '-' and
// to the usual letters/digits.
func firstByteClass(k string) string {
	if k == "" {
		return ""
	}
	b := k[0]
	alnum := (b >= '0' && b <= '9') || (b >= 'a' && b <= 'z') || (b >= 'A' && b <= 'Z')
	switch {
	case len(k) == 1 && !alnum && b != '-':
		return "single_odd_char"
	case len([]rune(k)) == 1 && b >= 0x80:
		return "single_odd_char"
	case b < '-':
		return "first_byte_below_dash"
	case b > 'z':
		return "first_byte_above_z"
	}
	return ""
}

func runC13(c C13Case) ev.Outcome {
	specJSON, err := json.Marshal(&c.Spec)
	if err != nil {
		return ev.Outcome{Excluded: "spec not serialisable"}
	}
	if c.Spec.Process == nil || c.Spec.Linux == nil {
		return ev.Outcome{Excluded: "spec without process or linux section"}
	}
	reps := c.Reps
	if reps < 2 {
		reps = 2
	}
	classes, nontrivial := classify(&c)
	steps := append([]Adj{c.Adj}, c.More...)

	// Every second history reuses ONE set of adjustment objects (a runtime may apply the
	// same message to several specs, and "the same inputs" includes the same object): if
	// Adjust rewrites its argument, later applications see other input.
	shared := make([]*nri.ContainerAdjustment, len(steps))
	for i := range steps {
		shared[i] = steps[i].ToNRI()
	}
	var first []stepResult
	var lenient []string
	for i := 0; i < reps; i++ {
		var sh []*nri.ContainerAdjustment
		if i%2 == 1 {
			sh = shared
		}
		// history 0 is judged against the model; histories 0 and 1 (fresh and shared
		// adjustment objects) get the aliasing probe after every step
		res, o := runHistory(specJSON, steps, c.FromSpec, c.Inject, sh, i == 0, i < 2)
		if o.Fail != "" || o.Excluded != "" {
			return o
		}
		if i == 0 {
			first, lenient = res, o.Lenient
			continue
		}
		for k := range res {
			if res[k].canon != first[k].canon {
				// The verdict text must not depend on which application differed (rapid only
				// shrinks failures whose message reproduces); the details go into the history.
				var d []string
				diff("", generic([]byte(first[k].canon[:strings.LastIndex(first[k].canon, " cdi=")])), generic([]byte(res[k].canon[:strings.LastIndex(res[k].canon, " cdi=")])), &d, 6)
				o := ev.Failf("the same inputs gave different specs: %d applications of one history of adjustments to copies of one spec did not all give the same result", reps)
				o.History = map[string]any{
					"differences":                    d,
					"step":                           k,
					"cdi_calls":                      [][][]string{first[k].cdiCalls, res[k].cdiCalls},
					"application_0":                  first[k].canon,
					fmt.Sprintf("application_%d", i): res[k].canon,
				}
				return o
			}
		}
	}
	return ev.Outcome{NonTrivial: nontrivial, Classes: classes, Lenient: lenient}
}

func TestProp_C13(t *testing.T) {
	ev.Get("C13").NoJournal()
	ev.Run(t, "C13", genC13, runC13)
}

// TestExh_C13 sweeps the small systematic sub-domain "one key of one keyed family":
// family x key present/absent in the spec x {set, remove, [remove,set], [set,remove]},
// each applied 200 times (the map-order dependence of an annotation pair shows in about
// one application in eight). Cases excluded by an active known finding are skipped.
func TestExh_C13(t *testing.T) {
	r := ev.Get("C13")
	r.NoJournal()
	if _, err := os.Stat(filepath.Join(ev.OutDir(), "C13.fail.json")); err == nil && os.Getenv("VERIF_REPLAY") == "" {
		t.Skip("the generated search already failed in this process; its minimal case is kept as the replay file")
	}
	defer r.Flush()
	n := 0
	for _, fam := range []string{"ann", "env", "mnt", "dev"} {
		for _, present := range []bool{true, false} {
			for _, pattern := range []string{"set", "remove", "remove,set", "set,remove"} {
				if fam == "ann" && pattern == "set,remove" {
					continue // a map has no order: same case as remove,set
				}
				if (fam == "ann" && pattern == "remove,set" && ev.Known(slugD6)) || (fam != "ann" && pattern == "set,remove" && ev.Known(slugD7)) {
					r.AddExtra("sweep_skipped_known", 1)
					continue
				}
				c := sweepCase(fam, present, pattern)
				o := runC13(c)
				o.Classes = append([]string{"sweep"}, o.Classes...)
				r.Record(c, o)
				if o.Fail != "" {
					t.Fatalf("C13: %s", o.Fail)
				}
				n++
			}
		}
	}
	// items whose own key starts with a dash, next to their dash-less siblings: exactly the
	// marked item is removed
	for _, fam := range []string{"ann", "env"} {
		for i := range dashSweep {
			c := dashSweepCase(fam, i)
			o := runC13(c)
			o.Classes = append([]string{"sweep"}, o.Classes...)
			r.Record(c, o)
			if o.Fail != "" {
				t.Fatalf("C13: %s", o.Fail)
			}
			n++
		}
	}
	// keys whose first byte sorts below the removal marker (and one-character keys):
	// remove+set of one key in one adjustment, the set wins
	for _, c := range oddByteSweep() {
		o := runC13(c)
		o.Classes = append([]string{"sweep"}, o.Classes...)
		r.Record(c, o)
		if o.Fail != "" {
			t.Fatalf("C13: %s", o.Fail)
		}
		n++
	}
	// values are opaque strings: $$, $(NAME) with NAME defined in the spec or by the same
	// adjustment, ${NAME}, printf and backslash syntax are written as requested
	{
		s := rspec.Spec{Version: "1.1.0", Process: &rspec.Process{Cwd: "/", Args: []string{"old"}, Env: []string{"E1=one", "PATH=/bin"}}, Linux: &rspec.Linux{}}
		meta := []string{"sh", "-c", "echo $$ > /run/app.pid", "CC=$(E1)", "$(E2)", "$(PATH):$(undefined)", "$$(E1)", "${E1}", "$E1", "$", "$(", "%s", "%(E1)s", "a\\nb"}
		c := C13Case{Spec: s, Reps: 4, Adj: Adj{
			Args:        meta,
			Env:         []KV{{K: "E2", V: "$(E1)"}, {K: "E3", V: "$$"}},
			Annotations: map[string]string{"k1": "$(k2)", "k2": "$$"},
			Hooks:       &AdjHooks{Prestart: []AdjHook{{Path: "/bin/h1", Args: meta, Env: []string{"X=$(E1)", "Y=$$"}}}},
		}}
		o := runC13(c)
		o.Classes = append([]string{"sweep"}, o.Classes...)
		r.Record(c, o)
		if o.Fail != "" {
			t.Fatalf("C13: %s", o.Fail)
		}
		n++
	}
	// several propagation options in one mount: the last one (rprivate) counts
	for _, opts := range [][]string{
		{"rbind", "rshared", "rprivate"}, {"rslave", "rprivate"}, {"rshared", "rslave", "ro", "rprivate", "nosuid"},
		{"rprivate", "rshared", "rprivate"}, {"rslave", "rslave", "rprivate", "rprivate"},
	} {
		for _, rootProp := range []string{"", "rslave"} {
			s := rspec.Spec{Version: "1.1.0", Process: &rspec.Process{Cwd: "/", Rlimits: []rspec.POSIXRlimit{{Type: "RLIMIT_CORE", Hard: 1, Soft: 1}}},
				Linux:  &rspec.Linux{RootfsPropagation: rootProp},
				Mounts: []rspec.Mount{{Destination: "/a/b", Type: "bind", Source: "/s", Options: []string{"rshared"}}}}
			c := C13Case{Spec: s, Reps: 4, Adj: Adj{
				Mounts:  []AdjMount{{Dest: "/a", Type: "bind", Source: "/src/a", Options: opts}, {Dest: "/z", Type: "tmpfs", Source: "tmpfs"}},
				Rlimits: []AdjRlimit{{Type: "RLIMIT_NOFILE", Hard: 10, Soft: 5}},
			}}
			o := runC13(c)
			o.Classes = append([]string{"sweep"}, o.Classes...)
			r.Record(c, o)
			if o.Fail != "" {
				t.Fatalf("C13: %s", o.Fail)
			}
			n++
		}
	}
	// device paths and mount destinations are one id space
	for _, c := range deviceAtMountSweep() {
		o := runC13(c)
		o.Classes = append([]string{"sweep"}, o.Classes...)
		r.Record(c, o)
		if o.Fail != "" {
			t.Fatalf("C13: %s", o.Fail)
		}
		n++
	}
	// families without removal markers: dash-named keys and values are ordinary
	for i := range literalDashSweep() {
		c := literalDashSweep()[i]
		o := runC13(c)
		o.Classes = append([]string{"sweep"}, o.Classes...)
		r.Record(c, o)
		if o.Fail != "" {
			t.Fatalf("C13: %s", o.Fail)
		}
		n++
	}
	r.SetExtra("sweep_cases", n)
	r.SetExtra("exhaustive", false)
}

func sweepCase(fam string, present bool, pattern string) C13Case {
	mode := fileMode(0o660)
	s := rspec.Spec{
		Version:     "1.1.0",
		Process:     &rspec.Process{Cwd: "/", Args: []string{"sh"}, Env: []string{"HOME=/", "TERM=xterm"}},
		Annotations: map[string]string{"other": "o"},
		Mounts:      []rspec.Mount{{Destination: "/a/b/c", Type: "bind", Source: "/s0"}, {Destination: "/a", Type: "bind", Source: "/s1"}},
		Linux:       &rspec.Linux{Devices: []rspec.LinuxDevice{{Path: "/dev/other", Type: "c", Major: 1, Minor: 3, FileMode: mode}}},
	}
	if present {
		s.Annotations["k1"] = "old"
		s.Process.Env = []string{"HOME=/", "E1=old", "TERM=xterm"}
		s.Mounts = append(s.Mounts, rspec.Mount{Destination: "/a/b", Type: "bind", Source: "/old"})
		s.Linux.Devices = append(s.Linux.Devices, rspec.LinuxDevice{Path: "/dev/d0", Type: "c", Major: 9, Minor: 9})
	}
	a := Adj{}
	for _, op := range strings.Split(pattern, ",") {
		rm := op == "remove"
		switch fam {
		case "ann":
			if a.Annotations == nil {
				a.Annotations = map[string]string{}
			}
			if rm {
				a.Annotations["-k1"] = ""
			} else {
				a.Annotations["k1"] = "new"
			}
		case "env":
			if rm {
				a.Env = append(a.Env, KV{K: "-E1"})
			} else {
				a.Env = append(a.Env, KV{K: "E1", V: "new"})
			}
		case "mnt":
			if rm {
				a.Mounts = append(a.Mounts, AdjMount{Dest: "-/a/b"})
			} else {
				a.Mounts = append(a.Mounts, AdjMount{Dest: "/a/b", Type: "bind", Source: "/new", Options: []string{"ro"}})
			}
		case "dev":
			if rm {
				a.Devices = append(a.Devices, AdjDevice{Path: "-/dev/d0"})
			} else {
				a.Devices = append(a.Devices, AdjDevice{Path: "/dev/d0", Type: "b", Major: 8, Minor: 1})
			}
		}
	}
	return C13Case{Spec: s, Adj: a, Reps: 200}
}

// dashSweep: items present in the spec (by name), names to remove, optional set of "k1".
var dashSweep = []struct {
	have   []string
	remove []string
	set    bool
}{
	{have: []string{"k1", "-k1"}, remove: []string{"-k1"}},
	{have: []string{"k1", "-k1", "--k1"}, remove: []string{"--k1"}},
	{have: []string{"k1", "-k1", "--k1"}, remove: []string{"-k1", "k1"}},
	{have: []string{"k1", "-k1"}, remove: []string{"-k1"}, set: true},
	{have: []string{"-k1"}, remove: []string{"-k1"}, set: true},
	{have: []string{"-", "k1"}, remove: []string{"-"}},
	{have: []string{"k1"}, remove: []string{"-k1"}},
	{have: []string{"k1", "-k1"}, remove: []string{"k1"}},
}

func dashSweepCase(fam string, i int) C13Case {
	d := dashSweep[i]
	s := rspec.Spec{
		Version:     "1.1.0",
		Process:     &rspec.Process{Cwd: "/", Env: []string{"HOME=/"}},
		Annotations: map[string]string{"other": "o"},
		Linux:       &rspec.Linux{},
	}
	a := Adj{}
	for _, k := range d.have {
		if fam == "ann" {
			s.Annotations[k] = "old:" + k
		} else {
			s.Process.Env = append(s.Process.Env, k+"=old:"+k)
		}
	}
	if fam == "ann" {
		a.Annotations = map[string]string{}
	}
	if d.set {
		if fam == "ann" {
			a.Annotations["k1"] = "new"
		} else {
			a.Env = append(a.Env, KV{K: "k1", V: "new"})
		}
	}
	for _, k := range d.remove {
		if fam == "ann" {
			a.Annotations["-"+k] = ""
		} else {
			a.Env = append(a.Env, KV{K: "-" + k})
		}
	}
	return C13Case{Spec: s, Adj: a, Reps: 32}
}

// literalDashSweep: directed cases for the families that have no removal-marker semantics:
// "-k" is an ordinary key (or value); it is set literally and leaves its sibling "k" alone.
func literalDashSweep() []C13Case {
	base := func() rspec.Spec {
		return rspec.Spec{Version: "1.1.0", Process: &rspec.Process{Cwd: "/", Env: []string{"HOME=/"}}, Linux: &rspec.Linux{}}
	}
	withUnified := func(u map[string]string) rspec.Spec {
		s := base()
		s.Linux.Resources = &rspec.LinuxResources{Unified: u}
		return s
	}
	var out []C13Case
	// unified: the pair in one adjustment (many applications: a map is iterated)
	out = append(out, C13Case{Spec: base(), Adj: Adj{Unified: map[string]string{"-memory.high": "", "memory.high": "2000"}}, Reps: 200})
	out = append(out, C13Case{Spec: withUnified(map[string]string{"memory.high": "max"}), Adj: Adj{Unified: map[string]string{"-memory.high": "", "memory.high": "2000"}}, Reps: 200})
	// unified: "-k" in the adjustment while "k" is in the spec (which must stay)
	out = append(out, C13Case{Spec: withUnified(map[string]string{"memory.high": "max", "cpu.weight": "100"}), Adj: Adj{Unified: map[string]string{"-memory.high": "5", "-": "x"}}, Reps: 32})
	// unified: "-k" and "k" in the spec, the adjustment sets "k"
	out = append(out, C13Case{Spec: withUnified(map[string]string{"-memory.high": "1", "memory.high": "max"}), Adj: Adj{Unified: map[string]string{"memory.high": "7"}}, Reps: 32})
	// hugepage sizes and rlimit types
	s := base()
	s.Linux.Resources = &rspec.LinuxResources{HugepageLimits: []rspec.LinuxHugepageLimit{{Pagesize: "2MB", Limit: 9}}}
	s.Process.Rlimits = []rspec.POSIXRlimit{{Type: "RLIMIT_NOFILE", Hard: 10, Soft: 5}}
	out = append(out, C13Case{Spec: s, Reps: 32, Adj: Adj{
		Hugepages: []AdjHuge{{PageSize: "-2MB", Limit: 1}},
		Rlimits:   []AdjRlimit{{Type: "-RLIMIT_NOFILE", Hard: 7, Soft: 3}},
	}})
	s = base()
	s.Linux.Resources = &rspec.LinuxResources{HugepageLimits: []rspec.LinuxHugepageLimit{{Pagesize: "2MB", Limit: 9}}}
	out = append(out, C13Case{Spec: s, Reps: 32, Adj: Adj{
		Hugepages: []AdjHuge{{PageSize: "-2MB", Limit: 1}, {PageSize: "2MB", Limit: 2}},
		Rlimits:   []AdjRlimit{{Type: "-RLIMIT_NOFILE", Hard: 7, Soft: 3}, {Type: "RLIMIT_NOFILE", Hard: 8, Soft: 4}},
	}})
	// values, CDI names, hook paths and args, mount options, args, class names, cgroups path
	s = base()
	s.Annotations = map[string]string{"k1": "old"}
	bio, rdt := "-gold", "-gold"
	out = append(out, C13Case{Spec: s, Reps: 32, Adj: Adj{
		Annotations:  map[string]string{"k1": "-v1", "k2": "-"},
		Env:          []KV{{K: "E1", V: "-v"}, {K: "HOME", V: "--w"}},
		Mounts:       []AdjMount{{Dest: "/a", Type: "bind", Source: "/src/a", Options: []string{"-ro", "ro"}}},
		Args:         []string{"-x", "--", "-"},
		Hooks:        &AdjHooks{Prestart: []AdjHook{{Path: "-/bin/h1", Args: []string{"-h", "-v"}, Env: []string{"-A=1"}}, {Path: "/bin/h1"}}},
		CDI:          []string{"-vendor.com/gpu=0", "vendor.com/gpu=0"},
		CgroupsPath:  "-kubepods/x",
		BlockIOClass: &bio,
		RdtClass:     &rdt,
	}})
	return out
}

// oddByteSweep: remove+set of one annotation / one variable whose name starts with (or is) a
// byte below '-', key present in the spec or not, both list orders for env.
func oddByteSweep() []C13Case {
	var out []C13Case
	for _, k := range []string{"$k", "+k", " k", "*", ",", "!k", "~k", "\x7f", "é"} {
		for _, present := range []bool{true, false} {
			s := rspec.Spec{Version: "1.1.0", Process: &rspec.Process{Cwd: "/", Env: []string{"HOME=/"}}, Annotations: map[string]string{"other": "o"}, Linux: &rspec.Linux{}}
			if present {
				s.Annotations[k] = "old"
				s.Process.Env = append(s.Process.Env, k+"=old")
			}
			specJSON, _ := json.Marshal(&s)
			fresh := func() rspec.Spec { var c rspec.Spec; _ = json.Unmarshal(specJSON, &c); return c }
			out = append(out,
				C13Case{Spec: fresh(), Reps: 32, Adj: Adj{Annotations: map[string]string{"-" + k: "", k: "new"}}},
				C13Case{Spec: fresh(), Reps: 32, Adj: Adj{Env: []KV{{K: "-" + k}, {K: k, V: "new"}}}},
				C13Case{Spec: fresh(), Reps: 32, Adj: Adj{Env: []KV{{K: k, V: "new"}, {K: "-" + k}}}},
			)
		}
	}
	return out
}

// deviceAtMountSweep: the adjustment adds the device /dev/fuse while something is mounted at
// /dev/fuse: per mount flavour (bind type, rbind option only, tmpfs, unclean spelling), with
// and without a device already at the path, the mount coming from the spec, from the same
// adjustment, being removed by the same adjustment, or from the CDI injector.
func deviceAtMountSweep() []C13Case {
	var out []C13Case
	dev := AdjDevice{Path: "/dev/fuse", Type: "c", Major: 10, Minor: 229}
	mounts := []rspec.Mount{
		{Destination: "/dev/fuse", Type: "bind", Source: "/dev/fuse", Options: []string{"rw"}},
		{Destination: "/dev/fuse", Type: "", Source: "/dev/fuse", Options: []string{"rbind"}},
		{Destination: "/dev/fuse", Type: "tmpfs", Source: "tmpfs"},
		{Destination: "/dev/fuse/", Type: "bind", Source: "/dev/fuse"},
		{Destination: "/dev/./fuse", Type: "none", Source: "/dev/fuse", Options: []string{"bind", "ro"}},
	}
	for _, m := range mounts {
		for _, hasDev := range []bool{false, true} {
			s := rspec.Spec{Version: "1.1.0", Process: &rspec.Process{Cwd: "/"}, Linux: &rspec.Linux{},
				Mounts: []rspec.Mount{{Destination: "/dev", Type: "tmpfs", Source: "tmpfs"}, m}}
			if hasDev {
				s.Linux.Devices = []rspec.LinuxDevice{{Path: "/dev/fuse", Type: "c", Major: 1, Minor: 1}}
			}
			out = append(out, C13Case{Spec: s, Reps: 4, Adj: Adj{Devices: []AdjDevice{dev}}})
			// the same adjustment also removes that mount
			s2 := s
			s2.Mounts = append([]rspec.Mount(nil), s.Mounts...)
			out = append(out, C13Case{Spec: s2, Reps: 4, Adj: Adj{Devices: []AdjDevice{dev}, Mounts: []AdjMount{{Dest: "-" + m.Destination}}}})
		}
	}
	base := rspec.Spec{Version: "1.1.0", Process: &rspec.Process{Cwd: "/"}, Linux: &rspec.Linux{}}
	// the mount is added by the same adjustment
	out = append(out, C13Case{Spec: base, Reps: 4, Adj: Adj{Devices: []AdjDevice{dev}, Mounts: []AdjMount{{Dest: "/dev/fuse", Type: "bind", Source: "/dev/fuse", Options: []string{"rbind"}}}}})
	// the mount comes from the CDI injector (first step), the device from the same and from a later step
	nv := AdjDevice{Path: "/dev/nvidia0", Type: "c", Major: 195, Minor: 0}
	out = append(out, C13Case{Spec: base, Reps: 4, Inject: &Inject{MountAtDevice: true}, Adj: Adj{CDI: []string{"vendor.com/gpu=0"}, Devices: []AdjDevice{nv}}})
	out = append(out, C13Case{Spec: base, Reps: 4, Inject: &Inject{MountAtDevice: true}, Adj: Adj{CDI: []string{"vendor.com/gpu=0"}}, More: []Adj{{Devices: []AdjDevice{nv}}}})
	return out
}
