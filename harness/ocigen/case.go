// Package ocigen holds the check for property C13: applying one NRI container adjustment
// to an OCI spec with pkg/runtime-tools/generate changes exactly what the adjustment
// names, deterministically.
//
// A case is an OCI spec plus one adjustment, both plain JSON values. The adjustment is kept
// in the harness's own plain types (Adj) and converted to the protobuf type for every
// application, so that nothing the generator under test does to its input can leak from one
// repetition into the next.
package ocigen

import (
	"fmt"
	"os"
	"strings"

	"github.com/containerd/nri/pkg/api"
	rspec "github.com/opencontainers/runtime-spec/specs-go"
)

// C13Case is everything run needs.
type C13Case struct {
	Spec rspec.Spec `json:"spec"`
	Adj  Adj        `json:"adj"`
	// Reps is the number of times the adjustment is applied to a fresh copy of the spec.
	Reps int `json:"reps"`
	// FromSpec selects how the runtime-tools generator is constructed: NewFromSpec(spec)
	// (true) or the literal &Generator{Config: spec} used by the repository's own tests.
	FromSpec bool `json:"from_spec,omitempty"`
	// More are further adjustments applied, one after another, to the SAME generator and
	// spec after Adj (a history of Adjust calls); the model folds them.
	More []Adj `json:"more,omitempty"`
	// Inject, when set, makes the CDI device injector callback behave like a real injector:
	// whenever it is called (an adjustment with CDI devices) it appends to the spec.
	Inject *Inject `json:"inject,omitempty"`
}

// Inject says what the CDI injector callback appends to the spec it is handed (the real
// CDI ContainerEdits.Apply appends env, mounts, device nodes and hooks). The appended items
// are a function of the step number, with names no spec or adjustment uses.
type Inject struct {
	HookKind string `json:"hook_kind,omitempty"` // "", prestart, createRuntime, createContainer, startContainer, poststart, poststop
	Env      bool   `json:"env,omitempty"`
	Mount    bool   `json:"mount,omitempty"`
	Device   bool   `json:"device,omitempty"`
	// MountAtDevice: the injector also bind-mounts the host's /dev/nvidia0 at (a private
	// spelling of) /dev/nvidia0, a path of the device alphabet (CDI mount edit).
	MountAtDevice bool `json:"mount_at_device,omitempty"`
}

var hookKinds = []string{"prestart", "createRuntime", "createContainer", "startContainer", "poststart", "poststop"}

func hookList(h *rspec.Hooks, kind string) *[]rspec.Hook {
	switch kind {
	case "prestart":
		return &h.Prestart
	case "createRuntime":
		return &h.CreateRuntime
	case "createContainer":
		return &h.CreateContainer
	case "startContainer":
		return &h.StartContainer
	case "poststart":
		return &h.Poststart
	case "poststop":
		return &h.Poststop
	}
	return nil
}

func injectedHook(step int) rspec.Hook {
	return rspec.Hook{Path: "/usr/bin/cdi-hook", Args: []string{"cdi-hook", fmt.Sprintf("step-%d", step)}}
}

func isInjectedHook(h rspec.Hook, step int) bool {
	return h.Path == "/usr/bin/cdi-hook" && len(h.Args) == 2 && h.Args[1] == fmt.Sprintf("step-%d", step)
}

// apply appends the injected items to s (used by the injector callback on the real spec and
// by the model on its own copy).
func (inj *Inject) apply(s *rspec.Spec, step int) {
	if inj == nil {
		return
	}
	if l := hookList(&rspec.Hooks{}, inj.HookKind); l != nil {
		if s.Hooks == nil {
			s.Hooks = &rspec.Hooks{}
		}
		l = hookList(s.Hooks, inj.HookKind)
		*l = append(*l, injectedHook(step))
	}
	if inj.Env && s.Process != nil {
		s.Process.Env = append(s.Process.Env, fmt.Sprintf("CDI_INJECTED_%d=all", step))
	}
	if inj.Mount {
		s.Mounts = append(s.Mounts, rspec.Mount{Destination: fmt.Sprintf("/cdi-lib%d", step), Type: "bind", Source: "/usr/lib/cdi", Options: []string{"ro", "nosuid"}})
	}
	if inj.MountAtDevice {
		// spelled like no pool destination, so that destinations stay unique as written
		s.Mounts = append(s.Mounts, rspec.Mount{Destination: "/dev/" + strings.Repeat("./", step+1) + "nvidia0", Type: "bind", Source: "/dev/nvidia0", Options: []string{"rbind"}})
	}
	if inj.Device && s.Linux != nil {
		s.Linux.Devices = append(s.Linux.Devices, rspec.LinuxDevice{Path: fmt.Sprintf("/dev/cdi%d", step), Type: "c", Major: 195, Minor: int64(step), FileMode: fileMode(0o666)})
	}
}

// KV is one ordered key/value entry; a key starting with "-" is a removal marker.
type KV struct {
	K string `json:"k"`
	V string `json:"v,omitempty"`
}

// AdjMount is one mount entry; a destination starting with "-" is a removal marker.
type AdjMount struct {
	Dest    string   `json:"dest"`
	Type    string   `json:"type,omitempty"`
	Source  string   `json:"source,omitempty"`
	Options []string `json:"options,omitempty"`
}

// AdjDevice is one device entry; a path starting with "-" is a removal marker.
type AdjDevice struct {
	Path     string  `json:"path"`
	Type     string  `json:"type,omitempty"`
	Major    int64   `json:"major,omitempty"`
	Minor    int64   `json:"minor,omitempty"`
	FileMode *uint32 `json:"file_mode,omitempty"`
	UID      *uint32 `json:"uid,omitempty"`
	GID      *uint32 `json:"gid,omitempty"`
}

type AdjHook struct {
	Path    string   `json:"path"`
	Args    []string `json:"args,omitempty"`
	Env     []string `json:"env,omitempty"`
	Timeout *int64   `json:"timeout,omitempty"`
}

type AdjHooks struct {
	Prestart        []AdjHook `json:"prestart,omitempty"`
	CreateRuntime   []AdjHook `json:"create_runtime,omitempty"`
	CreateContainer []AdjHook `json:"create_container,omitempty"`
	StartContainer  []AdjHook `json:"start_container,omitempty"`
	Poststart       []AdjHook `json:"poststart,omitempty"`
	Poststop        []AdjHook `json:"poststop,omitempty"`
}

type AdjRlimit struct {
	Type string `json:"type"`
	Hard uint64 `json:"hard"`
	Soft uint64 `json:"soft"`
}

type AdjHuge struct {
	PageSize string `json:"page_size"`
	Limit    uint64 `json:"limit"`
}

type AdjCPU struct {
	Period    *uint64 `json:"period,omitempty"`
	Quota     *int64  `json:"quota,omitempty"`
	Shares    *uint64 `json:"shares,omitempty"`
	Cpus      string  `json:"cpus,omitempty"`
	Mems      string  `json:"mems,omitempty"`
	RtRuntime *int64  `json:"rt_runtime,omitempty"`
	RtPeriod  *uint64 `json:"rt_period,omitempty"`
}

// Adj is one container adjustment restricted to the fields the spec generator applies.
type Adj struct {
	Annotations map[string]string `json:"annotations,omitempty"` // "-k" => removal of k
	Env         []KV              `json:"env,omitempty"`
	Mounts      []AdjMount        `json:"mounts,omitempty"`
	Devices     []AdjDevice       `json:"devices,omitempty"`
	Args        []string          `json:"args,omitempty"`
	Hooks       *AdjHooks         `json:"hooks,omitempty"`
	Rlimits     []AdjRlimit       `json:"rlimits,omitempty"`
	CDI         []string          `json:"cdi,omitempty"`

	CPU          *AdjCPU           `json:"cpu,omitempty"`
	MemLimit     *int64            `json:"mem_limit,omitempty"` // never 0
	Hugepages    []AdjHuge         `json:"hugepages,omitempty"`
	Unified      map[string]string `json:"unified,omitempty"`
	Pids         *int64            `json:"pids,omitempty"`
	CgroupsPath  string            `json:"cgroups_path,omitempty"`
	OomScoreAdj  *int64            `json:"oom_score_adj,omitempty"`
	BlockIOClass *string           `json:"blockio_class,omitempty"` // "" => clear
	RdtClass     *string           `json:"rdt_class,omitempty"`     // "" => clear

	// shape knobs: allocate the (otherwise empty) sub-messages anyway
	EmptyLinux     bool `json:"empty_linux,omitempty"`
	EmptyResources bool `json:"empty_resources,omitempty"`
	EmptyMemory    bool `json:"empty_memory,omitempty"`
}

func marked(key string) (string, bool) {
	if len(key) > 0 && key[0] == '-' {
		return key[1:], true
	}
	return key, false
}

func nriHooks(in []AdjHook) []*api.Hook {
	var out []*api.Hook
	for _, h := range in {
		n := &api.Hook{Path: h.Path, Args: append([]string(nil), h.Args...), Env: append([]string(nil), h.Env...)}
		if h.Timeout != nil {
			n.Timeout = &api.OptionalInt{Value: *h.Timeout}
		}
		out = append(out, n)
	}
	return out
}

// ToNRI builds a fresh protobuf adjustment (nothing is shared with a).
func (a *Adj) ToNRI() *api.ContainerAdjustment {
	n := &api.ContainerAdjustment{}
	// Removals are requested the way a plugin does it, through the api helpers
	// (RemoveAnnotation / RemoveEnv / RemoveMount / MarkForRemoval), with the item's name as
	// the harness reads it off the marker convention: one leading "-" marks, the rest is the
	// name (which may itself begin with a dash).
	if a.Annotations != nil {
		n.Annotations = map[string]string{}
		for k, v := range a.Annotations {
			if name, rm := marked(k); rm {
				n.RemoveAnnotation(name)
			} else {
				n.AddAnnotation(k, v)
			}
		}
	}
	for _, e := range a.Env {
		if name, rm := marked(e.K); rm {
			n.RemoveEnv(name)
		} else {
			n.AddEnv(e.K, e.V)
		}
	}
	for _, m := range a.Mounts {
		if name, rm := marked(m.Dest); rm {
			n.RemoveMount(name)
		} else {
			n.AddMount(&api.Mount{Destination: m.Dest, Type: m.Type, Source: m.Source, Options: append([]string(nil), m.Options...)})
		}
	}
	n.Args = append([]string(nil), a.Args...)
	if h := a.Hooks; h != nil {
		n.Hooks = &api.Hooks{
			Prestart: nriHooks(h.Prestart), CreateRuntime: nriHooks(h.CreateRuntime), CreateContainer: nriHooks(h.CreateContainer),
			StartContainer: nriHooks(h.StartContainer), Poststart: nriHooks(h.Poststart), Poststop: nriHooks(h.Poststop),
		}
	}
	for _, l := range a.Rlimits {
		n.Rlimits = append(n.Rlimits, &api.POSIXRlimit{Type: l.Type, Hard: l.Hard, Soft: l.Soft})
	}
	for _, d := range a.CDI {
		n.CDIDevices = append(n.CDIDevices, &api.CDIDevice{Name: d})
	}

	hasRes := a.CPU != nil || a.MemLimit != nil || len(a.Hugepages) > 0 || a.Unified != nil || a.Pids != nil ||
		a.BlockIOClass != nil || a.RdtClass != nil || a.EmptyResources || a.EmptyMemory
	hasLinux := hasRes || len(a.Devices) > 0 || a.CgroupsPath != "" || a.OomScoreAdj != nil || a.EmptyLinux
	if !hasLinux {
		return n
	}
	l := &api.LinuxContainerAdjustment{CgroupsPath: a.CgroupsPath}
	n.Linux = l
	for _, d := range a.Devices {
		if name, rm := marked(d.Path); rm {
			l.Devices = append(l.Devices, &api.LinuxDevice{Path: api.MarkForRemoval(name)})
			continue
		}
		nd := &api.LinuxDevice{Path: d.Path, Type: d.Type, Major: d.Major, Minor: d.Minor}
		if d.FileMode != nil {
			nd.FileMode = &api.OptionalFileMode{Value: *d.FileMode}
		}
		if d.UID != nil {
			nd.Uid = &api.OptionalUInt32{Value: *d.UID}
		}
		if d.GID != nil {
			nd.Gid = &api.OptionalUInt32{Value: *d.GID}
		}
		l.Devices = append(l.Devices, nd)
	}
	if a.OomScoreAdj != nil {
		l.OomScoreAdj = &api.OptionalInt{Value: *a.OomScoreAdj}
	}
	if !hasRes {
		return n
	}
	r := &api.LinuxResources{}
	l.Resources = r
	if c := a.CPU; c != nil {
		r.Cpu = &api.LinuxCPU{Cpus: c.Cpus, Mems: c.Mems}
		if c.Period != nil {
			r.Cpu.Period = &api.OptionalUInt64{Value: *c.Period}
		}
		if c.Quota != nil {
			r.Cpu.Quota = &api.OptionalInt64{Value: *c.Quota}
		}
		if c.Shares != nil {
			r.Cpu.Shares = &api.OptionalUInt64{Value: *c.Shares}
		}
		if c.RtRuntime != nil {
			r.Cpu.RealtimeRuntime = &api.OptionalInt64{Value: *c.RtRuntime}
		}
		if c.RtPeriod != nil {
			r.Cpu.RealtimePeriod = &api.OptionalUInt64{Value: *c.RtPeriod}
		}
	}
	if a.MemLimit != nil || a.EmptyMemory {
		r.Memory = &api.LinuxMemory{}
		if a.MemLimit != nil {
			r.Memory.Limit = &api.OptionalInt64{Value: *a.MemLimit}
		}
	}
	for _, h := range a.Hugepages {
		r.HugepageLimits = append(r.HugepageLimits, &api.HugepageLimit{PageSize: h.PageSize, Limit: h.Limit})
	}
	if a.Unified != nil {
		r.Unified = map[string]string{}
		for k, v := range a.Unified {
			r.Unified[k] = v
		}
	}
	if a.Pids != nil {
		r.Pids = &api.LinuxPids{Limit: *a.Pids}
	}
	if a.BlockIOClass != nil {
		r.BlockioClass = &api.OptionalString{Value: *a.BlockIOClass}
	}
	if a.RdtClass != nil {
		r.RdtClass = &api.OptionalString{Value: *a.RdtClass}
	}
	return n
}

// Failure tokens: plain data in an adjustment that make one of the callbacks the generator is
// configured with return an error, so that Adjust fails at that fallible step: a CDI device
// the injector cannot resolve, a block-I/O or RDT class the resolver does not know, an
// annotation the runtime's annotation filter rejects.
const (
	failCDIName    = "unresolvable.example/dev=none"
	failClass      = "no-such-class"
	failAnnotation = "forbidden.example/rejected"
)

// failToken names the callback a token of the adjustment makes fail ("" = none).
func (a *Adj) failToken() string {
	if _, ok := a.Annotations[failAnnotation]; ok {
		return "annotation_filter"
	}
	for _, n := range a.CDI {
		if n == failCDIName {
			return "cdi"
		}
	}
	if a.BlockIOClass != nil && *a.BlockIOClass == failClass {
		return "blockio"
	}
	if a.RdtClass != nil && *a.RdtClass == failClass {
		return "rdt"
	}
	return ""
}

// resolveBlockIO / resolveRdt are the deterministic class resolvers handed to the generator
// under test (and used by the model to know what "class X" stands for). Each call returns a
// fresh object.
func resolveBlockIO(class string) (*rspec.LinuxBlockIO, error) {
	if class == failClass {
		return nil, fmt.Errorf("unknown block I/O class %q", class)
	}
	w := uint16(100)
	for _, c := range []byte(class) {
		w = w*31 + uint16(c)
	}
	w = 10 + w%990
	lw := w / 2
	return &rspec.LinuxBlockIO{Weight: &w, LeafWeight: &lw}, nil
}

func resolveRdt(class string) (*rspec.LinuxIntelRdt, error) {
	if class == failClass {
		return nil, fmt.Errorf("unknown RDT class %q", class)
	}
	return &rspec.LinuxIntelRdt{ClosID: class, L3CacheSchema: "L3:0=" + class}, nil
}

func fileMode(v uint32) *os.FileMode { m := os.FileMode(v); return &m }
