package ocigen

import (
	"encoding/json"
	"math"
	"os"
	"strings"

	rspec "github.com/opencontainers/runtime-spec/specs-go"
	"pgregory.net/rapid"

	"nriverif/ev"
	"nriverif/gen"
)

// Known-finding switches (see KNOWN_FINDINGS.txt): while one is active the generator does
// not produce the corresponding shape.
const (
	// an annotation removed ("-k") and set ("k") in one adjustment
	slugD6 = "d6-annotation-order"
	// a list adjustment (env, mounts, devices) whose set of X precedes its removal of X
	slugD7 = "d7-list-order"
)

// small alphabets: the adjustment frequently names items present in the spec
var (
	annKeys = []string{"k1", "k2", "k3", "k4", "io.kubernetes.cri/x", "nri.io/y"}
	envKeys = []string{"E1", "E2", "E3", "E4", "E5", "PATH"}
	// Keys that themselves begin with one or two dashes, next to their dash-less siblings
	// (k1, nri.io/y / E1, PATH above). OCI annotation keys and variable names are arbitrary
	// non-empty strings, so such items may be in the ORIGINAL spec; by the removal-marker
	// protocol they can be removed ("-"+key) but never set through an adjustment (an entry
	// "-k1" IS the removal of k1), so the generator only ever requests their removal.
	annDashKeys = []string{"-k1", "--k1", "-", "-nri.io/y"}
	envDashKeys = []string{"-E1", "--E1", "-", "-PATH"}
	devPaths    = []string{"/dev/d0", "/dev/d1", "/dev/d2", "/dev/d3", "/dev/nvidia0", "/dev/fuse"}
	// Families WITHOUT removal-marker semantics (rlimit types, hugepage sizes, unified keys,
	// CDI names, hook paths and args, mount options, class names, cgroups path, and all
	// VALUES): a leading dash means nothing there, "-k" is an ordinary key or value that must
	// appear literally and must not touch its sibling "k". The dash-named entries sit at the
	// end of each alphabet (shrinking prefers the plain ones).
	rlimitTypes     = []string{"RLIMIT_NOFILE", "RLIMIT_NPROC", "RLIMIT_CORE", "RLIMIT_AS", "RLIMIT_MEMLOCK", "-RLIMIT_NOFILE"}
	pageSizes       = []string{"2MB", "1GB", "64KB", "-2MB"}
	unifiedKeys     = []string{"memory.high", "cpu.weight", "io.max", "pids.max"}
	unifiedDashKeys = []string{"-memory.high", "-cpu.weight", "-"}
	annVals         = []string{"", "v1", "v2", "x=y", "{\"a\":1}", "-v1", "-"}
	envVals         = []string{"", "v", "w", "a=b", "=", "x y", "/usr/bin:/bin", "-v", "--w"}
	mountOpts       = []string{"ro", "rw", "rbind", "bind", "rprivate", "nosuid", "noexec", "nodev", "relabel", "-ro"} // never rshared/rslave: they read the host mount table
	hookPaths       = []string{"/bin/h1", "/bin/h2", "/usr/libexec/hook", "-/bin/h1"}
	cdiNames        = []string{"vendor.com/gpu=0", "vendor.com/gpu=1", "example.org/nic=eth1", "x.io/dev=all", "-vendor.com/gpu=0"}
	classes         = []string{"gold", "silver", "bronze", "-gold"}
)

// oddPrefixes: first bytes (and one-character keys) a key may have. Every case draws one
// of them and extends the key alphabets of ALL keyed families, for the spec and for the
// adjustment alike, with prefix+stem keys and the one-character key: every printable ASCII
// character below '-' (they sort BEFORE the removal marker), '.', '/', digits, upper and
// lower case, '_', '~', DEL and UTF-8 multi-byte characters. '-' itself is the removal
// marker and is covered by the dash keys above; '=' cannot be part of a variable name.
var oddPrefixes = []string{"x", "$", "+", " ", "!", "\"", "#", "%", "&", "'", "(", ")", "*", ",", ".", "/", "0", "9", "A", "Z", "_", "~", "\x7f", "é", "日"}

// keysets are the key alphabets of one case.
type keysets struct {
	odd                                  string
	ann, env, dev, rl, hp, uni, cdi, seg []string
}

func mkKeysets(odd string) keysets {
	ext := func(base []string, stems ...string) []string {
		out := append([]string(nil), base...)
		for _, st := range stems {
			out = append(out, odd+st)
		}
		return out
	}
	ks := keysets{
		odd: odd,
		ann: ext(annKeys, "k1", "k2", ""),
		env: ext(envKeys, "E1", "E2", ""),
		rl:  ext(rlimitTypes, "RLIMIT_NOFILE", ""),
		hp:  ext(pageSizes, "2MB", ""),
		uni: ext(unifiedKeys, "memory.high", ""),
		cdi: ext(cdiNames, "vendor.com/gpu=0"),
		dev: append([]string(nil), devPaths...),
		seg: []string{"a", "b", "c"},
	}
	if odd != "/" { // a path segment cannot contain '/'; "." alone is not a name
		ks.dev = append(ks.dev, "/dev/"+odd+"d0")
		ks.seg = append(ks.seg, odd+"d")
	}
	return ks
}

// metaStrings: values that some layer might be tempted to interpret (shell / Kubernetes /
// make / printf / escape syntax). For the spec generator every value is an opaque string:
// it must appear exactly as requested. The referenced names (E1, E2, PATH, HOME) are
// variable names of the env alphabet, so the spec or the same adjustment often defines them.
var metaStrings = []string{
	"echo $$ > /run/app.pid", "$$", "$$(E1)", "CC=$(E1)", "$(PATH)", "$(E2)/bin:$(HOME)", "$(undefined)", "$(", "$",
	"${E1}", "$E1", "%s", "%(E1)s", "%%", "a\\nb", "\\$(E1)", "`id`", "$(E1", "~/x", "*",
}

func init() {
	annVals = append(annVals, "$$", "$(k1)", "${k1}", "%s", "a\\tb")
	envVals = append(envVals, "$$", "$(E1)", "$(PATH):/opt/bin", "${E2}", "$E1", "%s", "a\\nb")
}

func withMeta(base []string) []string { return append(append([]string(nil), base...), metaStrings...) }

func pick[T any](t *rapid.T, label string, xs ...T) T { return rapid.SampledFrom(xs).Draw(t, label) }

func chance(t *rapid.T, label string, num, den int) bool {
	// true for the num largest of den values: shrinking (towards 0) means "absent"
	return rapid.IntRange(0, den-1).Draw(t, label) >= den-num
}

func subset(t *rapid.T, label string, keys []string, min, max int) []string {
	if max > len(keys) {
		max = len(keys)
	}
	if min > max {
		min = max
	}
	return rapid.SliceOfNDistinct(rapid.SampledFrom(keys), min, max, rapid.ID[string]).Draw(t, label)
}

func ptrOf[T any](v T) *T { return &v }

// variant renders a clean absolute path in one of the spellings a mount destination may
// have; all spellings denote the same directory.
func variant(t *rapid.T, p string) string {
	switch rapid.IntRange(0, 11).Draw(t, "spelling") {
	case 10, 11:
		return p + "/"
	case 9:
		return p + "/."
	case 8:
		return p + "/./"
	case 7:
		i := strings.LastIndex(p, "/")
		return p[:i] + "//" + p[i+1:]
	}
	return p
}

// genDestPool draws the mount destinations of a case: one chain of nested directories,
// a few more paths over the same three segment names, sometimes the root.
//
// Mount destinations and device paths are ONE id space: two thirds of the cases also put one
// or two of the case's device paths (devs, in any spelling) and sometimes /dev itself into the pool,
// so that the spec or the adjustment mounts something (bind, tmpfs, with or without bind /
// rbind options) exactly where a device node is, is added or is removed.
func genDestPool(t *rapid.T, segs []string, devs []string) []string {
	var pool []string
	seen := map[string]bool{}
	add := func(p string) {
		if !seen[p] {
			seen[p] = true
			pool = append(pool, p)
		}
	}
	depth := rapid.IntRange(2, 4).Draw(t, "chain_depth")
	cur := ""
	for i := 0; i < depth; i++ {
		cur += "/" + pick(t, "seg", segs...)
		add(variant(t, cur))
	}
	n := rapid.IntRange(1, 4).Draw(t, "extra_paths")
	for i := 0; i < n; i++ {
		d := rapid.IntRange(1, 4).Draw(t, "depth")
		p := ""
		for j := 0; j < d; j++ {
			p += "/" + pick(t, "seg", segs...)
		}
		add(variant(t, p))
	}
	if chance(t, "root", 1, 3) {
		add("/")
	}
	if len(devs) > 0 {
		for _, d := range devs {
			add(variant(t, d))
		}
		if chance(t, "mount_at_dev_dir", 1, 4) {
			add("/dev")
		}
	}
	return pool
}

func genMountBody(t *rapid.T, dest string) AdjMount {
	m := AdjMount{
		Dest:    dest,
		Type:    pick(t, "mtype", "bind", "bind", "tmpfs", ""),
		Source:  pick(t, "msrc", "/src/a", "/src/b", "/var/lib/x", "tmpfs", ""),
		Options: rapid.SliceOfNDistinct(rapid.SampledFrom(mountOpts), 0, 3, rapid.ID[string]).Draw(t, "mopts"),
	}
	// Several propagation options in one list: the LAST one counts (it is what the runtime
	// ends up with). Lists whose last propagation option is rprivate need no look at the
	// host mount table, whatever stands before it; lists ending in rshared / rslave are host
	// dependent and stay out of the domain.
	if chance(t, "several_propagation_options", 1, 4) {
		var opts []string
		for _, o := range m.Options {
			if o != "rprivate" {
				opts = append(opts, o)
			}
		}
		earlier := rapid.SliceOfN(rapid.SampledFrom([]string{"rshared", "rslave", "rprivate"}), 1, 2).Draw(t, "earlier_propagation")
		// some ordinary options before, between and after the propagation options
		at := rapid.IntRange(0, len(opts)).Draw(t, "propagation_at")
		list := append([]string(nil), opts[:at]...)
		list = append(list, earlier...)
		rest := opts[at:]
		if len(rest) > 0 && rapid.Bool().Draw(t, "option_between") {
			list = append(list, rest[0])
			rest = rest[1:]
		}
		list = append(list, "rprivate")
		m.Options = append(list, rest...)
	}
	return m
}

func genDeviceBody(t *rapid.T, path string) AdjDevice {
	d := AdjDevice{
		Path:  path,
		Type:  pick(t, "dtype", "c", "c", "b", "u", "p"),
		Major: rapid.Int64Range(0, 300).Draw(t, "major"),
		Minor: rapid.Int64Range(0, 300).Draw(t, "minor"),
	}
	if chance(t, "has_mode", 2, 3) {
		d.FileMode = ptrOf(pick(t, "mode", uint32(0o660), 0o666, 0o444, 0o200, 0, uint32(os.ModeCharDevice|0o600)))
	}
	if chance(t, "has_uid", 1, 2) {
		d.UID = ptrOf(pick(t, "uid", uint32(0), 1000, math.MaxUint32))
	}
	if chance(t, "has_gid", 1, 2) {
		d.GID = ptrOf(pick(t, "gid", uint32(0), 44, 1000))
	}
	return d
}

func genHook(t *rapid.T) AdjHook {
	h := AdjHook{Path: pick(t, "hpath", hookPaths...)}
	if chance(t, "hargs", 1, 2) {
		h.Args = rapid.SliceOfN(rapid.SampledFrom(withMeta([]string{"h", "-v", "--id=1", ""})), 1, 3).Draw(t, "hargv")
	}
	if chance(t, "henv", 1, 3) {
		h.Env = rapid.SliceOfN(rapid.SampledFrom([]string{"A=1", "B=", "C=x=y", "D=$$", "E=$(E1)", "F=${E1}%s"}), 1, 2).Draw(t, "henvv")
	}
	if chance(t, "htimeout", 1, 2) {
		h.Timeout = ptrOf(pick(t, "timeout", int64(0), 1, 5, 3600))
	}
	return h
}

func ociHook(h AdjHook) rspec.Hook {
	var out []rspec.Hook
	modelHooks(&out, []AdjHook{h})
	return out[0]
}

func genHookList(t *rapid.T, label string, max int) []AdjHook {
	if !chance(t, label+"_some", 1, 2) {
		return nil
	}
	return rapid.SliceOfN(rapid.Custom(genHook), 1, max).Draw(t, label)
}

// keyed operations on one family: for every chosen key one of set / remove / both, then the
// whole entry list is shuffled so that a key carrying both appears in either order.
type opEntry struct {
	key string
	rm  bool
}

func genOps(t *rapid.T, label string, keys []string, max int, dashKeys ...string) []opEntry {
	chosen := subset(t, label+"_keys", keys, 1, max)
	var ents []opEntry
	if len(dashKeys) > 0 && chance(t, label+"_dash", 2, 3) {
		// removal (only) of items whose own key starts with a dash
		for _, k := range subset(t, label+"_dash_keys", dashKeys, 1, 3) {
			ents = append(ents, opEntry{k, true})
		}
	}
	for _, k := range chosen {
		switch pick(t, label+"_op", "set", "set", "remove", "remove", "both", "both", "both") {
		case "set":
			ents = append(ents, opEntry{k, false})
		case "remove":
			ents = append(ents, opEntry{k, true})
		default:
			ents = append(ents, opEntry{k, true}, opEntry{k, false})
		}
	}
	if len(ents) > 1 {
		ents = rapid.Permutation(ents).Draw(t, label+"_order")
	}
	if ev.Known(slugD7) {
		// known finding active: never a set before the removal of the same key
		firstSet := map[string]int{}
		for i, e := range ents {
			if !e.rm {
				firstSet[e.key] = i
			} else if j, ok := firstSet[e.key]; ok {
				ents[i], ents[j] = ents[j], ents[i]
				ev.Get("C13").AddExtra("excluded_"+slugD7, 1)
			}
		}
	}
	return ents
}

func genSpec(t *rapid.T, pool []string, ks keysets) rspec.Spec {
	annKeys, envKeys, devPaths, rlimitTypes, pageSizes, unifiedKeys := ks.ann, ks.env, ks.dev, ks.rl, ks.hp, ks.uni // this case's alphabets
	s := rspec.Spec{Version: "1.1.0"}
	// --- bystanders the adjustment never names
	s.Hostname = pick(t, "hostname", "", "ctr0")
	if chance(t, "root", 2, 3) {
		s.Root = &rspec.Root{Path: "rootfs", Readonly: rapid.Bool().Draw(t, "ro")}
	}
	p := &rspec.Process{
		Cwd:             pick(t, "cwd", "/", "/work"),
		User:            rspec.User{UID: pick(t, "uid", uint32(0), 1000), GID: pick(t, "gid", uint32(0), 1000)},
		NoNewPrivileges: rapid.Bool().Draw(t, "nnp"),
		Terminal:        rapid.Bool().Draw(t, "tty"),
	}
	s.Process = p
	if chance(t, "caps", 1, 3) {
		p.Capabilities = &rspec.LinuxCapabilities{Bounding: []string{"CAP_CHOWN", "CAP_KILL"}, Effective: []string{"CAP_KILL"}}
	}
	if chance(t, "has_args", 3, 4) {
		p.Args = rapid.SliceOfN(rapid.SampledFrom(withMeta([]string{"sh", "-c", "sleep 1", "", "--flag"})), 1, 3).Draw(t, "args")
	}
	if chance(t, "has_oom", 1, 2) {
		p.OOMScoreAdj = ptrOf(rapid.IntRange(-1000, 1000).Draw(t, "oom"))
	}
	// --- env: unique names, always NAME=value
	if chance(t, "env_style", 1, 6) {
		p.Env = []string{} // present but empty
	}
	envNames := append(subset(t, "env", envKeys, 0, len(envKeys)), subset(t, "env_other", []string{"HOME", "TERM", "LANG"}, 0, 3)...)
	if chance(t, "env_dash", 2, 3) {
		envNames = append(envNames, subset(t, "env_dash_names", envDashKeys, 2, len(envDashKeys))...)
	}
	if len(envNames) > 1 {
		envNames = rapid.Permutation(envNames).Draw(t, "env_order")
	}
	for _, k := range envNames {
		p.Env = append(p.Env, k+"="+pick(t, "envval", envVals...))
	}
	// --- rlimits: unique types
	for _, ty := range subset(t, "rlimits", rlimitTypes, 0, 3) {
		p.Rlimits = append(p.Rlimits, rspec.POSIXRlimit{Type: ty, Hard: gen.U64().Draw(t, "hard"), Soft: rapid.Uint64Range(0, 4096).Draw(t, "soft")})
	}
	// --- annotations
	switch rapid.IntRange(0, 5).Draw(t, "ann_shape") {
	case 0: // nil
	case 1:
		s.Annotations = map[string]string{}
	default:
		s.Annotations = map[string]string{}
		for _, k := range subset(t, "ann", annKeys, 1, len(annKeys)) {
			s.Annotations[k] = pick(t, "annval", annVals...)
		}
		if chance(t, "ann_dash", 2, 3) {
			for _, k := range subset(t, "ann_dash_keys", annDashKeys, 2, len(annDashKeys)) {
				s.Annotations[k] = pick(t, "annval", annVals...)
			}
		}
		if chance(t, "ann_other", 1, 2) {
			s.Annotations["io.kubernetes.pod.name"] = "pod0"
		}
	}
	// --- mounts: unique destinations from the pool, arbitrary order
	for _, d := range subset(t, "mounts", pool, 0, len(pool)) {
		m := genMountBody(t, d)
		s.Mounts = append(s.Mounts, rspec.Mount{Destination: m.Dest, Type: m.Type, Source: m.Source, Options: m.Options})
	}
	// --- hooks
	if chance(t, "hooks", 1, 2) {
		s.Hooks = &rspec.Hooks{}
		for _, l := range []*[]rspec.Hook{&s.Hooks.Prestart, &s.Hooks.CreateRuntime, &s.Hooks.CreateContainer, &s.Hooks.StartContainer, &s.Hooks.Poststart, &s.Hooks.Poststop} {
			for _, h := range genHookList(t, "spec_hooks", 2) {
				*l = append(*l, ociHook(h))
			}
		}
	}
	// --- linux
	l := &rspec.Linux{}
	s.Linux = l
	l.CgroupsPath = pick(t, "cgpath", "", "/kubepods/pod0/ctr0", "kubepods.slice:cri-containerd:ctr0")
	if chance(t, "ns", 2, 3) {
		l.Namespaces = []rspec.LinuxNamespace{{Type: rspec.PIDNamespace}, {Type: rspec.NetworkNamespace, Path: "/proc/1/ns/net"}, {Type: rspec.MountNamespace}}
	}
	if chance(t, "sysctl", 1, 3) {
		l.Sysctl = map[string]string{"net.ipv4.ip_forward": "1", "kernel.shmmax": "0"}
	}
	l.RootfsPropagation = pick(t, "rootprop", "", "", "rprivate", "rslave")
	if chance(t, "masked", 1, 3) {
		l.MaskedPaths = []string{"/proc/kcore", "/proc/keys"}
	}
	if chance(t, "rdt", 1, 3) {
		l.IntelRdt = &rspec.LinuxIntelRdt{ClosID: pick(t, "closid", "old", "gold"), EnableCMT: rapid.Bool().Draw(t, "cmt")}
	}
	for _, path := range subset(t, "devs", devPaths, 0, len(devPaths)) {
		d := genDeviceBody(t, path)
		o := rspec.LinuxDevice{Path: d.Path, Type: d.Type, Major: d.Major, Minor: d.Minor, UID: d.UID, GID: d.GID}
		if d.FileMode != nil {
			o.FileMode = fileMode(*d.FileMode)
		}
		l.Devices = append(l.Devices, o)
	}
	switch rapid.IntRange(0, 6).Draw(t, "res_shape") {
	case 0: // no resources section
	case 1:
		l.Resources = &rspec.LinuxResources{}
	default:
		r := &rspec.LinuxResources{}
		l.Resources = r
		if chance(t, "devrules", 2, 3) {
			r.Devices = append(r.Devices, rspec.LinuxDeviceCgroup{Allow: false, Access: "rwm"})
			if chance(t, "devrule2", 1, 2) {
				r.Devices = append(r.Devices, rspec.LinuxDeviceCgroup{Allow: true, Type: "c", Major: ptrOf(int64(1)), Minor: ptrOf(int64(3)), Access: "rw"})
			}
		}
		if chance(t, "mem", 2, 3) {
			m := &rspec.LinuxMemory{}
			r.Memory = m
			if chance(t, "mlimit", 2, 3) {
				m.Limit = ptrOf(rapid.Int64Range(1, 1<<40).Draw(t, "limit"))
			}
			if chance(t, "mswap", 1, 2) {
				m.Swap = ptrOf(pick(t, "swap", int64(-1), 0, 1<<30, 1<<41))
			}
			if chance(t, "mresv", 1, 2) {
				m.Reservation = ptrOf(rapid.Int64Range(0, 1<<30).Draw(t, "resv"))
			}
			if chance(t, "mswappiness", 1, 3) {
				m.Swappiness = ptrOf(uint64(rapid.IntRange(0, 100).Draw(t, "swappiness")))
			}
			if chance(t, "moom", 1, 3) {
				m.DisableOOMKiller = ptrOf(rapid.Bool().Draw(t, "oomkill"))
			}
		}
		if chance(t, "cpu", 2, 3) {
			c := &rspec.LinuxCPU{}
			r.CPU = c
			if chance(t, "cshares", 1, 2) {
				c.Shares = ptrOf(gen.U64().Draw(t, "shares"))
			}
			if chance(t, "cquota", 1, 2) {
				c.Quota = ptrOf(gen.I64().Draw(t, "quota"))
			}
			if chance(t, "cperiod", 1, 2) {
				c.Period = ptrOf(gen.U64().Draw(t, "period"))
			}
			if chance(t, "crtr", 1, 3) {
				c.RealtimeRuntime = ptrOf(gen.I64().Draw(t, "rtr"))
			}
			if chance(t, "crtp", 1, 3) {
				c.RealtimePeriod = ptrOf(gen.U64().Draw(t, "rtp"))
			}
			c.Cpus = pick(t, "cpus", "", "0", "0-3")
			c.Mems = pick(t, "mems", "", "0", "0-1")
			if chance(t, "cidle", 1, 4) {
				c.Idle = ptrOf(int64(1))
			}
		}
		if chance(t, "pids", 1, 2) {
			r.Pids = &rspec.LinuxPids{Limit: gen.I64().Draw(t, "pidlimit")}
		}
		for _, ps := range subset(t, "huge", pageSizes, 0, 3) {
			r.HugepageLimits = append(r.HugepageLimits, rspec.LinuxHugepageLimit{Pagesize: ps, Limit: gen.U64().Draw(t, "hlimit")})
		}
		if chance(t, "unified", 2, 3) {
			r.Unified = map[string]string{}
			for _, k := range subset(t, "unified_keys", unifiedKeys, 1, 4) {
				r.Unified[k] = pick(t, "uval", "max", "100", "")
			}
			if chance(t, "unified_dash", 1, 2) {
				for _, k := range subset(t, "unified_dash_keys", unifiedDashKeys, 1, 2) {
					r.Unified[k] = pick(t, "uval", "max", "100", "")
				}
			}
			if chance(t, "unified_other", 1, 2) {
				r.Unified["memory.swap.high"] = "max"
			}
		}
		if chance(t, "blockio", 1, 3) {
			r.BlockIO = &rspec.LinuxBlockIO{Weight: ptrOf(uint16(rapid.IntRange(10, 1000).Draw(t, "weight")))}
		}
		if chance(t, "network", 1, 4) {
			r.Network = &rspec.LinuxNetwork{ClassID: ptrOf(uint32(1048577))}
		}
	}
	return s
}

// genAdj draws one adjustment; every family is present with probability 1/den.
func genAdj(t *rapid.T, pool []string, den int, ks keysets) Adj {
	annKeys, envKeys, devPaths, rlimitTypes, pageSizes, unifiedKeys, cdiNames := ks.ann, ks.env, ks.dev, ks.rl, ks.hp, ks.uni, ks.cdi // this case's alphabets
	var a Adj
	has := func(family string) bool { return chance(t, "has_"+family, 1, den) }

	if has("annotations") {
		a.Annotations = map[string]string{}
		for _, e := range genOps(t, "ann", annKeys, 4, annDashKeys...) {
			if e.rm {
				a.Annotations["-"+e.key] = ""
			} else {
				a.Annotations[e.key] = pick(t, "annval", annVals...)
			}
		}
		if ev.Known(slugD6) {
			for k := range a.Annotations {
				if key, rm := marked(k); rm {
					if _, both := a.Annotations[key]; both {
						delete(a.Annotations, k)
						ev.Get("C13").AddExtra("excluded_"+slugD6, 1)
					}
				}
			}
		}
	}
	if has("env") {
		keys := append(append([]string(nil), envKeys...), "NEW1", "NEW2")
		for _, e := range genOps(t, "env", keys, 4, envDashKeys...) {
			if e.rm {
				a.Env = append(a.Env, KV{K: "-" + e.key})
			} else {
				a.Env = append(a.Env, KV{K: e.key, V: pick(t, "envval", envVals...)})
			}
		}
	}
	if has("mounts") {
		for _, e := range genOps(t, "mnt", pool, 4) {
			if e.rm {
				a.Mounts = append(a.Mounts, AdjMount{Dest: "-" + e.key})
			} else {
				a.Mounts = append(a.Mounts, genMountBody(t, e.key))
			}
		}
	}
	if has("devices") {
		for _, e := range genOps(t, "dev", devPaths, 3) {
			if e.rm {
				a.Devices = append(a.Devices, AdjDevice{Path: "-" + e.key})
			} else {
				a.Devices = append(a.Devices, genDeviceBody(t, e.key))
			}
		}
	}
	if has("args") {
		a.Args = rapid.SliceOfN(rapid.SampledFrom(withMeta([]string{"/bin/app", "run", "-x", "", "a b"})), 1, 4).Draw(t, "args")
	}
	if has("hooks") {
		a.Hooks = &AdjHooks{
			Prestart: genHookList(t, "prestart", 2), CreateRuntime: genHookList(t, "createRuntime", 2), CreateContainer: genHookList(t, "createContainer", 2),
			StartContainer: genHookList(t, "startContainer", 2), Poststart: genHookList(t, "poststart", 2), Poststop: genHookList(t, "poststop", 2),
		}
	}
	if has("rlimits") {
		for _, ty := range subset(t, "rl_types", rlimitTypes, 1, 3) {
			a.Rlimits = append(a.Rlimits, AdjRlimit{Type: ty, Hard: gen.U64().Draw(t, "hard"), Soft: rapid.Uint64Range(0, 4096).Draw(t, "soft")})
		}
	}
	if has("cdi") {
		a.CDI = subset(t, "cdi", cdiNames, 1, 3)
	}
	if has("cpu") {
		c := &AdjCPU{}
		a.CPU = c
		if chance(t, "period", 1, 2) {
			c.Period = ptrOf(gen.U64().Draw(t, "periodv"))
		}
		if chance(t, "quota", 1, 2) {
			c.Quota = ptrOf(gen.I64().Draw(t, "quotav"))
		}
		if chance(t, "shares", 1, 2) {
			c.Shares = ptrOf(gen.U64().Draw(t, "sharesv"))
		}
		if chance(t, "rtr", 1, 3) {
			c.RtRuntime = ptrOf(gen.I64().Draw(t, "rtrv"))
		}
		if chance(t, "rtp", 1, 3) {
			c.RtPeriod = ptrOf(gen.U64().Draw(t, "rtpv"))
		}
		c.Cpus = pick(t, "cpus", "", "", "1", "2-5")
		c.Mems = pick(t, "mems", "", "", "1")
	}
	if has("memory") {
		a.MemLimit = ptrOf(rapid.OneOf(
			rapid.SampledFrom([]int64{1, -1, 4096, math.MaxInt64, math.MinInt64}),
			rapid.Int64Range(1, 1<<40),
		).Draw(t, "memlimit"))
	}
	if has("hugepages") {
		for _, ps := range subset(t, "hp_sizes", append(append([]string(nil), pageSizes...), "32MB"), 1, 3) {
			a.Hugepages = append(a.Hugepages, AdjHuge{PageSize: ps, Limit: gen.U64().Draw(t, "hplimit")})
		}
	}
	if has("unified") {
		a.Unified = map[string]string{}
		keys := append(append(append([]string(nil), unifiedKeys...), "cpu.max"), unifiedDashKeys...)
		for _, k := range subset(t, "uni_keys", keys, 1, 4) {
			a.Unified[k] = pick(t, "univ", "max", "200", "1000 100000", "", "-1")
		}
	}
	if has("pids") {
		a.Pids = ptrOf(gen.I64().Draw(t, "pids"))
	}
	if has("cgroups_path") {
		a.CgroupsPath = pick(t, "cgpath", "/kubepods/pod1/ctr9", "system.slice:nri:ctr9", "x", "-kubepods/x")
	}
	if has("oom") {
		a.OomScoreAdj = ptrOf(int64(rapid.IntRange(-1000, 1000).Draw(t, "oom")))
	}
	if has("blockio") {
		a.BlockIOClass = ptrOf(pick(t, "bioclass", "", classes[0], classes[1], classes[2], classes[3]))
	}
	if has("rdt") {
		a.RdtClass = ptrOf(pick(t, "rdtclass", "", classes[0], classes[1], classes[2], classes[3]))
	}
	a.EmptyLinux = chance(t, "empty_linux", 1, 4)
	a.EmptyResources = chance(t, "empty_resources", 1, 4)
	a.EmptyMemory = chance(t, "empty_memory", 1, 6)
	return a
}

func genC13(t *rapid.T) C13Case {
	ks := mkKeysets(pick(t, "odd_prefix", oddPrefixes...))
	var shared []string // device paths that are mount destinations too
	if chance(t, "mounts_at_device_paths", 2, 3) {
		shared = subset(t, "device_paths_as_destinations", ks.dev, 1, 2)
	}
	pool := genDestPool(t, ks.seg, shared)
	for _, d := range shared { // drawn more often as device keys (the draws are distinct by value)
		ks.dev = append(ks.dev, d, d)
	}
	c := C13Case{Spec: genSpec(t, pool, ks), Reps: 32}
	// Each family is present with probability 1/2 ("focused" cases: 1/5).
	den := 2
	if chance(t, "focused", 1, 4) {
		den = 5
	}
	c.Adj = genAdj(t, pool, den, ks)
	c.FromSpec = rapid.Bool().Draw(t, "from_spec")
	// a history: zero to two further (smaller) adjustments on the same generator and spec
	for i, n := 0, pick(t, "more_steps", 0, 0, 0, 1, 1, 2); i < n; i++ {
		c.More = append(c.More, genAdj(t, pool, 3, ks))
	}
	// Failed calls: in a quarter of the cases one step is preceded by a FAILING attempt of the
	// same adjustment (it carries a token that makes a callback of the generator fail: an
	// unresolvable CDI device, an unknown block-I/O or RDT class, an annotation the filter
	// rejects), so that the step itself is the retry on the same generator; now and then a
	// failing step stands alone at a drawn position.
	if chance(t, "failed_attempt", 1, 4) {
		steps := append([]Adj{c.Adj}, c.More...)
		i := rapid.IntRange(0, len(steps)-1).Draw(t, "failing_before")
		var failing Adj
		if chance(t, "failing_is_retry_twin", 3, 4) {
			b, _ := json.Marshal(&steps[i])
			_ = json.Unmarshal(b, &failing)
		} else {
			failing = genAdj(t, pool, 4, ks)
		}
		switch pick(t, "failing_callback", "cdi", "blockio", "rdt", "annotation_filter") {
		case "cdi":
			failing.CDI = append(failing.CDI, failCDIName)
		case "blockio":
			failing.BlockIOClass = ptrOf(failClass)
		case "rdt":
			failing.RdtClass = ptrOf(failClass)
		default:
			if failing.Annotations == nil {
				failing.Annotations = map[string]string{}
			}
			failing.Annotations[failAnnotation] = "x"
		}
		steps = append(steps[:i], append([]Adj{failing}, steps[i:]...)...)
		c.Adj, c.More = steps[0], steps[1:]
	}
	// the CDI injector callback edits the spec like a real one in half of the cases
	if chance(t, "injector_edits", 1, 2) {
		c.Inject = &Inject{
			HookKind:      pick(t, "inject_hook", append([]string{""}, hookKinds...)...),
			Env:           rapid.Bool().Draw(t, "inject_env"),
			Mount:         rapid.Bool().Draw(t, "inject_mount"),
			Device:        rapid.Bool().Draw(t, "inject_device"),
			MountAtDevice: chance(t, "inject_mount_at_device", 1, 2),
		}
	}
	return c
}
