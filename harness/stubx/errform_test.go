package stubx

// The FORM of a failing handler's error (besides its text): plain, wrapping or being one of the
// transport / context sentinels, gRPC status errors, joined errors, custom error types, a typed
// nil pointer, errors of a context the handler created itself. Coming back from a plugin's
// handler all of these are just the plugin's answer: the runtime must get an error carrying it.
// (Sentinel list as in harness/faults/errform.go.)

import (
	"context"
	"errors"
	"fmt"
	"io"
	"net"
	"os"
	"syscall"
	"time"

	"github.com/containerd/ttrpc"
	"google.golang.org/grpc/codes"
	"google.golang.org/grpc/status"
	"google.golang.org/protobuf/proto"
)

var sentinels = map[string]error{
	"ttrpc.ErrClosed":          ttrpc.ErrClosed,
	"ttrpc.ErrServerClosed":    ttrpc.ErrServerClosed,
	"ttrpc.ErrProtocol":        ttrpc.ErrProtocol,
	"ttrpc.ErrStreamClosed":    ttrpc.ErrStreamClosed,
	"ttrpc.Oversized":          ttrpc.OversizedMessageError(5 << 20),
	"context.DeadlineExceeded": context.DeadlineExceeded,
	"context.Canceled":         context.Canceled,
	"io.EOF":                   io.EOF,
	"io.ErrUnexpectedEOF":      io.ErrUnexpectedEOF,
	"io.ErrClosedPipe":         io.ErrClosedPipe,
	"net.ErrClosed":            net.ErrClosed,
	"os.ErrNotExist":           os.ErrNotExist,
	"os.ErrDeadlineExceeded":   os.ErrDeadlineExceeded,
	"syscall.EPIPE":            syscall.EPIPE,
	"syscall.ECONNRESET":       syscall.ECONNRESET,
	"syscall.ENOMEM":           syscall.ENOMEM,
	"proto.Error":              proto.Error,
}

var sentinelNames = []string{
	"context.DeadlineExceeded", "ttrpc.ErrClosed", "io.ErrUnexpectedEOF", "ttrpc.ErrProtocol", "proto.Error", "ttrpc.Oversized",
	"context.Canceled", "io.EOF", "ttrpc.ErrServerClosed", "syscall.EPIPE", "syscall.ECONNRESET", "net.ErrClosed",
	"ttrpc.ErrStreamClosed", "io.ErrClosedPipe", "os.ErrNotExist", "os.ErrDeadlineExceeded", "syscall.ENOMEM",
}

// errForms lists the forms; the first entry of a name is what an unknown form falls back to.
var errForms = []string{"plain", "wrap", "bare", "status", "wrapstatus", "join", "custom", "customis", "nilptr", "ctxtimeout", "ctxtimeoutwrap", "ctxcancel"}

// ErrSpec describes a failing handler's error.
type ErrSpec struct {
	Form     string `json:"form,omitempty"`     // one of errForms; "" = plain
	Sentinel string `json:"sentinel,omitempty"` // wrap, bare, join, custom, customis
	Code     int    `json:"code,omitempty"`     // status, wrapstatus: 1..16
}

// wrapErr is a custom error type with an Unwrap method.
type wrapErr struct {
	text  string
	inner error
}

func (e *wrapErr) Error() string { return e.text }
func (e *wrapErr) Unwrap() error { return e.inner }

// isErr is a custom error type that claims to be its target through an Is method.
type isErr struct {
	text   string
	target error
}

func (e *isErr) Error() string        { return e.text }
func (e *isErr) Is(target error) bool { return target == e.target }

// nilErr is used as a typed nil pointer: a non-nil error value without any content.
type nilErr struct{}

const nilErrText = "failure reported through a nil *nilErr"

func (e *nilErr) Error() string { return nilErrText }

func (sp ErrSpec) sentinel() error {
	if s, ok := sentinels[sp.Sentinel]; ok {
		return s
	}
	return io.EOF
}

func (sp ErrSpec) code() codes.Code {
	c := codes.Code(sp.Code)
	if c == codes.OK || c > codes.Unauthenticated {
		c = codes.Unknown
	}
	return c
}

// build returns the function producing the handler's error (run inside the handler) and the
// text of the handler that the runtime must be shown.
func (sp ErrSpec) build(text string) (mk func() error, carries string) {
	switch sp.Form {
	case "wrap":
		err := fmt.Errorf("%s: %w", text, sp.sentinel())
		return func() error { return err }, text
	case "bare":
		err := sp.sentinel()
		carries = err.Error()
		if st, ok := status.FromError(err); ok {
			carries = st.Message()
		}
		return func() error { return err }, carries
	case "status":
		err := status.Error(sp.code(), text)
		return func() error { return err }, text
	case "wrapstatus":
		err := fmt.Errorf("%s: %w", text, status.Error(sp.code(), "inner status"))
		return func() error { return err }, text
	case "join":
		err := errors.Join(errors.New(text), sp.sentinel())
		return func() error { return err }, text
	case "custom":
		err := &wrapErr{text: text, inner: sp.sentinel()}
		return func() error { return err }, text
	case "customis":
		err := &isErr{text: text, target: sp.sentinel()}
		return func() error { return err }, text
	case "nilptr":
		return func() error { var e *nilErr; return e }, nilErrText
	case "ctxtimeout": // the handler's own, already expired, context
		return func() error {
			ctx, cancel := context.WithTimeout(context.Background(), time.Nanosecond)
			defer cancel()
			<-ctx.Done()
			return ctx.Err()
		}, context.DeadlineExceeded.Error()
	case "ctxtimeoutwrap":
		return func() error {
			ctx, cancel := context.WithTimeout(context.Background(), time.Nanosecond)
			defer cancel()
			<-ctx.Done()
			return fmt.Errorf("%s: %w", text, ctx.Err())
		}, text
	case "ctxcancel":
		return func() error {
			ctx, cancel := context.WithCancel(context.Background())
			cancel()
			return fmt.Errorf("%s: %w", text, ctx.Err())
		}, text
	}
	err := errors.New(text)
	return func() error { return err }, text
}

func (sp ErrSpec) class() string {
	f := sp.Form
	known := false
	for _, k := range errForms {
		known = known || k == f
	}
	if !known {
		f = "plain"
	}
	return "errform:" + f
}

// touchesContext tells whether the error has a context sentinel in its chain (classes only).
func (sp ErrSpec) touchesContext() bool {
	switch sp.Form {
	case "ctxtimeout", "ctxtimeoutwrap", "ctxcancel":
		return true
	case "wrap", "bare", "join", "custom", "customis":
		return sp.Sentinel == "context.DeadlineExceeded" || sp.Sentinel == "context.Canceled"
	}
	return false
}

// wireMessage is what the runtime end is shown for a handler error: ttrpc answers with the
// error's gRPC status if it has one, otherwise with a status made of its Error() text.
func wireMessage(err error) string {
	if st, ok := status.FromError(err); ok {
		return st.Message()
	}
	return err.Error()
}

// allErrSpecs enumerates every form with every sentinel / code (directed sweep).
func allErrSpecs() []ErrSpec {
	out := []ErrSpec{{Form: "plain"}, {Form: "nilptr"}, {Form: "ctxtimeout"}, {Form: "ctxtimeoutwrap"}, {Form: "ctxcancel"}}
	for _, f := range []string{"wrap", "bare", "join", "custom", "customis"} {
		for _, s := range sentinelNames {
			out = append(out, ErrSpec{Form: f, Sentinel: s})
		}
	}
	for c := 1; c <= 16; c++ {
		out = append(out, ErrSpec{Form: "status", Code: c})
	}
	for _, c := range []int{2, 4, 14} {
		out = append(out, ErrSpec{Form: "wrapstatus", Code: c})
	}
	return out
}
