package stubx

// C15 — "The stub subscribes exactly the implemented events and dispatches faithfully".
//
// A case picks one of the 256 generated plugin types (types_gen.go) and 1..3 sessions of ONE
// plugin value on ONE stub instance; each session has its own configuration plan (what the
// plugin's Configure handler returns this time), its own list of requests and its own way of
// ending (runtime closes / plugin stops). The runtime end is a raw peer written here: ttRPC
// over the multiplexer straight to the stub, the way pkg/adaptation/plugin.go connects,
// without the adaptation in between, so that what the stub answers is seen unfiltered. Every
// session is judged on its own: what a stub answered in an earlier session must not matter.

import (
	"context"
	"errors"
	"fmt"
	"io"
	"math"
	"net"
	"runtime"
	"sort"
	"strings"
	"sync"
	"testing"
	"time"

	"github.com/containerd/nri/pkg/api"
	nrinet "github.com/containerd/nri/pkg/net"
	"github.com/containerd/nri/pkg/net/multiplex"
	"github.com/containerd/nri/pkg/stub"
	"github.com/containerd/ttrpc"
	"github.com/sirupsen/logrus"
	"google.golang.org/grpc/status"
	"google.golang.org/protobuf/encoding/prototext"
	"google.golang.org/protobuf/proto"
	"pgregory.net/rapid"

	"nriverif/ev"
	"nriverif/gen"
)

func init() {
	logrus.SetLevel(logrus.PanicLevel)
	logrus.SetOutput(io.Discard)
}

// ---- the oracle's own tables ------------------------------------------------------------

// validMask: the thirteen events of the protocol (values 1..13), bit (e-1) each.
const validMask = api.EventMask(1<<13 - 1)

// evHandler: which handler the statement says an event belongs to.
var evHandler = map[api.Event]string{
	api.Event_RUN_POD_SANDBOX:         hRunPodSandbox,
	api.Event_STOP_POD_SANDBOX:        hStopPodSandbox,
	api.Event_REMOVE_POD_SANDBOX:      hRemovePodSandbox,
	api.Event_CREATE_CONTAINER:        hCreateContainer,
	api.Event_POST_CREATE_CONTAINER:   hPostCreateContainer,
	api.Event_START_CONTAINER:         hStartContainer,
	api.Event_POST_START_CONTAINER:    hPostStartContainer,
	api.Event_UPDATE_CONTAINER:        hUpdateContainer,
	api.Event_POST_UPDATE_CONTAINER:   hPostUpdateContainer,
	api.Event_STOP_CONTAINER:          hStopContainer,
	api.Event_REMOVE_CONTAINER:        hRemoveContainer,
	api.Event_UPDATE_POD_SANDBOX:      hUpdatePodSandbox,
	api.Event_POST_UPDATE_POD_SANDBOX: hPostUpdatePodSandbox,
}

// podEvent: events that carry a pod only.
func podEvent(e api.Event) bool {
	switch e {
	case api.Event_RUN_POD_SANDBOX, api.Event_STOP_POD_SANDBOX, api.Event_REMOVE_POD_SANDBOX,
		api.Event_UPDATE_POD_SANDBOX, api.Event_POST_UPDATE_POD_SANDBOX:
		return true
	}
	return false
}

var (
	kindIdx = map[string][]int{} // kind -> registry indices of the plain variant of each handler set (+1: Configure, +2: Synchronize)
)

func init() {
	for i, e := range registry {
		if !e.HasConfigure && !e.HasSync {
			kindIdx[e.Kind] = append(kindIdx[e.Kind], i)
		}
	}
}

// ---- the case -----------------------------------------------------------------------------

type C15Req struct {
	Event int32 `json:"event"` // api.Event, 1..13
	// The shape of the message is independent of the event kind: every optional part is an
	// index into its pool, or -1 = absent (nil), or -2 = present but empty.
	Pod  int    `json:"pod"`           // Pods
	Ctr  int    `json:"ctr"`           // Ctrs; sent with every kind of request that has a container field - also pod events
	Res  int    `json:"res"`           // Res: UpdateContainer / UpdatePodSandbox resources
	Ovh  int    `json:"ovh"`           // Res: UpdatePodSandbox overhead
	Adj  int    `json:"adj"`           // scripted adjustment: index into Adjusts, -1 = nil (CreateContainer)
	Upd  int    `json:"upd"`           // scripted updates: index into Updates, -1 = nil
	Fail bool   `json:"fail"`          // the handler fails ...
	Err  string `json:"err,omitempty"` // ... with this text
	// UpdRel relates the scripted updates to the request: "first" = the first update names the
	// container of this very request (one is added if the list is empty), "all" = every update does.
	UpdRel string `json:"upd_rel,omitempty"`
	// DelayMs: the handler takes this long to answer (always well within the request timeout the
	// runtime end announced in this session's Configure request: 2*DelayMs <= ReqTimeoutMs).
	DelayMs int `json:"delay_ms,omitempty"`
	// Rel relates parts of the message to each other (applied after the parts are resolved):
	//   "res=ctr"      the container carries, as its own Linux.Resources, a deep copy of the request's resources
	//   "res=ctr-same" ... the very same object
	//   "ovh=res"      UpdatePodSandbox: the overhead is a deep copy of the resources
	//   "ovh=res=pod"  ... the same object, and the pod's own overhead / resources are copies of it too
	//   "ctrid=podid"  the container's id (and pod reference) is the pod's id
	Rel string `json:"rel,omitempty"`
	// ... and this form (nil = errors.New(text)), see errform_test.go
	ErrForm *ErrSpec `json:"err_form,omitempty"`
}

// C15Chunk is one SynchronizeRequest message: indices into the pod and container pools.
type C15Chunk struct {
	Pods []int `json:"pods"`
	Ctrs []int `json:"ctrs"`
}

// C15Session is one connection of the stub to a runtime: what the plugin's Configure handler
// returns this time, the Configure request, the requests, and how the session ends.
type C15Session struct {
	// What the plugin's Configure handler returns (ignored by types without one).
	CfgMask int32  `json:"cfg_mask"`
	CfgFail bool   `json:"cfg_fail,omitempty"`
	CfgErr  string `json:"cfg_err,omitempty"`
	// The Configure request.
	Config  string `json:"config,omitempty"`
	Runtime string `json:"runtime,omitempty"`
	Version string `json:"version,omitempty"`
	// SyncUpdRel: the first scripted update of the Synchronize handler names the first container
	// this session's Synchronize carried (one is added if the list is empty).
	SyncUpdRel bool `json:"sync_upd_rel,omitempty"`
	// SyncAbrupt (only when !SyncFinal): the last More=true message is written and the runtime
	// end drops the connection at once, SyncAbruptUs microseconds later, without waiting for
	// the answer; the next session follows immediately.
	SyncAbrupt   bool `json:"sync_abrupt,omitempty"`
	SyncAbruptUs int  `json:"sync_abrupt_us,omitempty"`
	// ReqTimeoutMs is the plugin request timeout the runtime end announces in the Configure
	// request (milliseconds; 0 = it announces none). The runtime end itself waits much longer.
	ReqTimeoutMs int64 `json:"req_timeout_ms"`
	// The Synchronize request after Configure, sent as len(SyncChunks) messages (none when
	// empty). All but the last carry More=true; the last one too unless SyncFinal - then the
	// runtime goes away in the middle of the synchronization: no requests, the session ends.
	SyncChunks  []C15Chunk `json:"sync_chunks,omitempty"`
	SyncFinal   bool       `json:"sync_final,omitempty"`
	SyncUpd     int        `json:"sync_upd"`                // scripted updates of the Synchronize handler: index into Updates, -1 = nil
	SyncFail    bool       `json:"sync_fail,omitempty"`     // the Synchronize handler fails ...
	SyncErr     string     `json:"sync_err,omitempty"`      // ... with this text
	SyncErrForm *ErrSpec   `json:"sync_err_form,omitempty"` // ... and this form
	Reqs        []C15Req   `json:"reqs"`
	// How the session ends: "close" = the runtime end closes the connection, "stop" = the
	// plugin calls Stop(). (A session whose configuration failed has ended already.)
	End string `json:"end"`
	// StartCtx: the context the plugin hands to stub.Start() for this session: "" = Background,
	// "cancel" = cancelled right after Start() returned (the `defer cancel()` pattern),
	// "deadline" = a deadline that expires shortly after Start() returned.
	StartCtx string `json:"start_ctx,omitempty"`
}

// C15Case: one plugin value on one stub instance, connected 1..3 times in a row.
type C15Case struct {
	Type     int          `json:"type"` // index into the registry of generated plugin types
	Sessions []C15Session `json:"sessions"`

	Pods    []*api.PodSandbox          `json:"pods"`
	Ctrs    []*api.Container           `json:"ctrs"`
	Res     []*api.LinuxResources      `json:"res"`
	Adjusts []*api.ContainerAdjustment `json:"adjusts"`
	Updates [][]*api.ContainerUpdate   `json:"updates"`
}

// ---- generators ---------------------------------------------------------------------------

func maybe(t *rapid.T, label string, oneIn int) bool {
	return rapid.IntRange(0, oneIn-1).Draw(t, label) == 0
}

func genNamespaces(t *rapid.T) []*api.LinuxNamespace {
	n := rapid.IntRange(0, 2).Draw(t, "nns")
	var out []*api.LinuxNamespace
	for i := 0; i < n; i++ {
		out = append(out, &api.LinuxNamespace{
			Type: rapid.SampledFrom([]string{"pid", "network", "mount", "ipc", "cgroup", ""}).Draw(t, "nstype"),
			Path: gen.Str().Draw(t, "nspath"),
		})
	}
	return out
}

func genMounts(t *rapid.T, max int) []*api.Mount {
	n := rapid.IntRange(0, max).Draw(t, "nmounts")
	var out []*api.Mount
	for i := 0; i < n; i++ {
		out = append(out, &api.Mount{
			Destination: rapid.OneOf(rapid.StringMatching(`(/[a-z]{1,3}){1,3}`), gen.Str()).Draw(t, "dst"),
			Type:        rapid.SampledFrom([]string{"", "bind", "tmpfs"}).Draw(t, "mtype"),
			Source:      gen.Str().Draw(t, "src"),
			Options:     gen.StrSlice().Draw(t, "opts"),
		})
	}
	return out
}

func genHooks(t *rapid.T) *api.Hooks {
	if !maybe(t, "hooks", 4) {
		return nil
	}
	h := func(label string) []*api.Hook {
		n := rapid.IntRange(0, 1).Draw(t, label)
		var out []*api.Hook
		for i := 0; i < n; i++ {
			hk := &api.Hook{Path: gen.Str().Draw(t, "hpath"), Args: gen.StrSlice().Draw(t, "hargs"), Env: gen.StrSlice().Draw(t, "henv")}
			if rapid.Bool().Draw(t, "hto") {
				hk.Timeout = &api.OptionalInt{Value: gen.I64().Draw(t, "htov")}
			}
			out = append(out, hk)
		}
		return out
	}
	return &api.Hooks{Prestart: h("prestart"), CreateRuntime: h("creatert"), CreateContainer: h("createctr"),
		StartContainer: h("startctr"), Poststart: h("poststart"), Poststop: h("poststop")}
}

func genDevices(t *rapid.T) []*api.LinuxDevice {
	n := rapid.IntRange(0, 2).Draw(t, "ndevs")
	var out []*api.LinuxDevice
	for i := 0; i < n; i++ {
		d := &api.LinuxDevice{
			Path:  rapid.OneOf(rapid.StringMatching(`/dev/[a-z]{1,4}[0-9]?`), gen.Str()).Draw(t, "dpath"),
			Type:  rapid.SampledFrom([]string{"", "b", "c"}).Draw(t, "dtype"),
			Major: gen.I64().Draw(t, "major"), Minor: gen.I64().Draw(t, "minor"),
		}
		if rapid.Bool().Draw(t, "dmode") {
			d.FileMode = &api.OptionalFileMode{Value: gen.U32().Draw(t, "dmodev")}
		}
		if rapid.Bool().Draw(t, "duid") {
			d.Uid = &api.OptionalUInt32{Value: gen.U32().Draw(t, "duidv")}
		}
		if maybe(t, "dgid", 3) {
			d.Gid = &api.OptionalUInt32{Value: gen.U32().Draw(t, "dgidv")}
		}
		out = append(out, d)
	}
	return out
}

func genRlimits(t *rapid.T) []*api.POSIXRlimit {
	n := rapid.IntRange(0, 2).Draw(t, "nrlim")
	var out []*api.POSIXRlimit
	for i := 0; i < n; i++ {
		out = append(out, &api.POSIXRlimit{
			Type: rapid.SampledFrom([]string{"RLIMIT_NOFILE", "RLIMIT_AS", "RLIMIT_CORE", ""}).Draw(t, "rltype"),
			Hard: gen.U64().Draw(t, "hard"), Soft: gen.U64().Draw(t, "soft"),
		})
	}
	return out
}

// genRes draws resources for pool slot i: slot 0 may be nil, all others are non-nil, and every
// non-nil entry is stamped with its slot so that two different slots never compare equal (an
// overhead/resources swap must be observable).
func genRes(t *rapid.T, i int) *api.LinuxResources {
	r := gen.NRIResources().Draw(t, "res")
	if r == nil {
		if i == 0 {
			return nil
		}
		r = &api.LinuxResources{}
	}
	if r.Unified == nil {
		r.Unified = map[string]string{}
	}
	r.Unified["verif.slot"] = fmt.Sprint(i)
	return r
}

func genPod(t *rapid.T, i int) *api.PodSandbox {
	p := &api.PodSandbox{
		Id:             fmt.Sprintf("pod%d-%s", i, gen.Word().Draw(t, "podid")),
		Name:           gen.Str().Draw(t, "podname"),
		Uid:            gen.Str().Draw(t, "uid"),
		Namespace:      rapid.SampledFrom([]string{"default", "kube-system", "", "ns-ü"}).Draw(t, "namespace"),
		Labels:         gen.StrMap().Draw(t, "labels"),
		Annotations:    gen.StrMap().Draw(t, "annotations"),
		RuntimeHandler: rapid.SampledFrom([]string{"", "runc", "kata"}).Draw(t, "rth"),
		Pid:            rapid.Uint32Range(0, 70000).Draw(t, "pid"),
	}
	if rapid.Bool().Draw(t, "podlinux") {
		l := &api.LinuxPodSandbox{
			CgroupParent: gen.Str().Draw(t, "cgparent"),
			CgroupsPath:  gen.Str().Draw(t, "cgpath"),
			Namespaces:   genNamespaces(t),
		}
		if maybe(t, "podovh", 3) {
			l.PodOverhead = gen.NRIResources().Draw(t, "podoverhead")
		}
		if maybe(t, "podres", 3) {
			l.PodResources = gen.NRIResources().Draw(t, "podresources")
		}
		if maybe(t, "podlres", 3) {
			l.Resources = gen.NRIResources().Draw(t, "podlinuxresources")
		}
		p.Linux = l
	}
	if maybe(t, "ips", 3) {
		p.Ips = rapid.SliceOfN(rapid.SampledFrom([]string{"10.0.0.1", "fd00::1", "192.168.1.7", ""}), 1, 2).Draw(t, "ipsv")
	}
	return p
}

func genCtr(t *rapid.T, i int, pods []*api.PodSandbox) *api.Container {
	c := &api.Container{
		Id:           fmt.Sprintf("ctr%d-%s", i, gen.Word().Draw(t, "ctrid")),
		PodSandboxId: pods[rapid.IntRange(0, len(pods)-1).Draw(t, "ctrpod")].Id,
		Name:         gen.Str().Draw(t, "ctrname"),
		State:        api.ContainerState(rapid.Int32Range(0, 4).Draw(t, "state")),
		Labels:       gen.StrMap().Draw(t, "labels"),
		Annotations:  gen.StrMap().Draw(t, "annotations"),
		Args:         gen.StrSlice().Draw(t, "args"),
		Pid:          rapid.Uint32Range(0, 70000).Draw(t, "pid"),
	}
	if rapid.Bool().Draw(t, "hasenv") {
		c.Env = rapid.SliceOfN(rapid.Custom(func(t *rapid.T) string {
			return strings.ToUpper(gen.Word().Draw(t, "k")) + "=" + gen.Str().Draw(t, "v")
		}), 0, 3).Draw(t, "env")
	}
	c.Mounts = genMounts(t, 2)
	c.Hooks = genHooks(t)
	if rapid.Bool().Draw(t, "ctrlinux") {
		l := &api.LinuxContainer{
			Namespaces:  genNamespaces(t),
			Devices:     genDevices(t),
			CgroupsPath: gen.Str().Draw(t, "cgpath"),
		}
		if rapid.Bool().Draw(t, "ctrres") {
			l.Resources = gen.NRIResources().Draw(t, "ctrresources")
		}
		if rapid.Bool().Draw(t, "oom") {
			l.OomScoreAdj = &api.OptionalInt{Value: rapid.Int64Range(-1000, 1000).Draw(t, "oomv")}
		}
		c.Linux = l
	}
	c.Rlimits = genRlimits(t)
	if maybe(t, "times", 3) {
		c.CreatedAt = gen.I64().Draw(t, "created")
		c.StartedAt = gen.I64().Draw(t, "started")
		c.FinishedAt = gen.I64().Draw(t, "finished")
		c.ExitCode = gen.I32().Draw(t, "exit")
		c.StatusReason = gen.Str().Draw(t, "reason")
		c.StatusMessage = gen.Str().Draw(t, "message")
	}
	return c
}

func genAdjust(t *rapid.T) *api.ContainerAdjustment {
	if maybe(t, "emptyadj", 6) {
		return &api.ContainerAdjustment{}
	}
	a := &api.ContainerAdjustment{
		Annotations: gen.StrMap().Draw(t, "annotations"),
		Mounts:      genMounts(t, 2),
		Hooks:       genHooks(t),
		Rlimits:     genRlimits(t),
		Args:        gen.StrSlice().Draw(t, "args"),
	}
	n := rapid.IntRange(0, 3).Draw(t, "nenv")
	for i := 0; i < n; i++ {
		a.Env = append(a.Env, &api.KeyValue{
			Key:   rapid.OneOf(gen.Word(), rapid.Just("-REMOVED")).Draw(t, "ek"),
			Value: gen.Str().Draw(t, "ev"),
		})
	}
	if rapid.Bool().Draw(t, "adjlinux") {
		l := &api.LinuxContainerAdjustment{
			Devices:     genDevices(t),
			CgroupsPath: gen.Str().Draw(t, "cgpath"),
		}
		if rapid.Bool().Draw(t, "adjres") {
			l.Resources = gen.NRIResources().Draw(t, "adjresources")
		}
		if rapid.Bool().Draw(t, "oom") {
			l.OomScoreAdj = &api.OptionalInt{Value: rapid.Int64Range(-1000, 1000).Draw(t, "oomv")}
		}
		a.Linux = l
	}
	n = rapid.IntRange(0, 2).Draw(t, "ncdi")
	for i := 0; i < n; i++ {
		a.CDIDevices = append(a.CDIDevices, &api.CDIDevice{Name: rapid.OneOf(rapid.Just("vendor.com/gpu=0"), gen.Str()).Draw(t, "cdi")})
	}
	return a
}

func genUpdates(t *rapid.T, ctrs []*api.Container) []*api.ContainerUpdate {
	n := rapid.IntRange(0, 3).Draw(t, "nupd")
	out := []*api.ContainerUpdate{}
	for i := 0; i < n; i++ {
		u := &api.ContainerUpdate{
			ContainerId: rapid.OneOf(
				rapid.Custom(func(t *rapid.T) string { return ctrs[rapid.IntRange(0, len(ctrs)-1).Draw(t, "uc")].Id }),
				gen.Word(),
			).Draw(t, "ucid"),
			IgnoreFailure: rapid.Bool().Draw(t, "ignore"),
		}
		if !maybe(t, "nolinux", 5) {
			u.Linux = &api.LinuxContainerUpdate{}
			if !maybe(t, "nores", 5) {
				u.Linux.Resources = gen.NRIResources().Draw(t, "updresources")
			}
		}
		out = append(out, u)
	}
	return out
}

func genErrText(t *rapid.T) string {
	return rapid.OneOf(
		rapid.SampledFrom([]string{"boom", "refused: over quota", "rpc error: code = Unknown desc = nested", "", "x\ny", "ü-fehler"}),
		rapid.StringMatching(`[a-zA-Z0-9 :=_./-]{1,40}`),
		rapid.StringN(1, 12, 48),
	).Draw(t, "errtext")
}

// genErrForm draws the form of a handler error: nil (plain) in a fifth of the cases.
func genErrForm(t *rapid.T) *ErrSpec {
	f := rapid.SampledFrom([]string{"plain", "plain", "plain", "plain", "wrap", "wrap", "wrap", "bare", "bare", "status", "status", "wrapstatus",
		"join", "custom", "customis", "nilptr", "ctxtimeout", "ctxtimeoutwrap", "ctxcancel"}).Draw(t, "errform")
	if f == "plain" {
		return nil
	}
	sp := &ErrSpec{Form: f}
	switch f {
	case "wrap", "bare", "join", "custom", "customis":
		sp.Sentinel = rapid.SampledFrom(sentinelNames).Draw(t, "errsentinel")
	case "status", "wrapstatus":
		sp.Code = rapid.IntRange(1, 16).Draw(t, "errcode")
	}
	return sp
}

// bitsOf lists the events of a mask.
func bitsOf(m api.EventMask) []api.Event {
	var out []api.Event
	for e := api.Event(1); e <= 13; e++ {
		if m&evbit(e) != 0 {
			out = append(out, e)
		}
	}
	return out
}

// subsetOf draws a subset of m (possibly empty) by drawing an arbitrary 13-bit value.
func subsetOf(t *rapid.T, label string, m api.EventMask) api.EventMask {
	return api.EventMask(rapid.Int32Range(0, int32(validMask)).Draw(t, label)) & m
}

func genSession(t *rapid.T, ent typeEntry, c *C15Case, nsess int) C15Session {
	impl := ent.Mask
	unimpl := validMask &^ impl
	s := C15Session{
		Config:   rapid.OneOf(rapid.Just(""), gen.Str(), rapid.Just("logLevel: debug\nevents: [a, b]\n")).Draw(t, "config"),
		Runtime:  rapid.SampledFrom([]string{"containerd", "cri-o", "verif", ""}).Draw(t, "runtime"),
		Version:  rapid.OneOf(rapid.StringMatching(`v?[0-9]\.[0-9]{1,2}(\.[0-9])?`), rapid.Just("")).Draw(t, "version"),
		SyncUpd:  -1,
		End:      rapid.SampledFrom([]string{"close", "stop"}).Draw(t, "end"),
		StartCtx: rapid.SampledFrom([]string{"", "", "", "", "", "", "", "", "", "", "", "", "", "", "", "", "cancel", "cancel", "cancel", "cancel", "cancel", "cancel"}).Draw(t, "startctx"),
		// the request timeout the runtime end announces: none, a very short one, usual ones
		ReqTimeoutMs: rapid.SampledFrom([]int64{0, 40, 500, 2000, 2000, 2000, 6000, 6000}).Draw(t, "reqtimeout"),
	}
	if ent.HasConfigure {
		mode := rapid.SampledFrom([]string{"zero", "zero", "subset", "subset", "subset", "impl", "extra", "extra", "raw", "error", "wide", "wide", "wide"}).Draw(t, "cfgmode")
		if mode == "extra" && unimpl == 0 {
			mode = "subset" // the full type has nothing it could over-ask for within the valid events
		}
		switch mode {
		case "zero":
			s.CfgMask = 0
		case "subset":
			m := subsetOf(t, "cfgsubset", impl)
			if m == 0 {
				b := bitsOf(impl)
				m = evbit(b[rapid.IntRange(0, len(b)-1).Draw(t, "cfgsubsetbit")])
			}
			s.CfgMask = int32(m)
		case "impl":
			s.CfgMask = int32(impl)
		case "extra":
			x := subsetOf(t, "cfgextra", unimpl)
			if x == 0 {
				u := bitsOf(unimpl)
				x = evbit(u[rapid.IntRange(0, len(u)-1).Draw(t, "cfgextrabit")])
			}
			s.CfgMask = int32(subsetOf(t, "cfgsubset", impl) | x)
		case "raw":
			s.CfgMask = rapid.Int32Range(0, int32(validMask)).Draw(t, "cfgraw")
		case "wide":
			// the whole int32 range: bits that are no event at all (13..30) and the sign bit,
			// alone or on top of handled / unhandled events; every bit by a fair coin
			valid := int32(0)
			switch rapid.SampledFrom([]string{"none", "handled", "handled", "any"}).Draw(t, "widevalid") {
			case "handled":
				valid = int32(subsetOf(t, "cfgsubset", impl))
				if rapid.Bool().Draw(t, "wideallhandled") {
					valid = int32(impl)
				}
			case "any":
				valid = int32(subsetOf(t, "cfgsubset", validMask))
			}
			switch rapid.SampledFrom([]string{"minus1", "minint", "bit31", "bit31", "high", "high", "coins"}).Draw(t, "widekind") {
			case "minus1":
				s.CfgMask = -1 // ^api.EventMask(0), "everything"
			case "minint":
				s.CfgMask = math.MinInt32
			case "bit31":
				s.CfgMask = math.MinInt32 | valid
			case "high": // some of the bits 13..30, sign bit clear
				h := int32(0)
				for b := 13; b <= 30; b++ {
					if rapid.Bool().Draw(t, "highbit") {
						h |= 1 << b
					}
				}
				if h == 0 {
					h = 1 << rapid.IntRange(13, 30).Draw(t, "onehighbit")
				}
				s.CfgMask = h | valid
			case "coins": // bits 13..31 by fair coins, at least one
				h := int32(0)
				for b := 13; b <= 31; b++ {
					if rapid.Bool().Draw(t, "coin") {
						h |= int32(uint32(1) << b)
					}
				}
				if h == 0 {
					h = math.MinInt32
				}
				s.CfgMask = h | valid
			}
		case "error":
			s.CfgFail = true
			s.CfgErr = genErrText(t)
			s.CfgMask = int32(subsetOf(t, "cfgsubset", validMask))
		}
	}

	np, nc, nr, na, nu := len(c.Pods), len(c.Ctrs), len(c.Res), len(c.Adjusts), len(c.Updates)
	// the synchronization: usually one message, often split, sometimes cut short
	nchunks := rapid.SampledFrom([]int{0, 1, 1, 1, 2, 2, 3, 4}).Draw(t, "syncchunks")
	for i := 0; i < nchunks; i++ {
		s.SyncChunks = append(s.SyncChunks, C15Chunk{
			Pods: rapid.SliceOfN(rapid.IntRange(0, np-1), 0, 3).Draw(t, "syncpods"),
			Ctrs: rapid.SliceOfN(rapid.IntRange(0, nc-1), 0, 3).Draw(t, "syncctrs"),
		})
	}
	if nchunks > 0 {
		s.SyncFinal = nsess == 1 || !maybe(t, "syncunfinished", 5)
		if !s.SyncFinal && rapid.Bool().Draw(t, "syncabrupt") {
			s.SyncAbrupt = true
			s.SyncAbruptUs = rapid.SampledFrom([]int{0, 0, 20, 50, 100, 200, 500}).Draw(t, "syncabruptus")
		}
		s.SyncUpdRel = maybe(t, "syncupdrel", 3)
		s.SyncUpd = rapid.IntRange(-1, nu-1).Draw(t, "syncupd")
		if maybe(t, "syncfail", 5) {
			s.SyncFail = true
			s.SyncErr = genErrText(t)
			s.SyncErrForm = genErrForm(t)
		}
	}
	implEv, unimplEv := bitsOf(impl), bitsOf(unimpl)
	lo, hi := 5, 30
	if nsess > 1 { // several sessions: shorter request lists each, a similar total
		lo, hi = 3, 14
	}
	nreq := rapid.IntRange(lo, hi).Draw(t, "nreq")
	if nchunks > 0 && !s.SyncFinal {
		nreq = 0 // the runtime went away before the synchronization was complete
	}
	if s.StartCtx == "cancel" && maybe(t, "startdeadline", 12) {
		s.StartCtx = "deadline" // rarer: the harness has to wait for it to expire
	}
	for i := 0; i < nreq; i++ {
		var e api.Event
		mode := rapid.SampledFrom([]string{"any", "any", "impl", "unimpl"}).Draw(t, "evmode")
		if mode == "unimpl" && len(unimplEv) == 0 {
			mode = "any"
		}
		switch mode {
		case "any":
			e = api.Event(rapid.Int32Range(1, 13).Draw(t, "event"))
		case "impl":
			e = implEv[rapid.IntRange(0, len(implEv)-1).Draw(t, "implevent")]
		case "unimpl":
			e = unimplEv[rapid.IntRange(0, len(unimplEv)-1).Draw(t, "unimplevent")]
		}
		r := C15Req{
			Event: int32(e),
			Pod:   rapid.IntRange(0, np-1).Draw(t, "pod"),
			Ctr:   rapid.IntRange(0, nc-1).Draw(t, "ctr"),
			Ovh:   rapid.IntRange(0, nr-1).Draw(t, "ovh"),
			Adj:   rapid.IntRange(-1, na-1).Draw(t, "adj"),
			Upd:   rapid.IntRange(-1, nu-1).Draw(t, "upd"),
		}
		// resources and overhead come from different pool slots (never equal, see genRes)
		r.Res = (r.Ovh + 1 + rapid.IntRange(0, nr-2).Draw(t, "res")) % nr
		if maybe(t, "fail", 4) {
			r.Fail = true
			r.Err = genErrText(t)
			r.ErrForm = genErrForm(t)
		}
		// the shape of the message: mostly the documented one (pod events: pod only; container
		// events and requests: pod and container), but every optional part may be absent or
		// present-but-empty, and a pod event may carry a container
		switch rapid.IntRange(0, 7).Draw(t, "podshape") {
		case 0:
			r.Pod = -1
		case 1:
			r.Pod = -2
		}
		ctrShape := rapid.IntRange(0, 19).Draw(t, "ctrshape")
		if podEvent(e) {
			switch {
			case ctrShape < 11:
				r.Ctr = -1
			case ctrShape < 14:
				r.Ctr = -2
			}
		} else {
			switch {
			case ctrShape < 3:
				r.Ctr = -1
			case ctrShape < 6:
				r.Ctr = -2
			}
		}
		switch rapid.IntRange(0, 9).Draw(t, "resshape") {
		case 0:
			r.Res = -1
		case 1:
			r.Res = -2
		}
		switch rapid.IntRange(0, 9).Draw(t, "ovhshape") {
		case 0:
			r.Ovh = -1
		case 1:
			r.Ovh = -2
		}
		// an update that names the container of this very request (create / update / stop)
		if (e == api.Event_CREATE_CONTAINER || e == api.Event_UPDATE_CONTAINER || e == api.Event_STOP_CONTAINER) && maybe(t, "updrel", 3) {
			r.UpdRel = rapid.SampledFrom([]string{"first", "first", "all"}).Draw(t, "updrelkind")
		}
		// relations between the parts of the message
		switch rel := rapid.IntRange(0, 19).Draw(t, "rel"); {
		case e == api.Event_UPDATE_CONTAINER && rel < 8:
			r.Rel = []string{"res=ctr", "res=ctr-same"}[rel%2]
			if rel < 6 && r.Ctr < 0 { // mostly with a real container and real resources
				r.Ctr = rapid.IntRange(0, nc-1).Draw(t, "relctr")
			}
			if rel < 6 && r.Res < 0 {
				r.Res = rapid.IntRange(0, nr-1).Draw(t, "relres")
			}
		case e == api.Event_UPDATE_POD_SANDBOX && rel < 8:
			r.Rel = []string{"ovh=res", "ovh=res=pod"}[rel%2]
			if rel < 6 && r.Res < 0 {
				r.Res = rapid.IntRange(0, nr-1).Draw(t, "relres")
			}
		case rel >= 17:
			r.Rel = "ctrid=podid"
		case rel == 16:
			r.Rel = rapid.SampledFrom([]string{"res=ctr", "res=ctr-same", "ovh=res", "ovh=res=pod"}).Draw(t, "anyrel")
		}
		// handler duration: under a generous announced timeout (>= 2 s) a handler may take a few
		// milliseconds, and - when the previous session of this stub announced a very short
		// timeout - longer than that earlier timeout (still a small fraction of the current one)
		if s.ReqTimeoutMs >= 2000 {
			prev := int64(0)
			if n := len(c.Sessions); n > 0 {
				prev = c.Sessions[n-1].ReqTimeoutMs
			}
			switch d := rapid.IntRange(0, 39).Draw(t, "delay"); {
			case prev > 0 && prev <= 100 && d < 10:
				r.DelayMs = int(prev)*2 + rapid.IntRange(20, 80).Draw(t, "delayms")
			case d == 39:
				r.DelayMs = rapid.IntRange(1, 15).Draw(t, "smalldelayms")
			}
		}
		s.Reqs = append(s.Reqs, r)
		// the same request once more, verbatim; or one of an earlier session again
		switch rapid.IntRange(0, 11).Draw(t, "repeat") {
		case 0:
			if i+1 < nreq {
				s.Reqs = append(s.Reqs, r)
				i++
			}
		case 1:
			if len(c.Sessions) > 0 && i+1 < nreq {
				if prev := c.Sessions[rapid.IntRange(0, len(c.Sessions)-1).Draw(t, "repeatsession")].Reqs; len(prev) > 0 {
					again := prev[rapid.IntRange(0, len(prev)-1).Draw(t, "repeatreq")]
					if int64(2*again.DelayMs) > s.ReqTimeoutMs {
						again.DelayMs = 0
					}
					s.Reqs = append(s.Reqs, again)
					i++
				}
			}
		}
	}
	return s
}

func genC15(t *rapid.T) C15Case {
	kind := rapid.SampledFrom([]string{"singleton", "complement", "full", "random", "random"}).Draw(t, "kind")
	ids := kindIdx[kind]
	ti := ids[rapid.IntRange(0, len(ids)-1).Draw(t, "set")]
	if rapid.IntRange(0, 9).Draw(t, "hascfg") < 6 {
		ti++ // the variants with a Configure method
	}
	if rapid.Bool().Draw(t, "hassync") {
		ti += 2 // the variants with a Synchronize method
	}
	ent := registry[ti]
	c := C15Case{Type: ti}

	np := rapid.IntRange(1, 2).Draw(t, "npods")
	for i := 0; i < np; i++ {
		c.Pods = append(c.Pods, genPod(t, i))
	}
	nc := rapid.IntRange(1, 2).Draw(t, "nctrs")
	for i := 0; i < nc; i++ {
		c.Ctrs = append(c.Ctrs, genCtr(t, i, c.Pods))
	}
	nr := rapid.IntRange(2, 3).Draw(t, "nres")
	for i := 0; i < nr; i++ {
		c.Res = append(c.Res, genRes(t, i))
	}
	na := rapid.IntRange(1, 2).Draw(t, "nadj")
	for i := 0; i < na; i++ {
		c.Adjusts = append(c.Adjusts, genAdjust(t))
	}
	nu := rapid.IntRange(1, 2).Draw(t, "nupdsets")
	for i := 0; i < nu; i++ {
		c.Updates = append(c.Updates, genUpdates(t, c.Ctrs))
	}

	nsess := rapid.SampledFrom([]int{1, 1, 2, 2, 3}).Draw(t, "nsessions")
	for i := 0; i < nsess; i++ {
		c.Sessions = append(c.Sessions, genSession(t, ent, &c, nsess))
	}
	return c
}

// ---- the raw runtime peer -------------------------------------------------------------------

const stepTimeout = 20 * time.Second // watchdog per step; C15 has no time clause: a hit is "overloaded", never a violation

type rtPeer struct {
	regC chan *api.RegisterPluginRequest
}

func (p *rtPeer) RegisterPlugin(_ context.Context, req *api.RegisterPluginRequest) (*api.Empty, error) {
	select {
	case p.regC <- req:
	default:
	}
	return &api.Empty{}, nil
}

func (p *rtPeer) UpdateContainers(_ context.Context, _ *api.UpdateContainersRequest) (*api.UpdateContainersResponse, error) {
	return &api.UpdateContainersResponse{}, nil
}

// stubInst is the stub under test: ONE plugin value on ONE stub, (re)started once per
// session. The first connection is handed over with WithConnection, every later Start obtains
// its connection through the dialer (the stub forgets its connection when a session ends).
type stubInst struct {
	rec     *rec
	st      stub.Stub
	closedN chan struct{} // one token per close notification (stub.WithOnClose)

	mu   sync.Mutex
	next net.Conn // connection the next dial returns
}

func (si *stubInst) dial(string) (net.Conn, error) {
	si.mu.Lock()
	defer si.mu.Unlock()
	if si.next == nil {
		return nil, errors.New("harness: no connection prepared for this dial")
	}
	c := si.next
	si.next = nil
	return c, nil
}

// session is one connection of the stub to one raw runtime peer.
type session struct {
	si       *stubInst
	plugin   api.PluginService
	peer     *rtPeer
	startErr chan error
	// closePeer closes the runtime end; end finishes the session (idempotent) and reports
	// whether the stub's close notification arrived.
	closePeer func()
	end       func(stopFirst bool) bool
	// the context handed to Start() and its cancel function
	startCtx    context.Context
	startCancel context.CancelFunc
}

// startDeadline is the deadline of a "deadline" start context: Start() has to get through
// registration and configuration within it (if the machine is too slow for that the case is
// not judged), and the harness waits for it to expire before it sends requests.
const startDeadline = 100 * time.Millisecond

func socketPair() (local, remote net.Conn, err error) {
	sp, err := nrinet.NewSocketPair()
	if err != nil {
		return nil, nil, err
	}
	local, err = sp.LocalConn()
	if err != nil {
		sp.Close()
		return nil, nil, err
	}
	remote, err = sp.PeerConn()
	if err != nil {
		local.Close()
		sp.PeerClose()
		return nil, nil, err
	}
	return local, remote, nil
}

// newSession connects the stub (created on first use) to a fresh raw runtime peer and starts it.
func newSession(ent typeEntry, si *stubInst, startCtx string) (*session, error) {
	local, remote, err := socketPair()
	if err != nil {
		return nil, err
	}
	if si.st == nil {
		si.rec = &rec{}
		si.closedN = make(chan struct{}, 64)
		si.st, err = stub.New(ent.New(si.rec),
			stub.WithPluginName("c15"), stub.WithPluginIdx("15"),
			stub.WithConnection(local),
			stub.WithDialer(si.dial),
			stub.WithOnClose(func() {
				select {
				case si.closedN <- struct{}{}:
				default:
				}
			}))
		if err != nil {
			si.st = nil
			local.Close()
			remote.Close()
			return nil, fmt.Errorf("stub.New(%s): %w", ent.Name, err)
		}
	} else {
		si.mu.Lock()
		si.next = local
		si.mu.Unlock()
	}
	s := &session{
		si:       si,
		peer:     &rtPeer{regC: make(chan *api.RegisterPluginRequest, 1)},
		startErr: make(chan error, 1),
	}
	abort := func() {
		si.mu.Lock()
		si.next = nil
		si.mu.Unlock()
		local.Close()
	}

	// the runtime end, as pkg/adaptation/plugin.go connect()/start() builds it
	mux := multiplex.Multiplex(remote, multiplex.WithBlockedRead())
	pconn, err := mux.Open(multiplex.PluginServiceConn)
	if err != nil {
		mux.Close()
		abort()
		return nil, err
	}
	rpcc := ttrpc.NewClient(pconn)
	rpcs, err := ttrpc.NewServer()
	if err != nil {
		rpcc.Close()
		mux.Close()
		abort()
		return nil, err
	}
	rpcl, err := mux.Listen(multiplex.RuntimeServiceConn)
	if err != nil {
		rpcc.Close()
		mux.Close()
		abort()
		return nil, err
	}
	api.RegisterRuntimeService(rpcs, s.peer)
	srvDone := make(chan struct{})
	go func() {
		_ = rpcs.Serve(context.Background(), rpcl)
		close(srvDone)
	}()
	mux.Unblock()
	s.plugin = api.NewPluginClient(rpcc)

	startDone := make(chan struct{})
	sctx, scancel := context.Background(), context.CancelFunc(func() {})
	switch startCtx {
	case "cancel":
		sctx, scancel = context.WithCancel(context.Background())
	case "deadline":
		sctx, scancel = context.WithTimeout(context.Background(), startDeadline)
	}
	s.startCtx, s.startCancel = sctx, scancel
	go func() {
		s.startErr <- si.st.Start(sctx)
		close(startDone)
	}()

	var closeOnce sync.Once
	s.closePeer = func() {
		closeOnce.Do(func() {
			rpcc.Close()
			rpcs.Close()
			rpcl.Close()
			mux.Close()
			remote.Close()
		})
	}
	ended, notified := false, false
	s.end = func(stopFirst bool) bool {
		if ended {
			return notified
		}
		ended = true
		defer scancel()
		if stopFirst {
			si.st.Stop()
		}
		s.closePeer()
		// Every session, however it ends, makes the stub's ttrpc client go down once, and the
		// stub reports that through its close notification. Wait for it before anything else
		// happens to this stub, so that sessions do not overlap.
		select {
		case <-si.closedN:
			notified = true
		case <-time.After(stepTimeout):
		}
		si.st.Stop() // no-op when the stub has shut the session down already
		local.Close()
		for _, ch := range []chan struct{}{srvDone, startDone} {
			select {
			case <-ch:
			case <-time.After(3 * time.Second):
			}
		}
		return notified
	}
	return s, nil
}
func stepCtx() (context.Context, context.CancelFunc) {
	return context.WithTimeout(context.Background(), stepTimeout)
}

// slow tells whether a failed RPC hit the step watchdog: only the step's own context decides
// (a handler may legitimately answer with a DeadlineExceeded error of its own).
func slow(ctx context.Context, err error) bool {
	return err != nil && ctx.Err() != nil
}

// ---- running a case ---------------------------------------------------------------------------

func evName(e api.Event) string { return api.Event_name[int32(e)] }

func short(m proto.Message) string {
	if m == nil || !m.ProtoReflect().IsValid() {
		return "<nil>"
	}
	s := prototext.MarshalOptions{Multiline: false}.Format(m)
	if len(s) > 400 {
		s = s[:400] + "…"
	}
	return "{" + s + "}"
}

func handlersOf(inv []invocation) string {
	var n []string
	for _, i := range inv {
		n = append(n, i.Handler)
	}
	return "[" + strings.Join(n, ",") + "]"
}

func validCase(c C15Case) string {
	if c.Type < 0 || c.Type >= len(registry) {
		return "type index out of range"
	}
	if len(c.Pods) == 0 || len(c.Ctrs) == 0 || len(c.Res) == 0 {
		return "empty pool"
	}
	if len(c.Sessions) < 1 || len(c.Sessions) > 128 {
		return "number of sessions out of range"
	}
	for _, s := range c.Sessions {
		if s.End != "close" && s.End != "stop" {
			return "unknown session end"
		}
		if s.StartCtx != "" && s.StartCtx != "cancel" && s.StartCtx != "deadline" {
			return "unknown start context"
		}
		if s.ReqTimeoutMs < 0 {
			return "negative request timeout"
		}
		for _, r := range s.Reqs {
			if r.DelayMs < 0 || int64(2*r.DelayMs) > s.ReqTimeoutMs {
				return "handler delay not within half of the announced request timeout"
			}
		}
		if s.SyncUpd < -1 || s.SyncUpd >= len(c.Updates) {
			return "sync update index out of range"
		}
		for _, ch := range s.SyncChunks {
			for _, i := range ch.Pods {
				if i < 0 || i >= len(c.Pods) {
					return "sync pod index out of range"
				}
			}
			for _, i := range ch.Ctrs {
				if i < 0 || i >= len(c.Ctrs) {
					return "sync container index out of range"
				}
			}
		}
		for _, r := range s.Reqs {
			if r.Event < 1 || r.Event > 13 || r.Pod < -2 || r.Pod >= len(c.Pods) || r.Ctr < -2 || r.Ctr >= len(c.Ctrs) ||
				r.Res < -2 || r.Res >= len(c.Res) || r.Ovh < -2 || r.Ovh >= len(c.Res) ||
				r.Adj < -1 || r.Adj >= len(c.Adjusts) || r.Upd < -1 || r.Upd >= len(c.Updates) {
				return "request index out of range"
			}
		}
	}
	for _, p := range c.Pods {
		if p == nil {
			return "nil pod"
		}
		if _, err := proto.Marshal(p); err != nil {
			return "unmarshalable pod"
		}
	}
	for _, p := range c.Ctrs {
		if p == nil {
			return "nil container"
		}
		if _, err := proto.Marshal(p); err != nil {
			return "unmarshalable container"
		}
	}
	for _, p := range c.Res {
		if p != nil {
			if _, err := proto.Marshal(p); err != nil {
				return "unmarshalable resources"
			}
		}
	}
	for _, p := range c.Adjusts {
		if p == nil {
			return "nil adjustment in pool"
		}
		if _, err := proto.Marshal(p); err != nil {
			return "unmarshalable adjustment"
		}
	}
	for _, us := range c.Updates {
		for _, u := range us {
			if u == nil {
				return "nil update"
			}
			if _, err := proto.Marshal(u); err != nil {
				return "unmarshalable update"
			}
		}
	}
	return ""
}

func runC15(c C15Case) ev.Outcome {
	if why := validCase(c); why != "" {
		return ev.Outcome{Excluded: "malformed case: " + why}
	}
	var o ev.Outcome
	for attempt := 0; attempt < 3; attempt++ {
		var overloaded bool
		o, overloaded = runC15Once(c)
		if !overloaded {
			return o
		}
	}
	o.Overloaded = true
	o.NonTrivial = false
	return o
}

// cfgExpect: what the statement promises for the configuration of one session. It depends on
// the type and on what this session's Configure handler returns - never on earlier sessions.
//
//	"subscribed to exactly the events for which it implements a handler" -> implemented mask
//	"or to the subset it asks for at configuration time"                 -> asked mask, if within the implemented one
//	"asking for an event it cannot handle is rejected"                   -> error
//	"when the handler fails, its error [is] returned ... unchanged"      -> the handler's text
func cfgExpect(ent typeEntry, c C15Session) (class string, mask api.EventMask) {
	asked := api.EventMask(c.CfgMask)
	switch {
	case !ent.HasConfigure:
		return "cfg:nohandler", ent.Mask
	case c.CfgFail:
		return "cfg:error", 0
	case asked == 0:
		return "cfg:default0", ent.Mask
	case asked&^ent.Mask != 0:
		return "cfg:rejected", 0
	case asked == ent.Mask:
		return "cfg:all-implemented", asked
	default:
		return "cfg:subset", asked
	}
}

// caseRun is the state of one execution of a case.
type caseRun struct {
	c           C15Case
	ent         typeEntry
	si          *stubInst
	classes     map[string]bool
	lenient     map[string]bool
	hist        []string
	expected    int // handler invocations judged so far
	sawImpl     bool
	sawUnimp    bool
	narrowed    api.EventMask // union of proper non-zero subsets earlier sessions were subscribed to (classes only)
	hadSub      bool
	hadSplit    bool // an earlier session left the stub after a split or unfinished synchronization (classes only)
	hadUnfin    bool
	earlierReqs map[string]bool // requests (as JSON) sent in earlier sessions (classes only)
	lateDelay   bool            // a delayed handler's request came near the announced timeout: machine too slow to judge
}

func (cr *caseRun) note(f string, a ...any) { cr.hist = append(cr.hist, fmt.Sprintf(f, a...)) }

func (cr *caseRun) finish(o ev.Outcome) ev.Outcome {
	keys := make([]string, 0, len(cr.classes))
	for k, on := range cr.classes {
		if on {
			keys = append(keys, k)
		}
	}
	sort.Strings(keys)
	// primary class first
	o.Classes = dedup(append([]string{"kind:" + cr.ent.Kind}, keys...))
	for k := range cr.lenient {
		o.Lenient = append(o.Lenient, k)
	}
	sort.Strings(o.Lenient)
	o.History = cr.hist
	return o
}

type verdict int

const (
	vOK verdict = iota
	vFail
	vSlow
)

func runC15Once(c C15Case) (out ev.Outcome, overloaded bool) {
	ent := registry[c.Type]
	cr := &caseRun{c: c, ent: ent, si: &stubInst{}, classes: map[string]bool{"kind:" + ent.Kind: true}, lenient: map[string]bool{}}
	if ent.HasConfigure {
		cr.classes["hascfg:yes"] = true
	} else {
		cr.classes["hascfg:no"] = true
	}
	if ent.HasSync {
		cr.classes["hassync:yes"] = true
	} else {
		cr.classes["hassync:no"] = true
	}
	cr.classes[fmt.Sprintf("sessions:%d", len(c.Sessions))] = true

	for k := range c.Sessions {
		s, err := newSession(ent, cr.si, c.Sessions[k].StartCtx)
		if err != nil {
			// infrastructure (socketpair, fds) or stub.New refusing a generated type
			return cr.finish(ev.Outcome{Excluded: "session setup failed: " + err.Error()}), false
		}
		v, msg := cr.runSession(k, s)
		// end the session the way the case says (a failed configuration has ended it already)
		notified := s.end(c.Sessions[k].End == "stop" && v == vOK)
		if v == vFail && cr.lateDelay {
			v, msg = vSlow, "a request with a slow handler took nearly the announced timeout ("+msg+")"
		}
		switch v {
		case vFail:
			o := ev.Failf("type %s (implements %s), session %d of %d: %s", ent.Name, maskStr(ent.Mask), k+1, len(c.Sessions), msg)
			cr.note("FAIL: %s", o.Fail)
			return cr.finish(o), false
		case vSlow:
			cr.note("watchdog: %s", msg)
			return cr.finish(ev.Outcome{}), true
		}
		if !notified {
			cr.note("watchdog: no close notification after session %d", k+1)
			return cr.finish(ev.Outcome{}), true
		}
		cr.note("s%d ended (%s), close notification received", k+1, c.Sessions[k].End)
	}
	// nothing ran behind our back
	if total := len(cr.si.rec.snapshot()); total != cr.expected {
		o := ev.Failf("type %s (implements %s): %d handler invocations in total, want %d: %s", ent.Name, maskStr(ent.Mask), total, cr.expected, handlersOf(cr.si.rec.snapshot()))
		cr.note("FAIL: %s", o.Fail)
		return cr.finish(o), false
	}

	strict := ent.Mask != validMask
	o := ev.Outcome{NonTrivial: strict && cr.sawImpl && cr.sawUnimp}
	if o.NonTrivial {
		cr.classes["nontrivial"] = true
	}
	return cr.finish(o), false
}

// relUpdates makes the first (all == false) or every update name the container id; an empty
// list gets one update for it.
func relUpdates(upd []*api.ContainerUpdate, id string, all bool, res *api.LinuxResources) []*api.ContainerUpdate {
	var out []*api.ContainerUpdate
	for _, u := range upd {
		out = append(out, proto.Clone(u).(*api.ContainerUpdate))
	}
	if len(out) == 0 {
		u := &api.ContainerUpdate{ContainerId: id, IgnoreFailure: true, Linux: &api.LinuxContainerUpdate{}}
		if res != nil {
			u.Linux.Resources = proto.Clone(res).(*api.LinuxResources)
		}
		return []*api.ContainerUpdate{u}
	}
	for i, u := range out {
		if i == 0 || all {
			u.ContainerId = id
		}
	}
	return out
}

func specOf(p *ErrSpec) ErrSpec {
	if p == nil {
		return ErrSpec{}
	}
	return *p
}

// judgeError: "when the handler fails, its error [is] returned to the runtime unchanged" - the
// runtime end must get an error (never a success), as an answer of the plugin (a status error,
// not a broken transport), carrying the handler's text; as far as the wire allows "unchanged"
// to be observed: the message is the error's own (its gRPC status message if it has one, else
// its Error() text).
func (cr *caseRun) judgeError(sp ErrSpec, text, carries, wireMsg string, rerr error, got proto.Message) string {
	cr.classes[sp.class()] = true
	if sp.touchesContext() {
		cr.classes["errform:context-error-in-chain"] = true
	}
	desc := fmt.Sprintf("handler failed with %q (form %s %s %d)", text, sp.class(), sp.Sentinel, sp.Code)
	if rerr == nil {
		return fmt.Sprintf("%s, the runtime got success %s", desc, short(got))
	}
	st, ok := status.FromError(rerr)
	if !ok {
		return fmt.Sprintf("%s, the runtime got a transport error %v", desc, rerr)
	}
	if !strings.Contains(st.Message(), carries) {
		return fmt.Sprintf("%s, the runtime received %q which does not carry %q", desc, st.Message(), carries)
	}
	if st.Message() != wireMsg {
		return fmt.Sprintf("%s, the runtime received %q, want %q", desc, st.Message(), wireMsg)
	}
	return ""
}

// runSession drives and judges one session (registration, configuration, requests).
func (cr *caseRun) runSession(k int, s *session) (verdict, string) {
	c, ent, classes, rec := cr.c, cr.ent, cr.classes, cr.si.rec
	sc := c.Sessions[k]
	impl := ent.Mask
	cfgClass, wantMask := cfgExpect(ent, sc)
	classes[cfgClass] = true
	classes[fmt.Sprintf("timeout:%dms", sc.ReqTimeoutMs)] = true
	if ent.HasConfigure && !sc.CfgFail {
		switch asked := api.EventMask(sc.CfgMask); {
		case asked == -1:
			classes["cfgmask:all-ones"] = true
		case asked < 0:
			classes["cfgmask:sign-bit"] = true
		case asked&^validMask != 0:
			classes["cfgmask:bits-13-30"] = true
		}
		if asked := api.EventMask(sc.CfgMask); asked&^validMask != 0 && asked&validMask != 0 && asked&validMask&^impl == 0 {
			classes["cfgmask:invalid-bits+handled-events-only"] = true
		}
	}
	if k > 0 {
		classes["restart:"+cfgClass] = true
		classes["restart-after-end:"+c.Sessions[k-1].End] = true
	}
	tag := fmt.Sprintf("s%d", k+1)
	fail := func(f string, a ...any) (verdict, string) { return vFail, fmt.Sprintf(f, a...) }

	// --- registration -----------------------------------------------------------------------
	select {
	case <-s.peer.regC:
	case err := <-s.startErr:
		s.startErr <- err
		return fail("Start returned (%v) before registering", err)
	case <-time.After(stepTimeout):
		return vSlow, "no RegisterPlugin"
	}

	// --- configuration ------------------------------------------------------------------------
	var herr error
	if sc.CfgFail {
		herr = errors.New(sc.CfgErr)
	}
	rec.script(scripted{Mask: api.EventMask(sc.CfgMask), Err: herr})
	before := len(rec.snapshot())
	ctx, cancel := stepCtx()
	rpl, cerr := s.plugin.Configure(ctx, &api.ConfigureRequest{
		Config: sc.Config, RuntimeName: sc.Runtime, RuntimeVersion: sc.Version,
		RegistrationTimeout: 5000, RequestTimeout: sc.ReqTimeoutMs,
	})
	expired := slow(ctx, cerr)
	cancel()
	if expired {
		return vSlow, "Configure"
	}
	cr.note("%s Configure(handler returns mask=%s fail=%v %q) -> events=%s err=%v", tag, maskStr(api.EventMask(sc.CfgMask)), sc.CfgFail, sc.CfgErr, rplMask(rpl), cerr)

	// the Configure handler (if any) saw the request exactly once, nothing else ran
	inv := rec.snapshot()[before:]
	if ent.HasConfigure {
		if len(inv) != 1 || inv[0].Handler != hConfigure {
			return fail("Configure request invoked %s, want exactly [Configure]", handlersOf(inv))
		}
		if got, want := inv[0].Strs, []string{sc.Config, sc.Runtime, sc.Version}; strings.Join(got, "\x00") != strings.Join(want, "\x00") {
			return fail("Configure handler got %q, the request carried %q", got, want)
		}
		cr.expected++
	} else if len(inv) != 0 {
		return fail("Configure request invoked %s on a type without Configure handler", handlersOf(inv))
	}

	var startErr error
	select {
	case startErr = <-s.startErr:
	case <-time.After(stepTimeout):
		return vSlow, "Start did not return after Configure"
	}
	cr.note("%s Start -> %v", tag, startErr)

	// classes: is this a configuration the earlier sessions of this stub could have spoilt?
	if k > 0 && cr.hadSub && (cfgClass == "cfg:default0" || cfgClass == "cfg:all-implemented" || cfgClass == "cfg:subset") {
		classes["reconf:after-narrower-subset"] = true
		if wantMask&^cr.narrowed != 0 {
			classes["reconf:widens-earlier-subset"] = true
		}
	}

	switch cfgClass {
	case "cfg:error", "cfg:rejected":
		if cerr == nil {
			if cfgClass == "cfg:rejected" {
				return fail("Configure handler asked for %s which includes unhandled %s, but the stub answered events=%s instead of rejecting",
					maskStr(api.EventMask(sc.CfgMask)), maskStr(api.EventMask(sc.CfgMask)&^impl), rplMask(rpl))
			}
			return fail("Configure handler failed with %q but the stub answered events=%s without error", sc.CfgErr, rplMask(rpl))
		}
		if st, ok := status.FromError(cerr); ok {
			if cfgClass == "cfg:error" && st.Message() != sc.CfgErr {
				return fail("Configure handler failed with %q, the runtime received %q", sc.CfgErr, st.Message())
			}
		} else {
			// The stub tears the connection down as soon as Start sees the failed
			// configuration; the error response can lose that race. Still "rejected".
			cr.lenient[cfgClass+": error response lost to connection teardown"] = true
		}
		if cfgClass == "cfg:rejected" && startErr == nil {
			return fail("Configure asked for unhandled events %s and was rejected (%v) but Start returned nil",
				maskStr(api.EventMask(sc.CfgMask)&^impl), cerr)
		}
		return vOK, "" // the session ends here; the next one starts fresh
	}
	if cerr != nil {
		return fail("Configure (handler returned %s) failed (%v), want events=%s", maskStr(api.EventMask(sc.CfgMask)), cerr, maskStr(wantMask))
	}
	if got := api.EventMask(rpl.GetEvents()); got != wantMask {
		return fail("Configure (handler returned %s) subscribed %s, want %s", maskStr(api.EventMask(sc.CfgMask)), maskStr(got), maskStr(wantMask))
	}
	if startErr != nil {
		if sc.StartCtx == "deadline" && errors.Is(startErr, context.DeadlineExceeded) {
			return vSlow, "the start context expired before Start() was through"
		}
		return fail("Configure succeeded with events=%s but Start returned %v", maskStr(wantMask), startErr)
	}
	// The context of Start() bounds registration and configuration; the plugin is done with
	// it now. Requests and events of this session must be delivered all the same.
	switch sc.StartCtx {
	case "cancel":
		s.startCancel()
		classes["startctx:cancelled-after-start"] = true
	case "deadline":
		select {
		case <-s.startCtx.Done():
		case <-time.After(stepTimeout):
			return vSlow, "start context did not expire"
		}
		classes["startctx:deadline-expired-after-start"] = true
	default:
		classes["startctx:background"] = true
	}
	if cfgClass == "cfg:subset" {
		cr.hadSub = true
		cr.narrowed |= wantMask
	}

	// --- Synchronize, possibly split into several messages ---------------------------------------
	// "delivered exactly once to the handler ... with the pod, container ... carried by the
	// message": the handler runs once, on the final message, with what THIS session's messages
	// carried, in order; the More=true messages only collect.
	switch n := len(sc.SyncChunks); {
	case n == 0:
		classes["sync:none"] = true
	case !sc.SyncFinal:
		classes["sync:unfinished"] = true
	case n == 1:
		classes["sync:unsplit"] = true
	default:
		classes["sync:split"] = true
	}
	if ent.HasSync && len(sc.SyncChunks) > 0 && sc.SyncFinal {
		if cr.hadSplit {
			classes["resync:after-split-or-unfinished"] = true
		}
		if cr.hadUnfin {
			classes["resync:after-unfinished"] = true
		}
	}
	announcedPod, announcedCtr := map[int]bool{}, map[int]bool{} // what this session's Synchronize announced (classes only)
	for _, ch := range sc.SyncChunks {
		for _, p := range ch.Pods {
			announcedPod[p] = true
		}
		for _, p := range ch.Ctrs {
			announcedCtr[p] = true
		}
	}
	var allPods []*api.PodSandbox
	var allCtrs []*api.Container
	for i, ch := range sc.SyncChunks {
		more := i < len(sc.SyncChunks)-1 || !sc.SyncFinal
		req := &api.SynchronizeRequest{More: more}
		for _, p := range ch.Pods {
			req.Pods = append(req.Pods, c.Pods[p])
		}
		for _, p := range ch.Ctrs {
			req.Containers = append(req.Containers, c.Ctrs[p])
		}
		allPods = append(allPods, req.Pods...)
		allCtrs = append(allCtrs, req.Containers...)
		var upd []*api.ContainerUpdate
		if sc.SyncUpd >= 0 {
			upd = c.Updates[sc.SyncUpd]
		}
		if sc.SyncUpdRel && len(allCtrs) > 0 && !more {
			upd = relUpdates(upd, allCtrs[0].GetId(), false, allCtrs[0].GetLinux().GetResources())
			classes["rel:sync-update-names-synchronized-container"] = true
		}
		var mkErr func() error
		var carries, wireMsg string
		if sc.SyncFail {
			mkErr, carries = specOf(sc.SyncErrForm).build(sc.SyncErr)
			wireMsg = wireMessage(mkErr())
		}
		rec.script(scripted{Updates: upd, MkErr: mkErr})
		before := len(rec.snapshot())
		if sc.SyncAbrupt && !sc.SyncFinal && i == len(sc.SyncChunks)-1 {
			// write the message and drop the connection at once; nobody waits for the answer
			classes["sync:dropped-right-after-a-more-message"] = true
			done := make(chan struct{})
			go func() {
				ctx, cancel := stepCtx()
				_, _ = s.plugin.Synchronize(ctx, req)
				cancel()
				close(done)
			}()
			if sc.SyncAbruptUs > 0 {
				time.Sleep(time.Duration(sc.SyncAbruptUs) * time.Microsecond)
			} else {
				runtime.Gosched()
			}
			s.closePeer()
			select {
			case <-done:
			case <-time.After(stepTimeout):
				return vSlow, "abandoned Synchronize call did not return"
			}
			cr.note("%s %s written, connection dropped %dus later", tag, fmt.Sprintf("Synchronize message %d of %d (more=true)", i+1, len(sc.SyncChunks)), sc.SyncAbruptUs)
			cr.hadSplit, cr.hadUnfin = true, true
			if extra := rec.snapshot()[before:]; len(extra) != 0 {
				return fail("a More=true Synchronize message invoked %s", handlersOf(extra))
			}
			return vOK, ""
		}
		ctx, cancel := stepCtx()
		srpl, serr := s.plugin.Synchronize(ctx, req)
		expired := slow(ctx, serr)
		cancel()
		if expired {
			return vSlow, "Synchronize"
		}
		inv := rec.snapshot()[before:]
		where := fmt.Sprintf("Synchronize message %d of %d (more=%v, %d pods, %d containers)", i+1, len(sc.SyncChunks), more, len(req.Pods), len(req.Containers))
		cr.note("%s %s -> invoked=%s more=%v updates=%d err=%v", tag, where, handlersOf(inv), srpl.GetMore(), len(srpl.GetUpdate()), serr)
		if !ent.HasSync {
			// no Synchronize handler: nothing to deliver to, every message succeeds
			if len(inv) != 0 {
				return fail("%s: the type has no Synchronize handler, yet %s ran", where, handlersOf(inv))
			}
			if serr != nil {
				return fail("%s: the type has no Synchronize handler, the runtime got error %v", where, serr)
			}
			continue
		}
		if more {
			if len(inv) != 0 {
				return fail("%s: more messages follow, yet %s ran", where, handlersOf(inv))
			}
			if serr != nil {
				return fail("%s: more messages follow, the runtime got error %v", where, serr)
			}
			if !proto.Equal(srpl, &api.SynchronizeResponse{More: true}) {
				return fail("%s: more messages follow, the runtime got %s, want {more:true}", where, short(srpl))
			}
			continue
		}
		cr.expected++
		if len(inv) != 1 || inv[0].Handler != hSynchronize {
			return fail("%s: invoked %s, want exactly [Synchronize]", where, handlersOf(inv))
		}
		if why := sameObjects(inv[0].Pods, allPods, inv[0].Ctrs, allCtrs); why != "" {
			return fail("%s: the Synchronize handler did not get what this session's messages carried: %s", where, why)
		}
		if sc.SyncFail {
			classes["script:sync-error"] = true
			if why := cr.judgeError(specOf(sc.SyncErrForm), sc.SyncErr, carries, wireMsg, serr, srpl); why != "" {
				return fail("%s: %s", where, why)
			}
			continue
		}
		classes["script:sync-updates"] = true
		if serr != nil {
			return fail("%s: handler succeeded, the runtime got error %v", where, serr)
		}
		if want := (&api.SynchronizeResponse{Update: upd}); !proto.Equal(srpl, want) {
			return fail("%s: handler returned %s, the runtime received %s", where, short(want), short(srpl))
		}
	}
	if n := len(sc.SyncChunks); n > 0 {
		if !sc.SyncFinal {
			cr.hadSplit, cr.hadUnfin = true, true
			return vOK, "" // the runtime went away in the middle of the synchronization
		}
		if n > 1 {
			cr.hadSplit = true
		}
	}

	// --- requests -----------------------------------------------------------------------------------
	for i, r := range sc.Reqs {
		e := api.Event(r.Event)
		isImpl := impl&evbit(e) != 0
		// the message as the case shapes it, whatever the event kind
		var pod *api.PodSandbox
		switch {
		case r.Pod >= 0:
			pod = c.Pods[r.Pod]
		case r.Pod == -2:
			pod = &api.PodSandbox{}
		}
		var ctr *api.Container
		switch {
		case r.Ctr >= 0:
			ctr = c.Ctrs[r.Ctr]
		case r.Ctr == -2:
			ctr = &api.Container{}
		}
		resOf := func(i int) *api.LinuxResources {
			switch {
			case i >= 0:
				return c.Res[i]
			case i == -2:
				return &api.LinuxResources{}
			}
			return nil
		}
		res, ovh := resOf(r.Res), resOf(r.Ovh)
		switch r.Rel {
		case "res=ctr", "res=ctr-same":
			if ctr != nil && res != nil {
				c2 := proto.Clone(ctr).(*api.Container)
				if c2.Linux == nil {
					c2.Linux = &api.LinuxContainer{}
				}
				c2.Linux.Resources = res
				if r.Rel == "res=ctr" {
					c2.Linux.Resources = proto.Clone(res).(*api.LinuxResources)
				}
				ctr = c2
			}
		case "ovh=res":
			if res != nil {
				ovh = proto.Clone(res).(*api.LinuxResources)
			}
		case "ovh=res=pod":
			if res != nil {
				ovh = res
				if pod != nil {
					p2 := proto.Clone(pod).(*api.PodSandbox)
					if p2.Linux == nil {
						p2.Linux = &api.LinuxPodSandbox{}
					}
					p2.Linux.PodOverhead = proto.Clone(res).(*api.LinuxResources)
					p2.Linux.PodResources = proto.Clone(res).(*api.LinuxResources)
					p2.Linux.Resources = proto.Clone(res).(*api.LinuxResources)
					pod = p2
				}
			}
		case "ctrid=podid":
			if ctr != nil && pod != nil {
				c2 := proto.Clone(ctr).(*api.Container)
				c2.Id, c2.PodSandboxId = pod.GetId(), pod.GetId()
				ctr = c2
			}
		}
		var adj *api.ContainerAdjustment
		if r.Adj >= 0 {
			adj = c.Adjusts[r.Adj]
		}
		var upd []*api.ContainerUpdate
		if r.Upd >= 0 {
			upd = c.Updates[r.Upd]
		}
		if r.UpdRel != "" && ctr.GetId() != "" {
			upd = relUpdates(upd, ctr.GetId(), r.UpdRel == "all", res)
		}
		var mkErr func() error
		var carries, wireMsg string
		if r.Fail {
			mkErr, carries = specOf(r.ErrForm).build(r.Err)
			wireMsg = wireMessage(mkErr())
		}
		rec.script(scripted{Adjust: adj, Updates: upd, MkErr: mkErr, Delay: time.Duration(r.DelayMs) * time.Millisecond})
		before := len(rec.snapshot())
		sent := time.Now()

		var (
			got, want, empty proto.Message
			rerr             error
			wantRes          []*api.LinuxResources
		)
		ctx, cancel := stepCtx()
		switch e {
		case api.Event_CREATE_CONTAINER:
			rp, err := s.plugin.CreateContainer(ctx, &api.CreateContainerRequest{Pod: pod, Container: ctr})
			got, rerr = rp, err
			want, empty = &api.CreateContainerResponse{Adjust: adj, Update: upd}, &api.CreateContainerResponse{}
			classes["script:adjust+updates"] = classes["script:adjust+updates"] || (isImpl && !r.Fail)
		case api.Event_UPDATE_CONTAINER:
			rp, err := s.plugin.UpdateContainer(ctx, &api.UpdateContainerRequest{Pod: pod, Container: ctr, LinuxResources: res})
			got, rerr = rp, err
			want, empty = &api.UpdateContainerResponse{Update: upd}, &api.UpdateContainerResponse{}
			wantRes = []*api.LinuxResources{res}
			classes["script:updates"] = classes["script:updates"] || (isImpl && !r.Fail)
		case api.Event_STOP_CONTAINER:
			rp, err := s.plugin.StopContainer(ctx, &api.StopContainerRequest{Pod: pod, Container: ctr})
			got, rerr = rp, err
			want, empty = &api.StopContainerResponse{Update: upd}, &api.StopContainerResponse{}
			classes["script:updates"] = classes["script:updates"] || (isImpl && !r.Fail)
		case api.Event_UPDATE_POD_SANDBOX:
			rp, err := s.plugin.UpdatePodSandbox(ctx, &api.UpdatePodSandboxRequest{Pod: pod, OverheadLinuxResources: ovh, LinuxResources: res})
			got, rerr = rp, err
			want, empty = &api.UpdatePodSandboxResponse{}, &api.UpdatePodSandboxResponse{}
			wantRes = []*api.LinuxResources{ovh, res}
		default:
			rp, err := s.plugin.StateChange(ctx, &api.StateChangeEvent{Event: e, Pod: pod, Container: ctr})
			got, rerr = rp, err
			want, empty = &api.Empty{}, &api.Empty{}
		}
		expired := slow(ctx, rerr)
		cancel()
		if expired {
			return vSlow, fmt.Sprintf("request #%d %s", i, evName(e))
		}
		if r.DelayMs > 0 && isImpl {
			// The handler was scripted to stay within half of the announced timeout. If the
			// machine was so slow that the request nevertheless came near it, a stub is entitled
			// to give up on the handler: the case cannot be judged then.
			if el := time.Since(sent); el > time.Duration(sc.ReqTimeoutMs)*time.Millisecond*8/10 {
				cr.lateDelay = true
			}
			classes["delay:handler-takes-time"] = true
			if k > 0 {
				if p := c.Sessions[k-1].ReqTimeoutMs; p > 0 && int64(r.DelayMs) > p {
					classes["delay:longer-than-previous-session-timeout"] = true
				}
			}
			if r.DelayMs > 2000 {
				classes["delay:longer-than-default-timeout"] = true
			}
		}
		inv := rec.snapshot()[before:]
		cr.note("%s #%d %s impl=%v scripted(fail=%v %q adj=%d upd=%d) -> invoked=%s err=%v", tag, i, evName(e), isImpl, r.Fail, r.Err, r.Adj, r.Upd, handlersOf(inv), rerr)
		where := fmt.Sprintf("request #%d %s", i, evName(e))

		if !isImpl {
			// "subscribed to exactly the events for which it implements a handler": an event
			// without handler reaches nobody and the runtime gets an empty success.
			cr.sawUnimp = true
			classes["ev:"+evName(e)+":unimplemented"] = true
			if len(inv) != 0 {
				return fail("%s: the type has no handler for it, yet %s ran", where, handlersOf(inv))
			}
			if rerr != nil {
				return fail("%s: the type has no handler for it, the runtime got error %v", where, rerr)
			}
			if !proto.Equal(got, empty) {
				return fail("%s: the type has no handler for it, the runtime got a non-empty response %s", where, short(got))
			}
			continue
		}
		cr.sawImpl = true
		classes["ev:"+evName(e)+":implemented"] = true
		switch {
		case podEvent(e) && e != api.Event_UPDATE_POD_SANDBOX && ctr != nil:
			classes["shape:pod-event-with-container"] = true
		case !podEvent(e) && r.Ctr == -1:
			classes["shape:container-event-without-container"] = true
		case !podEvent(e) && r.Ctr == -2:
			classes["shape:empty-container"] = true
		}
		switch r.Pod {
		case -1:
			classes["shape:nil-pod"] = true
		case -2:
			classes["shape:empty-pod"] = true
		}
		if e == api.Event_UPDATE_CONTAINER || e == api.Event_UPDATE_POD_SANDBOX {
			if r.Res == -1 || (e == api.Event_UPDATE_POD_SANDBOX && r.Ovh == -1) {
				classes["shape:nil-resources"] = true
			}
			if r.Res == -2 || (e == api.Event_UPDATE_POD_SANDBOX && r.Ovh == -2) {
				classes["shape:empty-resources"] = true
			}
		}
		switch {
		case e == api.Event_UPDATE_CONTAINER && res != nil && proto.Equal(res, ctr.GetLinux().GetResources()):
			classes["rel:update-equals-container-resources"] = true
			if proto.Size(res.GetCpu()) > 0 || proto.Size(res.GetMemory()) > 0 {
				classes["rel:update-equals-container-resources(cpu/memory set)"] = true
			}
		case e == api.Event_UPDATE_POD_SANDBOX && res != nil && proto.Equal(res, ovh):
			classes["rel:overhead-equals-resources"] = true
			if proto.Equal(res, pod.GetLinux().GetPodResources()) {
				classes["rel:pod-update-equals-pod-resources"] = true
			}
		}
		if !r.Fail && ctr.GetId() != "" {
			for _, u := range upd {
				if u.GetContainerId() == ctr.GetId() {
					switch e {
					case api.Event_CREATE_CONTAINER:
						classes["rel:create-update-names-created-container"] = true
						if adj != nil {
							classes["rel:create-update-names-created-container+adjustment"] = true
						}
					case api.Event_UPDATE_CONTAINER, api.Event_STOP_CONTAINER:
						classes["rel:update-names-request-container"] = true
					}
					break
				}
			}
		}
		if ctr != nil && pod != nil && ctr.GetId() == pod.GetId() {
			classes["rel:container-id-equals-pod-id"] = true
		}
		if !podEvent(e) && r.Ctr >= 0 {
			if announcedCtr[r.Ctr] {
				classes["rel:container-announced-in-synchronize"] = true
			} else {
				classes["rel:container-never-announced"] = true
			}
		}
		if r.Pod >= 0 {
			if announcedPod[r.Pod] {
				classes["rel:pod-announced-in-synchronize"] = true
			} else {
				classes["rel:pod-never-announced"] = true
			}
		}
		key := string(ev.Snapshot(r))
		if i > 0 && string(ev.Snapshot(sc.Reqs[i-1])) == key {
			classes["rel:request-repeated-verbatim"] = true
		}
		if cr.earlierReqs[key] {
			classes["rel:request-of-an-earlier-session"] = true
		}
		if wantMask&evbit(e) == 0 {
			// Implemented but not subscribed: the runtime filters by the mask and never sends
			// this; the stub dispatches by handler presence. The statement does not say which
			// of the two a stub has to do, so "not delivered, empty success" is accepted too.
			classes["ev:sent-unsubscribed"] = true
			if len(inv) == 0 && rerr == nil && proto.Equal(got, empty) {
				cr.lenient["unsubscribed event not delivered"] = true
				continue
			}
		}
		cr.expected++

		// "delivered exactly once to the handler for that event"
		if len(inv) != 1 || inv[0].Handler != evHandler[e] {
			return fail("%s: invoked %s, want exactly [%s]", where, handlersOf(inv), evHandler[e])
		}
		// "with the pod, container and resources carried by the message"
		in := inv[0]
		if !proto.Equal(in.Pod, pod) {
			return fail("%s: handler got pod %s, the message carried %s", where, short(in.Pod), short(pod))
		}
		if !podEvent(e) && !proto.Equal(in.Ctr, ctr) {
			return fail("%s: handler got container %s, the message carried %s", where, short(in.Ctr), short(ctr))
		}
		if len(in.Res) != len(wantRes) {
			return fail("%s: handler got %d resource arguments, want %d", where, len(in.Res), len(wantRes))
		}
		for j := range wantRes {
			if !proto.Equal(in.Res[j], wantRes[j]) {
				name := "resources"
				if e == api.Event_UPDATE_POD_SANDBOX && j == 0 {
					name = "overhead resources"
				}
				return fail("%s: handler got %s %s, the message carried %s", where, name, short(in.Res[j]), short(wantRes[j]))
			}
		}
		// "the handler's adjustment and updates - or, when the handler fails, its error - are
		// returned to the runtime unchanged"
		if r.Fail {
			classes["script:error"] = true
			if why := cr.judgeError(specOf(r.ErrForm), r.Err, carries, wireMsg, rerr, got); why != "" {
				return fail("%s: %s", where, why)
			}
			continue
		}
		if rerr != nil {
			return fail("%s: handler succeeded, the runtime got error %v", where, rerr)
		}
		if !proto.Equal(got, want) {
			return fail("%s: handler returned %s, the runtime received %s", where, short(want), short(got))
		}
	}
	if cr.earlierReqs == nil {
		cr.earlierReqs = map[string]bool{}
	}
	for _, r := range sc.Reqs {
		cr.earlierReqs[string(ev.Snapshot(r))] = true
	}
	// nothing ran behind our back during this session
	if total := len(rec.snapshot()); total != cr.expected {
		return fail("%d handler invocations so far, want %d: %s", total, cr.expected, handlersOf(rec.snapshot()))
	}
	return vOK, ""
}

// sameObjects compares what the Synchronize handler got with what was sent, element by element.
func sameObjects(gotP, wantP []*api.PodSandbox, gotC, wantC []*api.Container) string {
	ids := func(ps []*api.PodSandbox, cs []*api.Container) string {
		var n []string
		for _, p := range ps {
			n = append(n, p.GetId())
		}
		n = append(n, "|")
		for _, c := range cs {
			n = append(n, c.GetId())
		}
		return "[" + strings.Join(n, " ") + "]"
	}
	if len(gotP) != len(wantP) || len(gotC) != len(wantC) {
		return fmt.Sprintf("handler got %d pods and %d containers %s, the messages carried %d and %d %s",
			len(gotP), len(gotC), ids(gotP, gotC), len(wantP), len(wantC), ids(wantP, wantC))
	}
	for i := range wantP {
		if !proto.Equal(gotP[i], wantP[i]) {
			return fmt.Sprintf("pod #%d is %s, sent %s", i, short(gotP[i]), short(wantP[i]))
		}
	}
	for i := range wantC {
		if !proto.Equal(gotC[i], wantC[i]) {
			return fmt.Sprintf("container #%d is %s, sent %s", i, short(gotC[i]), short(wantC[i]))
		}
	}
	return ""
}

func rplMask(r *api.ConfigureResponse) string {
	if r == nil {
		return "<no response>"
	}
	return maskStr(api.EventMask(r.Events))
}

// maskStr renders a mask with the oracle's own names.
func maskStr(m api.EventMask) string {
	if m == 0 {
		return "0"
	}
	var n []string
	for _, e := range bitsOf(m & validMask) {
		n = append(n, evName(e))
	}
	if x := m &^ validMask; x != 0 {
		n = append(n, fmt.Sprintf("no-event-bits(0x%x)", uint32(x)))
	}
	return fmt.Sprintf("0x%x(%s)", uint32(m), strings.Join(n, "|"))
}

func dedup(in []string) []string {
	seen := map[string]bool{}
	var out []string
	for _, s := range in {
		if !seen[s] {
			seen[s] = true
			out = append(out, s)
		}
	}
	return out
}

// ---- tests -----------------------------------------------------------------------------------------

func TestProp_C15(t *testing.T) { ev.Run(t, "C15", genC15, runC15) }

// implementsByAssertion derives the implemented mask of a plugin value with the harness's own
// interface assertions (a check of the generated registry, not of the stub).
func implementsByAssertion(p interface{}) (api.EventMask, bool, bool) {
	var m api.EventMask
	if _, ok := p.(stub.RunPodInterface); ok {
		m |= evbit(api.Event_RUN_POD_SANDBOX)
	}
	if _, ok := p.(stub.UpdatePodInterface); ok {
		m |= evbit(api.Event_UPDATE_POD_SANDBOX)
	}
	if _, ok := p.(stub.StopPodInterface); ok {
		m |= evbit(api.Event_STOP_POD_SANDBOX)
	}
	if _, ok := p.(stub.RemovePodInterface); ok {
		m |= evbit(api.Event_REMOVE_POD_SANDBOX)
	}
	if _, ok := p.(stub.PostUpdatePodInterface); ok {
		m |= evbit(api.Event_POST_UPDATE_POD_SANDBOX)
	}
	if _, ok := p.(stub.CreateContainerInterface); ok {
		m |= evbit(api.Event_CREATE_CONTAINER)
	}
	if _, ok := p.(stub.StartContainerInterface); ok {
		m |= evbit(api.Event_START_CONTAINER)
	}
	if _, ok := p.(stub.UpdateContainerInterface); ok {
		m |= evbit(api.Event_UPDATE_CONTAINER)
	}
	if _, ok := p.(stub.StopContainerInterface); ok {
		m |= evbit(api.Event_STOP_CONTAINER)
	}
	if _, ok := p.(stub.RemoveContainerInterface); ok {
		m |= evbit(api.Event_REMOVE_CONTAINER)
	}
	if _, ok := p.(stub.PostCreateContainerInterface); ok {
		m |= evbit(api.Event_POST_CREATE_CONTAINER)
	}
	if _, ok := p.(stub.PostStartContainerInterface); ok {
		m |= evbit(api.Event_POST_START_CONTAINER)
	}
	if _, ok := p.(stub.PostUpdateContainerInterface); ok {
		m |= evbit(api.Event_POST_UPDATE_CONTAINER)
	}
	_, cfg := p.(stub.ConfigureInterface)
	_, syn := p.(stub.SynchronizeInterface)
	return m, cfg, syn
}

// TestExh_C15 sweeps the finite part of the domain completely: every generated type is run
// against each of the thirteen event kinds once (succeeding and failing handler); the types with
// a Configure handler additionally with the handler returning 0, exactly the implemented mask,
// every single implemented event, and the implemented mask plus each single unimplemented event
// (must be rejected). Restart sweep: every type is connected three times in a row on one stub;
// types with a Configure handler go through subset -> 0 -> the complementary subset, and through
// rejected -> error -> implemented mask, so that every configuration is judged after a different one.
// Types with a Synchronize handler: six sessions of one stub whose synchronizations are split,
// unsplit and cut short in turn.
func TestExh_C15(t *testing.T) {
	r := ev.Get("C15")
	defer r.Flush()

	// the registry is what it says it is
	seenMask := map[api.EventMask]int{}
	for i, ent := range registry {
		m, cfg, syn := implementsByAssertion(ent.New(&rec{}))
		if m != ent.Mask || cfg != ent.HasConfigure || syn != ent.HasSync || m == 0 {
			t.Fatalf("harness: registry entry %d (%s) declares mask %s configure=%v synchronize=%v, the Go type implements %s configure=%v synchronize=%v",
				i, ent.Name, maskStr(ent.Mask), ent.HasConfigure, ent.HasSync, maskStr(m), cfg, syn)
		}
		if base := registry[i&^3]; (i&1 != 0) != ent.HasConfigure || (i&2 != 0) != ent.HasSync || base.Mask != ent.Mask || base.Kind != ent.Kind {
			t.Fatalf("harness: registry entry %d (%s) is not variant %d of its handler set", i, ent.Name, i&3)
		}
		seenMask[m]++
	}
	for m, n := range seenMask {
		if n != 4 {
			t.Fatalf("harness: handler set %s has %d types, want 4 (without/with Configure x without/with Synchronize)", maskStr(m), n)
		}
	}

	pod := &api.PodSandbox{Id: "pod0-exh", Name: "exh", Namespace: "default", Labels: map[string]string{"a": "b"}}
	ctr := &api.Container{Id: "ctr0-exh", PodSandboxId: "pod0-exh", Name: "c", Env: []string{"A=1"}, Args: []string{"sleep", "1"}}
	pod2 := &api.PodSandbox{Id: "pod1-exh", Name: "exh2", Namespace: "kube-system", Annotations: map[string]string{"x": "y"}}
	ctr2 := &api.Container{Id: "ctr1-exh", PodSandboxId: "pod1-exh", Name: "d", State: api.ContainerState_CONTAINER_RUNNING}
	var okReqs, failReqs, shapeReqs []C15Req
	for e := int32(1); e <= 13; e++ {
		doc, odd := 0, -1 // container as documented for the kind / the other way round
		if podEvent(api.Event(e)) {
			doc, odd = -1, 0
		}
		okReqs = append(okReqs, C15Req{Event: e, Ctr: doc, Ovh: 0, Res: 1, Adj: 0, Upd: 0})
		failReqs = append(failReqs, C15Req{Event: e, Ctr: doc, Ovh: 1, Res: 0, Adj: -1, Upd: -1, Fail: true, Err: fmt.Sprintf("exh-fail-%d", e)})
		// message shapes: the container the other way round (failing and succeeding handler),
		// present-but-empty parts, absent parts
		shapeReqs = append(shapeReqs,
			C15Req{Event: e, Ctr: odd, Ovh: 0, Res: 1, Adj: -1, Upd: -1, Fail: true, Err: fmt.Sprintf("exh-shape-fail-%d", e)},
			C15Req{Event: e, Ctr: odd, Ovh: -1, Res: 1, Adj: 0, Upd: 0},
			C15Req{Event: e, Pod: -2, Ctr: -2, Ovh: -2, Res: -1, Adj: 0, Upd: -1, Fail: true, Err: "exh-empty"},
			C15Req{Event: e, Pod: -1, Ctr: -2, Ovh: 0, Res: -2, Adj: -1, Upd: 0},
			C15Req{Event: e, Pod: -1, Ctr: -1, Ovh: -1, Res: -1, Adj: 0, Upd: 0})
	}
	// relations between the parts of a message, and verbatim repetitions
	var relReqs []C15Req
	for _, rel := range []string{"res=ctr", "res=ctr-same"} {
		for _, resIdx := range []int{0, 1} {
			relReqs = append(relReqs,
				C15Req{Event: int32(api.Event_UPDATE_CONTAINER), Res: resIdx, Ovh: -1, Adj: -1, Upd: 0, Rel: rel},
				C15Req{Event: int32(api.Event_UPDATE_CONTAINER), Res: resIdx, Ovh: -1, Adj: -1, Upd: -1, Rel: rel, Fail: true, Err: "exh-rel-fail"})
		}
	}
	for _, rel := range []string{"ovh=res", "ovh=res=pod"} {
		relReqs = append(relReqs,
			C15Req{Event: int32(api.Event_UPDATE_POD_SANDBOX), Ctr: -1, Res: 1, Ovh: 0, Adj: -1, Upd: -1, Rel: rel},
			C15Req{Event: int32(api.Event_UPDATE_POD_SANDBOX), Ctr: -1, Res: 0, Ovh: 1, Adj: -1, Upd: -1, Rel: rel, Fail: true, Err: "exh-rel-fail"})
	}
	// updates naming the container of the very request: with / without an adjustment next to
	// it, with / without other updates, first or all
	for _, e := range []api.Event{api.Event_CREATE_CONTAINER, api.Event_UPDATE_CONTAINER, api.Event_STOP_CONTAINER} {
		for _, adj := range []int{0, -1} {
			for _, upd := range []int{0, -1} {
				relReqs = append(relReqs, C15Req{Event: int32(e), Res: 1, Ovh: -1, Adj: adj, Upd: upd, UpdRel: "first"})
			}
		}
		relReqs = append(relReqs, C15Req{Event: int32(e), Res: 0, Ovh: -1, Adj: 0, Upd: 0, UpdRel: "all", Rel: "res=ctr"})
	}
	for e := int32(1); e <= 13; e++ {
		r := C15Req{Event: e, Res: 1, Ovh: 0, Adj: 0, Upd: 0, Rel: "ctrid=podid"}
		relReqs = append(relReqs, r, r) // and once more, verbatim
	}
	sess := func(mask api.EventMask, end string, reqs ...[]C15Req) C15Session {
		s := C15Session{CfgMask: int32(mask), Config: "cfg", Runtime: "verif", Version: "1.0", End: end, SyncUpd: -1, ReqTimeoutMs: 2000}
		for _, rs := range reqs {
			s.Reqs = append(s.Reqs, rs...)
		}
		return s
	}
	mk := func(ti int, sessions ...C15Session) C15Case {
		return C15Case{
			Type: ti, Sessions: sessions,
			Pods: []*api.PodSandbox{pod, pod2}, Ctrs: []*api.Container{ctr, ctr2},
			Res: []*api.LinuxResources{
				{Cpu: &api.LinuxCPU{Shares: &api.OptionalUInt64{Value: 7}}, Unified: map[string]string{"verif.slot": "0"}},
				{Memory: &api.LinuxMemory{Limit: &api.OptionalInt64{Value: 4096}}, Unified: map[string]string{"verif.slot": "1"}},
			},
			Adjusts: []*api.ContainerAdjustment{{Annotations: map[string]string{"k": "v"}, Env: []*api.KeyValue{{Key: "E", Value: "1"}}}},
			Updates: [][]*api.ContainerUpdate{{{ContainerId: "ctr0-exh", Linux: &api.LinuxContainerUpdate{Resources: &api.LinuxResources{Pids: &api.LinuxPids{Limit: 9}}}}}},
		}
	}
	// the forms of a failing handler's error: every form x sentinel / code, spread over the
	// types and event kinds round-robin (each combination meets each event kind many times)
	specs := allErrSpecs()
	formReqs := func(ti int) []C15Req {
		var out []C15Req
		for e := int32(1); e <= 13; e++ {
			sp := specs[(ti*13+int(e))%len(specs)]
			doc := 0
			if podEvent(api.Event(e)) {
				doc = -1
			}
			out = append(out, C15Req{Event: e, Ctr: doc, Ovh: 0, Res: 1, Adj: 0, Upd: 0, Fail: true, Err: fmt.Sprintf("exh-form-%d", e), ErrForm: &sp})
		}
		return out
	}
	sessions, cases := 0, 0
	// The sweep cases are collected first and then executed by a few workers side by side: every
	// case owns its stub, its runtime peer and its log; the shared pool objects are only read.
	var sweep []C15Case
	runOne := func(c C15Case) { sweep = append(sweep, c) }
	ch := func(pods []int, ctrs []int) C15Chunk { return C15Chunk{Pods: pods, Ctrs: ctrs} }
	withSync := func(s C15Session, final bool, fail bool, chunks ...C15Chunk) C15Session {
		s.SyncChunks, s.SyncFinal, s.SyncUpd = chunks, final, 0
		if fail {
			s.SyncFail, s.SyncErr, s.SyncUpd = true, "exh-sync-failed", -1
		}
		if !final {
			s.Reqs = nil
		}
		return s
	}
	one := ch([]int{0, 1}, []int{1, 0})

	// Slow handlers: the runtime end announces a request timeout of 6 s and a handler takes
	// 2.3 s (longer than the stub's built-in default of 2 s), in the first session of a stub
	// and in a later one after sessions that announced 40 ms and nothing. These cases run
	// concurrently with the rest of the sweep (each owns its stub, peer and log).
	type slowResult struct {
		c C15Case
		o ev.Outcome
	}
	slowC := make(chan slowResult, 16)
	nslow := 0
	fullC, fullCS := kindIdx["full"][0]+1, kindIdx["full"][0]+3
	for i, e := range []api.Event{api.Event_CREATE_CONTAINER, api.Event_UPDATE_CONTAINER, api.Event_STOP_CONTAINER, api.Event_UPDATE_POD_SANDBOX,
		api.Event_RUN_POD_SANDBOX, api.Event_POST_START_CONTAINER} {
		doc := 0
		if podEvent(e) {
			doc = -1
		}
		slowOK := C15Req{Event: int32(e), Ctr: doc, Ovh: 0, Res: 1, Adj: 0, Upd: 0, DelayMs: 2300}
		slowFail := C15Req{Event: int32(e), Ctr: doc, Ovh: 0, Res: 1, Adj: -1, Upd: -1, DelayMs: 2300, Fail: true, Err: "exh-slow-handler-failed"}
		var c C15Case
		if i%2 == 0 {
			s1 := sess(0, "close", []C15Req{slowOK, slowFail})
			s1.ReqTimeoutMs = 6000
			c = mk(fullC, s1)
		} else {
			s1, s2, s3 := sess(0, "stop", okReqs), sess(0, "close", okReqs), sess(0, "stop", []C15Req{slowFail, slowOK})
			s1.ReqTimeoutMs, s2.ReqTimeoutMs, s3.ReqTimeoutMs = 40, 0, 6000
			c = mk(fullCS, s1, s2, s3)
		}
		nslow++
		go func() { slowC <- slowResult{c, runC15(c)} }()
	}
	for ti, ent := range registry {
		implEv, unimplEv := bitsOf(ent.Mask), bitsOf(validMask&^ent.Mask)
		{
			// the plugin cancels the context it gave to Start() once Start() has returned (and, for
			// every 16th type, lets a deadline expire): both sessions of one stub
			s1 := withSync(sess(0, "stop", okReqs, failReqs), true, false, one)
			s1.StartCtx = "cancel"
			s2 := withSync(sess(0, "close", failReqs, okReqs), true, ti%2 == 0, one, one)
			s2.StartCtx = "cancel"
			if ti%16 == 5 {
				s2.StartCtx = "deadline"
			}
			runOne(mk(ti, s1, s2))
		}
		lo := evbit(implEv[0])
		if ent.HasSync {
			// the Synchronize dimension: one message; then on one stub: split -> unsplit ->
			// cut short after three messages -> split with a failing handler -> cut short after
			// one message -> unsplit. Every synchronization follows a different predecessor.
			m1, m2 := api.EventMask(0), api.EventMask(0)
			if ent.HasConfigure {
				m1, m2 = lo, ent.Mask
			}
			basic := withSync(sess(m1, "close", okReqs, failReqs, shapeReqs, formReqs(ti), relReqs), true, false, one)
			basic.SyncUpdRel = ti%8 < 4
			if ti%16 < 8 {
				basic.SyncUpd = -1
			}
			runOne(mk(ti, basic))
			if (ti/4)%8 == 0 {
				// restart storm: 25 times a synchronization is cut short by dropping the connection
				// right after a More=true message was written, each time followed at once by a
				// session with a complete synchronization of its own
				var storm []C15Session
				for n := 0; n < 25; n++ {
					cut := withSync(sess(m2, "close"), false, false, ch([]int{0}, []int{1}), ch([]int{1, 0}, []int{0, 0}))
					cut.SyncAbrupt, cut.SyncAbruptUs = true, []int{0, 20, 50, 100, 200}[n%5]
					full := withSync(sess(m1, []string{"close", "stop"}[n%2]), true, false, ch([]int{n % 2}, []int{(n + 1) % 2}))
					full.Reqs = nil
					storm = append(storm, cut, full)
				}
				runOne(mk(ti, storm...))
			}
			runOne(mk(ti,
				withSync(sess(m2, "stop", okReqs), true, false, ch([]int{0}, []int{0}), ch([]int{1}, []int{1, 1})),
				withSync(sess(m1, "close", okReqs), true, false, ch([]int{1}, nil)),
				withSync(sess(m2, "close"), false, false, ch([]int{0}, []int{1}), ch(nil, nil), ch([]int{1, 0}, []int{0})),
				withSync(sess(m1, "stop", okReqs), true, true, ch(nil, []int{0}), ch([]int{0}, nil), ch([]int{1}, []int{1})),
				withSync(sess(m2, "stop"), false, false, ch([]int{0, 0}, []int{1})),
				withSync(sess(m1, "close", okReqs), true, false, ch(nil, []int{1})),
			))
			continue
		}
		if !ent.HasConfigure {
			runOne(mk(ti, withSync(sess(0, "close", okReqs, failReqs, shapeReqs, formReqs(ti), relReqs), true, false, one)))
			// restart: three connections of one stub, ended both ways (no Synchronize handler:
			// every synchronization message just succeeds)
			runOne(mk(ti, withSync(sess(0, "stop", okReqs), true, false, one, one), withSync(sess(0, "close", failReqs), false, false, one), sess(0, "stop", okReqs)))
			continue
		}
		for _, m := range []api.EventMask{0, ent.Mask} {
			runOne(mk(ti, sess(m, "close", okReqs, failReqs, shapeReqs, formReqs(ti), relReqs)))
		}
		for _, e := range implEv {
			if evbit(e) == ent.Mask {
				continue // singleton: done above
			}
			runOne(mk(ti, sess(evbit(e), "close", okReqs)))
		}
		for _, e := range unimplEv {
			runOne(mk(ti, sess(ent.Mask|evbit(e), "close", okReqs)))
		}
		// the numeric edges of the int32 mask: bits that are no event, the sign bit, "all ones" -
		// alone and on top of handled / unhandled events. All must be rejected.
		hi := api.EventMask(0x7fffe000) // bits 13..30
		sign := api.EventMask(math.MinInt32)
		wide := []api.EventMask{-1, sign, sign | ent.Mask, sign | lo, sign | validMask, sign | hi, sign | hi | ent.Mask,
			1 << 13, 1 << 30, hi, hi | ent.Mask, ent.Mask | 1<<13, ent.Mask | 1<<30, lo | 1<<22, 0x7fffffff, ^(validMask &^ ent.Mask)}
		if len(unimplEv) > 0 {
			wide = append(wide, sign|evbit(unimplEv[0]), sign|ent.Mask|evbit(unimplEv[len(unimplEv)-1]), -1&^evbit(unimplEv[0]))
		}
		if (ti/4)%3 == 0 { // every third handler set (singletons, complements, the full set and random ones among them)
			for _, m := range wide {
				runOne(mk(ti, sess(m, "close", okReqs)))
			}
		}
		runOne(mk(ti, sess(-1, "close"), sess(sign|ent.Mask, "stop"), sess(0, "close", okReqs)))
		// restart sweep
		fail := sess(0, "close")
		fail.CfgFail, fail.CfgErr = true, "exh-configure-failed"
		if len(implEv) > 1 {
			runOne(mk(ti, sess(lo, "stop", okReqs), sess(0, "close", okReqs), sess(ent.Mask&^lo, "stop", okReqs)))
			runOne(mk(ti, sess(ent.Mask&^lo, "close", okReqs), sess(lo, "stop", okReqs), sess(ent.Mask, "close", okReqs)))
		} else {
			runOne(mk(ti, sess(ent.Mask, "stop", okReqs), sess(0, "close", okReqs), sess(ent.Mask, "stop", okReqs)))
		}
		if len(unimplEv) > 0 {
			runOne(mk(ti, sess(ent.Mask|evbit(unimplEv[0]), "close"), fail, sess(ent.Mask, "stop", okReqs)))
		} else {
			runOne(mk(ti, fail, sess(0, "stop", okReqs)))
		}
	}
	var (
		mu        sync.Mutex
		next      int
		firstFail string
		wg        sync.WaitGroup
	)
	for w := 0; w < 4; w++ {
		wg.Add(1)
		go func() {
			defer wg.Done()
			for {
				mu.Lock()
				i := next
				next++
				stop := firstFail != ""
				mu.Unlock()
				if stop || i >= len(sweep) {
					return
				}
				c := sweep[i]
				raw := ev.Snapshot(c)
				o := runC15(c)
				// keep the sweep out of the generated cases' class histogram (the floors judge the generator)
				cl := []string{"exhaustive-sweep"}
				for _, k := range o.Classes {
					cl = append(cl, "sweep:"+k)
				}
				o.Classes = cl
				r.Record(raw, o)
				mu.Lock()
				cases++
				sessions += len(c.Sessions)
				if o.Fail != "" && firstFail == "" {
					firstFail = o.Fail
				}
				mu.Unlock()
			}
		}()
	}
	wg.Wait()
	if firstFail != "" {
		t.Fatalf("C15 (sweep): %s", firstFail)
	}
	for i := 0; i < nslow; i++ {
		sr := <-slowC
		cl := []string{"exhaustive-sweep"}
		for _, k := range sr.o.Classes {
			cl = append(cl, "sweep:"+k)
		}
		sr.o.Classes = cl
		r.Record(sr.c, sr.o)
		cases++
		sessions += len(sr.c.Sessions)
		if sr.o.Fail != "" {
			t.Fatalf("C15 (sweep, slow handlers): %s", sr.o.Fail)
		}
		if sr.o.Overloaded {
			t.Logf("C15 (sweep, slow handlers): overloaded case")
		}
	}
	r.SetExtra("exhaustive", map[string]any{
		"subdomain": "every generated plugin type (512: 128 handler sets x with/without Configure x with/without Synchronize) x each of the 13 event kinds (succeeding and failing handler; documented message shape, container present/absent the other way round, pod/container/resources absent and present-but-empty; the failing handler's error in every form x sentinel / status code, round-robin over types and kinds; related message parts: update resources equal to the container's own, overhead equal to resources and to the pod's own, container id equal to pod id, every request repeated verbatim); updates naming the request's own container (create / update / stop, with and without adjustment); for every eighth handler set with Synchronize handler a restart storm of 50 sessions on one stub (25 times: connection dropped right after a More=true message, then a complete synchronization); per type two sessions whose Start() context is cancelled (every 16th type: expires) right after Start() returned; six cases with a handler taking 2.3 s under an announced request timeout of 6 s (first session; third session after sessions announcing 40 ms and none); for the types without Synchronize handler: Configure returning 0, the implemented mask, each single implemented event, implemented+each single unimplemented event, and, for every third handler set, about twenty masks using bits 13..31 (all ones, the sign bit, bits 13..30; alone and on top of handled / unhandled events); per type restart sequences on one stub (3 connections; with Configure: subset -> 0 -> complementary subset, complementary subset -> subset -> implemented mask, rejected -> error -> implemented mask); for the types with Synchronize handler one stub synchronized six times in a row: split -> one message -> cut short after 3 messages -> split with failing handler -> cut short after 1 message -> one message",
		"types":     len(registry),
		"cases":     cases,
		"sessions":  sessions,
	})
}
