package codec

// C12 — both wire encodings of every protocol message agree.
//
// Every message type of pkg/api/api.proto is found through the protobuf file descriptor
// (api.File_pkg_api_api_proto); messages are described by a JSON tree (C12Msg) that is
// turned into the concrete generated Go type by reflection over the descriptor. Nothing in
// this file names a message or a field of the protocol, so fields and messages added later
// are covered without touching the harness.
//
// Oracle (c12Judge), for a message m built from the tree:
//   b1 = proto.Marshal(m)   (reflection based codec, used over ttRPC)
//   b2 = m.MarshalVT()      (specialised codec, used for WebAssembly plugins)
//   len(b2) == m.SizeVT(); MarshalToSizedBufferVT into exactly SizeVT bytes returns SizeVT
//   and the buffer decodes to m; MarshalToVT likewise;
//   UnmarshalVT(b1) == m, proto.Unmarshal(b2) == m          (cross decoding)
//   proto.Unmarshal(b1) == m, UnmarshalVT(b2) == m          (own round trips)
// every decode works on a private copy of the bytes which is overwritten afterwards (XOR
// 0xFF, then zero); the decoded message must still equal m and re-encode byte-identically
// (input buffer independence);
// where == is proto.Equal (unset != empty sub-message; nil == empty list/map; unknown
// fields compared). Byte equality between the codecs is not required (map order).
// Decoding of arbitrary bytes is not compared.

import (
	"bytes"
	"encoding/binary"
	"encoding/hex"
	"fmt"
	"hash/maphash"
	"math"
	"reflect"
	"sort"
	"strconv"
	"strings"
	"sync"
	"testing"
	"unicode/utf8"

	"github.com/containerd/nri/pkg/api"
	"google.golang.org/protobuf/encoding/prototext"
	"google.golang.org/protobuf/encoding/protowire"
	"google.golang.org/protobuf/proto"
	"google.golang.org/protobuf/reflect/protoreflect"
	"google.golang.org/protobuf/reflect/protoregistry"

	"nriverif/ev"
)

// ---- case ---------------------------------------------------------------------------

// C12Val is one scalar or message value; which member is meaningful follows from the
// field's kind in the descriptor: I for signed integers and enums, U for unsigned
// integers and the IEEE bits of float/double, B bool, S string, X bytes, M message.
// R > 1 means "S (or X) repeated R times" (keeps long strings out of the case files).
type C12Val struct {
	I int64   `json:"i,omitempty"`
	U uint64  `json:"u,omitempty"`
	B bool    `json:"b,omitempty"`
	S string  `json:"s,omitempty"`
	X []byte  `json:"x,omitempty"`
	R int     `json:"r,omitempty"`
	M *C12Msg `json:"m,omitempty"`
}

type C12KV struct {
	K C12Val `json:"k"`
	V C12Val `json:"v"`
}

// C12Fld populates one field. Singular: V (a message field with V.M == &C12Msg{} is
// present but empty; a field not listed is unset/nil). Repeated: L. Map: KV (unique keys).
// Empty on a repeated/map field without elements: the Go field is set to a non-nil empty
// slice/map instead of nil.
type C12Fld struct {
	Num   int32    `json:"num"`
	Name  string   `json:"name,omitempty"` // readability only; Num is authoritative
	V     *C12Val  `json:"v,omitempty"`
	L     []C12Val `json:"l,omitempty"`
	KV    []C12KV  `json:"kv,omitempty"`
	Empty bool     `json:"empty,omitempty"`
}

type C12Msg struct {
	F []C12Fld `json:"f,omitempty"`
	// U: well-formed unknown fields of this message (numbers the message type does not
	// define, e.g. sent by a peer built against a newer protocol), in wire order.
	U []C12Unk `json:"u,omitempty"`
}

// C12Unk is one unknown field: W = "varint" (V), "fixed32" (V), "fixed64" (V) or "bytes"
// (X, repeated R times when R > 1).
type C12Unk struct {
	Num int32  `json:"num"`
	W   string `json:"w"`
	V   uint64 `json:"v,omitempty"`
	X   []byte `json:"x,omitempty"`
	R   int    `json:"r,omitempty"`
	// G: W = "group": the fields between the start-group and the end-group tag (any field
	// numbers, further groups included)
	G []C12Unk `json:"g,omitempty"`
}

// c12UnknownBytes renders the unknown fields of a tree node as wire data, or returns an
// error if one of them is not a legal unknown field of md.
func c12UnknownBytes(md protoreflect.MessageDescriptor, us []C12Unk) ([]byte, error) {
	var b []byte
	for _, u := range us {
		n := protoreflect.FieldNumber(u.Num)
		if u.Num < 1 || u.Num > 536870911 || (u.Num >= 19000 && u.Num <= 19999) {
			return nil, fmt.Errorf("%d is not a usable field number", u.Num)
		}
		if md != nil && md.Fields().ByNumber(n) != nil {
			return nil, fmt.Errorf("message %s: field number %d is not unknown", md.FullName(), u.Num)
		}
		switch u.W {
		case "varint":
			b = protowire.AppendVarint(protowire.AppendTag(b, n, protowire.VarintType), u.V)
		case "fixed32":
			b = protowire.AppendFixed32(protowire.AppendTag(b, n, protowire.Fixed32Type), uint32(u.V))
		case "fixed64":
			b = protowire.AppendFixed64(protowire.AppendTag(b, n, protowire.Fixed64Type), u.V)
		case "bytes":
			b = protowire.AppendBytes(protowire.AppendTag(b, n, protowire.BytesType), c12Bytes(C12Val{X: u.X, R: u.R}))
		case "group":
			inner, err := c12UnknownBytes(nil, u.G) // inside a group any field number may occur
			if err != nil {
				return nil, err
			}
			b = protowire.AppendTag(b, n, protowire.StartGroupType)
			b = append(b, inner...)
			b = protowire.AppendTag(b, n, protowire.EndGroupType)
		default:
			return nil, fmt.Errorf("unknown field %d has unsupported wire type %q", u.Num, u.W)
		}
	}
	return b, nil
}

// C12Step is one step of a history over ONE message object: an encoder/decoder call on
// the object (Op = "proto.Marshal", "proto.Size", "MarshalVT", "SizeVT", "proto.Unmarshal"
// (reset + decode), "proto.Merge" (decode without reset), "UnmarshalVT" (merges into the
// object)) or Op = "set": modify the object IN PLACE (protoreflect Set/Clear/Mutable,
// list append/truncate, map insert/delete, nested messages mutated, never replaced at the
// top) until it has the value described by To. Decoding steps decode the reflection
// encoding of a separate, freshly built message of the value last named (Msg or To).
type C12Step struct {
	Op string  `json:"op"`
	To *C12Msg `json:"to,omitempty"`
}

type C12Case struct {
	Type   string `json:"type"`   // full protobuf name of the message type
	Origin string `json:"origin"` // "random", "random-hist-edit", "random-hist-indep" or "sweep:<what>"
	Msg    C12Msg `json:"msg"`    // the value the object is built with
	// Hist: steps executed on the object before it is judged; the object is judged against
	// the value of the last "set" (or Msg). Empty: the freshly built message is judged.
	Hist []C12Step `json:"hist,omitempty"`
	// Order in which the oracle uses the codecs on the object: "" / "proto-first" or "vt-first".
	Order string `json:"order,omitempty"`
	// Corrupt: failing-decode steps executed (after the history, right before the oracle) on
	// corrupted encodings of the value under test; see C12Corrupt.
	Corrupt []C12Corrupt `json:"corrupt,omitempty"`
}

// ---- descriptor access ----------------------------------------------------------------

type c12Type struct {
	md protoreflect.MessageDescriptor
	mt protoreflect.MessageType
}

var (
	c12Once   sync.Once
	c12All    []c12Type // every non-map-entry message of api.proto, descriptor order
	c12ByName map[string]c12Type
	c12NoType []string // messages without a registered Go type (cannot be tested)
)

func c12Types() []c12Type {
	c12Once.Do(func() {
		c12ByName = map[string]c12Type{}
		var walk func(ms protoreflect.MessageDescriptors)
		walk = func(ms protoreflect.MessageDescriptors) {
			for i := 0; i < ms.Len(); i++ {
				md := ms.Get(i)
				if md.IsMapEntry() {
					continue // synthetic; covered through the map field of its parent
				}
				mt, err := protoregistry.GlobalTypes.FindMessageByName(md.FullName())
				if err != nil {
					c12NoType = append(c12NoType, string(md.FullName()))
				} else {
					ty := c12Type{md: md, mt: mt}
					c12All = append(c12All, ty)
					c12ByName[string(md.FullName())] = ty
				}
				walk(md.Messages())
			}
		}
		walk(api.File_pkg_api_api_proto.Messages())
	})
	return c12All
}

// c12IsWrapper: an "optional value" wrapper — a message whose only field is a scalar
// called "value" (OptionalString, OptionalInt, OptionalInt64, OptionalBool, ...).
func c12IsWrapper(md protoreflect.MessageDescriptor) bool {
	fs := md.Fields()
	if fs.Len() != 1 {
		return false
	}
	fd := fs.Get(0)
	return fd.Name() == "value" && !fd.IsList() && !fd.IsMap() &&
		fd.Kind() != protoreflect.MessageKind && fd.Kind() != protoreflect.GroupKind
}

// ---- building a concrete message from the tree ----------------------------------------

func c12Str(v C12Val) string {
	if v.R > 1 {
		return strings.Repeat(v.S, v.R)
	}
	return v.S
}

func c12Bytes(v C12Val) []byte {
	if v.R > 1 {
		return bytes.Repeat(v.X, v.R)
	}
	if v.X == nil {
		return nil
	}
	return append([]byte{}, v.X...)
}

func c12Scalar(fd protoreflect.FieldDescriptor, v C12Val) (protoreflect.Value, error) {
	switch fd.Kind() {
	case protoreflect.Int32Kind, protoreflect.Sint32Kind, protoreflect.Sfixed32Kind:
		return protoreflect.ValueOfInt32(int32(v.I)), nil
	case protoreflect.Int64Kind, protoreflect.Sint64Kind, protoreflect.Sfixed64Kind:
		return protoreflect.ValueOfInt64(v.I), nil
	case protoreflect.Uint32Kind, protoreflect.Fixed32Kind:
		return protoreflect.ValueOfUint32(uint32(v.U)), nil
	case protoreflect.Uint64Kind, protoreflect.Fixed64Kind:
		return protoreflect.ValueOfUint64(v.U), nil
	case protoreflect.BoolKind:
		return protoreflect.ValueOfBool(v.B), nil
	case protoreflect.StringKind:
		// a repetition of a valid string is valid: only the unit needs checking
		if !utf8.ValidString(v.S) {
			return protoreflect.Value{}, fmt.Errorf("field %s: string is not valid UTF-8 (outside the domain)", fd.FullName())
		}
		return protoreflect.ValueOfString(c12Str(v)), nil
	case protoreflect.BytesKind:
		return protoreflect.ValueOfBytes(c12Bytes(v)), nil
	case protoreflect.EnumKind:
		return protoreflect.ValueOfEnum(protoreflect.EnumNumber(int32(v.I))), nil
	case protoreflect.FloatKind:
		return protoreflect.ValueOfFloat32(math.Float32frombits(uint32(v.U))), nil
	case protoreflect.DoubleKind:
		return protoreflect.ValueOfFloat64(math.Float64frombits(v.U)), nil
	}
	return protoreflect.Value{}, fmt.Errorf("field %s: unsupported kind %v", fd.FullName(), fd.Kind())
}

type c12BuildInfo struct {
	emptyFallback int // empty collections that could not be made non-nil (left nil)
}

func c12Fill(m protoreflect.Message, tree *C12Msg, bi *c12BuildInfo) error {
	md := m.Descriptor()
	var empties []protoreflect.FieldDescriptor
	for i := range tree.F {
		f := &tree.F[i]
		fd := md.Fields().ByNumber(protoreflect.FieldNumber(f.Num))
		if fd == nil {
			return fmt.Errorf("message %s has no field number %d", md.FullName(), f.Num)
		}
		switch {
		case fd.IsMap():
			if len(f.KV) == 0 {
				if f.Empty {
					empties = append(empties, fd)
				}
				continue
			}
			mp := m.Mutable(fd).Map()
			for _, kv := range f.KV {
				k, err := c12Scalar(fd.MapKey(), kv.K)
				if err != nil {
					return err
				}
				var val protoreflect.Value
				if fd.MapValue().Kind() == protoreflect.MessageKind {
					val = mp.NewValue()
					if kv.V.M != nil {
						if err := c12Fill(val.Message(), kv.V.M, bi); err != nil {
							return err
						}
					}
				} else if val, err = c12Scalar(fd.MapValue(), kv.V); err != nil {
					return err
				}
				mp.Set(k.MapKey(), val)
			}
		case fd.IsList():
			if len(f.L) == 0 {
				if f.Empty {
					empties = append(empties, fd)
				}
				continue
			}
			l := m.Mutable(fd).List()
			for _, e := range f.L {
				if fd.Kind() == protoreflect.MessageKind {
					val := l.NewElement()
					if e.M != nil {
						if err := c12Fill(val.Message(), e.M, bi); err != nil {
							return err
						}
					}
					l.Append(val)
				} else {
					val, err := c12Scalar(fd, e)
					if err != nil {
						return err
					}
					l.Append(val)
				}
			}
		case fd.Kind() == protoreflect.MessageKind:
			if f.V == nil || f.V.M == nil {
				continue // unset
			}
			sub := m.Mutable(fd).Message() // allocates: present, possibly empty
			if err := c12Fill(sub, f.V.M, bi); err != nil {
				return err
			}
		default:
			var v C12Val
			if f.V != nil {
				v = *f.V
			}
			val, err := c12Scalar(fd, v)
			if err != nil {
				return err
			}
			m.Set(fd, val)
		}
	}
	for _, fd := range empties {
		if !c12SetEmptyNonNil(m, fd) {
			bi.emptyFallback++
		}
	}
	if len(tree.U) > 0 {
		raw, err := c12UnknownBytes(md, tree.U)
		if err != nil {
			return err
		}
		m.SetUnknown(raw)
	}
	return nil
}

// c12SetEmptyNonNil sets the Go struct field behind a repeated/map protobuf field to a
// non-nil empty slice/map (protoreflect cannot express that). The struct field is found
// through its `protobuf:"kind,<number>,..."` tag. Returns false if it cannot be done.
func c12SetEmptyNonNil(m protoreflect.Message, fd protoreflect.FieldDescriptor) bool {
	rv := reflect.ValueOf(m.Interface())
	if rv.Kind() != reflect.Ptr || rv.IsNil() || rv.Elem().Kind() != reflect.Struct {
		return false
	}
	st := rv.Elem()
	for i := 0; i < st.NumField(); i++ {
		tag := st.Type().Field(i).Tag.Get("protobuf")
		parts := strings.Split(tag, ",")
		if len(parts) < 2 {
			continue
		}
		n, err := strconv.Atoi(parts[1])
		if err != nil || n != int(fd.Number()) {
			continue
		}
		fv := st.Field(i)
		if !fv.CanSet() {
			return false
		}
		switch fv.Kind() {
		case reflect.Slice:
			fv.Set(reflect.MakeSlice(fv.Type(), 0, 0))
			return true
		case reflect.Map:
			fv.Set(reflect.MakeMap(fv.Type()))
			return true
		}
		return false
	}
	return false
}

func c12Build(c C12Case) (proto.Message, c12Type, c12BuildInfo, error) {
	c12Types()
	ty, ok := c12ByName[c.Type]
	var bi c12BuildInfo
	if !ok {
		return nil, ty, bi, fmt.Errorf("unknown message type %q", c.Type)
	}
	m, err := c12Fresh(ty, &c.Msg, &bi)
	return m, ty, bi, err
}

// c12Fresh builds a new message object of type ty with the value described by tree.
func c12Fresh(ty c12Type, tree *C12Msg, bi *c12BuildInfo) (proto.Message, error) {
	m := ty.mt.New()
	if err := c12Fill(m, tree, bi); err != nil {
		return nil, err
	}
	return m.Interface(), nil
}

// ---- classification --------------------------------------------------------------------

type c12Stats struct {
	depth                                  int // deepest present sub-message below the root
	sub                                    int // present sub-messages (singular)
	subEmpty                               int // present but empty non-wrapper sub-messages
	optSet                                 int // present wrappers with a non-zero value
	optZero                                int // present wrappers holding the zero value
	mapPop                                 int
	mapEmpty                               int
	listPop                                int
	listMsgPop                             int
	listEmpty                              int
	enumUnknown                            int
	longStr                                int
	negInt                                 int
	scalarSet                              int
	scalarZero                             int // scalar field listed with its zero value (absent on the wire)
	emptyKey                               int
	multiByteStr                           int
	longBy                                 map[string]bool
	subEmptyDeep, subEmptyDeep3, elemEmpty int
	multiList, multiMsgList                int
	unkRoot, unkNested, unkLong, unkMaxNum int
	unkWire                                map[string]bool
}

func c12IsZero(fd protoreflect.FieldDescriptor, v C12Val) bool {
	switch fd.Kind() {
	case protoreflect.BoolKind:
		return !v.B
	case protoreflect.StringKind:
		return v.S == ""
	case protoreflect.BytesKind:
		return len(v.X) == 0
	case protoreflect.Uint32Kind, protoreflect.Fixed32Kind:
		return uint32(v.U) == 0
	case protoreflect.Uint64Kind, protoreflect.Fixed64Kind, protoreflect.DoubleKind:
		return v.U == 0
	case protoreflect.FloatKind:
		return uint32(v.U) == 0
	case protoreflect.Int32Kind, protoreflect.Sint32Kind, protoreflect.Sfixed32Kind, protoreflect.EnumKind:
		return int32(v.I) == 0
	}
	return v.I == 0
}

func (st *c12Stats) long(n int, ctx string) {
	if n < 1024 && n >= 0 {
		return
	}
	if st.longBy == nil {
		st.longBy = map[string]bool{}
	}
	if n <= -3 { // unknown groups: -3-depth, -10 = an inner group with another number
		if n == -10 {
			st.longBy["unknown:group_inside_group_other_number"] = true
		} else {
			st.longBy["unknown:group"] = true
			if n <= -5 {
				st.longBy["unknown:group_depth>=2"] = true
			}
		}
		return
	}
	if n == -2 { // a value of the class "domain word"
		st.longBy["domain_word:"+ctx] = true
		return
	}
	if n < 0 { // a value of the class "looks like an encoded message"
		st.longBy["encoded_like:"+ctx] = true
		return
	}
	st.longBy["len>=1024:"+ctx] = true
	if n >= 4096 {
		st.longBy["len>=4096:"+ctx] = true
	}
	if n >= 65535 {
		st.longBy["len>=65535:"+ctx] = true
	}
	if n >= 1<<21 {
		st.longBy["len>=2MiB:"+ctx] = true
		if n&0x1FC000 != 0 {
			st.longBy["len>=2MiB_not_power_of_two"] = true
		}
	}
}

// ctx: "scalar", "repeated", "mapkey", "mapvalue"
func c12ScalarStats(fd protoreflect.FieldDescriptor, v C12Val, st *c12Stats, ctx string) {
	switch fd.Kind() {
	case protoreflect.StringKind:
		if v.R <= 1 && c12EncSet[v.S] {
			st.long(-1, ctx)
		}
		if v.R <= 1 && c12WordSet[v.S] {
			st.long(-2, ctx)
		}
		n := len(v.S) // lengths without materialising the repetition
		if v.R > 1 {
			n *= v.R
		}
		st.long(n, ctx)
		if n >= 128 {
			st.longStr++
		}
		if len(v.S) != utf8.RuneCountInString(v.S) {
			st.multiByteStr++
		}
	case protoreflect.BytesKind:
		if v.R <= 1 && c12EncSet[string(v.X)] {
			st.long(-1, ctx)
		}
		n := len(v.X)
		if v.R > 1 {
			n *= v.R
		}
		st.long(n, ctx)
		if n >= 128 {
			st.longStr++
		}
	case protoreflect.EnumKind:
		if fd.Enum().Values().ByNumber(protoreflect.EnumNumber(int32(v.I))) == nil {
			st.enumUnknown++
		}
		if int32(v.I) < 0 {
			st.negInt++
		}
	case protoreflect.Int32Kind:
		if int32(v.I) < 0 {
			st.negInt++
		}
	case protoreflect.Int64Kind:
		if v.I < 0 {
			st.negInt++
		}
	}
}

func c12Walk(md protoreflect.MessageDescriptor, tree *C12Msg, depth int, st *c12Stats) {
	if depth > st.depth {
		st.depth = depth
	}
	for _, u := range tree.U {
		if depth == 0 {
			st.unkRoot++
		} else {
			st.unkNested++
		}
		if st.unkWire == nil {
			st.unkWire = map[string]bool{}
		}
		st.unkWire[u.W] = true
		if u.W == "bytes" && len(u.X)*max(u.R, 1) >= 128 {
			st.unkLong++
		}
		if u.W == "bytes" {
			st.long(len(u.X)*max(u.R, 1), "unknown")
		}
		if u.Num == 536870911 {
			st.unkMaxNum++
		}
		if u.W == "group" {
			d, other := c12GroupShape(u)
			st.long(-3-d, "")
			if other {
				st.long(-10, "")
			}
		}
	}
	// non-empty repeated fields of this message, by element type
	var elemTypes map[string]int
	for i := range tree.F {
		f := &tree.F[i]
		if len(f.L) == 0 {
			continue
		}
		if fd := md.Fields().ByNumber(protoreflect.FieldNumber(f.Num)); fd != nil && fd.IsList() {
			k := fd.Kind().String()
			if fd.Kind() == protoreflect.MessageKind {
				k = string(fd.Message().FullName())
			}
			if elemTypes == nil {
				elemTypes = map[string]int{}
			}
			elemTypes[k]++
			if elemTypes[k] == 2 {
				st.multiList++
				if fd.Kind() == protoreflect.MessageKind {
					st.multiMsgList++
				}
			}
		}
	}
	for i := range tree.F {
		f := &tree.F[i]
		fd := md.Fields().ByNumber(protoreflect.FieldNumber(f.Num))
		if fd == nil {
			continue
		}
		switch {
		case fd.IsMap():
			if len(f.KV) == 0 {
				if f.Empty {
					st.mapEmpty++
				}
				continue
			}
			st.mapPop++
			for _, kv := range f.KV {
				if c12IsZero(fd.MapKey(), kv.K) {
					st.emptyKey++
				}
				c12ScalarStats(fd.MapKey(), kv.K, st, "mapkey")
				if fd.MapValue().Kind() == protoreflect.MessageKind {
					if kv.V.M != nil {
						c12Walk(fd.MapValue().Message(), kv.V.M, depth+1, st)
					}
				} else {
					c12ScalarStats(fd.MapValue(), kv.V, st, "mapvalue")
				}
			}
		case fd.IsList():
			if len(f.L) == 0 {
				if f.Empty {
					st.listEmpty++
				}
				continue
			}
			st.listPop++
			if fd.Kind() == protoreflect.MessageKind {
				st.listMsgPop++
			}
			for _, e := range f.L {
				if fd.Kind() == protoreflect.MessageKind {
					if e.M == nil || len(e.M.F) == 0 {
						st.elemEmpty++
					}
					if e.M != nil {
						c12Walk(fd.Message(), e.M, depth+1, st)
					} else if depth+1 > st.depth {
						st.depth = depth + 1
					}
				} else {
					c12ScalarStats(fd, e, st, "repeated")
				}
			}
		case fd.Kind() == protoreflect.MessageKind:
			if f.V == nil || f.V.M == nil {
				continue
			}
			st.sub++
			sub := fd.Message()
			if c12IsWrapper(sub) {
				zero := true
				for _, sf := range f.V.M.F {
					if sfd := sub.Fields().ByNumber(protoreflect.FieldNumber(sf.Num)); sfd != nil && sf.V != nil && !c12IsZero(sfd, *sf.V) {
						zero = false
					}
				}
				if zero {
					st.optZero++
				} else {
					st.optSet++
				}
			} else if len(f.V.M.F) == 0 {
				st.subEmpty++
				if depth >= 1 {
					st.subEmptyDeep++
				}
				if depth >= 3 {
					st.subEmptyDeep3++
				}
			}
			c12Walk(sub, f.V.M, depth+1, st)
		default:
			var v C12Val
			if f.V != nil {
				v = *f.V
			}
			if c12IsZero(fd, v) {
				st.scalarZero++
			} else {
				st.scalarSet++
			}
			c12ScalarStats(fd, v, st, "scalar")
		}
	}
}

func c12Classes(origin string, tree *C12Msg, ty c12Type) ([]string, bool) {
	c12EncInit()
	c12WordsInit()
	var st c12Stats
	c12Walk(ty.md, tree, 0, &st)
	if i := strings.IndexByte(origin, ':'); i >= 0 {
		origin = origin[:i]
	}
	cl := []string{"type:" + string(ty.md.Name()), "origin:" + origin, fmt.Sprintf("depth:%d", st.depth)}
	add := func(n int, k string) {
		if n > 0 {
			cl = append(cl, k)
		}
	}
	add(st.sub, "sub_present")
	add(st.subEmpty, "sub_empty")
	add(st.subEmptyDeep, "sub_empty_depth>=2")
	add(st.subEmptyDeep3, "sub_empty_depth>=4")
	add(st.elemEmpty, "list_elem_empty")
	add(st.unkRoot, "unknown:root")
	add(st.unkNested, "unknown:nested")
	add(st.unkLong, "unknown:long_bytes")
	add(st.unkMaxNum, "unknown:max_field_number")
	for _, w := range []string{"varint", "fixed32", "fixed64", "bytes"} {
		if st.unkWire[w] {
			cl = append(cl, "unknown:"+w)
		}
	}
	add(st.multiList, "lists_same_elem_type>=2")
	add(st.multiMsgList, "message_lists_same_elem_type>=2")
	add(st.optSet, "opt_nonzero")
	add(st.optZero, "opt_zero")
	add(st.mapPop, "map_populated")
	add(st.mapEmpty, "map_empty_nonnil")
	add(st.listPop, "list_populated")
	add(st.listMsgPop, "list_of_messages")
	add(st.listEmpty, "list_empty_nonnil")
	add(st.enumUnknown, "enum_unknown")
	add(st.longStr, "long_string")
	add(st.multiByteStr, "multibyte_string")
	add(st.negInt, "negative_int")
	add(st.scalarZero, "scalar_zero_listed")
	add(st.emptyKey, "map_empty_key")
	longKeys := make([]string, 0, len(st.longBy))
	for k := range st.longBy {
		longKeys = append(longKeys, k)
	}
	sort.Strings(longKeys)
	cl = append(cl, longKeys...)
	if len(tree.F) == 0 {
		cl = append(cl, "empty_message")
	}
	// non-trivial: at least one populated field that is a sub-message (incl. an optional
	// wrapper, possibly holding zero / being empty), a map, or a repeated message field
	nt := st.sub > 0 || st.mapPop > 0 || st.listMsgPop > 0
	if nt {
		cl = append(cl, "nontrivial")
	}
	return cl, nt
}

// ---- oracle ----------------------------------------------------------------------------

type c12VT interface {
	MarshalVT() ([]byte, error)
	UnmarshalVT([]byte) error
	SizeVT() int
	MarshalToSizedBufferVT([]byte) (int, error)
}

type c12VTTo interface {
	MarshalToVT([]byte) (int, error)
}

func c12Text(m proto.Message) string {
	s := prototext.MarshalOptions{Multiline: false}.Format(m)
	if len(s) > 4000 {
		s = s[:4000] + "…"
	}
	return s
}

func c12Hex(b []byte) string {
	if len(b) > 2000 {
		return hex.EncodeToString(b[:2000]) + "…"
	}
	return hex.EncodeToString(b)
}

// c12Judge runs the oracle on m (a message of type ty); want is a separate, freshly built
// message object of the value m must have (never m itself: the oracle may encode want).
// vtFirst selects which codec touches m first. It returns "" or the verdict.
func c12Judge(m, want proto.Message, ty c12Type, vtFirst, noMemo bool) (verdict string, hist map[string]any, hasVT bool) {
	hist = map[string]any{"type": string(ty.md.FullName())}
	step := "start"
	name := ty.md.Name()
	defer func() {
		if r := recover(); r != nil {
			verdict = fmt.Sprintf("%s: panic during %s: %v", name, step, r)
		}
		if verdict != "" {
			hist["message"] = c12Text(want)
		}
	}()
	fresh := func() proto.Message { return ty.mt.New().Interface() }
	eq := func(what string, got proto.Message) string {
		if proto.Equal(got, want) {
			return ""
		}
		hist["decoded"] = c12Text(got)
		return fmt.Sprintf("%s: %s is not equal to the original message: got {%s} want {%s}", name, what, c12Text(got), c12Text(want))
	}
	vt, hasVT := m.(c12VT)

	// decode decodes a private copy of src into a new message, compares it with want, then
	// overwrites every byte of the copy (XOR 0xFF, then zero) and compares again: a decoded
	// message must not depend on the buffer it was decoded from (Unmarshal does not retain
	// the buffer; ttrpc and the WebAssembly glue reuse / free it right after decoding).
	// The byte-identical re-encoding comparison is done for the first decode by each decoder
	// (aliasing is a property of the decoder, not of where the bytes came from); every decode
	// gets the overwrite + proto.Equal comparison.
	var wantDet []byte
	reencoded := map[bool]bool{}
	last := map[bool]proto.Message{} // per decoder: the message decoded last (its input since overwritten)
	decode := func(what, from string, src []byte, useVT bool) string {
		step = what
		in := append([]byte(nil), src...)
		got := fresh()
		var err error
		if useVT {
			err = got.(c12VT).UnmarshalVT(in)
		} else {
			err = proto.Unmarshal(in, got)
		}
		if err != nil {
			return fmt.Sprintf("%s: %s of %s output failed: %v", name, strings.SplitN(what, "(", 2)[0], from, err)
		}
		if len(in) == 0 {
			return eq(what, got)
		}
		// One comparison, made after every byte of the input has been changed. If it fails, a
		// second decode whose input is left alone tells a wrong decoding from an aliased one.
		step = what + ", input buffer overwritten"
		c12Invert(in)
		if !proto.Equal(got, want) {
			got2 := fresh()
			if useVT {
				err = got2.(c12VT).UnmarshalVT(append([]byte(nil), src...))
			} else {
				err = proto.Unmarshal(append([]byte(nil), src...), got2)
			}
			if err != nil {
				return fmt.Sprintf("%s: %s: decoding the same bytes a second time failed: %v", name, what, err)
			}
			if v := eq(what, got2); v != "" {
				return v
			}
			hist["decoded_after_overwrite"] = c12Text(got)
			return fmt.Sprintf("%s: %s differs from the original after the input buffer was overwritten, while a second decode of the same bytes gives the original (the decoded message aliases the buffer, or the decoder does not return the same message for the same bytes every time): now {%s} want {%s}", name, what, c12Text(got), c12Text(want))
		}
		clear(in)
		last[useVT] = got
		if reencoded[useVT] {
			return ""
		}
		reencoded[useVT] = true
		if wantDet == nil {
			if wantDet, err = (proto.MarshalOptions{Deterministic: true}).Marshal(want); err != nil {
				return fmt.Sprintf("%s: proto.Marshal of the reference message failed: %v", name, err)
			}
		}
		re, err := proto.MarshalOptions{Deterministic: true}.Marshal(got)
		if err != nil {
			return fmt.Sprintf("%s: re-encoding %s failed: %v", name, what, err)
		}
		if !bytes.Equal(re, wantDet) {
			hist["decoded_after_overwrite"] = c12Text(got)
			return fmt.Sprintf("%s: %s re-encodes differently after the input buffer was zeroed (the decoded message aliases the buffer): now {%s} want {%s}", name, what, c12Text(got), c12Text(want))
		}
		return ""
	}

	var b1, b2 []byte
	protoBlock := func() string {
		step = "proto.Marshal"
		var err error
		b1, err = proto.Marshal(m)
		if err != nil {
			return fmt.Sprintf("%s: proto.Marshal failed: %v", name, err)
		}
		hist["b1_proto"] = c12Hex(b1)
		if v := decode("proto.Unmarshal(proto.Marshal(m))", "proto.Marshal", b1, false); v != "" {
			return v
		}
		if !hasVT {
			return ""
		}
		return decode("UnmarshalVT(proto.Marshal(m))", "proto.Marshal", b1, true)
	}
	vtBlock := func() string {
		if !hasVT {
			return ""
		}
		var n0 int
		if vtFirst {
			step = "SizeVT"
			n0 = vt.SizeVT()
		}
		step = "MarshalVT"
		var err error
		b2, err = vt.MarshalVT()
		if err != nil {
			return fmt.Sprintf("%s: MarshalVT failed: %v", name, err)
		}
		hist["b2_vt"] = c12Hex(b2)
		step = "SizeVT"
		n := vt.SizeVT()
		if n != len(b2) {
			return fmt.Sprintf("%s: SizeVT() = %d but MarshalVT wrote %d bytes", name, n, len(b2))
		}
		if vtFirst && n0 != n {
			return fmt.Sprintf("%s: SizeVT() = %d before and %d after MarshalVT of the same unchanged message", name, n0, n)
		}
		if v := decode("proto.Unmarshal(MarshalVT(m))", "MarshalVT", b2, false); v != "" {
			return v
		}
		if v := decode("UnmarshalVT(MarshalVT(m))", "MarshalVT", b2, true); v != "" {
			return v
		}
		step = "MarshalToSizedBufferVT"
		buf := make([]byte, n)
		k, err := vt.MarshalToSizedBufferVT(buf)
		if err != nil {
			return fmt.Sprintf("%s: MarshalToSizedBufferVT into SizeVT()=%d bytes failed: %v", name, n, err)
		}
		if k != n {
			return fmt.Sprintf("%s: MarshalToSizedBufferVT wrote %d bytes into a buffer of SizeVT()=%d", name, k, n)
		}
		hist["b3_sized"] = c12Hex(buf)
		if v := decode("proto.Unmarshal(MarshalToSizedBufferVT(m))", "MarshalToSizedBufferVT", buf, false); v != "" {
			return v
		}
		if to, ok := m.(c12VTTo); ok {
			step = "MarshalToVT"
			buf2 := make([]byte, n)
			k, err := to.MarshalToVT(buf2)
			if err != nil {
				return fmt.Sprintf("%s: MarshalToVT into SizeVT()=%d bytes failed: %v", name, n, err)
			}
			if k != n {
				return fmt.Sprintf("%s: MarshalToVT wrote %d bytes, SizeVT()=%d", name, k, n)
			}
			if v := decode("UnmarshalVT(MarshalToVT(m))", "MarshalToVT", buf2, true); v != "" {
				return v
			}
		}
		return ""
	}
	first, second := protoBlock, vtBlock
	if vtFirst {
		first, second = vtBlock, protoBlock
	}
	if v := first(); v != "" {
		return v, hist, hasVT
	}
	if v := second(); v != "" {
		return v, hist, hasVT
	}
	// decoded objects are independent of each other (per decoder)
	for _, useVT := range []bool{true, false} {
		if useVT && !hasVT {
			continue
		}
		// the reflection decoder is one generic routine of the protobuf library, not per-type
		// code: it gets this step for a quarter of the cases (chosen by the encoding's length,
		// so a replay makes the same choice), the specialised decoder for every case
		if !useVT && hasVT && len(b1)%4 != 0 {
			continue
		}
		if earlier := last[useVT]; earlier != nil {
			// the step is a function of (type, bytes, decoder) only, not of the history that led
			// to the value: once per process for identical encodings (a replay starts fresh)
			// (not after a failing decode in this case: process-global decoder state may differ)
			if !noMemo && c12IndepSeen(ty, b1, useVT, false) {
				continue
			}
			step = fmt.Sprintf("independence of decoded messages (vt=%v)", useVT)
			if v := c12Independence(ty, want, earlier, b1, useVT, hist); v != "" {
				return v, hist, hasVT
			}
			c12IndepSeen(ty, b1, useVT, true)
		}
	}
	return "", hist, hasVT
}

// c12GroupShape: nesting depth of groups under u (1 = no inner group) and whether some
// inner group has another number than the group enclosing it.
func c12GroupShape(u C12Unk) (depth int, otherNumber bool) {
	depth = 1
	for _, c := range u.G {
		if c.W != "group" {
			continue
		}
		d, o := c12GroupShape(c)
		if d+1 > depth {
			depth = d + 1
		}
		if o || c.Num != u.Num {
			otherNumber = true
		}
	}
	return depth, otherNumber
}

var c12IndepDone = map[uint64]struct{}{}

var c12IndepSeed = maphash.MakeSeed() // the memo lives and dies with the process

func c12IndepKey(ty c12Type, b []byte, useVT bool) uint64 {
	var h maphash.Hash
	h.SetSeed(c12IndepSeed)
	h.WriteString(string(ty.md.FullName()))
	if useVT {
		h.WriteByte(1)
	} else {
		h.WriteByte(0)
	}
	h.Write(b)
	return h.Sum64()
}

// c12IndepSeen: with mark = false asks whether the step already PASSED for this encoding,
// with mark = true records that it did (failures are never memoised, so a failing case
// fails again when rapid re-runs it while shrinking).
func c12IndepSeen(ty c12Type, b []byte, useVT, mark bool) bool {
	k := c12IndepKey(ty, b, useVT)
	c12CountMu.Lock()
	defer c12CountMu.Unlock()
	if mark {
		c12IndepDone[k] = struct{}{}
		return true
	}
	_, ok := c12IndepDone[k]
	return ok
}

// c12Invert XORs every byte of b with 0xFF (no shared scratch buffer: the two C12 tests
// run in parallel).
func c12Invert(b []byte) {
	i := 0
	for ; i+8 <= len(b); i += 8 {
		binary.LittleEndian.PutUint64(b[i:], ^binary.LittleEndian.Uint64(b[i:]))
	}
	for ; i < len(b); i++ {
		b[i] ^= 0xFF
	}
}

func runC12(c C12Case) ev.Outcome {
	m, ty, bi, err := c12Build(c)
	if err != nil {
		// only reachable from a hand-edited replay file: the case is outside the domain
		return ev.Outcome{Excluded: "malformed case: " + err.Error()}
	}
	vtFirst := c.Order == "vt-first"
	if c.Order != "" && c.Order != "vt-first" && c.Order != "proto-first" {
		return ev.Outcome{Excluded: "malformed case: unknown order " + c.Order}
	}
	final := &c.Msg
	var want proto.Message
	var hclasses []string
	if len(c.Hist) > 0 {
		var o *ev.Outcome
		final, want, hclasses, o = c12RunHist(c, m, ty, &bi)
		if o != nil {
			return *o
		}
	} else if want, err = c12Fresh(ty, final, &bi); err != nil {
		return ev.Outcome{Excluded: "malformed case: " + err.Error()}
	}
	classes, nt := c12Classes(c.Origin, final, ty)
	if len(c.Hist) > 0 {
		if _, nt1 := c12Classes(c.Origin, &c.Msg, ty); nt1 {
			nt = true
		}
	}
	classes = append(classes, hclasses...)
	if vtFirst {
		classes = append(classes, "order:vt-first")
	} else {
		classes = append(classes, "order:proto-first")
	}
	cclasses, cverdict, chist := c12RunCorrupt(c, ty, want)
	classes = append(classes, cclasses...)
	if cverdict != "" {
		o := ev.Failf("%s", cverdict)
		o.History = chist
		o.Classes = classes
		return o
	}
	verdict, hist, hasVT := c12Judge(m, want, ty, vtFirst, len(c.Corrupt) > 0)
	if verdict != "" {
		if len(c.Corrupt) > 0 {
			verdict = "after a failing decode of a corrupted encoding in the same process: " + verdict
			for k, v := range chist {
				if _, dup := hist[k]; !dup {
					hist[k] = v
				}
			}
		}
		if len(c.Hist) > 0 {
			verdict = "after the history (encode/decode calls and in-place modification of one message object): " + verdict
		}
		o := ev.Failf("%s", verdict)
		o.History = hist
		o.Classes = classes
		return o
	}
	o := ev.Outcome{Classes: classes, NonTrivial: nt}
	if !hasVT {
		o.Classes = append(o.Classes, "vt:missing")
		o.Excluded = "type has no specialised (VT) codec"
	}
	if bi.emptyFallback > 0 {
		o.Classes = append(o.Classes, "empty_nonnil_fallback_to_nil")
	}
	return o
}

// ---- harness self-check: the proto3 facts the oracle relies on -------------------------

// c12SelfCheck verifies, on the unmodified reflection codec only, the semantics the oracle
// relies on: proto.Equal separates unset from empty sub-messages and identifies nil with
// empty lists/maps. A failure here is a harness problem (inconclusive), not a violation.
func c12SelfCheck(t *testing.T) {
	for _, ty := range c12Types() {
		fs := ty.md.Fields()
		for i := 0; i < fs.Len(); i++ {
			fd := fs.Get(i)
			a, b := ty.mt.New(), ty.mt.New()
			switch {
			case fd.IsList() || fd.IsMap():
				if !c12SetEmptyNonNil(b, fd) {
					t.Fatalf("harness: cannot set %s to an empty non-nil collection", fd.FullName())
				}
				if !proto.Equal(a.Interface(), b.Interface()) {
					t.Fatalf("harness: proto.Equal separates nil from empty %s", fd.FullName())
				}
			case fd.Kind() == protoreflect.MessageKind:
				b.Mutable(fd)
				if proto.Equal(a.Interface(), b.Interface()) {
					t.Fatalf("harness: proto.Equal does not separate unset from empty %s", fd.FullName())
				}
				if !b.Has(fd) || a.Has(fd) {
					t.Fatalf("harness: presence of %s not tracked", fd.FullName())
				}
			}
		}
	}
}

func c12TypeNames(ts []c12Type) []string {
	var out []string
	for _, ty := range ts {
		out = append(out, string(ty.md.Name()))
	}
	sort.Strings(out)
	return out
}
