package codec

// Aliasing probe for C14 ("copies share no state"): the slices inside one converted value
// must not share spare capacity with each other. For every slice of a conversion result that
// has spare capacity, one zero element is appended to a copy of the slice header (what user
// code does with append); nothing else in the value may change.

import (
	"encoding/json"
	"fmt"
	"reflect"

	"github.com/containerd/nri/pkg/api"
	rspec "github.com/opencontainers/runtime-spec/specs-go"
)

func collectSlices(v reflect.Value, path string, depth int, out *[]struct {
	path string
	v    reflect.Value
}) {
	if depth > 8 {
		return
	}
	switch v.Kind() {
	case reflect.Ptr, reflect.Interface:
		if !v.IsNil() {
			collectSlices(v.Elem(), path, depth+1, out)
		}
	case reflect.Struct:
		for i := 0; i < v.NumField(); i++ {
			if v.Type().Field(i).PkgPath != "" { // unexported
				continue
			}
			collectSlices(v.Field(i), path+"."+v.Type().Field(i).Name, depth+1, out)
		}
	case reflect.Slice:
		if v.IsNil() {
			return
		}
		*out = append(*out, struct {
			path string
			v    reflect.Value
		}{path, v})
		for i := 0; i < v.Len(); i++ {
			collectSlices(v.Index(i), fmt.Sprintf("%s[%d]", path, i), depth+1, out)
		}
	case reflect.Map:
		for _, k := range v.MapKeys() {
			collectSlices(v.MapIndex(k), fmt.Sprintf("%s[%v]", path, k), depth+1, out)
		}
	}
}

// aliasProbe returns a description of the first slice whose spare capacity is somebody
// else's storage, "" if there is none.
func aliasProbe(what string, val any) string {
	snap := func() string { b, _ := json.Marshal(val); return string(b) }
	before := snap()
	var sl []struct {
		path string
		v    reflect.Value
	}
	collectSlices(reflect.ValueOf(val), what, 0, &sl)
	for _, s := range sl {
		if s.v.Cap() == s.v.Len() {
			continue
		}
		_ = reflect.Append(s.v, reflect.Zero(s.v.Type().Elem())) // writes into the spare capacity
		if after := snap(); after != before {
			return fmt.Sprintf("appending one element to %s (len %d, cap %d) changed another part of the converted value:\nbefore %s\nafter  %s",
				s.path, s.v.Len(), s.v.Cap(), before, after)
		}
	}
	return ""
}

// aliasChecks probes the conversion results of a case.
func aliasChecks(c C14Case) string {
	switch c.Kind {
	case "res_oci":
		if c.OCIRes == nil {
			return ""
		}
		n := api.FromOCILinuxResources(c.OCIRes, nil)
		if d := aliasProbe("FromOCILinuxResources()", n); d != "" {
			return d
		}
		return aliasProbe("FromOCILinuxResources().ToOCI()", n.ToOCI())
	case "res_nri":
		if c.NRIRes == nil {
			return ""
		}
		return aliasProbe("LinuxResources.ToOCI()", c.NRIRes.ToOCI())
	case "mount":
		nm := api.FromOCIMounts(c.Mounts)
		if d := aliasProbe("FromOCIMounts()", &struct{ M []*api.Mount }{nm}); d != "" {
			return d
		}
		var back []rspec.Mount
		for _, m := range nm {
			back = append(back, m.ToOCI(nil))
		}
		return aliasProbe("Mount.ToOCI()", &struct{ M []rspec.Mount }{back})
	case "device":
		nd := api.FromOCILinuxDevices(c.Devices)
		return aliasProbe("FromOCILinuxDevices()", &struct{ D []*api.LinuxDevice }{nd})
	case "hook":
		nh := api.FromOCIHooks(c.Hooks)
		if nh == nil {
			return ""
		}
		if d := aliasProbe("FromOCIHooks()", nh); d != "" {
			return d
		}
		back := &rspec.Hooks{}
		for _, h := range nh.Prestart {
			back.Prestart = append(back.Prestart, h.ToOCI())
		}
		for _, h := range nh.Poststop {
			back.Poststop = append(back.Poststop, h.ToOCI())
		}
		return aliasProbe("Hook.ToOCI()", back)
	case "env":
		return ""
	case "ns":
		return aliasProbe("FromOCILinuxNamespaces()", &struct{ N []*api.LinuxNamespace }{api.FromOCILinuxNamespaces(c.NS)})
	}
	return ""
}

// scribbleProbe: a conversion result is a value of its own. Every scalar reachable through a
// pointer of the result, and every element of its slices, is overwritten in turn; the source
// of the conversion (snapshot taken before) must not change. It does if the result points
// into the source (e.g. &wrapper.Value instead of a copy).
func scribbleProbe(what string, result any, source any) string {
	snap := func() string { b, _ := json.Marshal(source); return string(b) }
	before := snap()
	var fail string
	var walk func(v reflect.Value, path string, depth int)
	poke := func(v reflect.Value, path string) {
		if fail != "" || !v.CanSet() {
			return
		}
		old := reflect.New(v.Type()).Elem()
		old.Set(v)
		switch v.Kind() {
		case reflect.Int, reflect.Int8, reflect.Int16, reflect.Int32, reflect.Int64:
			v.SetInt(v.Int() ^ 0x55)
		case reflect.Uint, reflect.Uint8, reflect.Uint16, reflect.Uint32, reflect.Uint64:
			v.SetUint(v.Uint() ^ 0x55)
		case reflect.Bool:
			v.SetBool(!v.Bool())
		case reflect.String:
			v.SetString(v.String() + "~scribbled")
		default:
			return
		}
		if after := snap(); after != before {
			fail = fmt.Sprintf("writing to %s of the conversion result changed the SOURCE of the conversion:\nbefore %s\nafter  %s", path, before, after)
		}
		v.Set(old)
	}
	walk = func(v reflect.Value, path string, depth int) {
		if fail != "" || depth > 8 {
			return
		}
		switch v.Kind() {
		case reflect.Ptr:
			if v.IsNil() {
				return
			}
			e := v.Elem()
			switch e.Kind() {
			case reflect.Struct, reflect.Slice, reflect.Map, reflect.Ptr, reflect.Interface:
				walk(e, path, depth+1)
			default:
				poke(e, "*"+path)
			}
		case reflect.Interface:
			if !v.IsNil() {
				walk(v.Elem(), path, depth+1)
			}
		case reflect.Struct:
			for i := 0; i < v.NumField(); i++ {
				if v.Type().Field(i).PkgPath != "" {
					continue
				}
				f := v.Field(i)
				switch f.Kind() {
				case reflect.Ptr, reflect.Interface, reflect.Struct, reflect.Slice, reflect.Map:
					walk(f, path+"."+v.Type().Field(i).Name, depth+1)
				}
			}
		case reflect.Slice:
			for i := 0; i < v.Len(); i++ {
				el := v.Index(i)
				switch el.Kind() {
				case reflect.Ptr, reflect.Interface, reflect.Struct, reflect.Slice, reflect.Map:
					walk(el, fmt.Sprintf("%s[%d]", path, i), depth+1)
				default:
					poke(el, fmt.Sprintf("%s[%d]", path, i))
				}
			}
		case reflect.Map:
			for _, k := range v.MapKeys() {
				el := v.MapIndex(k)
				switch el.Kind() {
				case reflect.Ptr, reflect.Interface, reflect.Slice, reflect.Map:
					walk(el, fmt.Sprintf("%s[%v]", path, k), depth+1)
				}
			}
		}
	}
	walk(reflect.ValueOf(result), what, 0)
	return fail
}

// scribbleChecks probes the conversion results of a case against their sources.
func scribbleChecks(c C14Case) string {
	switch c.Kind {
	case "res_oci":
		if c.OCIRes == nil {
			return ""
		}
		n := api.FromOCILinuxResources(c.OCIRes, nil)
		if d := scribbleProbe("FromOCILinuxResources()", n, c.OCIRes); d != "" {
			return d
		}
		return scribbleProbe("FromOCILinuxResources().ToOCI()", n.ToOCI(), n)
	case "res_nri":
		if c.NRIRes == nil {
			return ""
		}
		return scribbleProbe("LinuxResources.ToOCI()", c.NRIRes.ToOCI(), c.NRIRes)
	case "mount":
		nm := api.FromOCIMounts(c.Mounts)
		if d := scribbleProbe("FromOCIMounts()", &struct{ M []*api.Mount }{nm}, c.Mounts); d != "" {
			return d
		}
		var back []rspec.Mount
		for _, m := range nm {
			back = append(back, m.ToOCI(nil))
		}
		return scribbleProbe("Mount.ToOCI()", &struct{ M []rspec.Mount }{back}, nm)
	case "device":
		nd := api.FromOCILinuxDevices(c.Devices)
		if d := scribbleProbe("FromOCILinuxDevices()", &struct{ D []*api.LinuxDevice }{nd}, c.Devices); d != "" {
			return d
		}
		var back []rspec.LinuxDevice
		for _, d := range nd {
			back = append(back, d.ToOCI())
		}
		return scribbleProbe("LinuxDevice.ToOCI()", &struct{ D []rspec.LinuxDevice }{back}, nd)
	case "hook":
		nh := api.FromOCIHooks(c.Hooks)
		if nh == nil {
			return ""
		}
		if d := scribbleProbe("FromOCIHooks()", nh, c.Hooks); d != "" {
			return d
		}
		back := &rspec.Hooks{}
		for _, h := range nh.Prestart {
			back.Prestart = append(back.Prestart, h.ToOCI())
		}
		for _, h := range nh.Poststop {
			back.Poststop = append(back.Poststop, h.ToOCI())
		}
		return scribbleProbe("Hook.ToOCI()", back, nh)
	}
	return ""
}
