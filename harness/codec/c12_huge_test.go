package codec

// C12 — multi-MiB values: encoded lengths whose varint prefix needs FOUR bytes (2 MiB and
// more), at sizes that are not only powers of two (2^21 + k*2^14 + r, 3 MB, 5 MB): single
// large strings / bytes / unknown fields, large elements of repeated fields and map
// entries, and nested messages whose TOTAL is large while none of their fields is. Each
// such case costs milliseconds to tens of milliseconds, so there are few of them: a
// directed sweep over every length-delimited field of every message type (so that every
// length-prefix site of the specialised decoders is reached deterministically) and a small
// share of the random cases.

import (
	"fmt"

	"google.golang.org/protobuf/reflect/protoreflect"
	"pgregory.net/rapid"

	"nriverif/ev"
)

const c12TwoMiB = 1 << 21

// c12HugeSizes: quick uses the first one only.
var c12HugeSizes = []int{c12TwoMiB + 5<<14 + 3, 3000000, c12TwoMiB + 127<<14 + 16383, 5000000}

func c12BigScalar(fd protoreflect.FieldDescriptor, n int) C12Val {
	if fd.Kind() == protoreflect.BytesKind {
		return C12Val{X: []byte{'B'}, R: n}
	}
	return C12Val{S: "H", R: n}
}

func c12IsLenScalar(fd protoreflect.FieldDescriptor) bool {
	return fd.Kind() == protoreflect.StringKind || fd.Kind() == protoreflect.BytesKind
}

// c12Inflated returns a tree of type md whose encoding is about n bytes: through its first
// singular string/bytes field when preferField is set and there is one, else through one
// unknown length-delimited field.
func c12Inflated(md protoreflect.MessageDescriptor, n int, preferField bool) *C12Msg {
	if preferField {
		fs := md.Fields()
		for i := 0; i < fs.Len(); i++ {
			fd := fs.Get(i)
			if c12IsLenScalar(fd) && !fd.IsList() && !fd.IsMap() {
				v := c12BigScalar(fd, n)
				return &C12Msg{F: []C12Fld{{Num: int32(fd.Number()), Name: string(fd.Name()), V: &v}}}
			}
		}
	}
	return &C12Msg{U: []C12Unk{{Num: c12UnknownNumbers(md)[0], W: "bytes", X: []byte{'P'}, R: n}}}
}

// c12HugeSweep: every length-delimited field of every message type once with a payload of
// each size in sizes; plus nested messages that are large only in total.
func c12HugeSweep(sizes []int, both bool, emit func(C12Case)) {
	k := 0
	for _, ty := range c12Types() {
		tn, sn := string(ty.md.FullName()), string(ty.md.Name())
		fs := ty.md.Fields()
		for i := 0; i < fs.Len(); i++ {
			fd := fs.Get(i)
			base := C12Fld{Num: int32(fd.Number()), Name: string(fd.Name())}
			for _, n := range sizes {
				var flds []C12Fld
				var labels []string
				switch {
				case fd.IsMap():
					if c12IsLenScalar(fd.MapValue()) {
						f := base
						f.KV = []C12KV{{K: c12DistinctScalar(fd.MapKey(), 0), V: c12BigScalar(fd.MapValue(), n)}}
						flds, labels = append(flds, f), append(labels, "map value")
					}
					if c12IsLenScalar(fd.MapKey()) && (both || !c12IsLenScalar(fd.MapValue())) {
						f := base
						f.KV = []C12KV{{K: c12BigScalar(fd.MapKey(), n), V: c12DistinctScalarOrEmpty(fd.MapValue())}}
						flds, labels = append(flds, f), append(labels, "map key")
					}
				case c12IsLenScalar(fd) && fd.IsList():
					f := base
					f.L = []C12Val{c12DistinctScalar(fd, 0), c12BigScalar(fd, n), c12DistinctScalar(fd, 1)}
					flds, labels = append(flds, f), append(labels, "element")
				case c12IsLenScalar(fd):
					f := base
					v := c12BigScalar(fd, n)
					f.V = &v
					flds, labels = append(flds, f), append(labels, "value")
				case fd.Kind() == protoreflect.MessageKind:
					for _, prefer := range []bool{true, false} {
						if !prefer && !both {
							continue
						}
						sub := c12Inflated(fd.Message(), n, prefer)
						if !prefer && len(sub.U) == 0 {
							continue
						}
						f := base
						if fd.IsList() {
							f.L = []C12Val{{M: &C12Msg{}}, {M: sub}}
						} else {
							f.V = &C12Val{M: sub}
						}
						how := "nested message inflated through a field"
						if len(sub.U) > 0 {
							how = "nested message inflated through an unknown field"
						}
						flds, labels = append(flds, f), append(labels, how)
						if len(sub.U) > 0 {
							break // there was no field to prefer: the second variant is the same
						}
					}
				}
				for j, f := range flds {
					order := "vt-first"
					if k%2 == 1 {
						order = "proto-first"
					}
					k++
					emit(C12Case{Type: tn, Origin: fmt.Sprintf("sweep:huge %s.%s %s of %d bytes", sn, fd.Name(), labels[j], n), Msg: C12Msg{F: []C12Fld{f}}, Order: order})
				}
			}
			// large in total only: a nested message holding 2200 one-KiB elements
			if fd.Kind() == protoreflect.MessageKind && !fd.IsMap() {
				sfs := fd.Message().Fields()
				for si := 0; si < sfs.Len(); si++ {
					sfd := sfs.Get(si)
					if !(c12IsLenScalar(sfd) && sfd.IsList()) {
						continue
					}
					sf := C12Fld{Num: int32(sfd.Number()), Name: string(sfd.Name())}
					for e := 0; e < 2200; e++ {
						sf.L = append(sf.L, c12BigScalar(sfd, 1024))
					}
					f := base
					sub := &C12Msg{F: []C12Fld{sf}}
					if fd.IsList() {
						f.L = []C12Val{{M: sub}}
					} else {
						f.V = &C12Val{M: sub}
					}
					emit(C12Case{Type: tn, Origin: fmt.Sprintf("sweep:huge %s.%s large in total only: 2200 x 1 KiB in %s", sn, fd.Name(), sfd.Name()), Msg: C12Msg{F: []C12Fld{f}}, Order: "vt-first"})
					break
				}
			}
		}
		// the root message itself inflated through an unknown field
		emit(C12Case{Type: tn, Origin: fmt.Sprintf("sweep:huge %s unknown field of %d bytes", sn, sizes[0]), Msg: *c12Inflated(ty.md, sizes[0], false)})
	}
}

// c12GenHugeSize draws 2^21 + k*2^14 + r (bits 14..20 of the length in play), now and then 3 MB / 5 MB.
func c12GenHugeSize(t *rapid.T) int {
	switch c12Gen8.Draw(t, "hugesize") {
	case 6:
		return 3000000
	case 7:
		return 5000000
	}
	return c12TwoMiB + rapid.IntRange(1, 127).Draw(t, "k")<<14 + rapid.IntRange(0, 16383).Draw(t, "r")
}

// c12MakeHuge inflates one drawn place of the tree to a multi-MiB encoding: a message node
// (root or nested, chosen by walking down present sub-messages) gets either a large unknown
// field or, if it has one, its first string/bytes field (singular, element or map value) large.
func c12MakeHuge(t *rapid.T, md protoreflect.MessageDescriptor, msg *C12Msg, depth int) {
	// descend?
	type sub struct {
		md protoreflect.MessageDescriptor
		m  *C12Msg
	}
	var subs []sub
	for i := range msg.F {
		f := &msg.F[i]
		fd := md.Fields().ByNumber(protoreflect.FieldNumber(f.Num))
		if fd == nil || fd.Kind() != protoreflect.MessageKind || fd.IsMap() {
			continue
		}
		if fd.IsList() {
			for j := range f.L {
				if f.L[j].M != nil {
					subs = append(subs, sub{fd.Message(), f.L[j].M})
				}
			}
		} else if f.V != nil && f.V.M != nil {
			subs = append(subs, sub{fd.Message(), f.V.M})
		}
	}
	if len(subs) > 0 && depth < 5 && c12Gen8.Draw(t, "huge-descend") >= 3 {
		s := subs[rapid.IntRange(0, len(subs)-1).Draw(t, "huge-into")]
		c12MakeHuge(t, s.md, s.m, depth+1)
		return
	}
	n := c12GenHugeSize(t)
	if rapid.Bool().Draw(t, "huge-field") {
		for i := range msg.F {
			f := &msg.F[i]
			fd := md.Fields().ByNumber(protoreflect.FieldNumber(f.Num))
			if fd == nil {
				continue
			}
			switch {
			case fd.IsMap() && c12IsLenScalar(fd.MapValue()) && len(f.KV) > 0:
				f.KV[0].V = c12BigScalar(fd.MapValue(), n)
				return
			case fd.IsList() && c12IsLenScalar(fd) && len(f.L) > 0:
				f.L[len(f.L)-1] = c12BigScalar(fd, n)
				return
			case !fd.IsList() && !fd.IsMap() && c12IsLenScalar(fd) && f.V != nil:
				*f.V = c12BigScalar(fd, n)
				return
			}
		}
	}
	msg.U = append(msg.U, C12Unk{Num: c12UnknownNumbers(md)[0], W: "bytes", X: []byte{'P'}, R: n})
}

func c12HugeSweepSizes() ([]int, bool) {
	if ev.Thorough() {
		return c12HugeSizes, true
	}
	return c12HugeSizes[:1], false
}
