package codec

// C12 — decode histories with FAILING decodes: before the valid decodes of the oracle, a
// structurally corrupted (not merely truncated) encoding of the same message is handed to
// the decoders. The failing step itself is only required not to panic (it may return an
// error or a message); what matters is that the valid decodes that follow in the same
// process still give the original message and independent objects — a decoder must not
// keep state (pools, caches) damaged by an input it rejected.

import (
	"fmt"

	"google.golang.org/protobuf/encoding/protowire"
	"google.golang.org/protobuf/proto"
	"google.golang.org/protobuf/reflect/protoreflect"
)

// C12Corrupt is one failing-decode step: the deterministic reflection encoding of the
// message under test gets ONE byte changed at the Pick-th tag (modulo their number) that
// lies INSIDE a nested length-delimited message field (depth >= 1; MinDepth asks for
// deeper ones when there are any), so that all enclosing lengths stay right and the
// failure happens inside the nested decoder:
//
//	"illegal-tag"     the tag byte becomes 0x00 (field number 0)
//	"end-group"       the tag's wire type becomes 4 (end group without a group)
//	"wrong-wiretype"  the tag's wire type becomes another legal one (version skew)
//	"bump-length"     the length prefix of a nested length-delimited field becomes 0x7f and
//	                  overruns its parent (falls back to "illegal-tag" when there is none)
type C12Corrupt struct {
	Pick     int    `json:"pick"`
	MinDepth int    `json:"min_depth,omitempty"`
	Kind     string `json:"kind"`
}

var c12CorruptKinds = []string{"illegal-tag", "end-group", "wrong-wiretype", "bump-length"}

type c12Cand struct {
	off, depth int
	wt         protowire.Type
	lenOff     int // offset of the length prefix (length-delimited fields), else -1
	lenByte    byte
}

// c12NestedTags lists the tags of b (an encoding of md) that lie inside nested messages.
func c12NestedTags(md protoreflect.MessageDescriptor, b []byte, base, depth int, out *[]c12Cand) {
	for len(b) > 0 {
		num, wt, n := protowire.ConsumeTag(b)
		if n < 0 {
			return
		}
		m := protowire.ConsumeFieldValue(num, wt, b[n:])
		if m < 0 {
			return
		}
		c := c12Cand{off: base, depth: depth, wt: wt, lenOff: -1}
		if wt == protowire.BytesType {
			c.lenOff, c.lenByte = base+n, b[n]
		}
		if depth >= 1 {
			*out = append(*out, c)
		}
		if wt == protowire.BytesType {
			if fd := md.Fields().ByNumber(num); fd != nil && fd.Message() != nil {
				payload, k := protowire.ConsumeBytes(b[n:])
				if k > 0 {
					c12NestedTags(fd.Message(), payload, base+n+(k-len(payload)), depth+1, out)
				}
			}
		}
		base += n + m
		b = b[n+m:]
	}
}

// c12ApplyCorruption returns the corrupted copy of enc and what was done, or nil when the
// encoding has no tag inside a nested message.
func c12ApplyCorruption(md protoreflect.MessageDescriptor, enc []byte, c C12Corrupt) ([]byte, string) {
	var all []c12Cand
	c12NestedTags(md, enc, 0, 0, &all)
	cands := all
	if c.MinDepth > 1 {
		var deep []c12Cand
		for _, x := range all {
			if x.depth >= c.MinDepth {
				deep = append(deep, x)
			}
		}
		if len(deep) > 0 {
			cands = deep
		}
	}
	if len(cands) == 0 {
		return nil, ""
	}
	pick := c.Pick
	if pick < 0 {
		pick = -pick
	}
	i := pick % len(cands)
	out := append([]byte(nil), enc...)
	kind := c.Kind
	if kind == "bump-length" {
		found := false
		for j := 0; j < len(cands); j++ {
			x := cands[(i+j)%len(cands)]
			if x.lenOff >= 0 && x.lenByte < 0x7f {
				out[x.lenOff] = 0x7f
				return out, fmt.Sprintf("length prefix at offset %d (depth %d) set to 127", x.lenOff, x.depth)
			}
		}
		if !found {
			kind = "illegal-tag"
		}
	}
	x := cands[i]
	switch kind {
	case "illegal-tag":
		out[x.off] = 0x00
	case "end-group":
		out[x.off] = out[x.off]&^7 | 4
	case "wrong-wiretype":
		alt := byte(protowire.BytesType)
		if x.wt == protowire.BytesType {
			alt = byte(protowire.VarintType)
		}
		out[x.off] = out[x.off]&^7 | alt
	default:
		return nil, ""
	}
	return out, fmt.Sprintf("%s at offset %d (depth %d)", kind, x.off, x.depth)
}

// c12RunCorrupt executes the failing-decode steps of a case. want is only encoded. It
// returns classes and a verdict ("" unless a decoder panicked).
func c12RunCorrupt(c C12Case, ty c12Type, want proto.Message) (classes []string, verdict string, hist map[string]any) {
	if len(c.Corrupt) == 0 {
		return nil, "", nil
	}
	hist = map[string]any{"type": string(ty.md.FullName())}
	enc, err := proto.MarshalOptions{Deterministic: true}.Marshal(want)
	if err != nil {
		return nil, fmt.Sprintf("%s: proto.Marshal of the reference message failed: %v", ty.md.Name(), err), hist
	}
	seen := map[string]bool{}
	add := func(k string) {
		if !seen[k] {
			seen[k] = true
			classes = append(classes, k)
		}
	}
	for i, step := range c.Corrupt {
		bad, what := c12ApplyCorruption(ty.md, enc, step)
		if bad == nil {
			add("corrupt:no_nested_tag")
			continue
		}
		add("corrupt:applied")
		add("corrupt:" + step.Kind)
		hist[fmt.Sprintf("corrupt_%d", i)] = what + ": " + c12Hex(bad)
		for _, useVT := range []bool{false, true} {
			x := ty.mt.New().Interface()
			name := "proto.Unmarshal"
			if useVT {
				name = "UnmarshalVT"
			}
			var derr error
			panicked := func() (p any) {
				defer func() { p = recover() }()
				if useVT {
					if vt, ok := x.(c12VT); ok {
						derr = vt.UnmarshalVT(append([]byte(nil), bad...))
					}
				} else {
					derr = proto.Unmarshal(append([]byte(nil), bad...), x)
				}
				return nil
			}()
			if panicked != nil {
				return classes, fmt.Sprintf("%s: %s panicked on a corrupted encoding (%s): %v", ty.md.Name(), name, what, panicked), hist
			}
			if useVT {
				if derr != nil {
					add("corrupt:vt_rejected")
				} else {
					add("corrupt:vt_accepted")
				}
			}
		}
	}
	return classes, "", hist
}

// c12CorruptSweep: for every message type a fully populated message (three levels, two
// elements per list) preceded by one failing decode — corruption kinds x positions spread
// over all nested tags and over the tags at depth >= 2.
func c12CorruptSweep(perDepth int, emit func(C12Case)) {
	for _, ty := range c12Types() {
		tree := c12Full(ty.md, 3, 0)
		var bi c12BuildInfo
		m, err := c12Fresh(ty, tree, &bi)
		if err != nil {
			continue
		}
		enc, err := proto.MarshalOptions{Deterministic: true}.Marshal(m)
		if err != nil {
			continue
		}
		var all []c12Cand
		c12NestedTags(ty.md, enc, 0, 0, &all)
		if len(all) == 0 {
			continue
		}
		deep := 0
		for _, x := range all {
			if x.depth >= 2 {
				deep++
			}
		}
		tn, sn := string(ty.md.FullName()), string(ty.md.Name())
		for _, set := range []struct{ minDepth, n int }{{0, len(all)}, {2, deep}} {
			if set.n == 0 {
				continue
			}
			k := perDepth
			if k > set.n {
				k = set.n
			}
			for i := 0; i < k; i++ {
				pick := i * set.n / k
				for j, kind := range c12CorruptKinds {
					order := "vt-first"
					if (i+j)%2 == 1 {
						order = "proto-first"
					}
					emit(C12Case{Type: tn, Origin: fmt.Sprintf("sweep:corrupt %s full; %s at nested tag %d (min depth %d)", sn, kind, pick, set.minDepth),
						Msg: *tree, Order: order, Corrupt: []C12Corrupt{{Pick: pick, MinDepth: set.minDepth, Kind: kind}}})
				}
			}
		}
	}
}
