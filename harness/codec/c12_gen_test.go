package codec

// C12 — generators: (i) the deterministic per-field boundary sweep (TestExh_C12) and
// (ii) the rapid generator of random field combinations (TestProp_C12). Both walk the
// protobuf descriptor; neither names a message or field of the protocol.

import (
	"encoding/json"
	"fmt"
	"math"
	"os"
	"runtime/debug"
	"strings"
	"sync"
	"testing"

	"google.golang.org/protobuf/encoding/protowire"
	"google.golang.org/protobuf/reflect/protoreflect"
	"pgregory.net/rapid"

	"nriverif/ev"
)

// ---- boundary values per kind ----------------------------------------------------------

type c12LV struct {
	label string
	v     C12Val
}

var c12StrBoundaries = []c12LV{
	{"empty", C12Val{}},
	{"a", C12Val{S: "a"}},
	{"multibyte", C12Val{S: "ü€😀"}},
	{"nul", C12Val{S: "\x00"}},
	{"a-nul-b", C12Val{S: "a\x00b"}},
	{"replacement-char", C12Val{S: "�"}},
	{"len127", C12Val{S: "x", R: 127}},
	{"len128", C12Val{S: "x", R: 128}},
	{"len1023", C12Val{S: "k", R: 1023}},
	{"len1024", C12Val{S: "k", R: 1024}},
	{"len4096", C12Val{S: "p", R: 4096}},
	{"len16383", C12Val{S: "y", R: 16383}},
	{"len16384", C12Val{S: "y", R: 16384}},
	{"len65536", C12Val{S: "w", R: 65536}},
	{"multibyte-len16384", C12Val{S: "€", R: 5462}},
}

func c12Boundaries(fd protoreflect.FieldDescriptor, top bool) []c12LV {
	iv := func(vs ...int64) []c12LV {
		var out []c12LV
		for _, v := range vs {
			out = append(out, c12LV{fmt.Sprint(v), C12Val{I: v}})
		}
		return out
	}
	uv := func(vs ...uint64) []c12LV {
		var out []c12LV
		for _, v := range vs {
			out = append(out, c12LV{fmt.Sprint(v), C12Val{U: v}})
		}
		return out
	}
	switch fd.Kind() {
	case protoreflect.Int32Kind, protoreflect.Sint32Kind, protoreflect.Sfixed32Kind:
		return iv(0, 1, -1, 127, 128, -128, -129, 16383, 16384, math.MaxInt32, math.MinInt32)
	case protoreflect.Int64Kind, protoreflect.Sint64Kind, protoreflect.Sfixed64Kind:
		return iv(0, 1, -1, 127, 128, -128, 16383, 16384, math.MaxInt32, math.MinInt32, math.MaxInt32+1, math.MinInt32-1,
			1<<32, 1<<56-1, 1<<56, math.MaxInt64, math.MinInt64)
	case protoreflect.Uint32Kind, protoreflect.Fixed32Kind:
		return uv(0, 1, 127, 128, 16383, 16384, math.MaxInt32, math.MaxInt32+1, math.MaxUint32)
	case protoreflect.Uint64Kind, protoreflect.Fixed64Kind:
		return uv(0, 1, 127, 128, 16383, 16384, math.MaxUint32, 1<<32, 1<<56-1, 1<<56, math.MaxInt64, math.MaxInt64+1, math.MaxUint64)
	case protoreflect.BoolKind:
		return []c12LV{{"false", C12Val{}}, {"true", C12Val{B: true}}}
	case protoreflect.StringKind:
		var out []c12LV
		for _, b := range c12StrBoundaries {
			// quick tier: the 4 KiB / 64 KiB strings only for fields of the root message
			if b.v.R >= 4096 && b.v.R != 16383 && b.v.R != 16384 && b.v.R != 5462 && !top && !ev.Thorough() {
				continue
			}
			out = append(out, b)
		}
		if top && ev.Thorough() {
			// 3- to 4-byte length prefix, exact boundary (the quick tier reaches 4-byte prefixes
			// through c12HugeSweep, at sizes with other bits set)
			out = append(out, c12LV{"len2097151", C12Val{S: "z", R: 2097151}}, c12LV{"len2097152", C12Val{S: "z", R: 2097152}})
		}
		// values that look like an encoded message / a textual encoding
		c12EncInit()
		enc := c12EncVals(fd, c12EncPrio)
		if top {
			out = append(out, enc...)
			out = append(out, c12EncRotating(fd)...)
		} else if len(enc) > 4 {
			out = append(out, enc[:4]...)
		}
		// words of the domain the messages describe
		out = append(out, c12SweepWords(fd, top)...)
		return out
	case protoreflect.BytesKind:
		c12EncInit()
		encb := c12EncVals(fd, c12EncPrio)
		if !top && len(encb) > 4 {
			encb = encb[:4]
		}
		out := []c12LV{{"empty", C12Val{}}, {"00", C12Val{X: []byte{0}}}, {"ff80", C12Val{X: []byte{0xff, 0x80}}},
			{"len127", C12Val{X: []byte{1}, R: 127}}, {"len128", C12Val{X: []byte{1}, R: 128}}, {"len1024", C12Val{X: []byte{3}, R: 1024}},
			{"len16384", C12Val{X: []byte{2}, R: 16384}}, {"len65536", C12Val{X: []byte{4}, R: 65536}}}
		return append(out, encb...)
	case protoreflect.EnumKind:
		vals := fd.Enum().Values()
		var out []c12LV
		max := int32(0)
		for i := 0; i < vals.Len(); i++ {
			n := int32(vals.Get(i).Number())
			if n > max {
				max = n
			}
			out = append(out, c12LV{string(vals.Get(i).Name()), C12Val{I: int64(n)}})
		}
		// proto3 enums are open: undeclared numbers are legal values and must survive
		out = append(out, c12LV{"undeclared", C12Val{I: int64(max) + 1}}, c12LV{"undeclared-128", C12Val{I: 128}},
			c12LV{"undeclared-neg1", C12Val{I: -1}}, c12LV{"undeclared-max", C12Val{I: math.MaxInt32}}, c12LV{"undeclared-min", C12Val{I: math.MinInt32}})
		return out
	case protoreflect.FloatKind:
		var out []c12LV
		for _, f := range []float32{0, 1, -1, float32(math.Inf(1)), float32(math.Inf(-1)), math.MaxFloat32, math.SmallestNonzeroFloat32} {
			out = append(out, c12LV{fmt.Sprint(f), C12Val{U: uint64(math.Float32bits(f))}})
		}
		out = append(out, c12LV{"-0", C12Val{U: uint64(math.Float32bits(float32(math.Copysign(0, -1))))}})
		return out
	case protoreflect.DoubleKind:
		var out []c12LV
		for _, f := range []float64{0, 1, -1, math.Inf(1), math.Inf(-1), math.MaxFloat64, math.SmallestNonzeroFloat64} {
			out = append(out, c12LV{fmt.Sprint(f), C12Val{U: math.Float64bits(f)}})
		}
		out = append(out, c12LV{"-0", C12Val{U: math.Float64bits(math.Copysign(0, -1))}})
		return out
	}
	return nil
}

// c12DistinctScalar is a non-zero value that differs per field number, so that two
// fields of the same kind that swap places are told apart.
func c12DistinctScalar(fd protoreflect.FieldDescriptor, salt int) C12Val {
	n := int64(fd.Number()) + int64(salt)*100
	switch fd.Kind() {
	case protoreflect.BoolKind:
		return C12Val{B: true}
	case protoreflect.StringKind:
		return C12Val{S: fmt.Sprintf("%s-%d", fd.Name(), n)}
	case protoreflect.BytesKind:
		return C12Val{X: []byte(fmt.Sprintf("%s-%d", fd.Name(), n))}
	case protoreflect.EnumKind:
		vals := fd.Enum().Values()
		if vals.Len() < 2 {
			return C12Val{I: 1}
		}
		return C12Val{I: int64(vals.Get(1 + int(n)%(vals.Len()-1)).Number())}
	case protoreflect.Uint32Kind, protoreflect.Fixed32Kind, protoreflect.Uint64Kind, protoreflect.Fixed64Kind:
		return C12Val{U: uint64(1000 + n)}
	case protoreflect.FloatKind:
		return C12Val{U: uint64(math.Float32bits(float32(n) + 0.5))}
	case protoreflect.DoubleKind:
		return C12Val{U: math.Float64bits(float64(n) + 0.5)}
	}
	return C12Val{I: -(1000 + n)}
}

// c12Full populates every field of md (recursively down to `levels` more levels of
// sub-messages; below that sub-messages are present but empty).
func c12Full(md protoreflect.MessageDescriptor, levels, salt int) *C12Msg {
	out := &C12Msg{}
	fs := md.Fields()
	elem := func(fd protoreflect.FieldDescriptor, s int) C12Val {
		if fd.Kind() == protoreflect.MessageKind {
			if levels <= 0 {
				return C12Val{M: &C12Msg{}}
			}
			return C12Val{M: c12Full(fd.Message(), levels-1, s)}
		}
		return c12DistinctScalar(fd, s)
	}
	for i := 0; i < fs.Len(); i++ {
		fd := fs.Get(i)
		f := C12Fld{Num: int32(fd.Number()), Name: string(fd.Name())}
		switch {
		case fd.IsMap():
			for j := 0; j < 2; j++ {
				f.KV = append(f.KV, C12KV{K: c12DistinctScalar(fd.MapKey(), salt+j), V: elem(fd.MapValue(), salt+j)})
			}
			if fd.MapKey().Kind() == protoreflect.BoolKind {
				f.KV = f.KV[:1]
			}
		case fd.IsList():
			f.L = []C12Val{elem(fd, salt), elem(fd, salt+1)}
		default:
			v := elem(fd, salt)
			f.V = &v
		}
		out.F = append(out.F, f)
	}
	return out
}

// c12AllEmpty: every collection non-nil but empty, every sub-message present but empty,
// every scalar explicitly zero.
func c12AllEmpty(md protoreflect.MessageDescriptor) *C12Msg {
	out := &C12Msg{}
	fs := md.Fields()
	for i := 0; i < fs.Len(); i++ {
		fd := fs.Get(i)
		f := C12Fld{Num: int32(fd.Number()), Name: string(fd.Name())}
		switch {
		case fd.IsMap(), fd.IsList():
			f.Empty = true
		case fd.Kind() == protoreflect.MessageKind:
			f.V = &C12Val{M: &C12Msg{}}
		default:
			f.V = &C12Val{}
		}
		out.F = append(out.F, f)
	}
	return out
}

// ---- per-field sweep -------------------------------------------------------------------

type c12LF struct {
	label string
	f     C12Fld
}

// c12ElemVariants: the values one element of fd (or fd itself when singular) is swept
// over. level > 0: sub-messages are additionally swept one field at a time (recursively).
func c12ElemVariants(fd protoreflect.FieldDescriptor, level int, top bool) []c12LV {
	if fd.Kind() != protoreflect.MessageKind {
		return c12Boundaries(fd, top)
	}
	sub := fd.Message()
	out := []c12LV{
		{"empty", C12Val{M: &C12Msg{}}},
		{"full", C12Val{M: c12Full(sub, 3, 0)}},
		{"all-empty", C12Val{M: c12AllEmpty(sub)}},
	}
	if level > 0 {
		fs := sub.Fields()
		for i := 0; i < fs.Len(); i++ {
			for _, lf := range c12FieldVariants(fs.Get(i), level-1, false) {
				out = append(out, c12LV{lf.label, C12Val{M: &C12Msg{F: []C12Fld{lf.f}}}})
			}
		}
	}
	return out
}

func c12FieldVariants(fd protoreflect.FieldDescriptor, level int, top bool) []c12LF {
	base := C12Fld{Num: int32(fd.Number()), Name: string(fd.Name())}
	name := string(fd.Name())
	var out []c12LF
	switch {
	case fd.IsMap():
		e := base
		e.Empty = true
		out = append(out, c12LF{name + "={} (non-nil)", e})
		keys := c12Boundaries(fd.MapKey(), top)
		vals := c12ElemVariants(fd.MapValue(), level, top)
		// every key boundary with a fixed value, every value variant with a fixed key
		fixedV := c12DistinctScalarOrEmpty(fd.MapValue())
		fixedK := c12DistinctScalar(fd.MapKey(), 0)
		for _, k := range keys {
			f := base
			f.KV = []C12KV{{K: k.v, V: fixedV}}
			out = append(out, c12LF{fmt.Sprintf("%s={key %s}", name, k.label), f})
		}
		for _, v := range vals {
			f := base
			f.KV = []C12KV{{K: fixedK, V: v.v}}
			out = append(out, c12LF{fmt.Sprintf("%s={value %s}", name, v.label), f})
		}
		// many: all key boundaries at once (unique by construction), values cycling
		many := base
		for i, k := range keys {
			many.KV = append(many.KV, C12KV{K: k.v, V: vals[i%len(vals)].v})
		}
		out = append(out, c12LF{name + "={many}", many})
		// both key and value absent on the wire inside an entry
		if len(keys) > 0 && len(vals) > 0 {
			z := base
			z.KV = []C12KV{{K: keys[0].v, V: vals[0].v}}
			out = append(out, c12LF{name + "={zero key: zero value}", z})
		}
	case fd.IsList():
		e := base
		e.Empty = true
		out = append(out, c12LF{name + "=[] (non-nil)", e})
		vals := c12ElemVariants(fd, level, top)
		many := base
		for _, v := range vals {
			f := base
			f.L = []C12Val{v.v}
			out = append(out, c12LF{fmt.Sprintf("%s=[%s]", name, v.label), f})
			many.L = append(many.L, v.v)
		}
		out = append(out, c12LF{name + "=[all boundaries]", many})
		if len(vals) > 1 {
			// two distinct elements: element order must survive
			pair := base
			pair.L = []C12Val{vals[1].v, vals[0].v}
			out = append(out, c12LF{fmt.Sprintf("%s=[%s, %s]", name, vals[1].label, vals[0].label), pair})
		}
		if len(vals) > 0 {
			// a list long enough for a two-byte length prefix when packed / many elements
			long := base
			for i := 0; i < 200; i++ {
				long.L = append(long.L, vals[i%len(vals)].v)
			}
			if fd.Kind() == protoreflect.MessageKind {
				long.L = long.L[:0]
				for i := 0; i < 200; i++ {
					long.L = append(long.L, vals[i%3].v) // empty, full, all-empty alternating
				}
			}
			out = append(out, c12LF{name + "=[200 elements]", long})
		}
	default:
		for _, v := range c12ElemVariants(fd, level, top) {
			f := base
			vv := v.v
			f.V = &vv
			out = append(out, c12LF{fmt.Sprintf("%s=%s", name, v.label), f})
		}
	}
	if fd.Kind() == protoreflect.MessageKind && !fd.IsList() && !fd.IsMap() {
		// labels of sub-sweeps are relative to the sub-message: prefix them
		for i := range out {
			if !strings.HasPrefix(out[i].label, name+"=") {
				out[i].label = name + "." + out[i].label
			}
		}
	}
	return out
}

func c12DistinctScalarOrEmpty(fd protoreflect.FieldDescriptor) C12Val {
	if fd.Kind() == protoreflect.MessageKind {
		return C12Val{M: &C12Msg{}}
	}
	return c12DistinctScalar(fd, 0)
}

// c12Sweep calls emit for every sweep case of every message type.
func c12Sweep(level int, emit func(C12Case)) {
	for _, ty := range c12Types() {
		tn := string(ty.md.FullName())
		sn := string(ty.md.Name())
		emit(C12Case{Type: tn, Origin: "sweep:" + sn + " {}"})
		emit(C12Case{Type: tn, Origin: "sweep:" + sn + " all-empty", Msg: *c12AllEmpty(ty.md)})
		for lv := 0; lv <= 4; lv++ {
			emit(C12Case{Type: tn, Origin: fmt.Sprintf("sweep:%s full to depth %d", sn, lv), Msg: *c12Full(ty.md, lv, lv)})
		}
		fs := ty.md.Fields()
		for i := 0; i < fs.Len(); i++ {
			for _, lf := range c12FieldVariants(fs.Get(i), level, true) {
				emit(C12Case{Type: tn, Origin: "sweep:" + sn + "." + lf.label, Msg: C12Msg{F: []C12Fld{lf.f}}})
			}
		}
		// unknown fields: one of each wire type at the root, alone and behind a fully populated
		// message; a few numbers; one inside each sub-message field
		nums := c12UnknownNumbers(ty.md)
		unks := []C12Unk{
			{Num: nums[0], W: "varint", V: 300}, {Num: nums[0], W: "fixed32", V: 0xdeadbeef}, {Num: nums[0], W: "fixed64", V: 1 << 63},
			{Num: nums[0], W: "bytes", X: []byte("new")}, {Num: nums[0], W: "bytes"}, {Num: nums[0], W: "bytes", X: []byte{'u'}, R: 300},
			{Num: nums[0], W: "bytes", X: []byte{8, 1}},
		}
		for _, n := range nums[1:] {
			unks = append(unks, C12Unk{Num: n, W: "varint", V: 1})
		}
		for _, u := range unks {
			lbl := fmt.Sprintf("unknown field %d (%s)", u.Num, u.W)
			emit(C12Case{Type: tn, Origin: "sweep:" + sn + " {} + " + lbl, Msg: C12Msg{U: []C12Unk{u}}})
			if u.Num == nums[0] {
				full := c12Full(ty.md, 1, 2)
				full.U = []C12Unk{u}
				emit(C12Case{Type: tn, Origin: "sweep:" + sn + " full + " + lbl, Msg: *full})
			}
		}
		emit(C12Case{Type: tn, Origin: "sweep:" + sn + " {} + three unknown fields", Msg: C12Msg{U: []C12Unk{unks[3], unks[0], unks[1]}}})
		// unknown GROUPS: empty, flat members, nested under the same and under other numbers
		gn := nums[0]
		vi := C12Unk{Num: 1, W: "varint", V: 7}
		groups := []struct {
			label string
			u     C12Unk
		}{
			{"empty group", C12Unk{Num: gn, W: "group"}},
			{"group with flat members", C12Unk{Num: gn, W: "group", G: []C12Unk{vi, {Num: 2, W: "bytes", X: []byte("x")}, {Num: 3, W: "fixed32", V: 9}, {Num: 4, W: "fixed64", V: 9}}}},
			{"group inside a group of the same number", C12Unk{Num: gn, W: "group", G: []C12Unk{{Num: gn, W: "group", G: []C12Unk{vi}}}}},
			{"group 1001 inside group 1000", C12Unk{Num: 1000, W: "group", G: []C12Unk{{Num: 1001, W: "group", G: []C12Unk{vi}}}}},
			{"groups 1 and 2 inside group 2000", C12Unk{Num: 2000, W: "group", G: []C12Unk{{Num: 1, W: "group"}, vi, {Num: 2, W: "group", G: []C12Unk{vi}}}}},
			{"three levels, three numbers", C12Unk{Num: 2000, W: "group", G: []C12Unk{{Num: 1000, W: "group", G: []C12Unk{{Num: 1, W: "group", G: []C12Unk{vi}}, vi}}, vi}}},
			{"inner group of another number, then more members", C12Unk{Num: 1000, W: "group", G: []C12Unk{{Num: 5, W: "group"}, {Num: 1000, W: "group"}, vi}}},
		}
		for _, g := range groups {
			if ty.md.Fields().ByNumber(protoreflect.FieldNumber(g.u.Num)) != nil {
				continue
			}
			emit(C12Case{Type: tn, Origin: "sweep:" + sn + " {} + unknown " + g.label, Msg: C12Msg{U: []C12Unk{g.u}}})
		}
		fullG := c12Full(ty.md, 1, 4)
		fullG.U = []C12Unk{groups[3].u, unks[0]}
		emit(C12Case{Type: tn, Origin: "sweep:" + sn + " full + unknown " + groups[3].label, Msg: *fullG})
		for i := 0; i < fs.Len(); i++ {
			fd := fs.Get(i)
			if fd.Kind() != protoreflect.MessageKind || fd.IsMap() {
				continue
			}
			sub := &C12Msg{U: []C12Unk{{Num: c12UnknownNumbers(fd.Message())[0], W: "bytes", X: []byte("nested")},
				{Num: 2000, W: "group", G: []C12Unk{{Num: 1, W: "group"}, {Num: 2, W: "group", G: []C12Unk{{Num: 1, W: "varint", V: 7}}}}}}}
			f := C12Fld{Num: int32(fd.Number()), Name: string(fd.Name())}
			if fd.IsList() {
				f.L = []C12Val{{M: &C12Msg{}}, {M: sub}}
			} else {
				f.V = &C12Val{M: sub}
			}
			emit(C12Case{Type: tn, Origin: fmt.Sprintf("sweep:%s.%s with an unknown field inside", sn, fd.Name()), Msg: C12Msg{F: []C12Fld{f}}})
		}
		// pairs: every field at its distinct value next to every other one alone is covered
		// by "full"; additionally each field *missing* from an otherwise full message
		if fs.Len() > 1 {
			full := c12Full(ty.md, 1, 7)
			for i := range full.F {
				m := C12Msg{}
				m.F = append(m.F, full.F[:i]...)
				m.F = append(m.F, full.F[i+1:]...)
				emit(C12Case{Type: tn, Origin: fmt.Sprintf("sweep:%s full without %s", sn, full.F[i].Name), Msg: m})
			}
		}
	}
}

// ---- random combinations ----------------------------------------------------------------

var (
	c12AsciiRunes = []rune("abcxyzABC019_./=,:- ")
	c12GenAscii   = rapid.StringOfN(rapid.RuneFrom(c12AsciiRunes), 1, 12, -1)
	c12GenUni     = rapid.StringN(0, 10, -1)
	c12GenI64     = rapid.Int64()
	c12GenI32     = rapid.Int32()
	c12GenU64     = rapid.Uint64()
	c12GenU32     = rapid.Uint32()
	c12GenSmall   = rapid.Int64Range(-300, 300)
	c12GenSmallU  = rapid.Uint64Range(0, 300)
	c12GenBool    = rapid.Bool()
	c12GenBytes   = rapid.SliceOfN(rapid.Byte(), 0, 12)
	// length classes (bytes for the one-byte unit): a class is drawn uniformly, then a member
	c12LenClasses = [][]int{{0}, {1, 2, 3, 5, 8, 16}, {127, 128, 129}, {1023, 1024, 1025}, {4095, 4096, 4097}, {16383, 16384, 16385}, {65535, 65536, 70000}}
)

// c12GenWord draws a domain word: half of the time (when the field belongs to a domain)
// one of its own domain's spellings, otherwise any word of the pool.
func c12GenWord(t *rapid.T, fd protoreflect.FieldDescriptor) C12Val {
	c12WordsInit()
	pool := c12WordPool
	if own := c12OwnWordsCached(fd); len(own) > 0 && rapid.Bool().Draw(t, "own-domain") {
		pool = own
	}
	// two small draws: close to uniform over the pool
	g := (len(pool) + 7) / 8
	return C12Val{S: pool[(rapid.IntRange(0, g-1).Draw(t, "wordgroup")*8+c12Gen8.Draw(t, "word"))%len(pool)]}
}

var c12OwnCache = map[protoreflect.FullName][]string{}

func c12OwnWordsCached(fd protoreflect.FieldDescriptor) []string {
	c12CountMu.Lock()
	own, ok := c12OwnCache[fd.FullName()]
	c12CountMu.Unlock()
	if ok {
		return own
	}
	own = c12OwnWords(fd)
	c12CountMu.Lock()
	c12OwnCache[fd.FullName()] = own
	c12CountMu.Unlock()
	return own
}

// c12GenEncLike draws a value that looks like an encoded message: half of the time one of
// the directed values, otherwise any value of the pool.
func c12GenEncLike(t *rapid.T, fd protoreflect.FieldDescriptor) C12Val {
	c12EncInit()
	pool := c12EncPool
	if rapid.Bool().Draw(t, "directed") {
		pool = c12EncPrio
	}
	vals := c12EncVals(fd, pool)
	if len(vals) == 0 {
		return C12Val{}
	}
	// two small draws: close to uniform over the pool
	g := (len(vals) + 7) / 8
	return vals[(rapid.IntRange(0, g-1).Draw(t, "encgroup")*8+c12Gen8.Draw(t, "enc"))%len(vals)].v
}

func c12GenScalar(t *rapid.T, fd protoreflect.FieldDescriptor) C12Val {
	mode := rapid.IntRange(0, 3).Draw(t, "mode")
	bnd := func() C12Val {
		b := c12Boundaries(fd, false)
		return b[rapid.IntRange(0, len(b)-1).Draw(t, "bnd")].v
	}
	switch fd.Kind() {
	case protoreflect.BoolKind:
		return C12Val{B: c12GenBool.Draw(t, "b")}
	case protoreflect.StringKind:
		// 0-1 boundary, 2 short ASCII, 3 domain word, 4 unicode, 5-6 length class, 7 looks like an encoding
		switch c12Gen8.Draw(t, "strmode") {
		case 0, 1:
			return bnd()
		case 2:
			return C12Val{S: c12GenAscii.Draw(t, "s")}
		case 3:
			return c12GenWord(t, fd)
		case 4:
			return C12Val{S: strings.ToValidUTF8(c12GenUni.Draw(t, "s"), "?")}
		case 7:
			return c12GenEncLike(t, fd)
		}
		// a string of a drawn length class (0, 1..16, around 128, 1024, 4096, 16384, >= 65535)
		cls := c12LenClasses[rapid.IntRange(0, len(c12LenClasses)-1).Draw(t, "lenclass")]
		n := cls[rapid.IntRange(0, len(cls)-1).Draw(t, "len")]
		if n == 0 {
			return C12Val{}
		}
		unit := "x"
		if rapid.IntRange(0, 3).Draw(t, "unit") == 3 {
			unit = rapid.SampledFrom([]string{"ü", "€", "ab"}).Draw(t, "mb")
		}
		return C12Val{S: unit, R: n}
	case protoreflect.BytesKind:
		if mode == 0 {
			return bnd()
		}
		if c12Gen8.Draw(t, "bytesenc") == 7 {
			return c12GenEncLike(t, fd)
		}
		if mode == 3 {
			cls := c12LenClasses[rapid.IntRange(0, len(c12LenClasses)-1).Draw(t, "lenclass")]
			return C12Val{X: []byte{byte(rapid.IntRange(0, 255).Draw(t, "byte"))}, R: cls[rapid.IntRange(0, len(cls)-1).Draw(t, "len")]}
		}
		return C12Val{X: c12GenBytes.Draw(t, "x")}
	case protoreflect.EnumKind:
		if mode == 3 {
			return C12Val{I: int64(c12GenI32.Draw(t, "e"))}
		}
		return bnd()
	case protoreflect.Int32Kind, protoreflect.Sint32Kind, protoreflect.Sfixed32Kind:
		switch mode {
		case 0:
			return bnd()
		case 1:
			return C12Val{I: int64(c12GenI32.Draw(t, "i"))}
		}
		return C12Val{I: c12GenSmall.Draw(t, "i")}
	case protoreflect.Int64Kind, protoreflect.Sint64Kind, protoreflect.Sfixed64Kind:
		switch mode {
		case 0:
			return bnd()
		case 1:
			return C12Val{I: c12GenI64.Draw(t, "i")}
		}
		return C12Val{I: c12GenSmall.Draw(t, "i")}
	case protoreflect.Uint32Kind, protoreflect.Fixed32Kind:
		switch mode {
		case 0:
			return bnd()
		case 1:
			return C12Val{U: uint64(c12GenU32.Draw(t, "u"))}
		}
		return C12Val{U: c12GenSmallU.Draw(t, "u")}
	case protoreflect.Uint64Kind, protoreflect.Fixed64Kind:
		switch mode {
		case 0:
			return bnd()
		case 1:
			return C12Val{U: c12GenU64.Draw(t, "u")}
		}
		return C12Val{U: c12GenSmallU.Draw(t, "u")}
	case protoreflect.FloatKind:
		if mode == 0 {
			return bnd()
		}
		return C12Val{U: uint64(math.Float32bits(float32(c12GenSmall.Draw(t, "f")) / 8))}
	case protoreflect.DoubleKind:
		if mode == 0 {
			return bnd()
		}
		return C12Val{U: math.Float64bits(float64(c12GenSmall.Draw(t, "f")) / 8)}
	}
	return C12Val{}
}

func c12KeyString(fd protoreflect.FieldDescriptor, v C12Val) string {
	switch fd.Kind() {
	case protoreflect.StringKind:
		return c12Str(v)
	case protoreflect.BoolKind:
		return fmt.Sprint(v.B)
	case protoreflect.Uint32Kind, protoreflect.Fixed32Kind:
		return fmt.Sprint(uint32(v.U))
	case protoreflect.Uint64Kind, protoreflect.Fixed64Kind:
		return fmt.Sprint(v.U)
	case protoreflect.Int32Kind, protoreflect.Sint32Kind, protoreflect.Sfixed32Kind:
		return fmt.Sprint(int32(v.I))
	}
	return fmt.Sprint(v.I)
}

// rapid's integer generators are biased towards values of short bit length; all
// probabilistic decisions below therefore use 3-bit draws (0..7), where the bias is mild
// (P(0) ~ 0.18, P(<=3) ~ 0.6), and are arranged so that shrinking (towards 0) removes things.
var c12Gen8 = rapid.IntRange(0, 7)

type c12GenCfg struct {
	maxDepth int // deepest level of sub-messages below the root
	thr      int // a root field is populated when a 0..7 draw is >= thr
	decay    int // thr grows by this much per level
}

func (g c12GenCfg) thrAt(depth int) int {
	d := g.thr + depth*g.decay
	if d > 7 {
		d = 7
	}
	return d
}

func c12GenElem(t *rapid.T, fd protoreflect.FieldDescriptor, depth int, g c12GenCfg) C12Val {
	if fd.Kind() != protoreflect.MessageKind {
		return c12GenScalar(t, fd)
	}
	// present sub-message at level depth+1: empty (for a wrapper: holding zero) or
	// populated; at the depth bound only present-but-empty ones (the placeholders a runtime
	// sends) are left
	if depth >= g.maxDepth || rapid.IntRange(0, 3).Draw(t, "shape") == 0 {
		return C12Val{M: &C12Msg{}}
	}
	m := c12GenMsg(t, fd.Message(), depth+1, g)
	return C12Val{M: &m}
}

// c12GenField draws a populated value for field fd of a message at level depth.
func c12GenField(t *rapid.T, fd protoreflect.FieldDescriptor, depth int, g c12GenCfg) C12Fld {
	isMsg := fd.Kind() == protoreflect.MessageKind || (fd.IsMap() && fd.MapValue().Kind() == protoreflect.MessageKind)
	f := C12Fld{Num: int32(fd.Number()), Name: string(fd.Name())}
	switch {
	case fd.IsMap():
		n := rapid.IntRange(0, 4).Draw(t, "n")
		if n == 0 {
			f.Empty = true
			break
		}
		seen := map[string]bool{}
		for j := 0; j < n; j++ {
			k := c12GenScalar(t, fd.MapKey())
			ks := c12KeyString(fd.MapKey(), k)
			v := c12GenElem(t, fd.MapValue(), depth, g)
			if seen[ks] {
				continue // keys are unique by construction: later duplicates are dropped
			}
			seen[ks] = true
			f.KV = append(f.KV, C12KV{K: k, V: v})
		}
	case fd.IsList():
		max := 3
		if !isMsg && rapid.IntRange(0, 9).Draw(t, "longlist") == 0 {
			max = 40
		}
		n := rapid.IntRange(0, max).Draw(t, "n")
		if n == 0 {
			f.Empty = true
			break
		}
		for j := 0; j < n; j++ {
			e := c12GenElem(t, fd, depth, g)
			if j >= 3 && e.R > 1100 {
				e.R = 1100 // long lists: only the first elements may be very long
			}
			f.L = append(f.L, e)
		}
	default:
		v := c12GenElem(t, fd, depth, g)
		f.V = &v
	}
	return f
}

// c12UnknownNumbers: field numbers md does not define — just above its highest field, the
// tag-length boundaries (15/16, 2047/2048), 100, 1000, around the reserved range
// 19000-19999 (never inside it) and the largest legal number.
func c12UnknownNumbers(md protoreflect.MessageDescriptor) []int32 {
	maxNum := int32(0)
	fs := md.Fields()
	for i := 0; i < fs.Len(); i++ {
		if n := int32(fs.Get(i).Number()); n > maxNum {
			maxNum = n
		}
	}
	var out []int32
	for _, n := range []int32{maxNum + 1, maxNum + 2, 15, 16, 100, 1000, 2047, 2048, 18999, 20000, 536870911, 536870910} {
		if md.Fields().ByNumber(protoreflect.FieldNumber(n)) == nil && n >= 1 && (n < 19000 || n > 19999) {
			out = append(out, n)
		}
	}
	return out
}

var c12UnkWires = []string{"varint", "fixed32", "fixed64", "bytes"}

// c12GenUnknown draws one unknown field for a message of type md; have: the ones already
// there (a repeated number is legal).
func c12GenUnknown(t *rapid.T, md protoreflect.MessageDescriptor, have []C12Unk) C12Unk {
	nums := c12UnknownNumbers(md)
	num := nums[rapid.IntRange(0, len(nums)-1).Draw(t, "unknum")]
	// now and then the unknown field is a GROUP (start-group ... end-group), built
	// recursively with inner numbers drawn independently
	if c12Gen8.Draw(t, "unkgroup") >= 6 {
		return c12GenGroup(t, num, 1)
	}
	u := C12Unk{Num: num, W: c12UnkWires[rapid.IntRange(0, 3).Draw(t, "unkwire")]}
	c12GenUnkValue(t, &u)
	return u
}

var c12GroupNums = []int32{1, 2, 3, 1000, 1001, 2000, 536870911}

// c12GenGroup: a group numbered num with 0-3 members: flat fields and (to depth 3) further
// groups whose numbers are drawn independently (the same as the enclosing one, or others).
func c12GenGroup(t *rapid.T, num int32, depth int) C12Unk {
	g := C12Unk{Num: num, W: "group"}
	n := rapid.IntRange(0, 3).Draw(t, "members")
	for i := 0; i < n; i++ {
		mn := c12GroupNums[rapid.IntRange(0, len(c12GroupNums)-1).Draw(t, "membernum")]
		if rapid.Bool().Draw(t, "samenum") {
			mn = num
		}
		if depth < 3 && c12Gen8.Draw(t, "innergroup") >= 4 {
			g.G = append(g.G, c12GenGroup(t, mn, depth+1))
			continue
		}
		u := C12Unk{Num: mn, W: c12UnkWires[rapid.IntRange(0, 3).Draw(t, "unkwire")]}
		c12GenUnkValue(t, &u)
		g.G = append(g.G, u)
	}
	return g
}

func c12GenUnkValue(t *rapid.T, u *C12Unk) {
	switch u.W {
	case "bytes":
		switch c12Gen8.Draw(t, "unkbytes") {
		case 0, 1:
			// empty
		case 2, 3, 4:
			u.X = c12GenBytes.Draw(t, "x")
		case 5:
			u.X, u.R = []byte{'u'}, rapid.SampledFrom([]int{127, 128, 300, 16384}).Draw(t, "len")
		default:
			// looks like a nested message of a newer protocol version
			u.X = protowire.AppendVarint(protowire.AppendTag(nil, 1, protowire.VarintType), 1)
		}
	case "varint":
		u.V = rapid.SampledFrom([]uint64{0, 1, 127, 128, math.MaxUint32, math.MaxUint64}).Draw(t, "v")
	case "fixed32":
		u.V = uint64(rapid.SampledFrom([]uint32{0, 1, math.MaxUint32}).Draw(t, "v"))
	default:
		u.V = rapid.SampledFrom([]uint64{0, 1, math.MaxUint64}).Draw(t, "v")
	}
}

var c12ListGroups = map[protoreflect.FullName]map[protoreflect.FieldNumber]bool{}

// c12SameTypeLists: the repeated fields of md that share their element type with another
// repeated field of md (six hook lists; args/env; ...).
func c12SameTypeLists(md protoreflect.MessageDescriptor) map[protoreflect.FieldNumber]bool {
	c12CountMu.Lock()
	defer c12CountMu.Unlock()
	if g, ok := c12ListGroups[md.FullName()]; ok {
		return g
	}
	by := map[string][]protoreflect.FieldNumber{}
	fs := md.Fields()
	for i := 0; i < fs.Len(); i++ {
		if fd := fs.Get(i); fd.IsList() {
			k := fd.Kind().String()
			if fd.Kind() == protoreflect.MessageKind {
				k = string(fd.Message().FullName())
			}
			by[k] = append(by[k], fd.Number())
		}
	}
	g := map[protoreflect.FieldNumber]bool{}
	for _, nums := range by {
		if len(nums) >= 2 {
			for _, n := range nums {
				g[n] = true
			}
		}
	}
	c12ListGroups[md.FullName()] = g
	return g
}

func c12GenMsg(t *rapid.T, md protoreflect.MessageDescriptor, depth int, g c12GenCfg) C12Msg {
	var out C12Msg
	fs := md.Fields()
	// with some weight all repeated fields that share an element type are made non-empty
	// (several hook lists at once, args next to env): neighbours in memory for a decoder
	// that allocates them together
	group := c12SameTypeLists(md)
	boost := len(group) > 0 && c12Gen8.Draw(t, "lists-together") >= 5
	thr := g.thrAt(depth)
	if fs.Len() == 1 && thr > 2 {
		thr = 2 // a wrapper / single-field message that is populated at all mostly has its field
	}
	for i := 0; i < fs.Len(); i++ {
		fd := fs.Get(i)
		// shrinks towards "unset"
		forced := boost && group[fd.Number()]
		if c12Gen8.Draw(t, string(fd.Name())+"?") < thr && !forced {
			continue
		}
		isMsg := fd.Kind() == protoreflect.MessageKind || (fd.IsMap() && fd.MapValue().Kind() == protoreflect.MessageKind)
		if isMsg && depth >= g.maxDepth && !forced && c12Gen8.Draw(t, "placeholder") < 4 {
			continue // depth bound: below maxDepth sub-messages are absent or present-but-empty
		}
		f := c12GenField(t, fd, depth, g)
		if forced && len(f.L) == 0 {
			f.L, f.Empty = []C12Val{c12GenElem(t, fd, depth, g)}, false
		}
		out.F = append(out.F, f)
	}
	// unknown fields (a peer built against a newer protocol): the root with more weight than
	// nested messages, 1-3 fields
	unkThr := 7
	if depth == 0 {
		unkThr = 6
	}
	if c12Gen8.Draw(t, "unknown?") >= unkThr {
		n := rapid.IntRange(1, 3).Draw(t, "unknowns")
		for i := 0; i < n; i++ {
			out.U = append(out.U, c12GenUnknown(t, md, out.U))
		}
	}
	return out
}

func c12MaxDepth() int { return ev.Pick(4, 6) }

func genC12(t *rapid.T) C12Case {
	types := c12Types()
	// two small draws instead of one wide one: keeps the choice of type close to uniform
	groups := (len(types) + 6) / 7
	ti := (rapid.IntRange(0, groups-1).Draw(t, "typegroup")*7 + rapid.IntRange(0, 6).Draw(t, "type")) % len(types)
	ty := types[ti]
	g := c12GenCfg{
		maxDepth: rapid.IntRange(1, c12MaxDepth()).Draw(t, "maxdepth"),
		thr:      rapid.SampledFrom([]int{6, 4, 2, 0}).Draw(t, "density"),
		decay:    rapid.IntRange(0, 2).Draw(t, "decay"),
	}
	c := C12Case{Type: string(ty.md.FullName()), Origin: "random", Msg: c12GenMsg(t, ty.md, 0, g)}
	// which codec the oracle lets touch the object first
	if rapid.Bool().Draw(t, "vtfirst") {
		c.Order = "vt-first"
	}
	// 0,1: the freshly built message is judged; 2: history ending in a small in-place edit;
	// 3: history ending in an in-place change to an independently drawn value
	switch rapid.IntRange(0, 3).Draw(t, "hist") {
	case 2:
		c.Origin = "random-hist-edit"
		c.Hist = c12GenHist(t, ty, &c.Msg, g, true)
	case 3:
		c.Origin = "random-hist-indep"
		c.Hist = c12GenHist(t, ty, &c.Msg, g, false)
	}
	// rarely (each such case costs tens of milliseconds) one place of the message is inflated
	// to a multi-MiB encoding: four-byte length prefixes at sizes that are not powers of two
	if c12Gen8.Draw(t, "huge?") == 7 && c12Gen8.Draw(t, "huge??") == 7 && rapid.IntRange(0, 3).Draw(t, "huge???") == 3 && len(c.Hist) == 0 {
		c12MakeHuge(t, ty.md, &c.Msg, 0)
	}
	// now and then one or two FAILING decodes (an encoding of the value corrupted inside a
	// nested field) precede the valid decodes of the oracle
	if c12Gen8.Draw(t, "corrupt?") >= 6 {
		n := rapid.IntRange(1, 2).Draw(t, "corruptions")
		for i := 0; i < n; i++ {
			c.Corrupt = append(c.Corrupt, C12Corrupt{
				Pick:     rapid.IntRange(0, 63).Draw(t, "pick"),
				MinDepth: rapid.SampledFrom([]int{0, 2, 3}).Draw(t, "mindepth"),
				Kind:     c12CorruptKinds[rapid.IntRange(0, len(c12CorruptKinds)-1).Draw(t, "kind")],
			})
		}
	}
	return c
}

// ---- tests -------------------------------------------------------------------------------

var (
	c12CountMu sync.Mutex
	c12PerType = map[string]int{}
)

func runC12Counted(c C12Case) ev.Outcome {
	o := runC12(c)
	c12CountMu.Lock()
	c12PerType[c.Type]++
	c12CountMu.Unlock()
	return o
}

// c12TuneGC: the live heap of these tests is tiny while single cases allocate up to a few
// MiB (long strings), so the default GC target makes the collector run almost per case.
func c12TuneGC() { debug.SetGCPercent(1600) }

func TestProp_C12(t *testing.T) {
	// the random search and the sweep (TestExh_C12, same process in shard 0) are independent
	// and single-threaded: run side by side. All harness state they share is behind mutexes.
	t.Parallel()
	c12TuneGC()
	c12NoJournal()
	c12SelfCheck(t)
	ev.Run(t, "C12", genC12, runC12Counted)
	if n := c12MorphMismatches(); n > 0 {
		t.Errorf("harness: %d history case(s) in which the in-place modification did not produce the named value (not judged)", n)
	}
	if t.Failed() || os.Getenv("VERIF_REPLAY") != "" {
		return
	}
	// generator health (harness, not property): every message type of the descriptor must
	// have been drawn; a failure here makes the run inconclusive (no failing case is saved).
	total := 0
	for _, n := range c12PerType {
		total += n
	}
	if total >= 5000 {
		floor := total / (len(c12Types()) * 4)
		for _, ty := range c12Types() {
			if n := c12PerType[string(ty.md.FullName())]; n < floor {
				t.Errorf("generator health: message type %s drawn %d times (< %d of %d cases)", ty.md.Name(), n, floor, total)
			}
		}
	}
}

// TestExh_C12 is the per-field sweep: every field of every message type alone, at each
// boundary value of its kind / shape, sub-messages one more level down; plus empty, fully
// populated and all-empty messages.
func TestExh_C12(t *testing.T) {
	t.Parallel()
	c12TuneGC()
	r := ev.Get("C12")
	c12NoJournal()
	defer r.Flush()
	c12SelfCheck(t)
	if os.Getenv("VERIF_REPLAY") != "" {
		return
	}
	types := c12Types()
	fields, withVT := 0, 0
	var withoutVT []string
	for _, ty := range types {
		fields += ty.md.Fields().Len()
		if _, ok := ty.mt.New().Interface().(c12VT); ok {
			withVT++
		} else {
			withoutVT = append(withoutVT, string(ty.md.Name()))
		}
	}
	level := ev.Pick(2, 3)
	// All sweep cases are executed; of the failing ones only the smallest is recorded as a
	// failure (last, so that it becomes the replay file), the others are counted.
	n, failed := 0, 0
	var minRaw []byte
	var minOut ev.Outcome
	histCases := 0
	run := func(c C12Case) {
		raw := ev.Snapshot(c)
		o := runC12(c)
		n++
		if o.Fail == "" {
			r.Record(raw, o)
			return
		}
		failed++
		if minRaw == nil || len(raw) < len(minRaw) {
			minRaw, minOut = raw, o
		}
	}
	c12Sweep(level, run)
	n0 := n
	c12HistSweep(ev.Pick(0, 2), run)
	histCases = n - n0
	n1 := n
	c12CorruptSweep(ev.Pick(6, 12), run)
	r.SetExtra("sweep_corrupt_cases", n-n1)
	n2 := n
	sizes, both := c12HugeSweepSizes()
	c12HugeSweep(sizes, both, run)
	r.SetExtra("sweep_huge_cases", n-n2)
	if n := c12MorphMismatches(); n > 0 {
		t.Errorf("harness: %d history case(s) in which the in-place modification did not produce the named value (not judged)", n)
	}
	if failed > 0 {
		r.AddExtra("sweep_failures", failed)
		r.Record(json.RawMessage(minRaw), minOut)
	}
	r.SetExtra("types_total", len(types))
	r.SetExtra("types_with_vt_codec", withVT)
	r.SetExtra("types_without_vt_codec", strings.Join(withoutVT, ","))
	r.SetExtra("types_without_go_type", strings.Join(c12NoType, ","))
	r.SetExtra("type_names", strings.Join(c12TypeNames(types), ","))
	r.SetExtra("fields_total", fields)
	r.SetExtra("sweep_cases", n)
	r.SetExtra("sweep_history_cases", histCases)
	r.SetExtra("sweep_sub_levels", level)
	r.SetExtra("exhaustive", false)
	if len(withoutVT) > 0 || len(c12NoType) > 0 {
		t.Logf("C12: types without specialised codec: %v; without Go type: %v", withoutVT, c12NoType)
	}
	if failed > 0 {
		t.Fatalf("C12: %d of %d sweep cases failed; smallest: %s: %s", failed, n, minRaw, minOut.Fail)
	}
}

func c12MorphMismatches() int {
	c12CountMu.Lock()
	defer c12CountMu.Unlock()
	return c12MorphMismatch
}

var c12NoJournalOnce sync.Once

// c12NoJournal: pure functions cannot crash the process outside the calling goroutine; set
// once (the recorder's switch is not synchronised and both tests run in parallel).
func c12NoJournal() { c12NoJournalOnce.Do(func() { ev.Get("C12").NoJournal() }) }
