package codec

// C14 — NRI/OCI conversions are lossless, copies share no state, optional constructors,
// event-mask print/parse round trip (all 8191 masks exhaustively).

import (
	"encoding/json"
	"fmt"
	"math"
	"os"
	"reflect"
	"strconv"
	"strings"
	"sync"
	"testing"
	"unicode/utf8"

	"github.com/containerd/nri/pkg/api"
	rspec "github.com/opencontainers/runtime-spec/specs-go"
	"google.golang.org/protobuf/proto"
	"pgregory.net/rapid"

	"nriverif/ev"
	"nriverif/gen"
)

type C14Case struct {
	Kind    string                 `json:"kind"`
	OCIRes  *rspec.LinuxResources  `json:"oci_res,omitempty"`
	NRIRes  *api.LinuxResources    `json:"nri_res,omitempty"`
	NRIRes2 *api.LinuxResources    `json:"nri_res2,omitempty"`
	OCIRes2 *rspec.LinuxResources  `json:"oci_res2,omitempty"`
	Mounts  []rspec.Mount          `json:"mounts,omitempty"`
	Query   bool                   `json:"query,omitempty"`
	Devices []rspec.LinuxDevice    `json:"devices,omitempty"`
	Hooks   *rspec.Hooks           `json:"hooks,omitempty"`
	Env     []string               `json:"env,omitempty"`
	NS      []rspec.LinuxNamespace `json:"ns,omitempty"`
	OptKind string                 `json:"opt_kind,omitempty"`
	OptForm string                 `json:"opt_form,omitempty"`
	I       int64                  `json:"i,omitempty"`
	U       uint64                 `json:"u,omitempty"`
	B       bool                   `json:"b,omitempty"`
	S       string                 `json:"s,omitempty"`
	Mask    int32                  `json:"mask,omitempty"`
	Strs    []string               `json:"strs,omitempty"` // mask_history: earlier calls into the printer / parser pair
	Events  []int32                `json:"events,omitempty"`
	MutIdx  int                    `json:"mut_idx,omitempty"`
}

func genC14(t *rapid.T) C14Case {
	kind := rapid.SampledFrom([]string{"res_oci", "res_oci", "res_nri", "res_nri", "copy", "copy", "mount", "device", "hook", "env", "ns", "opt", "opt", "marker", "maskops", "mask_history", "conv_history", "conv_history"}).Draw(t, "kind")
	c := C14Case{Kind: kind}
	switch kind {
	case "res_oci":
		c.OCIRes = gen.OCIResources().Draw(t, "res")
	case "res_nri", "copy":
		c.NRIRes = gen.NRIResources().Draw(t, "res")
		c.MutIdx = rapid.IntRange(0, 40).Draw(t, "mut")
	case "conv_history":
		// an earlier conversion whose RESULT the caller then modifies, followed by a second,
		// unrelated conversion: results of different conversions must share no state
		c.NRIRes = gen.NRIResources().Draw(t, "res1")
		c.NRIRes2 = gen.NRIResources().Draw(t, "res2")
		c.OCIRes = gen.OCIResources().Draw(t, "ores1")
		c.OCIRes2 = gen.OCIResources().Draw(t, "ores2")
		// sections left out are where a shared default could hide
		if c.NRIRes != nil && rapid.Bool().Draw(t, "nomem1") {
			c.NRIRes.Memory = nil
		}
		if c.NRIRes != nil && rapid.Bool().Draw(t, "nocpu1") {
			c.NRIRes.Cpu = nil
		}
		if c.NRIRes2 != nil && rapid.Bool().Draw(t, "nomem2") {
			c.NRIRes2.Memory = nil
		}
		if c.NRIRes2 != nil && rapid.Bool().Draw(t, "nocpu2") {
			c.NRIRes2.Cpu = nil
		}
	case "mount":
		c.Mounts = rapid.SliceOfN(gen.OCIMount(), 0, 4).Draw(t, "mounts")
		c.Query = rapid.Bool().Draw(t, "query")
	case "device":
		c.Devices = rapid.SliceOfN(gen.OCIDevice(), 0, 4).Draw(t, "devices")
	case "hook":
		c.Hooks = gen.OCIHooks().Draw(t, "hooks")
	case "env":
		if rapid.IntRange(0, 5).Draw(t, "nilenv") != 0 {
			c.Env = rapid.SliceOfN(rapid.Custom(func(t *rapid.T) string {
				k := rapid.StringMatching(`[A-Za-z_][A-Za-z0-9_]{0,6}`).Draw(t, "k")
				if rapid.IntRange(0, 7).Draw(t, "rawkey") == 0 {
					k += "\xe9K" // environment names and values are byte strings, not text
				}
				v := gen.Pick(t, "v", []string{"", "v", "a=b", "=", "==x", "a b", "ü", "\xff\xfe\x00\x01", "caf\xc3", "gr\xfc\xdf dich", "\x00", "a\nb", "\xc3\x28=\xa0\xa1"})
				// entries are kept Go-quoted in the case: JSON cannot carry arbitrary bytes
				if rapid.IntRange(0, 7).Draw(t, "bare") == 0 {
					return strconv.Quote(k) // a bare name, no '=': FromOCIEnv gives it an empty value
				}
				return strconv.Quote(k + "=" + v)
			}), 0, 5).Draw(t, "env")
			if c.Env == nil {
				c.Env = []string{}
			}
		}
	case "ns":
		c.NS = rapid.SliceOfN(rapid.Custom(func(t *rapid.T) rspec.LinuxNamespace {
			return rspec.LinuxNamespace{
				Type: rspec.LinuxNamespaceType(rapid.SampledFrom([]string{"pid", "network", "mount", "ipc", "uts", "user", "cgroup", "time", ""}).Draw(t, "type")),
				Path: gen.Str().Draw(t, "path"),
			}
		}), 0, 5).Draw(t, "ns")
	case "opt":
		c.OptKind = rapid.SampledFrom([]string{"String", "Int", "Int32", "UInt32", "Int64", "UInt64", "Bool", "FileMode"}).Draw(t, "optkind")
		c.OptForm = rapid.SampledFrom([]string{"value", "ptr", "nilptr", "wrapper", "nilwrapper", "alt", "altptr", "altnilptr"}).Draw(t, "form")
		c.I = gen.I64().Draw(t, "i")
		c.U = gen.U64().Draw(t, "u")
		c.B = rapid.Bool().Draw(t, "b")
		c.S = gen.Str().Draw(t, "s")
	case "marker":
		c.S = rapid.OneOf(gen.Str(), rapid.StringMatching(`-{0,3}[a-z/]{0,5}`)).Draw(t, "key")
	case "maskops":
		c.Mask = rapid.Int32Range(0, int32(api.ValidEvents)).Draw(t, "mask")
		c.Events = rapid.SliceOfN(rapid.Int32Range(1, int32(api.Event_LAST)), 0, 5).Draw(t, "events")
	case "mask_history":
		// other uses of the printer / parser pair (failing parses, odd spellings, masks with
		// invalid bits) come first; then a valid mask is printed and parsed back
		c.Mask = rapid.Int32Range(1, int32(api.ValidEvents)).Draw(t, "mask")
		n := 1 + gen.Uniform(t, "nsteps", 4)
		for i := 0; i < n; i++ {
			c.Strs = append(c.Strs, gen.Pick(t, "step", maskInterference))
		}
	}
	return c
}

// --- canonical comparison helpers --------------------------------------------------

func i64p(p *int64) string {
	if p == nil {
		return "nil"
	}
	return fmt.Sprint(*p)
}
func u64p(p *uint64) string {
	if p == nil {
		return "nil"
	}
	return fmt.Sprint(*p)
}
func boolp(p *bool) string {
	if p == nil {
		return "nil"
	}
	return fmt.Sprint(*p)
}

// canonOCI renders the fields of OCI resources that NRI also carries; struct-nil and
// all-fields-nil are rendered alike (ToOCI always allocates CPU and memory), nil and
// empty collections alike.
func canonOCI(o *rspec.LinuxResources) string {
	if o == nil {
		return "<nil>"
	}
	var b strings.Builder
	m := o.Memory
	if m == nil {
		m = &rspec.LinuxMemory{}
	}
	fmt.Fprintf(&b, "mem[%s %s %s %s %s %s %s %s]", i64p(m.Limit), i64p(m.Reservation), i64p(m.Swap), i64p(m.Kernel), i64p(m.KernelTCP), u64p(m.Swappiness), boolp(m.DisableOOMKiller), boolp(m.UseHierarchy))
	c := o.CPU
	if c == nil {
		c = &rspec.LinuxCPU{}
	}
	fmt.Fprintf(&b, "cpu[%s %s %s %s %s %q %q]", u64p(c.Shares), i64p(c.Quota), u64p(c.Period), i64p(c.RealtimeRuntime), u64p(c.RealtimePeriod), c.Cpus, c.Mems)
	for _, h := range o.HugepageLimits {
		fmt.Fprintf(&b, "huge[%q %d]", h.Pagesize, h.Limit)
	}
	for _, d := range o.Devices {
		fmt.Fprintf(&b, "dev[%v %q %s %s %q]", d.Allow, d.Type, i64p(d.Major), i64p(d.Minor), d.Access)
	}
	if o.Pids != nil {
		fmt.Fprintf(&b, "pids[%d]", o.Pids.Limit)
	}
	b.WriteString(canonMap(o.Unified))
	return b.String()
}

func canonMap(m map[string]string) string {
	b, _ := json.Marshal(m) // sorted keys
	if len(m) == 0 {
		return "map{}"
	}
	return "map" + string(b)
}

func oi64(o *api.OptionalInt64) string {
	if o == nil {
		return "nil"
	}
	return fmt.Sprint(o.Value)
}
func ou64(o *api.OptionalUInt64) string {
	if o == nil {
		return "nil"
	}
	return fmt.Sprint(o.Value)
}
func obool(o *api.OptionalBool) string {
	if o == nil {
		return "nil"
	}
	return fmt.Sprint(o.Value)
}
func ostr(o *api.OptionalString) string {
	if o == nil {
		return "nil"
	}
	return fmt.Sprintf("%q", o.Value)
}

// canonNRI renders NRI resources; withClasses/withDevices select the fields the relation
// under test is stated for.
func canonNRI(r *api.LinuxResources, withClasses, withDevices bool) string {
	if r == nil {
		return "<nil>"
	}
	var b strings.Builder
	m := r.Memory
	if m == nil {
		m = &api.LinuxMemory{}
	}
	fmt.Fprintf(&b, "mem[%s %s %s %s %s %s %s %s]", oi64(m.Limit), oi64(m.Reservation), oi64(m.Swap), oi64(m.Kernel), oi64(m.KernelTcp), ou64(m.Swappiness), obool(m.DisableOomKiller), obool(m.UseHierarchy))
	c := r.Cpu
	if c == nil {
		c = &api.LinuxCPU{}
	}
	fmt.Fprintf(&b, "cpu[%s %s %s %s %s %q %q]", ou64(c.Shares), oi64(c.Quota), ou64(c.Period), oi64(c.RealtimeRuntime), ou64(c.RealtimePeriod), c.Cpus, c.Mems)
	for _, h := range r.HugepageLimits {
		fmt.Fprintf(&b, "huge[%q %d]", h.PageSize, h.Limit)
	}
	if withDevices {
		for _, d := range r.Devices {
			fmt.Fprintf(&b, "dev[%v %q %s %s %q]", d.Allow, d.Type, oi64(d.Major), oi64(d.Minor), d.Access)
		}
	}
	if r.Pids != nil {
		fmt.Fprintf(&b, "pids[%d]", r.Pids.Limit)
	}
	b.WriteString(canonMap(r.Unified))
	if withClasses {
		fmt.Fprintf(&b, "classes[%s %s]", ostr(r.BlockioClass), ostr(r.RdtClass))
	}
	return b.String()
}

func hasZeroOrEmptyOCI(o *rspec.LinuxResources) bool {
	if o == nil {
		return false
	}
	z := false
	chkI := func(p *int64) {
		if p != nil && *p == 0 {
			z = true
		}
	}
	chkU := func(p *uint64) {
		if p != nil && *p == 0 {
			z = true
		}
	}
	if m := o.Memory; m != nil {
		chkI(m.Limit)
		chkI(m.Reservation)
		chkI(m.Swap)
		chkI(m.Kernel)
		chkI(m.KernelTCP)
		chkU(m.Swappiness)
		if m.DisableOOMKiller != nil && !*m.DisableOOMKiller {
			z = true
		}
		if m.UseHierarchy != nil && !*m.UseHierarchy {
			z = true
		}
	}
	if c := o.CPU; c != nil {
		chkU(c.Shares)
		chkI(c.Quota)
		chkU(c.Period)
		chkI(c.RealtimeRuntime)
		chkU(c.RealtimePeriod)
	}
	for _, d := range o.Devices {
		chkI(d.Major)
		chkI(d.Minor)
	}
	if (o.Memory == nil) != (o.CPU == nil) {
		z = true
	}
	if o.Unified != nil && len(o.Unified) == 0 {
		z = true
	}
	return z
}

func hasZeroOrEmptyNRI(r *api.LinuxResources) bool {
	if r == nil {
		return false
	}
	z := false
	if m := r.Memory; m != nil {
		for _, o := range []*api.OptionalInt64{m.Limit, m.Reservation, m.Swap, m.Kernel, m.KernelTcp} {
			if o != nil && o.Value == 0 {
				z = true
			}
		}
		if m.Swappiness != nil && m.Swappiness.Value == 0 {
			z = true
		}
		if (m.DisableOomKiller != nil && !m.DisableOomKiller.Value) || (m.UseHierarchy != nil && !m.UseHierarchy.Value) {
			z = true
		}
	}
	if c := r.Cpu; c != nil {
		for _, o := range []*api.OptionalUInt64{c.Shares, c.Period, c.RealtimePeriod} {
			if o != nil && o.Value == 0 {
				z = true
			}
		}
		for _, o := range []*api.OptionalInt64{c.Quota, c.RealtimeRuntime} {
			if o != nil && o.Value == 0 {
				z = true
			}
		}
	}
	if (r.BlockioClass != nil && r.BlockioClass.Value == "") || (r.RdtClass != nil && r.RdtClass.Value == "") {
		z = true
	}
	if (r.Memory == nil) != (r.Cpu == nil) {
		z = true
	}
	if r.Unified != nil && len(r.Unified) == 0 {
		z = true
	}
	return z
}

// mutators applied to a copy; each returns false if it had nothing to mutate.
func mutateNRI(r *api.LinuxResources, idx int) bool {
	if r == nil {
		return false
	}
	type mut func() bool
	oi := func(o *api.OptionalInt64) bool {
		if o == nil {
			return false
		}
		o.Value ^= 0x5a5a
		return true
	}
	ou := func(o *api.OptionalUInt64) bool {
		if o == nil {
			return false
		}
		o.Value ^= 0x5a5a
		return true
	}
	ob := func(o *api.OptionalBool) bool {
		if o == nil {
			return false
		}
		o.Value = !o.Value
		return true
	}
	os_ := func(o *api.OptionalString) bool {
		if o == nil {
			return false
		}
		o.Value += "~"
		return true
	}
	m, c := r.Memory, r.Cpu
	muts := []mut{
		func() bool { return m != nil && oi(m.Limit) },
		func() bool { return m != nil && oi(m.Reservation) },
		func() bool { return m != nil && oi(m.Swap) },
		func() bool { return m != nil && oi(m.Kernel) },
		func() bool { return m != nil && oi(m.KernelTcp) },
		func() bool { return m != nil && ou(m.Swappiness) },
		func() bool { return m != nil && ob(m.DisableOomKiller) },
		func() bool { return m != nil && ob(m.UseHierarchy) },
		func() bool { return c != nil && ou(c.Shares) },
		func() bool { return c != nil && oi(c.Quota) },
		func() bool { return c != nil && ou(c.Period) },
		func() bool { return c != nil && oi(c.RealtimeRuntime) },
		func() bool { return c != nil && ou(c.RealtimePeriod) },
		func() bool {
			if c == nil {
				return false
			}
			c.Cpus += "~"
			return true
		},
		func() bool {
			if c == nil {
				return false
			}
			c.Mems += "~"
			return true
		},
		func() bool {
			if len(r.HugepageLimits) == 0 {
				return false
			}
			r.HugepageLimits[0].Limit ^= 0xff
			return true
		},
		func() bool {
			if len(r.HugepageLimits) == 0 {
				return false
			}
			r.HugepageLimits[len(r.HugepageLimits)-1].PageSize += "~"
			return true
		},
		func() bool {
			if len(r.HugepageLimits) == 0 {
				return false
			}
			r.HugepageLimits[0] = &api.HugepageLimit{PageSize: "mut", Limit: 7}
			return true
		},
		func() bool {
			if r.Unified == nil {
				return false
			}
			r.Unified["mutated-key"] = "x"
			return true
		},
		func() bool {
			for k := range r.Unified {
				r.Unified[k] += "~"
				return true
			}
			return false
		},
		func() bool {
			for k := range r.Unified {
				delete(r.Unified, k)
				return true
			}
			return false
		},
		func() bool {
			if r.Pids == nil {
				return false
			}
			r.Pids.Limit ^= 0x77
			return true
		},
		func() bool { return os_(r.BlockioClass) },
		func() bool { return os_(r.RdtClass) },
	}
	return muts[idx%len(muts)]()
}

// scribbleOCI writes through every pointer, slice and map reachable from converted OCI resources.
func scribbleOCI(o *rspec.LinuxResources) {
	if o == nil {
		return
	}
	i, u, b := int64(67108864), uint64(512), true
	if o.Memory != nil {
		o.Memory.Limit, o.Memory.Reservation, o.Memory.Swap, o.Memory.Kernel, o.Memory.KernelTCP = &i, &i, &i, &i, &i
		o.Memory.Swappiness, o.Memory.DisableOOMKiller, o.Memory.UseHierarchy = &u, &b, &b
	}
	if o.CPU != nil {
		o.CPU.Shares, o.CPU.Period, o.CPU.RealtimePeriod = &u, &u, &u
		o.CPU.Quota, o.CPU.RealtimeRuntime = &i, &i
		o.CPU.Cpus, o.CPU.Mems = "0-1", "0"
	}
	for k := range o.HugepageLimits {
		o.HugepageLimits[k].Limit ^= 0xff
	}
	for k := range o.Unified {
		o.Unified[k] += "~"
	}
	if o.Unified != nil {
		o.Unified["scribble"] = "x"
	}
	if o.Pids != nil {
		o.Pids.Limit ^= 0x55
	}
	for k := range o.Devices {
		o.Devices[k].Access += "~"
		if o.Devices[k].Major != nil {
			*o.Devices[k].Major ^= 0x33
		}
	}
}

func runC14(c C14Case) ev.Outcome {
	o := runC14conv(c)
	if o.Fail == "" {
		if d := aliasChecks(c); d != "" {
			return ev.Failf("%s", d)
		}
		if d := scribbleChecks(c); d != "" {
			return ev.Failf("%s", d)
		}
	}
	return o
}

func runC14conv(c C14Case) ev.Outcome {
	o := ev.Outcome{Classes: []string{"kind:" + c.Kind}}
	switch c.Kind {
	case "res_oci":
		back := api.FromOCILinuxResources(c.OCIRes, nil).ToOCI()
		if a, b := canonOCI(c.OCIRes), canonOCI(back); a != b {
			return ev.Failf("OCI->NRI->OCI resources differ:\n in: %s\nout: %s", a, b)
		}
		o.NonTrivial = hasZeroOrEmptyOCI(c.OCIRes)
	case "res_nri":
		back := api.FromOCILinuxResources(c.NRIRes.ToOCI(), nil)
		if a, b := canonNRI(c.NRIRes, false, true), canonNRI(back, false, true); a != b {
			return ev.Failf("NRI->OCI->NRI resources differ:\n in: %s\nout: %s", a, b)
		}
		o.NonTrivial = hasZeroOrEmptyNRI(c.NRIRes)
	case "conv_history":
		// step 1: convert, then scribble over everything reachable from the result
		o1 := c.NRIRes.ToOCI()
		scribbleOCI(o1)
		n1 := api.FromOCILinuxResources(c.OCIRes, nil)
		for i := 0; i < 24; i++ {
			mutateNRI(n1, i)
		}
		// step 2: unrelated conversions must be unaffected by step 1
		want2 := canonNRI(c.NRIRes2, false, true)
		back := api.FromOCILinuxResources(c.NRIRes2.ToOCI(), nil)
		if got := canonNRI(back, false, true); got != want2 {
			return ev.Failf("NRI->OCI->NRI after an earlier conversion whose result was modified:\n in: %s\nout: %s", want2, got)
		}
		wantO := canonOCI(c.OCIRes2)
		backO := api.FromOCILinuxResources(c.OCIRes2, nil).ToOCI()
		if got := canonOCI(backO); got != wantO {
			return ev.Failf("OCI->NRI->OCI after an earlier conversion whose result was modified:\n in: %s\nout: %s", wantO, got)
		}
		// and the inputs of step 1 must not have been touched through the results
		o.NonTrivial = c.NRIRes != nil && c.NRIRes2 != nil && (c.NRIRes.Memory == nil || c.NRIRes.Cpu == nil) && (c.NRIRes2.Memory == nil || c.NRIRes2.Cpu == nil)
		if o.NonTrivial {
			o.Classes = append(o.Classes, "conv_history:both_lack_a_section")
		}
	case "copy":
		orig := c.NRIRes
		snap := canonNRI(orig, true, false)
		var pb proto.Message
		if orig != nil {
			pb = proto.Clone(orig)
		}
		cp := orig.Copy()
		if (cp == nil) != (orig == nil) {
			return ev.Failf("Copy nil-ness differs: orig nil=%v copy nil=%v", orig == nil, cp == nil)
		}
		if got := canonNRI(cp, true, false); got != snap {
			return ev.Failf("Copy differs from original:\norig: %s\ncopy: %s", snap, got)
		}
		// mutate every reachable piece of the copy, one at a time and then all of them
		mutated := 0
		for i := 0; i < 24; i++ {
			k := (c.MutIdx + i) % 24
			if mutateNRI(cp, k) {
				mutated++
				if got := canonNRI(orig, true, false); got != snap {
					return ev.Failf("mutating the copy (mutator %d) changed the original:\nbefore: %s\nafter:  %s", k, snap, got)
				}
			}
		}
		if orig != nil && !proto.Equal(pb, orig) {
			return ev.Failf("original changed after mutating the copy")
		}
		// and the other direction: mutate the original, a fresh copy taken before must not move
		cp2 := orig.Copy()
		snap2 := canonNRI(cp2, true, false)
		for i := 0; i < 24; i++ {
			if mutateNRI(orig, i) {
				if got := canonNRI(cp2, true, false); got != snap2 {
					return ev.Failf("mutating the original (mutator %d) changed an earlier copy:\nbefore: %s\nafter:  %s", i, snap2, got)
				}
			}
		}
		o.NonTrivial = mutated >= 3 && hasZeroOrEmptyNRI(cp2)
		o.Classes = append(o.Classes, fmt.Sprintf("copy_mutations:%d", min(mutated/4*4, 20)))
	case "mount":
		nm := api.FromOCIMounts(c.Mounts)
		if len(nm) != len(c.Mounts) {
			return ev.Failf("FromOCIMounts: %d in, %d out", len(c.Mounts), len(nm))
		}
		for i, m := range nm {
			var q string
			var qp *string
			if c.Query {
				qp = &q
			}
			back := m.ToOCI(qp)
			in := c.Mounts[i]
			if back.Destination != in.Destination || back.Type != in.Type || back.Source != in.Source || !sliceEq(back.Options, in.Options) {
				return ev.Failf("mount %d round trip: in %+v out %+v", i, in, back)
			}
			if c.Query {
				want := ""
				for _, op := range in.Options {
					if op == "rprivate" || op == "rshared" || op == "rslave" {
						want = op
					}
				}
				if q != want {
					return ev.Failf("mount %d propagation query: got %q want %q (options %v)", i, q, want, in.Options)
				}
			}
			if in.Options != nil && len(in.Options) == 0 {
				o.NonTrivial = true
			}
		}
		if len(c.Mounts) >= 2 {
			o.NonTrivial = true
		}
	case "device":
		nd := api.FromOCILinuxDevices(c.Devices)
		if len(nd) != len(c.Devices) {
			return ev.Failf("FromOCILinuxDevices: %d in, %d out", len(c.Devices), len(nd))
		}
		for i, d := range nd {
			back := d.ToOCI()
			in := c.Devices[i]
			if back.Path != in.Path || back.Type != in.Type || back.Major != in.Major || back.Minor != in.Minor ||
				!ptrEq(back.FileMode, in.FileMode) || !ptrEq(back.UID, in.UID) || !ptrEq(back.GID, in.GID) {
				return ev.Failf("device %d round trip: in %s out %s", i, jsonStr(in), jsonStr(back))
			}
			if (in.FileMode != nil && *in.FileMode == 0) || (in.UID != nil && *in.UID == 0) || (in.GID != nil && *in.GID == 0) ||
				in.FileMode == nil || in.UID == nil {
				o.NonTrivial = true
			}
		}
	case "hook":
		nh := api.FromOCIHooks(c.Hooks)
		if (nh == nil) != (c.Hooks == nil) {
			return ev.Failf("FromOCIHooks nil-ness: in nil=%v out nil=%v", c.Hooks == nil, nh == nil)
		}
		if c.Hooks != nil {
			pairs := []struct {
				name string
				in   []rspec.Hook
				out  []*api.Hook
			}{
				{"prestart", c.Hooks.Prestart, nh.Prestart}, {"createRuntime", c.Hooks.CreateRuntime, nh.CreateRuntime},
				{"createContainer", c.Hooks.CreateContainer, nh.CreateContainer}, {"startContainer", c.Hooks.StartContainer, nh.StartContainer},
				{"poststart", c.Hooks.Poststart, nh.Poststart}, {"poststop", c.Hooks.Poststop, nh.Poststop},
			}
			for _, p := range pairs {
				if len(p.in) != len(p.out) {
					return ev.Failf("hooks %s: %d in, %d out", p.name, len(p.in), len(p.out))
				}
				for i := range p.in {
					back := p.out[i].ToOCI()
					in := p.in[i]
					if back.Path != in.Path || !sliceEq(back.Args, in.Args) || !sliceEq(back.Env, in.Env) || !ptrEq(back.Timeout, in.Timeout) {
						return ev.Failf("hook %s[%d] round trip: in %s out %s", p.name, i, jsonStr(in), jsonStr(back))
					}
					if in.Timeout == nil || *in.Timeout == 0 {
						o.NonTrivial = true
					}
					// independence of the converted copy
					if len(in.Args) > 0 {
						p.out[i].Args[0] += "~"
						if in.Args[0] == p.out[i].Args[0] {
							return ev.Failf("hook %s[%d]: converted args alias the OCI slice", p.name, i)
						}
					}
				}
			}
		}
	case "env":
		var env []string
		if c.Env != nil {
			env = []string{}
		}
		for _, q := range c.Env {
			if u, err := strconv.Unquote(q); err == nil {
				env = append(env, u)
			} else {
				env = append(env, q) // cases saved before entries were quoted
			}
		}
		kv := api.FromOCIEnv(env)
		if (kv == nil) != (env == nil) {
			return ev.Failf("FromOCIEnv nil-ness: in nil=%v out nil=%v", env == nil, kv == nil)
		}
		if len(kv) != len(env) {
			return ev.Failf("FromOCIEnv: %d in, %d out", len(env), len(kv))
		}
		for i, e := range kv {
			if !strings.Contains(env[i], "=") {
				// a bare name carries a name and no value (ToOCI writes it back as "name=")
				o.Classes = append(o.Classes, "env:bare_name")
				if i > 0 {
					o.NonTrivial = true
				}
				if e.Key != env[i] || e.Value != "" {
					return ev.Failf("env %d: bare entry %q -> key %q value %q (entries before it: %q)", i, env[i], e.Key, e.Value, env[:i])
				}
				continue
			}
			if got := e.ToOCI(); got != env[i] {
				return ev.Failf("env %d round trip: in %q out %q", i, env[i], got)
			}
			k, v, _ := strings.Cut(env[i], "=")
			if e.Key != k || e.Value != v {
				return ev.Failf("env %d split: %q -> key %q value %q", i, env[i], e.Key, e.Value)
			}
			// and the other direction: NRI -> OCI -> NRI
			if back := api.FromOCIEnv([]string{(&api.KeyValue{Key: k, Value: v}).ToOCI()}); len(back) != 1 || back[0].Key != k || back[0].Value != v {
				return ev.Failf("env %d NRI->OCI->NRI: key %q value %q came back as %v", i, k, v, back)
			}
			if v == "" || strings.Contains(v, "=") || !utf8.ValidString(env[i]) {
				o.NonTrivial = true
			}
			if !utf8.ValidString(env[i]) {
				o.Classes = append(o.Classes, "env:not_utf8")
			}
		}
	case "ns":
		nn := api.FromOCILinuxNamespaces(c.NS)
		if len(nn) != len(c.NS) {
			return ev.Failf("FromOCILinuxNamespaces: %d in, %d out", len(c.NS), len(nn))
		}
		for i, n := range nn {
			if n.Type != string(c.NS[i].Type) || n.Path != c.NS[i].Path {
				return ev.Failf("namespace %d: in %+v out %+v", i, c.NS[i], n)
			}
		}
		o.NonTrivial = len(c.NS) >= 2
	case "opt":
		if msg := checkOptional(c); msg != "" {
			return ev.Failf("%s", msg)
		}
		o.NonTrivial = strings.Contains(c.OptForm, "nil") || c.I == 0 || c.U == 0 || !c.B || c.S == ""
		o.Classes = append(o.Classes, "opt:"+c.OptKind+"/"+c.OptForm)
	case "marker":
		k := c.S
		m := api.MarkForRemoval(k)
		if got := api.ClearRemovalMarker(m); got != k {
			return ev.Failf("ClearRemovalMarker(MarkForRemoval(%q)) = %q", k, got)
		}
		key, marked := api.IsMarkedForRemoval(m)
		if !marked || key != k {
			return ev.Failf("IsMarkedForRemoval(MarkForRemoval(%q)) = %q,%v", k, key, marked)
		}
		key, marked = api.IsMarkedForRemoval(k)
		wantMarked := strings.HasPrefix(k, "-")
		wantKey := strings.TrimPrefix(k, "-")
		if marked != wantMarked || key != wantKey {
			return ev.Failf("IsMarkedForRemoval(%q) = %q,%v want %q,%v", k, key, marked, wantKey, wantMarked)
		}
		for name, f := range map[string]func(string) (string, bool){
			"KeyValue":    func(s string) (string, bool) { return (&api.KeyValue{Key: s}).IsMarkedForRemoval() },
			"Mount":       func(s string) (string, bool) { return (&api.Mount{Destination: s}).IsMarkedForRemoval() },
			"LinuxDevice": func(s string) (string, bool) { return (&api.LinuxDevice{Path: s}).IsMarkedForRemoval() },
		} {
			if gk, gm := f(k); gk != wantKey || gm != wantMarked {
				return ev.Failf("%s.IsMarkedForRemoval(%q) = %q,%v want %q,%v", name, k, gk, gm, wantKey, wantMarked)
			}
		}
		o.NonTrivial = k == "" || wantMarked
	case "mask_roundtrip", "mask_roundtrip_after_other_calls", "mask_roundtrip_concurrent":
		// replays of the exhaustive sweep's cases
		for _, s := range c.Strs {
			maskInterfere(s)
		}
		check := func(m int32) string {
			mask := api.EventMask(m)
			s := mask.PrettyString()
			var back api.EventMask
			var err error
			if s == "" {
				back, err = api.ParseEventMask()
			} else {
				back, err = api.ParseEventMask(s)
			}
			if err != nil || back != mask {
				return fmt.Sprintf("ParseEventMask(PrettyString(%#x)=%q) = %#x, %v", m, s, int32(back), err)
			}
			return ""
		}
		if c.Kind != "mask_roundtrip_concurrent" {
			if d := check(c.Mask); d != "" {
				return ev.Failf("%s", d)
			}
			o.NonTrivial = c.Mask != 0
			break
		}
		var mu sync.Mutex
		first := ""
		var wg sync.WaitGroup
		for w := 0; w < 8; w++ {
			w := w
			wg.Add(1)
			go func() {
				defer wg.Done()
				for round := 0; round < 8; round++ {
					for m := int32(1 + w); m <= int32(api.ValidEvents); m += 8 {
						if d := check(m); d != "" {
							mu.Lock()
							if first == "" {
								first = d
							}
							mu.Unlock()
							return
						}
					}
				}
			}()
		}
		wg.Wait()
		if first != "" {
			return ev.Failf("while 8 goroutines print and parse masks concurrently: %s", first)
		}
		o.NonTrivial = true
	case "mask_history":
		for _, s := range c.Strs {
			maskInterfere(s)
		}
		mask := api.EventMask(c.Mask)
		s := mask.PrettyString()
		back, err := api.ParseEventMask(s)
		if err != nil || back != mask {
			return ev.Failf("after %q: ParseEventMask(PrettyString(%#x)=%q) = %#x, %v", c.Strs, c.Mask, s, int32(back), err)
		}
		o.NonTrivial = true
	case "maskops":
		m := api.EventMask(c.Mask)
		ref := uint32(c.Mask)
		evs := make([]api.Event, 0, len(c.Events))
		for _, e := range c.Events {
			evs = append(evs, api.Event(e))
		}
		m.Set(evs...)
		for _, e := range c.Events {
			ref |= 1 << (uint(e) - 1)
		}
		if uint32(m) != ref {
			return ev.Failf("Set(%v) on %#x: got %#x want %#x", c.Events, c.Mask, uint32(m), ref)
		}
		for e := api.Event(1); e <= api.Event_LAST; e++ {
			if m.IsSet(e) != (ref&(1<<(uint(e)-1)) != 0) {
				return ev.Failf("IsSet(%d) on %#x wrong", e, ref)
			}
		}
		if len(evs) > 0 {
			m.Clear(evs[0])
			ref &^= 1 << (uint(evs[0]) - 1)
			if uint32(m) != ref {
				return ev.Failf("Clear(%v): got %#x want %#x", evs[0], uint32(m), ref)
			}
		}
		o.NonTrivial = len(evs) >= 2
	}
	return o
}

func sliceEq(a, b []string) bool {
	if len(a) != len(b) {
		return false
	}
	for i := range a {
		if a[i] != b[i] {
			return false
		}
	}
	return true
}

func ptrEq[T comparable](a, b *T) bool {
	if a == nil || b == nil {
		return a == nil && b == nil
	}
	return *a == *b
}

func jsonStr(v any) string { b, _ := json.Marshal(v); return string(b) }

// checkOptional exercises one optional constructor with one argument form.
// "alt" forms are the additional argument types a constructor accepts (same kind; for
// cross-sign arguments only values both types can hold are used).
func checkOptional(c C14Case) string {
	isNil := func(v any) bool { return v == nil || reflect.ValueOf(v).IsNil() }
	bad := func(what string, got, want any) string {
		return fmt.Sprintf("%s(%s): got %v want %v", c.OptKind, what, got, want)
	}
	switch c.OptKind {
	case "String":
		v := c.S
		var r *api.OptionalString
		wantNil := false
		switch c.OptForm {
		case "value", "alt":
			r = api.String(v)
		case "ptr", "altptr":
			r = api.String(&v)
		case "nilptr", "altnilptr":
			r, wantNil = api.String((*string)(nil)), true
		case "wrapper":
			r = api.String(&api.OptionalString{Value: v})
		case "nilwrapper":
			r, wantNil = api.String((*api.OptionalString)(nil)), true
		}
		if wantNil {
			if !isNil(r) || r.Get() != nil {
				return bad(c.OptForm, r, "nil")
			}
			return ""
		}
		if r == nil || r.Value != v || r.Get() == nil || *r.Get() != v {
			return bad(c.OptForm, r, v)
		}
	case "Int":
		v := int(c.I)
		var r *api.OptionalInt
		wantNil := false
		switch c.OptForm {
		case "value", "alt":
			r = api.Int(v)
		case "ptr", "altptr":
			r = api.Int(&v)
		case "nilptr", "altnilptr":
			r, wantNil = api.Int((*int)(nil)), true
		case "wrapper":
			r = api.Int(&api.OptionalInt{Value: int64(v)})
		case "nilwrapper":
			r, wantNil = api.Int((*api.OptionalInt)(nil)), true
		}
		if wantNil {
			if !isNil(r) || r.Get() != nil {
				return bad(c.OptForm, r, "nil")
			}
			return ""
		}
		if r == nil || r.Value != int64(v) || r.Get() == nil || *r.Get() != v {
			return bad(c.OptForm, r, v)
		}
	case "Int32":
		v := int32(c.I)
		var r *api.OptionalInt32
		wantNil := false
		switch c.OptForm {
		case "value", "alt":
			r = api.Int32(v)
		case "ptr", "altptr":
			r = api.Int32(&v)
		case "nilptr", "altnilptr":
			r, wantNil = api.Int32((*int32)(nil)), true
		case "wrapper":
			r = api.Int32(&api.OptionalInt32{Value: v})
		case "nilwrapper":
			r, wantNil = api.Int32((*api.OptionalInt32)(nil)), true
		}
		if wantNil {
			if !isNil(r) || r.Get() != nil {
				return bad(c.OptForm, r, "nil")
			}
			return ""
		}
		if r == nil || r.Value != v || r.Get() == nil || *r.Get() != v {
			return bad(c.OptForm, r, v)
		}
	case "UInt32":
		v := uint32(c.U)
		var r *api.OptionalUInt32
		wantNil := false
		switch c.OptForm {
		case "value", "alt":
			r = api.UInt32(v)
		case "ptr", "altptr":
			r = api.UInt32(&v)
		case "nilptr", "altnilptr":
			r, wantNil = api.UInt32((*uint32)(nil)), true
		case "wrapper":
			r = api.UInt32(&api.OptionalUInt32{Value: v})
		case "nilwrapper":
			r, wantNil = api.UInt32((*api.OptionalUInt32)(nil)), true
		}
		if wantNil {
			if !isNil(r) || r.Get() != nil {
				return bad(c.OptForm, r, "nil")
			}
			return ""
		}
		if r == nil || r.Value != v || r.Get() == nil || *r.Get() != v {
			return bad(c.OptForm, r, v)
		}
	case "Int64":
		v := c.I
		var r *api.OptionalInt64
		wantNil := false
		switch c.OptForm {
		case "value":
			r = api.Int64(v)
		case "ptr":
			r = api.Int64(&v)
		case "nilptr":
			r, wantNil = api.Int64((*int64)(nil)), true
		case "wrapper":
			r = api.Int64(&api.OptionalInt64{Value: v})
		case "nilwrapper":
			r, wantNil = api.Int64((*api.OptionalInt64)(nil)), true
		case "alt": // int, and unsigned types for values both can hold
			if v >= 0 {
				switch c.U % 3 {
				case 0:
					r = api.Int64(uint64(v))
				case 1:
					r = api.Int64(uint(v))
				default:
					r = api.Int64(int(v))
				}
			} else {
				r = api.Int64(int(v))
			}
		case "altptr":
			if v < 0 {
				v = -(v + 1) // a value uint64 can hold too
			}
			u := uint64(v)
			r = api.Int64(&u)
		case "altnilptr":
			r, wantNil = api.Int64((*uint64)(nil)), true
		}
		if wantNil {
			if !isNil(r) || r.Get() != nil {
				return bad(c.OptForm, r, "nil")
			}
			return ""
		}
		if r == nil || r.Value != v || r.Get() == nil || *r.Get() != v {
			return bad(c.OptForm, r, v)
		}
	case "UInt64":
		v := c.U
		var r *api.OptionalUInt64
		wantNil := false
		switch c.OptForm {
		case "value":
			r = api.UInt64(v)
		case "ptr":
			r = api.UInt64(&v)
		case "nilptr":
			r, wantNil = api.UInt64((*uint64)(nil)), true
		case "wrapper":
			r = api.UInt64(&api.OptionalUInt64{Value: v})
		case "nilwrapper":
			r, wantNil = api.UInt64((*api.OptionalUInt64)(nil)), true
		case "alt":
			if v > math.MaxInt64 {
				v &= math.MaxInt64
			}
			switch c.I & 3 {
			case 0:
				r = api.UInt64(int64(v))
			case 1:
				r = api.UInt64(int(v))
			default:
				r = api.UInt64(uint(v))
			}
		case "altptr":
			if v > math.MaxInt64 {
				v &= math.MaxInt64
			}
			i := int64(v)
			r = api.UInt64(&i)
		case "altnilptr":
			r, wantNil = api.UInt64((*int64)(nil)), true
		}
		if wantNil {
			if !isNil(r) || r.Get() != nil {
				return bad(c.OptForm, r, "nil")
			}
			return ""
		}
		if r == nil || r.Value != v || r.Get() == nil || *r.Get() != v {
			return bad(c.OptForm, r, v)
		}
	case "Bool":
		v := c.B
		var r *api.OptionalBool
		wantNil := false
		switch c.OptForm {
		case "value", "alt":
			r = api.Bool(v)
		case "ptr", "altptr":
			r = api.Bool(&v)
		case "nilptr", "altnilptr":
			r, wantNil = api.Bool((*bool)(nil)), true
		case "wrapper":
			r = api.Bool(&api.OptionalBool{Value: v})
		case "nilwrapper":
			r, wantNil = api.Bool((*api.OptionalBool)(nil)), true
		}
		if wantNil {
			if !isNil(r) || r.Get() != nil {
				return bad(c.OptForm, r, "nil")
			}
			return ""
		}
		if r == nil || r.Value != v || r.Get() == nil || *r.Get() != v {
			return bad(c.OptForm, r, v)
		}
	case "FileMode":
		v := os.FileMode(uint32(c.U))
		var r *api.OptionalFileMode
		wantNil := false
		switch c.OptForm {
		case "value":
			r = api.FileMode(v)
		case "ptr", "altptr":
			r = api.FileMode(&v)
		case "nilptr", "altnilptr":
			r, wantNil = api.FileMode((*os.FileMode)(nil)), true
		case "wrapper":
			r = api.FileMode(&api.OptionalFileMode{Value: uint32(v)})
		case "nilwrapper":
			r, wantNil = api.FileMode((*api.OptionalFileMode)(nil)), true
		case "alt":
			r = api.FileMode(uint32(v))
		}
		if wantNil {
			if !isNil(r) || r.Get() != nil {
				return bad(c.OptForm, r, "nil")
			}
			return ""
		}
		if r == nil || r.Value != uint32(v) || r.Get() == nil || *r.Get() != v {
			return bad(c.OptForm, r, v)
		}
	}
	return ""
}

func TestProp_C14(t *testing.T) {
	ev.Get("C14").NoJournal()
	ev.Run(t, "C14", genC14, runC14)
}

// maskInterference: other calls into the mask printer / parser pair that a process may have
// made before a mask is printed and parsed back. "!" + text = ParseEventMask(text) (most of
// them fail), "!!" + text = MustParseEventMask(text) with the panic recovered, "#" + number =
// PrettyString of that (partly invalid) mask.
var maskInterference = []string{
	"!nosuchevent", "!RunPodSandbox,bogus", "!", "! ", "!,", "!ALL", "!all,bogus", "!pod", "!container,podsandbox",
	"!CREATECONTAINER", "! createcontainer , stopcontainer ", "!unknown(0x2000)", "!RunPodSandbox;StopPodSandbox",
	"!!bogus", "!!pod", "#-1", "#8192", "#1073741824", "#8191", "#0", "#-2147483648",
}

func maskInterfere(s string) {
	switch {
	case strings.HasPrefix(s, "!!"):
		func() {
			defer func() { _ = recover() }()
			api.MustParseEventMask(s[2:])
		}()
	case strings.HasPrefix(s, "!"):
		_, _ = api.ParseEventMask(s[1:])
	case strings.HasPrefix(s, "#"):
		n, _ := strconv.ParseInt(s[1:], 10, 64)
		m := api.EventMask(int32(n))
		_ = m.PrettyString()
	}
}

// TestExh_C14 enumerates all 8191 valid event masks (and the empty one):
// ParseEventMask(PrettyString(m)) == m - in a process that has used the pair for nothing
// else yet, and again after every call of maskInterference has been made.
func TestExh_C14(t *testing.T) {
	r := ev.Get("C14")
	r.NoJournal()
	defer r.Flush()
	n := 0
	for pass := 0; pass < 2; pass++ {
		if pass == 1 {
			for _, s := range maskInterference {
				maskInterfere(s)
			}
		}
		for m := int32(0); m <= int32(api.ValidEvents); m++ {
			mask := api.EventMask(m)
			s := mask.PrettyString()
			var back api.EventMask
			var err error
			if s == "" {
				back, err = api.ParseEventMask()
			} else {
				back, err = api.ParseEventMask(s)
			}
			c := C14Case{Kind: "mask_roundtrip", Mask: m, S: s}
			o := ev.Outcome{Classes: []string{"kind:mask_roundtrip"}, NonTrivial: m != 0}
			if pass == 1 {
				c.Kind, c.Strs = "mask_roundtrip_after_other_calls", maskInterference
				o.Classes = []string{"kind:mask_roundtrip_after_other_calls"}
			}
			if err != nil || back != mask {
				o = ev.Failf("ParseEventMask(PrettyString(%#x)=%q) = %#x, %v", m, s, int32(back), err)
			}
			// the comma-split and the multi-argument forms must agree
			if o.Fail == "" && s != "" {
				b2, err2 := api.ParseEventMask(strings.Split(s, ",")...)
				if err2 != nil || b2 != mask {
					o = ev.Failf("ParseEventMask(split %q) = %#x, %v", s, int32(b2), err2)
				}
			}
			r.Record(c, o)
			if o.Fail != "" {
				t.Fatalf("C14: %s", o.Fail)
			}
			n++
		}
	}
	// third pass: the printer / parser pair used from several goroutines at once (plugins and
	// stubs of one process print their subscriptions concurrently): every goroutine
	// round-trips its own share of the masks while the others do the same
	const workers = 8
	type bad struct {
		m    int32
		s    string
		back api.EventMask
		err  error
	}
	found := make([]*bad, workers)
	var wg sync.WaitGroup
	for w := 0; w < workers; w++ {
		w := w
		wg.Add(1)
		go func() {
			defer wg.Done()
			for round := 0; round < 4 && found[w] == nil; round++ {
				for m := int32(1 + w); m <= int32(api.ValidEvents); m += workers {
					mask := api.EventMask(m)
					s := mask.PrettyString()
					back, err := api.ParseEventMask(s)
					if err != nil || back != mask {
						found[w] = &bad{m, s, back, err}
						break
					}
				}
			}
		}()
	}
	wg.Wait()
	for w := 0; w < workers; w++ {
		c := C14Case{Kind: "mask_roundtrip_concurrent", Mask: int32(1 + w)}
		o := ev.Outcome{Classes: []string{"kind:mask_roundtrip_concurrent"}, NonTrivial: true}
		if b := found[w]; b != nil {
			c.Mask, c.S = b.m, b.s
			o = ev.Failf("while %d goroutines print and parse masks concurrently: ParseEventMask(PrettyString(%#x)=%q) = %#x, %v", workers, b.m, b.s, int32(b.back), b.err)
		}
		r.Record(c, o)
		if o.Fail != "" {
			t.Fatalf("C14: %s", o.Fail)
		}
	}
	r.SetExtra("exhaustive_masks", n)
	r.SetExtra("exhaustive", false) // only the mask sub-domain is exhaustive
	r.SetExtra("exhaustive_subdomain", "all 8192 event masks 0..0x1fff: ParseEventMask(PrettyString(m)) == m")
}
