package codec

// C12 — value class "domain words": strings taken from the domain the protocol messages
// describe (rlimit names, namespace and device types, mount options, hugepage sizes,
// cgroup file names, cpuset lists, booleans/numbers as text, names of the API's enums and
// RPCs, well-known annotation keys, paths, environment entries), each in several
// spellings. A codec that "helpfully" canonicalises such a word in an ordinary string field
// changes the message; random strings practically never hit these words.
// Sources: the protobuf descriptors (enum values, RPC, message and field names — harvested
// at run time) and literals of pkg/api, the sample plugins and the test suite of the
// repository (collected by hand when this file was written).

import (
	"hash/fnv"
	"strings"
	"sync"

	"github.com/containerd/nri/pkg/api"
	"google.golang.org/protobuf/reflect/protoreflect"
)

type c12WordGroup struct {
	name   string
	hints  []string // substrings of a (lower-cased) field full name this group belongs to
	prefix string   // conventional prefix of the words, if any
	words  []string
	raw    bool // no spelling variants (case and blanks matter little / would be noise)
}

var c12WordGroups = []c12WordGroup{
	{name: "rlimit", hints: []string{"rlimit"}, prefix: "RLIMIT_", words: []string{"AS", "CORE", "CPU", "DATA", "FSIZE", "LOCKS", "MEMLOCK", "MSGQUEUE", "NICE", "NOFILE", "NPROC", "RSS", "RTPRIO", "RTTIME", "SIGPENDING", "STACK"}},
	{name: "namespace", hints: []string{"namespace"}, prefix: "CLONE_NEW", words: []string{"pid", "network", "net", "mount", "mnt", "ipc", "uts", "user", "cgroup", "time"}},
	{name: "device", hints: []string{"device"}, words: []string{"c", "b", "u", "p", "char", "block", "a", "rwm", "r", "w", "m"}},
	{name: "mount", hints: []string{"mount"}, words: []string{"bind", "rbind", "ro", "rw", "tmpfs", "proc", "sysfs", "nosuid", "noexec", "nodev", "rprivate", "rshared", "rslave", "private", "shared", "slave", "relabel", "z"}},
	{name: "hugepage", hints: []string{"hugepage", "page_size"}, prefix: "hugepages-", words: []string{"2MB", "2Mi", "1GB", "1Gi", "64KB", "2M", "1G"}},
	{name: "cgroupfile", hints: []string{"unified"}, raw: true, words: []string{"memory.max", "memory.high", "memory.min", "memory.swap.max", "cpu.max", "cpu.weight", "pids.max", "cpuset.cpus", "cpuset.mems", "io.max", "hugetlb.2MB.max", "max", "100000 100000"}},
	{name: "cpuset", hints: []string{"cpus", "mems"}, raw: true, words: []string{"0-3", "0,2,4", "0-1,8-9", "0", "0-", "3-0", " 0-3", "0-3\n"}},
	{name: "textvalue", hints: []string{"value", "class", "reason", "config"}, words: []string{"true", "false", "yes", "no", "on", "off", "0", "1", "-1", "max", "unlimited", "infinity", "null", "nil", "none", "BestEffort", "Burstable", "Guaranteed"}},
	{name: "annotation", hints: []string{"annotation", "label"}, raw: true, words: []string{
		"io.kubernetes.cri.container-name", "io.kubernetes.cri.container-type", "io.kubernetes.cri.sandbox-id", "io.kubernetes.cri.sandbox-name",
		"io.kubernetes.container.name", "io.kubernetes.pod.name", "io.kubernetes.pod.namespace", "io.kubernetes.pod.uid",
		"kubectl.kubernetes.io/last-applied-configuration", "mounts.nri.io", "mounts.nri.io/container.ctr0", "devices.nri.io", "devices.nri.io/container.ctr0",
		"cdi-devices.nri.io", "cdi-devices.nri.io/container.ctr0", "cdi.k8s.io/vendor_class", "vendor.com/device=gpu0", "-io.kubernetes.pod.name"}},
	{name: "path", hints: []string{"path", "source", "destination", "cgroup", "parent"}, raw: true, words: []string{"/", "/dev/null", "/dev/zero", "/dev/test", "/dev/", "/proc/self/ns/net", "/sys/fs/cgroup", "/var/run/nri/nri.sock", "/etc/nri/conf.d", "/bin/00-test", "//dev//null", "/dev/null/", "dev/null", "/dev/../dev/null", "kubepods.slice:cri-containerd:ctr0"}},
	{name: "env", hints: []string{"env", "args"}, raw: true, words: []string{"PATH=/usr/bin", "HOME=", "KEY=a=b", "=x", "NOVALUE", "NRI_PLUGIN_SOCKET=3", "NRI_PLUGIN_NAME=test", "NRI_PLUGIN_IDX=00", "-PATH", "/bin/sh", "-c", "sleep inf"}},
	{name: "plugin", hints: []string{"plugin", "runtime", "handler", "idx", "name", "version"}, raw: true, words: []string{"00", "99", "0", "a0", "100", "containerd", "cri-o", "runc", "v1.7.0", "1.0", "00-test", "logger"}},
}

var (
	c12WordOnce  sync.Once
	c12WordPool  []string            // everything, deduplicated, in a fixed order
	c12WordByGrp map[string][]string // per group: all spellings
	c12WordSet   map[string]bool
)

func c12Title(s string) string {
	if s == "" {
		return s
	}
	return strings.ToUpper(s[:1]) + strings.ToLower(s[1:])
}

// c12Spellings: lower, UPPER, Mixed, with / without the conventional prefix (in the same
// three cases), and with surrounding blanks.
func c12Spellings(w, prefix string) []string {
	out := []string{strings.ToLower(w), strings.ToUpper(w), c12Title(w), w}
	if prefix != "" {
		out = append(out, prefix+strings.ToUpper(w), strings.ToLower(prefix+w), c12Title(prefix)+c12Title(w), prefix+w, strings.ToUpper(prefix)+strings.ToLower(w))
	}
	canon := out[0]
	if prefix != "" {
		canon = prefix + strings.ToUpper(w)
	}
	return append(out, " "+out[0], out[0]+" ", canon+"\n", "\t"+canon)
}

func c12WordsInit() {
	c12WordOnce.Do(func() {
		c12WordByGrp = map[string][]string{}
		c12WordSet = map[string]bool{}
		add := func(g, w string) {
			if w == "" {
				return
			}
			for _, have := range c12WordByGrp[g] {
				if have == w {
					return
				}
			}
			c12WordByGrp[g] = append(c12WordByGrp[g], w)
			if !c12WordSet[w] {
				c12WordSet[w] = true
				c12WordPool = append(c12WordPool, w)
			}
		}
		for _, g := range c12WordGroups {
			for _, w := range g.words {
				if g.raw {
					add(g.name, w)
					continue
				}
				for _, s := range c12Spellings(w, g.prefix) {
					add(g.name, s)
				}
			}
		}
		// harvested from the descriptors: enum values (with and without their common prefix),
		// RPC names, message names, field names
		fd := api.File_pkg_api_api_proto
		enums := fd.Enums()
		for i := 0; i < enums.Len(); i++ {
			vals := enums.Get(i).Values()
			for j := 0; j < vals.Len(); j++ {
				n := string(vals.Get(j).Name())
				short := n
				if k := strings.Index(n, "_"); k > 0 && strings.HasPrefix(n, "CONTAINER_") {
					short = n[k+1:]
				}
				camel := ""
				for _, part := range strings.Split(n, "_") {
					camel += c12Title(part)
				}
				for _, s := range []string{n, strings.ToLower(n), short, strings.ToLower(short), c12Title(short), camel, " " + n} {
					add("enum", s)
				}
			}
		}
		svcs := fd.Services()
		for i := 0; i < svcs.Len(); i++ {
			ms := svcs.Get(i).Methods()
			for j := 0; j < ms.Len(); j++ {
				n := string(ms.Get(j).Name())
				add("enum", n)
				add("enum", strings.ToLower(n))
				add("enum", string(ms.Get(j).FullName()))
			}
		}
		for _, ty := range c12Types() {
			add("schema", string(ty.md.Name()))
			add("schema", string(ty.md.FullName()))
			fs := ty.md.Fields()
			for i := 0; i < fs.Len(); i++ {
				add("schema", string(fs.Get(i).Name()))
				add("schema", fs.Get(i).JSONName())
			}
		}
	})
}

var c12EnumHints = []string{"state", "event", "type", "reason", "status"}

// c12OwnWords: the spellings of the groups whose domain the field belongs to (matched by
// substrings of its full name: message, field, map-entry names), then the enum / RPC names
// for fields whose name suggests a kind or state.
func c12OwnWords(fd protoreflect.FieldDescriptor) []string {
	specific, generic := c12OwnWordsSplit(fd)
	return append(specific, generic...)
}

func c12OwnWordsSplit(fd protoreflect.FieldDescriptor) (specific, generic []string) {
	c12WordsInit()
	full := strings.ToLower(string(fd.FullName()))
	for _, g := range c12WordGroups {
		for _, h := range g.hints {
			if strings.Contains(full, h) {
				specific = append(specific, c12WordByGrp[g.name]...)
				break
			}
		}
	}
	for _, h := range c12EnumHints {
		if strings.Contains(full, h) {
			generic = append(generic, c12WordByGrp["enum"]...)
			break
		}
	}
	return specific, generic
}

// c12SweepWords: the words the sweep gives a string field: its own domain's words (all of
// them for a field of the root message, four spread over them otherwise) plus some words chosen by
// the field's name from the whole pool, so that over all fields the pool is used up.
func c12SweepWords(fd protoreflect.FieldDescriptor, top bool) []c12LV {
	c12WordsInit()
	specific, generic := c12OwnWordsSplit(fd)
	rot := 6
	if len(generic) > 40 {
		// a spread over the enum / RPC names
		var pick []string
		for i := 0; i < 40; i++ {
			pick = append(pick, generic[i*len(generic)/40])
		}
		generic = pick
	}
	// a field of the root message gets EVERY spelling of its own domain's words
	own := append(append([]string{}, specific...), generic...)
	if !top {
		rot = 2
		if len(own) > 4 {
			// a spread over the group rather than its first word's spellings
			step := len(own) / 4
			own = []string{own[0], own[step], own[2*step], own[3*step]}
		}
	}
	seen := map[string]bool{}
	var out []c12LV
	for _, w := range own {
		if !seen[w] {
			seen[w] = true
			out = append(out, c12LV{"domain word " + strings.TrimSpace(w), C12Val{S: w}})
		}
	}
	h := fnv.New32a()
	h.Write([]byte(fd.FullName()))
	start := int(h.Sum32() % uint32(len(c12WordPool)))
	for i := 0; i < rot; i++ {
		w := c12WordPool[(start+i*37)%len(c12WordPool)]
		if !seen[w] {
			seen[w] = true
			out = append(out, c12LV{"domain word " + strings.TrimSpace(w), C12Val{S: w}})
		}
	}
	return out
}
