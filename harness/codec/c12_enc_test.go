package codec

// C12 — value class "looks like an encoded message": string / bytes values that are
// themselves the wire encoding (or a textual rendering) of small messages of the schema.
// A decoder that tries to be clever about the content of a field ("this string is really a
// wrapped optional", "this looks like JSON / base64, normalise it") changes such values,
// while the other decoder returns them unchanged. The pool is derived from the descriptor.

import (
	"encoding/base64"
	"fmt"
	"hash/fnv"
	"strconv"
	"sync"
	"unicode/utf8"

	"google.golang.org/protobuf/encoding/protowire"
	"google.golang.org/protobuf/proto"
	"google.golang.org/protobuf/reflect/protoreflect"
)

type c12Enc struct {
	label string
	b     []byte
	utf8  bool // usable for proto3 string fields
}

var (
	c12EncOnce sync.Once
	c12EncPrio []c12Enc        // directed values: used by the sweep for every string field
	c12EncPool []c12Enc        // everything (priority values first)
	c12EncSet  map[string]bool // membership, for the evidence class
)

// c12SmallVal: a short value for a scalar field inside an embedded encoding.
func c12SmallVal(fd protoreflect.FieldDescriptor, alt int) C12Val {
	switch fd.Kind() {
	case protoreflect.StringKind:
		return C12Val{S: []string{"0-3", "a", "b"}[alt%3]}
	case protoreflect.BytesKind:
		return C12Val{X: []byte{byte('a' + alt%3)}}
	case protoreflect.BoolKind:
		return C12Val{B: true}
	case protoreflect.EnumKind:
		return C12Val{I: 1}
	case protoreflect.Uint32Kind, protoreflect.Fixed32Kind, protoreflect.Uint64Kind, protoreflect.Fixed64Kind, protoreflect.FloatKind, protoreflect.DoubleKind:
		return C12Val{U: uint64(5 + alt)}
	}
	return C12Val{I: int64(5 + alt)}
}

func c12EncInit() {
	c12EncOnce.Do(func() {
		c12EncSet = map[string]bool{}
		add := func(prio bool, label string, b []byte) {
			if len(b) == 0 || len(b) > 96 || c12EncSet[string(b)] {
				return
			}
			c12EncSet[string(b)] = true
			e := c12Enc{label: label, b: append([]byte(nil), b...), utf8: utf8.Valid(b)}
			if prio {
				c12EncPrio = append(c12EncPrio, e)
			}
			c12EncPool = append(c12EncPool, e)
		}
		enc := func(ty c12Type, tree *C12Msg) []byte {
			var bi c12BuildInfo
			m, err := c12Fresh(ty, tree, &bi)
			if err != nil {
				return nil
			}
			b, err := proto.MarshalOptions{Deterministic: true}.Marshal(m)
			if err != nil {
				return nil
			}
			return b
		}
		one := func(fd protoreflect.FieldDescriptor, alt int) *C12Msg {
			f := C12Fld{Num: int32(fd.Number()), Name: string(fd.Name())}
			switch {
			case fd.IsMap():
				v := C12Val{M: &C12Msg{}}
				if fd.MapValue().Kind() != protoreflect.MessageKind {
					v = c12SmallVal(fd.MapValue(), alt)
				}
				f.KV = []C12KV{{K: c12SmallVal(fd.MapKey(), alt+1), V: v}}
			case fd.IsList():
				if fd.Kind() == protoreflect.MessageKind {
					f.L = []C12Val{{M: &C12Msg{}}}
				} else {
					f.L = []C12Val{c12SmallVal(fd, alt)}
				}
			case fd.Kind() == protoreflect.MessageKind:
				f.V = &C12Val{M: &C12Msg{}}
			default:
				v := c12SmallVal(fd, alt)
				f.V = &v
			}
			return &C12Msg{F: []C12Fld{f}}
		}
		types := c12Types()
		// 1. priority: the "optional value" wrappers and the smallest multi-string message
		for pass := 0; pass < 2; pass++ {
			for _, ty := range types {
				wrapper := c12IsWrapper(ty.md)
				if (pass == 0) != wrapper {
					continue
				}
				fs := ty.md.Fields()
				if !wrapper && !(fs.Len() == 2 && fs.Get(0).Kind() == protoreflect.StringKind && fs.Get(1).Kind() == protoreflect.StringKind) {
					continue
				}
				n := string(ty.md.Name())
				fd := fs.Get(0)
				e0, e1 := enc(ty, one(fd, 0)), enc(ty, one(fd, 1))
				if !wrapper {
					e0 = enc(ty, c12Full(ty.md, 0, 0))
				}
				add(true, n+" encoded", e0)
				// the field written explicitly although it holds the zero value (legal wire data)
				explicit := protowire.AppendTag(nil, fd.Number(), protowire.BytesType)
				if fd.Kind() != protoreflect.StringKind && fd.Kind() != protoreflect.BytesKind {
					explicit = protowire.AppendTag(nil, fd.Number(), protowire.VarintType)
				}
				add(true, n+" with explicit zero", append(explicit, 0))
				add(true, "two "+n+" concatenated", append(append([]byte(nil), e1...), enc(ty, one(fd, 2))...))
				if len(e0) > 1 {
					add(true, n+" truncated", e0[:len(e0)-1])
				}
				add(true, n+" plus a stray byte", append(append([]byte(nil), e0...), 'x'))
				add(true, n+" plus a stray NUL", append(append([]byte(nil), e0...), 0))
				if pass == 0 && fd.Kind() == protoreflect.StringKind {
					// textual renderings code might want to "normalise"
					// (written by hand: protojson / prototext insert whitespace that differs per build)
					add(true, n+" as JSON", []byte(fmt.Sprintf(`{"%s":"0-3"}`, fd.JSONName())))
					add(true, n+" as text", []byte(fmt.Sprintf(`%s:"0-3"`, fd.Name())))
					add(true, n+" as base64", []byte(base64.StdEncoding.EncodeToString(e0)))
					add(true, n+" as url-base64", []byte(base64.RawURLEncoding.EncodeToString(e0)))
					add(true, "quoted string", []byte(strconv.Quote("0-3")))
					add(true, "single-quoted string", []byte("'0-3'"))
					add(true, "escaped newline", []byte(`a\nb`))
					add(true, "percent-encoded", []byte("%30-3"))
					add(true, "JSON string", []byte(`{"value":"x"}`))
					add(true, "JSON null", []byte("null"))
				}
			}
		}
		// 2. the rest: every field of every message type alone with a small value, and small full messages
		for _, ty := range types {
			n := string(ty.md.Name())
			fs := ty.md.Fields()
			for i := 0; i < fs.Len(); i++ {
				fd := fs.Get(i)
				e := enc(ty, one(fd, 0))
				add(false, fmt.Sprintf("%s.%s encoded", n, fd.Name()), e)
				if len(e) > 1 && i%3 == 0 {
					add(false, fmt.Sprintf("%s.%s truncated", n, fd.Name()), e[:len(e)-1])
				}
			}
			add(false, n+" scalars encoded", enc(ty, c12Full(ty.md, 0, 0)))
		}
	})
}

// c12EncVals returns pool values usable for a field of kind fd (strings: valid UTF-8 only).
func c12EncVals(fd protoreflect.FieldDescriptor, pool []c12Enc) []c12LV {
	if len(pool) == 0 {
		return nil
	}
	key := c12EncKey{&pool[0], fd.Kind()}
	c12EncMu.Lock()
	cached, ok := c12EncCache[key]
	c12EncMu.Unlock()
	if ok {
		return cached
	}
	out := c12EncValsBuild(fd, pool)
	c12EncMu.Lock()
	c12EncCache[key] = out
	c12EncMu.Unlock()
	return out
}

type c12EncKey struct {
	pool *c12Enc
	kind protoreflect.Kind
}

var (
	c12EncMu    sync.Mutex
	c12EncCache = map[c12EncKey][]c12LV{}
)

func c12EncValsBuild(fd protoreflect.FieldDescriptor, pool []c12Enc) []c12LV {
	var out []c12LV
	for _, e := range pool {
		switch fd.Kind() {
		case protoreflect.StringKind:
			if e.utf8 {
				out = append(out, c12LV{"looks like " + e.label, C12Val{S: string(e.b)}})
			}
		case protoreflect.BytesKind:
			out = append(out, c12LV{"looks like " + e.label, C12Val{X: e.b}})
		}
	}
	return out
}

// c12EncRotating: three pool values chosen by the field's name, so that over all fields
// of the schema the whole pool is used by the sweep.
func c12EncRotating(fd protoreflect.FieldDescriptor) []c12LV {
	c12EncInit()
	all := c12EncVals(fd, c12EncPool)
	if len(all) == 0 {
		return nil
	}
	h := fnv.New32a()
	h.Write([]byte(fd.FullName()))
	start := int(h.Sum32() % uint32(len(all)))
	var out []c12LV
	for i := 0; i < 3; i++ {
		out = append(out, all[(start+i*7)%len(all)])
	}
	return out
}
