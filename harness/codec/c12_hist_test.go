package codec

// C12 — histories over one message object: build it, let the encoders/decoders touch it,
// modify it IN PLACE (so that anything a codec cached inside the object or its
// sub-messages survives), then judge it exactly like a freshly built message of the new
// value. "For every message of the plugin protocol and every field value": a message that
// was encoded before and then modified is still a message.

import (
	"fmt"

	"google.golang.org/protobuf/encoding/prototext"
	"google.golang.org/protobuf/proto"
	"google.golang.org/protobuf/reflect/protoreflect"
	"pgregory.net/rapid"

	"nriverif/ev"
)

const (
	c12OpPM     = "proto.Marshal"
	c12OpPS     = "proto.Size"
	c12OpVM     = "MarshalVT"
	c12OpVS     = "SizeVT"
	c12OpPU     = "proto.Unmarshal"
	c12OpPMerge = "proto.Merge"
	c12OpVU     = "UnmarshalVT"
	c12OpSet    = "set"
)

var (
	c12EncodeOps = []string{c12OpPM, c12OpPS, c12OpVM, c12OpVS}
	c12AllOps    = []string{c12OpPM, c12OpPS, c12OpVM, c12OpVS, c12OpPM, c12OpPS, c12OpPU, c12OpPMerge, c12OpVU}
)

// ---- in-place modification ---------------------------------------------------------------

// c12Morph modifies m in place until it has the value described by tree. It looks at the
// current state of m only through protoreflect and never replaces m itself; populated
// sub-messages, list elements and map values of message type are modified recursively,
// not replaced; lists are truncated / appended to, map keys deleted / inserted.
func c12Morph(m protoreflect.Message, tree *C12Msg, bi *c12BuildInfo) error {
	md := m.Descriptor()
	want := map[protoreflect.FieldNumber]*C12Fld{}
	for i := range tree.F {
		n := protoreflect.FieldNumber(tree.F[i].Num)
		if md.Fields().ByNumber(n) == nil {
			return fmt.Errorf("message %s has no field number %d", md.FullName(), n)
		}
		if want[n] != nil {
			return fmt.Errorf("message %s: field number %d listed twice", md.FullName(), n)
		}
		want[n] = &tree.F[i]
	}
	// unknown fields of this message: exactly those of the tree
	raw, err := c12UnknownBytes(md, tree.U)
	if err != nil {
		return err
	}
	if len(raw) > 0 || len(m.GetUnknown()) > 0 {
		m.SetUnknown(raw)
	}
	fs := md.Fields()
	for i := 0; i < fs.Len(); i++ {
		fd := fs.Get(i)
		f := want[fd.Number()]
		switch {
		case fd.IsMap():
			if f == nil || len(f.KV) == 0 {
				wantEmpty := f != nil && f.Empty
				if m.Has(fd) {
					if wantEmpty {
						mp := m.Mutable(fd).Map()
						var keys []protoreflect.MapKey
						mp.Range(func(k protoreflect.MapKey, _ protoreflect.Value) bool { keys = append(keys, k); return true })
						for _, k := range keys {
							mp.Clear(k)
						}
					} else {
						m.Clear(fd)
					}
				} else if wantEmpty && !c12SetEmptyNonNil(m, fd) {
					bi.emptyFallback++
				}
				continue
			}
			mp := m.Mutable(fd).Map()
			keep := map[any]bool{}
			type ent struct {
				k protoreflect.MapKey
				v *C12Val
			}
			var ents []ent
			for j := range f.KV {
				k, err := c12Scalar(fd.MapKey(), f.KV[j].K)
				if err != nil {
					return err
				}
				keep[k.MapKey().Interface()] = true
				ents = append(ents, ent{k.MapKey(), &f.KV[j].V})
			}
			var drop []protoreflect.MapKey
			mp.Range(func(k protoreflect.MapKey, _ protoreflect.Value) bool {
				if !keep[k.Interface()] {
					drop = append(drop, k)
				}
				return true
			})
			for _, k := range drop {
				mp.Clear(k)
			}
			for _, e := range ents {
				if fd.MapValue().Kind() == protoreflect.MessageKind {
					sub := mp.Mutable(e.k).Message() // existing value object, or a new one
					t := e.v.M
					if t == nil {
						t = &C12Msg{}
					}
					if err := c12Morph(sub, t, bi); err != nil {
						return err
					}
				} else {
					val, err := c12Scalar(fd.MapValue(), *e.v)
					if err != nil {
						return err
					}
					mp.Set(e.k, val)
				}
			}
		case fd.IsList():
			if f == nil || len(f.L) == 0 {
				wantEmpty := f != nil && f.Empty
				if m.Has(fd) {
					if wantEmpty {
						m.Mutable(fd).List().Truncate(0)
					} else {
						m.Clear(fd)
					}
				} else if wantEmpty && !c12SetEmptyNonNil(m, fd) {
					bi.emptyFallback++
				}
				continue
			}
			l := m.Mutable(fd).List()
			if l.Len() > len(f.L) {
				l.Truncate(len(f.L))
			}
			for j := range f.L {
				if fd.Kind() == protoreflect.MessageKind {
					t := f.L[j].M
					if t == nil {
						t = &C12Msg{}
					}
					if j < l.Len() {
						if err := c12Morph(l.Get(j).Message(), t, bi); err != nil { // element object kept
							return err
						}
					} else {
						val := l.NewElement()
						if err := c12Fill(val.Message(), t, bi); err != nil {
							return err
						}
						l.Append(val)
					}
				} else {
					val, err := c12Scalar(fd, f.L[j])
					if err != nil {
						return err
					}
					if j < l.Len() {
						l.Set(j, val)
					} else {
						l.Append(val)
					}
				}
			}
		case fd.Kind() == protoreflect.MessageKind:
			if f == nil || f.V == nil || f.V.M == nil {
				if m.Has(fd) {
					m.Clear(fd)
				}
				continue
			}
			// Mutable returns the existing sub-message object if there is one
			if err := c12Morph(m.Mutable(fd).Message(), f.V.M, bi); err != nil {
				return err
			}
		default:
			if f == nil {
				if m.Has(fd) {
					m.Clear(fd)
				}
				continue
			}
			var v C12Val
			if f.V != nil {
				v = *f.V
			}
			val, err := c12Scalar(fd, v)
			if err != nil {
				return err
			}
			m.Set(fd, val)
		}
	}
	return nil
}

// ---- executing a history -----------------------------------------------------------------

var c12MorphMismatch int // harness self-consistency counter (see TestProp_C12)

// c12RunHist executes c.Hist on m. It returns the tree m must now equal, a separate
// freshly built message of that value, history classes, and a non-nil Outcome if the case
// ends here (violation in a step, malformed case).
func c12RunHist(c C12Case, m proto.Message, ty c12Type, bi *c12BuildInfo) (final *C12Msg, want proto.Message, classes []string, out *ev.Outcome) {
	name := ty.md.Name()
	cur := &c.Msg // value last named: decoding steps decode a fresh encoding of it
	known := true // m is known to have the value cur
	fail := func(format string, a ...any) *ev.Outcome {
		o := ev.Failf(format, a...)
		o.History = map[string]any{"type": string(ty.md.FullName())}
		return &o
	}
	step := ""
	defer func() {
		if r := recover(); r != nil {
			out = fail("%s: panic during history step %s: %v", name, step, r)
		}
	}()
	protoEncoded, vtEncoded := false, false // since the last in-place modification / build
	staleProto, staleVT := false, false     // encoded by that codec, then modified in place
	sizeBefore, sizeAfter := -1, -1
	nset := 0
	seen := map[string]bool{}
	seenScribble := false
	for i, st := range c.Hist {
		step = fmt.Sprintf("%d (%s)", i, st.Op)
		if !seen[st.Op] {
			seen[st.Op] = true
			classes = append(classes, "step:"+st.Op)
		}
		vt, hasVT := m.(c12VT)
		switch st.Op {
		case c12OpPM:
			if _, err := proto.Marshal(m); err != nil {
				return nil, nil, nil, fail("%s: history step %s failed: %v", name, step, err)
			}
			protoEncoded = true
		case c12OpPS:
			_ = proto.Size(m)
			protoEncoded = true
		case c12OpVM:
			if hasVT {
				b, err := vt.MarshalVT()
				if err != nil {
					return nil, nil, nil, fail("%s: history step %s failed: %v", name, step, err)
				}
				if n := vt.SizeVT(); n != len(b) {
					return nil, nil, nil, fail("%s: history step %s: SizeVT() = %d but MarshalVT wrote %d bytes", name, step, n, len(b))
				}
				vtEncoded = true
			}
		case c12OpVS:
			if hasVT {
				_ = vt.SizeVT()
				vtEncoded = true
			}
		case c12OpPU, c12OpPMerge, c12OpVU:
			src, err := c12Fresh(ty, cur, bi)
			if err != nil {
				return nil, nil, nil, &ev.Outcome{Excluded: "malformed case: " + err.Error()}
			}
			b, err := proto.Marshal(src)
			if err != nil {
				return nil, nil, nil, fail("%s: history step %s: proto.Marshal of a fresh message failed: %v", name, step, err)
			}
			in := append([]byte(nil), b...)
			switch st.Op {
			case c12OpPU:
				err = proto.Unmarshal(in, m) // resets m, then decodes: m == cur
				known = true
			case c12OpPMerge:
				err = proto.UnmarshalOptions{Merge: true}.Unmarshal(in, m)
				known = false
			case c12OpVU:
				if hasVT {
					err = vt.UnmarshalVT(in) // merges into m
					known = false
				}
			}
			if err != nil {
				return nil, nil, nil, fail("%s: history step %s failed on a valid encoding: %v", name, step, err)
			}
			// input buffer independence: the object must not change when the buffer it was
			// decoded from is overwritten. Snapshot as text (reflection only: no encoder
			// touches the object here, and text formatting copies the string data).
			if len(in) > 0 {
				before := c12Snapshot(m)
				c12Invert(in) // every byte changes
				after := c12Snapshot(m)
				clear(in)
				if after != before {
					return nil, nil, nil, fail("%s: history step %s: the object changed when the input buffer was overwritten after decoding (it aliases the buffer): before {%s} after {%s}", name, step, c12Clip(before), c12Clip(after))
				}
				if st.Op == c12OpPU && !proto.Equal(m, src) {
					return nil, nil, nil, fail("%s: history step %s: decoding into the (reset) object did not give the encoded value: got {%s} want {%s}", name, step, c12Text(m), c12Text(src))
				}
			}
			// decoded objects are independent: a second message decoded from the same bytes by
			// the same decoder shares no sub-message object with the object of this history; the
			// object is then scribbled over in place (its value is no longer named: a "set" step
			// follows) and neither the second message nor a third decode may be affected
			if st.Op != c12OpVU || hasVT {
				decodeFresh := func() (proto.Message, error) {
					x := ty.mt.New().Interface()
					cp := append([]byte(nil), b...)
					if st.Op == c12OpVU {
						return x, x.(c12VT).UnmarshalVT(cp)
					}
					return x, proto.Unmarshal(cp, x)
				}
				second, err := decodeFresh()
				if err != nil {
					return nil, nil, nil, fail("%s: history step %s: decoding the same bytes into a new message failed: %v", name, step, err)
				}
				seen := map[uintptr]struct{}{}
				if c12HasSharedPointers(m.ProtoReflect(), seen) || c12HasSharedPointers(second.ProtoReflect(), seen) {
					d := map[uintptr]string{}
					desc := c12CollectPointers(m.ProtoReflect(), "object of the history", d)
					if desc == "" {
						desc = c12CollectPointers(second.ProtoReflect(), "second decode", d)
					}
					return nil, nil, nil, fail("%s: history step %s: decoded messages share a sub-message object (modifying one changes the other): %s", name, step, desc)
				}
				c12Scribble(m.ProtoReflect(), 2)
				known = false
				if !proto.Equal(second, src) {
					return nil, nil, nil, fail("%s: history step %s: a message decoded from the same bytes changed when the object of the history was modified in place: now {%s} want {%s}", name, step, c12Text(second), c12Text(src))
				}
				third, err := decodeFresh()
				if err != nil || !proto.Equal(third, src) {
					return nil, nil, nil, fail("%s: history step %s: decoding the same bytes again after the object was modified in place gives a different message: got {%s} want {%s} (err %v)", name, step, c12Text(third), c12Text(src), err)
				}
				if !seenScribble {
					seenScribble = true
					classes = append(classes, "hist:decoded_then_scribbled")
				}
			}
		case c12OpSet:
			if st.To == nil {
				return nil, nil, nil, &ev.Outcome{Excluded: "malformed case: set step without a value"}
			}
			if known {
				if old, err := c12Fresh(ty, cur, bi); err == nil {
					sizeBefore = c12RefSize(old)
				}
			}
			if err := c12Morph(m.ProtoReflect(), st.To, bi); err != nil {
				return nil, nil, nil, &ev.Outcome{Excluded: "malformed case: " + err.Error()}
			}
			cur, known = st.To, true
			nset++
			if protoEncoded {
				staleProto = true
			}
			if vtEncoded {
				staleVT = true
			}
			protoEncoded, vtEncoded = false, false
		default:
			return nil, nil, nil, &ev.Outcome{Excluded: "malformed case: unknown history step " + st.Op}
		}
		// a codec call after the modification refreshes whatever that codec caches
		if st.Op == c12OpPM || st.Op == c12OpPS {
			staleProto = false
		}
	}
	if !known {
		return nil, nil, nil, &ev.Outcome{Excluded: "malformed case: history ends with a merging decode, value of the object not named"}
	}
	want, err := c12Fresh(ty, cur, bi)
	if err != nil {
		return nil, nil, nil, &ev.Outcome{Excluded: "malformed case: " + err.Error()}
	}
	if !proto.Equal(m, want) {
		// The in-place modification is harness code working through protoreflect only; the
		// codecs under test are not involved in a comparison. Not judged, but never silent:
		// TestProp_C12 / TestExh_C12 turn a non-zero count into an inconclusive run.
		c12CountMu.Lock()
		c12MorphMismatch++
		c12CountMu.Unlock()
		return nil, nil, nil, &ev.Outcome{Excluded: "harness: in-place modification did not produce the named value", Classes: []string{"harness_morph_mismatch"}}
	}
	classes = append(classes, "hist")
	if nset > 0 {
		classes = append(classes, "hist:modified_in_place")
		sizeAfter = c12RefSize(want)
		switch {
		case sizeBefore < 0:
			classes = append(classes, "hist:size_after_merge")
		case sizeAfter > sizeBefore:
			classes = append(classes, "hist:grow")
		case sizeAfter < sizeBefore:
			classes = append(classes, "hist:shrink")
		default:
			classes = append(classes, "hist:same_size")
		}
	}
	vtFirst := c.Order == "vt-first"
	if staleProto && sizeAfter != sizeBefore {
		classes = append(classes, "hist:proto_encoded_then_resized")
		if vtFirst {
			classes = append(classes, "hist:proto_encoded_then_resized_then_vt")
		}
	}
	if staleVT && sizeAfter != sizeBefore {
		classes = append(classes, "hist:vt_encoded_then_resized")
		if !vtFirst {
			classes = append(classes, "hist:vt_encoded_then_resized_then_proto")
		}
	}
	return cur, want, classes, nil
}

// c12Snapshot renders m completely (prototext is deterministic within one process).
func c12Snapshot(m proto.Message) string {
	return prototext.MarshalOptions{Multiline: false}.Format(m)
}

func c12Clip(s string) string {
	if len(s) > 1500 {
		return s[:1500] + "…"
	}
	return s
}

// c12RefSize: encoded size of a message nobody else holds (a throw-away fresh build).
func c12RefSize(m proto.Message) int { return proto.Size(m) }

// ---- tree helpers --------------------------------------------------------------------------

func c12CopyVal(v C12Val) C12Val {
	out := v
	if v.X != nil {
		out.X = append([]byte{}, v.X...)
	}
	if v.M != nil {
		out.M = c12CopyMsg(v.M)
	}
	return out
}

func c12CopyUnks(us []C12Unk) []C12Unk {
	var out []C12Unk
	for _, u := range us {
		u.X = append([]byte(nil), u.X...)
		u.G = c12CopyUnks(u.G)
		out = append(out, u)
	}
	return out
}

func c12CopyMsg(m *C12Msg) *C12Msg {
	out := &C12Msg{}
	out.U = c12CopyUnks(m.U)
	for _, f := range m.F {
		g := C12Fld{Num: f.Num, Name: f.Name, Empty: f.Empty}
		if f.V != nil {
			v := c12CopyVal(*f.V)
			g.V = &v
		}
		for _, e := range f.L {
			g.L = append(g.L, c12CopyVal(e))
		}
		for _, kv := range f.KV {
			g.KV = append(g.KV, C12KV{K: c12CopyVal(kv.K), V: c12CopyVal(kv.V)})
		}
		out.F = append(out.F, g)
	}
	return out
}

// ---- random edits of a tree ------------------------------------------------------------------

// c12EditOnce applies one small edit somewhere in msg (a tree of type md): a field added,
// removed or changed, a list grown or shrunk, a map key inserted or deleted, at this level
// or inside a populated sub-message.
func c12EditOnce(t *rapid.T, md protoreflect.MessageDescriptor, msg *C12Msg, depth int, g c12GenCfg) {
	// sub-messages one can descend into
	type sub struct {
		md protoreflect.MessageDescriptor
		m  *C12Msg
	}
	var subs []sub
	present := map[int32]bool{}
	for i := range msg.F {
		f := &msg.F[i]
		present[f.Num] = true
		fd := md.Fields().ByNumber(protoreflect.FieldNumber(f.Num))
		if fd == nil {
			continue
		}
		switch {
		case fd.IsMap():
			if fd.MapValue().Kind() == protoreflect.MessageKind {
				for j := range f.KV {
					if f.KV[j].V.M != nil {
						subs = append(subs, sub{fd.MapValue().Message(), f.KV[j].V.M})
					}
				}
			}
		case fd.Kind() != protoreflect.MessageKind:
		case fd.IsList():
			for j := range f.L {
				if f.L[j].M == nil {
					f.L[j].M = &C12Msg{}
				}
				subs = append(subs, sub{fd.Message(), f.L[j].M})
			}
		default:
			if f.V != nil && f.V.M != nil {
				subs = append(subs, sub{fd.Message(), f.V.M})
			}
		}
	}
	var absent []protoreflect.FieldDescriptor
	for i := 0; i < md.Fields().Len(); i++ {
		fd := md.Fields().Get(i)
		isMsg := fd.Kind() == protoreflect.MessageKind || (fd.IsMap() && fd.MapValue().Kind() == protoreflect.MessageKind)
		if !present[int32(fd.Number())] && !(isMsg && depth >= g.maxDepth) {
			absent = append(absent, fd)
		}
	}
	// now and then the edit concerns the unknown fields of this message
	if c12Gen8.Draw(t, "edit-unknown") == 7 {
		if len(msg.U) > 0 && rapid.Bool().Draw(t, "drop") {
			msg.U = msg.U[:len(msg.U)-1]
		} else {
			msg.U = append(msg.U, c12GenUnknown(t, md, msg.U))
		}
		return
	}
	action := c12Gen8.Draw(t, "edit")
	// 0-2 descend, 3-4 add, 5 remove, 6-7 change; fall back when not applicable
	if action <= 2 && len(subs) > 0 {
		s := subs[rapid.IntRange(0, len(subs)-1).Draw(t, "into")]
		c12EditOnce(t, s.md, s.m, depth+1, g)
		return
	}
	if (action <= 4 || len(msg.F) == 0) && len(absent) > 0 {
		fd := absent[rapid.IntRange(0, len(absent)-1).Draw(t, "add")]
		msg.F = append(msg.F, c12GenField(t, fd, depth, g))
		return
	}
	if len(msg.F) == 0 {
		return // a message type without fields
	}
	idx := rapid.IntRange(0, len(msg.F)-1).Draw(t, "field")
	if action == 5 {
		msg.F = append(msg.F[:idx:idx], msg.F[idx+1:]...)
		return
	}
	f := &msg.F[idx]
	fd := md.Fields().ByNumber(protoreflect.FieldNumber(f.Num))
	if fd == nil {
		return
	}
	isMsgVal := fd.Kind() == protoreflect.MessageKind || (fd.IsMap() && fd.MapValue().Kind() == protoreflect.MessageKind)
	if isMsgVal && depth >= g.maxDepth {
		msg.F = append(msg.F[:idx:idx], msg.F[idx+1:]...)
		return
	}
	switch {
	case fd.IsMap():
		switch how := rapid.IntRange(0, 2).Draw(t, "map"); {
		case how == 0 && len(f.KV) > 0: // delete a key
			j := rapid.IntRange(0, len(f.KV)-1).Draw(t, "key")
			f.KV = append(f.KV[:j:j], f.KV[j+1:]...)
			f.Empty = len(f.KV) == 0
		case how == 1 && len(f.KV) > 0: // change a value
			j := rapid.IntRange(0, len(f.KV)-1).Draw(t, "key")
			f.KV[j].V = c12GenElem(t, fd.MapValue(), depth, g)
		default: // insert a key (replaces the value if the key exists)
			k := c12GenScalar(t, fd.MapKey())
			v := c12GenElem(t, fd.MapValue(), depth, g)
			ks := c12KeyString(fd.MapKey(), k)
			found := false
			for j := range f.KV {
				if c12KeyString(fd.MapKey(), f.KV[j].K) == ks {
					f.KV[j].V, found = v, true
				}
			}
			if !found {
				f.KV = append(f.KV, C12KV{K: k, V: v})
			}
			f.Empty = false
		}
	case fd.IsList():
		switch how := rapid.IntRange(0, 2).Draw(t, "list"); {
		case how == 0 && len(f.L) > 0: // truncate
			f.L = f.L[:len(f.L)-1]
			f.Empty = len(f.L) == 0
		case how == 1 && len(f.L) > 0: // change an element
			j := rapid.IntRange(0, len(f.L)-1).Draw(t, "elem")
			f.L[j] = c12GenElem(t, fd, depth, g)
		default: // append
			f.L = append(f.L, c12GenElem(t, fd, depth, g))
			f.Empty = false
		}
	default:
		v := c12GenElem(t, fd, depth, g)
		f.V = &v
	}
}

func c12GenOps(t *rapid.T, pool []string, max int, label string) []C12Step {
	n := rapid.IntRange(0, max).Draw(t, label)
	var out []C12Step
	for i := 0; i < n; i++ {
		out = append(out, C12Step{Op: pool[rapid.IntRange(0, len(pool)-1).Draw(t, "op")]})
	}
	return out
}

// c12GenHist draws the history of a case whose object starts with value t1.
func c12GenHist(t *rapid.T, ty c12Type, t1 *C12Msg, g c12GenCfg, edit bool) []C12Step {
	next := func(from *C12Msg, edit bool) *C12Msg {
		if !edit {
			m := c12GenMsg(t, ty.md, 0, g)
			return &m
		}
		out := c12CopyMsg(from)
		n := rapid.IntRange(1, 3).Draw(t, "edits")
		for i := 0; i < n; i++ {
			c12EditOnce(t, ty.md, out, 0, g)
		}
		return out
	}
	hist := c12GenOps(t, c12AllOps, 3, "pre")
	t2 := next(t1, edit)
	hist = append(hist, C12Step{Op: c12OpSet, To: t2})
	if rapid.IntRange(0, 3).Draw(t, "again") == 3 {
		// encoders in between, then a second in-place modification (always a small edit)
		hist = append(hist, c12GenOps(t, c12EncodeOps, 2, "mid")...)
		hist = append(hist, C12Step{Op: c12OpSet, To: next(t2, true)})
	}
	// encoder calls after the last modification do not change the value
	if rapid.IntRange(0, 3).Draw(t, "post") == 3 {
		hist = append(hist, C12Step{Op: c12EncodeOps[rapid.IntRange(0, len(c12EncodeOps)-1).Draw(t, "postop")]})
	}
	return hist
}

// ---- deterministic history sweep ----------------------------------------------------------------

// c12Removals lists the trees obtained from full by removing one field, at the top level
// and (levels > 0) inside singular sub-messages and first list elements.
func c12Removals(md protoreflect.MessageDescriptor, full *C12Msg, levels int) []c12LT {
	var out []c12LT
	for i := range full.F {
		t := c12CopyMsg(full)
		t.F = append(t.F[:i:i], t.F[i+1:]...)
		out = append(out, c12LT{full.F[i].Name, t})
	}
	if levels <= 0 {
		return out
	}
	for i := range full.F {
		f := &full.F[i]
		fd := md.Fields().ByNumber(protoreflect.FieldNumber(f.Num))
		if fd == nil || fd.Kind() != protoreflect.MessageKind || fd.IsMap() {
			continue
		}
		var sub *C12Msg
		if fd.IsList() {
			if len(f.L) == 0 || f.L[0].M == nil {
				continue
			}
			sub = f.L[0].M
		} else if f.V != nil && f.V.M != nil {
			sub = f.V.M
		} else {
			continue
		}
		for _, r := range c12Removals(fd.Message(), sub, levels-1) {
			t := c12CopyMsg(full)
			if fd.IsList() {
				t.F[i].L[0].M = r.t
			} else {
				t.F[i].V.M = r.t
			}
			out = append(out, c12LT{f.Name + "." + r.label, t})
		}
	}
	return out
}

type c12LT struct {
	label string
	t     *C12Msg
}

var c12SweepPrefixes = [][]string{
	{c12OpPM}, {c12OpPS}, {c12OpVM}, {c12OpVS}, {c12OpPU}, {c12OpVU}, {c12OpPMerge},
	{c12OpPM, c12OpVM}, {c12OpVM, c12OpPM}, {c12OpPU, c12OpPS}, {c12OpVU, c12OpVS},
}

// c12HistSweep: for every message type, a fully populated message is touched by each
// codec prefix, then shrunk in place (each field removed, also inside sub-messages; to
// empty; to all-empty) or grown in place (the reverse), then judged in both codec orders.
func c12HistSweep(levels int, emit func(C12Case)) {
	for _, ty := range c12Types() {
		tn := string(ty.md.FullName())
		sn := string(ty.md.Name())
		if ty.md.Fields().Len() == 0 {
			continue
		}
		full := c12Full(ty.md, 2, 0)
		pairs := []struct {
			label    string
			from, to *C12Msg
		}{
			{"full -> {}", full, &C12Msg{}},
			{"{} -> full", &C12Msg{}, full},
			{"full -> all-empty", full, c12AllEmpty(ty.md)},
			{"all-empty -> full", c12AllEmpty(ty.md), full},
			{"full -> other full", full, c12Full(ty.md, 3, 5)},
			{"other full -> full", c12Full(ty.md, 3, 5), full},
		}
		// unknown fields appear, disappear and change in place
		un := c12UnknownNumbers(ty.md)[0]
		withU := &C12Msg{U: []C12Unk{{Num: un, W: "bytes", X: []byte("newer-peer")}}}
		fullU := c12CopyMsg(full)
		fullU.U = []C12Unk{{Num: un, W: "varint", V: 300}, {Num: un, W: "fixed64", V: 7}}
		for _, pr := range [][3]any{{"unknown -> {}", withU, &C12Msg{}}, {"{} -> unknown", &C12Msg{}, withU}, {"full+unknown -> full", fullU, full}, {"full -> full+unknown", full, fullU}, {"unknown -> full+unknown", withU, fullU}} {
			pairs = append(pairs, struct {
				label    string
				from, to *C12Msg
			}{pr[0].(string), pr[1].(*C12Msg), pr[2].(*C12Msg)})
		}
		// one field alone: set, cleared, changed in place
		one, other := c12Full(ty.md, 1, 0), c12Full(ty.md, 1, 3)
		for i := range one.F {
			a, b := &C12Msg{F: []C12Fld{one.F[i]}}, &C12Msg{F: []C12Fld{other.F[i]}}
			nm := one.F[i].Name
			pairs = append(pairs, struct {
				label    string
				from, to *C12Msg
			}{nm + " -> {}", a, &C12Msg{}}, struct {
				label    string
				from, to *C12Msg
			}{"{} -> " + nm, &C12Msg{}, a}, struct {
				label    string
				from, to *C12Msg
			}{nm + " -> other " + nm, a, b})
		}
		for _, r := range c12Removals(ty.md, full, levels) {
			pairs = append(pairs, struct {
				label    string
				from, to *C12Msg
			}{"full -> without " + r.label, full, r.t}, struct {
				label    string
				from, to *C12Msg
			}{"without " + r.label + " -> full", r.t, full})
		}
		for _, p := range pairs {
			for pi, pre := range c12SweepPrefixes {
				orders := []string{"vt-first", "proto-first"}
				if !ev.Thorough() {
					// quick tier: after a prefix that used one encoder only, the oracle lets the
					// other codec touch the object first; fewer prefixes
					switch {
					case pi >= 8 || pi == 6:
						continue
					case pi <= 1:
						orders = orders[:1]
					case pi <= 3:
						orders = orders[1:]
					}
				}
				for _, order := range orders {
					c := C12Case{Type: tn, Origin: fmt.Sprintf("sweep:hist %s %v; %s; %s", sn, pre, p.label, order), Msg: *p.from, Order: order}
					for _, op := range pre {
						c.Hist = append(c.Hist, C12Step{Op: op})
					}
					c.Hist = append(c.Hist, C12Step{Op: c12OpSet, To: p.to})
					emit(c)
				}
			}
		}
	}
}
