package codec

// C12 — decoded objects are independent: two messages decoded by the same decoder (from
// the same or from different bytes) share no sub-message object, modifying one of them in
// place changes neither the other nor what the decoder returns afterwards. "Decoding an
// encoding returns the original message" has to stay true for message B after the owner of
// message A changed A.

import (
	"fmt"
	"reflect"
	"sort"
	"strconv"
	"strings"
	"sync"

	"google.golang.org/protobuf/proto"
	"google.golang.org/protobuf/reflect/protoreflect"
)

// ---- pointer identity -------------------------------------------------------------------------

// c12CollectPointers walks every populated message-typed value reachable from m (m itself,
// singular sub-messages, list elements, map values) and records the address of its Go
// object. It returns a description of the first address met twice, or "".
func c12CollectPointers(m protoreflect.Message, path string, seen map[uintptr]string) string {
	rv := reflect.ValueOf(m.Interface())
	if rv.Kind() == reflect.Ptr && !rv.IsNil() {
		p := rv.Pointer()
		if prev, dup := seen[p]; dup {
			return fmt.Sprintf("%s and %s are the same %s object", prev, path, m.Descriptor().Name())
		}
		seen[p] = path
	}
	found := ""
	m.Range(func(fd protoreflect.FieldDescriptor, v protoreflect.Value) bool {
		switch {
		case fd.IsMap():
			if fd.MapValue().Kind() == protoreflect.MessageKind {
				v.Map().Range(func(k protoreflect.MapKey, mv protoreflect.Value) bool {
					found = c12CollectPointers(mv.Message(), fmt.Sprintf("%s.%s[%v]", path, fd.Name(), k.Interface()), seen)
					return found == ""
				})
			}
		case fd.Kind() != protoreflect.MessageKind:
		case fd.IsList():
			l := v.List()
			for i := 0; i < l.Len() && found == ""; i++ {
				found = c12CollectPointers(l.Get(i).Message(), fmt.Sprintf("%s.%s[%d]", path, fd.Name(), i), seen)
			}
		default:
			found = c12CollectPointers(v.Message(), path+"."+string(fd.Name()), seen)
		}
		return found == ""
	})
	return found
}

// c12HasSharedPointers is the allocation-free version of c12CollectPointers: it only says
// whether an address is met twice.
func c12HasSharedPointers(m protoreflect.Message, seen map[uintptr]struct{}) bool {
	rv := reflect.ValueOf(m.Interface())
	if rv.Kind() == reflect.Ptr && !rv.IsNil() {
		p := rv.Pointer()
		if _, dup := seen[p]; dup {
			return true
		}
		seen[p] = struct{}{}
	}
	found := false
	m.Range(func(fd protoreflect.FieldDescriptor, v protoreflect.Value) bool {
		switch {
		case fd.IsMap():
			if fd.MapValue().Kind() == protoreflect.MessageKind {
				v.Map().Range(func(_ protoreflect.MapKey, mv protoreflect.Value) bool {
					found = c12HasSharedPointers(mv.Message(), seen)
					return !found
				})
			}
		case fd.Kind() != protoreflect.MessageKind:
		case fd.IsList():
			l := v.List()
			for i := 0; i < l.Len() && !found; i++ {
				found = c12HasSharedPointers(l.Get(i).Message(), seen)
			}
		default:
			found = c12HasSharedPointers(v.Message(), seen)
		}
		return !found
	})
	return found
}

type c12ScribbleKey struct {
	fd   protoreflect.FieldDescriptor
	salt int
}

var c12ScribbleVals = map[c12ScribbleKey]protoreflect.Value{}

// c12ScribbleVal: the (cached) non-zero value a scalar of kind fd is overwritten with.
func c12ScribbleVal(fd protoreflect.FieldDescriptor, salt int) (protoreflect.Value, bool) {
	key := c12ScribbleKey{fd, salt}
	c12SkelMu.Lock()
	v, ok := c12ScribbleVals[key]
	c12SkelMu.Unlock()
	if ok {
		return v, v.IsValid()
	}
	v, err := c12Scalar(fd, c12DistinctScalar(fd, salt))
	if err != nil {
		v = protoreflect.Value{}
	}
	c12SkelMu.Lock()
	c12ScribbleVals[key] = v
	c12SkelMu.Unlock()
	return v, v.IsValid()
}

// ---- scribbling over a decoded message -----------------------------------------------------------

// c12Scribble modifies m in place through protoreflect: every scalar field of m and of
// every PRESENT sub-message (also present-but-empty ones) is set to a non-zero value, every
// list gets an element appended, every map an entry added; absent sub-messages stay absent.
func c12Scribble(m protoreflect.Message, salt int) {
	fs := m.Descriptor().Fields()
	for i := 0; i < fs.Len(); i++ {
		fd := fs.Get(i)
		switch {
		case fd.IsMap():
			mp := m.Mutable(fd).Map()
			if fd.MapValue().Kind() == protoreflect.MessageKind {
				mp.Range(func(_ protoreflect.MapKey, v protoreflect.Value) bool { c12Scribble(v.Message(), salt); return true })
			}
			if k, ok := c12ScribbleVal(fd.MapKey(), 70+salt); ok {
				if fd.MapValue().Kind() == protoreflect.MessageKind {
					mp.Set(k.MapKey(), mp.NewValue())
				} else if v, ok := c12ScribbleVal(fd.MapValue(), 71+salt); ok {
					mp.Set(k.MapKey(), v)
				}
			}
		case fd.IsList():
			l := m.Mutable(fd).List()
			if fd.Kind() == protoreflect.MessageKind {
				for j := 0; j < l.Len(); j++ {
					c12Scribble(l.Get(j).Message(), salt)
				}
				l.Append(l.NewElement())
			} else if v, ok := c12ScribbleVal(fd, 72+salt); ok {
				for j := 0; j < l.Len(); j++ {
					l.Set(j, v)
				}
				l.Append(v)
			}
		case fd.Kind() == protoreflect.MessageKind:
			if m.Has(fd) {
				c12Scribble(m.Mutable(fd).Message(), salt)
			}
		default:
			if v, ok := c12ScribbleVal(fd, 73+salt); ok {
				m.Set(fd, v)
			}
		}
	}
}

// ---- the skeleton: a second message of the same type ------------------------------------------------

// c12SkeletonTree: every sub-message present but empty, recursively (lists: two empty
// elements), no scalar set — the shape of the placeholders a runtime sends.
func c12SkeletonTree(md protoreflect.MessageDescriptor, levels int) *C12Msg {
	out := &C12Msg{}
	fs := md.Fields()
	for i := 0; i < fs.Len(); i++ {
		fd := fs.Get(i)
		if fd.Kind() != protoreflect.MessageKind || fd.IsMap() {
			continue
		}
		sub := &C12Msg{}
		if levels > 0 {
			sub = c12SkeletonTree(fd.Message(), levels-1)
		}
		f := C12Fld{Num: int32(fd.Number()), Name: string(fd.Name())}
		if fd.IsList() {
			f.L = []C12Val{{M: sub}}
			if levels >= 2 {
				f.L = append(f.L, C12Val{M: &C12Msg{}}) // a sibling element (top level only: size)
			}
		} else {
			f.V = &C12Val{M: sub}
		}
		out.F = append(out.F, f)
	}
	return out
}

type c12Skel struct {
	ref    proto.Message // never modified, never encoded after construction
	bytes  []byte
	kept   map[bool]proto.Message // per decoder: one decoded skeleton kept for the whole process
	probed map[bool]bool          // per decoder: append probe done on a decoded skeleton
}

var (
	c12SkelMu sync.Mutex
	c12Skels  = map[string]*c12Skel{}
)

func c12SkeletonOf(ty c12Type) (*c12Skel, error) {
	c12SkelMu.Lock()
	defer c12SkelMu.Unlock()
	if s := c12Skels[string(ty.md.FullName())]; s != nil {
		return s, nil
	}
	tree := c12SkeletonTree(ty.md, 2)
	var bi c12BuildInfo
	src, err := c12Fresh(ty, tree, &bi)
	if err != nil {
		return nil, err
	}
	b, err := proto.Marshal(src)
	if err != nil {
		return nil, err
	}
	ref, err := c12Fresh(ty, tree, &bi)
	if err != nil {
		return nil, err
	}
	s := &c12Skel{ref: ref, bytes: b, kept: map[bool]proto.Message{}, probed: map[bool]bool{}}
	c12Skels[string(ty.md.FullName())] = s
	return s, nil
}

// ---- aliasing inside one decoded message ---------------------------------------------------------

type c12Range struct {
	lo, hi uintptr
	what   string
}

// c12SliceRanges collects, by Go reflection over the generated structs, the memory range
// [ptr, ptr+cap*elemsize) of every slice-typed exported field of every message reachable
// from v (a pointer to a generated message struct).
func c12SliceRanges(v reflect.Value, path string, out *[]c12Range) {
	c12SliceRangesN(v, path, out, false)
}

// c12SliceRangesN: named = false skips building the field paths (fast pass).
func c12SliceRangesN(v reflect.Value, path string, out *[]c12Range, named bool) {
	if v.Kind() != reflect.Ptr || v.IsNil() || v.Elem().Kind() != reflect.Struct {
		return
	}
	st := v.Elem()
	for i := 0; i < st.NumField(); i++ {
		sf := st.Type().Field(i)
		if sf.PkgPath != "" { // unexported: state, sizeCache, unknownFields
			continue
		}
		fv := st.Field(i)
		switch fv.Kind() {
		case reflect.Slice:
			if fv.Cap() > 0 {
				lo := fv.Pointer()
				what := ""
				if named {
					what = path + "." + sf.Name
				}
				*out = append(*out, c12Range{lo, lo + uintptr(fv.Cap())*fv.Type().Elem().Size(), what})
			}
			if fv.Type().Elem().Kind() == reflect.Ptr {
				for j := 0; j < fv.Len(); j++ {
					sub := ""
					if named {
						sub = path + "." + sf.Name + "[" + strconv.Itoa(j) + "]"
					}
					c12SliceRangesN(fv.Index(j), sub, out, named)
				}
			}
		case reflect.Ptr:
			if fv.IsNil() {
				continue
			}
			sub := ""
			if named {
				sub = path + "." + sf.Name
			}
			c12SliceRangesN(fv, sub, out, named)
		case reflect.Map:
			if fv.Type().Elem().Kind() == reflect.Ptr {
				it := fv.MapRange()
				for it.Next() {
					c12SliceRangesN(it.Value(), path+"."+sf.Name+"[]", out, named)
				}
			}
		}
	}
}

// c12Overlap: fast unnamed pass over x; only if two ranges overlap the walk is repeated
// with field paths for the description.
func c12Overlap(x proto.Message, what string) (string, int) {
	var rs []c12Range
	c12SliceRangesN(reflect.ValueOf(x), "", &rs, false)
	if c12OverlappingSlices(rs) == "" {
		return "", len(rs)
	}
	var named []c12Range
	c12SliceRangesN(reflect.ValueOf(x), what, &named, true)
	return c12OverlappingSlices(named), len(rs)
}

// c12OverlappingSlices returns a description of two slice fields whose backing memory
// (up to capacity) overlaps, or "".
func c12OverlappingSlices(rs []c12Range) string {
	sort.Slice(rs, func(i, j int) bool { return rs[i].lo < rs[j].lo })
	for i := 1; i < len(rs); i++ {
		if rs[i].lo < rs[i-1].hi {
			return fmt.Sprintf("%s and %s overlap in memory (an append to one overwrites the other)", rs[i-1].what, rs[i].what)
		}
	}
	return ""
}

// c12GoAppend appends elem to the repeated field fd of the generated struct behind m with
// reflect.Append, which — like a plain Go append in user code — uses spare capacity.
func c12GoAppend(m protoreflect.Message, fd protoreflect.FieldDescriptor, makeElem func(reflect.Type) (reflect.Value, bool)) bool {
	rv := reflect.ValueOf(m.Interface())
	if rv.Kind() != reflect.Ptr || rv.IsNil() || rv.Elem().Kind() != reflect.Struct {
		return false
	}
	st := rv.Elem()
	for i := 0; i < st.NumField(); i++ {
		parts := strings.Split(st.Type().Field(i).Tag.Get("protobuf"), ",")
		if len(parts) < 2 {
			continue
		}
		if n, err := strconv.Atoi(parts[1]); err != nil || n != int(fd.Number()) {
			continue
		}
		fv := st.Field(i)
		if fv.Kind() != reflect.Slice || !fv.CanSet() {
			return false
		}
		e, ok := makeElem(fv.Type().Elem())
		if !ok {
			return false
		}
		fv.Set(reflect.Append(fv, e))
		return true
	}
	return false
}

// c12AppendEverywhere appends one marked element to every repeated field of every message
// reachable from a — in place, through protoreflect List.Append (goStyle false) or through
// a Go-level append on the struct field (goStyle true) — and does exactly the same to the
// structurally equal reference r, whose lists were allocated one by one.
func c12AppendEverywhere(a, r protoreflect.Message, goStyle bool, salt int) {
	fs := a.Descriptor().Fields()
	for i := 0; i < fs.Len(); i++ {
		fd := fs.Get(i)
		switch {
		case fd.IsMap():
			if fd.MapValue().Kind() == protoreflect.MessageKind && a.Has(fd) && r.Has(fd) {
				rm := r.Mutable(fd).Map()
				a.Mutable(fd).Map().Range(func(k protoreflect.MapKey, v protoreflect.Value) bool {
					if rm.Has(k) {
						c12AppendEverywhere(v.Message(), rm.Mutable(k).Message(), goStyle, salt)
					}
					return true
				})
			}
		case fd.IsList():
			la, lr := a.Mutable(fd).List(), r.Mutable(fd).List()
			n := la.Len()
			if lr.Len() < n {
				n = lr.Len()
			}
			if fd.Kind() == protoreflect.MessageKind {
				for j := 0; j < n; j++ { // the elements that were decoded, not the appended ones
					c12AppendEverywhere(la.Get(j).Message(), lr.Get(j).Message(), goStyle, salt)
				}
			}
			for _, side := range []struct {
				m protoreflect.Message
				l protoreflect.List
			}{{a, la}, {r, lr}} {
				if goStyle {
					done := c12GoAppend(side.m, fd, func(t reflect.Type) (reflect.Value, bool) {
						if fd.Kind() == protoreflect.MessageKind {
							if t.Kind() != reflect.Ptr {
								return reflect.Value{}, false
							}
							e := reflect.New(t.Elem())
							pm, ok := e.Interface().(proto.Message)
							if !ok {
								return reflect.Value{}, false
							}
							c12MarkAppended(pm.ProtoReflect(), salt)
							return e, true
						}
						v, ok := c12ScribbleVal(fd, 80+salt)
						if !ok {
							return reflect.Value{}, false
						}
						gv := reflect.ValueOf(v.Interface())
						if !gv.Type().ConvertibleTo(t) {
							return reflect.Value{}, false
						}
						return gv.Convert(t), true
					})
					if done {
						continue
					}
				}
				if fd.Kind() == protoreflect.MessageKind {
					e := side.l.NewElement()
					c12MarkAppended(e.Message(), salt)
					side.l.Append(e)
				} else if v, ok := c12ScribbleVal(fd, 80+salt); ok {
					side.l.Append(v)
				}
			}
		case fd.Kind() == protoreflect.MessageKind:
			if a.Has(fd) && r.Has(fd) {
				c12AppendEverywhere(a.Mutable(fd).Message(), r.Mutable(fd).Message(), goStyle, salt)
			}
		}
	}
}

// c12MarkAppended gives an appended message element recognisable scalar values.
func c12MarkAppended(m protoreflect.Message, salt int) {
	fs := m.Descriptor().Fields()
	for i := 0; i < fs.Len(); i++ {
		fd := fs.Get(i)
		if fd.IsList() || fd.IsMap() || fd.Kind() == protoreflect.MessageKind {
			continue
		}
		if v, ok := c12ScribbleVal(fd, 90+salt); ok {
			m.Set(fd, v)
		}
	}
}

// c12IntraAliasing probes one decoded message x (whose value is that of want): no two
// slice fields may overlap in memory, and appending to every list in place must change
// nothing but those lists (compared with a clone of want that gets the same appends).
// x is modified. Returns "" or a description.
func c12IntraAliasing(x, want proto.Message, what string) string {
	d, nslices := c12Overlap(x, what)
	if d != "" {
		return "repeated fields of one decoded message share memory: " + d
	}
	if nslices < 2 {
		return "" // fewer than two allocated slices: nothing an append could run into
	}
	ref := proto.Clone(want) // lists allocated one by one
	c12AppendEverywhere(x.ProtoReflect(), ref.ProtoReflect(), false, 0)
	c12AppendEverywhere(x.ProtoReflect(), ref.ProtoReflect(), true, 1)
	if !proto.Equal(x, ref) {
		return fmt.Sprintf("after one element was appended in place to every repeated field of the %s (once with protoreflect List.Append, once with a Go append on the struct field) it differs from the same message built list by list with the same appends: a repeated field was changed by an append to another one: got {%s} want {%s}", what, c12Text(x), c12Text(ref))
	}
	return ""
}

// ---- the step ---------------------------------------------------------------------------------------

// c12Independence: earlier is a message decoded before by the same decoder from an
// encoding of want; src is such an encoding. Returns "" or the verdict.
func c12Independence(ty c12Type, want, earlier proto.Message, src []byte, useVT bool, hist map[string]any) string {
	name := ty.md.Name()
	decName := "proto.Unmarshal"
	if useVT {
		decName = "UnmarshalVT"
	}
	dec := func(b []byte) (proto.Message, error) {
		got := ty.mt.New().Interface()
		in := append([]byte(nil), b...)
		if useVT {
			return got, got.(c12VT).UnmarshalVT(in)
		}
		return got, proto.Unmarshal(in, got)
	}
	sk, err := c12SkeletonOf(ty)
	if err != nil {
		return "" // cannot happen for descriptor-derived trees; nothing to judge
	}
	a, err := dec(src)
	if err != nil {
		return fmt.Sprintf("%s: %s failed when decoding the same bytes a second time: %v", name, decName, err)
	}
	s, err := dec(sk.bytes)
	if err != nil {
		return fmt.Sprintf("%s: %s failed on the encoding of a message with present-but-empty sub-messages: %v", name, decName, err)
	}
	c12SkelMu.Lock()
	kept := sk.kept[useVT]
	if kept == nil {
		if kept, err = dec(sk.bytes); err == nil {
			sk.kept[useVT] = kept
		}
	}
	c12SkelMu.Unlock()
	if err != nil {
		return fmt.Sprintf("%s: %s failed on the encoding of a message with present-but-empty sub-messages: %v", name, decName, err)
	}
	// 1. no two decoded messages, and no two places inside one decoded message, hold the same object
	group := []struct {
		n string
		m proto.Message
	}{{"first decode", earlier}, {"second decode", a}, {"decoded placeholder message", s}, {"placeholder message decoded earlier", kept}}
	fast := map[uintptr]struct{}{}
	shared := false
	for _, x := range group {
		shared = shared || c12HasSharedPointers(x.m.ProtoReflect(), fast)
	}
	if shared {
		seen := map[uintptr]string{}
		d := ""
		for _, x := range group {
			if d = c12CollectPointers(x.m.ProtoReflect(), x.n, seen); d != "" {
				break
			}
		}
		hist["shared_object"] = d
		return fmt.Sprintf("%s: messages decoded by %s share a sub-message object (modifying one changes the other): %s", name, decName, d)
	}
	// 1b. inside one decoded message: repeated fields neither overlap in memory nor change
	// when another repeated field of the same message is appended to
	for _, x := range []struct {
		n    string
		m    proto.Message
		want proto.Message
	}{{"first decode", earlier, nil}, {"second decode", a, want}, {"decoded placeholder message", s, sk.ref}, {"placeholder message decoded earlier", kept, nil}} {
		if x.want == nil { // not to be modified: memory ranges only
			if d, _ := c12Overlap(x.m, x.n); d != "" {
				hist["overlap"] = d
				return fmt.Sprintf("%s: repeated fields of one message decoded by %s share memory: %s", name, decName, d)
			}
			continue
		}
		if x.m == s {
			// the placeholder's content is fixed per type: its append probe runs once per
			// decoder and process (also in a replay), its memory ranges are checked every time
			c12SkelMu.Lock()
			done := sk.probed[useVT] // set only after the probe passed
			c12SkelMu.Unlock()
			if done {
				if d, _ := c12Overlap(x.m, x.n); d != "" {
					hist["overlap"] = d
					return fmt.Sprintf("%s: repeated fields of one message decoded by %s share memory: %s", name, decName, d)
				}
				continue
			}
		}
		if d := c12IntraAliasing(x.m, x.want, x.n); d != "" {
			hist["overlap"] = d
			return fmt.Sprintf("%s: %s: %s", name, decName, d)
		}
		if x.m == s {
			c12SkelMu.Lock()
			sk.probed[useVT] = true
			c12SkelMu.Unlock()
		}
	}
	// 2. modify two of them in place; the others must not change
	c12Scribble(a.ProtoReflect(), 0)
	c12Scribble(s.ProtoReflect(), 1)
	if !proto.Equal(earlier, want) {
		hist["decoded"] = c12Text(earlier)
		return fmt.Sprintf("%s: a message decoded by %s changed when another message decoded from the same bytes was modified in place: now {%s} want {%s}", name, decName, c12Text(earlier), c12Text(want))
	}
	// (the placeholder message has no scalar set: any change makes its encoding longer, and
	// proto.Size is much cheaper than a reflective comparison)
	if proto.Size(kept) != len(sk.bytes) {
		hist["decoded"] = c12Text(kept)
		return fmt.Sprintf("%s: a message decoded earlier by %s changed when other decoded messages were modified in place: now {%s} want {%s}", name, decName, c12Text(kept), c12Text(sk.ref))
	}
	// 3. the decoder itself must not have been affected
	c, err := dec(src)
	if err != nil {
		return fmt.Sprintf("%s: %s failed when decoding the same bytes again: %v", name, decName, err)
	}
	if !proto.Equal(c, want) {
		hist["decoded"] = c12Text(c)
		return fmt.Sprintf("%s: %s of the same bytes gives a different message after an earlier decoded message was modified in place: got {%s} want {%s}", name, decName, c12Text(c), c12Text(want))
	}
	s3, err := dec(sk.bytes)
	if err != nil || proto.Size(s3) != len(sk.bytes) {
		hist["decoded"] = c12Text(s3)
		return fmt.Sprintf("%s: %s of a message with present-but-empty sub-messages gives a different message after an earlier decoded message was modified in place: got {%s} want {%s} (err %v)", name, decName, c12Text(s3), c12Text(sk.ref), err)
	}
	return ""
}
