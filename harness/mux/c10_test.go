package mux

// C10 — multiplexed connections deliver each stream complete, in order and isolated.

import (
	"errors"
	"fmt"
	"net"
	"os"
	"runtime"
	"strings"
	"sync"
	"sync/atomic"
	"testing"
	"time"

	"github.com/containerd/nri/pkg/net/multiplex"
	"github.com/containerd/nri/pkg/verifhook"
	"pgregory.net/rapid"

	"nriverif/ev"
)

// C10Stream is the traffic of one (connection, direction): Writers[w] is the list of payload
// sizes writer goroutine w sends, in order. Dir 0 = mux A -> mux B, 1 = B -> A.
type C10Stream struct {
	Conn     int     `json:"conn"`
	Dir      int     `json:"dir"`
	Writers  [][]int `json:"writers"`
	LagEvery int     `json:"lag_every,omitempty"` // reader sleeps LagUs after every LagEvery-th frame
	LagUs    int     `json:"lag_us,omitempty"`
	Slack    int     `json:"slack,omitempty"` // extra bytes in the reader's buffer (len == cap)
}

// C10Reopen: before any traffic the connection is closed and the same id opened again (on one
// or both ends); the stale handle is then closed again by StaleClosers goroutines x
// StaleRepeat. All traffic of the case uses the new handles: what is written to the id must
// arrive at the id's current incarnation.
type C10Reopen struct {
	Side         int  `json:"side"`
	Conn         int  `json:"conn"`
	Both         bool `json:"both,omitempty"`
	StaleClosers int  `json:"stale_closers,omitempty"`
	StaleRepeat  int  `json:"stale_repeat,omitempty"`
}

type C10Case struct {
	QLen    int         `json:"qlen"`
	Blocked bool        `json:"blocked,omitempty"` // muxes created WithBlockedRead, unblocked after Open
	IDs     []uint32    `json:"ids"`
	Streams []C10Stream `json:"streams"`
	Delays  []Delay     `json:"delays,omitempty"`
	Reopen  []C10Reopen `json:"reopen,omitempty"`
	// Rounds: barrier rounds of concurrent handle acquisition on fresh ids, run after the traffic
	Rounds []C10OpenRound `json:"open_rounds,omitempty"`
	// options of the two multiplexers (index 0 = mux A, 1 = mux B)
	QLenB       int     `json:"qlen_b,omitempty"`       // read queue length of mux B (0: same as QLen)
	OmitQLen    [2]bool `json:"omit_qlen,omitempty"`    // WithReadQueueLength not passed where the length is the default 256
	BlockedRead [2]bool `json:"blocked_read,omitempty"` // WithBlockedRead
	// Unblock of a blocked mux: when the UnblockAfter-th Write towards it is about to start
	// (0 = before any traffic), at the latest UnblockDelayMs after the traffic started
	UnblockAfter   [2]int `json:"unblock_after,omitempty"`
	UnblockDelayMs [2]int `json:"unblock_delay_ms,omitempty"`
	// WriteFaults / WriteDeadline: the trunk's Write fails with (0, err) and works again afterwards
	WriteFaults   []C10WriteFault `json:"write_faults,omitempty"`
	WriteDeadline *C10Deadline    `json:"write_deadline,omitempty"`
	// Stalls: the trunk pauses once inside a frame
	Stalls []C10Stall `json:"stalls,omitempty"`
	// Bursts: backlogs that approach the configured queue length, run after the traffic
	Bursts []C10Burst `json:"bursts,omitempty"`
	// Mixed: rounds of concurrent Open/Close of different ids on one end, run after the barrier rounds
	Mixed *C10Mixed `json:"mixed,omitempty"`
	// Ghosts: writes to connection ids that are not open at the receiving end (dropped by design)
	Ghosts []C10Ghost `json:"ghosts,omitempty"`
}

// C10Ghost is a writer on an id that only the sending end has open: never opened at the
// receiver, or (Closed) opened and closed there before the traffic. Its frames are dropped by
// the receiver and are part of no expectation.
type C10Ghost struct {
	Dir    int   `json:"dir"`
	Closed bool  `json:"closed,omitempty"`
	Sizes  []int `json:"sizes"`
	Repeat int   `json:"repeat,omitempty"` // the Sizes are written this many times over (0 = once): many dropped frames
}

func (c C10Case) qlenOf(side int) int {
	if side == 1 && c.QLenB > 0 {
		return c.QLenB
	}
	return c.QLen
}

func (c C10Case) minQLen() int { return min(c.qlenOf(0), c.qlenOf(1)) }

// genQLen draws a read queue length: small values, the whole range up to the package default
// (256), the values around it and lengths above the default.
func genQLen(t *rapid.T) int {
	return rapid.OneOf(
		rapid.IntRange(1, 4),
		rapid.IntRange(1, 32),
		rapid.SampledFrom([]int{257, 300, 512, 1024, 4096}),
		rapid.IntRange(1, 256),
		rapid.SampledFrom([]int{1, 2, 3, 255, 256, 257}),
		rapid.IntRange(257, 2000),
	).Draw(t, "qlen")
}

func genC10(t *rapid.T) C10Case {
	c := C10Case{QLen: genQLen(t)}
	if rapid.IntRange(0, 2).Draw(t, "qlen_b") == 0 {
		c.QLenB = genQLen(t)
	}
	for sd := 0; sd < 2; sd++ {
		c.OmitQLen[sd] = c.qlenOf(sd) == defaultQLen && rapid.Bool().Draw(t, "omit_qlen")
		switch rapid.SampledFrom([]int{3, 3, 3, 3, 3, 1, 2, 0}).Draw(t, "blocked") {
		case 0: // blocked, unblocked before any traffic
			c.BlockedRead[sd] = true
			c.UnblockDelayMs[sd] = 1
		case 1, 2: // blocked, unblocked after some writes of the peer
			c.BlockedRead[sd] = true
			c.UnblockAfter[sd] = rapid.IntRange(1, 12).Draw(t, "unblock_after")
			c.UnblockDelayMs[sd] = rapid.SampledFrom([]int{1, 2, 5, 20}).Draw(t, "unblock_delay")
		}
	}
	c.IDs = genIDs(t, rapid.IntRange(1, 8).Draw(t, "nids"))
	budget := tierPick(32<<20, 64<<20)
	maxPayloads := tierPick(6, 12)
	bigWeight := 2
	for ci := range c.IDs {
		for dir := 0; dir < 2; dir++ {
			s := C10Stream{Conn: ci, Dir: dir}
			nw := rapid.SampledFrom([]int{1, 1, 1, 2, 2, 3, 4}).Draw(t, "nwriters")
			for w := 0; w < nw; w++ {
				n := rapid.IntRange(0, maxPayloads).Draw(t, "npayloads")
				sizes := make([]int, n)
				for i := range sizes {
					sizes[i] = genSize(t, &budget, c.minQLen(), bigWeight)
				}
				s.Writers = append(s.Writers, sizes)
			}
			if rapid.IntRange(0, 3).Draw(t, "lag") == 0 {
				s.LagEvery = rapid.IntRange(1, 8).Draw(t, "lag_every")
				s.LagUs = rapid.SampledFrom([]int{0, 100, 500, 1000}).Draw(t, "lag_us")
			}
			if rapid.IntRange(0, 3).Draw(t, "slack") == 0 {
				s.Slack = rapid.SampledFrom([]int{1, 7, 4096}).Draw(t, "slack_n")
			}
			c.Streams = append(c.Streams, s)
		}
	}
	c.Delays = genDelays(t, 6)
	c.Rounds = genRounds(t, c.minQLen())
	c.Mixed = genMixed(t)
	c.Bursts = genBursts(t)
	c.Stalls = genStalls(t)
	genWriteFaults(t, &c)
	if rapid.IntRange(0, 1).Draw(t, "ghosts") == 0 {
		c.Ghosts = rapid.SliceOfN(rapid.Custom(func(t *rapid.T) C10Ghost {
			g := C10Ghost{Dir: rapid.IntRange(0, 1).Draw(t, "gdir"), Closed: rapid.IntRange(0, 2).Draw(t, "gclosed") == 0}
			n := rapid.IntRange(1, 4).Draw(t, "gn")
			for i := 0; i < n; i++ {
				g.Sizes = append(g.Sizes, genSize(t, &budget, 3, 1))
			}
			return g
		}), 1, 3).Draw(t, "ghosts")
		// now and then a great many frames for ids nobody has opened at the receiver
		if rapid.IntRange(0, 2).Draw(t, "gmany") == 0 {
			g := &c.Ghosts[0]
			for i := range g.Sizes {
				g.Sizes[i] %= 64
			}
			g.Repeat = rapid.IntRange(1100, 3000).Draw(t, "gframes")/len(g.Sizes) + 1
		}
	}
	if rapid.IntRange(0, 3).Draw(t, "reopen") == 0 {
		n := rapid.IntRange(1, min(3, len(c.IDs))).Draw(t, "nreopen")
		first := rapid.IntRange(0, len(c.IDs)-1).Draw(t, "reopen_conn")
		for i := 0; i < n; i++ {
			c.Reopen = append(c.Reopen, C10Reopen{
				Side:         rapid.IntRange(0, 1).Draw(t, "ro_side"),
				Conn:         (first + i) % len(c.IDs),
				Both:         rapid.IntRange(0, 2).Draw(t, "ro_both") == 0,
				StaleClosers: rapid.SampledFrom([]int{0, 1, 1, 2, 4}).Draw(t, "ro_closers"),
				StaleRepeat:  rapid.SampledFrom([]int{1, 1, 2, 3}).Draw(t, "ro_repeat"),
			})
		}
	}
	return c
}

func TestProp_C10(t *testing.T) {
	if exhFailed.Load() {
		t.Skip("the directed sweep already reported a violation")
	}
	if e := selfCheck(); e != "" {
		ev.Get("C10").SetExtra("selfcheck_failed", e)
		defer func() {
			if !t.Failed() {
				t.Errorf("SELFCHECK failed (harness assumption maxPayload=%d does not hold: %s): inconclusive", maxPayload, e)
			}
		}()
	}
	ev.Get("C10").SetExtra("selfcheck_maxpayload_ok", selfCheck() == "")
	ev.Run(t, "C10", genC10, runC10)
}

// ---------------------------------------------------------------------------------------

type c10Event struct {
	Stream string `json:"stream"`
	N      int    `json:"n"`
	What   string `json:"what"`
}

type c10run struct {
	c        C10Case
	p        *muxPair
	failMu   sync.Mutex
	fail     string
	stall    bool
	abortC   chan struct{}
	aborted  atomic.Bool
	progress atomic.Int64
	creds    []*credits
	logMu    sync.Mutex
	log      []c10Event
	lenient  map[string]bool

	fc         [2]*faultConn
	gate       [2]sync.RWMutex   // held (shared) by every Write of the harness; exclusively while a write deadline is set
	dlSeen     [2]atomic.Bool    // a write deadline has been set on that mux' trunk
	fatalFault atomic.Bool       // a trunk Write failed after part of a payload was on the wire: the mux has to fail as a whole
	skip       [][][]atomic.Bool // [stream][writer][seq]: the payload was abandoned after a clean Write failure
	towards    [2]atomic.Int64   // Writes started towards mux 0 / 1
	unblocked  [2]atomic.Bool    // Unblock of that mux has been called (or it was never blocked)
}

func (r *c10run) failf(format string, a ...any) {
	r.failMu.Lock()
	if r.fail == "" {
		r.fail = fmt.Sprintf(format, a...)
	}
	r.failMu.Unlock()
	r.abort()
}

func (r *c10run) abort() {
	if r.aborted.CompareAndSwap(false, true) {
		close(r.abortC)
		for _, c := range r.creds {
			c.disable()
		}
		go r.p.shutdown()
	}
}

func (r *c10run) note(stream string, n int, what string) {
	r.logMu.Lock()
	if len(r.log) < 400 {
		r.log = append(r.log, c10Event{stream, n, what})
	}
	r.logMu.Unlock()
}

const c10StallAfter = 10 * time.Second

func runC10(c C10Case) ev.Outcome {
	// "complete" can only be judged by waiting: a stall is confirmed by re-execution before it
	// is reported (a slow machine is not a violation)
	return withHangConfirmation("C10", c, func() (ev.Outcome, bool) { return runC10Once(c) })
}

func runC10Once(c C10Case) (ev.Outcome, bool) {
	defer settleGoroutines(runtime.NumGoroutine())
	r := &c10run{c: c, abortC: make(chan struct{}), lenient: map[string]bool{}}
	blocked := c.BlockedRead
	if c.Blocked { // older cases: both ends blocked, unblocked before any traffic
		blocked = [2]bool{true, true}
	}
	var wrap func(int, net.Conn) net.Conn
	if len(c.WriteFaults) > 0 || len(c.Stalls) > 0 {
		wrap = func(side int, raw net.Conn) net.Conn {
			r.fc[side] = &faultConn{Conn: raw, onFatal: func() { r.fatalFault.Store(true) }}
			for _, st := range c.Stalls {
				if st.Side == side {
					r.fc[side].stalls = append(r.fc[side].stalls, st)
				}
			}
			return r.fc[side]
		}
	}
	r.skip = make([][][]atomic.Bool, len(c.Streams))
	for si, st := range c.Streams {
		r.skip[si] = make([][]atomic.Bool, len(st.Writers))
		for w, sizes := range st.Writers {
			r.skip[si][w] = make([]atomic.Bool, len(sizes))
		}
	}
	r.p = connectPairOpts(pairOpts{qlen: [2]int{c.qlenOf(0), c.qlenOf(1)}, omitQLen: c.OmitQLen, blocked: blocked, ids: c.IDs, wrap: wrap})
	defer r.p.shutdown()
	for sd := 0; sd < 2; sd++ {
		r.unblocked[sd].Store(!blocked[sd])
	}
	alloc := newIDAllocator(c.IDs)
	// ghost ids: open at the sending end only
	type ghost struct {
		spec C10Ghost
		id   uint32
		wr   net.Conn
	}
	var ghosts []ghost
	for _, g := range c.Ghosts {
		if g.Dir < 0 || g.Dir > 1 {
			continue
		}
		id := alloc.fresh()
		wr, err := r.p.m[g.Dir].Open(multiplex.ConnID(id))
		if err != nil {
			panic(fmt.Sprintf("harness: Open(%d): %v", id, err))
		}
		if g.Closed {
			if h, err := r.p.m[1-g.Dir].Open(multiplex.ConnID(id)); err == nil {
				_ = h.Close()
			}
		}
		ghosts = append(ghosts, ghost{g, id, wr})
	}
	remove := installDelays(c.Delays, nil)
	defer remove()

	// prologue: close and re-open ids, close the stale handles again; no traffic yet
	for _, ro := range c.Reopen {
		if ro.Conn < 0 || ro.Conn >= len(c.IDs) || ro.Side < 0 || ro.Side > 1 {
			continue
		}
		sides := []int{ro.Side}
		if ro.Both {
			sides = append(sides, 1-ro.Side)
		}
		var stale []net.Conn
		for _, sd := range sides {
			old := r.p.conns[sd][ro.Conn]
			_ = old.Close()
			stale = append(stale, old)
		}
		for _, sd := range sides {
			nc, err := r.p.m[sd].Open(multiplex.ConnID(c.IDs[ro.Conn]))
			if err != nil || nc == nil {
				o := ev.Outcome{Classes: c10Classes(c)}
				o.Fail = fmt.Sprintf("re-Open(%d) on mux %d returned (%v, %v)", c.IDs[ro.Conn], sd, nc, err)
				return o, false
			}
			r.p.conns[sd][ro.Conn] = nc
		}
		var cwg sync.WaitGroup
		for _, h := range stale {
			for k := 0; k < ro.StaleClosers; k++ {
				cwg.Add(1)
				go func(h net.Conn) {
					defer cwg.Done()
					defer r.recoverPanic("repeated Close of a stale handle")
					for j := 0; j < max(1, ro.StaleRepeat); j++ {
						_ = h.Close()
					}
				}(h)
			}
		}
		cwg.Wait()
	}

	var wg sync.WaitGroup
	for si := range c.Streams {
		si := si
		s := c.Streams[si]
		cred := newCredits(c.qlenOf(1 - s.Dir))
		r.creds = append(r.creds, cred)
		wr := r.p.conns[s.Dir][s.Conn]
		rd := r.p.conns[1-s.Dir][s.Conn]
		name := fmt.Sprintf("id=%d/dir=%d", c.IDs[s.Conn], s.Dir)

		wg.Add(1)
		go func() {
			defer wg.Done()
			defer r.recoverPanic(name + " reader")
			r.reader(si, s, name, rd, cred)
		}()

		var wwg sync.WaitGroup
		for w := range s.Writers {
			wwg.Add(1)
			wg.Add(1)
			go func(w int) {
				defer wg.Done()
				defer wwg.Done()
				defer r.recoverPanic(name + " writer")
				r.writer(si, s, name, w, wr, cred)
			}(w)
		}
		// end-of-stream marker once every writer of the stream is done
		wg.Add(1)
		go func() {
			defer wg.Done()
			defer r.recoverPanic(name + " marker")
			wwg.Wait()
			if r.aborted.Load() {
				return
			}
			d := payloadDesc{Conn: s.Conn, Dir: s.Dir, Writer: 0xff, Seq: 0xffffff, Len: patHdrLen, ID: c.IDs[s.Conn]}
			b := make([]byte, d.Len)
			d.fill(b)
			cred.acquire(1)
			if r.aborted.Load() {
				return
			}
			if n, err := r.writeRetrying(s.Dir, wr, b); err != nil || n != len(b) {
				if !r.fatalFault.Load() {
					r.failf("%s: Write of %d bytes returned (%d, %v) although the receiver keeps up", name, len(b), n, err)
				}
			}
			r.progress.Add(1)
		}()
	}

	// ghost writers: frames for ids that are not open at the receiver, interleaved with the traffic
	for gi, g := range ghosts {
		wg.Add(1)
		go func() {
			defer wg.Done()
			defer r.recoverPanic("ghost writer")
			for k := 0; k < len(g.spec.Sizes)*max(g.spec.Repeat, 1); k++ {
				l := g.spec.Sizes[k%len(g.spec.Sizes)]
				if r.aborted.Load() {
					return
				}
				d := payloadDesc{Conn: 0xffff - gi, Dir: g.spec.Dir, Writer: 9, Seq: k, Len: l, ID: g.id}
				b := make([]byte, l)
				d.fill(b)
				r.towards[1-g.spec.Dir].Add(1)
				if n, err := r.writeRetrying(g.spec.Dir, g.wr, b); err != nil || n != l {
					if !r.aborted.Load() && !r.fatalFault.Load() {
						r.failf("Write of %d bytes to id=%d (open at the sending end only) returned (%d, %v)", l, g.id, n, err)
					}
					return
				}
				r.progress.Add(1)
			}
		}()
	}
	started := time.Now()
	// a real write deadline on the trunk of one mux, set while none of its Writes is in progress
	if dl := c.WriteDeadline; dl != nil && dl.Side >= 0 && dl.Side <= 1 {
		wg.Add(1)
		go func() {
			defer wg.Done()
			defer r.recoverPanic("write deadline")
			for r.towards[1-dl.Side].Load() < int64(dl.AfterWrites) && time.Since(started) < 5*time.Millisecond && !r.aborted.Load() {
				time.Sleep(100 * time.Microsecond)
			}
			tr := r.p.m[dl.Side].Trunk()
			r.gate[dl.Side].Lock()
			r.dlSeen[dl.Side].Store(true)
			_ = tr.SetWriteDeadline(time.Now())
			r.gate[dl.Side].Unlock()
			if dl.HoldUs > 0 {
				time.Sleep(time.Duration(dl.HoldUs) * time.Microsecond)
			}
			_ = tr.SetWriteDeadline(time.Time{})
			r.progress.Add(1)
		}()
	}
	// Unblock of blocked multiplexers at their drawn point
	for sd := 0; sd < 2; sd++ {
		if !blocked[sd] {
			continue
		}
		wg.Add(1)
		go func(sd int) {
			defer wg.Done()
			defer r.recoverPanic("Unblock")
			limit := time.Duration(max(1, c.UnblockDelayMs[sd])) * time.Millisecond
			for c.UnblockAfter[sd] > 0 && r.towards[sd].Load() < int64(c.UnblockAfter[sd]) && time.Since(started) < limit && !r.aborted.Load() {
				time.Sleep(100 * time.Microsecond)
			}
			r.unblocked[sd].Store(true)
			r.p.m[sd].Unblock()
			r.progress.Add(1)
		}(sd)
	}

	done := make(chan struct{})
	go func() { wg.Wait(); close(done) }()
	stalled := false
	var stackDump string
	last, lastChange, idleTicks := r.progress.Load(), time.Now(), 0
	tick := time.NewTicker(200 * time.Millisecond)
	defer tick.Stop()
wait:
	for {
		select {
		case <-done:
			break wait
		case <-tick.C:
			idleTicks++
			if p := r.progress.Load(); p != last {
				last, lastChange, idleTicks = p, time.Now(), 0
			} else if time.Since(lastChange) > c10StallAfter && idleTicks >= int(c10StallAfter/(200*time.Millisecond))/2 {
				stalled = true
				stackDump = stacks()
				r.failMu.Lock()
				if r.fail == "" {
					r.fail = fmt.Sprintf("incomplete: no frame delivered and no Write completed for %v while payloads are outstanding", c10StallAfter)
					r.stall = true
				}
				r.failMu.Unlock()
				r.abort()
				select {
				case <-done:
				case <-time.After(2 * time.Second): // whoever is still blocked after the shutdown is leaked
				}
				break wait
			}
		}
	}

	// barrier rounds: concurrent acquisition of the handle of fresh ids (both ends deliver by now)
	if len(c.Rounds) > 0 && r.fail == "" && !r.fatalFault.Load() {
		bad, stall, same := runOpenRounds(c, r.p, alloc)
		ev.Get("C10").AddExtra("open_rounds", len(c.Rounds))
		ev.Get("C10").AddExtra("open_rounds_all_handles_identical", same)
		if bad != "" {
			o := ev.Outcome{Classes: c10Classes(c), NonTrivial: c10NonTrivial(c), Fail: bad}
			if stall {
				o.History = map[string]any{"stacks": stacks()}
			}
			return o, stall
		}
	}

	if len(c.Bursts) > 0 && r.fail == "" && !r.fatalFault.Load() {
		if bad, stall := runBursts(c, r.p, alloc); bad != "" {
			o := ev.Outcome{Classes: c10Classes(c), NonTrivial: c10NonTrivial(c), Fail: bad}
			if stall {
				o.History = map[string]any{"stacks": stacks()}
			}
			return o, stall
		}
	}
	if c.Mixed != nil && r.fail == "" && !r.fatalFault.Load() {
		ev.Get("C10").AddExtra("mixed_open_close_rounds", len(c.Mixed.Rounds))
		if bad, stall := runMixedRounds(c, r.p, alloc); bad != "" {
			o := ev.Outcome{Classes: c10Classes(c), NonTrivial: c10NonTrivial(c), Fail: bad}
			if stall {
				o.History = map[string]any{"stacks": stacks()}
			}
			return o, stall
		}
	}

	o := ev.Outcome{Classes: c10Classes(c), NonTrivial: c10NonTrivial(c)}
	for k := range r.lenient {
		o.Lenient = append(o.Lenient, k)
	}
	if r.fail != "" {
		if r.stall && r.lenient["zero_length_write_not_delivered"] {
			// the statement allows zero-length writes to produce nothing; the credit accounting
			// cannot cope with that, so the stall cannot be judged
			o.Excluded = "stall_after_undelivered_zero_length_frames"
			return o, false
		}
		o.Fail = r.fail
		h := map[string]any{"events": r.log}
		if stackDump != "" {
			h["stacks"] = stackDump
		}
		o.History = h
		return o, stalled && r.stall
	}
	return o, false
}

func (r *c10run) recoverPanic(who string) {
	if e := recover(); e != nil {
		buf := make([]byte, 8192)
		n := runtime.Stack(buf, false)
		r.failf("panic in %s: %v\n%s", who, e, buf[:n])
	}
}

// guardedWrite is one Write of the harness on mux `side`. clean: the Write failed although the
// multiplexer stays usable and nothing of the payload was sent (an expired write deadline).
func (r *c10run) guardedWrite(side int, c net.Conn, b []byte) (n int, err error, clean bool) {
	r.gate[side].RLock()
	n, err = c.Write(b)
	r.gate[side].RUnlock()
	if err != nil && r.dlSeen[side].Load() && errors.Is(err, os.ErrDeadlineExceeded) {
		clean = true
	}
	return
}

// writeRetrying repeats a Write that failed cleanly (markers, ghost frames).
func (r *c10run) writeRetrying(side int, c net.Conn, b []byte) (int, error) {
	for try := 0; ; try++ {
		n, err, clean := r.guardedWrite(side, c, b)
		if !clean || try > 20000 || r.aborted.Load() {
			return n, err
		}
		time.Sleep(50 * time.Microsecond)
	}
}

func (r *c10run) writer(si int, s C10Stream, name string, w int, wr net.Conn, cred *credits) {
	sizes := s.Writers[w]
	maxLen := 0
	for _, l := range sizes {
		if l > maxLen {
			maxLen = l
		}
	}
	var buf []byte
	if maxLen <= maxPayload && maxLen > 1<<16 {
		bp := getBuf()
		defer putBuf(bp)
		buf = *bp
	} else {
		buf = make([]byte, maxLen)
	}
	onFail := "retry"
	for seq, l := range sizes {
		d := payloadDesc{Conn: s.Conn, Dir: s.Dir, Writer: w, Seq: seq, Len: l, ID: r.c.IDs[s.Conn]}
		d.fill(buf[:l])
		var req *faultReq
		if w == 0 && r.fc[s.Dir] != nil {
			for _, f := range r.c.WriteFaults {
				if f.Stream == si && f.Payload == seq && req == nil {
					req = &faultReq{id: d.ID, chunk: f.Chunk, pos: f.Pos, err: writeErrOf(f.Class)}
					onFail = f.OnFail
				}
			}
		}
		for try := 0; ; try++ {
			cred.acquire(nFrames(l))
			if r.aborted.Load() {
				return
			}
			r.towards[1-s.Dir].Add(1)
			if req != nil && try == 0 {
				r.fc[s.Dir].arm(req)
			}
			n, err, clean := r.guardedWrite(s.Dir, wr, buf[:l])
			if req != nil && try == 0 {
				r.fc[s.Dir].disarm()
				if req.fired && req.clean {
					clean = true
				}
			}
			if err == nil && n == l {
				break
			}
			if r.fatalFault.Load() {
				return // part of a payload is on the wire: the mux has to fail as a whole; nothing more to send
			}
			if !clean || err == nil {
				r.failf("%s writer %d seq %d: Write of %d bytes returned (%d, %v) although the receiver keeps up with queue length %d",
					name, w, seq, l, n, err, r.c.qlenOf(1-s.Dir))
				return
			}
			// the Write failed and nothing of it was sent: it contributes nothing to the stream
			if n != 0 {
				r.failf("%s writer %d seq %d: Write returned n=%d together with the error %v", name, w, seq, n, err)
				return
			}
			cred.release(nFrames(l))
			r.note(name, l, fmt.Sprintf("w%d seq%d Write failed cleanly: %v", w, seq, err))
			if onFail == "abandon" || try > 20000 {
				r.skip[si][w][seq].Store(true)
				break
			}
			if req == nil || !req.fired {
				time.Sleep(50 * time.Microsecond) // an expired deadline: wait for it to be cleared
			}
		}
		r.progress.Add(1)
	}
}

func (r *c10run) reader(si int, s C10Stream, name string, rd net.Conn, cred *credits) {
	var buf []byte
	if s.Slack == 0 {
		bp := getBuf()
		defer putBuf(bp)
		buf = *bp
	} else {
		buf = make([]byte, maxPayload+s.Slack)
	}
	next := make([]int, len(s.Writers)) // next sequence number expected per writer
	zerosSent := 0
	for _, sizes := range s.Writers {
		for _, l := range sizes {
			if l == 0 {
				zerosSent++
			}
		}
	}
	zerosRecv := 0
	var cur *payloadDesc // payload being received (more chunks expected)
	curPos := 0
	frames := 0
	id := r.c.IDs[s.Conn]
	for {
		wasBlocked := !r.unblocked[1-s.Dir].Load()
		n, err := rd.Read(buf)
		if r.aborted.Load() {
			return
		}
		if err == nil && wasBlocked && !r.unblocked[1-s.Dir].Load() {
			r.failf("%s reader: a frame of %d bytes was delivered although the mux was created WithBlockedRead and Unblock has not been called yet", name, n)
			return
		}
		if err != nil && r.fatalFault.Load() {
			// the multiplexer failed as a whole after a partial frame: what was read is a prefix
			for _, cr := range r.creds {
				cr.disable()
			}
			return
		}
		if err != nil {
			r.failf("%s reader: Read returned error %q after %d frames although the receiver keeps up with queue length %d",
				name, err, frames, r.c.qlenOf(1-s.Dir))
			return
		}
		if n < 0 || n > len(buf) {
			r.failf("%s reader: Read returned n=%d for a buffer of %d bytes", name, n, len(buf))
			return
		}
		cred.release(1)
		frames++
		r.progress.Add(1)
		got := buf[:n]
		if s.LagEvery > 0 && frames%s.LagEvery == 0 {
			if s.LagUs == 0 {
				runtime.Gosched()
			} else {
				time.Sleep(time.Duration(s.LagUs) * time.Microsecond)
			}
		}
		if n == 0 {
			zerosRecv++
			r.note(name, 0, "zero-length frame")
			if zerosRecv > zerosSent {
				r.failf("%s reader: %d zero-length reads but only %d zero-length writes on this connection", name, zerosRecv, zerosSent)
				return
			}
			continue
		}
		if cur != nil {
			// continuation of an oversized payload: must be the next bytes of the same payload
			if n > cur.Len-curPos {
				r.failf("%s reader: frame of %d bytes while only %d bytes of writer %d seq %d (len %d) remain: data of another Write mixed in",
					name, n, cur.Len-curPos, cur.Writer, cur.Seq, cur.Len)
				return
			}
			if i := cur.match(got, curPos); i >= 0 {
				r.failf("%s reader: byte %d of writer %d seq %d (len %d) differs from what was written (frame %d of the stream, offset %d in frame): chunks of one Write are not contiguous/intact",
					name, curPos+i, cur.Writer, cur.Seq, cur.Len, frames, i)
				return
			}
			curPos += n
			r.note(name, n, fmt.Sprintf("w%d seq%d cont ->%d/%d", cur.Writer, cur.Seq, curPos, cur.Len))
			if curPos == cur.Len {
				cur = nil
			}
			continue
		}
		// a frame at a Write boundary
		w := int(got[0])
		if w == 0xff {
			d := payloadDesc{Conn: s.Conn, Dir: s.Dir, Writer: 0xff, Seq: 0xffffff, Len: patHdrLen, ID: id}
			if n != d.Len || d.match(got, 0) >= 0 {
				r.failf("%s reader: damaged end marker (%d bytes)", name, n)
				return
			}
			if r.fatalFault.Load() {
				return // the mux had to fail as a whole; writers stopped: a prefix is all that is demanded
			}
			for w, sizes := range s.Writers {
				// trailing zero-length payloads cannot be attributed; everything else must be there
				rest := 0
				for k := next[w]; k < len(sizes); k++ {
					if sizes[k] != 0 && !r.skip[si][w][k].Load() {
						rest++
					}
				}
				if rest != 0 {
					r.failf("%s reader: stream ended but %d payload(s) of writer %d from seq %d on never arrived (incomplete)", name, rest, w, next[w])
					return
				}
			}
			for w, sizes := range s.Writers {
				for k, l := range sizes {
					if l == 0 && r.skip[si][w][k].Load() {
						zerosSent--
					}
				}
			}
			if zerosRecv > zerosSent {
				r.failf("%s reader: %d zero-length reads but only %d zero-length writes succeeded on this connection", name, zerosRecv, zerosSent)
				return
			}
			if zerosRecv < zerosSent {
				r.failMu.Lock()
				r.lenient["zero_length_write_not_delivered"] = true
				r.failMu.Unlock()
			}
			return
		}
		if w >= len(s.Writers) {
			r.failf("%s reader: frame of %d bytes starts with byte %#x: not the start of any payload written to this connection (frame %d)", name, n, got[0], frames)
			return
		}
		// skip this writer's zero-length payloads (they carry no bytes and were counted above)
		seq := next[w]
		for seq < len(s.Writers[w]) && (s.Writers[w][seq] == 0 || r.skip[si][w][seq].Load()) {
			seq++ // (abandoned payloads - their Write failed - are not part of the stream)
		}
		if seq >= len(s.Writers[w]) {
			r.failf("%s reader: frame of %d bytes claims writer %d, whose payloads were all received already (duplicate or foreign data)", name, n, w)
			return
		}
		d := payloadDesc{Conn: s.Conn, Dir: s.Dir, Writer: w, Seq: seq, Len: s.Writers[w][seq], ID: id}
		if n > d.Len {
			r.failf("%s reader: frame of %d bytes at a Write boundary, but the next payload of writer %d (seq %d) has only %d bytes", name, n, w, seq, d.Len)
			return
		}
		if i := d.match(got, 0); i >= 0 {
			r.failf("%s reader: frame %d (%d bytes) is not the start of the next payload of writer %d (seq %d, len %d): first difference at byte %d (got header % x)",
				name, frames, n, w, seq, d.Len, i, got[:min(n, patHdrLen)])
			return
		}
		if d.Len <= maxPayload && n != d.Len {
			// message-at-a-time: a payload that fits one frame must arrive as one read
			r.failf("%s reader: payload of %d bytes (writer %d seq %d) arrived split: first read returned %d bytes", name, d.Len, w, seq, n)
			return
		}
		next[w] = seq + 1
		r.note(name, n, fmt.Sprintf("w%d seq%d len%d", w, seq, d.Len))
		if n < d.Len {
			cur = &d
			curPos = n
		}
	}
}

func c10NonTrivial(c C10Case) bool {
	var active [2]int
	for _, s := range c.Streams {
		for _, sizes := range s.Writers {
			if len(sizes) > 0 {
				active[s.Dir]++
			}
			for _, l := range sizes {
				if l > maxPayload {
					return true
				}
			}
		}
	}
	return active[0] >= 2 || active[1] >= 2
}

func c10Classes(c C10Case) []string {
	var cls []string
	sameConn, multi, zero, edge, lag := false, false, false, false, false
	var dirBytes [2]int
	var active [2]int
	for _, s := range c.Streams {
		n := 0
		for _, sizes := range s.Writers {
			if len(sizes) > 0 {
				n++
				active[s.Dir]++
			}
			for _, l := range sizes {
				dirBytes[s.Dir] += l + 1
				switch {
				case l == 0:
					zero = true
				case l > maxPayload:
					multi = true
				}
				if l >= maxPayload-1 && l <= maxPayload+1 {
					edge = true
				}
			}
		}
		if n >= 2 {
			sameConn = true
		}
		if s.LagEvery > 0 {
			lag = true
		}
	}
	switch {
	case sameConn:
		cls = append(cls, "concurrent_writers_same_conn")
	case active[0] >= 2 || active[1] >= 2:
		cls = append(cls, "concurrent_writers_same_trunk")
	default:
		cls = append(cls, "single_writer_per_direction")
	}
	switch n := len(c.IDs); {
	case n == 1:
		cls = append(cls, "ids:1")
	case n <= 4:
		cls = append(cls, "ids:2-4")
	default:
		cls = append(cls, "ids:5-8")
	}
	switch {
	case c.minQLen() == 1:
		cls = append(cls, "qlen:1")
	case c.minQLen() <= 16:
		cls = append(cls, "qlen:2-16")
	case c.minQLen() <= 256:
		cls = append(cls, "qlen:17-256")
	default:
		cls = append(cls, "qlen:above_default")
	}
	if max(c.qlenOf(0), c.qlenOf(1)) > defaultQLen {
		cls = append(cls, "some_qlen_above_default")
	}
	for _, b := range c.Bursts {
		cls = append(cls, "backlog_burst:"+b.Fill)
		if c.qlenOf(b.Side&1) > defaultQLen {
			cls = append(cls, "backlog_burst_above_default_qlen")
		}
	}
	if multi {
		cls = append(cls, "multi_frame_payload")
	}
	if zero {
		cls = append(cls, "zero_length_payload")
	}
	if edge {
		cls = append(cls, "payload_at_frame_limit")
	}
	if dirBytes[0] > 0 && dirBytes[1] > 0 {
		cls = append(cls, "bidirectional")
	}
	for _, id := range c.IDs {
		if id >= 1<<31 {
			cls = append(cls, "large_id")
			break
		}
	}
	if lag {
		cls = append(cls, "slow_reader")
	}
	if c.Blocked || c.BlockedRead[0] || c.BlockedRead[1] {
		cls = append(cls, "blocked_start")
	}
	if (c.BlockedRead[0] && c.UnblockAfter[0] > 0) || (c.BlockedRead[1] && c.UnblockAfter[1] > 0) {
		cls = append(cls, "unblock_after_peer_writes")
	}
	if c.QLenB > 0 && c.QLenB != c.QLen {
		cls = append(cls, "different_queue_lengths")
	}
	if c.OmitQLen[0] || c.OmitQLen[1] {
		cls = append(cls, "default_queue_length_option_omitted")
	}
	if len(c.Ghosts) > 0 {
		cls = append(cls, "writes_to_id_not_open_at_receiver")
		for _, g := range c.Ghosts {
			if g.Closed {
				cls = append(cls, "writes_to_id_closed_at_receiver")
				break
			}
		}
		for _, g := range c.Ghosts {
			if len(g.Sizes)*max(g.Repeat, 1) > 1024 {
				cls = append(cls, "over_1024_frames_to_unopened_ids")
				break
			}
		}
	}
	if len(c.Rounds) > 0 {
		cls = append(cls, "concurrent_open_rounds")
		for _, rd := range c.Rounds {
			if rd.Reopen {
				cls = append(cls, "concurrent_reopen_after_close")
				break
			}
		}
		for _, rd := range c.Rounds {
			if rd.Ghost > 0 {
				cls = append(cls, "write_before_id_is_opened")
				break
			}
		}
		for _, rd := range c.Rounds {
			if strings.ContainsAny(rd.Methods, "dl") {
				cls = append(cls, "concurrent_open_via_dialer_or_listener")
				break
			}
		}
	}
	for _, st := range c.Stalls {
		cls = append(cls, "stall_inside_frame:"+st.Where)
		if st.Ms >= 2000 {
			cls = append(cls, "long_stall_inside_frame")
		}
	}
	if len(c.WriteFaults) > 0 {
		cls = append(cls, "trunk_write_fault")
		for _, f := range c.WriteFaults {
			cls = append(cls, "write_fault:"+f.Class, "write_fault_then:"+f.OnFail)
			if f.Pos != "header" || f.Chunk != 0 {
				cls = append(cls, "write_fault_after_header")
			}
		}
	}
	if c.WriteDeadline != nil {
		cls = append(cls, "real_write_deadline")
	}
	if c.Mixed != nil && len(c.Mixed.Rounds) > 0 {
		cls = append(cls, "concurrent_open_and_close_rounds")
	}
	if len(c.Reopen) > 0 {
		cls = append(cls, "reopened_id")
		for _, ro := range c.Reopen {
			if ro.StaleClosers > 0 {
				cls = append(cls, "stale_handle_closed_again")
				break
			}
		}
	}
	if len(c.Delays) > 0 && verifhook.Enabled {
		cls = append(cls, "hook_delays")
	}
	seen := map[string]bool{}
	out := cls[:0]
	for _, k := range cls {
		if !seen[k] {
			seen[k] = true
			out = append(out, k)
		}
	}
	return out
}
