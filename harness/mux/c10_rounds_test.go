package mux

// C10: several goroutines acquire the handle of one connection id at the same time (Open,
// Dialer or Listen+Accept), at first open and at re-open after a Close. Whatever handles they
// got, what is read through the handles of the id is exactly what was written to the id.

import (
	"fmt"
	"net"
	"runtime"
	"sync"
	"sync/atomic"
	"time"

	"github.com/containerd/nri/pkg/net/multiplex"
	"pgregory.net/rapid"

	"nriverif/ev"
)

// C10OpenRound is one barrier round on a fresh connection id.
type C10OpenRound struct {
	Side    int    `json:"side"`
	Methods string `json:"methods"`          // one letter per acquiring goroutine: o = Open, d = Dialer, l = Listen+Accept
	Reopen  bool   `json:"reopen,omitempty"` // the id is opened and closed once before the round (re-open after Close)
	Frames  int    `json:"frames"`           // frames the peer writes; frame i is read through handle i mod k
	Back    int    `json:"back,omitempty"`   // frames written through the handles (frame j through handle j mod k), read by the peer
	// Ghost > 0: before the id is opened at Side the peer writes one frame of this many bytes
	// to it (dropped by design; a barrier makes sure it was dispatched before the Open)
	Ghost int `json:"ghost,omitempty"`
}

func genRounds(t *rapid.T, qlen int) []C10OpenRound {
	if rapid.IntRange(0, 4).Draw(t, "rounds") == 0 {
		return nil
	}
	g := rapid.Custom(func(t *rapid.T) C10OpenRound {
		return C10OpenRound{
			Side:    rapid.IntRange(0, 1).Draw(t, "side"),
			Methods: rapid.StringMatching(`[ood]{2}[oodl]{0,2}`).Draw(t, "methods"),
			Reopen:  rapid.IntRange(0, 2).Draw(t, "reopen") == 0,
			Frames:  rapid.IntRange(1, min(6, qlen)).Draw(t, "frames"),
			Back:    rapid.IntRange(0, min(3, qlen)).Draw(t, "back"),
			Ghost:   rapid.SampledFrom([]int{0, 0, 0, 1, 20, 64, 300, 5000}).Draw(t, "ghost"),
		}
	})
	return rapid.SliceOfN(g, 20, tierPick(30, 50)).Draw(t, "open_rounds")
}

// acquireConcurrently lets len(methods) goroutines, released together, acquire the handle of id
// on mux m. It returns the handles in goroutine order.
func acquireConcurrently(m multiplex.Mux, id uint32, methods string) ([]net.Conn, string, bool) {
	k := len(methods)
	handles := make([]net.Conn, k)
	errs := make([]error, k)
	var ready atomic.Int32
	var goFlag atomic.Bool
	var wg sync.WaitGroup
	for i := 0; i < k; i++ {
		wg.Add(1)
		go func(i int) {
			defer wg.Done()
			defer func() {
				if e := recover(); e != nil {
					errs[i] = fmt.Errorf("panic: %v", e)
				}
			}()
			ready.Add(1)
			for n := 0; !goFlag.Load(); n++ { // tight barrier
				if n > 2000 {
					runtime.Gosched()
				}
			}
			switch methods[i] {
			case 'd':
				handles[i], errs[i] = m.Dialer(multiplex.ConnID(id))("", "")
			case 'l':
				var l net.Listener
				if l, errs[i] = m.Listen(multiplex.ConnID(id)); errs[i] == nil {
					handles[i], errs[i] = l.Accept()
				}
			default:
				handles[i], errs[i] = m.Open(multiplex.ConnID(id))
			}
		}(i)
	}
	for n := 0; ready.Load() < int32(k); n++ {
		if n > 2000 {
			runtime.Gosched()
		}
	}
	goFlag.Store(true)
	done := make(chan struct{})
	go func() { wg.Wait(); close(done) }()
	select {
	case <-done:
	case <-time.After(c10StallAfter):
		return nil, fmt.Sprintf("concurrent acquisition of id=%d (%s) did not return within %v", id, methods, c10StallAfter), true
	}
	for i := range handles {
		if errs[i] != nil || handles[i] == nil {
			return nil, fmt.Sprintf("acquiring id=%d by method %q returned (%v, %v)", id, methods[i], handles[i], errs[i]), false
		}
	}
	return handles, "", false
}

type rwResult struct {
	n   int
	err error
}

func timedRead(c net.Conn, buf []byte) (rwResult, bool) {
	ch := make(chan rwResult, 1)
	go func() {
		defer func() {
			if e := recover(); e != nil {
				ch <- rwResult{err: fmt.Errorf("panic: %v", e)}
			}
		}()
		n, err := c.Read(buf)
		ch <- rwResult{n, err}
	}()
	select {
	case r := <-ch:
		return r, true
	case <-time.After(c10StallAfter):
		return rwResult{}, false
	}
}

// runOpenRounds executes the barrier rounds on fresh ids. It returns a verdict ("" = fine),
// whether the verdict is a stall (to be confirmed by re-execution) and how many rounds ended
// with all acquirers holding the same handle.
func runOpenRounds(c C10Case, p *muxPair, alloc *idAllocator) (string, bool, int) {
	bp := getBuf()
	defer putBuf(bp)
	buf := *bp
	same := 0
	for ri, rd := range c.Rounds {
		if len(rd.Methods) < 1 || rd.Side < 0 || rd.Side > 1 {
			continue
		}
		id := alloc.fresh()
		S, P := rd.Side, 1-rd.Side
		where := fmt.Sprintf("round %d (id=%d, mux %d, acquirers %q, reopen=%v)", ri, id, S, rd.Methods, rd.Reopen)
		if rd.Reopen {
			h0, err := p.m[S].Open(multiplex.ConnID(id))
			if err != nil || h0 == nil {
				return fmt.Sprintf("%s: first Open returned (%v, %v)", where, h0, err), false, same
			}
			_ = h0.Close()
		}
		var peer net.Conn
		if rd.Ghost > 0 {
			var err error
			if peer, err = p.m[P].Open(multiplex.ConnID(id)); err != nil || peer == nil {
				return fmt.Sprintf("%s: Open on the peer returned (%v, %v)", where, peer, err), false, same
			}
			d := payloadDesc{Conn: ri, Dir: P, Writer: 9, Seq: 0, Len: rd.Ghost, ID: id}
			b := make([]byte, d.Len)
			d.fill(b)
			if n, err := peer.Write(b); err != nil || n != len(b) {
				return fmt.Sprintf("%s: Write of %d bytes to the id not open at the receiver returned (%d, %v)", where, len(b), n, err), false, same
			}
			// barrier on the first connection of the case: once its marker has arrived the frame
			// above has been dispatched (dropped) by the receiving mux
			if _, err := p.conns[P][0].Write([]byte{0xA5}); err != nil {
				return fmt.Sprintf("%s: barrier Write returned %v", where, err), false, same
			}
			r, ok := timedRead(p.conns[S][0], buf)
			if !ok {
				return fmt.Sprintf("%s: incomplete: the barrier frame written to id=%d was not delivered within %v", where, c.IDs[0], c10StallAfter), true, same
			}
			if r.err != nil || r.n != 1 || buf[0] != 0xA5 {
				return fmt.Sprintf("%s: barrier read on id=%d returned (%d bytes, %v) instead of the 1 byte written", where, c.IDs[0], r.n, r.err), false, same
			}
		}
		handles, bad, stall := acquireConcurrently(p.m[S], id, rd.Methods)
		if bad != "" {
			return where + ": " + bad, stall, same
		}
		identical := true
		for _, h := range handles {
			if h != handles[0] {
				identical = false
			}
		}
		if identical {
			same++
		}
		if peer == nil {
			var err error
			if peer, err = p.m[P].Open(multiplex.ConnID(id)); err != nil || peer == nil {
				return fmt.Sprintf("%s: Open on the peer returned (%v, %v)", where, peer, err), false, same
			}
		}
		k := len(handles)
		// peer -> id: frame i is read through handle i mod k, one after the other
		frames := min(max(rd.Frames, 0), c.minQLen())
		for i := 0; i < frames; i++ {
			d := payloadDesc{Conn: ri, Dir: P, Writer: 3, Seq: i, Len: 4 + 7*i, ID: id}
			b := make([]byte, d.Len)
			d.fill(b)
			if n, err := peer.Write(b); err != nil || n != len(b) {
				return fmt.Sprintf("%s: Write of frame %d (%d bytes) returned (%d, %v)", where, i, len(b), n, err), false, same
			}
		}
		for i := 0; i < frames; i++ {
			d := payloadDesc{Conn: ri, Dir: P, Writer: 3, Seq: i, Len: 4 + 7*i, ID: id}
			r, ok := timedRead(handles[i%k], buf)
			if !ok {
				return fmt.Sprintf("%s: incomplete: frame %d of %d written to the id was not delivered within %v to the handle acquirer %d (%q) received for the id",
					where, i, frames, c10StallAfter, i%k, rd.Methods[i%k]), true, same
			}
			if r.err != nil {
				return fmt.Sprintf("%s: Read through the handle of acquirer %d returned %v", where, i%k, r.err), false, same
			}
			if r.n != d.Len || d.match(buf[:r.n], 0) >= 0 {
				return fmt.Sprintf("%s: read %d through the handle of acquirer %d returned %d bytes that are not frame %d written to the id (%d bytes): lost, reordered or damaged data",
					where, i, i%k, r.n, i, d.Len), false, same
			}
		}
		// id -> peer: frame j is written through handle j mod k
		back := min(max(rd.Back, 0), c.minQLen())
		for j := 0; j < back; j++ {
			d := payloadDesc{Conn: ri, Dir: S, Writer: 3, Seq: j, Len: 9 + 5*j, ID: id}
			b := make([]byte, d.Len)
			d.fill(b)
			if n, err := handles[j%k].Write(b); err != nil || n != len(b) {
				return fmt.Sprintf("%s: Write through the handle of acquirer %d returned (%d, %v)", where, j%k, n, err), false, same
			}
			r, ok := timedRead(peer, buf)
			if !ok {
				return fmt.Sprintf("%s: incomplete: frame %d written through the handle of acquirer %d did not arrive at the peer within %v", where, j, j%k, c10StallAfter), true, same
			}
			if r.err != nil || r.n != d.Len || d.match(buf[:r.n], 0) >= 0 {
				return fmt.Sprintf("%s: the peer read (%d bytes, %v) instead of frame %d (%d bytes) written through the handle of acquirer %d", where, r.n, r.err, j, d.Len, j%k), false, same
			}
		}
	}
	return "", false, same
}

var _ = ev.Outcome{}
