package mux

// C10: several goroutines acquire the handle of one connection id at the same time (Open,
// Dialer or Listen+Accept), at first open and at re-open after a Close. Whatever handles they
// got, what is read through the handles of the id is exactly what was written to the id.

import (
	"fmt"
	"net"
	"runtime"
	"sync"
	"sync/atomic"
	"testing"
	"time"

	"github.com/containerd/nri/pkg/net/multiplex"
	"pgregory.net/rapid"

	"nriverif/ev"
)

// C10OpenRound is one barrier round on a fresh connection id.
type C10OpenRound struct {
	Side    int    `json:"side"`
	Methods string `json:"methods"`          // one letter per acquiring goroutine: o = Open, d = Dialer, l = Listen+Accept
	Reopen  bool   `json:"reopen,omitempty"` // the id is opened and closed once before the round (re-open after Close)
	Frames  int    `json:"frames"`           // frames the peer writes; frame i is read through handle i mod k
	Back    int    `json:"back,omitempty"`   // frames written through the handles (frame j through handle j mod k), read by the peer
	// Ghost > 0: before the id is opened at Side the peer writes one frame of this many bytes
	// to it (dropped by design; a barrier makes sure it was dispatched before the Open)
	Ghost int `json:"ghost,omitempty"`
}

func genRounds(t *rapid.T, qlen int) []C10OpenRound {
	if rapid.IntRange(0, 4).Draw(t, "rounds") == 0 {
		return nil
	}
	g := rapid.Custom(func(t *rapid.T) C10OpenRound {
		return C10OpenRound{
			Side:    rapid.IntRange(0, 1).Draw(t, "side"),
			Methods: rapid.StringMatching(`[ood]{2}[oodl]{0,2}`).Draw(t, "methods"),
			Reopen:  rapid.IntRange(0, 2).Draw(t, "reopen") == 0,
			Frames:  rapid.IntRange(1, min(6, qlen)).Draw(t, "frames"),
			Back:    rapid.IntRange(0, min(3, qlen)).Draw(t, "back"),
			Ghost:   rapid.SampledFrom([]int{0, 0, 0, 1, 20, 64, 300, 5000}).Draw(t, "ghost"),
		}
	})
	return rapid.SliceOfN(g, 20, tierPick(30, 50)).Draw(t, "open_rounds")
}

// acquireConcurrently lets len(methods) goroutines, released together, acquire the handle of id
// on mux m. It returns the handles in goroutine order.
func acquireConcurrently(m multiplex.Mux, id uint32, methods string) ([]net.Conn, string, bool) {
	k := len(methods)
	handles := make([]net.Conn, k)
	errs := make([]error, k)
	var ready atomic.Int32
	var goFlag atomic.Bool
	var wg sync.WaitGroup
	for i := 0; i < k; i++ {
		wg.Add(1)
		go func(i int) {
			defer wg.Done()
			defer func() {
				if e := recover(); e != nil {
					errs[i] = fmt.Errorf("panic: %v", e)
				}
			}()
			ready.Add(1)
			for n := 0; !goFlag.Load(); n++ { // tight barrier
				if n > 2000 {
					runtime.Gosched()
				}
			}
			switch methods[i] {
			case 'd':
				handles[i], errs[i] = m.Dialer(multiplex.ConnID(id))("", "")
			case 'l':
				var l net.Listener
				if l, errs[i] = m.Listen(multiplex.ConnID(id)); errs[i] == nil {
					handles[i], errs[i] = l.Accept()
				}
			default:
				handles[i], errs[i] = m.Open(multiplex.ConnID(id))
			}
		}(i)
	}
	for n := 0; ready.Load() < int32(k); n++ {
		if n > 2000 {
			runtime.Gosched()
		}
	}
	goFlag.Store(true)
	done := make(chan struct{})
	go func() { wg.Wait(); close(done) }()
	select {
	case <-done:
	case <-time.After(c10StallAfter):
		return nil, fmt.Sprintf("concurrent acquisition of id=%d (%s) did not return within %v", id, methods, c10StallAfter), true
	}
	for i := range handles {
		if errs[i] != nil || handles[i] == nil {
			return nil, fmt.Sprintf("acquiring id=%d by method %q returned (%v, %v)", id, methods[i], handles[i], errs[i]), false
		}
	}
	return handles, "", false
}

type rwResult struct {
	n   int
	err error
}

func timedRead(c net.Conn, buf []byte) (rwResult, bool) {
	ch := make(chan rwResult, 1)
	go func() {
		defer func() {
			if e := recover(); e != nil {
				ch <- rwResult{err: fmt.Errorf("panic: %v", e)}
			}
		}()
		n, err := c.Read(buf)
		ch <- rwResult{n, err}
	}()
	select {
	case r := <-ch:
		return r, true
	case <-time.After(c10StallAfter):
		return rwResult{}, false
	}
}

// runOpenRounds executes the barrier rounds on fresh ids. It returns a verdict ("" = fine),
// whether the verdict is a stall (to be confirmed by re-execution) and how many rounds ended
// with all acquirers holding the same handle.
func runOpenRounds(c C10Case, p *muxPair, alloc *idAllocator) (string, bool, int) {
	bp := getBuf()
	defer putBuf(bp)
	buf := *bp
	same := 0
	for ri, rd := range c.Rounds {
		if len(rd.Methods) < 1 || rd.Side < 0 || rd.Side > 1 {
			continue
		}
		id := alloc.fresh()
		S, P := rd.Side, 1-rd.Side
		where := fmt.Sprintf("round %d (id=%d, mux %d, acquirers %q, reopen=%v)", ri, id, S, rd.Methods, rd.Reopen)
		if rd.Reopen {
			h0, err := p.m[S].Open(multiplex.ConnID(id))
			if err != nil || h0 == nil {
				return fmt.Sprintf("%s: first Open returned (%v, %v)", where, h0, err), false, same
			}
			_ = h0.Close()
		}
		var peer net.Conn
		if rd.Ghost > 0 {
			var err error
			if peer, err = p.m[P].Open(multiplex.ConnID(id)); err != nil || peer == nil {
				return fmt.Sprintf("%s: Open on the peer returned (%v, %v)", where, peer, err), false, same
			}
			d := payloadDesc{Conn: ri, Dir: P, Writer: 9, Seq: 0, Len: rd.Ghost, ID: id}
			b := make([]byte, d.Len)
			d.fill(b)
			if n, err := peer.Write(b); err != nil || n != len(b) {
				return fmt.Sprintf("%s: Write of %d bytes to the id not open at the receiver returned (%d, %v)", where, len(b), n, err), false, same
			}
			// barrier on the first connection of the case: once its marker has arrived the frame
			// above has been dispatched (dropped) by the receiving mux
			if _, err := p.conns[P][0].Write([]byte{0xA5}); err != nil {
				return fmt.Sprintf("%s: barrier Write returned %v", where, err), false, same
			}
			r, ok := timedRead(p.conns[S][0], buf)
			if !ok {
				return fmt.Sprintf("%s: incomplete: the barrier frame written to id=%d was not delivered within %v", where, c.IDs[0], c10StallAfter), true, same
			}
			if r.err != nil || r.n != 1 || buf[0] != 0xA5 {
				return fmt.Sprintf("%s: barrier read on id=%d returned (%d bytes, %v) instead of the 1 byte written", where, c.IDs[0], r.n, r.err), false, same
			}
		}
		handles, bad, stall := acquireConcurrently(p.m[S], id, rd.Methods)
		if bad != "" {
			return where + ": " + bad, stall, same
		}
		identical := true
		for _, h := range handles {
			if h != handles[0] {
				identical = false
			}
		}
		if identical {
			same++
		}
		if peer == nil {
			var err error
			if peer, err = p.m[P].Open(multiplex.ConnID(id)); err != nil || peer == nil {
				return fmt.Sprintf("%s: Open on the peer returned (%v, %v)", where, peer, err), false, same
			}
		}
		k := len(handles)
		// peer -> id: frame i is read through handle i mod k, one after the other
		frames := min(max(rd.Frames, 0), c.minQLen())
		for i := 0; i < frames; i++ {
			d := payloadDesc{Conn: ri, Dir: P, Writer: 3, Seq: i, Len: 4 + 7*i, ID: id}
			b := make([]byte, d.Len)
			d.fill(b)
			if n, err := peer.Write(b); err != nil || n != len(b) {
				return fmt.Sprintf("%s: Write of frame %d (%d bytes) returned (%d, %v)", where, i, len(b), n, err), false, same
			}
		}
		for i := 0; i < frames; i++ {
			d := payloadDesc{Conn: ri, Dir: P, Writer: 3, Seq: i, Len: 4 + 7*i, ID: id}
			r, ok := timedRead(handles[i%k], buf)
			if !ok {
				return fmt.Sprintf("%s: incomplete: frame %d of %d written to the id was not delivered within %v to the handle acquirer %d (%q) received for the id",
					where, i, frames, c10StallAfter, i%k, rd.Methods[i%k]), true, same
			}
			if r.err != nil {
				return fmt.Sprintf("%s: Read through the handle of acquirer %d returned %v", where, i%k, r.err), false, same
			}
			if r.n != d.Len || d.match(buf[:r.n], 0) >= 0 {
				return fmt.Sprintf("%s: read %d through the handle of acquirer %d returned %d bytes that are not frame %d written to the id (%d bytes): lost, reordered or damaged data",
					where, i, i%k, r.n, i, d.Len), false, same
			}
		}
		// id -> peer: frame j is written through handle j mod k
		back := min(max(rd.Back, 0), c.minQLen())
		for j := 0; j < back; j++ {
			d := payloadDesc{Conn: ri, Dir: S, Writer: 3, Seq: j, Len: 9 + 5*j, ID: id}
			b := make([]byte, d.Len)
			d.fill(b)
			if n, err := handles[j%k].Write(b); err != nil || n != len(b) {
				return fmt.Sprintf("%s: Write through the handle of acquirer %d returned (%d, %v)", where, j%k, n, err), false, same
			}
			r, ok := timedRead(peer, buf)
			if !ok {
				return fmt.Sprintf("%s: incomplete: frame %d written through the handle of acquirer %d did not arrive at the peer within %v", where, j, j%k, c10StallAfter), true, same
			}
			if r.err != nil || r.n != d.Len || d.match(buf[:r.n], 0) >= 0 {
				return fmt.Sprintf("%s: the peer read (%d bytes, %v) instead of frame %d (%d bytes) written through the handle of acquirer %d", where, r.n, r.err, j, d.Len, j%k), false, same
			}
		}
	}
	return "", false, same
}

var _ = ev.Outcome{}

// ---------------------------------------------------------------------------------------
// mixed rounds: on one mux end several goroutines, released together, change the set of open
// connections at the same time - Open/Dialer/Listen+Accept of a new id, Close of an open
// connection of another id, re-Open of a closed id. Afterwards every id that is open by the
// model must still receive exactly what is written to it, and a closed connection nothing.

// C10Mixed: Rounds[i] has one letter per goroutine of round i: o = Open of a new id, d = Dialer,
// l = Listen+Accept, c = Close of the longest open connection, r = re-Open of the longest
// closed id (a new id if none is closed).
type C10Mixed struct {
	Side   int      `json:"side"`
	Rounds []string `json:"rounds"`
}

func genMixed(t *rapid.T) *C10Mixed {
	if rapid.IntRange(0, 3).Draw(t, "mixed") == 0 {
		return nil
	}
	return &C10Mixed{
		Side:   rapid.IntRange(0, 1).Draw(t, "mixed_side"),
		Rounds: rapid.SliceOfN(rapid.StringMatching(`[odlr]c[odlrc]{0,2}`), tierPick(60, 150), tierPick(100, 250)).Draw(t, "mixed_rounds"),
	}
}

type mixedConn struct {
	id     uint32
	h      net.Conn // handle at the mux under test
	peer   net.Conn
	seq    int
	closed bool
}

// runMixedRounds returns a verdict ("" = fine) and whether it is a stall that has to be
// confirmed by re-execution.
func runMixedRounds(c C10Case, p *muxPair, alloc *idAllocator) (string, bool) {
	mx := c.Mixed
	if mx == nil || mx.Side < 0 || mx.Side > 1 || len(c.IDs) == 0 {
		return "", false
	}
	S, P := mx.Side, 1-mx.Side
	bp := getBuf()
	defer putBuf(bp)
	buf := *bp
	var open, closed []*mixedConn
	newConn := func() (*mixedConn, string) {
		id := alloc.fresh()
		peer, err := p.m[P].Open(multiplex.ConnID(id))
		if err != nil || peer == nil {
			return nil, fmt.Sprintf("Open(%d) on the peer returned (%v, %v)", id, peer, err)
		}
		return &mixedConn{id: id, peer: peer}, ""
	}
	for i := 0; i < 3; i++ {
		mc, bad := newConn()
		if bad != "" {
			return bad, false
		}
		h, err := p.m[S].Open(multiplex.ConnID(mc.id))
		if err != nil || h == nil {
			return fmt.Sprintf("Open(%d) returned (%v, %v)", mc.id, h, err), false
		}
		mc.h = h
		open = append(open, mc)
	}
	// verify: the peer writes one tagged frame to each listed id, then a marker to the first
	// connection of the case. The trunk is FIFO and the receiving mux dispatches frames one
	// after the other, so once the marker has arrived every frame written before it has been
	// dispatched: a frame that is not in its connection's queue then will never arrive.
	verify := func(where string, conns []*mixedConn) (string, bool) {
		for _, mc := range conns {
			w := 4
			if mc.closed {
				w = 5
			}
			d := payloadDesc{Conn: 0xfffe, Dir: P, Writer: w, Seq: mc.seq, Len: 3 + mc.seq%29, ID: mc.id}
			b := make([]byte, d.Len)
			d.fill(b)
			if n, err := mc.peer.Write(b); err != nil || n != len(b) {
				return fmt.Sprintf("%s: Write of %d bytes to id=%d returned (%d, %v)", where, len(b), mc.id, n, err), false
			}
		}
		if _, err := p.conns[P][0].Write([]byte{0xA6}); err != nil {
			return fmt.Sprintf("%s: barrier Write returned %v", where, err), false
		}
		r, ok := timedRead(p.conns[S][0], buf)
		if !ok {
			return fmt.Sprintf("%s: incomplete: the barrier frame written to id=%d was not delivered within %v", where, c.IDs[0], c10StallAfter), true
		}
		if r.err != nil || r.n != 1 || buf[0] != 0xA6 {
			return fmt.Sprintf("%s: barrier read on id=%d returned (%d bytes, %v) instead of the 1 byte written", where, c.IDs[0], r.n, r.err), false
		}
		for _, mc := range conns {
			if mc.closed {
				// a closed connection hands out nothing that was written after its Close
				for k := 0; k < 4; k++ {
					r, ok := timedRead(mc.h, buf)
					if !ok {
						return fmt.Sprintf("%s: Read on the closed connection id=%d did not return within %v", where, mc.id, c10StallAfter), true
					}
					if r.err == nil {
						return fmt.Sprintf("%s: the closed connection id=%d handed out %d bytes that were written to the id after it had been closed", where, mc.id, r.n), false
					}
				}
				mc.seq++
				continue
			}
			d := payloadDesc{Conn: 0xfffe, Dir: P, Writer: 4, Seq: mc.seq, Len: 3 + mc.seq%29, ID: mc.id}
			r, ok := timedRead(mc.h, buf)
			if !ok {
				return fmt.Sprintf("%s: incomplete: the frame written to the open id=%d was dropped: a frame written after it on the same trunk was delivered, this one is not in the connection's queue (Read blocked for %v)",
					where, mc.id, c10StallAfter), false
			}
			if r.err != nil {
				return fmt.Sprintf("%s: Read on the open connection id=%d returned %v instead of the frame written to it", where, mc.id, r.err), false
			}
			if r.n != d.Len || d.match(buf[:r.n], 0) >= 0 {
				return fmt.Sprintf("%s: Read on id=%d returned %d bytes that are not the frame written to it (%d bytes)", where, mc.id, r.n, d.Len), false
			}
			mc.seq++
		}
		return "", false
	}
	for ri, ops := range mx.Rounds {
		where := fmt.Sprintf("mixed round %d (mux %d, %q)", ri, S, ops)
		type job struct {
			op byte
			mc *mixedConn
			h  net.Conn
			e  error
		}
		var jobs []*job
		for i := 0; i < len(ops); i++ {
			op := ops[i]
			switch op {
			case 'c':
				if len(open) == 0 {
					continue
				}
				jobs = append(jobs, &job{op: 'c', mc: open[0]})
				open = open[1:]
			case 'r':
				if len(closed) > 0 {
					jobs = append(jobs, &job{op: 'r', mc: closed[0]})
					closed = closed[1:]
					continue
				}
				op = 'o'
				fallthrough
			default:
				if len(open)+len(jobs) >= 10 {
					continue
				}
				mc, bad := newConn()
				if bad != "" {
					return where + ": " + bad, false
				}
				jobs = append(jobs, &job{op: op, mc: mc})
			}
		}
		var ready atomic.Int32
		var goFlag atomic.Bool
		var wg sync.WaitGroup
		for _, j := range jobs {
			wg.Add(1)
			go func(j *job) {
				defer wg.Done()
				defer func() {
					if e := recover(); e != nil {
						j.e = fmt.Errorf("panic: %v", e)
					}
				}()
				ready.Add(1)
				for n := 0; !goFlag.Load(); n++ {
					if n > 2000 {
						runtime.Gosched()
					}
				}
				id := multiplex.ConnID(j.mc.id)
				switch j.op {
				case 'c':
					j.e = j.mc.h.Close()
				case 'd':
					j.h, j.e = p.m[S].Dialer(id)("", "")
				case 'l':
					var l net.Listener
					if l, j.e = p.m[S].Listen(id); j.e == nil {
						j.h, j.e = l.Accept()
					}
				default: // o, r
					j.h, j.e = p.m[S].Open(id)
				}
			}(j)
		}
		for n := 0; ready.Load() < int32(len(jobs)); n++ {
			if n > 2000 {
				runtime.Gosched()
			}
		}
		goFlag.Store(true)
		done := make(chan struct{})
		go func() { wg.Wait(); close(done) }()
		select {
		case <-done:
		case <-time.After(c10StallAfter):
			return fmt.Sprintf("%s: the concurrent Open/Close calls did not return within %v", where, c10StallAfter), true
		}
		var touched []*mixedConn
		for _, j := range jobs {
			if j.e != nil || (j.op != 'c' && j.h == nil) {
				return fmt.Sprintf("%s: operation %q on id=%d returned (%v, %v)", where, j.op, j.mc.id, j.h, j.e), false
			}
			if j.op == 'c' {
				j.mc.closed = true
				closed = append(closed, j.mc)
			} else {
				j.mc.closed = false
				j.mc.h = j.h
				open = append(open, j.mc)
			}
			touched = append(touched, j.mc)
		}
		if ri%16 == 15 || ri == len(mx.Rounds)-1 {
			touched = append(append([]*mixedConn{}, open...), closed...)
		}
		if bad, stall := verify(where, touched); bad != "" {
			return bad, stall
		}
		if len(closed) > 12 {
			closed = closed[len(closed)-12:]
		}
	}
	return "", false
}

// ---------------------------------------------------------------------------------------
// backlog bursts: the peer writes a burst of small frames to a connection nobody reads yet; the
// burst approaches the configured queue length of the receiving mux from below. The reader
// starts late (after a barrier: everything has been dispatched) and must get every frame.

// C10Burst: Fill is how many frames relative to the queue length of mux Side: full (= qlen),
// full-1, half. Size is the payload size of the frames (small).
type C10Burst struct {
	Side int    `json:"side"`
	Fill string `json:"fill"`
	Size int    `json:"size"`
}

func genBursts(t *rapid.T) []C10Burst {
	if rapid.IntRange(0, 2).Draw(t, "bursts") == 0 {
		return nil
	}
	return rapid.SliceOfN(rapid.Custom(func(t *rapid.T) C10Burst {
		return C10Burst{Side: rapid.IntRange(0, 1).Draw(t, "bside"),
			Fill: rapid.SampledFrom([]string{"full", "full", "full-1", "half"}).Draw(t, "bfill"),
			Size: rapid.SampledFrom([]int{0, 1, 4, 16, 17}).Draw(t, "bsize")}
	}), 1, 3).Draw(t, "bursts")
}

func burstFrames(qlen int, fill string) int {
	switch fill {
	case "full-1":
		return max(qlen-1, 1)
	case "half":
		return max(qlen/2, 1)
	}
	return qlen
}

func runBursts(c C10Case, p *muxPair, alloc *idAllocator) (string, bool) {
	bp := getBuf()
	defer putBuf(bp)
	buf := *bp
	for bi, b := range c.Bursts {
		S := b.Side & 1
		P := 1 - S
		qlen := c.qlenOf(S)
		n := burstFrames(qlen, b.Fill)
		id := alloc.fresh()
		where := fmt.Sprintf("burst %d (id=%d, %d frames towards mux %d whose queue length is %d)", bi, id, n, S, qlen)
		h, err := p.m[S].Open(multiplex.ConnID(id))
		if err != nil || h == nil {
			return fmt.Sprintf("%s: Open returned (%v, %v)", where, h, err), false
		}
		peer, err := p.m[P].Open(multiplex.ConnID(id))
		if err != nil || peer == nil {
			return fmt.Sprintf("%s: Open on the peer returned (%v, %v)", where, peer, err), false
		}
		// the writes may have to wait for the receiving mux to take the bytes off the socket:
		// run them beside a watchdog
		werr := make(chan string, 1)
		go func() {
			for i := 0; i < n; i++ {
				d := payloadDesc{Conn: 0xfffd, Dir: P, Writer: 6, Seq: i, Len: max(b.Size, 0) % 64, ID: id}
				fb := make([]byte, d.Len)
				d.fill(fb)
				if k, err := peer.Write(fb); err != nil || k != len(fb) {
					werr <- fmt.Sprintf("%s: Write of frame %d returned (%d, %v) although the backlog never exceeds the configured queue length", where, i, k, err)
					return
				}
			}
			if _, err := p.conns[P][0].Write([]byte{0xA7}); err != nil {
				werr <- fmt.Sprintf("%s: barrier Write returned %v", where, err)
				return
			}
			werr <- ""
		}()
		select {
		case bad := <-werr:
			if bad != "" {
				return bad, false
			}
		case <-time.After(c10StallAfter):
			return fmt.Sprintf("%s: the Writes of the burst did not return within %v", where, c10StallAfter), true
		}
		r, ok := timedRead(p.conns[S][0], buf)
		if !ok {
			return fmt.Sprintf("%s: incomplete: the barrier frame written to id=%d was not delivered within %v", where, c.IDs[0], c10StallAfter), true
		}
		if r.err != nil || r.n != 1 || buf[0] != 0xA7 {
			return fmt.Sprintf("%s: barrier read on id=%d returned (%d bytes, %v) instead of the 1 byte written: the multiplexer failed although no backlog exceeded the configured queue length", where, c.IDs[0], r.n, r.err), false
		}
		// the late reader
		for i := 0; i < n; i++ {
			d := payloadDesc{Conn: 0xfffd, Dir: P, Writer: 6, Seq: i, Len: max(b.Size, 0) % 64, ID: id}
			r, ok := timedRead(h, buf)
			if !ok {
				return fmt.Sprintf("%s: incomplete: frame %d of the burst was dropped (the barrier frame written after it was delivered; Read blocked for %v)", where, i, c10StallAfter), false
			}
			if r.err != nil {
				return fmt.Sprintf("%s: Read returned %v after %d frames of the burst although the backlog (%d unread frames) never exceeded the configured queue length %d", where, r.err, i, n, qlen), false
			}
			if r.n != d.Len || d.match(buf[:r.n], 0) >= 0 {
				return fmt.Sprintf("%s: read %d returned %d bytes that are not frame %d of the burst (%d bytes)", where, i, r.n, i, d.Len), false
			}
		}
	}
	return "", false
}

// TestExh_C10: directed sweep of the queue length (run in shard 0 only): for each length a
// burst of exactly qlen and of qlen-1 unread frames towards either end is delivered completely.
func TestExh_C10(t *testing.T) {
	rec := ev.Get("C10")
	defer rec.Flush()
	n := 0
	for _, q := range []int{1, 2, 3, 255, 256, 257, 300, 512, 1024, 4096} {
		for side := 0; side < 2; side++ {
			for _, other := range []int{1, q} {
				c := C10Case{QLen: q, QLenB: other, IDs: []uint32{7}}
				if side == 1 {
					c.QLen, c.QLenB = other, q
				}
				for _, fill := range []string{"full", "full-1", "half"} {
					c.Bursts = append(c.Bursts, C10Burst{Side: side, Fill: fill, Size: 1 + n%5})
				}
				raw := ev.Snapshot(c)
				rec.Journal(raw)
				o := runC10(c)
				rec.ClearJournal()
				rec.Record(raw, o)
				n++
				if o.Fail != "" {
					exhFailed.Store(true)
					t.Fatalf("C10 (queue length sweep): %s\ncase: %s", o.Fail, raw)
				}
			}
		}
	}
	// directed: thousands of frames for ids that are not open at the receiver, beside a conversation
	// on an open id in both directions, which must stay complete and in order
	for side := 0; side < 2; side++ {
		conv := make([]int, 40)
		for i := range conv {
			conv[i] = 3 + i%23
		}
		c := C10Case{QLen: 8, IDs: []uint32{21},
			Streams: []C10Stream{{Conn: 0, Dir: 0, Writers: [][]int{conv}, LagEvery: 3, LagUs: 100}, {Conn: 0, Dir: 1, Writers: [][]int{conv}, LagEvery: 2, LagUs: 100}},
			Ghosts:  []C10Ghost{{Dir: side, Sizes: []int{1, 0, 9, 40}, Repeat: 700}, {Dir: side, Closed: true, Sizes: []int{5}, Repeat: 300}}}
		raw := ev.Snapshot(c)
		rec.Journal(raw)
		o := runC10(c)
		rec.ClearJournal()
		rec.Record(raw, o)
		n++
		if o.Fail != "" {
			exhFailed.Store(true)
			t.Fatalf("C10 (many frames for unopened ids): %s\ncase: %s", o.Fail, raw)
		}
	}
	// two directed cases with a stall of 2.6 s inside one frame (between header and payload, and
	// in the middle of a 64k payload), run side by side: nothing is lost, so everything has to
	// arrive and nothing may fail, however long the sender takes for a frame
	var swg sync.WaitGroup
	var smu sync.Mutex
	sfail := ""
	for i, where := range []string{"before_payload", "mid_payload"} {
		c := C10Case{QLen: 4, IDs: []uint32{uint32(11 + i)},
			Streams: []C10Stream{{Conn: 0, Dir: i, Writers: [][]int{{5, 65536, 17, 4096}}}, {Conn: 0, Dir: 1 - i, Writers: [][]int{{3, 9}}}},
			Stalls:  []C10Stall{{Side: i, Frame: 1, Where: where, Ms: 2600}}}
		swg.Add(1)
		go func() {
			defer swg.Done()
			raw := ev.Snapshot(c)
			o := runC10(c)
			rec.Record(raw, o)
			if o.Fail != "" {
				smu.Lock()
				sfail = fmt.Sprintf("%s\ncase: %s", o.Fail, raw)
				smu.Unlock()
			}
		}()
		n++
	}
	swg.Wait()
	if sfail != "" {
		exhFailed.Store(true)
		t.Fatalf("C10 (long stall inside a frame): %s", sfail)
	}
	rec.SetExtra("directed_long_stalls", "2 cases: the sending trunk pauses 2.6 s between header and payload, and in the middle of a 64k payload")
	rec.SetExtra("exhaustive_queue_lengths", fmt.Sprintf("bursts of qlen, qlen-1 and qlen/2 unread frames towards either end for qlen in {1, 2, 3, 255, 256, 257, 300, 512, 1024, 4096}: %d cases", n))
}
