package mux

// C11: closing one logical connection, re-opening the same id and closing the stale handle
// again. The stale handle must not affect the new incarnation of the id.

import (
	"fmt"
	"net"
	"sync"
	"time"

	"github.com/containerd/nri/pkg/net/multiplex"
)

type staleSet struct {
	ro      C11Reopen
	handles []net.Conn // closed handles of earlier incarnations (Side first, then the peer's)
	queued  int        // frames of the old incarnation left in the old handle's queue
}

// timed runs f and reports a hang if it does not return within hangAfter.
func (r *c11run) timed(what string, f func()) bool {
	done := make(chan struct{})
	go func() {
		defer close(done)
		defer r.recoverPanic(what)
		f()
	}()
	select {
	case <-done:
		return true
	case <-time.After(hangAfter):
		r.hangf("%s did not return within %v", what, hangAfter)
		return false
	}
}

func oldDesc(conn, dir, k int, id uint32) payloadDesc {
	return payloadDesc{Conn: conn, Dir: dir, Writer: 1, Seq: k, Len: 3 + 5*k, ID: id}
}

// prologue executes the Reopen entries of the case, one after the other, before any traffic of
// the case: optional traffic to the old incarnation (completely dispatched before the Close,
// guaranteed by a barrier on a separate connection), Close, Open of the same id (on one or
// both ends), optional repeated Close of the stale handle(s). Nothing is sent on the id while
// it is closed at either end. It returns false if the case cannot go on.
func (r *c11run) prologue() bool {
	c := r.c
	for _, ro := range c.Reopen {
		if ro.Conn < 0 || ro.Conn >= len(c.IDs) || ro.Side < 0 || ro.Side > 1 {
			continue
		}
		S, P, i := ro.Side, 1-ro.Side, ro.Conn
		id := r.ids[i]
		old := r.p.conns[S][i]
		st := &staleSet{ro: ro}
		if ro.OldFrames > 0 && r.syncConn != 0 && !r.pending[S].Load() {
			ok := r.timed("traffic to the first incarnation of the connection", func() {
				peer := r.p.conns[P][i]
				for k := 0; k < ro.OldFrames; k++ {
					d := oldDesc(i, P, k, id)
					b := make([]byte, d.Len)
					d.fill(b)
					if n, err := peer.Write(b); err != nil || n != len(b) {
						r.failf("id=%d: Write of %d bytes before any failure returned (%d, %v)", id, len(b), n, err)
						return
					}
				}
				// barrier: the marker is dispatched after everything sent before it
				if _, err := r.p.conns[P][r.syncConn].Write([]byte{0xA5}); err != nil {
					r.failf("barrier Write before any failure returned %v", err)
					return
				}
				bp := getBuf()
				defer putBuf(bp)
				if n, err := r.p.conns[S][r.syncConn].Read(*bp); err != nil || n != 1 {
					r.failf("barrier Read before any failure returned (%d, %v)", n, err)
					return
				}
				for k := 0; k < ro.OldRead && k < ro.OldFrames; k++ {
					d := oldDesc(i, P, k, id)
					n, err := old.Read(*bp)
					if err != nil {
						r.failf("id=%d: Read of a queued frame before any failure returned %v", id, err)
						return
					}
					if n != d.Len || d.match((*bp)[:n], 0) >= 0 {
						r.failf("id=%d: frame #%d read from the first incarnation (%d bytes) is not the %d-th frame sent (%d bytes): gap, duplicate or damaged frame", id, k, n, k, d.Len)
						return
					}
				}
			})
			if !ok || r.fail != "" {
				return false
			}
			if ro.OldFrames > ro.OldRead {
				st.queued = ro.OldFrames - ro.OldRead
				r.addClass("old_frames_left_queued")
			}
		}
		ok := r.timed(fmt.Sprintf("Close of connection id=%d and re-Open", id), func() {
			for j := 0; j < max(1, ro.Repeat); j++ {
				_ = old.Close()
			}
			st.handles = append(st.handles, old)
			if ro.Both {
				peerOld := r.p.conns[P][i]
				_ = peerOld.Close()
				st.handles = append(st.handles, peerOld)
				nc, err := r.p.m[P].Open(multiplex.ConnID(id))
				if err != nil || nc == nil {
					r.failf("re-Open(%d) on mux %d returned (%v, %v)", id, P, nc, err)
					return
				}
				r.p.conns[P][i] = nc
			}
			if len(ro.Openers) > 1 {
				hs, bad, _ := acquireConcurrently(r.p.m[S], id, ro.Openers)
				if bad != "" {
					r.failf("concurrent re-open on mux %d: %s", S, bad)
					return
				}
				r.p.conns[S][i] = hs[0]
				r.addClass("reopened_by_concurrent_openers")
				return
			}
			nc, err := r.p.m[S].Open(multiplex.ConnID(id))
			if err != nil || nc == nil {
				r.failf("re-Open(%d) on mux %d returned (%v, %v)", id, S, nc, err)
				return
			}
			r.p.conns[S][i] = nc
		})
		if !ok || r.fail != "" {
			return false
		}
		r.stale = append(r.stale, st)
		r.addClass("reopened_id")
		if ro.Both {
			r.addClass("reopened_both_ends")
		}
		if ro.StaleBefore > 0 {
			if !r.closeStale(st, ro.StaleBefore, "before the traffic") {
				return false
			}
			r.addClass("stale_close_before_traffic")
		}
	}
	return true
}

// closeStale closes the stale handle(s) again: `closers` goroutines per handle, each calling
// Close StaleRepeat times.
func (r *c11run) closeStale(st *staleSet, closers int, when string) bool {
	id := r.ids[st.ro.Conn]
	return r.timed(fmt.Sprintf("repeated Close of the stale handle of id=%d %s", id, when), func() {
		var wg sync.WaitGroup
		for _, h := range st.handles {
			for k := 0; k < closers; k++ {
				wg.Add(1)
				go func(h net.Conn) {
					defer wg.Done()
					defer r.recoverPanic("repeated Close of a stale handle")
					for j := 0; j < max(1, st.ro.StaleRepeat); j++ {
						_ = h.Close()
					}
				}(h)
			}
		}
		wg.Wait()
	})
}

// drainStale: frames of the first incarnation that were queued when it was closed stay with
// the old handle; whatever it still hands out must be those frames, in order; afterwards it
// returns errors, promptly.
func (r *c11run) drainStale() {
	for _, st := range r.stale {
		st := st
		if len(st.handles) == 0 {
			continue
		}
		i := st.ro.Conn
		id := r.ids[i]
		r.timed(fmt.Sprintf("Read/Write on the stale handle of id=%d after both multiplexers were closed", id), func() {
			bp := getBuf()
			defer putBuf(bp)
			old := st.handles[0]
			next := st.ro.OldRead
			// Read on a closed connection picks at random between the error and the next queued frame:
			// errors before the queue is drained say nothing; once it is drained Read has to fail
			drainedErr := false
			for k := 0; k < st.queued+errsToStop; k++ {
				n, err := old.Read(*bp)
				if err != nil {
					if next >= st.ro.OldFrames {
						drainedErr = true
						break
					}
					continue
				}
				if next >= st.ro.OldFrames {
					r.failf("id=%d: the closed first incarnation handed out a frame of %d bytes after all %d frames sent to it had been read (duplicate or foreign frame)", id, n, st.ro.OldFrames)
					return
				}
				d := oldDesc(i, 1-st.ro.Side, next, id)
				if n != d.Len || d.match((*bp)[:n], 0) >= 0 {
					r.failf("id=%d: frame read from the closed first incarnation (%d bytes) is not frame #%d sent to it (%d bytes): gap, duplicate or damaged frame", id, n, next, d.Len)
					return
				}
				next++
			}
			if next >= st.ro.OldFrames && !drainedErr {
				if n, err := old.Read(*bp); err == nil {
					r.failf("id=%d: Read on the closed handle returned %d bytes after all %d frames sent to it had been read (must fail)", id, n, st.ro.OldFrames)
					return
				}
			}
			for _, h := range st.handles {
				if _, werr := h.Write([]byte{1}); werr == nil {
					r.failf("id=%d: Write on a closed (stale) handle succeeded", id)
					return
				}
			}
		})
	}
}

// lateOpens opens connection ids on a multiplexer that has failed or was closed already. Every
// Read and Write on such a connection has to return promptly and to fail: it must not hang.
// (Open returning an error instead is accepted and counted.) For an id that nobody ever wrote
// to any data is a violation; an id that was open before may still be handed frames the
// reader goroutine had taken off the trunk when the mux was closed (accepted, counted).
func (r *c11run) lateOpens(when string) {
	if r.hang != "" || r.fail != "" {
		return
	}
	if r.lateIDs == nil {
		r.lateIDs = newIDAllocator(r.ids)
	}
	for li, lo := range r.c.Late {
		if lo.When != when || r.hang != "" {
			continue
		}
		side := lo.Side & 1
		reuse := lo.Reuse && lo.Conn >= 0 && lo.Conn < len(r.c.IDs)
		var id uint32
		if reuse {
			id = r.ids[lo.Conn]
		} else {
			id = r.lateIDs.fresh()
		}
		what := fmt.Sprintf("late open %d (id=%d on mux %d by %q, %s)", li, id, side, lo.Method, when)
		// the failure has reached this end once its canary connection is closed
		if r.canary != 0 {
			select {
			case <-r.canaryDone[side]:
			case <-time.After(hangAfter):
				r.hangf("after the failure (%s) mux %d did not close its connections within %v (a Read on an idle connection is still blocked)", r.c.Failure.Kind, side, hangAfter)
				return
			}
		}
		r.timed(what, func() {
			if reuse {
				_ = r.p.conns[side][lo.Conn].Close() // leaves the table: the id is not open any more
			}
			var h net.Conn
			var err error
			switch lo.Method {
			case "d":
				h, err = r.p.m[side].Dialer(multiplex.ConnID(id))("", "")
			case "l":
				var l net.Listener
				if l, err = r.p.m[side].Listen(multiplex.ConnID(id)); err == nil {
					h, err = l.Accept()
				}
			default:
				h, err = r.p.m[side].Open(multiplex.ConnID(id))
			}
			if err != nil || h == nil {
				r.addClass("late_open_refused")
				return
			}
			r.addClass("opened_after_failure:" + when)
			if reuse {
				r.addClass("late_open_of_formerly_open_id")
			}
			bp := getBuf()
			defer putBuf(bp)
			// reads: errors, possibly mixed with a few frames on a re-used id; never blocking
			errs, frames := 0, 0
			for k := 0; k < 100000 && errs < errsToStop; k++ {
				n, err := h.Read(*bp)
				if err != nil {
					errs++
					continue
				}
				errs = 0
				frames++
				if !reuse {
					r.failf("%s: Read on a connection opened after the multiplexer had failed returned %d bytes although nobody ever wrote to this id", what, n)
					return
				}
			}
			if frames > 0 {
				r.addClass("late_open_got_frames_still_in_flight")
			}
			if errs < errsToStop {
				r.failf("%s: Read on a connection opened after the multiplexer had failed keeps returning data (%d frames)", what, frames)
				return
			}
			if n, err := h.Write([]byte{0xEE}); err == nil {
				r.failf("%s: Write on a connection opened after the multiplexer had failed succeeded (n=%d)", what, n)
			}
		})
	}
}
