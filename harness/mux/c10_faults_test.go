package mux

// C10: the trunk's Write fails once with (0, err) and works again afterwards (the multiplexer
// survives), and a real write deadline on Mux.Trunk(). What the peer reads on each id is
// exactly the sequence of payloads whose Write calls succeeded: no phantom, no duplicate.

import (
	"encoding/binary"
	"net"
	"os"
	"sync"
	"syscall"
	"time"

	"pgregory.net/rapid"

	"nriverif/ev"
)

// C10WriteFault: when the single writer of stream Stream writes its payload number Payload, the
// trunk Write carrying the header (Pos "header") or the payload (Pos "payload") of chunk Chunk
// of that payload fails with (0, error of class Class); nothing is written by that call.
// OnFail: what the writer does when its Write failed although nothing of the payload had been
// sent (a "clean" failure: header of the first chunk): "retry" the same payload or "abandon" it.
type C10WriteFault struct {
	Stream  int    `json:"stream"`
	Payload int    `json:"payload"`
	Chunk   int    `json:"chunk,omitempty"`
	Pos     string `json:"pos"`
	Class   string `json:"class"` // timeout | eagain | temporary | other
	OnFail  string `json:"on_fail"`
}

// C10Deadline: Mux.Trunk().SetWriteDeadline(now) on one end while no Write of the harness is in
// progress there, cleared again HoldUs later; Writes started in between fail cleanly.
type C10Deadline struct {
	Side        int `json:"side"`
	AfterWrites int `json:"after_writes"`
	HoldUs      int `json:"hold_us"`
}

// afterHeaderFaults: faults after the header of a frame (or in a later chunk of an oversized
// payload). The multiplexer has to fail as a whole then (D18, fixed in 77509ba; the shape can
// be switched off with VERIF_MUX_AFTER_HEADER_FAULTS=0 or a known-finding entry).
func afterHeaderFaults() bool {
	return os.Getenv("VERIF_MUX_AFTER_HEADER_FAULTS") != "0" && !ev.Known("write-fault-after-header")
}

func genWriteFaults(t *rapid.T, c *C10Case) {
	if rapid.IntRange(0, 1).Draw(t, "write_faults") == 0 {
		n := rapid.IntRange(1, 3).Draw(t, "nfaults")
		for i := 0; i < n; i++ {
			si := rapid.IntRange(0, len(c.Streams)-1).Draw(t, "fault_stream")
			s := &c.Streams[si]
			// the fault is aimed at the frames of one id: that needs a single writer on the stream
			s.Writers = s.Writers[:1]
			if len(s.Writers[0]) == 0 {
				s.Writers[0] = []int{rapid.IntRange(0, 300).Draw(t, "fault_size")}
			}
			f := C10WriteFault{Stream: si, Pos: "header",
				Payload: rapid.IntRange(0, len(s.Writers[0])-1).Draw(t, "fault_payload"),
				Class:   rapid.SampledFrom([]string{"timeout", "timeout", "eagain", "temporary", "other"}).Draw(t, "fault_class"),
				OnFail:  rapid.SampledFrom([]string{"retry", "abandon"}).Draw(t, "on_fail")}
			if afterHeaderFaults() && rapid.IntRange(0, 2).Draw(t, "after_header") == 0 {
				f.Pos = rapid.SampledFrom([]string{"payload", "header", "payload"}).Draw(t, "fault_pos")
				f.Chunk = rapid.IntRange(0, nFrames(s.Writers[0][f.Payload])-1).Draw(t, "fault_chunk")
				if f.Pos == "header" && f.Chunk == 0 && nFrames(s.Writers[0][f.Payload]) > 1 {
					f.Chunk = 1
				}
			}
			c.WriteFaults = append(c.WriteFaults, f)
		}
	}
	if rapid.IntRange(0, 5).Draw(t, "write_deadline") == 0 {
		c.WriteDeadline = &C10Deadline{Side: rapid.IntRange(0, 1).Draw(t, "dl_side"),
			AfterWrites: rapid.IntRange(0, 10).Draw(t, "dl_after"),
			HoldUs:      rapid.SampledFrom([]int{0, 50, 300, 1000, 3000}).Draw(t, "dl_hold")}
	}
}

func writeErrOf(class string) error {
	switch class {
	case "timeout":
		return &net.OpError{Op: "write", Net: "unix", Err: os.ErrDeadlineExceeded}
	case "eagain":
		return &net.OpError{Op: "write", Net: "unix", Err: os.NewSyscallError("write", syscall.EAGAIN)}
	case "temporary":
		return &net.OpError{Op: "write", Net: "unix", Err: tempError{}}
	}
	return errHarnessCut
}

// C10Stall: the trunk of mux Side pauses once for Ms milliseconds inside frame number Frame
// (counted over the frames that mux sends): between the header and the payload, or in the
// middle of the payload. No byte is lost; everything has to be delivered all the same.
type C10Stall struct {
	Side  int    `json:"side"`
	Frame int    `json:"frame"`
	Where string `json:"where"` // before_payload | mid_payload
	Ms    int    `json:"ms"`
}

func genStalls(t *rapid.T) []C10Stall {
	if rapid.IntRange(0, 3).Draw(t, "stalls") != 0 {
		return nil
	}
	return rapid.SliceOfN(rapid.Custom(func(t *rapid.T) C10Stall {
		return C10Stall{Side: rapid.IntRange(0, 1).Draw(t, "st_side"), Frame: rapid.IntRange(0, 30).Draw(t, "st_frame"),
			Where: rapid.SampledFrom([]string{"before_payload", "mid_payload"}).Draw(t, "st_where"),
			Ms:    rapid.SampledFrom([]int{1, 5, 20, 60}).Draw(t, "st_ms")}
	}), 1, 2).Draw(t, "stalls")
}

// faultReq is armed by a writer right before its Write and taken back afterwards.
type faultReq struct {
	id    uint32
	chunk int
	pos   string
	err   error
	seen  int  // chunks of the id seen since the request was armed
	fired bool // the failure was injected
	clean bool // ... before anything of the payload was on the wire
}

// faultConn wraps a trunk socket and follows the frames written to it (the multiplexer writes
// the 8-byte header and the payload of a frame with separate calls, or both at once).
type faultConn struct {
	net.Conn
	mu            sync.Mutex
	req           *faultReq
	expectPayload bool
	failPayload   bool
	onFatal       func()
	stalls        []C10Stall // pauses inside a frame (this side's entries)
	frames        int        // headers that went out
	stallNow      *C10Stall  // the payload that follows pauses
}

func (c *faultConn) arm(r *faultReq) {
	c.mu.Lock()
	c.req = r
	c.mu.Unlock()
}

func (c *faultConn) disarm() {
	c.mu.Lock()
	c.req = nil
	c.failPayload = false
	c.mu.Unlock()
}

func (c *faultConn) Write(p []byte) (int, error) {
	c.mu.Lock()
	if c.expectPayload {
		c.expectPayload = false
		if c.failPayload && c.req != nil {
			c.failPayload = false
			c.req.fired, c.req.clean = true, false
			err := c.req.err
			fatal := c.onFatal
			c.mu.Unlock()
			fatal() // the header of this frame is on the wire already
			return 0, err
		}
		st := c.stallNow
		c.stallNow = nil
		c.mu.Unlock()
		if st != nil {
			pause := time.Duration(st.Ms) * time.Millisecond
			if st.Where == "mid_payload" && len(p) >= 2 {
				n, err := c.Conn.Write(p[:len(p)/2])
				if err != nil {
					return n, err
				}
				time.Sleep(pause)
				m, err := c.Conn.Write(p[len(p)/2:])
				return n + m, err
			}
			time.Sleep(pause)
		}
		return c.Conn.Write(p)
	}
	if len(p) >= muxHdrLen {
		id := binary.BigEndian.Uint32(p[0:4])
		if r := c.req; r != nil && !r.fired && r.id == id {
			if r.seen == r.chunk {
				if r.pos == "header" || len(p) > muxHdrLen {
					r.fired, r.clean = true, r.seen == 0
					err, fatal, clean := r.err, c.onFatal, r.seen == 0
					c.mu.Unlock()
					if !clean {
						fatal() // earlier chunks of the payload were delivered as frames already
					}
					return 0, err
				}
				c.failPayload = true
			}
			r.seen++
		}
		// the payload follows only if the header goes out (a real write deadline may refuse it);
		// header and payload may also come in one call
		hdrOnly := len(p) == muxHdrLen
		c.mu.Unlock()
		n, err := c.Conn.Write(p)
		if hdrOnly && err == nil && n == len(p) {
			c.mu.Lock()
			c.expectPayload = true
			for i := range c.stalls {
				if c.stalls[i].Frame == c.frames {
					c.stallNow = &c.stalls[i]
				}
			}
			c.frames++
			c.mu.Unlock()
		}
		return n, err
	}
	c.mu.Unlock()
	return c.Conn.Write(p)
}
