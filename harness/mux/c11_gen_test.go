package mux

// C11 — the multiplexer fails stop: case type, generator and the trunk fault wrapper.

import (
	"io"
	"net"
	"os"
	"sync"
	"sync/atomic"
	"syscall"

	"github.com/containerd/nri/pkg/verifhook"
	"pgregory.net/rapid"
)

// C11Stream is the traffic of one (connection, direction); a single writer sends Sizes in
// order (so "prefix" is well defined). Dir 0 = mux A -> mux B, 1 = B -> A.
type C11Stream struct {
	Conn      int   `json:"conn"`
	Dir       int   `json:"dir"`
	Sizes     []int `json:"sizes"`
	LagEvery  int   `json:"lag_every,omitempty"`
	LagUs     int   `json:"lag_us,omitempty"`
	Stalled   bool  `json:"stalled,omitempty"`    // the reader starts reading only once the writer is done/out of credits or a failure was seen
	NoCredits bool  `json:"no_credits,omitempty"` // overflow stream: the writer does not wait for the reader
}

// C11Failure is the failure event of the case.
type C11Failure struct {
	Kind        string `json:"kind"` // none | close_mux | close_conn | cut_write | cut_read | read_error | deadline | overflow
	Side        int    `json:"side"` // mux that is closed / whose trunk is faulty
	Conn        int    `json:"conn,omitempty"`
	Closers     int    `json:"closers,omitempty"`
	Repeat      int    `json:"repeat,omitempty"`
	AfterWrites int    `json:"after_writes,omitempty"` // trigger: the n-th Write (over all writers) is about to start
	HookPoint   string `json:"hook_point,omitempty"`   // alternative trigger: n-th hit of a yield point
	HookHit     int    `json:"hook_hit,omitempty"`
	DelayUs     int    `json:"delay_us,omitempty"`
	CutAfter    int64  `json:"cut_after,omitempty"` // cut_*: bytes let through before the trunk fails
	Half        bool   `json:"half,omitempty"`      // cut_write: only the write direction is shut down
	CutWhere    string `json:"cut_where,omitempty"` // how CutAfter was chosen (informational: class histogram)
	// read_error: after CutAfter bytes the trunk's Read returns an error of this class once
	// (timeout | eagain | eintr | temporary | noprogress | eof | other) and then goes on
	// delivering; ErrWithData: the error comes together with the last bytes (n > 0, err)
	ErrClass    string `json:"err_class,omitempty"`
	ErrWithData bool   `json:"err_with_data,omitempty"`
}

// C11Close describes the orderly Close that ends every case.
type C11Close struct {
	Side    int `json:"side"`
	Closers int `json:"closers"`
	Repeat  int `json:"repeat"`
}

// C11Reopen closes one logical connection before the traffic starts and opens the same id
// again (a new incarnation); the stale handle is then closed again at drawn points. The
// traffic of the case uses the new handle.
type C11Reopen struct {
	Side      int  `json:"side"`
	Conn      int  `json:"conn"`
	Both      bool `json:"both,omitempty"`       // the peer closes and re-opens its handle as well
	OldFrames int  `json:"old_frames,omitempty"` // frames the peer sends to the old incarnation (<= queue length), all dispatched before Close
	OldRead   int  `json:"old_read,omitempty"`   // how many of them the old handle reads before it is closed
	Repeat    int  `json:"repeat,omitempty"`     // the first Close is called this many times
	// Openers: the id is re-opened on Side by several goroutines at the same time (one letter
	// each: o = Open, d = Dialer); the case uses the handle the first of them received
	Openers string `json:"openers,omitempty"`
	// repeated Close of the stale handle(s): number of concurrent closers (0 = not at this point)
	StaleBefore      int `json:"stale_before,omitempty"` // after the re-open, before any traffic
	StaleDuring      int `json:"stale_during,omitempty"` // when the StaleAfterWrites-th Write is about to start
	StaleAfterWrites int `json:"stale_after_writes,omitempty"`
	StaleQuiet       int `json:"stale_quiet,omitempty"` // when all traffic is done, before the final Close
	StaleRepeat      int `json:"stale_repeat,omitempty"`
}

// C11LateOpen: a connection id is opened AFTER the multiplexer has failed or was closed: right
// after the failure of the case has taken effect (When "after_failure": the mux was closed
// locally, or noticed the peer's Close / the trunk failure / the overflow by itself) or at the
// very end (both ends closed locally). Reuse: the id of connection Conn of the case, whose
// handle is closed first (so that it leaves the table); otherwise an id never used before.
type C11LateOpen struct {
	Side   int    `json:"side"`
	Method string `json:"method"` // o = Open, d = Dialer, l = Listen + Accept
	Reuse  bool   `json:"reuse,omitempty"`
	Conn   int    `json:"conn,omitempty"`
	When   string `json:"when"` // after_failure | at_end
}

// C11Listener is the second, small sub-case kind: the net.Listener returned by Mux.Listen.
type C11Listener struct {
	AcceptorsBefore []int `json:"acceptors_before"` // per goroutine started before Close: number of Accept calls
	PauseUs         int   `json:"pause_us"`         // pause between starting the acceptors and Close
	Closers         int   `json:"closers"`
	Repeat          int   `json:"repeat"`
	AcceptsAfter    int   `json:"accepts_after"` // Accept calls made after Close returned
	UseConn         bool  `json:"use_conn"`      // send a payload through the accepted connection before Close
	// Reopen: the accepted connection is closed by its user and the id is opened again before the
	// listener is closed (which closes the wrapped, stale connection once more); the peer sends
	// FramesBefore/FramesAfter small frames to the new handle before/after the listener's Close,
	// then the mux CloseSide is closed.
	Reopen       bool `json:"reopen,omitempty"`
	FramesBefore int  `json:"frames_before,omitempty"`
	FramesAfter  int  `json:"frames_after,omitempty"`
	CloseSide    int  `json:"close_side,omitempty"`
}

// C11MuxOpt: options of one multiplexer. A mux created WithBlockedRead does not read from the
// trunk before Unblock is called: before any traffic, when the AfterWrites-th Write towards it
// is about to start (at the latest DelayMs after the traffic started), after the first Close of
// a mux in the case, or never.
type C11MuxOpt struct {
	Blocked     bool   `json:"blocked,omitempty"`
	Unblock     string `json:"unblock,omitempty"` // before_traffic | after_writes | after_close | never
	AfterWrites int    `json:"after_writes,omitempty"`
	DelayMs     int    `json:"delay_ms,omitempty"`
	OmitQLen    bool   `json:"omit_qlen,omitempty"` // WithReadQueueLength not passed (only where the length is the default 256)
	// FdTrunk: the trunk of this end is made by nrinet.NewFdConn from a (dup'ed) descriptor of the
	// socket pair - the way pkg/stub makes the trunk of a launched plugin - instead of LocalConn/PeerConn
	FdTrunk bool `json:"fd_trunk,omitempty"`
}

// late: the mux may still be blocked while the traffic of the case runs.
func (o C11MuxOpt) late() bool { return o.Blocked && o.Unblock != "" && o.Unblock != "before_traffic" }

// held: the mux stays blocked until a Close (or for ever).
func (o C11MuxOpt) held() bool {
	return o.Blocked && (o.Unblock == "after_close" || o.Unblock == "never")
}

type C11Case struct {
	Kind     string        `json:"kind"` // mux | listener
	QLen     int           `json:"qlen"`
	Blocked  bool          `json:"blocked,omitempty"` // older cases: both ends blocked, unblocked before any traffic
	Opts     [2]C11MuxOpt  `json:"mux_opts,omitempty"`
	IDs      []uint32      `json:"ids"`
	Streams  []C11Stream   `json:"streams,omitempty"`
	Failure  C11Failure    `json:"failure"`
	Final    C11Close      `json:"final"`
	Delays   []Delay       `json:"delays,omitempty"`
	Reopen   []C11Reopen   `json:"reopen,omitempty"`
	Late     []C11LateOpen `json:"late_opens,omitempty"`
	Listener *C11Listener  `json:"listener,omitempty"`
	Storm    *C11Storm     `json:"storm,omitempty"`
	Flood    *C11Flood     `json:"flood,omitempty"`
}

func genClosers(t *rapid.T) (int, int) {
	return rapid.SampledFrom([]int{1, 1, 2, 3, 4, 8}).Draw(t, "closers"), rapid.SampledFrom([]int{1, 1, 2, 3}).Draw(t, "repeat")
}

func genC11(t *rapid.T) C11Case {
	kind := rapid.SampledFrom([]string{
		"close_mux", "close_mux", "close_mux", "close_mux", "close_mux", "close_mux",
		"cut_write", "cut_write", "cut_write", "cut_write",
		"storm", "storm", "storm",
		"flood", "flood", "flood",
		"listener", "listener",
		"overflow", "overflow", "overflow",
		"cut_read", "cut_read",
		"read_error", "read_error", "read_error", "read_error",
		"deadline", "deadline",
		"close_conn", "close_conn", "close_conn", "close_conn",
		"none", "none", "none",
		"listener",
	}).Draw(t, "kind")
	if kind == "listener" {
		return genC11Listener(t)
	}
	if kind == "storm" {
		return genC11Storm(t)
	}
	if kind == "flood" {
		return genC11Flood(t)
	}
	c := C11Case{Kind: "mux"}
	if kind == "overflow" {
		c.QLen = rapid.OneOf(rapid.IntRange(1, 8), rapid.IntRange(1, 64), rapid.SampledFrom([]int{1, 2, 255, 256, 257, 300, 1024})).Draw(t, "qlen")
	} else {
		c.QLen = genQLen(t)
	}
	c.IDs = genIDs(t, rapid.SampledFrom([]int{1, 1, 2, 2, 3, 4, 8}).Draw(t, "nids"))
	budget := tierPick(8<<20, 24<<20)
	maxPayloads := tierPick(8, 16)
	for ci := range c.IDs {
		for dir := 0; dir < 2; dir++ {
			s := C11Stream{Conn: ci, Dir: dir}
			n := rapid.IntRange(0, maxPayloads).Draw(t, "npayloads")
			s.Sizes = make([]int, n)
			for i := range s.Sizes {
				s.Sizes[i] = genSize(t, &budget, c.QLen, 1)
			}
			switch rapid.IntRange(0, 5).Draw(t, "reader") {
			case 0:
				s.LagEvery = rapid.IntRange(1, 4).Draw(t, "lag_every")
				s.LagUs = rapid.SampledFrom([]int{0, 100, 500, 1000}).Draw(t, "lag_us")
			case 1:
				s.Stalled = true
			}
			c.Streams = append(c.Streams, s)
		}
	}
	f := C11Failure{Kind: kind, Side: rapid.IntRange(0, 1).Draw(t, "side")}
	totalWrites := 0
	for _, s := range c.Streams {
		totalWrites += len(s.Sizes)
	}
	switch kind {
	case "close_mux", "close_conn":
		f.Closers, f.Repeat = genClosers(t)
		f.Conn = rapid.IntRange(0, len(c.IDs)-1).Draw(t, "fconn")
		f.AfterWrites = rapid.IntRange(0, totalWrites+1).Draw(t, "after")
		if verifhook.Enabled && rapid.IntRange(0, 2).Draw(t, "hooktrig") == 0 {
			f.HookPoint = rapid.SampledFrom([]string{"mux.write.payload", "mux.reader.queue", "mux.conn.read"}).Draw(t, "hookpoint")
			f.HookHit = rapid.IntRange(1, 2*totalWrites+2).Draw(t, "hookhit")
		}
		f.DelayUs = rapid.SampledFrom([]int{0, 0, 0, 50, 300, 1000}).Draw(t, "fdelay")
	case "deadline":
		f.AfterWrites = rapid.IntRange(0, totalWrites+1).Draw(t, "after")
		f.DelayUs = rapid.SampledFrom([]int{0, 50, 300, 1000, 3000}).Draw(t, "fdelay")
	case "cut_write", "cut_read", "read_error":
		dir := f.Side
		switch kind {
		case "cut_read":
			dir = 1 - f.Side
		case "read_error":
			dir = 1 - f.Side
			f.ErrClass = rapid.SampledFrom(readErrClasses).Draw(t, "err_class")
			f.ErrWithData = rapid.IntRange(0, 2).Draw(t, "err_with_data") == 0
		default:
			f.Half = rapid.IntRange(0, 3).Draw(t, "half") == 0
		}
		// byte layout of the direction if the streams were sent one after the other; with
		// several streams the real interleaving differs, the offsets still sweep all kinds
		// of positions
		var bounds []int64 // start offset of each frame
		var lens []int
		var total int64
		for _, s := range c.Streams {
			if s.Dir != dir {
				continue
			}
			for _, l := range s.Sizes {
				for rest, first := l, true; rest > 0 || first; first = false {
					n := rest
					if n > maxPayload {
						n = maxPayload
					}
					bounds = append(bounds, total)
					lens = append(lens, n)
					total += muxHdrLen + int64(n)
					rest -= n
				}
			}
		}
		mode := rapid.IntRange(0, 11).Draw(t, "cutmode")
		if len(bounds) == 0 {
			mode = 0
		}
		switch {
		case mode == 0:
			f.CutWhere = "first_header"
			f.CutAfter = rapid.Int64Range(0, muxHdrLen).Draw(t, "k")
		case mode <= 3: // a frame boundary (after frame i; i == len means the very end)
			f.CutWhere = "frame_boundary"
			i := rapid.IntRange(0, len(bounds)).Draw(t, "frame")
			if i == len(bounds) {
				f.CutAfter = total
			} else {
				f.CutAfter = bounds[i]
			}
		case mode <= 6: // inside a header
			f.CutWhere = "inside_header"
			i := rapid.IntRange(0, len(bounds)-1).Draw(t, "frame")
			f.CutAfter = bounds[i] + rapid.Int64Range(1, muxHdrLen-1).Draw(t, "hoff")
		case mode <= 9: // inside a payload (or right after the header)
			f.CutWhere = "inside_payload"
			i := rapid.IntRange(0, len(bounds)-1).Draw(t, "frame")
			off := int64(0)
			if lens[i] > 0 {
				off = rapid.OneOf(rapid.Int64Range(0, int64(lens[i])-1), rapid.SampledFrom([]int64{0, 1, int64(lens[i]) - 1})).Draw(t, "poff")
				if off < 0 {
					off = 0
				}
			}
			f.CutAfter = bounds[i] + muxHdrLen + off
		case mode == 10:
			f.CutWhere = "anywhere"
			f.CutAfter = rapid.Int64Range(0, total).Draw(t, "k")
		default:
			f.CutWhere = "beyond_all_traffic"
			f.CutAfter = total + rapid.Int64Range(1, 100).Draw(t, "beyond")
		}
	case "overflow":
		// one stream gets a stalled reader and more frames than the queue holds
		si := rapid.IntRange(0, len(c.Streams)-1).Draw(t, "ostream")
		s := &c.Streams[si]
		s.Stalled, s.NoCredits, s.LagEvery, s.LagUs = true, true, 0, 0
		f.Side = 1 - s.Dir // the mux whose queue overflows
		f.Conn = s.Conn
		n := c.QLen + 1 + rapid.IntRange(0, 3).Draw(t, "extra")
		s.Sizes = make([]int, n)
		for i := range s.Sizes {
			s.Sizes[i] = rapid.SampledFrom([]int{0, 1, 5, 16, 17, 64, 300, 4096, 70000}).Draw(t, "osize")
			if c.QLen > 16 && s.Sizes[i] > 300 {
				s.Sizes[i] = 17
			}
		}
	}
	c.Failure = f
	for sd := 0; sd < 2; sd++ {
		o := C11MuxOpt{OmitQLen: c.QLen == defaultQLen && rapid.Bool().Draw(t, "omit_qlen"), FdTrunk: rapid.IntRange(0, 2).Draw(t, "fd_trunk") == 0}
		switch rapid.SampledFrom([]string{"", "", "", "", "never", "after_close", "before_traffic", "after_writes", "never"}).Draw(t, "blocked_read") {
		case "":
		case "before_traffic":
			o.Blocked, o.Unblock = true, "before_traffic"
		case "after_writes":
			o.Blocked, o.Unblock = true, "after_writes"
			o.AfterWrites = rapid.IntRange(1, 8).Draw(t, "unblock_after")
			o.DelayMs = rapid.SampledFrom([]int{1, 2, 5, 20}).Draw(t, "unblock_delay")
		case "after_close":
			o.Blocked, o.Unblock = true, "after_close"
		case "never":
			o.Blocked, o.Unblock = true, "never"
		}
		if kind == "overflow" && sd == f.Side && o.late() {
			o.Unblock = "before_traffic" // the overflow needs a mux that reads its trunk
		}
		if o.held() {
			// nothing is taken off the trunk: keep what is sent towards this mux within its queue
			// length and the socket buffer, so that the writers do not wait for a reader
			for si := range c.Streams {
				st := &c.Streams[si]
				if st.Dir != 1-sd || st.NoCredits {
					continue
				}
				frames, bytes := 0, 0
				for i, l := range st.Sizes {
					if l > 4000 {
						l = l % 97
						st.Sizes[i] = l
					}
					frames++
					bytes += muxHdrLen + l
					if frames > c.QLen || bytes > 24<<10 {
						st.Sizes = st.Sizes[:i]
						break
					}
				}
			}
		}
		c.Opts[sd] = o
	}
	if rapid.IntRange(0, 9).Draw(t, "reopen") < 4 {
		n := rapid.IntRange(1, min(2, len(c.IDs))).Draw(t, "nreopen")
		first := rapid.IntRange(0, len(c.IDs)-1).Draw(t, "reopen_conn")
		for i := 0; i < n; i++ {
			ro := C11Reopen{Side: rapid.IntRange(0, 1).Draw(t, "ro_side"), Conn: (first + i) % len(c.IDs),
				Both: rapid.IntRange(0, 2).Draw(t, "ro_both") == 0, Repeat: rapid.SampledFrom([]int{1, 1, 2}).Draw(t, "ro_repeat")}
			if rapid.IntRange(0, 1).Draw(t, "ro_conc") == 0 {
				ro.Openers = rapid.StringMatching(`[od]{2,4}`).Draw(t, "ro_openers")
			}
			if rapid.IntRange(0, 2).Draw(t, "ro_old") == 0 && !c.Opts[ro.Side].late() {
				ro.OldFrames = rapid.IntRange(1, min(4, c.QLen)).Draw(t, "ro_oldframes")
				ro.OldRead = rapid.IntRange(0, ro.OldFrames).Draw(t, "ro_oldread")
			}
			closers := rapid.SampledFrom([]int{1, 1, 2, 4})
			switch rapid.IntRange(0, 5).Draw(t, "ro_when") {
			case 0, 1:
				ro.StaleBefore = closers.Draw(t, "ro_c")
			case 2, 3:
				ro.StaleDuring = closers.Draw(t, "ro_c")
			case 4:
				ro.StaleQuiet = closers.Draw(t, "ro_c")
			default:
				ro.StaleBefore, ro.StaleDuring, ro.StaleQuiet = closers.Draw(t, "ro_c1"), closers.Draw(t, "ro_c2"), closers.Draw(t, "ro_c3")
			}
			ro.StaleAfterWrites = rapid.IntRange(0, totalWrites+1).Draw(t, "ro_after")
			ro.StaleRepeat = rapid.SampledFrom([]int{1, 1, 2, 3}).Draw(t, "ro_srepeat")
			c.Reopen = append(c.Reopen, ro)
		}
	}
	if rapid.IntRange(0, 2).Draw(t, "late") != 0 {
		c.Late = rapid.SliceOfN(rapid.Custom(func(t *rapid.T) C11LateOpen {
			return C11LateOpen{Side: rapid.IntRange(0, 1).Draw(t, "lo_side"),
				Method: rapid.SampledFrom([]string{"o", "o", "d", "l"}).Draw(t, "lo_method"),
				Reuse:  rapid.IntRange(0, 2).Draw(t, "lo_reuse") == 0,
				Conn:   rapid.IntRange(0, len(c.IDs)-1).Draw(t, "lo_conn"),
				When:   rapid.SampledFrom([]string{"after_failure", "after_failure", "at_end"}).Draw(t, "lo_when")}
		}), 1, 4).Draw(t, "late_opens")
	}
	c.Final.Side = rapid.IntRange(0, 1).Draw(t, "final_side")
	c.Final.Closers, c.Final.Repeat = genClosers(t)
	c.Delays = genDelays(t, 5)
	return c
}

func genC11Listener(t *rapid.T) C11Case {
	c := C11Case{Kind: "listener", QLen: genQLen(t)}
	c.IDs = genIDs(t, rapid.IntRange(1, 2).Draw(t, "nids"))
	l := &C11Listener{}
	l.AcceptorsBefore = rapid.SliceOfN(rapid.IntRange(1, 3), 0, 4).Draw(t, "acceptors")
	l.PauseUs = rapid.SampledFrom([]int{0, 0, 100, 1000, 3000}).Draw(t, "pause")
	l.Closers, l.Repeat = genClosers(t)
	l.AcceptsAfter = rapid.IntRange(0, 3).Draw(t, "after")
	l.UseConn = rapid.Bool().Draw(t, "use")
	if rapid.IntRange(0, 1).Draw(t, "lreopen") == 0 {
		l.Reopen = true
		if len(l.AcceptorsBefore) == 0 {
			l.AcceptorsBefore = []int{1}
		}
		l.FramesBefore = rapid.IntRange(0, min(3, c.QLen)).Draw(t, "lfb")
		l.FramesAfter = rapid.IntRange(0, min(3, c.QLen-l.FramesBefore)).Draw(t, "lfa")
		l.CloseSide = rapid.IntRange(0, 1).Draw(t, "lcs")
	}
	c.Listener = l
	c.Failure.Kind = "listener"
	c.Delays = genDelays(t, 3)
	return c
}

// ---------------------------------------------------------------------------------------
// trunk fault: a net.Conn that lets exactly k bytes through in one direction and then fails

type cutConn struct {
	net.Conn
	wLimit, rLimit int64 // -1: unlimited
	half           bool
	mu             sync.Mutex // serialises Write accounting (the mux writes under its own lock anyway)
	wN, rN         int64
	cut            atomic.Bool
	armed          atomic.Bool // counting starts once armed: after all ids were opened and the prologue is over
	gate           bool        // Read waits until armed (exact offsets); false: passes through uncounted until then
	armedC         chan struct{}
	closedC        chan struct{}
	armOnce        sync.Once
	closeOnce      sync.Once
	// error injection instead of a cut: Read fails once with injErr at the offset and the
	// socket stays open; onInject(expectFailure) is called at that moment
	injErr   error
	injData  bool
	injected atomic.Bool
	onInject func(expectFailure bool)
	onCut    func()
}

func (c *cutConn) doCut() {
	if c.cut.CompareAndSwap(false, true) {
		if c.onCut != nil {
			c.onCut()
		}
		if c.half {
			if u, ok := c.Conn.(*net.UnixConn); ok {
				_ = u.CloseWrite()
				return
			}
		}
		_ = c.Conn.Close()
	}
}

func (c *cutConn) arm() {
	c.armOnce.Do(func() { c.armed.Store(true); close(c.armedC) })
}

func (c *cutConn) Close() error {
	c.closeOnce.Do(func() { close(c.closedC) })
	return c.Conn.Close()
}

func (c *cutConn) Write(p []byte) (int, error) {
	if c.wLimit < 0 || !c.armed.Load() {
		return c.Conn.Write(p)
	}
	c.mu.Lock()
	defer c.mu.Unlock()
	if c.cut.Load() {
		return 0, errHarnessCut
	}
	room := c.wLimit - c.wN
	if room <= 0 && len(p) > 0 {
		c.doCut()
		return 0, errHarnessCut
	}
	if int64(len(p)) < room {
		n, err := c.Conn.Write(p)
		c.wN += int64(n)
		return n, err
	}
	n, err := c.Conn.Write(p[:room])
	c.wN += int64(n)
	if err != nil {
		return n, err
	}
	c.doCut()
	if n == len(p) {
		return n, nil // the cut falls exactly behind this write
	}
	return n, errHarnessCut
}

func (c *cutConn) Read(p []byte) (int, error) {
	if c.rLimit < 0 {
		return c.Conn.Read(p)
	}
	if !c.armed.Load() {
		if !c.gate {
			return c.Conn.Read(p)
		}
		select {
		case <-c.armedC:
		case <-c.closedC:
			return c.Conn.Read(p) // closed: reports the error of the closed socket
		}
	}
	if c.injErr != nil {
		return c.readInject(p)
	}
	if c.cut.Load() {
		return 0, errHarnessCut
	}
	room := c.rLimit - atomic.LoadInt64(&c.rN)
	if room <= 0 {
		if len(p) == 0 {
			return 0, nil
		}
		c.doCut()
		return 0, errHarnessCut
	}
	if int64(len(p)) > room {
		p = p[:room]
	}
	n, err := c.Conn.Read(p)
	if atomic.AddInt64(&c.rN, int64(n)) >= c.rLimit && err == nil {
		c.doCut()
	}
	return n, err
}

// readInject: the trunk delivers rLimit bytes, fails once with injErr, and then goes on.
func (c *cutConn) readInject(p []byte) (int, error) {
	if c.injected.Load() || len(p) == 0 {
		return c.Conn.Read(p)
	}
	room := c.rLimit - atomic.LoadInt64(&c.rN)
	if room <= 0 {
		c.injected.Store(true)
		c.onInject(true)
		return 0, c.injErr
	}
	want := len(p)
	if int64(len(p)) > room {
		p = p[:room]
	}
	n, err := c.Conn.Read(p)
	if atomic.AddInt64(&c.rN, int64(n)) >= c.rLimit && err == nil && c.injData && n > 0 {
		c.injected.Store(true)
		// the multiplexer reads with io.ReadFull, which drops the error of a Read that completes
		// the buffer: then nothing has failed from its point of view
		c.onInject(n < want)
		return n, c.injErr
	}
	return n, err
}

var readErrClasses = []string{"timeout", "timeout", "timeout", "eagain", "eintr", "temporary", "noprogress", "eof", "other"}

type tempError struct{}

func (tempError) Error() string   { return "harness: temporary trunk error" }
func (tempError) Timeout() bool   { return false }
func (tempError) Temporary() bool { return true }

// readErrOf returns the error a trunk Read fails with for an error class.
func readErrOf(class string) error {
	switch class {
	case "timeout": // what a read deadline produces
		return &net.OpError{Op: "read", Net: "unix", Err: os.ErrDeadlineExceeded}
	case "eagain":
		return &net.OpError{Op: "read", Net: "unix", Err: os.NewSyscallError("read", syscall.EAGAIN)}
	case "eintr":
		return &net.OpError{Op: "read", Net: "unix", Err: os.NewSyscallError("read", syscall.EINTR)}
	case "temporary":
		return &net.OpError{Op: "read", Net: "unix", Err: tempError{}}
	case "noprogress":
		return io.ErrNoProgress
	case "eof":
		return io.EOF
	}
	return errHarnessCut
}
