package mux

// C11, clause 5: the net.Listener returned by Mux.Listen hands the connection out once;
// blocked and later Accept calls return io.EOF after Close.

import (
	"bytes"
	"fmt"
	"io"
	"net"
	"runtime"
	"sync"
	"sync/atomic"
	"time"

	"github.com/containerd/nri/pkg/net/multiplex"

	"nriverif/ev"
)

func runC11Listener(c C11Case) (ev.Outcome, bool) {
	defer settleGoroutines(runtime.NumGoroutine())
	l := c.Listener
	o := ev.Outcome{Classes: []string{"kind:listener"}}
	if l == nil || len(c.IDs) == 0 {
		o.Excluded = "malformed_listener_case"
		return o, false
	}
	p := connectPair(c.QLen, false, c.IDs, nil)
	defer p.shutdown()
	remove := installDelays(c.Delays, nil)
	defer remove()

	var mu sync.Mutex
	fail, hang := "", ""
	failf := func(format string, a ...any) {
		mu.Lock()
		if fail == "" {
			fail = fmt.Sprintf(format, a...)
		}
		mu.Unlock()
	}
	guard := func(who string) {
		if e := recover(); e != nil {
			failf("panic in %s: %v", who, e)
		}
	}
	finish := func() (ev.Outcome, bool) {
		if fail != "" {
			o.Fail = fail
			return o, false
		}
		if hang != "" {
			o.Fail = hang
			o.History = map[string]any{"stacks": stacks()}
			return o, true
		}
		return o, false
	}

	ln, err := p.m[0].Listen(multiplex.ConnID(c.IDs[0]))
	if err != nil || ln == nil {
		failf("Listen(%d) returned (%v, %v)", c.IDs[0], ln, err)
		return finish()
	}
	opened := p.conns[0][0]

	var closeStarted atomic.Bool
	var handed, eofs atomic.Int32
	handedC := make(chan net.Conn, 8)
	accept := func(who string) {
		conn, err := ln.Accept()
		afterClose := closeStarted.Load()
		switch {
		case err == nil && conn != nil:
			if handed.Add(1) > 1 {
				failf("%s: Accept handed out a connection a second time", who)
			}
			if conn != opened {
				failf("%s: Accept returned a connection that is not the multiplexed connection id=%d", who, c.IDs[0])
			}
			handedC <- conn
		case conn == nil && err == io.EOF:
			eofs.Add(1)
			if !afterClose {
				failf("%s: Accept returned io.EOF before the listener was closed (it must block)", who)
			}
		default:
			failf("%s: Accept returned (%v, %v); want the connection once, afterwards (nil, io.EOF)", who, conn, err)
		}
	}

	var wg sync.WaitGroup
	calls := 0
	for i, n := range l.AcceptorsBefore {
		wg.Add(1)
		calls += n
		go func(i, n int) {
			defer wg.Done()
			defer guard("acceptor")
			for j := 0; j < n; j++ {
				accept(fmt.Sprintf("acceptor %d call %d", i, j))
			}
		}(i, n)
	}
	usedConn := false
	var acc net.Conn
	if (l.UseConn || l.Reopen) && calls > 0 {
		select {
		case conn := <-handedC:
			usedConn = true
			acc = conn
			msg := []byte("through the accepted connection")
			res := make(chan string, 1)
			go func() {
				if !l.UseConn {
					res <- ""
					return
				}
				defer guard("listener data")
				bp := getBuf()
				defer putBuf(bp)
				if _, err := conn.Write(msg); err != nil {
					res <- fmt.Sprintf("Write on the accepted connection failed: %v", err)
					return
				}
				n, err := p.conns[1][0].Read(*bp)
				if err != nil || !bytes.Equal((*bp)[:n], msg) {
					res <- fmt.Sprintf("peer read (%d bytes, %v) instead of the %d bytes written to the accepted connection", n, err, len(msg))
					return
				}
				res <- ""
			}()
			select {
			case s := <-res:
				if s != "" {
					failf("%s", s)
				}
			case <-time.After(hangAfter):
				hang = fmt.Sprintf("data written to the accepted connection did not arrive within %v", hangAfter)
				return finish()
			}
		case <-time.After(hangAfter):
			hang = fmt.Sprintf("none of %d Accept calls returned the connection within %v", calls, hangAfter)
			return finish()
		}
	}
	// re-open variant: the user of the accepted connection closes it and the id is put to use
	// again; the listener's Close below then closes the wrapped (stale) connection once more,
	// which must not affect the new incarnation
	type curResult struct {
		frames int
		err    error
		bad    string
	}
	var curRes chan curResult
	curDesc := func(k int) payloadDesc {
		return payloadDesc{Conn: 0, Dir: 1, Writer: 2, Seq: k, Len: 5 + 3*k, ID: c.IDs[0]}
	}
	sent := 0
	send := func(n int) bool {
		ok := true
		for k := 0; k < n && ok; k++ {
			d := curDesc(sent)
			b := make([]byte, d.Len)
			d.fill(b)
			done := make(chan error, 1)
			go func() { defer guard("peer Write"); _, err := p.conns[1][0].Write(b); done <- err }()
			select {
			case err := <-done:
				if err != nil {
					failf("peer Write to the re-opened id=%d returned %v before any failure", c.IDs[0], err)
					ok = false
				}
			case <-time.After(hangAfter):
				hang = fmt.Sprintf("peer Write to the re-opened id did not return within %v", hangAfter)
				ok = false
			}
			sent++
		}
		return ok
	}
	if l.Reopen && acc != nil {
		_ = acc.Close()
		cur, err := p.m[0].Open(multiplex.ConnID(c.IDs[0]))
		if err != nil || cur == nil {
			failf("re-Open(%d) returned (%v, %v)", c.IDs[0], cur, err)
			return finish()
		}
		o.Classes = append(o.Classes, "listener_reopened_id")
		curRes = make(chan curResult, 1)
		go func() {
			defer guard("reader of the re-opened connection")
			bp := getBuf()
			defer putBuf(bp)
			r := curResult{}
			for {
				n, err := cur.Read(*bp)
				if err != nil {
					r.err = err
					break
				}
				d := curDesc(r.frames)
				if n != d.Len || d.match((*bp)[:n], 0) >= 0 {
					r.bad = fmt.Sprintf("frame #%d read from the re-opened id=%d (%d bytes) is not the %d-th frame sent (%d bytes): gap, duplicate or damaged frame", r.frames, c.IDs[0], n, r.frames, d.Len)
					break
				}
				r.frames++
			}
			curRes <- r
		}()
		if !send(l.FramesBefore) {
			return finish()
		}
	}
	if l.PauseUs > 0 {
		time.Sleep(time.Duration(l.PauseUs) * time.Microsecond)
	}

	closeStarted.Store(true)
	var cwg sync.WaitGroup
	for i := 0; i < l.Closers; i++ {
		cwg.Add(1)
		go func() {
			defer cwg.Done()
			defer guard("listener Close")
			for j := 0; j < l.Repeat; j++ {
				_ = ln.Close()
			}
		}()
	}
	waitFor := func(w *sync.WaitGroup) bool {
		d := make(chan struct{})
		go func() { w.Wait(); close(d) }()
		select {
		case <-d:
			return true
		case <-time.After(hangAfter):
			return false
		}
	}
	if !waitFor(&cwg) {
		hang = fmt.Sprintf("Close of the listener by %d closer(s) x %d did not return within %v", l.Closers, l.Repeat, hangAfter)
		return finish()
	}
	if !waitFor(&wg) {
		hang = fmt.Sprintf("Accept calls blocked before Close did not return within %v after Close (%d of %d returned io.EOF, %d got the connection)",
			hangAfter, eofs.Load(), calls, handed.Load())
		return finish()
	}
	blocked := eofs.Load()
	for j := 0; j < l.AcceptsAfter; j++ {
		var awg sync.WaitGroup
		awg.Add(1)
		go func() {
			defer awg.Done()
			defer guard("late acceptor")
			accept(fmt.Sprintf("Accept #%d after Close", j))
		}()
		if !waitFor(&awg) {
			hang = fmt.Sprintf("Accept made after Close did not return within %v", hangAfter)
			return finish()
		}
	}
	// Close of the listener closes the wrapped connection: its reads and writes fail, promptly
	res := make(chan string, 1)
	go func() {
		defer guard("closed connection")
		bp := getBuf()
		defer putBuf(bp)
		var rerr error
		for i := 0; i < c.QLen+errsToStop && rerr == nil; i++ {
			_, rerr = opened.Read(*bp)
		}
		_, werr := opened.Write([]byte{1})
		if rerr == nil || werr == nil {
			res <- fmt.Sprintf("after Close of the listener Read/Write on the wrapped connection returned (%v / %v): both must fail", rerr, werr)
			return
		}
		res <- ""
	}()
	select {
	case s := <-res:
		if s != "" {
			failf("%s", s)
		}
	case <-time.After(hangAfter):
		hang = fmt.Sprintf("Read/Write on the wrapped connection after Close of the listener did not return within %v", hangAfter)
		return finish()
	}

	if curRes != nil {
		if !send(l.FramesAfter) {
			return finish()
		}
		side := l.CloseSide & 1
		cd := make(chan struct{})
		go func() { defer close(cd); defer guard("mux Close"); _ = p.m[side].Close() }()
		select {
		case <-cd:
		case <-time.After(hangAfter):
			hang = fmt.Sprintf("Close of mux %d did not return within %v", side, hangAfter)
			return finish()
		}
		select {
		case r := <-curRes:
			if r.bad != "" {
				failf("%s", r.bad)
			}
			if r.frames > sent {
				failf("the re-opened connection received %d frames, only %d were sent", r.frames, sent)
			}
			o.NonTrivial = true
		case <-time.After(hangAfter):
			hang = fmt.Sprintf("the reader blocked on the re-opened connection id=%d did not return within %v after mux %d was closed (the listener had closed the stale wrapped connection before)", c.IDs[0], hangAfter, side)
			return finish()
		}
	}

	h := handed.Load()
	if usedConn && h != 1 {
		failf("the connection was handed out %d times", h)
	}
	if h > 1 {
		failf("the connection was handed out %d times", h)
	}
	if calls+l.AcceptsAfter > 0 && h == 0 {
		o.Lenient = append(o.Lenient, "connection_never_handed_out_closed_first")
	}
	if blocked > 0 {
		o.NonTrivial = true
		o.Classes = append(o.Classes, "listener_blocked_accept_released")
	}
	if l.AcceptsAfter > 0 {
		o.Classes = append(o.Classes, "listener_accept_after_close")
	}
	if calls == 0 {
		o.Classes = append(o.Classes, "listener_close_before_any_accept")
	}
	if l.Closers > 1 {
		o.Classes = append(o.Classes, "concurrent_closers")
	}
	if l.Repeat > 1 {
		o.Classes = append(o.Classes, "repeated_close")
	}
	return finish()
}
