// Package mux holds the checks for the multiplexer properties C10 (streams are complete, in
// order and isolated) and C11 (fail-stop: prefixes only, nothing hangs after close). Both ends
// are real multiplex.Mux instances over a unix socket pair.
package mux

import (
	"bytes"
	"encoding/binary"
	"encoding/json"
	"errors"
	"fmt"
	"net"
	"os"
	"path/filepath"
	"runtime"
	"sync"
	"sync/atomic"
	"syscall"
	"time"

	nrinet "github.com/containerd/nri/pkg/net"
	"github.com/containerd/nri/pkg/net/multiplex"
	"github.com/containerd/nri/pkg/verifhook"
	"pgregory.net/rapid"

	"nriverif/ev"
)

// maxPayload mirrors the unexported multiplex.maxPayloadSize (ttRPC header length + ttRPC
// maximum message length). The assumption is verified by selfCheck.
const (
	maxPayload = 10 + (4 << 20)
	muxHdrLen  = 8 // connection id + payload length
	patHdrLen  = 16
)

// nFrames is the number of trunk frames one Write of l bytes produces.
func nFrames(l int) int {
	if l <= maxPayload {
		return 1
	}
	return (l + maxPayload - 1) / maxPayload
}

// ---------------------------------------------------------------------------------------
// payload pattern

// patPeriod is prime, so that any shift of the stream (an off-by-one chunk boundary, a frame
// from another payload) mismatches the expected pattern.
const patPeriod = 65521

var patTable = func() []byte {
	t := make([]byte, 2*patPeriod)
	x := uint64(0x9E3779B97F4A7C15)
	for i := 0; i < patPeriod; i++ {
		x ^= x << 13
		x ^= x >> 7
		x ^= x << 17
		t[i] = byte(x >> 32)
	}
	copy(t[patPeriod:], t[:patPeriod])
	return t
}()

// payloadDesc identifies one Write: its stream (connection index + direction), the writer
// goroutine, the writer's sequence number and the total length.
type payloadDesc struct {
	Conn   int
	Dir    int
	Writer int // 0..3; 0xff = end-of-stream marker
	Seq    int
	Len    int
	ID     uint32
}

func (d payloadDesc) hdr() [patHdrLen]byte {
	var h [patHdrLen]byte
	h[0] = byte(d.Writer)
	h[1] = byte(d.Dir)
	binary.BigEndian.PutUint16(h[2:4], uint16(d.Conn))
	binary.BigEndian.PutUint32(h[4:8], uint32(d.Seq))
	binary.BigEndian.PutUint32(h[8:12], uint32(d.Len))
	binary.BigEndian.PutUint32(h[12:16], d.ID)
	return h
}

func (d payloadDesc) off() int {
	x := uint64(d.Conn)*0x100000001B3 ^ uint64(d.Dir+1)*0x9E3779B97F4A7C15 ^ uint64(d.Writer+1)*0xC2B2AE3D27D4EB4F ^
		uint64(d.Seq+1)*0x165667B19E3779F9 ^ uint64(d.Len+1)*0x27D4EB2F165667C5
	x ^= x >> 29
	x *= 0xBF58476D1CE4E5B9
	x ^= x >> 32
	return int(x % patPeriod)
}

// fill writes the complete payload into dst (len(dst) == d.Len).
func (d payloadDesc) fill(dst []byte) {
	h := d.hdr()
	n := copy(dst, h[:])
	off := d.off()
	for pos := n; pos < len(dst); {
		idx := (off + pos) % patPeriod
		pos += copy(dst[pos:], patTable[idx:idx+patPeriod])
	}
}

// match compares got with the bytes [pos, pos+len(got)) of the payload. It returns -1 when
// they agree, otherwise the index (within got) of the first differing byte.
func (d payloadDesc) match(got []byte, pos int) int {
	i := 0
	if pos < patHdrLen {
		h := d.hdr()
		for ; i < len(got) && pos+i < patHdrLen; i++ {
			if got[i] != h[pos+i] {
				return i
			}
		}
	}
	off := d.off()
	for i < len(got) {
		idx := (off + pos + i) % patPeriod
		seg := len(got) - i
		if seg > patPeriod {
			seg = patPeriod
		}
		if !bytes.Equal(got[i:i+seg], patTable[idx:idx+seg]) {
			for j := 0; j < seg; j++ {
				if got[i+j] != patTable[idx+j] {
					return i + j
				}
			}
		}
		i += seg
	}
	return -1
}

// ---------------------------------------------------------------------------------------
// buffers

var bigBufs = sync.Pool{New: func() any { b := make([]byte, maxPayload); return &b }}

func getBuf() *[]byte  { return bigBufs.Get().(*[]byte) }
func putBuf(b *[]byte) { bigBufs.Put(b) }

// ---------------------------------------------------------------------------------------
// credits: "the receiver keeps up with the configured queue length" by construction

type credits struct {
	mu       sync.Mutex
	cond     *sync.Cond
	avail    int
	off      bool
	onStarve func() // called when an acquirer has to wait
}

func newCredits(n int) *credits {
	c := &credits{avail: n}
	c.cond = sync.NewCond(&c.mu)
	return c
}

// acquire takes n credits atomically (blocks until they are all available or the pool is
// disabled).
func (c *credits) acquire(n int) {
	c.mu.Lock()
	for !c.off && c.avail < n {
		if c.onStarve != nil {
			c.onStarve()
		}
		c.cond.Wait()
	}
	if !c.off {
		c.avail -= n
	}
	c.mu.Unlock()
}

func (c *credits) release(n int) {
	c.mu.Lock()
	c.avail += n
	c.mu.Unlock()
	c.cond.Broadcast()
}

func (c *credits) disable() {
	c.mu.Lock()
	c.off = true
	c.mu.Unlock()
	c.cond.Broadcast()
}

// ---------------------------------------------------------------------------------------
// hook delay plans

// Delay is one entry of a generated delay plan: at the Hit-th hit of the named yield point
// (and then every Every-th hit, if Every > 0) sleep Us microseconds (0 = runtime.Gosched).
type Delay struct {
	Point string `json:"point"`
	Hit   int    `json:"hit"`
	Every int    `json:"every,omitempty"`
	Us    int    `json:"us"`
}

var hookPoints = []string{"mux.write.payload", "mux.reader.queue", "mux.close", "mux.conn.read"}

func genDelays(t *rapid.T, max int) []Delay {
	if !verifhook.Enabled {
		return nil
	}
	return rapid.SliceOfN(rapid.Custom(func(t *rapid.T) Delay {
		d := Delay{
			Point: rapid.SampledFrom(hookPoints).Draw(t, "point"),
			Hit:   rapid.IntRange(1, 40).Draw(t, "hit"),
			Us:    rapid.SampledFrom([]int{0, 0, 50, 200, 500, 1000, 2000}).Draw(t, "us"),
		}
		if rapid.IntRange(0, 2).Draw(t, "rep") == 0 {
			d.Every = rapid.IntRange(1, 7).Draw(t, "every")
		}
		return d
	}), 0, max).Draw(t, "delays")
}

// maxSleepPerCase bounds the total time one case spends sleeping in hooks.
const maxSleepPerCase = 150 * time.Millisecond

// installDelays installs the plan (plus an optional extra callback) as the process-global hook
// and returns the function that removes it.
func installDelays(plan []Delay, extra func(point string, hit int64)) func() {
	if !verifhook.Enabled || (len(plan) == 0 && extra == nil) {
		return func() {}
	}
	var counts [4]atomic.Int64
	var slept atomic.Int64
	byPoint := map[string][]Delay{}
	for _, d := range plan {
		byPoint[d.Point] = append(byPoint[d.Point], d)
	}
	index := func(p string) int {
		for i, n := range hookPoints {
			if n == p {
				return i
			}
		}
		return -1
	}
	verifhook.Set(func(p string) {
		i := index(p)
		if i < 0 {
			return
		}
		n := counts[i].Add(1)
		if extra != nil {
			extra(p, n)
		}
		for _, d := range byPoint[p] {
			if n == int64(d.Hit) || (d.Every > 0 && n > int64(d.Hit) && (n-int64(d.Hit))%int64(d.Every) == 0) {
				if d.Us == 0 || slept.Load() > int64(maxSleepPerCase) {
					runtime.Gosched()
				} else {
					slept.Add(int64(d.Us) * int64(time.Microsecond))
					time.Sleep(time.Duration(d.Us) * time.Microsecond)
				}
			}
		}
	})
	return func() { verifhook.Set(nil) }
}

// ---------------------------------------------------------------------------------------
// a pair of connected multiplexers

type muxPair struct {
	m     [2]multiplex.Mux
	raw   [2]net.Conn // the real sockets
	trunk [2]net.Conn // what the muxes were given (possibly wrapped)
	conns [2][]net.Conn
}

// pairOpts are the options of the two multiplexers of a case.
type pairOpts struct {
	qlen     [2]int  // read queue length per mux
	omitQLen [2]bool // do not pass WithReadQueueLength where the value is the package default (256)
	blocked  [2]bool // WithBlockedRead; the caller calls Unblock
	fdTrunk  [2]bool // the trunk of that end is made by nrinet.NewFdConn from a descriptor, as a launched plugin does
	ids      []uint32
	wrap     func(side int, c net.Conn) net.Conn
}

const defaultQLen = 256

// connectPair creates the socket pair and both multiplexers with the same queue length and
// opens every id at both ends before anything is written; with blocked both are created
// WithBlockedRead and unblocked right after the ids were opened.
func connectPair(qlen int, blocked bool, ids []uint32, wrap func(side int, c net.Conn) net.Conn) *muxPair {
	p := connectPairOpts(pairOpts{qlen: [2]int{qlen, qlen}, blocked: [2]bool{blocked, blocked}, ids: ids, wrap: wrap})
	if blocked {
		p.m[0].Unblock()
		p.m[1].Unblock()
	}
	return p
}

func connectPairOpts(o pairOpts) *muxPair {
	sp, err := nrinet.NewSocketPair()
	if err != nil {
		panic(fmt.Sprintf("harness: socketpair: %v", err))
	}
	p := &muxPair{}
	for sd := 0; sd < 2; sd++ {
		file := sp.LocalFile()
		if sd == 1 {
			file = sp.PeerFile()
		}
		if o.fdTrunk[sd] {
			// what a launched plugin does with the descriptor it inherits: the descriptor passes
			// into NewFdConn's ownership; the socket pair's own file is closed here
			fd, derr := syscall.Dup(int(file.Fd()))
			if derr != nil {
				panic(fmt.Sprintf("harness: dup: %v", derr))
			}
			syscall.CloseOnExec(fd)
			p.raw[sd], err = nrinet.NewFdConn(fd)
			file.Close()
		} else if sd == 0 {
			p.raw[sd], err = sp.LocalConn()
		} else {
			p.raw[sd], err = sp.PeerConn()
		}
		if err != nil {
			panic(fmt.Sprintf("harness: socketpair conn: %v", err))
		}
	}
	for s := 0; s < 2; s++ {
		p.trunk[s] = p.raw[s]
		if o.wrap != nil {
			p.trunk[s] = o.wrap(s, p.raw[s])
		}
		var opts []multiplex.Option
		if !(o.omitQLen[s] && o.qlen[s] == defaultQLen) {
			opts = append(opts, multiplex.WithReadQueueLength(o.qlen[s]))
		}
		if o.blocked[s] {
			opts = append(opts, multiplex.WithBlockedRead())
		}
		p.m[s] = multiplex.Multiplex(p.trunk[s], opts...)
	}
	for s := 0; s < 2; s++ {
		for _, id := range o.ids {
			c, err := p.m[s].Open(multiplex.ConnID(id))
			if err != nil {
				panic(fmt.Sprintf("harness: Open(%d): %v", id, err))
			}
			p.conns[s] = append(p.conns[s], c)
		}
	}
	return p
}

// idAllocator hands out connection ids that are not used by the case yet.
type idAllocator struct {
	used map[uint32]bool
	next uint32
}

func newIDAllocator(ids []uint32) *idAllocator {
	a := &idAllocator{used: map[uint32]bool{}, next: 1000}
	for _, id := range ids {
		a.used[id] = true
	}
	return a
}

func (a *idAllocator) fresh() uint32 {
	for a.used[a.next] || a.next == 0 {
		a.next++
	}
	a.used[a.next] = true
	return a.next
}

// shutdown closes everything; it never blocks the caller for more than a moment.
func (p *muxPair) shutdown() {
	done := make(chan struct{})
	go func() {
		defer func() { _ = recover() }()
		p.m[0].Close()
		p.m[1].Close()
		close(done)
	}()
	select {
	case <-done:
	case <-time.After(time.Second):
	}
	// let the reader goroutine of a mux that was never unblocked come to an end
	func() {
		defer func() { _ = recover() }()
		p.m[0].Unblock()
		p.m[1].Unblock()
	}()
	p.raw[0].Close()
	p.raw[1].Close()
}

// ---------------------------------------------------------------------------------------
// shared generators

// genIDs draws n distinct connection ids >= 1, including very large values.
func genIDs(t *rapid.T, n int) []uint32 {
	idGen := rapid.OneOf(
		rapid.Uint32Range(1, 4),
		rapid.Uint32Range(1, 300),
		rapid.SampledFrom([]uint32{1, 2, 255, 256, 65535, 65536, 1<<31 - 1, 1 << 31, 1<<32 - 2, 1<<32 - 1}),
		rapid.Uint32Range(1, 1<<32-1),
	)
	seen := map[uint32]bool{}
	ids := make([]uint32, 0, n)
	for i := 0; len(ids) < n; i++ {
		id := idGen.Draw(t, fmt.Sprintf("id%d", i))
		for seen[id] { // construction, not filtering: take the next free id
			id++
			if id == 0 {
				id = 1
			}
		}
		seen[id] = true
		ids = append(ids, id)
	}
	return ids
}

// genSize draws one payload size. budget is the number of bytes the case may still spend,
// maxFrames the largest number of frames one Write may produce (the queue length).
func genSize(t *rapid.T, budget *int, maxFrames int, bigWeight int) int {
	cls := rapid.IntRange(0, 19+bigWeight).Draw(t, "cls")
	var l int
	switch {
	case cls <= 1:
		l = 0
	case cls <= 3:
		l = 1
	case cls <= 8:
		l = rapid.IntRange(2, 64).Draw(t, "small")
	case cls <= 11:
		l = rapid.IntRange(65, 4094).Draw(t, "mid")
	case cls <= 14:
		l = rapid.SampledFrom([]int{4095, 4096, 4097, patHdrLen - 1, patHdrLen, patHdrLen + 1}).Draw(t, "edge")
	case cls <= 17:
		l = rapid.SampledFrom([]int{65535, 65536, 65537, patPeriod, 200000}).Draw(t, "64k")
	case cls <= 19:
		l = rapid.IntRange(4098, 300000).Draw(t, "any")
	default:
		k := rapid.IntRange(0, 9).Draw(t, "bigk")
		switch {
		case k <= 1:
			l = maxPayload - 1
		case k <= 4:
			l = maxPayload
		case k <= 7:
			l = maxPayload + 1
		case k == 8:
			l = rapid.IntRange(maxPayload+2, 2*maxPayload+1).Draw(t, "big2")
		default:
			l = rapid.SampledFrom([]int{2 * maxPayload, 2*maxPayload + 1, 3*maxPayload - 1, 3 * maxPayload, 3*maxPayload + 5}).Draw(t, "big3")
		}
	}
	if nFrames(l) > maxFrames {
		l = maxFrames * maxPayload
	}
	if l > *budget {
		l = l % 97 // budget exhausted: stay small
	}
	*budget -= l
	return l
}

// ---------------------------------------------------------------------------------------
// self check of the harness' assumption about the frame size

var (
	selfOnce sync.Once
	selfErr  string
)

// selfCheck verifies maxPayload: a Write of maxPayload bytes arrives as one frame, a Write of
// maxPayload+1 bytes as two frames (maxPayload, 1). A failure is recorded and reported as
// inconclusive by the caller unless the property checks themselves find a violation.
func selfCheck() string {
	selfOnce.Do(func() {
		defer settleGoroutines(runtime.NumGoroutine())
		p := connectPair(8, false, []uint32{1}, nil)
		defer p.shutdown()
		res := make(chan string, 1)
		go func() {
			buf := make([]byte, maxPayload+64)
			want := []int{maxPayload, maxPayload, 1}
			for i, w := range want {
				n, err := p.conns[1][0].Read(buf)
				if err != nil || n != w {
					res <- fmt.Sprintf("frame %d: got n=%d err=%v, want n=%d", i, n, err, w)
					return
				}
			}
			res <- ""
		}()
		go func() {
			b := make([]byte, maxPayload+1)
			if _, err := p.conns[0][0].Write(b[:maxPayload]); err != nil {
				return
			}
			_, _ = p.conns[0][0].Write(b)
		}()
		select {
		case selfErr = <-res:
		case <-time.After(10 * time.Second):
			selfErr = "timeout"
		}
	})
	return selfErr
}

// ---------------------------------------------------------------------------------------
// small helpers

var errHarnessCut = errors.New("harness: trunk cut")

func stacks() string {
	buf := make([]byte, 1<<20)
	n := runtime.Stack(buf, true)
	if n > 60000 {
		n = 60000
	}
	return string(buf[:n])
}

// hangConfirmed is set once a time-clause failure has been confirmed by re-execution in this
// process; later hangs (rapid shrinking the same failure) are then reported without paying for
// the confirmation again.
var hangConfirmed atomic.Bool

// After a time-clause failure has been confirmed the verdict of the run is settled; what
// follows is rapid minimising the case, where every attempt that still hangs costs the full
// watchdog time. hangMemo answers repeated executions of a confirmed case at once,
// hangShrinkBudget bounds the number of further cases that are executed at all (the rest is
// counted as excluded), so that a hang is reported within the tier's time budget.
var (
	hangMemo         sync.Map // case JSON -> ev.Outcome
	hangShrinkBudget atomic.Int32
	violationSeen    atomic.Bool // some case of this process already failed (content, not time)
	hangSeen         atomic.Bool
	exhFailed        atomic.Bool // the exhaustive sweep already reported a violation
)

const skippedAfterHang = "skipped_after_confirmed_hang"

func caseKey(c any) string {
	b, _ := json.Marshal(c)
	return string(b)
}

// withHangConfirmation runs one case; a failure of a time clause is confirmed by re-executing
// the same case before it is reported, otherwise the case counts as overloaded.
func withHangConfirmation(prop string, c any, run func() (ev.Outcome, bool)) ev.Outcome {
	key := caseKey(c)
	if o, ok := hangMemo.Load(key); ok {
		return o.(ev.Outcome)
	}
	settled := hangConfirmed.Load() || violationSeen.Load()
	if settled && hangShrinkBudget.Add(1) > 0 && hangSeen.Load() {
		return ev.Outcome{Excluded: skippedAfterHang}
	}
	o, hang := run()
	if !hang {
		if o.Fail != "" {
			violationSeen.Store(true)
		}
		return o
	}
	hangSeen.Store(true)
	if settled {
		hangMemo.Store(key, o)
		return o
	}
	// re-execute up to three times: a hang that depends on a schedule may need more than one try
	var o2 ev.Outcome
	for try := 0; try < 3; try++ {
		var hang2 bool
		o2, hang2 = run()
		if hang2 {
			hangConfirmed.Store(true)
			hangMemo.Store(key, o2)
			return o2
		}
		if o2.Fail != "" {
			return o2
		}
	}
	// keep what the non-reproduced time-clause failure looked like (diagnosis of the harness)
	if prop != "" {
		v := o.Fail
		if len(v) > 600 {
			v = v[:600]
		}
		ev.Get(prop).SetExtra("unreproduced_time_clause_failure_sample", map[string]any{"verdict": v, "case": c})
	}
	if dir := os.Getenv("MUXDEBUG"); dir != "" {
		b, _ := json.MarshalIndent(map[string]any{"case": c, "verdict": o.Fail, "history": o.History}, "", " ")
		_ = os.WriteFile(filepath.Join(dir, fmt.Sprintf("overloaded-%d-%d.json", os.Getpid(), time.Now().UnixNano())), b, 0o644)
	}
	o2.Overloaded = true
	return o2
}

// settleGoroutines waits (briefly) until the goroutines of the case — in particular the
// reader goroutines of the two multiplexers, which end asynchronously after Close — are gone,
// so that a panic on one of them still happens while the case is journalled.
func settleGoroutines(base int) {
	for i := 0; i < 250 && runtime.NumGoroutine() > base; i++ {
		if i < 50 {
			runtime.Gosched()
		} else {
			time.Sleep(5 * time.Millisecond)
		}
	}
}

func tierPick(q, th int) int { return ev.Pick(q, th) }
