package mux

import (
	"fmt"
	"testing"

	"nriverif/ev"
)

// TestExh_C11 cuts the trunk at every byte offset of a small fixed frame plan, in both
// directions, on either side, by a failing write and by a failing read (run in shard 0 only).
func TestExh_C11(t *testing.T) {
	rec := ev.Get("C11")
	defer rec.Flush()
	plans := [][2][]int{
		{{3, 0, 17, 1}, {2}},
		{{0, 16}, {5, 0}},
	}
	n := 0
	for pi, pl := range plans {
		for side := 0; side < 2; side++ {
			for _, kind := range []string{"cut_write", "cut_read"} {
				dir := side
				if kind == "cut_read" {
					dir = 1 - side
				}
				total := 0
				for _, l := range pl[dir] {
					total += muxHdrLen + l
				}
				for _, half := range []bool{false, true} {
					if half && kind == "cut_read" {
						continue
					}
					for k := 0; k <= total+1; k++ {
						for _, stalled := range []bool{false, true} {
							c := C11Case{Kind: "mux", QLen: 4, IDs: []uint32{uint32(7 + pi)},
								Streams: []C11Stream{{Conn: 0, Dir: 0, Sizes: pl[0], Stalled: stalled}, {Conn: 0, Dir: 1, Sizes: pl[1]}},
								Failure: C11Failure{Kind: kind, Side: side, CutAfter: int64(k), Half: half, CutWhere: "sweep"},
								Final:   C11Close{Side: k % 2, Closers: 1 + k%3, Repeat: 1 + k%2}}
							raw := ev.Snapshot(c)
							rec.Journal(raw)
							o := runC11(c)
							rec.ClearJournal()
							rec.Record(raw, o)
							n++
							if o.Fail != "" {
								exhFailed.Store(true)
								t.Fatalf("C11 (sweep): %s\ncase: %s", o.Fail, raw)
							}
						}
					}
				}
			}
		}
	}
	// every error class of a failing trunk Read at every byte offset (the socket stays open)
	m := 0
	for pi, pl := range plans {
		for side := 0; side < 2; side++ {
			dir := 1 - side
			total := 0
			for _, l := range pl[dir] {
				total += muxHdrLen + l
			}
			for _, class := range []string{"timeout", "eagain", "eintr", "temporary", "noprogress", "eof", "other"} {
				for _, withData := range []bool{false, true} {
					for k := 0; k <= total; k++ {
						c := C11Case{Kind: "mux", QLen: 4, IDs: []uint32{uint32(17 + pi)},
							Streams: []C11Stream{{Conn: 0, Dir: 0, Sizes: pl[0], Stalled: k%2 == 1}, {Conn: 0, Dir: 1, Sizes: pl[1]}},
							Failure: C11Failure{Kind: "read_error", Side: side, CutAfter: int64(k), CutWhere: "sweep", ErrClass: class, ErrWithData: withData},
							Final:   C11Close{Side: k % 2, Closers: 1 + k%3, Repeat: 1 + k%2}}
						raw := ev.Snapshot(c)
						rec.Journal(raw)
						o := runC11(c)
						rec.ClearJournal()
						rec.Record(raw, o)
						m++
						if o.Fail != "" {
							exhFailed.Store(true)
							t.Fatalf("C11 (sweep): %s\ncase: %s", o.Fail, raw)
						}
					}
				}
			}
		}
	}
	rec.SetExtra("exhaustive_read_errors", fmt.Sprintf("trunk Read failing once with each of 7 error classes (timeout, EAGAIN, EINTR, temporary, io.ErrNoProgress, io.EOF, other; alone and together with the last bytes) at every byte offset (0..total) of two fixed frame plans, both sides, the socket staying open: %d cases", m))
	rec.SetExtra("exhaustive_info", fmt.Sprintf("trunk cut at every byte offset (0..total+1) of two fixed frame plans, both sides, failing write (full and half close) and failing read, running and stalled reader: %d cases", n))
}
