package mux

// C11: a sender that keeps sending against a reader that alternates between stalling and
// draining, at a tiny queue length: the queue repeatedly runs full. Whatever the multiplexer
// does about a full queue (the pinned tree fails at once), what the reader received is a
// prefix of what was sent: no gap, no reordering, no duplicate.

import (
	"fmt"
	"runtime"
	"sync"
	"sync/atomic"
	"time"

	"pgregory.net/rapid"

	"nriverif/ev"
)

// C11FloodRound is one trial on a fresh pair of multiplexers.
type C11FloodRound struct {
	QLen       int `json:"qlen"`
	Frames     int `json:"frames"`      // frames the sender tries to send, without waiting for the reader
	Size       int `json:"size"`        // payload size of the frames (the sequence number is part of the pattern)
	PauseEvery int `json:"pause_every"` // the reader pauses after every PauseEvery frames ...
	PauseUs    int `json:"pause_us"`    // ... for this long (0: runtime.Gosched)
	StartLate  int `json:"start_late"`  // the reader starts when the sender has started this many Writes
	Side       int `json:"side"`        // the receiving mux
}

type C11Flood struct {
	Rounds []C11FloodRound `json:"rounds"`
}

func genC11Flood(t *rapid.T) C11Case {
	c := C11Case{Kind: "flood", QLen: 4, IDs: []uint32{1}}
	c.Failure.Kind = "flood"
	g := rapid.Custom(func(t *rapid.T) C11FloodRound {
		return C11FloodRound{
			QLen:       rapid.SampledFrom([]int{1, 2, 3, 4, 4, 4, 8, 16}).Draw(t, "fqlen"),
			Frames:     rapid.SampledFrom([]int{200, 500, 1000, 2000}).Draw(t, "fframes"),
			Size:       rapid.SampledFrom([]int{4, 16, 17, 64, 300}).Draw(t, "fsize"),
			PauseEvery: rapid.SampledFrom([]int{1, 3, 10, 50, 100, 100, 200}).Draw(t, "fpause_every"),
			PauseUs:    rapid.SampledFrom([]int{0, 0, 20, 100, 500}).Draw(t, "fpause_us"),
			StartLate:  rapid.SampledFrom([]int{0, 0, 1, 4, 20}).Draw(t, "fstart_late"),
			Side:       rapid.IntRange(0, 1).Draw(t, "fside"),
		}
	})
	c.Flood = &C11Flood{Rounds: rapid.SliceOfN(g, 30, tierPick(60, 120)).Draw(t, "flood_rounds")}
	c.Delays = genDelays(t, 3)
	return c
}

func runC11Flood(c C11Case) (ev.Outcome, bool) {
	defer settleGoroutines(runtime.NumGoroutine())
	o := ev.Outcome{Classes: []string{"kind:flood"}}
	if c.Flood == nil {
		o.Excluded = "malformed_flood_case"
		return o, false
	}
	remove := installDelays(c.Delays, nil)
	defer remove()
	overflowed, completed := 0, 0
	for ri, rd := range c.Flood.Rounds {
		bad, hang, ovf := floodRound(ri, rd)
		if ovf {
			overflowed++
		} else {
			completed++
		}
		if bad != "" {
			o.Fail = bad
			if hang {
				o.History = map[string]any{"stacks": stacks()}
			}
			return o, hang
		}
	}
	ev.Get("C11").AddExtra("flood_rounds", len(c.Flood.Rounds))
	ev.Get("C11").AddExtra("flood_rounds_ended_by_overflow", overflowed)
	if overflowed > 0 {
		o.NonTrivial = true
		o.Classes = append(o.Classes, "flood_queue_ran_full")
	}
	if completed > 0 {
		o.Classes = append(o.Classes, "flood_reader_kept_up")
	}
	return o, false
}

func floodRound(ri int, rd C11FloodRound) (bad string, hang bool, overflowed bool) {
	qlen := min(max(rd.QLen, 1), 4096)
	frames := min(max(rd.Frames, 1), 100000)
	size := min(max(rd.Size, 4), 4096)
	Y := rd.Side & 1 // receiver
	X := 1 - Y
	p := connectPair(qlen, false, []uint32{1}, nil)
	defer p.shutdown()
	where := fmt.Sprintf("flood round %d (queue length %d, %d frames of %d bytes, reader pauses %d us every %d frames)", ri, qlen, frames, size, rd.PauseUs, max(rd.PauseEvery, 1))
	var mu sync.Mutex
	failf := func(format string, a ...any) {
		mu.Lock()
		if bad == "" {
			bad = fmt.Sprintf(format, a...)
		}
		mu.Unlock()
	}
	var started, written atomic.Int64
	var senderDone atomic.Bool
	var wg sync.WaitGroup
	wg.Add(2)
	go func() { // the sender never waits for the reader
		defer wg.Done()
		defer senderDone.Store(true)
		defer func() {
			if e := recover(); e != nil {
				failf("%s: panic in the sender: %v", where, e)
			}
		}()
		b := make([]byte, size)
		for i := 0; i < frames; i++ {
			d := payloadDesc{Conn: 0, Dir: X, Writer: 7, Seq: i, Len: size, ID: 1}
			d.fill(b)
			started.Add(1)
			if _, err := p.conns[X][0].Write(b); err != nil {
				return
			}
			written.Add(1)
		}
	}()
	received := 0
	sawErr := false
	go func() { // the reader alternates between draining and stalling
		defer wg.Done()
		defer func() {
			if e := recover(); e != nil {
				failf("%s: panic in the reader: %v", where, e)
			}
		}()
		for k := 0; started.Load() < int64(min(rd.StartLate, frames)) && !senderDone.Load() && k < 1000000; k++ {
			runtime.Gosched()
		}
		buf := make([]byte, size+64)
		consec := 0
		for received < frames {
			n, err := p.conns[Y][0].Read(buf)
			if err != nil {
				sawErr = true
				consec++
				if consec >= errsToStop {
					return
				}
				continue
			}
			consec = 0
			d := payloadDesc{Conn: 0, Dir: X, Writer: 7, Seq: received, Len: size, ID: 1}
			if n != size || d.match(buf[:n], 0) >= 0 {
				got := -1
				if n >= 8 {
					got = int(buf[4])<<24 | int(buf[5])<<16 | int(buf[6])<<8 | int(buf[7])
				}
				failf("%s: read %d returned a frame of %d bytes carrying sequence number %d, expected frame %d of %d bytes: what the reader received is not a prefix of what was sent (gap, reordering or duplicate)", where, received, n, got, received, size)
				return
			}
			if int64(received) >= started.Load() {
				failf("%s: frame %d received before its Write was started", where, received)
				return
			}
			received++
			if received%max(rd.PauseEvery, 1) == 0 {
				if rd.PauseUs > 0 {
					time.Sleep(time.Duration(rd.PauseUs) * time.Microsecond)
				} else {
					runtime.Gosched()
				}
			}
		}
	}()
	done := make(chan struct{})
	go func() { wg.Wait(); close(done) }()
	select {
	case <-done:
	case <-time.After(hangAfter + 20*time.Second):
		// (a flood can take a while if the multiplexer lets the sender wait; the bound is for the
		// whole trial, not for one call)
		return fmt.Sprintf("%s: sender and reader did not come to an end within %v (received %d, written %d)", where, hangAfter+20*time.Second, received, written.Load()), true, false
	}
	return bad, false, sawErr
}
