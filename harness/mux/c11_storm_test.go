package mux

// C11: close storms - many logical connections are closed at the same moment as their
// multiplexer (by a local Close, by the peer closing, or by the trunk failing, so that the
// reader goroutine closes the mux), with readers blocked on some of them. Everything returns.

import (
	"fmt"
	"net"
	"runtime"
	"sync"
	"sync/atomic"
	"time"

	"github.com/containerd/nri/pkg/net/multiplex"
	"pgregory.net/rapid"

	"nriverif/ev"
)

// C11StormRound is one round on a fresh pair of multiplexers.
type C11StormRound struct {
	N        int    `json:"n"`       // open connections on the mux under test
	Readers  int    `json:"readers"` // the first Readers of them have a reader blocked in Read
	MuxClose string `json:"mux"`     // local | peer | cut: who brings the mux down while the connections are closed
	Closers  int    `json:"closers"` // goroutines calling Mux.Close (local: at the same moment; otherwise afterwards)
	Side     int    `json:"side"`    // the mux under test
	KeepOpen int    `json:"keep"`    // the last KeepOpen connections are not closed individually
	// Openers: this many goroutines keep opening fresh ids (Open and Dialer in turn) on the mux
	// under test while it is being closed, and start a Read on every connection they get
	Openers int `json:"openers,omitempty"`
}

type C11Storm struct {
	Rounds []C11StormRound `json:"rounds"`
}

func genC11Storm(t *rapid.T) C11Case {
	c := C11Case{Kind: "storm", QLen: genQLen(t), IDs: []uint32{1}}
	c.Failure.Kind = "storm"
	g := rapid.Custom(func(t *rapid.T) C11StormRound {
		n := rapid.SampledFrom([]int{16, 32, 32, 48, 64, 64, 128, 256, 512}).Draw(t, "n")
		return C11StormRound{N: n,
			Readers:  rapid.IntRange(0, n).Draw(t, "readers"),
			MuxClose: rapid.SampledFrom([]string{"local", "local", "peer", "cut"}).Draw(t, "mux"),
			Closers:  rapid.SampledFrom([]int{1, 1, 2, 4}).Draw(t, "closers"),
			Side:     rapid.IntRange(0, 1).Draw(t, "side"),
			KeepOpen: rapid.SampledFrom([]int{0, 0, 1, 4}).Draw(t, "keep"),
			Openers:  rapid.SampledFrom([]int{0, 2, 3, 4, 4}).Draw(t, "openers")}
	})
	c.Storm = &C11Storm{Rounds: rapid.SliceOfN(g, 12, tierPick(24, 40)).Draw(t, "storm_rounds")}
	c.Delays = genDelays(t, 3)
	return c
}

func runC11Storm(c C11Case) (ev.Outcome, bool) {
	defer settleGoroutines(runtime.NumGoroutine())
	o := ev.Outcome{Classes: []string{"kind:storm"}}
	if c.Storm == nil {
		o.Excluded = "malformed_storm_case"
		return o, false
	}
	remove := installDelays(c.Delays, nil)
	defer remove()
	seen := map[string]bool{}
	for ri, rd := range c.Storm.Rounds {
		bad, hang := stormRound(c, ri, rd)
		if !seen[rd.MuxClose] {
			seen[rd.MuxClose] = true
			o.Classes = append(o.Classes, "storm_mux_close:"+rd.MuxClose)
		}
		if rd.Readers > 0 {
			o.NonTrivial = true
		}
		if rd.Openers > 0 && !seen["openers"] {
			seen["openers"] = true
			o.Classes = append(o.Classes, "storm_opens_racing_close")
		}
		if bad != "" {
			o.Fail = bad
			if hang {
				o.History = map[string]any{"stacks": stacks()}
			}
			return o, hang
		}
	}
	ev.Get("C11").AddExtra("close_storm_rounds", len(c.Storm.Rounds))
	return o, false
}

func stormRound(c C11Case, ri int, rd C11StormRound) (string, bool) {
	n := min(max(rd.N, 1), 1024)
	ids := make([]uint32, n)
	for i := range ids {
		ids[i] = uint32(i + 1)
	}
	X := rd.Side & 1
	Y := 1 - X
	p := connectPair(max(c.QLen, 1), false, ids, nil)
	defer p.shutdown()
	where := fmt.Sprintf("storm round %d (%d connections, %d blocked readers, mux brought down by %q)", ri, n, rd.Readers, rd.MuxClose)

	var mu sync.Mutex
	fail := ""
	failf := func(format string, a ...any) {
		mu.Lock()
		if fail == "" {
			fail = fmt.Sprintf(format, a...)
		}
		mu.Unlock()
	}
	guard := func(who string) {
		if e := recover(); e != nil {
			failf("%s: panic in %s: %v", where, who, e)
		}
	}
	// blocked readers
	var rwg sync.WaitGroup
	var inRead atomic.Int32
	for i := 0; i < min(rd.Readers, n); i++ {
		rwg.Add(1)
		go func(cn net.Conn, id uint32) {
			defer rwg.Done()
			defer guard("reader")
			buf := make([]byte, 64)
			inRead.Add(1)
			nn, err := cn.Read(buf)
			if err == nil {
				failf("%s: Read on id=%d returned %d bytes although nothing was written", where, id, nn)
			}
		}(p.conns[X][i], ids[i])
	}
	for k := 0; inRead.Load() < int32(min(rd.Readers, n)) && k < 100000; k++ {
		runtime.Gosched()
	}
	// the storm
	var ready atomic.Int32
	var goFlag atomic.Bool
	var wg sync.WaitGroup
	start := func(who string, f func()) {
		wg.Add(1)
		go func() {
			defer wg.Done()
			defer guard(who)
			ready.Add(1)
			for k := 0; !goFlag.Load(); k++ {
				if k > 2000 {
					runtime.Gosched()
				}
			}
			f()
		}()
	}
	parties := 0
	for i := 0; i < n-min(max(rd.KeepOpen, 0), n); i++ {
		cn := p.conns[X][i]
		start("conn Close", func() { _ = cn.Close() })
		parties++
	}
	switch rd.MuxClose {
	case "peer":
		start("peer Close", func() { _ = p.m[Y].Close() })
		parties++
	case "cut":
		start("trunk cut", func() { _ = p.raw[Y].Close() })
		parties++
	default:
		for k := 0; k < max(rd.Closers, 1); k++ {
			start("mux Close", func() { _ = p.m[X].Close() })
			parties++
		}
	}
	// openers racing the close: fresh ids, a Read on each connection they get
	var stop atomic.Bool
	var owg, lwg sync.WaitGroup
	var opened atomic.Int32
	for oi := 0; oi < min(max(rd.Openers, 0), 8); oi++ {
		owg.Add(1)
		go func(oi int) {
			defer owg.Done()
			defer guard("opener")
			ready.Add(1)
			for k := 0; !goFlag.Load(); k++ {
				if k > 2000 {
					runtime.Gosched()
				}
			}
			for k := 0; k < 400; k++ {
				last := stop.Load() // one more open after the close has returned
				id := uint32(100000 + oi*1000 + k)
				var h net.Conn
				var err error
				if k%2 == 0 {
					h, err = p.m[X].Open(multiplex.ConnID(id))
				} else {
					h, err = p.m[X].Dialer(multiplex.ConnID(id))("", "")
				}
				if err == nil && h != nil {
					opened.Add(1)
					lwg.Add(1)
					go func() {
						defer lwg.Done()
						defer guard("late reader")
						buf := make([]byte, 16)
						if nn, err := h.Read(buf); err == nil {
							failf("%s: Read on id=%d, opened while the multiplexer was being closed, returned %d bytes although nothing was written", where, id, nn)
						}
					}()
				}
				if last {
					return
				}
			}
		}(oi)
		parties++
	}
	for k := 0; ready.Load() < int32(parties); k++ {
		if k > 2000 {
			runtime.Gosched()
		}
	}
	goFlag.Store(true)
	waitFor := func(w *sync.WaitGroup) bool {
		d := make(chan struct{})
		go func() { w.Wait(); close(d) }()
		select {
		case <-d:
			return true
		case <-time.After(hangAfter):
			return false
		}
	}
	if !waitFor(&wg) {
		return fmt.Sprintf("%s: the concurrent Close calls of the connections and of the multiplexer did not all return within %v", where, hangAfter), true
	}
	stop.Store(true)
	if !waitFor(&owg) {
		return fmt.Sprintf("%s: Open/Dialer calls racing the Close did not return within %v", where, hangAfter), true
	}
	// whoever brought the mux down, a later Close of both ends returns, and so do all readers
	var cwg sync.WaitGroup
	for k := 0; k < max(rd.Closers, 1); k++ {
		cwg.Add(1)
		go func() { defer cwg.Done(); defer guard("mux Close"); _ = p.m[X].Close() }()
	}
	cwg.Add(1)
	go func() { defer cwg.Done(); defer guard("mux Close"); _ = p.m[Y].Close() }()
	if !waitFor(&cwg) {
		return fmt.Sprintf("%s: Close of the multiplexers after the storm did not return within %v", where, hangAfter), true
	}
	if !waitFor(&lwg) {
		return fmt.Sprintf("%s: a Read on a connection that was opened while the multiplexer was being closed did not return within %v (%d connections were opened during the storm)", where, hangAfter, opened.Load()), true
	}
	if !waitFor(&rwg) {
		return fmt.Sprintf("%s: readers blocked on connections of the closed multiplexer did not all return within %v", where, hangAfter), true
	}
	// the connections that were not closed individually fail now, promptly
	done := make(chan struct{})
	go func() {
		defer close(done)
		defer guard("late Read/Write")
		buf := make([]byte, 64)
		for i := n - min(max(rd.KeepOpen, 0), n); i < n; i++ {
			if _, err := p.conns[X][i].Read(buf); err == nil {
				failf("%s: Read on id=%d succeeded after the multiplexer was closed", where, ids[i])
			}
			if _, err := p.conns[X][i].Write([]byte{1}); err == nil {
				failf("%s: Write on id=%d succeeded after the multiplexer was closed", where, ids[i])
			}
		}
	}()
	select {
	case <-done:
	case <-time.After(hangAfter):
		return fmt.Sprintf("%s: Read/Write on a connection of the closed multiplexer did not return within %v", where, hangAfter), true
	}
	mu.Lock()
	defer mu.Unlock()
	return fail, false
}
