package mux

// C11 — the multiplexer fails stop: no gaps after errors, and nothing hangs after close.

import (
	"errors"
	"fmt"
	"io"
	"net"
	"os"
	"runtime"
	"runtime/debug"
	"sync"
	"sync/atomic"
	"testing"
	"time"

	"github.com/containerd/nri/pkg/verifhook"

	"nriverif/ev"
)

func TestProp_C11(t *testing.T) {
	if exhFailed.Load() {
		t.Skip("the exhaustive sweep already reported a violation")
	}
	// the self check drives real traffic through two multiplexers: journal an equivalent case, so
	// that a crash in there is attributed to a replayable case
	ev.Get("C11").Journal(ev.Snapshot(C11Case{Kind: "mux", QLen: 8, IDs: []uint32{1},
		Streams: []C11Stream{{Conn: 0, Dir: 0, Sizes: []int{maxPayload, maxPayload + 1}}, {Conn: 0, Dir: 1, Sizes: []int{}}},
		Failure: C11Failure{Kind: "none"}, Final: C11Close{Side: 0, Closers: 1, Repeat: 1}}))
	selfCheck()
	ev.Get("C11").ClearJournal()
	if e := selfCheck(); e != "" {
		ev.Get("C11").SetExtra("selfcheck_failed", e)
		defer func() {
			if !t.Failed() {
				t.Errorf("SELFCHECK failed (harness assumption maxPayload=%d does not hold: %s): inconclusive", maxPayload, e)
			}
		}()
	}
	ev.Get("C11").SetExtra("selfcheck_maxpayload_ok", selfCheck() == "")
	ev.Run(t, "C11", genC11, runC11)
}

// hangAfter is the bound of the "returns promptly / never hangs" clauses (typical: < 1 ms).
const hangAfter = 10 * time.Second

// errsToStop: after Close, Read picks at random between the error and the next queued frame;
// a reader gives up after this many consecutive errors.
const errsToStop = 20

func runC11(c C11Case) ev.Outcome {
	run := runC11Mux
	if c.Kind == "listener" {
		run = runC11Listener
	}
	if c.Kind == "storm" {
		run = runC11Storm
	}
	if c.Kind == "flood" {
		run = runC11Flood
	}
	// a failed time clause is confirmed by re-executing the same case before it is reported
	return withHangConfirmation("C11", c, func() (ev.Outcome, bool) { return run(c) })
}

// ---------------------------------------------------------------------------------------

type frameRef struct {
	payload int // index into Sizes
	pos     int // offset of the frame within the payload
	n       int
}

type c11stream struct {
	spec           C11Stream
	name           string
	wr, rd         net.Conn
	wrSide, rdSide int
	frames         []frameRef
	cred           *credits
	started        atomic.Int64 // frames of payloads whose Write has been started
	written        atomic.Int64 // frames of payloads whose Write returned success
	received       atomic.Int64
	readerExited   atomic.Bool
	writerExited   atomic.Bool
	writerExitC    chan struct{}
	starvedC       chan struct{}
	starveOnce     sync.Once
	inReadSince    atomic.Int64 // unix nanos, 0 = not inside Read
	inWriteSince   atomic.Int64
	readAfterErr   atomic.Bool // the Read in progress was started after an error was observed on this connection
	writeAfterErr  atomic.Bool
	noOverflow     bool         // the receiving mux may still be blocked: no overflow is bound to happen
	recvAtFirstErr atomic.Int64 // frames received before the first error (-1: no error seen)
	firstErr       atomic.Value // string
}

type c11close struct {
	side    int
	strictX bool
	aY      int32
	sY      int64
	recvAll bool
}

type c11run struct {
	c        C11Case
	p        *muxPair
	streams  []*c11stream
	observed [2][]atomic.Bool // an error was observed on conn object (side, index)

	failMu sync.Mutex
	fail   string
	hang   string

	progress atomic.Int64
	poke     chan struct{}

	activeWrites  [2]atomic.Int32
	startedWrites [2]atomic.Int64
	writeStarts   atomic.Int64 // global count of Write calls started (trigger)

	trigOnce     sync.Once
	trigC        chan struct{}
	anyErrOnce   sync.Once
	anyErrC      chan struct{}
	primOnce     sync.Once
	primaryDoneC chan struct{}
	writersDoneC chan struct{}

	globalFailure atomic.Bool
	nonTrivial    atomic.Bool
	inflightAtF   atomic.Bool
	blockedAtF    atomic.Bool

	errMu      sync.Mutex
	nonEOF     [2][]string // non-EOF errors observed per side
	eofSeen    [2]int
	firstClose *c11close
	cutDone    atomic.Bool
	lenient    map[string]bool
	classes    map[string]bool

	ids        []uint32 // the case's ids plus, if needed, the barrier connection
	syncConn   int      // index of the barrier connection (0 = none)
	writeTrig  map[int64]chan struct{}
	stale      []*staleSet
	lateIDs    *idAllocator
	canary     int // index of the canary connection (0 = none)
	canaryDone [2]chan struct{}

	opts        [2]C11MuxOpt
	pending     [2]atomic.Bool  // the mux is blocked and Unblock has not been called yet
	towards     [2]atomic.Int64 // Writes started towards mux 0 / 1
	releaseOnce sync.Once
	releaseWG   sync.WaitGroup

	eventsWaiting atomic.Int32 // failure / stale-close goroutines still waiting for their trigger
	eventsRunning atomic.Int32 // ... applying their event
	forceOnce     sync.Once
	forceC        chan struct{} // closed when the case stops waiting for the triggers
}

func (r *c11run) addClass(k string) {
	r.failMu.Lock()
	r.classes[k] = true
	r.failMu.Unlock()
}

func (r *c11run) failf(format string, a ...any) {
	r.failMu.Lock()
	if r.fail == "" {
		r.fail = fmt.Sprintf(format, a...)
	}
	r.failMu.Unlock()
	r.tick()
}

func (r *c11run) hangf(format string, a ...any) {
	r.failMu.Lock()
	if r.hang == "" {
		r.hang = fmt.Sprintf(format, a...)
	}
	r.failMu.Unlock()
}

func (r *c11run) tick() {
	r.progress.Add(1)
	select {
	case r.poke <- struct{}{}:
	default:
	}
}

func (r *c11run) recoverPanic(who string) {
	if e := recover(); e != nil {
		buf := make([]byte, 8192)
		n := runtime.Stack(buf, false)
		r.failf("panic in %s: %v\n%s", who, e, buf[:n])
	}
}

func (r *c11run) sawError(side, conn int, op string, err error) {
	r.observed[side][conn].Store(true)
	r.anyErrOnce.Do(func() { close(r.anyErrC) })
	r.errMu.Lock()
	if errors.Is(err, io.EOF) {
		r.eofSeen[side]++
	} else if len(r.nonEOF[side]) < 8 {
		r.nonEOF[side] = append(r.nonEOF[side], fmt.Sprintf("%s id=%d: %v", op, r.ids[conn], err))
	} else {
		r.nonEOF[side] = append(r.nonEOF[side][:8], "...")
	}
	r.errMu.Unlock()
	if r.c.Failure.Kind == "overflow" {
		r.markFailure()
	}
}

// snapshotActivity records what was going on when the failure struck (non-triviality rule).
func (r *c11run) snapshotActivity() {
	for _, s := range r.streams {
		if s.readerExited.Load() {
			continue
		}
		st, rc := s.started.Load(), s.received.Load()
		if st > rc {
			r.inflightAtF.Store(true)
			r.nonTrivial.Store(true)
		} else if s.inReadSince.Load() != 0 {
			r.blockedAtF.Store(true)
			r.nonTrivial.Store(true)
		}
	}
}

func (r *c11run) markFailure() {
	r.globalFailure.Store(true)
	r.tick()
	// a mux whose reader is still blocked (WithBlockedRead, no Unblock yet) cannot notice that the
	// peer or the trunk is gone; that is what the option is for. Now is "after the Close": unblock
	// it, or - if the case never unblocks it - close it, so that its own calls have to return.
	r.releaseOnce.Do(func() {
		r.releaseWG.Add(1)
		go func() { defer r.releaseWG.Done(); r.releaseBlocked() }()
	})
}

func (r *c11run) unblock(sd int) {
	if r.pending[sd].CompareAndSwap(true, false) {
		r.p.m[sd].Unblock()
		r.tick()
	}
}

func (r *c11run) releaseBlocked() {
	defer r.recoverPanic("release of a blocked mux")
	for sd := 0; sd < 2; sd++ {
		if !r.pending[sd].Load() {
			continue
		}
		if r.opts[sd].Unblock == "never" {
			r.addClass("closed_while_blocked_never_unblocked")
			r.closeMux(sd, 1, 1, "blocked mux")
			continue
		}
		r.addClass("unblocked_after_close")
		r.unblock(sd)
	}
}

// overflowArmed: this stream's writer sends more frames than the queue holds without waiting
// for the (stalled) reader.
func (s *c11stream) overflowArmed(qlen int) bool {
	return s.spec.NoCredits && s.spec.Stalled && len(s.frames) > qlen && !s.noOverflow
}

func expectedFrames(sizes []int) []frameRef {
	var fr []frameRef
	for i, l := range sizes {
		pos := 0
		for first := true; first || pos < l; first = false {
			n := l - pos
			if n > maxPayload {
				n = maxPayload
			}
			fr = append(fr, frameRef{i, pos, n})
			pos += n
		}
	}
	return fr
}

func runC11Mux(c C11Case) (ev.Outcome, bool) {
	defer settleGoroutines(runtime.NumGoroutine())
	if c.Opts[0].FdTrunk || c.Opts[1].FdTrunk {
		// a descriptor that is merely forgotten gets closed by a finalizer whenever the garbage
		// collector happens to run; "promptly" must not depend on that: no collection while the
		// case runs (its allocations are bounded)
		defer debug.SetGCPercent(debug.SetGCPercent(-1))
	}
	r := &c11run{c: c, poke: make(chan struct{}, 1), trigC: make(chan struct{}), anyErrC: make(chan struct{}),
		primaryDoneC: make(chan struct{}), writersDoneC: make(chan struct{}), forceC: make(chan struct{}), lenient: map[string]bool{}, classes: map[string]bool{}}
	f := c.Failure
	var cut *cutConn
	var wrap func(int, net.Conn) net.Conn
	if f.Kind == "cut_write" || f.Kind == "cut_read" || f.Kind == "read_error" {
		wrap = func(side int, raw net.Conn) net.Conn {
			if side != f.Side {
				return raw
			}
			cut = &cutConn{Conn: raw, wLimit: -1, rLimit: -1, half: f.Half, armedC: make(chan struct{}), closedC: make(chan struct{})}
			// the failure must not strike before the ids are open (Open on a mux that has failed
			// already is outside the property): reads wait until the case is set up, unless the
			// prologue needs the trunk (then they pass uncounted until then)
			cut.gate = true
			for _, ro := range c.Reopen {
				if ro.OldFrames > 0 {
					cut.gate = false
				}
			}
			switch f.Kind {
			case "cut_write":
				cut.wLimit = f.CutAfter
			case "read_error":
				cut.rLimit = f.CutAfter
				cut.injErr, cut.injData = readErrOf(f.ErrClass), f.ErrWithData
				cut.onInject = func(expectFailure bool) {
					r.snapshotActivity()
					r.cutDone.Store(true)
					r.primOnce.Do(func() { close(r.primaryDoneC) })
					if expectFailure {
						r.markFailure()
					} else {
						r.addClass("read_error_dropped_by_complete_read")
					}
				}
			default:
				cut.rLimit = f.CutAfter
			}
			cut.onCut = func() {
				r.snapshotActivity()
				r.cutDone.Store(true)
				r.primOnce.Do(func() { close(r.primaryDoneC) })
				r.markFailure()
			}
			return cut
		}
	}
	r.ids = append([]uint32{}, c.IDs...)
	for _, ro := range c.Reopen {
		if ro.OldFrames > 0 && r.syncConn == 0 {
			// an extra connection, never closed, used as a barrier: once its marker has arrived,
			// every frame sent before it has been dispatched by the receiving mux
			id := uint32(1)
			for used := true; used; {
				used = false
				for _, x := range r.ids {
					if x == id {
						used = true
						id++
					}
				}
			}
			r.syncConn = len(r.ids)
			r.ids = append(r.ids, id)
		}
	}
	if len(c.Late) > 0 {
		// a canary connection, never used and never closed individually: when a Read on it fails
		// the multiplexer of that end has closed its connections
		r.canary = len(r.ids)
		r.ids = append(r.ids, newIDAllocator(r.ids).fresh())
	}
	r.opts = c.Opts
	if c.Blocked {
		for sd := 0; sd < 2; sd++ {
			r.opts[sd].Blocked, r.opts[sd].Unblock = true, "before_traffic"
		}
	}
	po := pairOpts{qlen: [2]int{c.QLen, c.QLen}, ids: r.ids, wrap: wrap}
	for sd := 0; sd < 2; sd++ {
		po.blocked[sd] = r.opts[sd].Blocked
		po.omitQLen[sd] = r.opts[sd].OmitQLen
		po.fdTrunk[sd] = r.opts[sd].FdTrunk
		r.pending[sd].Store(r.opts[sd].late())
	}
	r.p = connectPairOpts(po)
	defer r.p.shutdown()
	for sd := 0; sd < 2; sd++ {
		if r.opts[sd].Blocked && !r.opts[sd].late() {
			r.p.m[sd].Unblock()
		}
	}
	for s := 0; s < 2; s++ {
		r.observed[s] = make([]atomic.Bool, len(r.ids))
	}
	if r.canary != 0 {
		for sd := 0; sd < 2; sd++ {
			r.canaryDone[sd] = make(chan struct{})
			go func(cn net.Conn, done chan struct{}) {
				defer close(done)
				defer func() { _ = recover() }()
				buf := make([]byte, 64)
				for {
					if _, err := cn.Read(buf); err != nil {
						return
					}
				}
			}(r.p.conns[sd][r.canary], r.canaryDone[sd])
		}
	}

	hookTrigger := verifhook.Enabled && f.HookPoint != "" && (f.Kind == "close_mux" || f.Kind == "close_conn")
	var extra func(string, int64)
	if hookTrigger {
		extra = func(p string, hit int64) {
			if p == f.HookPoint && hit == int64(f.HookHit) {
				r.trigOnce.Do(func() { close(r.trigC) })
				time.Sleep(500 * time.Microsecond) // keep the window open while the failure is applied
			}
		}
	}
	remove := installDelays(c.Delays, extra)
	defer remove()

	// write-count triggers of the stale closes
	r.writeTrig = map[int64]chan struct{}{}
	for _, ro := range c.Reopen {
		if ro.StaleDuring > 0 && r.writeTrig[int64(ro.StaleAfterWrites)] == nil {
			ch := make(chan struct{})
			r.writeTrig[int64(ro.StaleAfterWrites)] = ch
			if ro.StaleAfterWrites <= 0 {
				close(ch)
			}
		}
	}
	// prologue: close and re-open connection ids; all traffic of the case uses the new handles
	if !r.prologue() {
		return r.verdict(stacks())
	}

	var wg sync.WaitGroup
	var writersWG sync.WaitGroup
	for i := range c.Streams {
		sp := c.Streams[i]
		s := &c11stream{spec: sp, name: fmt.Sprintf("id=%d/dir=%d", r.ids[sp.Conn], sp.Dir),
			wr: r.p.conns[sp.Dir][sp.Conn], rd: r.p.conns[1-sp.Dir][sp.Conn], wrSide: sp.Dir, rdSide: 1 - sp.Dir,
			frames: expectedFrames(sp.Sizes), cred: newCredits(c.QLen),
			writerExitC: make(chan struct{}), starvedC: make(chan struct{})}
		s.recvAtFirstErr.Store(-1)
		s.noOverflow = r.opts[s.rdSide].late()
		r.streams = append(r.streams, s)
	}
	if !hookTrigger && f.AfterWrites == 0 {
		r.trigOnce.Do(func() { close(r.trigC) })
	}
	if cut != nil {
		cut.arm()
	}
	for _, s := range r.streams {
		s := s
		wg.Add(2)
		writersWG.Add(1)
		go func() {
			defer wg.Done()
			defer r.tick()
			defer s.readerExited.Store(true)
			defer s.cred.disable()
			defer r.recoverPanic(s.name + " reader")
			r.reader(s)
		}()
		go func() {
			defer wg.Done()
			defer writersWG.Done()
			defer r.tick()
			defer close(s.writerExitC)
			defer s.writerExited.Store(true)
			defer r.recoverPanic(s.name + " writer")
			r.writer(s, hookTrigger)
		}()
	}
	go func() { writersWG.Wait(); close(r.writersDoneC); r.tick() }()

	// Unblock of a mux that is unblocked after some writes of its peer
	started := time.Now()
	for sd := 0; sd < 2; sd++ {
		if !r.opts[sd].late() || r.opts[sd].held() {
			continue
		}
		go func(sd int) {
			defer r.recoverPanic("Unblock")
			o := r.opts[sd]
			limit := time.Duration(max(1, o.DelayMs)) * time.Millisecond
			for r.pending[sd].Load() && r.towards[sd].Load() < int64(o.AfterWrites) && time.Since(started) < limit {
				time.Sleep(100 * time.Microsecond)
			}
			r.unblock(sd)
		}(sd)
	}

	// the failure event (and the repeated closes of stale handles during the traffic)
	primDone := make(chan struct{})
	var eventsWG sync.WaitGroup
	for _, st := range r.stale {
		if st.ro.StaleDuring == 0 {
			continue
		}
		st := st
		eventsWG.Add(1)
		go func() {
			defer eventsWG.Done()
			defer r.recoverPanic("stale close")
			r.eventsWaiting.Add(1)
			select {
			case <-r.writeTrig[int64(st.ro.StaleAfterWrites)]:
			case <-r.writersDoneC:
			case <-r.forceC:
			}
			r.eventsRunning.Add(1)
			r.eventsWaiting.Add(-1)
			defer r.eventsRunning.Add(-1)
			r.closeStale(st, st.ro.StaleDuring, "during the traffic")
			r.addClass("stale_close_during_traffic")
		}()
	}
	eventsWG.Add(1)
	go func() { eventsWG.Wait(); close(primDone); r.tick() }()
	go func() {
		defer eventsWG.Done()
		defer r.recoverPanic("failure goroutine")
		if f.Kind != "close_mux" && f.Kind != "close_conn" && f.Kind != "deadline" {
			return
		}
		r.eventsWaiting.Add(1)
		select {
		case <-r.trigC:
		case <-r.writersDoneC:
		case <-r.forceC:
		}
		r.eventsRunning.Add(1)
		r.eventsWaiting.Add(-1)
		defer r.eventsRunning.Add(-1)
		if f.DelayUs > 0 {
			time.Sleep(time.Duration(f.DelayUs) * time.Microsecond)
		}
		if f.Kind == "deadline" {
			// a real read deadline on the trunk, cleared again: whether the reader runs into it
			// depends on the schedule, so no failure is taken for granted
			r.snapshotActivity()
			tr := r.p.m[f.Side].Trunk()
			_ = tr.SetReadDeadline(time.Now())
			if f.DelayUs > 0 {
				time.Sleep(time.Duration(f.DelayUs) * time.Microsecond)
			}
			_ = tr.SetReadDeadline(time.Time{})
			r.primOnce.Do(func() { close(r.primaryDoneC) })
			return
		}
		r.snapshotActivity()
		if f.Kind == "close_mux" {
			r.closeMux(f.Side, f.Closers, f.Repeat, "primary")
			r.markFailure()
		} else {
			r.closeConn(f.Side, f.Conn, f.Closers, f.Repeat)
		}
		r.primOnce.Do(func() { close(r.primaryDoneC) })
	}()

	allDone := make(chan struct{})
	go func() { wg.Wait(); <-primDone; close(allDone) }()

	var stackDump string
	// phase 1: run until everything has ended (a failure of the whole mux) or the traffic is
	// complete and everybody idles (no mux-wide failure: the final Close is the failure event)
	st := r.waitSettled(allDone, primDone, &stackDump)
	if r.hang == "" {
		for _, s := range r.stale {
			if s.ro.StaleQuiet > 0 {
				r.closeStale(s, s.ro.StaleQuiet, "when all traffic was done")
				r.addClass("stale_close_when_quiet")
			}
		}
	}
	if r.hang == "" {
		exited := st == settledExited
		if !exited {
			if st == settledQuiet {
				r.addClass("orderly_close_when_quiescent")
			} else {
				// frames written without error are not (yet) delivered and nothing moves: completeness is
				// not C11's matter; go on with the final Close while they are outstanding
				r.failMu.Lock()
				r.lenient["final_close_with_undelivered_frames"] = true
				r.failMu.Unlock()
			}
			r.snapshotActivity()
		}
		if exited {
			r.lateOpens("after_failure") // both ends have failed by themselves or were closed
		}
		r.closeMux(c.Final.Side, c.Final.Closers, c.Final.Repeat, "final")
		if !exited && r.hang == "" {
			r.markFailure()
			if r.waitSettled(allDone, primDone, &stackDump) == settledExited {
				r.lateOpens("after_failure") // one end closed locally, the other has noticed it
			}
		}
		if r.hang == "" {
			r.closeMux(1-c.Final.Side, 1, 1, "cleanup")
		}
		if r.hang == "" {
			r.probes()
		}
		if r.hang == "" {
			r.lateOpens("at_end")
		}
		if r.hang == "" {
			r.drainStale()
		}
	}
	if r.hang == "" {
		// the release of a blocked mux (Unblock or Close) has to have returned as well
		r.timed("Unblock/Close of the mux that was still blocked", func() { r.releaseWG.Wait() })
	}
	if r.hang != "" && stackDump == "" {
		stackDump = stacks()
	}

	return r.verdict(stackDump)
}

// waitSettled waits until every goroutine of the case has ended (returns true) or, as long as
// no mux-wide failure has happened, until the case is quiescent (returns false). A lack of
// progress for hangAfter is a hang if a call is stuck that must return.
func (r *c11run) waitSettled(allDone, primDone chan struct{}, stackDump *string) settled {
	last, lastChange := r.progress.Load(), time.Now()
	tk := time.NewTicker(20 * time.Millisecond)
	defer tk.Stop()
	idleTicks := 0 // ticks seen without progress: a frozen process must not look like a hang
	for {
		select {
		case <-allDone:
			return settledExited
		default:
		}
		if !r.globalFailure.Load() && r.quiescent(primDone) && !r.globalFailure.Load() {
			return settledQuiet
		}
		select {
		case <-allDone:
			return settledExited
		case <-r.poke:
		case <-tk.C:
			idleTicks++
		}
		if p := r.progress.Load(); p != last {
			last, lastChange, idleTicks = p, time.Now(), 0
			continue
		}
		idle := time.Since(lastChange)
		if idle > stuckAfter && !r.globalFailure.Load() && !r.mustReturnPending() {
			// nothing moves although frames written without error are outstanding (not C11's matter):
			// do not wait for the triggers of the failure / stale-close events any longer
			r.forceOnce.Do(func() { close(r.forceC) })
			select {
			case <-primDone:
				return settledStuck
			default:
			}
			if r.eventsWaiting.Load() > 0 || r.eventsRunning.Load() > 0 {
				lastChange, idleTicks = time.Now(), 0
				continue
			}
		}
		if idle > hangAfter && idleTicks >= int(hangAfter/(20*time.Millisecond))/2 {
			*stackDump = stacks()
			r.analyseStuck(primDone)
			if r.hang == "" {
				return settledStuck
			}
			return settledHang
		}
	}
}

type settled int

const (
	settledExited settled = iota // every goroutine of the case has ended
	settledQuiet                 // no mux-wide failure; all traffic done, all readers idle
	settledStuck                 // no mux-wide failure; nothing moves although frames are outstanding
	settledHang                  // a call that has to return did not
)

// stuckAfter: how long the case waits, without any progress, for frames that were written
// without error before it goes on to the final Close anyway (no verdict depends on it).
var stuckAfter = func() time.Duration {
	if v := os.Getenv("MUX_STUCK_AFTER"); v != "" { // harness self-test: exercise the path often
		if d, err := time.ParseDuration(v); err == nil {
			return d
		}
	}
	return 2 * time.Second
}()

// mustReturnPending: some call is in progress that has to return (started after an error was
// observed on its connection), or a failure/stale-close event is being applied.
func (r *c11run) mustReturnPending() bool {
	if r.eventsRunning.Load() > 0 {
		return true
	}
	for _, s := range r.streams {
		if s.inReadSince.Load() != 0 && !s.readerExited.Load() && s.readAfterErr.Load() {
			return true
		}
		if s.inWriteSince.Load() != 0 && !s.writerExited.Load() && s.writeAfterErr.Load() {
			return true
		}
	}
	return false
}

func (r *c11run) quiescent(primDone chan struct{}) bool {
	select {
	case <-primDone:
	default:
		return false
	}
	for _, s := range r.streams {
		if !s.writerExited.Load() {
			return false
		}
		if !s.readerExited.Load() && ((s.received.Load() < s.written.Load() && !r.pending[s.rdSide].Load()) || s.inReadSince.Load() == 0) {
			return false // (nothing is delivered to a mux that is still blocked)
		}
	}
	return true
}

// analyseStuck is called when nothing moved for hangAfter.
func (r *c11run) analyseStuck(primDone chan struct{}) {
	now := time.Now().UnixNano()
	var must, other []string
	for _, s := range r.streams {
		if t := s.inReadSince.Load(); t != 0 && !s.readerExited.Load() {
			d := time.Duration(now - t).Round(time.Millisecond)
			desc := fmt.Sprintf("Read on %s (side %d) blocked for %v", s.name, s.rdSide, d)
			if r.globalFailure.Load() || s.readAfterErr.Load() {
				must = append(must, desc)
			} else {
				other = append(other, desc)
			}
		}
		if t := s.inWriteSince.Load(); t != 0 && !s.writerExited.Load() {
			d := time.Duration(now - t).Round(time.Millisecond)
			desc := fmt.Sprintf("Write on %s (side %d) blocked for %v", s.name, s.wrSide, d)
			if r.globalFailure.Load() || s.writeAfterErr.Load() {
				must = append(must, desc)
			} else {
				other = append(other, desc)
			}
		}
	}
	switch {
	case len(must) > 0:
		r.hangf("after the failure (%s) these calls did not return within %v: %v", r.c.Failure.Kind, hangAfter, must)
	case r.globalFailure.Load():
		r.hangf("after the failure (%s) the case did not come to an end within %v (no call blocked: %v)", r.c.Failure.Kind, hangAfter, other)
	default:
		select {
		case <-primDone:
		default:
			r.hangf("the failure event (%s) or a repeated Close of a stale handle did not finish within %v", r.c.Failure.Kind, hangAfter)
		}
	}
}

func (r *c11run) writer(s *c11stream, hookTrigger bool) {
	sizes := s.spec.Sizes
	maxLen := 0
	for _, l := range sizes {
		if l > maxLen {
			maxLen = l
		}
	}
	var buf []byte
	if maxLen <= maxPayload && maxLen > 1<<16 {
		bp := getBuf()
		defer putBuf(bp)
		buf = *bp
	} else {
		buf = make([]byte, maxLen)
	}
	useCredits := !s.overflowArmed(r.c.QLen)
	if useCredits {
		s.cred.onStarve = func() { s.starveOnce.Do(func() { close(s.starvedC) }) }
	} else {
		// all frames written (or a Write failed): more frames than the queue holds are on their
		// way to a reader that does not read, so the overflow is bound to happen
		defer r.markFailure()
	}
	failures := 0
	for i, l := range sizes {
		d := payloadDesc{Conn: s.spec.Conn, Dir: s.spec.Dir, Writer: 0, Seq: i, Len: l, ID: r.ids[s.spec.Conn]}
		d.fill(buf[:l])
		nf := nFrames(l)
		if useCredits {
			s.cred.acquire(nf)
		}
		r.towards[s.rdSide].Add(1)
		wn := r.writeStarts.Add(1)
		if !hookTrigger && wn == int64(r.c.Failure.AfterWrites) {
			r.trigOnce.Do(func() { close(r.trigC) })
		}
		if ch := r.writeTrig[wn]; ch != nil {
			close(ch)
		}
		mustFail := r.observed[s.wrSide][s.spec.Conn].Load()
		s.writeAfterErr.Store(mustFail)
		s.started.Add(int64(nf))
		// (first active, then started; the close snapshot reads started first, then active: a Write
		// that is counted as started before the snapshot is then also seen as active, or it is over)
		r.activeWrites[s.wrSide].Add(1)
		r.startedWrites[s.wrSide].Add(1)
		s.inWriteSince.Store(time.Now().UnixNano())
		n, err := s.wr.Write(buf[:l])
		s.inWriteSince.Store(0)
		r.activeWrites[s.wrSide].Add(-1)
		r.tick()
		if err == nil {
			if mustFail {
				r.failf("%s: Write #%d succeeded although an error had already been observed on this connection (side %d): later writes must fail", s.name, i, s.wrSide)
				return
			}
			if n != l {
				r.failf("%s: Write #%d of %d bytes returned n=%d without error", s.name, i, l, n)
				return
			}
			s.written.Add(int64(nf))
			continue
		}
		r.sawError(s.wrSide, s.spec.Conn, "Write", err)
		if useCredits {
			// a failed Write produces no (further) frames; every later Write on this connection must
			// fail as well, so handing the credits back cannot overrun the queue
			s.cred.release(nf)
		}
		failures++
		if failures >= 3 { // two more attempts after the first error: they must fail as well
			return
		}
	}
}

func (r *c11run) reader(s *c11stream) {
	if s.overflowArmed(r.c.QLen) {
		// the overflow stream: do not read before somebody has seen the multiplexer fail
		<-r.anyErrC
	} else if s.spec.Stalled {
		select {
		case <-r.anyErrC:
		case <-s.writerExitC:
		case <-s.starvedC:
		case <-r.primaryDoneC:
		}
	}
	bp := getBuf()
	defer putBuf(bp)
	buf := *bp
	id := r.ids[s.spec.Conn]
	consec := 0
	sawErr := false
	total := int64(len(s.frames))
	for {
		idx := s.received.Load()
		if sawErr && idx == total {
			return
		}
		s.readAfterErr.Store(r.observed[s.rdSide][s.spec.Conn].Load())
		s.inReadSince.Store(time.Now().UnixNano())
		r.tickIfIdle(s, idx)
		n, err := s.rd.Read(buf)
		s.inReadSince.Store(0)
		r.tick()
		if err != nil {
			if !sawErr {
				sawErr = true
				s.recvAtFirstErr.Store(idx)
				s.firstErr.Store(err.Error())
			}
			r.sawError(s.rdSide, s.spec.Conn, "Read", err)
			consec++
			if consec >= errsToStop {
				return
			}
			continue
		}
		consec = 0
		if n < 0 || n > len(buf) {
			r.failf("%s: Read returned n=%d for a buffer of %d bytes", s.name, n, len(buf))
			return
		}
		if idx >= total {
			r.failf("%s: frame of %d bytes received after all %d frames sent on this connection had been received (duplicate or foreign frame)", s.name, n, total)
			return
		}
		if st := s.started.Load(); idx >= st {
			r.failf("%s: received frame #%d (%d bytes) but only %d frames had been sent so far", s.name, idx, n, st)
			return
		}
		fr := s.frames[idx]
		d := payloadDesc{Conn: s.spec.Conn, Dir: s.spec.Dir, Writer: 0, Seq: fr.payload, Len: s.spec.Sizes[fr.payload], ID: id}
		if n != fr.n {
			what := "gap, duplicate or damaged frame"
			if sawErr {
				what += " after an error"
			}
			r.failf("%s: frame #%d has %d bytes, the %d-th frame sent has %d bytes (%s; received so far is not a prefix of what was sent)", s.name, idx, n, idx, fr.n, what)
			return
		}
		if i := d.match(buf[:n], fr.pos); i >= 0 {
			r.failf("%s: frame #%d (%d bytes) differs from the %d-th frame sent at byte %d (got header % x): gap, duplicate or damaged frame", s.name, idx, n, idx, i, buf[:min(n, patHdrLen)])
			return
		}
		s.received.Add(1)
		s.cred.release(1)
		if sawErr {
			r.failMu.Lock()
			r.classes["frames_drained_after_error"] = true
			r.failMu.Unlock()
		}
		if s.spec.LagEvery > 0 && (idx+1)%int64(s.spec.LagEvery) == 0 {
			if s.spec.LagUs == 0 {
				runtime.Gosched()
			} else {
				time.Sleep(time.Duration(s.spec.LagUs) * time.Microsecond)
			}
		}
	}
}

// tickIfIdle wakes the main loop when a reader is about to block with nothing left to receive
// (so that quiescence is noticed without polling).
func (r *c11run) tickIfIdle(s *c11stream, idx int64) {
	if s.writerExited.Load() && idx >= s.written.Load() {
		select {
		case r.poke <- struct{}{}:
		default:
		}
	}
}

// closeMux closes one mux from `closers` goroutines, each calling Close `repeat` times.
func (r *c11run) closeMux(side, closers, repeat int, what string) {
	var cl *c11close
	r.errMu.Lock()
	first := r.firstClose == nil
	if first {
		cl = &c11close{side: side}
		r.firstClose = cl
	}
	r.errMu.Unlock()
	if r.pending[side].Load() {
		r.addClass("close_before_unblock")
	}
	y := 1 - side
	var aX int32
	var sX int64
	if first {
		sX = r.startedWrites[side].Load()
		aX = r.activeWrites[side].Load()
		cl.sY = r.startedWrites[y].Load()
		cl.aY = r.activeWrites[y].Load()
		cl.recvAll = true
		for _, s := range r.streams {
			if s.wrSide == y && (s.readerExited.Load() || s.received.Load() < s.started.Load()) && s.started.Load() > 0 {
				cl.recvAll = false
			}
		}
	}
	done := make(chan struct{})
	var wg sync.WaitGroup
	for i := 0; i < closers; i++ {
		wg.Add(1)
		go func() {
			defer wg.Done()
			defer r.recoverPanic(what + " Close")
			for j := 0; j < repeat; j++ {
				_ = r.p.m[side].Close()
			}
		}()
	}
	go func() { wg.Wait(); close(done) }()
	select {
	case <-done:
	case <-time.After(hangAfter):
		r.hangf("%s Close of mux %d by %d closer(s) x %d did not return within %v", what, side, closers, repeat, hangAfter)
	}
	if first {
		cl.strictX = aX == 0 && r.startedWrites[side].Load() == sX
	}
	r.tick()
}

func (r *c11run) closeConn(side, conn, closers, repeat int) {
	done := make(chan struct{})
	var wg sync.WaitGroup
	for i := 0; i < closers; i++ {
		wg.Add(1)
		go func() {
			defer wg.Done()
			defer r.recoverPanic("conn Close")
			for j := 0; j < repeat; j++ {
				_ = r.p.conns[side][conn].Close()
			}
		}()
	}
	go func() { wg.Wait(); close(done) }()
	select {
	case <-done:
	case <-time.After(hangAfter):
		r.hangf("Close of connection id=%d on mux %d by %d closer(s) x %d did not return within %v", r.ids[conn], side, closers, repeat, hangAfter)
	}
	r.tick()
}

// probes: once both muxes are closed every later Write fails and every Read returns, promptly.
func (r *c11run) probes() {
	type res struct {
		what string
		err  error
		n    int
	}
	for side := 0; side < 2; side++ {
		for ci, cn := range r.p.conns[side] {
			for _, op := range []string{"Write", "Read"} {
				ch := make(chan res, 1)
				go func() {
					defer func() {
						if e := recover(); e != nil {
							ch <- res{what: fmt.Sprintf("panic: %v", e)}
						}
					}()
					if op == "Write" {
						n, err := cn.Write([]byte{0xfe})
						ch <- res{err: err, n: n}
						return
					}
					bp := getBuf()
					defer putBuf(bp)
					var err error
					// queued frames may still be handed out (at random) before the error
					for i := 0; i < r.c.QLen+errsToStop && err == nil; i++ {
						_, err = cn.Read(*bp)
					}
					ch <- res{err: err}
				}()
				select {
				case x := <-ch:
					if x.what != "" {
						r.failf("%s on id=%d (mux %d) after Close: %s", op, r.ids[ci], side, x.what)
					} else if x.err == nil {
						r.failf("%s on id=%d (mux %d) succeeded after both multiplexers had been closed (must return an error)", op, r.ids[ci], side)
					}
				case <-time.After(hangAfter):
					r.hangf("%s on id=%d (mux %d) made after both multiplexers were closed did not return within %v", op, r.ids[ci], side, hangAfter)
					return
				}
			}
		}
	}
}

func (r *c11run) verdict(stackDump string) (ev.Outcome, bool) {
	c := r.c
	o := ev.Outcome{}
	cls := []string{"kind:" + c.Failure.Kind}
	add := func(k string) { cls = append(cls, k) }
	if r.inflightAtF.Load() {
		add("frames_in_flight_at_failure")
	}
	if r.blockedAtF.Load() {
		add("reader_blocked_at_failure")
	}
	if c.Failure.Kind == "overflow" {
		r.nonTrivial.Store(true)
	}
	switch c.Failure.Kind {
	case "cut_write", "cut_read", "read_error":
		if c.Failure.ErrClass != "" {
			add("read_error:" + c.Failure.ErrClass)
			if c.Failure.ErrWithData {
				add("read_error_with_data")
			}
		}
		if c.Failure.CutWhere != "" {
			add("cut_at:" + c.Failure.CutWhere)
		}
		if c.Failure.Half {
			add("cut_half_close")
		}
		if r.cutDone.Load() {
			add("cut_happened")
		} else {
			add("cut_not_reached")
		}
	}
	if c.Failure.Closers > 1 || c.Final.Closers > 1 {
		add("concurrent_closers")
	}
	if c.Failure.Repeat > 1 || c.Final.Repeat > 1 {
		add("repeated_close")
	}
	if c.Failure.HookPoint != "" && verifhook.Enabled {
		add("hook_trigger")
	}
	for sd := 0; sd < 2; sd++ {
		if r.opts[sd].Blocked {
			add("blocked_read:" + r.opts[sd].Unblock)
		}
		if r.opts[sd].OmitQLen {
			add("default_queue_length_option_omitted")
		}
		if r.opts[sd].FdTrunk {
			add("trunk_from_descriptor")
			if c.Failure.Side == sd && (c.Failure.Kind == "close_mux" || c.Failure.Kind == "overflow") {
				add("descriptor_trunk_end_fails_first")
			}
		}
	}
	r.failMu.Lock()
	for k := range r.classes {
		add(k)
	}
	r.failMu.Unlock()
	drained := false
	for _, s := range r.streams {
		if a := s.recvAtFirstErr.Load(); a >= 0 && s.received.Load() > a {
			drained = true
		}
	}
	if drained {
		add("frames_drained_after_error")
	}

	// clause 3: end-of-file after an orderly close, on sides without traffic in flight
	if r.fail == "" && r.hang == "" && (c.Failure.Kind == "none" || c.Failure.Kind == "close_mux" || c.Failure.Kind == "close_conn") && r.firstClose != nil {
		cl := r.firstClose
		x, y := cl.side, 1-cl.side
		strict := [2]bool{}
		strict[x] = cl.strictX
		strict[y] = cl.strictX && cl.aY == 0 && cl.recvAll && r.startedWrites[y].Load() == cl.sY
		for side := 0; side < 2; side++ {
			if strict[side] {
				add("eof_required")
				if len(r.nonEOF[side]) > 0 {
					r.fail = fmt.Sprintf("after an orderly Close of mux %d, with no write in flight and nothing unread on the trunk, mux %d reported %d error(s) other than io.EOF: %v",
						x, side, len(r.nonEOF[side]), r.nonEOF[side])
				}
			} else if len(r.nonEOF[side]) > 0 {
				r.lenient["non_eof_error_accepted_traffic_in_flight_at_close"] = true
			}
		}
	}
	// every case ends with both muxes closed: each live reader must have seen an error
	if r.fail == "" && r.hang == "" {
		for _, s := range r.streams {
			if s.recvAtFirstErr.Load() < 0 {
				r.fail = fmt.Sprintf("%s: the reader ended without ever getting an error although both multiplexers were closed", s.name)
			}
		}
	}

	r.failMu.Lock()
	for k := range r.lenient {
		o.Lenient = append(o.Lenient, k)
	}
	r.failMu.Unlock()
	o.Classes = cls
	o.NonTrivial = r.nonTrivial.Load()
	hist := func() map[string]any {
		h := map[string]any{}
		var ss []map[string]any
		for _, s := range r.streams {
			fe, _ := s.firstErr.Load().(string)
			ss = append(ss, map[string]any{"stream": s.name, "frames_planned": len(s.frames), "frames_started": s.started.Load(),
				"frames_written": s.written.Load(), "frames_received": s.received.Load(), "received_before_first_error": s.recvAtFirstErr.Load(),
				"first_read_error": fe, "reader_exited": s.readerExited.Load(), "writer_exited": s.writerExited.Load()})
		}
		h["streams"] = ss
		h["non_eof_errors"] = r.nonEOF
		h["eof_errors"] = r.eofSeen
		h["global_failure"] = r.globalFailure.Load()
		if stackDump != "" {
			h["stacks"] = stackDump
		}
		return h
	}
	if r.fail != "" {
		o.Fail = r.fail
		o.History = hist()
		return o, false
	}
	if r.hang != "" {
		if r.lenient["stuck_without_failure"] {
			o.Overloaded = true
			return o, false
		}
		o.Fail = r.hang
		o.History = hist()
		return o, true
	}
	return o, false
}
