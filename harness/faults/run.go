package faults

import (
	"context"
	"fmt"
	"net"
	"os"
	"path/filepath"
	"runtime"
	"sort"
	"strings"
	"sync"
	"syscall"
	"time"

	"github.com/containerd/nri/pkg/adaptation"
	"github.com/containerd/nri/pkg/api"
	"github.com/containerd/nri/pkg/verifhook"
	"github.com/containerd/ttrpc"
	"google.golang.org/protobuf/proto"
	"google.golang.org/protobuf/reflect/protoreflect"

	"nriverif/ev"
	"nriverif/fx"
)

const (
	// ReqTimeout is the plugin request timeout of fault cases: far above the healthy latency
	// (< 1 ms per plugin), small enough that hanging plugins stay affordable.
	ReqTimeout = 300 * time.Millisecond
	// setupTimeout is used while plugins register (Configure and Synchronize are bounded by the
	// same process-wide setting; registration is not what C07 is about).
	setupTimeout = 30 * time.Second
	slack        = 2 * time.Second // "plus scheduling slack" of the statement
	settleMax    = 3 * time.Second // a dropped plugin's session must be closed well within this
	// gapMax: the longest time between two consecutive handler entries of one request (beyond
	// timeouts and stalls the case itself causes) up to which a run is judged. The delivery of a
	// request to plugin i+1 lies in gap i, its answer in gap i+1: while every gap stays below
	// 0.4 x timeout no healthy plugin's round trip can have reached the timeout. (Large requests
	// take a few ms per plugin on an idle machine and several tens of ms when 16 shards share it.)
	gapMax = ReqTimeout * 2 / 5
	// leaveGraceMs: a plugin that leaves sooner than this after answering may be taken for one
	// that disconnected during the request (see the oracle)
	leaveGraceMs = 20
	// stopBound: how long Adaptation.Stop() may take at the end of a case (typical: < 1 ms)
	stopBound = 3 * time.Second
	mainTag   = "main"
	followTag = "follow"
)

type logEntry struct {
	Idx  int           `json:"idx"`
	Kind string        `json:"kind"`
	Tag  string        `json:"tag"`
	At   time.Duration `json:"at_ns"` // since fixture start
}

type plug struct {
	spec       PluginSpec
	rank       int // position in invocation order
	name       string
	p          *fx.Plugin
	proxy      *Proxy
	rep        Report
	armed      bool
	wc         *watchConn  // the plugin's own end of its connection (plugins that stop themselves)
	join       *JoinerSpec // the late joiner: its fault strikes during Configure or Synchronize
	joinStruck bool        // ... and it did
	second     bool        // the healthy plugin that joins after the first request
}

func (pl *plug) idx2() string { return fmt.Sprintf("%02d", pl.spec.Idx) }

type fixture struct {
	c         C07Case
	rt        *fx.Runtime
	dir       string
	plugs     []*plug // invocation order
	t0        time.Time
	mu        sync.Mutex
	log       []logEntry
	release   chan struct{}
	relOnce   sync.Once
	w         fx.ActiveWatcher
	ldir      string         // scratch directory of the launched plugins ("" if there are none)
	slowProbe bool           // a probe during the join phases took nearly a request timeout
	upd       map[int]int    // unsolicited UpdateContainers calls the runtime has seen, by plugin
	pressWG   sync.WaitGroup // the plugins' pending UpdateContainers calls
}

func (f *fixture) releaseAll() { f.relOnce.Do(func() { close(f.release) }) }

func (f *fixture) record(pl *plug, kind, tag string) {
	f.mu.Lock()
	f.log = append(f.log, logEntry{Idx: pl.spec.Idx, Kind: kind, Tag: tag, At: time.Since(f.t0)})
	f.mu.Unlock()
}

func (f *fixture) count(idx int, tag string) int {
	n := 0
	for _, e := range f.history() {
		if e.Idx == idx && e.Tag == tag {
			n++
		}
	}
	return n
}

func (f *fixture) history() []logEntry {
	f.mu.Lock()
	out := append([]logEntry{}, f.log...)
	f.mu.Unlock()
	if f.ldir != "" {
		for _, l := range readLaunchLog(filepath.Join(f.ldir, "events.log")) {
			if l.Kind == "probe" || l.Kind == "configure" {
				continue
			}
			out = append(out, logEntry{Idx: l.Idx, Kind: l.Kind, Tag: l.Tag, At: time.Duration(l.T - f.t0.UnixNano())})
		}
	}
	return out
}

// launchedPids: the processes of the launched plugins, by plugin index.
func (f *fixture) launchedPids() map[int]int {
	out := map[int]int{}
	if f.ldir != "" {
		for _, l := range readLaunchLog(filepath.Join(f.ldir, "events.log")) {
			out[l.Idx] = l.Pid
		}
	}
	return out
}

func tagOf(pod *api.PodSandbox, ct *api.Container) string {
	if ct != nil {
		return ct.GetId()
	}
	return pod.GetId()
}

// enter is the common head of every handler: log, then misbehave if this plugin is to fail in
// a handler-driven way during the main request.
func (f *fixture) enter(pl *plug, kind, tag string) error {
	f.record(pl, kind, tag)
	if ft := pl.spec.Fault; ft.Then != "" && tag == mainTag {
		// answers (with an error or normally) and leaves ThenMs after the answer is on the wire
		d := time.Duration(ft.ThenMs) * time.Millisecond
		switch ft.Then {
		case "stop":
			if pl.wc != nil {
				pl.wc.Arm(func() {
					go func() {
						time.Sleep(d)
						pl.p.Stub.Stop()
					}()
				})
			}
		case "peer":
			pl.proxy.Arm(Plan{Kind: "leave", StallMs: ft.ThenMs})
			pl.armed = true
		}
	}
	if ft := pl.spec.Fault; ft.UpdDuring == "handler" && tag == mainTag {
		// an unsolicited update from inside the handler: it waits behind the request in flight
		f.updateFrom(pl)
		time.Sleep(2 * time.Millisecond) // let it reach the runtime before the fault strikes
	}
	if tag == mainTag {
		// the healthy plugin that holds the request while another one queues an update and leaves
		for _, s := range f.plugs {
			if ft := s.spec.Fault; ft.Kind == "updrop" && ft.HoldIdx == pl.spec.Idx && s.proxy != nil {
				hold := time.Duration(ft.HoldMs) * time.Millisecond
				f.updateFrom(s)
				time.Sleep(hold / 2)
				s.proxy.CloseNow()
				time.Sleep(hold - hold/2)
			}
		}
	}
	if ft := pl.spec.Fault; ft.Kind == "error" && (tag == mainTag || (tag == followTag && ft.Again)) {
		err, _ := handlerError(ft)
		return err
	}
	if tag != mainTag {
		return nil
	}
	switch ft := pl.spec.Fault; ft.Kind {
	case "hang":
		<-f.release // ignores its context on purpose
	case "close":
		if ft.When == "during" {
			pl.proxy.CloseNow()
			if ft.Block {
				<-f.release
			}
		}
	}
	return nil
}

// updateFrom issues an unsolicited UpdateContainers call of a plugin from a goroutine of its own
// (answered normally by the fixture's update callback).
func (f *fixture) updateFrom(pl *plug) {
	f.pressWG.Add(1)
	go func() {
		defer f.pressWG.Done()
		pl.p.Stub.UpdateContainers([]*api.ContainerUpdate{{ContainerId: fmt.Sprintf("during-%02d", pl.spec.Idx)}})
	}()
}

// ---- contributions -------------------------------------------------------------------------

func bigValue(idx int, tag string) string {
	return strings.Repeat(fmt.Sprintf("%02d:%s:big;", idx, tag), 6000/10+1)
}

func otherUpdate(idx int, tag string, big bool) *api.ContainerUpdate {
	u := &api.ContainerUpdate{ContainerId: fmt.Sprintf("other-%02d", idx)}
	u.SetLinuxCPUShares(uint64(1000 + idx))
	u.SetLinuxMemoryLimit(int64(1_000_000 + idx))
	u.AddLinuxUnified("c07.tag", fmt.Sprintf("%02d:%s", idx, tag))
	if big {
		u.AddLinuxUnified("c07.big", bigValue(idx, tag))
	}
	return u
}

func createContribution(idx int, tag string, big bool) (*api.ContainerAdjustment, []*api.ContainerUpdate) {
	a := &api.ContainerAdjustment{}
	a.AddAnnotation(fmt.Sprintf("c07/%02d/a", idx), fmt.Sprintf("%02d:%s:a", idx, tag))
	a.AddAnnotation(fmt.Sprintf("c07/%02d/b", idx), fmt.Sprintf("%02d:%s:b", idx, tag))
	if big {
		a.AddAnnotation(fmt.Sprintf("c07/%02d/big", idx), bigValue(idx, tag))
	}
	a.AddEnv(fmt.Sprintf("C07_%02d_E", idx), fmt.Sprintf("%02d:%s:e", idx, tag))
	a.AddMount(&api.Mount{Destination: fmt.Sprintf("/c07/%02d", idx), Source: fmt.Sprintf("/src/%02d/%s", idx, tag), Type: "bind", Options: []string{"ro"}})
	return a, []*api.ContainerUpdate{otherUpdate(idx, tag, big)}
}

// each plugin touches its own field of the updated container (by rank), so no two collide
func ownFieldUpdate(rank, idx int, tag string) *api.ContainerUpdate {
	u := &api.ContainerUpdate{ContainerId: tag}
	switch rank {
	case 0:
		u.SetLinuxCPUQuota(int64(100_000 + idx))
	case 1:
		u.SetLinuxCPUPeriod(int64(200_000 + idx))
	case 2:
		u.SetLinuxMemorySwap(int64(3_000_000 + idx))
	case 3:
		u.SetLinuxCPUSetCPUs(fmt.Sprintf("0-%d", idx+1))
	default:
		u.SetLinuxCPUSetMems(fmt.Sprintf("0-%d", idx+1))
	}
	return u
}

func applyOwnField(r *api.LinuxResources, rank, idx int) {
	switch rank {
	case 0:
		r.Cpu.Quota = api.Int64(int64(100_000 + idx))
	case 1:
		r.Cpu.Period = api.UInt64(uint64(200_000 + idx))
	case 2:
		r.Memory.Swap = api.Int64(int64(3_000_000 + idx))
	case 3:
		r.Cpu.Cpus = fmt.Sprintf("0-%d", idx+1)
	default:
		r.Cpu.Mems = fmt.Sprintf("0-%d", idx+1)
	}
}

func requestResources() *api.LinuxResources {
	return &api.LinuxResources{
		Cpu:    &api.LinuxCPU{Shares: api.UInt64(77)},
		Memory: &api.LinuxMemory{Limit: api.Int64(500_000_000)},
	}
}

func (f *fixture) newPlugin(pl *plug) {
	p := &fx.Plugin{Name: pl.name, Idx: pl.idx2()}
	idx, big := pl.spec.Idx, pl.spec.Big
	p.OnCreate = func(_ context.Context, pod *api.PodSandbox, ct *api.Container) (*api.ContainerAdjustment, []*api.ContainerUpdate, error) {
		tag := tagOf(pod, ct)
		if err := f.enter(pl, "create", tag); err != nil {
			return nil, nil, err
		}
		a, u := createContribution(idx, tag, big)
		return a, u, nil
	}
	p.OnUpdate = func(_ context.Context, pod *api.PodSandbox, ct *api.Container, _ *api.LinuxResources) ([]*api.ContainerUpdate, error) {
		tag := tagOf(pod, ct)
		if err := f.enter(pl, "update", tag); err != nil {
			return nil, err
		}
		return []*api.ContainerUpdate{ownFieldUpdate(pl.rank, idx, tag), otherUpdate(idx, tag, big)}, nil
	}
	p.OnStop = func(_ context.Context, pod *api.PodSandbox, ct *api.Container) ([]*api.ContainerUpdate, error) {
		tag := tagOf(pod, ct)
		if err := f.enter(pl, "stop", tag); err != nil {
			return nil, err
		}
		return []*api.ContainerUpdate{otherUpdate(idx, tag, big)}, nil
	}
	p.OnUpdatePod = func(_ context.Context, pod *api.PodSandbox, _, _ *api.LinuxResources) error {
		return f.enter(pl, "updatepod", tagOf(pod, nil))
	}
	p.OnEvent = func(_ context.Context, e api.Event, pod *api.PodSandbox, ct *api.Container) error {
		if fx.IsProbe(pod) {
			f.w.Seen(pl.name)
			return nil
		}
		return f.enter(pl, fmt.Sprintf("event:%d", int32(e)), tagOf(pod, ct))
	}
	pl.p = p
}

// ---- the late joiner -------------------------------------------------------------------------

// joinHandlers gives the first joiner its registration-time behaviour: the fault strikes in the
// handler of its phase (handler-driven kinds) or is armed on its proxy there (wire kinds).
func (f *fixture) joinHandlers(pl *plug) {
	j := pl.join
	strike := func(phase string) error {
		ft := j.Fault
		if phase == "configure" && j.Phase == "synchronize" && ft.Kind == "cut" && ft.Dir == "r2p" {
			// the next thing the runtime sends is the Synchronize request
			pl.proxy.Arm(Plan{Kind: "cut", Dir: R2P, K: ft.K, StallMs: ft.StallMs, OneMsg: true})
			pl.armed = true
			return nil
		}
		if phase != j.Phase {
			return nil
		}
		f.record(pl, "join:"+phase, "join")
		switch ft.Kind {
		case "error":
			err, _ := handlerError(ft)
			return err
		case "hang":
			<-f.release
		case "close":
			pl.proxy.CloseNow()
		case "cut":
			if ft.Dir == "p2r" {
				pl.proxy.Arm(Plan{Kind: "cut", Dir: P2R, K: ft.K, OneMsg: true})
				pl.armed = true
			}
		case "wrongtype":
			pl.proxy.Arm(Plan{Kind: "wrongtype", Type: byte(ft.Type)})
			pl.armed = true
		case "undecodable":
			pl.proxy.Arm(Plan{Kind: "undecodable", Level: ft.Level, Bytes: ft.Bytes})
			pl.armed = true
		case "garbage":
			pl.proxy.Arm(Plan{Kind: "garbage", Level: ft.Level, Bytes: ft.Bytes, ConnID: ft.ConnID, DeclLen: ft.DeclLen,
				StreamSel: ft.StreamSel, Type: byte(ft.Type), Flags: byte(ft.Flags)})
			pl.armed = true
		}
		return nil
	}
	pl.p.OnConfigure = func(context.Context, string, string, string) (api.EventMask, error) {
		return 0, strike("configure")
	}
	pl.p.OnSynchronize = func(context.Context, []*api.PodSandbox, []*api.Container) ([]*api.ContainerUpdate, error) {
		return nil, strike("synchronize")
	}
}

type joinVerdict struct {
	fail, timeFail, overload string
	stuck                    bool
}

// probe issues a probe event with a watchdog: a probe that does not come back means the
// adaptation is wedged (its lock is held for good).
func (f *fixture) probe(bound time.Duration) (err error, wedged bool) {
	done := make(chan error, 1)
	start := time.Now()
	go func() { done <- f.rt.Probe() }()
	select {
	case err := <-done:
		if time.Since(start) > ReqTimeout*4/5 {
			// a probe goes through every member: one that took this long may have cost a healthy
			// plugin its membership (dropped for being late, by design)
			f.slowProbe = true
		}
		return err, false
	case <-time.After(bound):
		return nil, true
	}
}

// joinFirst connects the first joiner and waits until its fate is settled: its session has
// ended (the fault struck) or it answers probes (the fault did not strike, e.g. a cut point
// beyond the message). A joiner that was struck must not have become a member.
func (f *fixture) joinFirst(pl *plug, bound time.Duration) (jv joinVerdict) {
	f.newPlugin(pl)
	f.joinHandlers(pl)
	px, err := NewProxy(f.dir, "px"+pl.idx2(), f.rt.Socket)
	if err != nil {
		jv.overload = "cannot create proxy: " + err.Error()
		return
	}
	pl.proxy = px
	if ft := pl.join.Fault; pl.join.Phase == "configure" && ft.Kind == "cut" && ft.Dir == "r2p" {
		px.Arm(Plan{Kind: "cut", Dir: R2P, K: ft.K, StallMs: ft.StallMs, OneMsg: true})
		pl.armed = true
	}
	if err := pl.p.NewStub(f.rt.Socket, px.Dial); err != nil {
		jv.overload = "cannot create stub: " + err.Error()
		return
	}
	go pl.p.Stub.Start(context.Background()) // its outcome is the plugin's business
	base := f.w.Count(pl.name)
	deadline := time.Now().Add(bound)
	ended, active := false, false
	for !ended && !active {
		if who, _ := px.Closer(); who != "" {
			ended = true
			break
		}
		err, wedged := f.probe(bound)
		if wedged {
			jv.timeFail = fmt.Sprintf("clause 1: a request issued while plugin %02d was failing during its %s (%s) did not return within %v", pl.spec.Idx, pl.join.Phase, describe(pl.join.Fault), bound)
			jv.stuck = true
			return
		}
		if f.slowProbe {
			jv.overload = "a probe during the join phase took nearly a request timeout"
			return
		}
		if err != nil {
			jv.fail = fmt.Sprintf("clause 2: a probe request failed with %q while plugin %02d was registering", err, pl.spec.Idx)
			return
		}
		if f.w.Count(pl.name) > base {
			active = true
			break
		}
		if time.Now().After(deadline) {
			jv.timeFail = fmt.Sprintf("clause 1: plugin %02d, failing during its %s (%s), was neither dropped nor activated within %v", pl.spec.Idx, pl.join.Phase, describe(pl.join.Fault), bound)
			return
		}
		time.Sleep(time.Millisecond)
	}
	if pl.armed {
		pl.rep = px.Disarm()
		pl.armed = false
	}
	struck := f.count(pl.spec.Idx, "join") > 0 && pl.join.Fault.Kind != "cut" && pl.join.Fault.Kind != "wrongtype" &&
		pl.join.Fault.Kind != "undecodable" && pl.join.Fault.Kind != "garbage"
	struck = struck || pl.rep.Fired || pl.rep.Consumed
	switch {
	case ended && !struck:
		jv.overload = fmt.Sprintf("joining plugin %02d lost its session although its fault had not struck (registration slower than the request timeout?)", pl.spec.Idx)
	case active && struck:
		jv.fail = fmt.Sprintf("clause 4: plugin %02d failed during its %s (%s) and was activated all the same: it receives requests", pl.spec.Idx, pl.join.Phase, describe(pl.join.Fault))
	case ended:
		pl.joinStruck = true
		// let the runtime finish with it (the stub's close callback follows the session's end)
		for t := time.Now().Add(settleMax); pl.p.Closed.Load() == 0 && time.Now().Before(t); {
			time.Sleep(time.Millisecond)
		}
	}
	return
}

// ---- requests ------------------------------------------------------------------------------

func podOf(id string) *api.PodSandbox {
	return &api.PodSandbox{Id: id, Name: "pod", Namespace: "ns", Uid: "uid-" + id}
}

func ctrOf(id string) *api.Container {
	return &api.Container{Id: id, PodSandboxId: "pod-" + id, Name: "ctr", Annotations: map[string]string{"orig": "v"}}
}

func sizeOf(class string) int {
	switch class {
	case "256k":
		return 256 << 10
	case "1m":
		return 1 << 20
	case "3m":
		return 3 << 20
	}
	return 0
}

var (
	bigMu    sync.Mutex
	bigCache = map[int]string{}
)

func bigAnnotation(n int) string {
	bigMu.Lock()
	defer bigMu.Unlock()
	if v, ok := bigCache[n]; ok {
		return v
	}
	v := strings.Repeat("0123456789abcdef", n/16)
	bigCache[n] = v
	return v
}

// inflate makes a request large: the annotation goes on the container, or on the pod when the
// request carries no container.
func inflate(class string, pod *api.PodSandbox, ct *api.Container) {
	n := sizeOf(class)
	if n == 0 {
		return
	}
	if ct != nil {
		ct.Annotations["c07/big-request"] = bigAnnotation(n)
		return
	}
	pod.Annotations = map[string]string{"c07/big-request": bigAnnotation(n)}
}

type callResult struct {
	resp     proto.Message // nil when the adaptation returned a nil response
	err      error
	dur      time.Duration
	timedOut bool // the bound expired before the call returned
	stuck    bool // ... and it did not even return after the hanging handlers were released
	stacks   string
}

type ctxKeyA struct{}
type ctxKeyB string

// callerContext builds the context the runtime (the caller of the adaptation) passes in. None of
// them ever ends a request: deadlines lie far beyond every bound of a case (30..60 s), the
// cancellable ones are cancelled only after the call has returned. Kinds: "" / "background",
// "deadline", "values", "cancel", "values+deadline", "cancel+deadline".
func callerContext(kind string, deadlineS int) (context.Context, context.CancelFunc) {
	ctx, cancel := context.Background(), context.CancelFunc(func() {})
	if deadlineS < 30 {
		deadlineS = 30
	}
	if deadlineS > 3600 {
		deadlineS = 3600
	}
	if strings.Contains(kind, "values") {
		ctx = context.WithValue(ctx, ctxKeyA{}, "c07")
		ctx = context.WithValue(ctx, ctxKeyB("deadline"), time.Now().Add(-time.Hour)) // a value, not a deadline
	}
	if strings.Contains(kind, "cancel") {
		ctx, cancel = context.WithCancel(ctx)
	}
	if strings.Contains(kind, "deadline") {
		c1 := cancel
		var c2 context.CancelFunc
		ctx, c2 = context.WithDeadline(ctx, time.Now().Add(time.Duration(deadlineS)*time.Second))
		cancel = func() { c2(); c1() }
	}
	if strings.Contains(kind, "values") {
		ctx = context.WithValue(ctx, ctxKeyB("request"), kind)
	}
	return ctx, cancel
}

func (f *fixture) issue(cx, size string, kind string, event int32, tag string) (proto.Message, error) {
	ctx, cancel := callerContext(cx, f.c.CtxDeadlineS)
	defer cancel()
	a := f.rt.A
	switch kind {
	case "create":
		pod, ct := podOf("pod-"+tag), ctrOf(tag)
		inflate(size, pod, ct)
		r, err := a.CreateContainer(ctx, &api.CreateContainerRequest{Pod: pod, Container: ct})
		if r == nil {
			return nil, err
		}
		return r, err
	case "update":
		pod, ct := podOf("pod-"+tag), ctrOf(tag)
		inflate(size, pod, ct)
		r, err := a.UpdateContainer(ctx, &api.UpdateContainerRequest{Pod: pod, Container: ct, LinuxResources: requestResources()})
		if r == nil {
			return nil, err
		}
		return r, err
	case "stop":
		pod, ct := podOf("pod-"+tag), ctrOf(tag)
		inflate(size, pod, ct)
		r, err := a.StopContainer(ctx, &api.StopContainerRequest{Pod: pod, Container: ct})
		if r == nil {
			return nil, err
		}
		return r, err
	case "updatepod":
		pod := podOf(tag)
		inflate(size, pod, nil)
		r, err := a.UpdatePodSandbox(ctx, &api.UpdatePodSandboxRequest{Pod: pod,
			OverheadLinuxResources: &api.LinuxResources{}, LinuxResources: &api.LinuxResources{}})
		if r == nil {
			return nil, err
		}
		return r, err
	case "event":
		e := &api.StateChangeEvent{}
		if isPodEvent(event) {
			e.Pod = podOf(tag)
		} else {
			e.Pod, e.Container = podOf("pod-"+tag), ctrOf(tag)
		}
		inflate(size, e.Pod, e.Container)
		switch api.Event(event) {
		case api.Event_RUN_POD_SANDBOX:
			return nil, a.RunPodSandbox(ctx, e)
		case api.Event_STOP_POD_SANDBOX:
			return nil, a.StopPodSandbox(ctx, e)
		case api.Event_REMOVE_POD_SANDBOX:
			return nil, a.RemovePodSandbox(ctx, e)
		case api.Event_POST_CREATE_CONTAINER:
			return nil, a.PostCreateContainer(ctx, e)
		case api.Event_START_CONTAINER:
			return nil, a.StartContainer(ctx, e)
		case api.Event_POST_START_CONTAINER:
			return nil, a.PostStartContainer(ctx, e)
		case api.Event_POST_UPDATE_CONTAINER:
			return nil, a.PostUpdateContainer(ctx, e)
		case api.Event_REMOVE_CONTAINER:
			return nil, a.RemoveContainer(ctx, e)
		case api.Event_POST_UPDATE_POD_SANDBOX:
			return nil, a.PostUpdatePodSandbox(ctx, e)
		}
	}
	return nil, fmt.Errorf("harness: unknown request %q/%d", kind, event)
}

func allStacks() string {
	buf := make([]byte, 1<<20)
	return string(buf[:runtime.Stack(buf, true)])
}

// call issues a request and waits for it at most bound. A call that is still running then has
// its goroutine stacks recorded; the hanging handlers are released so that it can unwind.
func (f *fixture) call(cx, size string, kind string, event int32, tag string, bound time.Duration) callResult {
	type out struct {
		m   proto.Message
		err error
		d   time.Duration
	}
	done := make(chan out, 1)
	start := time.Now()
	go func() {
		m, err := f.issue(cx, size, kind, event, tag)
		done <- out{m, err, time.Since(start)}
	}()
	select {
	case o := <-done:
		return callResult{resp: o.m, err: o.err, dur: o.d}
	case <-time.After(bound):
	}
	res := callResult{timedOut: true, stacks: allStacks(), dur: time.Since(start)}
	// unwedge the request so that the fixture can be torn down: first let the hanging handlers
	// answer, then cut every proxied connection
	f.releaseAll()
	select {
	case o := <-done:
		res.resp, res.err = o.m, o.err
		return res
	case <-time.After(2 * time.Second):
	}
	for _, pl := range f.plugs {
		if pl.proxy != nil {
			pl.proxy.CloseNow()
		}
	}
	select {
	case o := <-done:
		res.resp, res.err = o.m, o.err
	case <-time.After(5 * time.Second):
		res.stuck = true
	}
	return res
}

// ---- comparing responses -------------------------------------------------------------------

// flatten renders the populated scalar leaves of a message (present-but-empty sub-messages
// and nil list entries contribute nothing; list lengths are recorded).
func flatten(prefix string, m protoreflect.Message, out map[string]string) {
	if !m.IsValid() {
		return
	}
	m.Range(func(fd protoreflect.FieldDescriptor, v protoreflect.Value) bool {
		name := prefix + "." + string(fd.Name())
		switch {
		case fd.IsMap():
			v.Map().Range(func(k protoreflect.MapKey, mv protoreflect.Value) bool {
				key := fmt.Sprintf("%s[%s]", name, k.String())
				if fd.MapValue().Message() != nil {
					flatten(key, mv.Message(), out)
				} else {
					out[key] = mv.String()
				}
				return true
			})
		case fd.IsList():
			l := v.List()
			out[name+".len"] = fmt.Sprint(l.Len())
			for i := 0; i < l.Len(); i++ {
				key := fmt.Sprintf("%s[%d]", name, i)
				if fd.Message() != nil {
					flatten(key, l.Get(i).Message(), out)
				} else {
					out[key] = l.Get(i).String()
				}
			}
		case fd.Message() != nil:
			flatten(name, v.Message(), out)
		default:
			out[name] = v.String()
		}
		return true
	})
}

func leaves(m proto.Message) map[string]string {
	out := map[string]string{}
	if m != nil {
		flatten("", m.ProtoReflect(), out)
	}
	return out
}

func short(s string) string {
	if len(s) > 60 {
		return fmt.Sprintf("%s...(%d bytes)", s[:40], len(s))
	}
	return s
}

func diffLeaves(got, want map[string]string) string {
	var d []string
	for k, v := range want {
		if g, ok := got[k]; !ok {
			d = append(d, fmt.Sprintf("missing %s=%q", k, short(v)))
		} else if g != v {
			d = append(d, fmt.Sprintf("%s: got %q want %q", k, short(g), short(v)))
		}
	}
	for k, v := range got {
		if _, ok := want[k]; !ok {
			d = append(d, fmt.Sprintf("unexpected %s=%q", k, short(v)))
		}
	}
	sort.Strings(d)
	if len(d) > 12 {
		d = append(d[:12], fmt.Sprintf("... %d more", len(d)-12))
	}
	return strings.Join(d, "; ")
}

// present tells whether a plugin's marker is in the response (used only for plugins whose
// contribution the oracle accepts both present and absent).
func present(kind, tag string, idx int, got map[string]string) bool {
	if kind == "create" {
		_, ok := got[fmt.Sprintf(".adjust.annotations[c07/%02d/a]", idx)]
		return ok
	}
	want := fmt.Sprintf("other-%02d", idx)
	for k, v := range got {
		if strings.HasSuffix(k, ".container_id") && v == want {
			return true
		}
	}
	return false
}

// expected builds the response the runtime must return when exactly the plugins in `in`
// (invocation order) contributed.
func expected(kind, tag string, in []*plug) proto.Message {
	switch kind {
	case "create":
		r := &api.CreateContainerResponse{Adjust: &api.ContainerAdjustment{Annotations: map[string]string{}}}
		for _, pl := range in {
			a, u := createContribution(pl.spec.Idx, tag, pl.spec.Big)
			for k, v := range a.Annotations {
				r.Adjust.Annotations[k] = v
			}
			r.Adjust.Env = append(r.Adjust.Env, a.Env...)
			r.Adjust.Mounts = append(r.Adjust.Mounts, a.Mounts...)
			r.Update = append(r.Update, u...)
		}
		return r
	case "update":
		r := &api.UpdateContainerResponse{}
		for _, pl := range in {
			r.Update = append(r.Update, otherUpdate(pl.spec.Idx, tag, pl.spec.Big))
		}
		var own *api.ContainerUpdate
		if len(in) > 0 {
			res := requestResources()
			for _, pl := range in {
				applyOwnField(res, pl.rank, pl.spec.Idx)
			}
			own = &api.ContainerUpdate{ContainerId: tag, Linux: &api.LinuxContainerUpdate{Resources: res}}
		}
		r.Update = append(r.Update, own) // nil placeholder when nobody touched the container
		return r
	case "stop":
		r := &api.StopContainerResponse{}
		for _, pl := range in {
			r.Update = append(r.Update, otherUpdate(pl.spec.Idx, tag, pl.spec.Big))
		}
		return r
	case "updatepod":
		return &api.UpdatePodSandboxResponse{}
	}
	return nil
}

// ---- one execution ---------------------------------------------------------------------------

type verdict struct {
	fail      string // content / history violation: final
	timeFail  string // a clause that depends on the clock failed: confirm by re-execution
	overload  string // not judged: the machine was too slow
	excluded  string
	classes   []string
	lenient   []string
	nontriv   bool
	history   any
	leakedFix bool
}

func validate(c C07Case) string {
	if len(c.Plugins) < 1 || len(c.Plugins) > 8 {
		return "plugin count outside 1..8"
	}
	seen := map[int]bool{}
	slow := 0
	for _, p := range c.Plugins {
		if p.Idx < 0 || p.Idx > 99 || seen[p.Idx] {
			return "indices must be distinct and within 00..99"
		}
		seen[p.Idx] = true
		if p.Fault.Kind == "hang" || p.Fault.Kind == "garbage" || (p.Fault.Kind == "cut" && p.Fault.StallMs < 0) {
			slow++
		}
		if p.Launched {
			switch k := p.Fault.Kind; {
			case k == "none" || k == "hang" || k == "exit" || k == "error" || k == "leave":
			case k == "close" && p.Fault.When == "during":
			default:
				return "fault not available for a launched plugin"
			}
		} else if p.Fault.Kind == "exit" {
			return "only a launched plugin can exit"
		}
		if p.Fault.UpdDuring != "" {
			k := p.Fault.Kind
			ok := k == "hang" || k == "wrongtype" || k == "undecodable" || (k == "error" && p.Fault.Then == "") ||
				(k == "close" && p.Fault.When == "during") || (k == "cut" && p.Fault.Dir == "p2r")
			if p.Launched || p.Fault.UpdDuring != "handler" || !ok {
				return "an update from inside the handler needs an in-process plugin whose handler is entered"
			}
		}
		if p.Fault.Kind == "updrop" {
			if p.Launched || p.Fault.HoldMs < 1 || p.Fault.HoldMs > 150 {
				return "updrop needs an in-process plugin and a hold of 1..150 ms"
			}
			okHolder := false
			for _, h := range c.Plugins {
				if h.Idx == p.Fault.HoldIdx && !h.Launched && h.Fault.Kind == "none" && h.Idx != p.Idx {
					okHolder = true
				}
			}
			if !okHolder {
				return "updrop needs a healthy in-process plugin that holds the request"
			}
		}
		if th := p.Fault.Then; th != "" {
			if p.Fault.Kind != "error" && p.Fault.Kind != "leave" {
				return "only a plugin that answers (error, leave) can leave afterwards"
			}
			if (p.Launched && th != "exit") || (!p.Launched && th != "stop" && th != "peer") {
				return "unknown way of leaving"
			}
			if p.Fault.ThenMs < 0 || p.Fault.ThenMs > 250 {
				return "leave delay outside 0..250 ms"
			}
		} else if p.Fault.Kind == "leave" {
			return "a leaving plugin needs a way of leaving"
		}
		if p.Fault.PressCalls != 0 || p.Fault.PressKB != 0 {
			if p.Launched || p.Fault.Kind != "cut" || p.Fault.Dir != "r2p" {
				return "socket pressure goes with a peer that stops reading (cut r2p)"
			}
			if p.Fault.PressCalls < 0 || p.Fault.PressCalls > 16 || p.Fault.PressKB < 0 || p.Fault.PressKB > 1024 {
				return "pressure outside 0..16 calls x 0..1024 KiB"
			}
		}
		if p.Fault.StallMs < -1 || p.Fault.StallMs > 250 {
			return "stall outside -1..250 ms"
		}
		if len(p.Fault.Bytes) > 1<<16 {
			return "fault bytes too long"
		}
	}
	if slow > 2 {
		return "more than two plugins that may run into the timeout"
	}
	for _, k := range []string{c.Req, c.Follow} {
		switch k {
		case "create", "update", "stop", "updatepod", "event":
		default:
			return "unknown request kind"
		}
	}
	if j := c.Joiner; j != nil {
		if len(c.Plugins) > 3 {
			return "at most three plugins besides the two joiners"
		}
		if j.Idx < 0 || j.Idx > 99 || j.Idx2 < 0 || j.Idx2 > 99 || j.Idx == j.Idx2 || seen[j.Idx] || seen[j.Idx2] {
			return "joiner indices must be distinct and within 00..99"
		}
		if j.Phase != "configure" && j.Phase != "synchronize" {
			return "unknown joiner phase"
		}
		switch k := j.Fault.Kind; {
		case k == "error" || k == "hang" || k == "wrongtype" || k == "undecodable" || k == "garbage":
		case k == "close" && j.Fault.When == "during":
		case k == "cut" && (j.Fault.Dir == "p2r" || j.Fault.Dir == "r2p") && j.Fault.PressCalls == 0 && j.Fault.StallMs >= 0 && j.Fault.StallMs <= 250:
		default:
			return "fault not available for a joiner"
		}
		if j.Fault.Then != "" || len(j.Fault.Bytes) > 1<<16 {
			return "fault not available for a joiner"
		}
	}
	for _, k := range []string{c.ReqSize, c.FollowSize} {
		if k != "" && sizeOf(k) == 0 {
			return "unknown request size class"
		}
	}
	if _, ok := runtimeOptions(c.RtOpts); !ok {
		return "unknown runtime option set"
	}
	for _, k := range []string{c.Ctx, c.FollowCtx} {
		switch k {
		case "", "background", "deadline", "values", "cancel", "values+deadline", "cancel+deadline":
		default:
			return "unknown caller context"
		}
	}
	okEv := func(e int32) bool { _, ok := eventNames[e]; return ok }
	if (c.Req == "event" && !okEv(c.Event)) || (c.Follow == "event" && !okEv(c.FollowEvent)) {
		return "unknown event"
	}
	return ""
}

func band(k int) string {
	switch {
	case k < muxHdrLen:
		return "mux-header"
	case k < muxHdrLen+ttrpcHdrLen:
		return "ttrpc-header"
	}
	return "payload"
}

func runOnce(c C07Case) (v verdict) {
	if why := validate(c); why != "" {
		v.excluded = "invalid-case: " + why
		return
	}
	adaptation.SetPluginRequestTimeout(setupTimeout)
	f := &fixture{c: c, t0: time.Now(), release: make(chan struct{})}
	n := len(c.Plugins)
	nLaunched := 0
	for i := range c.Plugins {
		f.plugs = append(f.plugs, &plug{spec: c.Plugins[i], name: fmt.Sprintf("plg%02d", c.Plugins[i].Idx)})
		if c.Plugins[i].Launched {
			nLaunched++
		}
	}
	var reg []*plug // registration order = case order (external plugins; launched ones start with the runtime)
	for _, pl := range f.plugs {
		if !pl.spec.Launched {
			reg = append(reg, pl)
		}
	}
	// the late joiners are plugins like the others as far as requests go (no fault of their own
	// there); the first joins - or fails to - before the first request, the second after it
	var j1, j2 *plug
	if c.Joiner != nil {
		j1 = &plug{spec: PluginSpec{Idx: c.Joiner.Idx, Fault: Fault{Kind: "none"}}, name: fmt.Sprintf("plg%02d", c.Joiner.Idx), join: c.Joiner}
		j2 = &plug{spec: PluginSpec{Idx: c.Joiner.Idx2, Fault: Fault{Kind: "none"}}, name: fmt.Sprintf("plg%02d", c.Joiner.Idx2), second: true}
		f.plugs = append(f.plugs, j1)
		n += 2
	}
	{
		// ranks (which field of an updated container a plugin owns) over everybody, j2 included
		all := append([]*plug{}, f.plugs...)
		if j2 != nil {
			all = append(all, j2)
		}
		sort.Slice(all, func(i, j int) bool { return all[i].spec.Idx < all[j].spec.Idx })
		for i, pl := range all {
			pl.rank = i
		}
	}
	sort.Slice(f.plugs, func(i, j int) bool { return f.plugs[i].spec.Idx < f.plugs[j].spec.Idx })
	var opts []adaptation.Option
	if nLaunched > 0 {
		f.ldir = fx.ShortDir()
		if err := installLaunched(f.ldir, f.plugs); err != nil {
			os.RemoveAll(f.ldir)
			v.overload = "cannot install the launched plugins: " + err.Error()
			return
		}
		opts = append(opts, adaptation.WithPluginPath(filepath.Join(f.ldir, "plugins")), adaptation.WithPluginConfigPath(filepath.Join(f.ldir, "conf")))
	}
	if o, ok := runtimeOptions(c.RtOpts); ok && o != nil {
		opts = append(opts, o)
	}
	rt, err := fx.NewRuntime(opts...)
	if err != nil {
		if f.ldir != "" {
			os.RemoveAll(f.ldir)
		}
		v.overload = "cannot start adaptation: " + err.Error()
		return
	}
	f.rt, f.dir = rt, rt.Dir
	f.upd = map[int]int{}
	if c.SyncSwallow {
		// a runtime whose SyncFn swallows the callback's error
		rt.SyncFn = func(ctx context.Context, cb adaptation.SyncCB) error {
			cb(ctx, nil, nil)
			return nil
		}
	}
	// unsolicited updates of the plugins ("pressure" prologue): everything fails, and the list of
	// failed updates that travels back to the plugin has the size the caller named
	rt.UpdateFn = func(_ context.Context, u []*api.ContainerUpdate) ([]*api.ContainerUpdate, error) {
		var idx, kb int
		if len(u) == 0 {
			return nil, nil
		}
		if _, err := fmt.Sscanf(u[0].ContainerId, "press-%d-%d", &idx, &kb); err != nil {
			return nil, nil
		}
		f.mu.Lock()
		f.upd[idx]++
		f.mu.Unlock()
		if kb == 0 {
			return nil, nil
		}
		failed := &api.ContainerUpdate{ContainerId: u[0].ContainerId}
		failed.AddLinuxUnified("c07.failed", bigAnnotation(kb<<10))
		return []*api.ContainerUpdate{failed}, nil
	}

	stuck := false
	defer func() {
		verifhook.Set(nil)
		f.releaseAll()
		if stuck {
			// a request is wedged inside the adaptation holding its lock: Stop() would wedge
			// too. Leave the fixture behind (the verdict is a violation anyway).
			v.leakedFix = true
			return
		}
		// proxies first: closing their sockets frees whatever is still stuck writing to a peer
		// that stopped reading (a stub's Stop() may wait for its own writers)
		for _, pl := range f.plugs {
			if pl.proxy != nil {
				pl.proxy.Shutdown()
			}
		}
		// (a stub that cannot stop - its own multiplexer wedged - must not wedge the harness)
		var stops sync.WaitGroup
		for _, pl := range append(append([]*plug{}, f.plugs...), j2) {
			if pl != nil && pl.p != nil && pl.p.Stub != nil {
				stops.Add(1)
				go func(p *fx.Plugin) {
					defer stops.Done()
					p.Stub.Stop()
				}(pl.p)
			}
		}
		stopped := make(chan struct{})
		go func() { stops.Wait(); close(stopped) }()
		select {
		case <-stopped:
		case <-time.After(5 * time.Second):
		}
		pids := f.launchedPids()
		stopDone := make(chan struct{})
		go func() { rt.Stop(); close(stopDone) }()
		select {
		case <-stopDone:
		case <-time.After(stopBound):
			// "neither panics nor deadlocks": Stop() needs the adaptation's lock like any request
			if v.fail == "" && v.timeFail == "" {
				v.timeFail = fmt.Sprintf("clause 2: Adaptation.Stop() did not return within %v after the requests had completed: the adaptation's lock is held for good", stopBound)
				v.history = map[string]any{"log": f.history(), "stacks": allStacks()}
			}
			v.leakedFix = true
		}
		pressed := make(chan struct{})
		go func() { f.pressWG.Wait(); close(pressed) }()
		select {
		case <-pressed:
		case <-time.After(5 * time.Second):
		}
		if f.ldir != "" {
			// the runtime kills what is still in its list and what it dropped; whatever is left
			// (nothing, on a correct tree) must not outlive the case
			for _, pid := range pids {
				if pidAlive(pid) {
					syscall.Kill(pid, syscall.SIGKILL)
				}
			}
			os.RemoveAll(f.ldir)
		}
		adaptation.SetPluginRequestTimeout(ReqTimeout)
	}()

	// --- connect: faulty plugins through a proxy, healthy ones directly
	var names []string
	for _, pl := range reg {
		f.newPlugin(pl)
		if pl.spec.Fault.Kind != "none" {
			px, err := NewProxy(f.dir, "px"+pl.idx2(), rt.Socket)
			if err != nil {
				v.overload = "cannot create proxy: " + err.Error()
				return
			}
			pl.proxy = px
			dial := px.Dial
			if pl.spec.Fault.Then == "stop" {
				own := pl
				dial = func(s string) (net.Conn, error) {
					c, err := px.Dial(s)
					if err != nil {
						return nil, err
					}
					own.wc = &watchConn{Conn: c}
					return own.wc, nil
				}
			}
			err = pl.p.NewStub(rt.Socket, dial)
			if err != nil {
				v.overload = "cannot create stub: " + err.Error()
				return
			}
		} else if err := pl.p.NewStub(rt.Socket, nil); err != nil {
			v.overload = "cannot create stub: " + err.Error()
			return
		}
		if err := pl.p.Stub.Start(context.Background()); err != nil {
			v.overload = "plugin did not start: " + err.Error()
			return
		}
		names = append(names, pl.name)
	}
	if err := rt.WaitActive(&f.w, 20*time.Second, names...); err != nil {
		v.overload = "plugins not active: " + err.Error()
		return
	}
	if nLaunched > 0 {
		// pre-installed plugins are started, configured and synchronized inside Start(); one
		// that did not make it is skipped by the runtime. Make sure every one answers a probe.
		deadline := time.Now().Add(20 * time.Second)
		for {
			if err := rt.Probe(); err != nil {
				v.overload = "probe failed: " + err.Error()
				return
			}
			seen := map[int]bool{}
			for _, l := range readLaunchLog(filepath.Join(f.ldir, "events.log")) {
				if l.Kind == "probe" {
					seen[l.Idx] = true
				}
			}
			if len(seen) == nLaunched {
				break
			}
			if time.Now().After(deadline) {
				v.overload = fmt.Sprintf("only %d of %d launched plugins are active", len(seen), nLaunched)
				return
			}
			time.Sleep(2 * time.Millisecond)
		}
		v.classes = append(v.classes, fmt.Sprintf("launched:%d", nLaunched))
		if nLaunched == n {
			v.classes = append(v.classes, "launched:all")
		} else {
			v.classes = append(v.classes, "launched:mixed")
		}
	}
	adaptation.SetPluginRequestTimeout(ReqTimeout)

	// --- the late joiner: connects now, its fault strikes during Configure or Synchronize
	joinBound := 2*ReqTimeout + slack
	if j1 != nil {
		v.classes = append(v.classes, "joiner", "joiner:"+j1.join.Phase, "joiner-fault:"+j1.join.Fault.Kind)
		if why := f.joinFirst(j1, joinBound); why.timeFail != "" || why.overload != "" || why.fail != "" {
			v.timeFail, v.overload, v.fail = why.timeFail, why.overload, why.fail
			v.history = map[string]any{"log": f.history()}
			if why.stuck {
				v.history = map[string]any{"log": f.history(), "stacks": allStacks()}
				stuck = true
			}
			return
		}
		if j1.joinStruck {
			v.classes = append(v.classes, "joiner-struck:"+j1.join.Phase)
		} else {
			v.classes = append(v.classes, "joiner-joined")
		}
		// what the runtime offers its user to hold registrations off must still work
		done := make(chan struct{})
		go func() {
			b := rt.A.BlockPluginSync()
			b.Unblock()
			close(done)
		}()
		select {
		case <-done:
		case <-time.After(joinBound):
			v.timeFail = fmt.Sprintf("clause 2: BlockPluginSync() did not return within %v after plugin %02d had failed during its %s (%s): plugin synchronization is wedged",
				joinBound, j1.spec.Idx, j1.join.Phase, describe(j1.join.Fault))
			v.history = map[string]any{"log": f.history(), "stacks": allStacks()}
			return
		}
	}

	// --- classes that depend on the case only
	nfaults := 0
	for _, pl := range f.plugs {
		ft := pl.spec.Fault
		if ft.Kind == "none" {
			continue
		}
		nfaults++
		if len(v.classes) == 0 {
			v.classes = append(v.classes, "first-fault:"+ft.Kind)
		}
		v.classes = append(v.classes, "kind:"+ft.Kind)
		pos := "middle"
		if pl.rank == 0 {
			pos = "first"
		} else if pl.rank == n-1 {
			pos = "last"
		}
		v.classes = append(v.classes, "faulty-pos:"+pos)
		switch ft.Kind {
		case "close":
			v.classes = append(v.classes, "close:"+ft.When)
		case "undecodable", "garbage":
			v.classes = append(v.classes, ft.Kind+":"+ft.Level)
		case "error":
			v.classes = append(v.classes, errClass(ft), "error-form:"+errFormOf(ft))
		}
		if ft.Then != "" {
			v.classes = append(v.classes, ft.Kind+"-then-"+ft.Then, fmt.Sprintf("then-ms:%d", ft.ThenMs))
		}
		if ft.UpdDuring != "" {
			v.classes = append(v.classes, "update-from-handler", "update-from-handler:"+ft.Kind)
		}
		if pl.spec.Big {
			v.classes = append(v.classes, "faulty-big-response")
		}
	}
	if nfaults == 0 {
		v.classes = append(v.classes, "first-fault:none")
	}
	if c.SyncSwallow {
		v.classes = append(v.classes, "syncfn-swallows-error")
	}
	if c.RtOpts != "" {
		v.classes = append(v.classes, "rt-opts", "rt-opts:"+c.RtOpts)
	}
	v.classes = append(v.classes, "ctx:"+ctxName(c.Ctx), "follow-ctx:"+ctxName(c.FollowCtx), "req-size:"+sizeName(c.ReqSize), "follow-size:"+sizeName(c.FollowSize))
	v.classes = append(v.classes, "req:"+c.Req, "follow:"+c.Follow, fmt.Sprintf("faults:%d", nfaults), fmt.Sprintf("plugins:%d", n))
	if c.Req == "event" {
		v.classes = append(v.classes, "event:"+eventNames[c.Event])
	}

	// --- faults that precede the request, and arming
	for _, pl := range f.plugs {
		ft := pl.spec.Fault
		if pl.spec.Launched {
			continue // a launched plugin carries its script itself
		}
		switch ft.Kind {
		case "close":
			if ft.When == "before" {
				pl.proxy.CloseNow()
				if ft.DelayUs > 0 {
					time.Sleep(time.Duration(ft.DelayUs) * time.Microsecond)
				}
			}
		case "cut":
			d := P2R
			if ft.Dir == "r2p" {
				d = R2P
			}
			stall := 0
			if d == R2P {
				stall = ft.StallMs
			}
			pl.proxy.Arm(Plan{Kind: "cut", Dir: d, K: ft.K, StallMs: stall})
			pl.armed = true
		case "dying":
			pl.proxy.Arm(Plan{Kind: "dying", Bytes: partialFrame(ft.K)})
			pl.armed = true
		case "wrongtype":
			pl.proxy.Arm(Plan{Kind: "wrongtype", Type: byte(ft.Type)})
			pl.armed = true
		case "undecodable":
			pl.proxy.Arm(Plan{Kind: "undecodable", Level: ft.Level, Bytes: ft.Bytes})
			pl.armed = true
		case "garbage":
			pl.proxy.Arm(Plan{Kind: "garbage", Level: ft.Level, Bytes: ft.Bytes, ConnID: ft.ConnID, DeclLen: ft.DeclLen,
				StreamSel: ft.StreamSel, Type: byte(ft.Type), Flags: byte(ft.Flags)})
			pl.armed = true
		}
	}
	// --- prologue: socket pressure from the plugin's own calls. The plugin issues unsolicited
	// UpdateContainers requests and does not read the responses (its peer has just been armed to
	// stop reading at the cut point): they pile up in the runtime->plugin direction of the
	// connection, which requests to the plugin share.
	for _, pl := range f.plugs {
		ft := pl.spec.Fault
		if pl.spec.Launched || ft.Kind != "cut" || ft.Dir != "r2p" || ft.PressCalls <= 0 {
			continue
		}
		v.classes = append(v.classes, "pressure")
		if ft.PressCalls*ft.PressKB >= 250 {
			v.classes = append(v.classes, "pressure:fills-socket")
		}
		for i := 0; i < ft.PressCalls; i++ {
			own := pl
			f.pressWG.Add(1)
			go func() {
				defer f.pressWG.Done()
				own.p.Stub.UpdateContainers([]*api.ContainerUpdate{{ContainerId: fmt.Sprintf("press-%d-%d", own.spec.Idx, own.spec.Fault.PressKB)}})
			}()
		}
		deadline := time.Now().Add(10 * time.Second)
		for {
			f.mu.Lock()
			n := f.upd[pl.spec.Idx]
			f.mu.Unlock()
			if n >= ft.PressCalls {
				break
			}
			if time.Now().After(deadline) {
				v.overload = fmt.Sprintf("only %d of %d unsolicited updates reached the runtime", n, ft.PressCalls)
				return
			}
			time.Sleep(time.Millisecond)
		}
		time.Sleep(5 * time.Millisecond) // the responses are being written (as far as they fit)
	}
	if c.HookPoint != "" && verifhook.Enabled {
		pt, d := c.HookPoint, time.Duration(c.HookSleepUs)*time.Microsecond
		verifhook.Set(func(name string) {
			if name == pt {
				time.Sleep(d)
			}
		})
		v.classes = append(v.classes, "widened:"+pt)
	}

	// --- the request
	bound := time.Duration(n)*ReqTimeout + slack
	mainStart := time.Since(f.t0)
	res := f.call(c.Ctx, c.ReqSize, c.Req, c.Event, mainTag, bound)
	verifhook.Set(nil)
	for _, pl := range f.plugs {
		if pl.armed {
			pl.rep = pl.proxy.Disarm()
		}
	}
	hist := map[string]any{"main_start_ns": mainStart, "main_dur_ns": res.dur, "main_err": fmt.Sprint(res.err)}
	v.history = hist
	finish := func() { hist["log"] = f.history() }
	defer finish()
	if res.timedOut {
		stuck = res.stuck
		hist["stacks"] = res.stacks
		v.timeFail = fmt.Sprintf("clause 1: %s request through %d plugins did not return within %v (plugins x %v + %v); released hanging handlers afterwards: returned=%v err=%v",
			c.Req, n, bound, ReqTimeout, slack, !res.stuck, res.err)
		return
	}

	// --- who was struck, who vetoed
	var (
		vetoer    *plug
		struck    []*plug // transport fault hit them (before or during the request): must be dropped
		during    []*plug // ... of those, hit while the request was in flight
		mayTime   = 0     // plugins that may legitimately have cost a full timeout
		survivors []*plug
	)
	reached := true
	afterVeto := ""
	stallTotal := time.Duration(0) // time peers spent not reading before they closed
	holdTotal := time.Duration(0)  // time healthy plugins held the request on purpose
	var leftEarly []*plug          // answered normally, then disconnected while a later plugin held the request
	for _, pl := range f.plugs {
		ft := pl.spec.Fault
		invoked := f.count(pl.spec.Idx, mainTag)
		if pl.joinStruck {
			// never became a member: no request may reach it
			if invoked != 0 {
				v.fail = fmt.Sprintf("clause 4: plugin %02d had failed during its %s (%s), yet it received the %s request", pl.spec.Idx, pl.join.Phase, describe(pl.join.Fault), c.Req)
				return
			}
			struck = append(struck, pl)
			continue
		}
		if invoked > 1 {
			v.fail = fmt.Sprintf("plugin %02d was invoked %d times for one request", pl.spec.Idx, invoked)
			return
		}
		if !reached {
			if invoked != 0 && afterVeto == "" {
				// judged below, once overload has been ruled out: a vetoing plugin whose answer
				// needed longer than the request timeout is dropped by design and the plugins
				// behind it are then invoked
				afterVeto = fmt.Sprintf("clause 5: plugin %02d was invoked although plugin %02d before it had failed the request with an error (%s)", pl.spec.Idx, vetoer.spec.Idx, errClass(vetoer.spec.Fault))
			}
			firedEarly := ft.Kind == "cut" && pl.rep.Fired // stopped reading over the answers to its own calls
			goneEarly := ft.Kind == "updrop" && f.count(ft.HoldIdx, mainTag) == 1
			if goneEarly {
				holdTotal += time.Duration(ft.HoldMs) * time.Millisecond
			}
			if (ft.Kind == "close" && ft.When == "before") || ft.Kind == "dying" || firedEarly || goneEarly {
				if ft.Kind == "dying" || firedEarly {
					pl.proxy.CloseNow() // it dies now (the incomplete frame stays incomplete)
				}
				struck = append(struck, pl) // its connection is gone although the request never got to it
			} else {
				survivors = append(survivors, pl)
			}
			continue
		}
		isStruck, isDuring := false, false
		switch ft.Kind {
		case "none":
		case "error":
			if invoked == 1 {
				_, want := handlerError(ft)
				if ft.Then != "" && ft.ThenMs < leaveGraceMs && (res.err == nil || !strings.Contains(res.err.Error(), want)) {
					// The plugin left (almost) the instant its error response was on the wire, and
					// the runtime took it for a plugin that disconnected during the request: the
					// response was still queued, unread, when the close arrived (pinned tree, under
					// load: about 2 % of the runs with 0 ms; with 1 ms only when the reader is held
					// up, e.g. by the widening hook between the two frames of a large response).
					// It did disconnect during the request: the statement's first sentence covers
					// that outcome, so it is accepted and counted, and the plugin is judged as a
					// disconnected one. From 20 ms on the answer has to stand.
					isStruck, isDuring = true, true
					v.lenient = append(v.lenient, "answer-lost-plugin-left-at-once")
				} else {
					vetoer = pl
					reached = false
				}
			}
		case "updrop":
			// disconnected, with an update queued, while the holder held the request: behind the
			// holder it was gone before its turn; ahead of it, it had answered normally already
			// (the runtime had consumed the answer before it called the holder) and is gone for
			// the follow-up
			holderRank := -1
			for _, h := range f.plugs {
				if h.spec.Idx == ft.HoldIdx {
					holderRank = h.rank
				}
			}
			if f.count(ft.HoldIdx, mainTag) != 1 {
				break // the request never got to the holder: nothing happened, an ordinary healthy plugin
			}
			holdTotal += time.Duration(ft.HoldMs) * time.Millisecond
			if pl.rank > holderRank {
				isStruck = true
				v.classes = append(v.classes, "updrop:behind-holder")
			} else {
				leftEarly = append(leftEarly, pl)
				v.classes = append(v.classes, "updrop:ahead-of-holder")
			}
		case "leave":
			if invoked == 1 && ft.ThenMs < leaveGraceMs {
				// left (almost) the instant its answer was on the wire: its contribution may count
				// (completely) or the plugin may be taken for one that disconnected (see above)
				isStruck, isDuring = true, true
				v.classes = append(v.classes, "left-at-once")
			}
		case "exit":
			isStruck, isDuring = invoked == 1, invoked == 1
		case "hang":
			isStruck, isDuring = invoked == 1, invoked == 1
			if invoked == 1 {
				mayTime++
			}
		case "close":
			switch ft.When {
			case "before":
				isStruck = true
			case "during":
				isStruck, isDuring = invoked == 1, invoked == 1
			}
		case "cut":
			isStruck, isDuring = pl.rep.Fired, pl.rep.Fired
			b := "beyond"
			if pl.rep.Fired {
				b = band(ft.K)
			}
			v.classes = append(v.classes, "cut:"+ft.Dir+":"+b)
			if pl.rep.Fired && ft.Dir == "r2p" {
				switch {
				case ft.StallMs > 0:
					v.classes = append(v.classes, "cut:r2p:stalled")
					stallTotal += stallCost(pl, f.t0.Add(mainStart))
				case ft.StallMs < 0:
					// never reads again, never closes: the runtime gives up after one timeout
					v.classes = append(v.classes, "cut:r2p:stalled-for-good")
					stallTotal += ReqTimeout
				}
				// more left unread than a unix socket buffer takes: the runtime's write was cut part-way
				if sizeOf(c.ReqSize)-ft.K > 400_000 {
					v.classes = append(v.classes, "cut:r2p:request-write-blocked")
				}
			}
		case "dying":
			// struck from the moment the incomplete frame is on the wire; the connection is
			// closed when the request arrives (if it gets that far)
			isStruck, isDuring = true, pl.rep.Fired
		case "wrongtype", "undecodable":
			isStruck, isDuring = pl.rep.Consumed, pl.rep.Consumed
		case "garbage":
			isStruck, isDuring = pl.rep.Consumed, pl.rep.Consumed
			if pl.rep.Consumed {
				mayTime++
			}
		}
		if isStruck {
			struck = append(struck, pl)
			if isDuring {
				during = append(during, pl)
			}
		} else {
			survivors = append(survivors, pl)
		}
	}
	isStruckPl := func(pl *plug) bool {
		for _, s := range struck {
			if s == pl {
				return true
			}
		}
		return false
	}

	// --- overload: the time the request took beyond the timeouts it legitimately ran into
	spent := res.dur - stallTotal - holdTotal
	for i := 0; i < mayTime && spent >= ReqTimeout; i++ {
		spent -= ReqTimeout
	}
	if spent > time.Duration(n)*gapMax {
		v.overload = fmt.Sprintf("request took %v with %d plugin(s) expected to time out", res.dur, mayTime)
		return
	}
	// ... and the same per plugin: the time from one handler entry to the next (or to the end of
	// the request) is that plugin's round trip plus the delivery of the next request. A plugin
	// that hangs costs one timeout, forged bytes cost nothing or one timeout, everybody else
	// answers at once. A larger gap means a healthy plugin may have been late by machine load
	// (and then is dropped by design), so nothing is concluded from such a run.
	{
		type mark struct {
			at      time.Duration
			allowed bool // this plugin may have cost one request timeout
			must    bool // ... and certainly did (hang)
			stall   time.Duration
			hold    time.Duration // the plugin entered here holds the request on purpose
		}
		marks := []mark{{at: mainStart}}
		for _, pl := range f.plugs {
			if ft := pl.spec.Fault; ft.Kind == "cut" && ft.Dir == "r2p" && pl.rep.Fired && ft.StallMs != 0 {
				// a peer that stopped reading: never entered, its stall (one request timeout if
				// it never closes) falls into the gap that began with the previous handler entry
				marks[len(marks)-1].stall += stallCost(pl, f.t0.Add(mainStart))
			}
			for _, e := range f.history() {
				if e.Idx == pl.spec.Idx && e.Tag == mainTag {
					k := pl.spec.Fault.Kind
					m := mark{at: e.At, allowed: k == "hang" || (k == "garbage" && pl.rep.Consumed), must: k == "hang"}
					for _, s := range f.plugs {
						if sf := s.spec.Fault; sf.Kind == "updrop" && sf.HoldIdx == pl.spec.Idx {
							m.hold += time.Duration(sf.HoldMs) * time.Millisecond
						}
					}
					marks = append(marks, m)
				}
			}
		}
		marks = append(marks, mark{at: mainStart + res.dur})
		for i := 0; i+1 < len(marks); i++ {
			if marks[i].hold > 0 {
				// a plugin that holds the request on purpose has that much less room before the
				// timeout: its whole round trip (the delivery lies in the gap before) must stay
				// clearly below it
				prev := time.Duration(0)
				if i > 0 {
					prev = marks[i].at - marks[i-1].at - marks[i-1].stall - marks[i-1].hold
				}
				if raw := marks[i+1].at - marks[i].at; raw+prev > ReqTimeout*4/5 {
					v.overload = fmt.Sprintf("the plugin holding the request for %v took %v (+%v before it)", marks[i].hold, raw, prev)
					return
				}
			}
			g := marks[i+1].at - marks[i].at - marks[i].stall - marks[i].hold
			if marks[i].allowed && (marks[i].must || g >= ReqTimeout) {
				g -= ReqTimeout
			}
			if g > gapMax {
				v.overload = fmt.Sprintf("gap of %v after handler entry %d of the request", marks[i+1].at-marks[i].at, i)
				return
			}
		}
	}

	if afterVeto != "" {
		v.fail = afterVeto
		return
	}

	// --- clause 5 / clause 3: error and response
	leavesGot := leaves(res.resp)
	if vetoer != nil {
		v.classes = append(v.classes, "veto")
		if len(struck) > 0 {
			v.classes = append(v.classes, "veto-after-dropped-plugin")
		}
		if res.err == nil {
			v.fail = fmt.Sprintf("clause 5: plugin %02d returned error %q (%s) from its %s handler but the request succeeded", vetoer.spec.Idx, vetoer.spec.Fault.ErrText, errClass(vetoer.spec.Fault), c.Req)
			return
		}
		if _, want := handlerError(vetoer.spec.Fault); !strings.Contains(res.err.Error(), want) {
			v.fail = fmt.Sprintf("clause 5: request failed with %q, which does not carry the handler's error %q (%s)", res.err, want, errClass(vetoer.spec.Fault))
			return
		}
		if res.resp != nil {
			v.fail = fmt.Sprintf("clause 5: a failed request returned a (partial) result: %s", short(fmt.Sprint(leavesGot)))
			return
		}
	} else {
		if res.err != nil && ev.Known(KnownD12) && len(during) > 0 && strings.Contains(res.err.Error(), "unexpected EOF") {
			v.excluded = "known:" + KnownD12
			return
		}
		if res.err != nil {
			who := "no plugin failed"
			if len(struck) > 0 {
				var s []string
				for _, pl := range struck {
					s = append(s, fmt.Sprintf("%02d(%s)", pl.spec.Idx, describe(pl.spec.Fault)))
				}
				who = "failing plugin(s) " + strings.Join(s, ", ")
			}
			v.fail = fmt.Sprintf("clause 3: the %s request failed with %q although no handler returned an error; %s must be dropped and the request completed with the others", c.Req, res.err, who)
			return
		}
		if c.Req != "event" && res.resp == nil {
			v.fail = fmt.Sprintf("clause 3: the %s request returned neither a response nor an error", c.Req)
			return
		}
		var in []*plug
		for _, pl := range f.plugs {
			switch {
			case !isStruckPl(pl):
				in = append(in, pl)
			case c.Req != "event" && c.Req != "updatepod" && present(c.Req, mainTag, pl.spec.Idx, leavesGot):
				// a failing plugin's contribution may be there completely (its response had been
				// delivered before the fault struck) or not at all
				in = append(in, pl)
				v.lenient = append(v.lenient, "contribution-of-failing-plugin-present")
			}
		}
		if c.Req != "event" {
			if d := diffLeaves(leavesGot, leaves(expected(c.Req, mainTag, in))); d != "" {
				v.fail = fmt.Sprintf("clause 3: the %s response does not carry exactly the intact contributions of the remaining plugins: %s", c.Req, d)
				return
			}
		}
		for _, pl := range f.plugs {
			if !isStruckPl(pl) && f.count(pl.spec.Idx, mainTag) != 1 {
				v.fail = fmt.Sprintf("clause 3: plugin %02d (no fault struck it) was not invoked for the %s request", pl.spec.Idx, c.Req)
				return
			}
		}
	}
	// plugins ahead of a vetoer that were not struck must have been invoked
	if vetoer != nil {
		for _, pl := range f.plugs {
			if pl.rank < vetoer.rank && !isStruckPl(pl) && f.count(pl.spec.Idx, mainTag) != 1 {
				v.fail = fmt.Sprintf("plugin %02d ahead of the failing handler was not invoked", pl.spec.Idx)
				return
			}
		}
	}

	// --- non-triviality
	for _, d := range during {
		for _, pl := range f.plugs {
			if pl.rank > d.rank && !isStruckPl(pl) && pl.spec.Fault.Kind != "error" && f.count(pl.spec.Idx, mainTag) == 1 {
				v.nontriv = true
			}
		}
	}
	v.classes = append(v.classes, fmt.Sprintf("struck:%d", len(struck)))
	if len(during) > 0 {
		v.classes = append(v.classes, "struck-during-request")
	}

	// --- faults after the request
	for _, pl := range f.plugs {
		ft := pl.spec.Fault
		left := ft.Then != "" && !isStruckPl(pl) && f.count(pl.spec.Idx, mainTag) == 1 // answered, is leaving by itself
		for _, e := range leftEarly {
			if e == pl && !isStruckPl(pl) {
				left = true
			}
		}
		if left {
			v.classes = append(v.classes, "left-after-answer")
		}
		if (ft.Kind == "close" && ft.When == "after" && !isStruckPl(pl)) || left {
			if !left {
				pl.proxy.CloseNow()
			}
			struck = append(struck, pl)
			for i, s := range survivors {
				if s == pl {
					survivors = append(survivors[:i], survivors[i+1:]...)
					break
				}
			}
		}
	}

	// --- clause 4a: the session of every dropped plugin ends (closed by the runtime where the
	// plugin's end stayed open)
	deadline := time.Now().Add(settleMax)
	for _, pl := range struck {
		if pl.spec.Launched {
			// The runtime owns this plugin's process and kills it, from a goroutine, once the
			// plugin is dropped (typically well below 1 ms after the request). Give that a
			// moment so that the follow-up request sees the settled state; how and when the
			// process ends is C18's subject and is not judged here.
			pid := f.launchedPids()[pl.spec.Idx]
			for t := time.Now().Add(time.Second); pidAlive(pid) && time.Now().Before(t); {
				time.Sleep(time.Millisecond)
			}
			if pidAlive(pid) {
				v.classes = append(v.classes, "launched-struck-still-alive")
			}
			time.Sleep(20 * time.Millisecond)
			continue
		}
		for {
			who, _ := pl.proxy.Closer()
			if who != "" && pl.p.Closed.Load() > 0 {
				if who != "proxy" {
					v.classes = append(v.classes, "session-closed-by:"+who)
				}
				break
			}
			if time.Now().After(deadline) {
				v.timeFail = fmt.Sprintf("clause 4: plugin %02d (%s) failed during the request but its session was not closed %v later (session ended by %q, stub close callbacks %d): the plugin was not dropped",
					pl.spec.Idx, describe(pl.spec.Fault), settleMax, who, pl.p.Closed.Load())
				return
			}
			time.Sleep(time.Millisecond)
		}
	}

	// --- the second joiner: a healthy plugin connects now and has to become a member
	if j2 != nil {
		f.newPlugin(j2)
		if err := j2.p.NewStub(rt.Socket, nil); err != nil {
			v.overload = "cannot create stub: " + err.Error()
			return
		}
		started := make(chan error, 1)
		go func() { started <- j2.p.Stub.Start(context.Background()) }()
		t0 := time.Now()
		var startErr error
		select {
		case startErr = <-started:
		case <-time.After(joinBound):
			startErr = fmt.Errorf("Start() still running")
		}
		if startErr == nil {
			base := f.w.Count(j2.name)
			for f.w.Count(j2.name) <= base && startErr == nil {
				left := joinBound - time.Since(t0)
				if left <= 0 {
					startErr = fmt.Errorf("no probe reached it")
					break
				}
				err, wedged := f.probe(left)
				switch {
				case wedged:
					startErr = fmt.Errorf("a probe request did not return")
					stuck = true
				case err != nil:
					startErr = fmt.Errorf("probe failed: %w", err)
				default:
					time.Sleep(time.Millisecond)
				}
			}
		}
		if f.slowProbe {
			v.overload = "a probe during the second join took nearly a request timeout"
			return
		}
		if startErr != nil {
			hist["stacks"] = allStacks()
			v.timeFail = fmt.Sprintf("clause 2: healthy plugin %02d, connecting after plugin %02d had failed during its %s (%s), was not active %v later (%v): registrations are wedged",
				j2.spec.Idx, j1.spec.Idx, j1.join.Phase, describe(j1.join.Fault), joinBound, startErr)
			return
		}
		survivors = append(survivors, j2)
		v.classes = append(v.classes, "second-joiner-active")
		if j1.joinStruck {
			v.nontriv = true // a registration-time request failed and a later registration had to succeed
		}
	}

	// --- clause 2 / 4b: the follow-up request
	fres := f.call(c.FollowCtx, c.FollowSize, c.Follow, c.FollowEvent, followTag, bound)
	hist["follow_dur_ns"], hist["follow_err"] = fres.dur, fmt.Sprint(fres.err)
	if fres.timedOut {
		stuck = fres.stuck
		hist["stacks"] = fres.stacks
		v.timeFail = fmt.Sprintf("clause 2: the follow-up %s request did not return within %v", c.Follow, bound)
		return
	}
	// nothing fails in the follow-up request: a plugin can only have been dropped for being late
	// if the whole request took at least one request timeout
	if fres.dur > ReqTimeout*4/5 {
		v.overload = fmt.Sprintf("follow-up request took %v", fres.dur)
		return
	}
	for _, pl := range struck {
		if k := f.count(pl.spec.Idx, followTag); k != 0 {
			v.fail = fmt.Sprintf("clause 4: plugin %02d (%s) had failed, yet it received the follow-up %s request", pl.spec.Idx, describe(pl.spec.Fault), c.Follow)
			return
		}
	}
	sort.Slice(survivors, func(i, j int) bool { return survivors[i].rank < survivors[j].rank })
	// a plugin whose handler fails the follow-up request too: it must still be connected (a
	// handler error does not drop the plugin) and veto again
	for i, pl := range survivors {
		ft := pl.spec.Fault
		if ft.Kind != "error" || !ft.Again {
			continue
		}
		v.classes = append(v.classes, "veto-again")
		_, want := handlerError(ft)
		if k := f.count(pl.spec.Idx, followTag); k != 1 {
			v.fail = fmt.Sprintf("clause 5: plugin %02d, whose handler returns an error (%s), was invoked %d times for the follow-up %s request: a handler error must not disconnect the plugin", pl.spec.Idx, errClass(ft), k, c.Follow)
			return
		}
		if fres.err == nil {
			v.fail = fmt.Sprintf("clause 5: plugin %02d returned error %q (%s) for the follow-up %s request but it succeeded", pl.spec.Idx, want, errClass(ft), c.Follow)
			return
		}
		if !strings.Contains(fres.err.Error(), want) {
			v.fail = fmt.Sprintf("clause 5: the follow-up %s request failed with %q, which does not carry the handler's error %q (%s)", c.Follow, fres.err, want, errClass(ft))
			return
		}
		if fres.resp != nil {
			v.fail = fmt.Sprintf("clause 5: the failed follow-up %s request returned a (partial) result", c.Follow)
			return
		}
		for _, e := range survivors[:i] {
			if k := f.count(e.spec.Idx, followTag); k != 1 {
				v.fail = fmt.Sprintf("clause 4: surviving plugin %02d was invoked %d times for the follow-up %s request", e.spec.Idx, k, c.Follow)
				return
			}
		}
		for _, l := range survivors[i+1:] {
			if k := f.count(l.spec.Idx, followTag); k != 0 {
				v.fail = fmt.Sprintf("clause 5: plugin %02d was invoked for the follow-up %s request although plugin %02d before it had failed it with an error", l.spec.Idx, c.Follow, pl.spec.Idx)
				return
			}
		}
		return
	}
	if fres.err != nil {
		v.fail = fmt.Sprintf("clause 2: the follow-up %s request failed with %q (dropped plugins: %d, survivors: %d)", c.Follow, fres.err, len(struck), len(survivors))
		return
	}
	for _, pl := range survivors {
		if k := f.count(pl.spec.Idx, followTag); k != 1 {
			v.fail = fmt.Sprintf("clause 4: surviving plugin %02d was invoked %d times for the follow-up %s request", pl.spec.Idx, k, c.Follow)
			return
		}
	}
	if c.Follow != "event" {
		sort.Slice(survivors, func(i, j int) bool { return survivors[i].rank < survivors[j].rank })
		if d := diffLeaves(leaves(fres.resp), leaves(expected(c.Follow, followTag, survivors))); d != "" {
			v.fail = fmt.Sprintf("clause 2/3: the follow-up %s response does not carry exactly the survivors' contributions: %s", c.Follow, d)
			return
		}
	}
	return
}

// partialFrame is the first k bytes of a 72-byte multiplexer frame on the runtime service
// connection (the one plugins use for their own requests to the runtime).
func partialFrame(k int) []byte {
	if k < 1 {
		k = 1
	}
	if k > 71 {
		k = 71
	}
	body := make([]byte, 64)
	for i := range body {
		body[i] = byte(i)
	}
	// a ttRPC request header for 54 bytes on stream 1, then filler
	copy(body, ttrpcMsg(54, 1, 1, 0, nil))
	return frame(2, body)[:k]
}

// stallCost: how long a peer that stopped reading can have held up the request. One request
// timeout if it never closes; otherwise what was left of its stall when the request began (it
// may have stopped reading earlier, over responses to its own calls).
func stallCost(pl *plug, reqStart time.Time) time.Duration {
	ft := pl.spec.Fault
	if ft.StallMs < 0 {
		return ReqTimeout
	}
	end := pl.rep.FiredAt.Add(time.Duration(ft.StallMs) * time.Millisecond)
	from := pl.rep.FiredAt
	if reqStart.After(from) {
		from = reqStart
	}
	if d := end.Sub(from); d > 0 {
		return d
	}
	return 0
}

// runtimeOptions: the ttRPC options a runtime may hand to the adaptation for the connections of
// its plugins. All of them are pass-through: they must not change anything. "onclose" (a no-op
// client close handler) is accepted for probing only, it is not generated.
func runtimeOptions(set string) (adaptation.Option, bool) {
	passClient := func(ctx context.Context, req *ttrpc.Request, resp *ttrpc.Response, _ *ttrpc.UnaryClientInfo, invoke ttrpc.Invoker) error {
		return invoke(ctx, req, resp)
	}
	passServer := func(ctx context.Context, unmarshal ttrpc.Unmarshaler, _ *ttrpc.UnaryServerInfo, method ttrpc.Method) (interface{}, error) {
		return method(ctx, unmarshal)
	}
	switch set {
	case "":
		return nil, true
	case "client-interceptor":
		return adaptation.WithTTRPCOptions([]ttrpc.ClientOpts{ttrpc.WithUnaryClientInterceptor(passClient)}, nil), true
	case "client-chain":
		return adaptation.WithTTRPCOptions([]ttrpc.ClientOpts{ttrpc.WithChainUnaryClientInterceptor(passClient, passClient)}, nil), true
	case "server-interceptor":
		return adaptation.WithTTRPCOptions(nil, []ttrpc.ServerOpt{ttrpc.WithUnaryServerInterceptor(passServer)}), true
	case "client+server":
		return adaptation.WithTTRPCOptions([]ttrpc.ClientOpts{ttrpc.WithUnaryClientInterceptor(passClient)},
			[]ttrpc.ServerOpt{ttrpc.WithUnaryServerInterceptor(passServer)}), true
	case "onclose":
		return adaptation.WithTTRPCOptions([]ttrpc.ClientOpts{ttrpc.WithOnClose(func() {})}, nil), true
	}
	return nil, false
}

func sizeName(k string) string {
	if k == "" {
		return "small"
	}
	return k
}

func ctxName(k string) string {
	if k == "" {
		return "background"
	}
	return k
}

func errFormOf(ft Fault) string {
	switch ft.ErrForm {
	case "status", "wrap", "bare":
		return ft.ErrForm
	}
	return "plain"
}

func describe(ft Fault) string {
	switch ft.Kind {
	case "updrop":
		return fmt.Sprintf("queues an update and disconnects while plugin %02d holds the request for %d ms", ft.HoldIdx, ft.HoldMs)
	case "leave":
		return fmt.Sprintf("answers, then leaves (%s) %d ms later", ft.Then, ft.ThenMs)
	case "exit":
		return fmt.Sprintf("launched plugin exits inside the handler (status %d)", ft.K)
	case "dying":
		return fmt.Sprintf("died on the request's arrival with %d bytes of an own frame sent", ft.K)
	case "cut":
		if ft.PressCalls > 0 {
			return fmt.Sprintf("issued %d unsolicited updates (%d KiB of failed updates each), stopped reading after %d bytes (stall %d ms)", ft.PressCalls, ft.PressKB, ft.K, ft.StallMs)
		}
		if ft.StallMs < 0 {
			return fmt.Sprintf("stopped reading for good after %d bytes of the request", ft.K)
		}
		if ft.StallMs != 0 {
			return fmt.Sprintf("stopped reading after %d bytes of the request, closed %d ms later", ft.K, ft.StallMs)
		}
		return fmt.Sprintf("cut %s after %d bytes", ft.Dir, ft.K)
	case "close":
		return "peer close " + ft.When
	case "undecodable", "garbage":
		return ft.Kind + " " + ft.Level
	case "wrongtype":
		return fmt.Sprintf("response type byte %#x", ft.Type)
	}
	return ft.Kind
}

var (
	confirmedMu sync.Mutex
	confirmed   = map[string]string{}
)

// runC07 judges one case. Verdicts that depend on the clock are confirmed by re-executing the
// same case (up to three more times); they count as violations only if they fail every time.
func runC07(c C07Case) ev.Outcome {
	key := string(ev.Snapshot(c))
	confirmedMu.Lock()
	if txt, ok := confirmed[key]; ok {
		confirmedMu.Unlock()
		// rapid re-runs a failing case several times (before, during and after shrinking); a
		// time-clause failure of the very same case that was already confirmed by three
		// re-executions is not paid for again
		return ev.Outcome{Fail: txt}
	}
	confirmedMu.Unlock()
	v := runOnce(c)
	if v.timeFail != "" {
		first := v
		leaked := 0
		if v.leakedFix {
			leaked++
		}
		// a request that stays wedged even after every handler was released and every proxied
		// connection closed leaves its fixture behind: confirm it once, not three times
		for attempt := 0; attempt < 3 && leaked < 2; attempt++ {
			v = runOnce(c)
			if v.timeFail == "" {
				break
			}
			if v.leakedFix {
				leaked++
			}
		}
		switch {
		case v.fail != "": // a content violation showed up while confirming: final as it is
		case v.timeFail == "":
			// the time clause did not fail again: the machine, not the code
			v = first
			v.overload, v.timeFail = "time clause failed once and passed on re-execution: "+first.timeFail, ""
		}
	}
	o := ev.Outcome{Classes: v.classes, Lenient: v.lenient, NonTrivial: v.nontriv, History: v.history}
	switch {
	case v.excluded != "":
		o.Excluded = v.excluded
	case v.fail != "":
		o.Fail = v.fail
	case v.timeFail != "":
		o.Fail = v.timeFail + " (confirmed by re-execution)"
		confirmedMu.Lock()
		confirmed[key] = o.Fail
		confirmedMu.Unlock()
	case v.overload != "":
		o.Overloaded = true
		o.Classes = append(o.Classes, "overloaded")
		o.NonTrivial = false
		if os.Getenv("C07_DEBUG") != "" {
			fmt.Fprintln(os.Stderr, "overloaded:", v.overload)
		}
	}
	return o
}
