package faults

// TestRace_C07 is the part of C07 ("... the runtime process neither panics nor deadlocks")
// whose failures are data races inside the runtime: a plugin that disconnects at an
// arbitrary moment of its registration handshake makes the runtime's connection-close
// handler run concurrently with the registration handler. A torn read there is a nil
// dereference once in tens of thousands of runs; the Go race detector reports the unordered
// access on (nearly) every run, so this test is built with -race by the driver and the
// detector is its oracle (exit code 66 = violation; see props.d/C07.json "race").
//
// A case is a generated history of peers that connect to one runtime and leave at drawn
// points of the handshake, while lifecycle requests are relayed concurrently.

import (
	"context"
	"fmt"
	"net"
	"os"
	"sync"
	"testing"
	"time"

	"github.com/containerd/nri/pkg/api"
	"github.com/containerd/nri/pkg/net/multiplex"
	"github.com/containerd/ttrpc"
	"pgregory.net/rapid"

	"nriverif/ev"
	"nriverif/fx"
	"nriverif/gen"
)

type RacePeer struct {
	Name string `json:"name"`
	Idx  string `json:"idx"`
	// Script: connect_close  - connect, close without a word
	//         register_cut   - send RegisterPlugin, give up after GapUs and close at once
	//         register_done  - wait for the registration reply, then close at once
	//         stub_leave     - a real stub: full handshake, stays StayMs, stops
	Script string `json:"script"`
	GapUs  int    `json:"gap_us,omitempty"`
	StayMs int    `json:"stay_ms,omitempty"`
	// Bad makes the registration request invalid (empty name or malformed index)
	Bad string `json:"bad,omitempty"`
}

type RaceCase struct {
	Peers     []RacePeer `json:"peers"`
	StaggerUs int        `json:"stagger_us"`
	Requests  int        `json:"requests"`
}

var raceScripts = []string{"connect_close", "register_cut", "register_cut", "register_cut", "register_done", "register_done", "stub_leave"}

func genRace(t *rapid.T) RaceCase {
	c := RaceCase{StaggerUs: gen.Pick(t, "stagger", []int{0, 0, 50, 300, 2000}), Requests: gen.Uniform(t, "requests", 6)}
	n := 1 + gen.Uniform(t, "npeers", 8)
	for i := 0; i < n; i++ {
		p := RacePeer{Name: fmt.Sprintf("r%d", i), Idx: fmt.Sprintf("%02d", gen.Uniform(t, "idx", 100)),
			Script: gen.Pick(t, "script", raceScripts)}
		switch p.Script {
		case "register_cut":
			p.GapUs = gen.Pick(t, "gap", []int{0, 0, 20, 50, 100, 200, 400, 800, 2000})
		case "stub_leave":
			p.StayMs = gen.Pick(t, "stay", []int{0, 1, 5, 20})
		}
		if p.Script != "stub_leave" && gen.Uniform(t, "bad", 6) == 0 {
			p.Bad = gen.Pick(t, "badkind", []string{"name", "idx"})
		}
		c.Peers = append(c.Peers, p)
	}
	return c
}

func (p RacePeer) request() *api.RegisterPluginRequest {
	r := &api.RegisterPluginRequest{PluginName: p.Name, PluginIdx: p.Idx}
	switch p.Bad {
	case "name":
		r.PluginName = ""
	case "idx":
		r.PluginIdx = "x" + p.Idx[:1]
	}
	return r
}

func runRawPeer(sock string, p RacePeer) {
	conn, err := net.Dial("unix", sock)
	if err != nil {
		return
	}
	if p.Script == "connect_close" {
		conn.Close()
		return
	}
	mux := multiplex.Multiplex(conn)
	rc, err := mux.Open(multiplex.RuntimeServiceConn)
	if err != nil {
		conn.Close()
		return
	}
	cl := ttrpc.NewClient(rc)
	rt := api.NewRuntimeClient(cl)
	ctx, cancel := context.WithTimeout(context.Background(), 5*time.Second)
	if p.Script == "register_cut" {
		cancel()
		ctx, cancel = context.WithTimeout(context.Background(), time.Duration(p.GapUs)*time.Microsecond)
	}
	_, _ = rt.RegisterPlugin(ctx, p.request())
	cancel()
	conn.Close()
	cl.Close()
	mux.Close()
}

func runRace(c RaceCase) ev.Outcome {
	rt, err := fx.NewRuntime()
	if err != nil {
		return ev.Outcome{Excluded: "fixture_error", Overloaded: true, History: err.Error()}
	}
	var wg sync.WaitGroup
	for i, p := range c.Peers {
		p := p
		wg.Add(1)
		go func() {
			defer wg.Done()
			if p.Script == "stub_leave" {
				pl := &fx.Plugin{Name: p.Name, Idx: p.Idx}
				if err := rt.Connect(pl); err != nil {
					return
				}
				time.Sleep(time.Duration(p.StayMs) * time.Millisecond)
				pl.Stub.Stop()
				return
			}
			runRawPeer(rt.Socket, p)
		}()
		if c.StaggerUs > 0 && i < len(c.Peers)-1 {
			time.Sleep(time.Duration(c.StaggerUs) * time.Microsecond)
		}
	}
	wg.Add(1)
	go func() {
		defer wg.Done()
		for k := 0; k < c.Requests; k++ {
			id := fmt.Sprintf("race-%d", k)
			pod := &api.PodSandbox{Id: "pod-" + id, Name: "pod"}
			ctx, cancel := context.WithTimeout(context.Background(), 10*time.Second)
			switch k % 3 {
			case 0:
				_ = rt.A.RunPodSandbox(ctx, &api.RunPodSandboxRequest{Pod: pod})
			case 1:
				_, _ = rt.A.CreateContainer(ctx, &api.CreateContainerRequest{Pod: pod, Container: &api.Container{Id: id, PodSandboxId: pod.Id}})
			default:
				_, _ = rt.A.StopContainer(ctx, &api.StopContainerRequest{Pod: pod, Container: &api.Container{Id: id, PodSandboxId: pod.Id}})
			}
			cancel()
		}
	}()
	wg.Wait()
	// let the runtime's close handlers of the departed peers run inside this case
	time.Sleep(30 * time.Millisecond)
	rt.Stop()
	time.Sleep(10 * time.Millisecond)

	out := ev.Outcome{}
	seen := map[string]bool{}
	for _, p := range c.Peers {
		cl := "peer:" + p.Script
		if p.Script == "register_cut" && p.GapUs <= 400 {
			out.NonTrivial = true // the peer leaves while its registration is being handled
			cl = "peer:register_cut<=400us"
		}
		if !seen[cl] {
			seen[cl] = true
			out.Classes = append(out.Classes, cl)
		}
	}
	if c.Requests > 0 {
		out.Classes = append(out.Classes, "requests_in_flight")
	}
	return out
}

func TestRace_C07(t *testing.T) {
	run := runRace
	if os.Getenv("VERIF_REPLAY") != "" {
		// whether two unordered accesses actually overlap differs from run to run: a saved
		// history is replayed repeatedly
		run = func(c RaceCase) ev.Outcome {
			var o ev.Outcome
			for i := 0; i < 60; i++ {
				o = runRace(c)
			}
			return o
		}
	}
	ev.Run(t, "C07", genRace, run)
}
