package faults

import (
	"encoding/json"
	"os"
	"strconv"
	"strings"
	"testing"
	"time"
)

// TestProbe_C07 repeats one case (C07_PROBE_CASE = JSON file with a "case" member, or a built-in
// dying-plugin case) C07_PROBE times and reports how often it is judged a violation. A tool for
// measuring the rate of schedule-dependent failures; skipped unless C07_PROBE is set.
func TestProbe_C07(t *testing.T) {
	n, _ := strconv.Atoi(os.Getenv("C07_PROBE"))
	if n == 0 {
		t.Skip("set C07_PROBE=<repetitions>")
	}
	c := C07Case{Req: "create", Follow: "create", Plugins: []PluginSpec{
		{Idx: 10, Fault: Fault{Kind: "dying", K: 30}},
		{Idx: 20, Fault: Fault{Kind: "none"}},
	}}
	if p := os.Getenv("C07_PROBE_CASE"); p != "" {
		var rep struct {
			Case C07Case `json:"case"`
		}
		b, err := os.ReadFile(p)
		if err != nil {
			t.Fatal(err)
		}
		if err := json.Unmarshal(b, &rep); err != nil {
			t.Fatal(err)
		}
		c = rep.Case
	}
	fails := map[string]int{}
	over := 0
	secs, _ := strconv.Atoi(os.Getenv("C07_PROBE_SECS"))
	start := time.Now()
	runs := 0
	for i := 0; i < n; i++ {
		if secs > 0 && time.Since(start) > time.Duration(secs)*time.Second {
			break
		}
		runs++
		o := runC07(c)
		if o.Fail != "" {
			fails[o.Fail]++
		}
		if o.Overloaded {
			over++
		}
		for _, k := range o.Lenient {
			fails["(lenient) "+k]++
		}
	}
	total := 0
	for k, v := range fails {
		t.Logf("%d x %s", v, k)
		if !strings.HasPrefix(k, "(lenient) ") {
			total += v
		}
	}
	t.Logf("PROBE: %d runs, %d violations, %d overloaded", runs, total, over)
}
