package faults

import (
	"encoding/binary"
	"net"
	"sync"
)

// msgTracker follows the multiplexer frames of one direction of a plugin connection from its
// first byte and tells when a ttRPC message on the plugin service connection (conn id 1: in the
// plugin->runtime direction these are the plugin's responses) has been passed on completely,
// also when it spans several frames.
type msgTracker struct {
	hdr     [muxHdrLen]byte
	hdrGot  int
	conn    uint32
	payLeft int // bytes left in the current frame
	th      [ttrpcHdrLen]byte
	thGot   int
	msgLeft int // bytes left in the current conn-1 message (-1: its ttRPC header is still incomplete)
	inMsg   bool
}

// feed consumes bytes that went over the wire; it returns how many conn-1 messages ended.
func (t *msgTracker) feed(b []byte) int {
	done := 0
	for len(b) > 0 {
		if t.payLeft == 0 {
			n := copy(t.hdr[t.hdrGot:], b)
			t.hdrGot += n
			b = b[n:]
			if t.hdrGot < muxHdrLen {
				break
			}
			t.hdrGot = 0
			t.conn = binary.BigEndian.Uint32(t.hdr[0:4])
			t.payLeft = int(binary.BigEndian.Uint32(t.hdr[4:8]))
			continue
		}
		n := len(b)
		if n > t.payLeft {
			n = t.payLeft
		}
		chunk := b[:n]
		b = b[n:]
		t.payLeft -= n
		if t.conn != connPlugin {
			continue
		}
		for len(chunk) > 0 {
			if !t.inMsg {
				c := copy(t.th[t.thGot:], chunk)
				t.thGot += c
				chunk = chunk[c:]
				if t.thGot < ttrpcHdrLen {
					break
				}
				t.thGot = 0
				t.inMsg = true
				t.msgLeft = int(binary.BigEndian.Uint32(t.th[0:4]))
				if t.msgLeft == 0 {
					t.inMsg = false
					done++
				}
				continue
			}
			c := len(chunk)
			if c > t.msgLeft {
				c = t.msgLeft
			}
			chunk = chunk[c:]
			t.msgLeft -= c
			if t.msgLeft == 0 {
				t.inMsg = false
				done++
			}
		}
	}
	return done
}

// watchConn is the plugin's own end of its connection with a msgTracker on what the plugin
// writes: once armed, the callback runs (once, on the writing goroutine, after the write
// returned) when the next response has been written out completely.
type watchConn struct {
	net.Conn
	mu    sync.Mutex
	tr    msgTracker
	armed func()
}

func (w *watchConn) Arm(f func()) {
	w.mu.Lock()
	w.armed = f
	w.mu.Unlock()
}

func (w *watchConn) Write(b []byte) (int, error) {
	n, err := w.Conn.Write(b)
	var fire func()
	w.mu.Lock()
	if n > 0 && w.tr.feed(b[:n]) > 0 && w.armed != nil {
		fire, w.armed = w.armed, nil
	}
	w.mu.Unlock()
	if fire != nil {
		fire()
	}
	return n, err
}
