package faults

import (
	"os"
	"testing"
	"time"

	"github.com/containerd/nri/pkg/adaptation"

	"nriverif/ev"
)

func TestMain(m *testing.M) {
	// process-wide settings: 300 ms request timeout for the fault cases (raised while plugins
	// register), generous registration timeout so that machine load cannot refuse a plugin
	adaptation.SetPluginRegistrationTimeout(30 * time.Second)
	adaptation.SetPluginRequestTimeout(ReqTimeout)
	os.Exit(m.Run())
}

func TestProp_C07(t *testing.T) { ev.Run(t, "C07", genC07, runC07) }
