// Package faults holds engine E3 for C07: plugins that fail while the runtime talks to them.
//
// proxy.go is the fault-injecting connection proxy. A plugin's stub dials the proxy's unix
// socket; the proxy dials the adaptation's unix socket and copies bytes in both directions.
// Both hops are real unix stream sockets, so the code under test sees the errors a kernel
// produces (EOF, ECONNRESET when unread data is discarded by a close, EPIPE), not those of a
// fake connection.
//
// On the wire a plugin connection carries multiplexer frames
//
//	[conn id, 4 bytes BE][payload length, 4 bytes BE][payload]
//
// and on conn id 1 (runtime -> plugin calls, plugin -> runtime responses) each ttRPC message
// starts with a 10-byte header [length 4][stream id 4][type 1][flags 1]. A response that fits
// ttRPC's 4096-byte write buffer travels as exactly one multiplexer frame; a larger one as a
// 4096-byte frame followed by the rest (the continuation frames carry no ttRPC header).
package faults

import (
	"encoding/binary"
	"fmt"
	"io"
	"net"
	"os"
	"sync"
	"syscall"
	"time"

	"github.com/containerd/ttrpc"
	"google.golang.org/protobuf/proto"
)

// Direction of a byte stream through the proxy.
const (
	R2P = 0 // runtime -> plugin (requests)
	P2R = 1 // plugin -> runtime (responses)
)

const (
	muxHdrLen   = 8
	ttrpcHdrLen = 10
	connPlugin  = 1 // multiplex.PluginServiceConn
	typeResp    = 2 // ttRPC messageTypeResponse

	// MaxDeclaredLen caps the payload length a forged multiplexer header may declare. The
	// runtime's multiplexer allocates the declared length before reading the payload; a forged
	// 4 GB declaration would take the harness process down with it (same address space).
	MaxDeclaredLen = 64 << 20
)

// Plan is one armed fault. Kind:
//
//	"cut"         close both hops as soon as a (K+1)-th byte shows up in direction Dir after
//	              arming; exactly K bytes are forwarded
//	"wrongtype"   rewrite the ttRPC type byte of the next response frame to Type
//	"undecodable" replace the next response by a well-formed ttRPC response frame whose body is
//	              Bytes (Level "frame": Bytes stand where the ttRPC Response message should be;
//	              Level "payload": a valid ttRPC Response whose payload field is Bytes)
//	"dying"       the plugin dies in the middle of sending something of its own (an unsolicited
//	              UpdateContainers request, say) at the moment a request reaches it: Bytes (an
//	              incomplete multiplexer frame) are put on the runtime hop when the plan is
//	              armed, and both hops are closed as soon as the last byte of the next complete
//	              runtime->plugin frame has been read
//	"leave"       the plugin answers and leaves: both hops are closed StallMs ms (0 = at once)
//	              after the next response has been passed on to the runtime completely
//	"garbage"     replace the next response by forged bytes (Level "trunk": raw bytes with a
//	              forged multiplexer header; "mux": a valid multiplexer frame for the plugin
//	              service connection carrying Bytes; "ttrpc": valid multiplexer frame, forged
//	              ttRPC header + Bytes) and swallow whatever else the plugin sends
type Plan struct {
	Kind string
	Dir  int
	K    int
	// cut: once the cut point is reached the proxy stops servicing that direction (what lies
	// behind the cut point stays unread in the socket, so a sender with more than a socket
	// buffer's worth of data blocks in its write) and closes both hops only StallMs later.
	// A negative value: never (until the session is shut down).
	StallMs int
	// cut: applies to the next message on the plugin service connection only; once that has
	// gone through whole the plan is dropped (Report.Passed)
	OneMsg bool
	Type   byte
	Level  string
	Bytes  []byte

	ConnID    uint32 // trunk-level garbage: forged conn id
	DeclLen   uint32 // declared payload length of the forged header (clamped to MaxDeclaredLen)
	StreamSel string // ttrpc-level garbage: "zero", "even", "far", "active"
	Flags     byte
}

// Report is what happened while a plan was armed.
type Report struct {
	Fired     bool // cut: the cut point was reached
	FiredAt   time.Time
	Consumed  bool   // rewrite plans: a response frame was replaced
	Fwd       [2]int // bytes forwarded per direction while armed
	FirstLen  [2]int // multiplexer payload length of the first frame seen per direction (-1: none)
	Stream    uint32 // ttRPC stream id of the first request seen while armed
	Swallowed int    // bytes of plugin traffic dropped after a replacement
	Answered  bool   // leave: a complete response went to the runtime while armed
	Passed    bool   // cut with OneMsg: the message went through, the cut point lay beyond it
}

// Proxy is one plugin connection with fault injection.
type Proxy struct {
	Path   string // socket the stub dials
	target string
	l      net.Listener

	mu       sync.Mutex
	pc, rc   net.Conn
	plan     *Plan
	left     int
	rep      Report
	swallow  bool
	trk      [2]msgTracker // follow everything passed on, per direction
	closer   string        // who ended the session first: "", "proxy", "runtime", "plugin"
	closedAt time.Time
	pumps    sync.WaitGroup
	ready    chan struct{}
	quit     chan struct{} // closed by Shutdown / CloseNow: ends a stall
	quitOnce sync.Once
	dialErr  error
}

// NewProxy listens on <dir>/<name>.sock and forwards the first connection to target.
func NewProxy(dir, name, target string) (*Proxy, error) {
	p := &Proxy{Path: dir + "/" + name + ".sock", target: target, ready: make(chan struct{}), quit: make(chan struct{})}
	l, err := net.Listen("unix", p.Path)
	if err != nil {
		return nil, err
	}
	p.l = l
	go p.accept()
	return p, nil
}

func (p *Proxy) accept() {
	defer close(p.ready)
	pc, err := p.l.Accept()
	p.l.Close()
	os.Remove(p.Path)
	if err != nil {
		p.dialErr = err
		return
	}
	rc, err := net.Dial("unix", p.target)
	if err != nil {
		pc.Close()
		p.dialErr = err
		return
	}
	p.mu.Lock()
	p.pc, p.rc = pc, rc
	p.mu.Unlock()
	p.pumps.Add(2)
	go p.pump(R2P, rc, pc)
	go p.pump(P2R, pc, rc)
}

// Dial is the stub dialer: a real unix connection to the proxy.
func (p *Proxy) Dial(string) (net.Conn, error) {
	return net.Dial("unix", p.Path)
}

// Arm installs a plan. The connection must be idle (no request in flight).
func (p *Proxy) Arm(pl Plan) {
	p.mu.Lock()
	p.plan = &pl
	p.left = pl.K
	p.rep = Report{FirstLen: [2]int{-1, -1}}
	p.swallow = false
	rc := p.rc
	p.mu.Unlock()
	if pl.Kind == "dying" && rc != nil && len(pl.Bytes) > 0 {
		rc.Write(pl.Bytes)
	}
}

// dieNow: a "dying" plan is armed and the request has just arrived completely.
func (p *Proxy) dieNow(d int) bool {
	if d != R2P {
		return false
	}
	p.mu.Lock()
	defer p.mu.Unlock()
	if p.plan != nil && p.plan.Kind == "dying" && !p.rep.Fired {
		p.rep.Fired = true
		return true
	}
	return false
}

// Disarm removes the plan and tells what it did.
func (p *Proxy) Disarm() Report {
	p.mu.Lock()
	defer p.mu.Unlock()
	p.plan = nil
	p.swallow = false
	return p.rep
}

// CloseNow ends the session from the plugin's end ("peer close"): both hops are closed.
func (p *Proxy) CloseNow() {
	p.quitOnce.Do(func() { close(p.quit) })
	p.end("proxy")
}

// Closer tells who ended the session first ("" while it is up) and when.
func (p *Proxy) Closer() (string, time.Time) {
	p.mu.Lock()
	defer p.mu.Unlock()
	return p.closer, p.closedAt
}

// Shutdown closes everything and waits for the copying goroutines.
func (p *Proxy) Shutdown() {
	p.l.Close()
	<-p.ready
	p.quitOnce.Do(func() { close(p.quit) })
	p.end("proxy")
	p.pumps.Wait()
}

func (p *Proxy) end(who string) {
	p.mu.Lock()
	if p.closer == "" {
		p.closer = who
		p.closedAt = time.Now()
	}
	pc, rc := p.pc, p.rc
	p.mu.Unlock()
	if pc != nil {
		pc.Close()
	}
	if rc != nil {
		rc.Close()
	}
}

func (p *Proxy) srcFailed(d int) {
	if d == R2P {
		p.end("runtime")
	} else {
		p.end("plugin")
	}
}

// holdMode: the next plugin->runtime frame has to be seen as a whole before it is passed on.
func (p *Proxy) holdMode(d int) bool {
	if d != P2R {
		return false
	}
	p.mu.Lock()
	defer p.mu.Unlock()
	if p.swallow {
		return true
	}
	return p.plan != nil && !p.rep.Consumed && (p.plan.Kind == "wrongtype" || p.plan.Kind == "undecodable" || p.plan.Kind == "garbage")
}

// readLimit keeps reads short while a cut is armed so that data behind the cut point stays
// unread in the socket (a close then produces ECONNRESET at the sender, as a dying peer does).
func (p *Proxy) readLimit(d, want int) int {
	p.mu.Lock()
	defer p.mu.Unlock()
	if p.plan != nil && p.plan.Kind == "cut" && p.plan.Dir == d && !p.rep.Fired && p.left+1 < want {
		return p.left + 1
	}
	return want
}

// forward passes b on, honouring an armed cut. false = the session is over.
func (p *Proxy) forward(d int, dst net.Conn, b []byte) bool {
	fire := false
	stall := 0
	p.mu.Lock()
	if p.plan != nil && p.plan.Kind == "cut" && p.plan.Dir == d && !p.rep.Fired {
		if len(b) > p.left {
			b = b[:p.left]
			fire = true
			stall = p.plan.StallMs
			p.rep.Fired = true
			p.rep.FiredAt = time.Now()
		}
		p.left -= len(b)
	}
	if p.plan != nil {
		p.rep.Fwd[d] += len(b)
	}
	leave, leaveMs := false, 0
	msgs := p.trk[d].feed(b)
	if d == P2R && msgs > 0 && p.plan != nil && p.plan.Kind == "leave" && !p.rep.Answered {
		p.rep.Answered = true
		leave, leaveMs = true, p.plan.StallMs
	}
	if msgs > 0 && !fire && p.plan != nil && p.plan.Kind == "cut" && p.plan.Dir == d && p.plan.OneMsg && !p.rep.Fired {
		// the message the cut was meant for went through whole: the cut point lay beyond it
		p.rep.Passed = true
		p.plan = nil
	}
	p.mu.Unlock()
	if len(b) > 0 {
		if _, err := dst.Write(b); err != nil {
			// the destination is gone: its own reader will notice and name the closer
			if !fire {
				return false
			}
		}
	}
	if leave {
		if leaveMs <= 0 {
			p.end("proxy")
			return false
		}
		go func() {
			p.mu.Lock()
			quit := p.quit
			p.mu.Unlock()
			select {
			case <-time.After(time.Duration(leaveMs) * time.Millisecond):
			case <-quit:
			}
			p.end("proxy")
		}()
	}
	if fire {
		if stall != 0 {
			p.mu.Lock()
			quit, rc := p.quit, p.rc
			p.mu.Unlock()
			var deadline time.Time
			if stall > 0 {
				deadline = time.Now().Add(time.Duration(stall) * time.Millisecond)
			}
			// not reading must not make the proxy blind: the runtime giving up on this peer
			// (closing its end) is noticed through the socket's hang-up state
		wait:
			for {
				select {
				case <-quit:
					break wait
				case <-time.After(time.Millisecond):
				}
				if stall > 0 && !time.Now().Before(deadline) {
					break
				}
				if d == R2P && peerHungUp(rc) {
					p.end("runtime")
					return false
				}
			}
		}
		p.end("proxy")
		return false
	}
	return true
}

func (p *Proxy) noteFrame(d int, hdr []byte) {
	p.mu.Lock()
	if p.plan != nil && p.rep.FirstLen[d] < 0 {
		p.rep.FirstLen[d] = int(binary.BigEndian.Uint32(hdr[4:8]))
	}
	p.mu.Unlock()
}

func (p *Proxy) noteRequest(conn uint32, th []byte) {
	p.mu.Lock()
	if p.plan != nil && conn == connPlugin && p.rep.Stream == 0 {
		p.rep.Stream = binary.BigEndian.Uint32(th[4:8])
	}
	p.mu.Unlock()
}

func (p *Proxy) pump(d int, src, dst net.Conn) {
	defer p.pumps.Done()
	hdr := make([]byte, muxHdrLen)
	buf := make([]byte, 64<<10)
	for {
		// first piece of the next frame header
		n, err := src.Read(hdr[:p.readLimit(d, muxHdrLen)])
		if err != nil {
			p.srcFailed(d)
			return
		}
		if p.holdMode(d) {
			if _, err := io.ReadFull(src, hdr[n:]); err != nil {
				p.srcFailed(d)
				return
			}
			size := int(binary.BigEndian.Uint32(hdr[4:8]))
			if size > 8<<20 {
				p.end("proxy") // the stub never sends this
				return
			}
			pay := make([]byte, size)
			if _, err := io.ReadFull(src, pay); err != nil {
				p.srcFailed(d)
				return
			}
			p.noteFrame(d, hdr)
			out := p.transform(hdr, pay)
			if len(out) > 0 {
				if _, err := dst.Write(out); err != nil {
					return
				}
			}
			continue
		}
		got := n
		if !p.forward(d, dst, hdr[:n]) {
			return
		}
		for got < muxHdrLen {
			n, err = src.Read(hdr[got:min(muxHdrLen, got+p.readLimit(d, muxHdrLen-got))])
			if err != nil {
				p.srcFailed(d)
				return
			}
			if !p.forward(d, dst, hdr[got:got+n]) {
				return
			}
			got += n
		}
		p.noteFrame(d, hdr)
		conn := binary.BigEndian.Uint32(hdr[0:4])
		left := int(binary.BigEndian.Uint32(hdr[4:8]))
		var th [ttrpcHdrLen]byte
		thGot := 0
		for left > 0 {
			n, err = src.Read(buf[:p.readLimit(d, min(left, len(buf)))])
			if err != nil {
				p.srcFailed(d)
				return
			}
			if d == R2P && thGot < ttrpcHdrLen {
				c := copy(th[thGot:], buf[:n])
				thGot += c
				if thGot == ttrpcHdrLen {
					p.noteRequest(conn, th[:])
				}
			}
			if left == n && p.dieNow(d) {
				p.end("proxy")
				return
			}
			if !p.forward(d, dst, buf[:n]) {
				return
			}
			left -= n
		}
	}
}

// defuse makes sure forged bytes are not, by accident, a response to the call in flight (that
// would be the "undecodable" fault, or even a valid answer).
func defuse(b []byte, stream uint32) []byte {
	if len(b) >= ttrpcHdrLen && binary.BigEndian.Uint32(b[4:8]) == stream && b[8] == typeResp {
		b = append([]byte{}, b...)
		b[8] = 3
	}
	return b
}

// peerHungUp tells whether the other end of a unix stream connection has been closed, without
// reading from it (EPOLLRDHUP / EPOLLHUP).
func peerHungUp(c net.Conn) bool {
	sc, ok := c.(syscall.Conn)
	if !ok {
		return false
	}
	raw, err := sc.SyscallConn()
	if err != nil {
		return false
	}
	hup := false
	raw.Control(func(fd uintptr) {
		ep, err := syscall.EpollCreate1(syscall.EPOLL_CLOEXEC)
		if err != nil {
			return
		}
		defer syscall.Close(ep)
		evt := syscall.EpollEvent{Events: syscall.EPOLLRDHUP, Fd: int32(fd)}
		if err := syscall.EpollCtl(ep, syscall.EPOLL_CTL_ADD, int(fd), &evt); err != nil {
			return
		}
		var got [1]syscall.EpollEvent
		n, err := syscall.EpollWait(ep, got[:], 0)
		if err == nil && n == 1 && got[0].Events&(syscall.EPOLLRDHUP|syscall.EPOLLHUP|syscall.EPOLLERR) != 0 {
			hup = true
		}
	})
	return hup
}

func frame(conn uint32, payload []byte) []byte {
	out := make([]byte, muxHdrLen+len(payload))
	binary.BigEndian.PutUint32(out[0:4], conn)
	binary.BigEndian.PutUint32(out[4:8], uint32(len(payload)))
	copy(out[muxHdrLen:], payload)
	return out
}

func ttrpcMsg(length, stream uint32, typ, flags byte, body []byte) []byte {
	out := make([]byte, ttrpcHdrLen+len(body))
	binary.BigEndian.PutUint32(out[0:4], length)
	binary.BigEndian.PutUint32(out[4:8], stream)
	out[8], out[9] = typ, flags
	copy(out[ttrpcHdrLen:], body)
	return out
}

// transform applies a rewrite plan to one complete plugin->runtime frame and returns the bytes
// to put on the runtime hop instead.
func (p *Proxy) transform(hdr, pay []byte) []byte {
	p.mu.Lock()
	defer p.mu.Unlock()
	whole := append(append([]byte{}, hdr...), pay...)
	if p.swallow {
		p.rep.Swallowed += len(whole)
		return nil
	}
	pl := p.plan
	conn := binary.BigEndian.Uint32(hdr[0:4])
	if pl == nil || p.rep.Consumed || conn != connPlugin || len(pay) < ttrpcHdrLen || pay[8] != typeResp {
		if pl != nil {
			p.rep.Fwd[P2R] += len(whole)
		}
		return whole
	}
	stream := binary.BigEndian.Uint32(pay[4:8])
	flags := pay[9]
	p.rep.Consumed = true
	var out []byte
	switch pl.Kind {
	case "wrongtype":
		whole[muxHdrLen+8] = pl.Type
		out = whole
	case "undecodable":
		body := pl.Bytes
		if pl.Level == "payload" {
			b, err := proto.Marshal(&ttrpc.Response{Payload: pl.Bytes})
			if err != nil {
				panic(fmt.Sprintf("harness: cannot marshal ttrpc.Response: %v", err))
			}
			body = b
		}
		out = frame(connPlugin, ttrpcMsg(uint32(len(body)), stream, typeResp, flags, body))
		p.swallow = true
	case "garbage":
		decl := pl.DeclLen
		if decl > MaxDeclaredLen {
			decl = MaxDeclaredLen
		}
		switch pl.Level {
		case "trunk":
			// the declared length never undercuts the bytes that follow: what would be left
			// over would be read as another header with an unbounded declared length
			if decl < uint32(len(pl.Bytes)) {
				decl = uint32(len(pl.Bytes))
			}
			body := pl.Bytes
			if pl.ConnID == connPlugin {
				body = defuse(body, stream)
			}
			out = make([]byte, muxHdrLen+len(body))
			binary.BigEndian.PutUint32(out[0:4], pl.ConnID)
			binary.BigEndian.PutUint32(out[4:8], decl)
			copy(out[muxHdrLen:], body)
		case "mux":
			out = frame(connPlugin, defuse(pl.Bytes, stream))
		default: // "ttrpc"
			sid := uint32(0)
			switch pl.StreamSel {
			case "even":
				sid = stream + 1
			case "far":
				sid = 0x7ffffff1
			case "active":
				sid = stream
			}
			typ := pl.Type
			if sid == stream && typ == typeResp {
				typ = 3 // never forge an answer to the call itself: that is the "undecodable" fault
			}
			out = frame(connPlugin, ttrpcMsg(decl, sid, typ, pl.Flags, pl.Bytes))
		}
		p.swallow = true
	}
	p.rep.Fwd[P2R] += len(out)
	return out
}
