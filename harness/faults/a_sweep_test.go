package faults

import (
	"testing"

	"nriverif/ev"
)

// TestExh_C07 cuts the connection of the middle one of three plugins at every byte offset of
// the first bytes of the request (runtime -> plugin) and of the response (plugin -> runtime),
// for small single-frame messages and, around the 4096-byte split, for a large response.
func TestExh_C07(t *testing.T) {
	if i, _ := ev.Shard(); i != 0 {
		t.Skip("sweep runs in shard 0 only")
	}
	r := ev.Get("C07")
	defer r.Flush()
	n := 0
	run := func(c C07Case) {
		raw := ev.Snapshot(c)
		r.Journal(raw)
		o := runC07(c)
		r.ClearJournal()
		for i, k := range o.Classes {
			o.Classes[i] = "sweep/" + k
		}
		o.Classes = append([]string{"sweep"}, o.Classes...)
		r.Record(raw, o)
		n++
		if o.Fail != "" {
			r.SetExtra("sweep_cases", n)
			t.Fatalf("C07 sweep: %s", o.Fail)
		}
	}
	mk := func(req string, event int32, dir string, k int, big bool) C07Case {
		return C07Case{Req: req, Event: event, Follow: req, FollowEvent: event, Plugins: []PluginSpec{
			{Idx: 10, Fault: Fault{Kind: "none"}},
			{Idx: 20, Big: big, Fault: Fault{Kind: "cut", Dir: dir, K: k}},
			{Idx: 30, Fault: Fault{Kind: "none"}},
		}}
	}
	type rq struct {
		req   string
		event int32
	}
	reqs := []rq{{"create", 0}, {"event", 6}}
	if ev.Thorough() {
		reqs = []rq{{"create", 0}, {"update", 0}, {"stop", 0}, {"updatepod", 0}, {"event", 1}, {"event", 6}, {"event", 13}}
	}
	small := ev.Pick(48, 160)
	for _, q := range reqs {
		for _, dir := range []string{"p2r", "r2p"} {
			for k := 0; k < small; k++ {
				run(mk(q.req, q.event, dir, k, false))
			}
		}
	}
	// the large response: offsets around the boundary between its first (4096-byte) frame and the rest
	lo, hi := ev.Pick(4096, 4060), ev.Pick(4124, 4160)
	for _, req := range []string{"create", "stop"} {
		for k := lo; k < hi; k++ {
			run(mk(req, 0, "p2r", k, true))
		}
	}
	// the plugin that dies on the request's arrival, for every length of the incomplete frame it leaves
	for k := 1; k <= 71; k += ev.Pick(3, 1) {
		c := mk("create", 0, "", 0, false)
		c.Plugins[1].Fault = Fault{Kind: "dying", K: k}
		run(c)
	}
	// every form of a deliberately returned handler error, for every request kind: it must veto
	// this request and the next one
	type form struct {
		form, sentinel string
		code           int
	}
	forms := []form{{form: "plain"}}
	for code := 1; code <= 16; code++ {
		forms = append(forms, form{form: "status", code: code})
	}
	for _, sn := range sentinelNames {
		forms = append(forms, form{form: "wrap", sentinel: sn}, form{form: "bare", sentinel: sn})
	}
	nForms := 0
	for _, q := range reqs {
		for i, fm := range forms {
			c := mk(q.req, q.event, "", 0, false)
			text := "c07 veto by plugin 20"
			if x := trickyTexts[(i+nForms)%len(trickyTexts)]; x != "" {
				text = x + ": " + text
			}
			c.Plugins[1].Fault = Fault{Kind: "error", ErrText: text, ErrForm: fm.form, ErrCode: fm.code, ErrSentinel: fm.sentinel, Again: true}
			run(c)
			nForms++
		}
	}
	// every kind of caller context against the faults that end in the request timeout or in a
	// closed connection, for every request kind
	for _, q := range reqs {
		for _, cx := range []string{"", "deadline", "values", "cancel", "values+deadline", "cancel+deadline"} {
			for _, ft := range []Fault{{Kind: "hang"}, {Kind: "close", When: "during"}, {Kind: "cut", Dir: "p2r", K: 20},
				{Kind: "garbage", Level: "ttrpc", StreamSel: "zero", Type: 2, Bytes: []byte{1, 2, 3}, DeclLen: 3}} {
				c := mk(q.req, q.event, "", 0, false)
				c.Ctx, c.FollowCtx, c.CtxDeadlineS = cx, cx, 30
				c.Plugins[1].Fault = ft
				run(c)
			}
		}
	}
	r.SetExtra("sweep_error_forms", len(forms))
	r.SetExtra("sweep_cases", n)
	r.SetExtra("sweep_offsets_small", small)
}
