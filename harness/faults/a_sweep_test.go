package faults

import (
	"testing"

	"nriverif/ev"
)

// TestExh_C07 cuts the connection of the middle one of three plugins at every byte offset of
// the first bytes of the request (runtime -> plugin) and of the response (plugin -> runtime),
// for small single-frame messages and, around the 4096-byte split, for a large response.
func TestExh_C07(t *testing.T) {
	if i, _ := ev.Shard(); i != 0 {
		t.Skip("sweep runs in shard 0 only")
	}
	r := ev.Get("C07")
	defer r.Flush()
	n := 0
	run := func(c C07Case) {
		raw := ev.Snapshot(c)
		r.Journal(raw)
		o := runC07(c)
		r.ClearJournal()
		for i, k := range o.Classes {
			o.Classes[i] = "sweep/" + k
		}
		o.Classes = append([]string{"sweep"}, o.Classes...)
		r.Record(raw, o)
		n++
		if o.Fail != "" {
			r.SetExtra("sweep_cases", n)
			t.Fatalf("C07 sweep: %s", o.Fail)
		}
	}
	mk := func(req string, event int32, dir string, k int, big bool) C07Case {
		return C07Case{Req: req, Event: event, Follow: req, FollowEvent: event, Plugins: []PluginSpec{
			{Idx: 10, Fault: Fault{Kind: "none"}},
			{Idx: 20, Big: big, Fault: Fault{Kind: "cut", Dir: dir, K: k}},
			{Idx: 30, Fault: Fault{Kind: "none"}},
		}}
	}
	type rq struct {
		req   string
		event int32
	}
	reqs := []rq{{"create", 0}, {"event", 6}}
	if ev.Thorough() {
		reqs = []rq{{"create", 0}, {"update", 0}, {"stop", 0}, {"updatepod", 0}, {"event", 1}, {"event", 6}, {"event", 13}}
	}
	small := ev.Pick(48, 160)
	for _, q := range reqs {
		for _, dir := range []string{"p2r", "r2p"} {
			for k := 0; k < small; k++ {
				run(mk(q.req, q.event, dir, k, false))
			}
		}
	}
	// the large response: offsets around the boundary between its first (4096-byte) frame and the rest
	lo, hi := ev.Pick(4096, 4060), ev.Pick(4124, 4160)
	for _, req := range []string{"create", "stop"} {
		for k := lo; k < hi; k++ {
			run(mk(req, 0, "p2r", k, true))
		}
	}
	// the plugin that dies on the request's arrival, for every length of the incomplete frame it leaves
	for k := 1; k <= 71; k += ev.Pick(3, 1) {
		c := mk("create", 0, "", 0, false)
		c.Plugins[1].Fault = Fault{Kind: "dying", K: k}
		run(c)
	}
	// every form of a deliberately returned handler error, for every request kind: it must veto
	// this request and the next one
	type form struct {
		form, sentinel string
		code           int
	}
	forms := []form{{form: "plain"}}
	for code := 1; code <= 16; code++ {
		forms = append(forms, form{form: "status", code: code})
	}
	for _, sn := range sentinelNames {
		forms = append(forms, form{form: "wrap", sentinel: sn}, form{form: "bare", sentinel: sn})
	}
	nForms := 0
	for _, q := range reqs {
		for i, fm := range forms {
			c := mk(q.req, q.event, "", 0, false)
			text := "c07 veto by plugin 20"
			if x := trickyTexts[(i+nForms)%len(trickyTexts)]; x != "" {
				text = x + ": " + text
			}
			c.Plugins[1].Fault = Fault{Kind: "error", ErrText: text, ErrForm: fm.form, ErrCode: fm.code, ErrSentinel: fm.sentinel, Again: true}
			run(c)
			nForms++
		}
	}
	// every kind of caller context against the faults that end in the request timeout or in a
	// closed connection, for every request kind
	for _, q := range reqs {
		cxs := []string{"", "deadline", "values", "cancel", "values+deadline", "cancel+deadline"}
		fts := []Fault{{Kind: "hang"}, {Kind: "close", When: "during"}, {Kind: "cut", Dir: "p2r", K: 20},
			{Kind: "garbage", Level: "ttrpc", StreamSel: "zero", Type: 2, Bytes: []byte{1, 2, 3}, DeclLen: 3}}
		if !ev.Thorough() {
			// the quick tier keeps the timeouts few: the contexts that carry a deadline (and one
			// that does not) against the fault that ends in the request timeout and one that does not
			cxs = []string{"deadline", "cancel+deadline", "values"}
			fts = fts[:2]
		}
		for _, cx := range cxs {
			for _, ft := range fts {
				c := mk(q.req, q.event, "", 0, false)
				c.Ctx, c.FollowCtx, c.CtxDeadlineS = cx, cx, 30
				c.Plugins[1].Fault = ft
				run(c)
			}
		}
	}
	// large requests to a peer that reads k bytes and closes, at once or after not servicing the
	// socket for a while: k inside the multiplexer header, the ttRPC header, the payload within
	// and beyond what a socket buffer holds
	sizes := []string{"1m"}
	if ev.Thorough() {
		sizes = []string{"256k", "1m", "3m"}
	}
	for _, q := range reqs {
		for _, sz := range sizes {
			for _, k := range []int{3, 12, 5000, 230_000} {
				for _, stall := range []int{0, 40} {
					c := mk(q.req, q.event, "r2p", k, false)
					c.ReqSize = sz
					c.Plugins[1].Fault.StallMs = stall
					run(c)
				}
			}
		}
	}
	// the peer that stops reading for good: with a large request the runtime's write is stuck,
	// with a small one the write goes through and the answer never comes; either way the plugin
	// costs one request timeout and is dropped
	for _, q := range reqs {
		for _, sz := range []string{"1m", ""} {
			ks := []int{3, 12, 60}
			if !ev.Thorough() {
				ks = []int{12}
			}
			for _, k := range ks {
				c := mk(q.req, q.event, "r2p", k, false)
				c.ReqSize = sz
				c.Plugins[1].Fault.StallMs = -1
				run(c)
			}
		}
	}
	// pre-installed plugins (launched by the runtime, which also owns their processes): one
	// fails during the first request at a non-last position, healthy launched plugins follow
	L := func(idx int, ft Fault) PluginSpec { return PluginSpec{Idx: idx, Launched: true, Fault: ft} }
	E := func(idx int, ft Fault) PluginSpec { return PluginSpec{Idx: idx, Fault: ft} }
	none := Fault{Kind: "none"}
	for _, q := range reqs {
		for _, ps := range [][]PluginSpec{
			{L(10, Fault{Kind: "hang"}), L(20, none), L(30, none)},
			{L(10, Fault{Kind: "exit", K: 3}), L(20, none), L(30, none)},
			{L(10, Fault{Kind: "close", When: "during"}), L(20, none), L(30, none)},
			{L(10, none), L(20, Fault{Kind: "exit"}), L(30, none), L(40, none)},
			{E(10, none), L(20, Fault{Kind: "exit", K: 1}), L(30, none)},
			{L(10, Fault{Kind: "hang"}), E(20, none), L(30, none)},
			{L(10, Fault{Kind: "exit"}), L(20, Fault{Kind: "close", When: "during"}), L(30, none), L(40, none)},
			{E(10, Fault{Kind: "cut", Dir: "p2r", K: 20}), L(20, none), L(30, Fault{Kind: "exit"}), L(40, none)},
			{L(10, Fault{Kind: "error", ErrText: "c07 veto by plugin 10", ErrForm: "status", ErrCode: 8, Again: true}), L(20, none)},
		} {
			c := mk(q.req, q.event, "", 0, false)
			c.Plugins = ps
			run(c)
		}
	}
	// plugins that answer and then leave: the handler's error (whatever its form) or the normal
	// answer has been written out completely, then the plugin stops its stub, its end of the
	// connection is closed, or (launched) its process exits, 0..100 ms later. The answer stands.
	thenForms := []Fault{
		{Kind: "error", ErrText: "c07 veto by plugin 20", ErrForm: "plain"},
		{Kind: "error", ErrText: "c07 veto by plugin 20: ttrpc: closed", ErrForm: "status", ErrCode: 8},
	}
	delays := []int{0, 1, 5, 20, 45, 100}
	leaveDelays := []int{0, 5, 45}
	if ev.Thorough() {
		thenForms = append(thenForms,
			Fault{Kind: "error", ErrText: "c07 veto by plugin 20", ErrForm: "status", ErrCode: 4},
			Fault{Kind: "error", ErrText: "c07 veto by plugin 20: EOF", ErrForm: "wrap", ErrSentinel: "ttrpc.ErrClosed"},
			Fault{Kind: "error", ErrForm: "bare", ErrSentinel: "io.ErrUnexpectedEOF"})
		leaveDelays = delays
	}
	for _, q := range reqs {
		for _, how := range []string{"stop", "peer"} {
			for _, d := range delays {
				for _, ft := range thenForms {
					c := mk(q.req, q.event, "", 0, false)
					ft.Then, ft.ThenMs = how, d
					c.Plugins[1].Fault = ft
					run(c)
				}
			}
			for _, d := range leaveDelays {
				c := mk(q.req, q.event, "", 0, false)
				c.Plugins[1].Fault = Fault{Kind: "leave", Then: how, ThenMs: d}
				c.Plugins[1].Big = d == 5
				run(c)
			}
		}
		for _, d := range []int{0, 20} {
			run(C07Case{Req: q.req, Event: q.event, Follow: q.req, FollowEvent: q.event, Plugins: []PluginSpec{
				L(10, Fault{Kind: "error", ErrText: "c07 veto by plugin 10", ErrForm: "status", ErrCode: 8, Then: "exit", ThenMs: d}), L(20, none), L(30, none)}})
			run(C07Case{Req: q.req, Event: q.event, Follow: q.req, FollowEvent: q.event, Plugins: []PluginSpec{
				L(10, none), L(20, Fault{Kind: "leave", Then: "exit", ThenMs: d}), L(30, none)}})
		}
	}
	// the late joiner: every kind of fault during its Configure and during its Synchronize, then
	// the first request, a healthy second joiner and the follow-up
	jfaults := []Fault{
		{Kind: "error", ErrText: "c07 joiner 20 refuses", ErrForm: "plain"},
		{Kind: "error", ErrText: "c07 joiner 20 refuses", ErrForm: "status", ErrCode: 4},
		{Kind: "hang"},
		{Kind: "close", When: "during"},
		{Kind: "cut", Dir: "p2r", K: 5},
		{Kind: "cut", Dir: "r2p", K: 12},
		{Kind: "undecodable", Level: "payload", Bytes: []byte{0x08}},
	}
	if ev.Thorough() {
		jfaults = append(jfaults,
			Fault{Kind: "error", ErrText: "c07 joiner 20 refuses: ttrpc: closed", ErrForm: "wrap", ErrSentinel: "ttrpc.ErrClosed"},
			Fault{Kind: "cut", Dir: "p2r", K: 20}, Fault{Kind: "cut", Dir: "r2p", K: 3, StallMs: 40},
			Fault{Kind: "wrongtype", Type: 3},
			Fault{Kind: "garbage", Level: "ttrpc", StreamSel: "zero", Type: 2, Bytes: []byte{1, 2, 3}, DeclLen: 3})
	}
	// ... and with a runtime whose SyncFn swallows the callback's error: a joiner whose initial
	// Synchronize failed over a connection that is still usable must not become a member either
	swallowed := []Fault{
		{Kind: "error", ErrText: "c07 joiner 20 refuses", ErrForm: "plain"},
		{Kind: "undecodable", Level: "payload", Bytes: []byte{0x08}},
		{Kind: "wrongtype", Type: 3},
	}
	if ev.Thorough() {
		swallowed = append(swallowed, Fault{Kind: "error", ErrText: "c07 joiner 20 refuses", ErrForm: "status", ErrCode: 4},
			Fault{Kind: "undecodable", Level: "frame", Bytes: []byte{0x0f}}, Fault{Kind: "hang"}, Fault{Kind: "cut", Dir: "p2r", K: 5})
	}
	for _, q := range reqs {
		for _, ft := range swallowed {
			run(C07Case{Req: q.req, Event: q.event, Follow: q.req, FollowEvent: q.event, SyncSwallow: true,
				Plugins: []PluginSpec{{Idx: 10, Fault: Fault{Kind: "none"}}, {Idx: 30, Fault: Fault{Kind: "none"}}},
				Joiner:  &JoinerSpec{Idx: 20, Idx2: 25, Phase: "synchronize", Fault: ft}})
		}
	}
	for _, q := range reqs {
		for _, phase := range []string{"synchronize", "configure"} {
			for _, ft := range jfaults {
				run(C07Case{Req: q.req, Event: q.event, Follow: q.req, FollowEvent: q.event,
					Plugins: []PluginSpec{{Idx: 10, Fault: Fault{Kind: "none"}}, {Idx: 30, Fault: Fault{Kind: "none"}}},
					Joiner:  &JoinerSpec{Idx: 20, Idx2: 25, Phase: phase, Fault: ft}})
			}
		}
	}
	// updates issued during the first request: from inside the handler of the plugin that is then
	// struck, and from a plugin that disconnects while a healthy one holds the request
	for _, q := range reqs {
		for _, ft := range []Fault{
			{Kind: "hang", UpdDuring: "handler"},
			{Kind: "close", When: "during", UpdDuring: "handler"},
			{Kind: "wrongtype", Type: 3, UpdDuring: "handler"},
			{Kind: "cut", Dir: "p2r", K: 20, UpdDuring: "handler"},
			{Kind: "error", ErrText: "c07 veto by plugin 20", ErrForm: "plain", UpdDuring: "handler"},
		} {
			c := mk(q.req, q.event, "", 0, false)
			c.Plugins[1].Fault = ft
			run(c)
		}
		for _, hold := range []int{50, 150} {
			for _, holder := range []int{10, 30} {
				c := mk(q.req, q.event, "", 0, false)
				c.Plugins[1].Fault = Fault{Kind: "updrop", HoldIdx: holder, HoldMs: hold}
				run(c)
			}
		}
	}
	// the runtime's own (pass-through) ttRPC options on the plugin connections: they must leave
	// everything as it is, in particular what depends on the request timeout and the send watchdog
	for _, q := range reqs {
		ros := []string{"client-interceptor", "client-chain", "server-interceptor", "client+server"}
		rfs := []Fault{
			{Kind: "hang"},
			{Kind: "cut", Dir: "r2p", K: 12, StallMs: -1},
			{Kind: "close", When: "during"},
			{Kind: "cut", Dir: "p2r", K: 20},
			{Kind: "error", ErrText: "c07 veto by plugin 20", ErrForm: "status", ErrCode: 4, Again: true},
		}
		if !ev.Thorough() {
			ros, rfs = ros[:2], rfs[:2] // the client-side options against the two faults that need the timeout
		}
		for _, ro := range ros {
			for _, ft := range rfs {
				c := mk(q.req, q.event, ft.Dir, ft.K, false)
				c.RtOpts = ro
				c.Plugins[1].Fault = ft
				if ft.StallMs < 0 {
					c.ReqSize = "1m"
				}
				run(c)
			}
			// two plugins running into the timeout, healthy ones between and behind them
			c := mk(q.req, q.event, "", 0, false)
			c.RtOpts = ro
			c.Plugins = []PluginSpec{{Idx: 10, Fault: Fault{Kind: "hang"}}, {Idx: 20, Fault: Fault{Kind: "none"}},
				{Idx: 30, Fault: Fault{Kind: "hang"}}, {Idx: 40, Fault: Fault{Kind: "none"}}}
			run(c)
		}
	}
	// a protocol break answered to each of the five relays (every relay has its own copy of the
	// "close the plugin, go on" code): wrong message type and undecodable response
	for _, q := range []rq{{"create", 0}, {"update", 0}, {"stop", 0}, {"updatepod", 0}, {"event", 9}} {
		for _, ft := range []Fault{{Kind: "wrongtype", Type: 3}, {Kind: "undecodable", Level: "payload", Bytes: []byte{0x08}}} {
			c := mk(q.req, q.event, "", 0, false)
			c.Plugins[1].Fault = ft
			run(c)
		}
	}
	// socket pressure from the plugin's own calls: it issues unsolicited updates, does not read
	// the answers (one large one, or several small ones) and then gets a small or a large request
	type press struct{ calls, kb int }
	presses := []press{{1, 300}, {6, 10}}
	pSizes := []string{""}
	pStalls := []int{-1, 40}
	if ev.Thorough() {
		presses = []press{{1, 300}, {2, 300}, {8, 10}, {8, 0}, {1, 0}}
		pSizes = []string{"", "256k", "1m"}
		pStalls = []int{-1, 40, 250}
	}
	for _, q := range reqs {
		for _, sz := range pSizes {
			for _, pr := range presses {
				for _, st := range pStalls {
					c := mk(q.req, q.event, "r2p", 12, false)
					c.ReqSize = sz
					c.Plugins[1].Fault.StallMs = st
					c.Plugins[1].Fault.PressCalls, c.Plugins[1].Fault.PressKB = pr.calls, pr.kb
					run(c)
				}
			}
		}
	}
	r.SetExtra("sweep_error_forms", len(forms))
	r.SetExtra("sweep_cases", n)
	r.SetExtra("sweep_offsets_small", small)
}
