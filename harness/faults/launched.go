package faults

// Pre-installed plugins: launched by the runtime itself from its plugin path
// (adaptation.WithPluginPath), connected over an inherited socket pair. They matter to C07
// because the runtime, and only for them, also owns the plugin's process: a dropped plugin is
// killed. The launched plugin is the binary cmd/c07plugin (LaunchedMain below), installed as
// <dir>/plugins/NN-c07p with its script in <dir>/conf/NN-c07p.conf (delivered by Configure).
// It answers with the same contributions as the in-process plugins and logs every handler
// entry as one JSON line (one write(2), O_APPEND) to <dir>/events.log.

import (
	"bufio"
	"context"
	"encoding/json"
	"fmt"
	"io"
	"net"
	"os"
	"os/exec"
	"path/filepath"
	"strconv"
	"sync"
	"syscall"
	"time"

	"github.com/containerd/nri/pkg/api"
	"github.com/containerd/nri/pkg/stub"
)

const launchedBase = "c07p"

// LaunchCfg is the script of one launched plugin.
type LaunchCfg struct {
	Rank  int    `json:"rank"`
	Big   bool   `json:"big"`
	Fault Fault  `json:"fault"` // none | hang | exit | close (during) | error
	Log   string `json:"log"`
}

type launchLine struct {
	Idx  int    `json:"idx"`
	Pid  int    `json:"pid"`
	Kind string `json:"kind"`
	Tag  string `json:"tag"`
	T    int64  `json:"t"` // unix nanoseconds
}

type launched struct {
	idx  int
	cfg  LaunchCfg
	conn *watchConn
}

func (l *launched) log(kind, tag string) {
	b, _ := json.Marshal(launchLine{Idx: l.idx, Pid: os.Getpid(), Kind: kind, Tag: tag, T: time.Now().UnixNano()})
	f, err := os.OpenFile(l.cfg.Log, os.O_WRONLY|os.O_APPEND|os.O_CREATE, 0o644)
	if err != nil {
		return
	}
	f.Write(append(b, '\n'))
	f.Close()
}

// enter mirrors fixture.enter for the launched plugin.
func (l *launched) enter(kind, tag string) error {
	l.log(kind, tag)
	ft := l.cfg.Fault
	if ft.Then == "exit" && tag == mainTag {
		// answers and exits ThenMs after the answer has been written out
		d := time.Duration(ft.ThenMs) * time.Millisecond
		l.conn.Arm(func() {
			go func() {
				time.Sleep(d)
				os.Exit(0)
			}()
		})
	}
	if ft.Kind == "error" && (tag == mainTag || (tag == followTag && ft.Again)) {
		err, _ := handlerError(ft)
		return err
	}
	if tag != mainTag {
		return nil
	}
	switch ft.Kind {
	case "hang":
		select {} // until the runtime kills the process
	case "exit":
		os.Exit(ft.K) // no reply; K is the exit status
	case "close":
		l.conn.Close() // the reply cannot be delivered; the process lingers
	}
	return nil
}

func (l *launched) Configure(_ context.Context, config, _, _ string) (api.EventMask, error) {
	if err := json.Unmarshal([]byte(config), &l.cfg); err != nil {
		return 0, fmt.Errorf("c07plugin: bad configuration: %w", err)
	}
	l.log("configure", "")
	return 0, nil
}

func (l *launched) CreateContainer(_ context.Context, pod *api.PodSandbox, ct *api.Container) (*api.ContainerAdjustment, []*api.ContainerUpdate, error) {
	tag := tagOf(pod, ct)
	if err := l.enter("create", tag); err != nil {
		return nil, nil, err
	}
	a, u := createContribution(l.idx, tag, l.cfg.Big)
	return a, u, nil
}

func (l *launched) UpdateContainer(_ context.Context, pod *api.PodSandbox, ct *api.Container, _ *api.LinuxResources) ([]*api.ContainerUpdate, error) {
	tag := tagOf(pod, ct)
	if err := l.enter("update", tag); err != nil {
		return nil, err
	}
	return []*api.ContainerUpdate{ownFieldUpdate(l.cfg.Rank, l.idx, tag), otherUpdate(l.idx, tag, l.cfg.Big)}, nil
}

func (l *launched) StopContainer(_ context.Context, pod *api.PodSandbox, ct *api.Container) ([]*api.ContainerUpdate, error) {
	tag := tagOf(pod, ct)
	if err := l.enter("stop", tag); err != nil {
		return nil, err
	}
	return []*api.ContainerUpdate{otherUpdate(l.idx, tag, l.cfg.Big)}, nil
}

func (l *launched) UpdatePodSandbox(_ context.Context, pod *api.PodSandbox, _, _ *api.LinuxResources) error {
	return l.enter("updatepod", tagOf(pod, nil))
}

func (l *launched) event(e api.Event, pod *api.PodSandbox, ct *api.Container) error {
	if pod != nil && pod.Id == "verif-probe-pod" {
		l.log("probe", "")
		return nil
	}
	return l.enter(fmt.Sprintf("event:%d", int32(e)), tagOf(pod, ct))
}

func (l *launched) RunPodSandbox(_ context.Context, p *api.PodSandbox) error {
	return l.event(api.Event_RUN_POD_SANDBOX, p, nil)
}
func (l *launched) StopPodSandbox(_ context.Context, p *api.PodSandbox) error {
	return l.event(api.Event_STOP_POD_SANDBOX, p, nil)
}
func (l *launched) RemovePodSandbox(_ context.Context, p *api.PodSandbox) error {
	return l.event(api.Event_REMOVE_POD_SANDBOX, p, nil)
}
func (l *launched) PostUpdatePodSandbox(_ context.Context, p *api.PodSandbox) error {
	return l.event(api.Event_POST_UPDATE_POD_SANDBOX, p, nil)
}
func (l *launched) StartContainer(_ context.Context, p *api.PodSandbox, c *api.Container) error {
	return l.event(api.Event_START_CONTAINER, p, c)
}
func (l *launched) RemoveContainer(_ context.Context, p *api.PodSandbox, c *api.Container) error {
	return l.event(api.Event_REMOVE_CONTAINER, p, c)
}
func (l *launched) PostCreateContainer(_ context.Context, p *api.PodSandbox, c *api.Container) error {
	return l.event(api.Event_POST_CREATE_CONTAINER, p, c)
}
func (l *launched) PostStartContainer(_ context.Context, p *api.PodSandbox, c *api.Container) error {
	return l.event(api.Event_POST_START_CONTAINER, p, c)
}
func (l *launched) PostUpdateContainer(_ context.Context, p *api.PodSandbox, c *api.Container) error {
	return l.event(api.Event_POST_UPDATE_CONTAINER, p, c)
}

// LaunchedMain is the main function of cmd/c07plugin.
func LaunchedMain() {
	// nothing may leak from a crashed or killed test run: the process never outlives this
	go func() {
		time.Sleep(45 * time.Second)
		os.Exit(0)
	}()
	idx, err := strconv.Atoi(os.Getenv(api.PluginIdxEnvVar))
	if err != nil {
		os.Exit(90)
	}
	fd, err := strconv.Atoi(os.Getenv(api.PluginSocketEnvVar))
	if err != nil {
		os.Exit(91)
	}
	file := os.NewFile(uintptr(fd), "nri")
	conn, err := net.FileConn(file)
	if err != nil {
		os.Exit(92)
	}
	file.Close()
	l := &launched{idx: idx, conn: &watchConn{Conn: conn}}
	st, err := stub.New(l, stub.WithConnection(l.conn), stub.WithOnClose(func() {}))
	if err != nil {
		os.Exit(93)
	}
	if err := st.Start(context.Background()); err != nil {
		os.Exit(94)
	}
	// whatever the runtime drops or stops it has to kill: the plugin never leaves by itself
	select {}
}

// ---- harness side ---------------------------------------------------------------------------

var (
	auxOnce sync.Once
	auxPath string
	auxErr  error
)

// auxBinary locates cmd/c07plugin: built by the driver into $VERIF_BIN, or (development runs
// with plain "go test") built here once.
func auxBinary() (string, error) {
	auxOnce.Do(func() {
		if bin := os.Getenv("VERIF_BIN"); bin != "" {
			p := filepath.Join(bin, "c07plugin")
			if _, err := os.Stat(p); err == nil {
				auxPath = p
				return
			}
		}
		dir, err := os.MkdirTemp("/tmp", "nvc07aux")
		if err != nil {
			auxErr = err
			return
		}
		out := filepath.Join(dir, "c07plugin")
		cmd := exec.Command("go", "build", "-o", out, "nriverif/cmd/c07plugin")
		if b, err := cmd.CombinedOutput(); err != nil {
			auxErr = fmt.Errorf("cannot build cmd/c07plugin: %v: %s", err, b)
			return
		}
		auxPath = out
	})
	return auxPath, auxErr
}

// installLaunched prepares <dir>/plugins and <dir>/conf for the launched plugins of a case.
func installLaunched(dir string, plugs []*plug) error {
	bin, err := auxBinary()
	if err != nil {
		return err
	}
	pdir, cdir := filepath.Join(dir, "plugins"), filepath.Join(dir, "conf")
	if err := os.MkdirAll(pdir, 0o755); err != nil {
		return err
	}
	if err := os.MkdirAll(cdir, 0o755); err != nil {
		return err
	}
	for _, pl := range plugs {
		if !pl.spec.Launched {
			continue
		}
		name := fmt.Sprintf("%02d-%s", pl.spec.Idx, launchedBase)
		dst := filepath.Join(pdir, name)
		if err := os.Link(bin, dst); err != nil {
			if err := copyFile(bin, dst); err != nil {
				return err
			}
		}
		cfg, _ := json.Marshal(LaunchCfg{Rank: pl.rank, Big: pl.spec.Big, Fault: pl.spec.Fault, Log: filepath.Join(dir, "events.log")})
		if err := os.WriteFile(filepath.Join(cdir, name+".conf"), cfg, 0o644); err != nil {
			return err
		}
	}
	return nil
}

func copyFile(src, dst string) error {
	in, err := os.Open(src)
	if err != nil {
		return err
	}
	defer in.Close()
	out, err := os.OpenFile(dst, os.O_WRONLY|os.O_CREATE|os.O_TRUNC, 0o755)
	if err != nil {
		return err
	}
	if _, err := io.Copy(out, in); err != nil {
		out.Close()
		return err
	}
	return out.Close()
}

// readLaunchLog returns the lines the launched plugins have written so far.
func readLaunchLog(path string) []launchLine {
	f, err := os.Open(path)
	if err != nil {
		return nil
	}
	defer f.Close()
	var out []launchLine
	sc := bufio.NewScanner(f)
	sc.Buffer(make([]byte, 1<<16), 1<<20)
	for sc.Scan() {
		var l launchLine
		if json.Unmarshal(sc.Bytes(), &l) == nil {
			out = append(out, l)
		}
	}
	return out
}

func pidAlive(pid int) bool {
	if pid <= 0 {
		return false
	}
	// a killed child that its parent (the runtime, this process) has not reaped yet still
	// answers signal 0: look at its state
	b, err := os.ReadFile(fmt.Sprintf("/proc/%d/stat", pid))
	if err != nil {
		return false
	}
	for i := len(b) - 1; i >= 0; i-- {
		if b[i] == ')' {
			if i+2 < len(b) {
				return b[i+2] != 'Z' && b[i+2] != 'X'
			}
			break
		}
	}
	return syscall.Kill(pid, 0) == nil
}
