package faults

import (
	"fmt"
	"sort"

	"pgregory.net/rapid"

	"nriverif/ev"
)

// KnownD12 is the known-finding slug for D12: a connection that ends in the middle of a frame
// fails the request with "unexpected EOF" when the runtime's calling goroutine had not started to
// wait for the response yet (schedule dependent). When active, that outcome is counted, not reported.
const KnownD12 = "c07-truncated-frame-race"

// KnownD11 is the known-finding slug for D11 (undecodable response vetoes the request). When
// the driver lists it as active the generator does not produce that fault.
const KnownD11 = "c07-undecodable-response"

// C07Case is one generated case: a request through 2..5 plugins, some of them failing.
type C07Case struct {
	Req         string       `json:"req"`   // create | update | stop | updatepod | event
	Event       int32        `json:"event"` // api.Event number when Req == "event"
	Follow      string       `json:"follow"`
	FollowEvent int32        `json:"follow_event"`
	Plugins     []PluginSpec `json:"plugins"` // in registration order; invoked in Idx order
	// the caller's context of the request and of the follow-up: "" (context.Background()),
	// deadline (CtxDeadlineS seconds away, 30..60), values, cancel (never cancelled during the
	// call), values+deadline, cancel+deadline
	// size class of the request and of the follow-up: "" (a few hundred bytes), 256k, 1m, 3m = an
	// annotation value of that size on the container (on the pod for pod requests); the encoded
	// request stays below ttRPC's 4 MiB limit
	ReqSize      string `json:"req_size,omitempty"`
	FollowSize   string `json:"follow_size,omitempty"`
	Ctx          string `json:"ctx,omitempty"`
	FollowCtx    string `json:"follow_ctx,omitempty"`
	CtxDeadlineS int    `json:"ctx_deadline_s,omitempty"`
	// Joiner: a plugin that connects after the other plugins are up and fails during one of
	// its registration-time requests (Configure or Synchronize); after the first request a
	// second, healthy plugin (Idx2) joins and has to become active.
	Joiner *JoinerSpec `json:"joiner,omitempty"`
	// RtOpts: the ttRPC options the runtime itself passes to the adaptation
	// (adaptation.WithTTRPCOptions), all of them pass-through: "" (none) | client-interceptor
	// (WithUnaryClientInterceptor) | client-chain (WithChainUnaryClientInterceptor) |
	// server-interceptor (WithUnaryServerInterceptor) | client+server
	RtOpts string `json:"rt_opts,omitempty"`
	// SyncSwallow: the runtime's SyncFn calls the synchronization callback but does not pass its
	// error on (it logs it and returns nil, which the public API allows)
	SyncSwallow bool   `json:"sync_swallow,omitempty"`
	HookPoint   string `json:"hook_point,omitempty"`
	HookSleepUs int    `json:"hook_sleep_us,omitempty"`
}

// JoinerSpec: the late joiner (Idx) whose Fault strikes during Phase, and the healthy second
// joiner (Idx2). Fault kinds: error (any form), hang, close (inside the handler), cut (p2r:
// K bytes into the phase's response; r2p: K bytes into what the runtime sends next, armed when
// the connection is made (configure) or when the Configure handler returns (synchronize),
// optionally with a stall), wrongtype, undecodable, garbage.
type JoinerSpec struct {
	Idx   int    `json:"idx"`
	Idx2  int    `json:"idx2"`
	Phase string `json:"phase"` // configure | synchronize
	Fault Fault  `json:"fault"`
}

// PluginSpec describes one plugin of a case.
type PluginSpec struct {
	Idx   int   `json:"idx"` // 0..99, rendered as two digits; distinct within a case
	Big   bool  `json:"big,omitempty"`
	Fault Fault `json:"fault"`
	// Launched: a pre-installed plugin, started by the runtime from its plugin path (its own
	// process, cmd/c07plugin) instead of an in-process stub connecting to the socket. Faults of
	// a launched plugin: none, hang, exit (the process exits inside the handler, status K),
	// close (during), error.
	Launched bool `json:"launched,omitempty"`
}

// Fault is what goes wrong with a plugin during the main request. Kind:
//
//	none | cut | close | hang | error | wrongtype | undecodable | garbage | dying | exit | leave | updrop
type Fault struct {
	Kind string `json:"kind"`

	Dir string `json:"dir,omitempty"` // cut: "r2p" | "p2r"
	// cut: bytes let through after the request starts flowing. dying: the plugin had sent the
	// first K bytes (1..71) of a 72-byte frame of its own when it died on the request's arrival
	K int `json:"k,omitempty"`
	// cut, dir r2p: the peer stops reading at the cut point and closes only StallMs later
	// (0 = closes at once). -1 = never closes: the runtime has to give up on it after the
	// request timeout, whether its write of the request went through (small request) or not.
	StallMs int `json:"stall_ms,omitempty"`
	// cut, dir r2p: before the request the plugin issues PressCalls unsolicited UpdateContainers
	// requests, each answered with PressKB KiB of failed updates, and does not read the answers
	// (K then counts from the first response byte): socket pressure from the plugin's own calls
	PressCalls int `json:"press_calls,omitempty"`
	PressKB    int `json:"press_kb,omitempty"`

	When    string `json:"when,omitempty"`     // close: before | during | after
	DelayUs int    `json:"delay_us,omitempty"` // close before: pause between the close and the request
	Block   bool   `json:"block,omitempty"`    // close during: the handler never returns (until teardown)

	ErrText     string `json:"err_text,omitempty"`     // error: the handler's message
	ErrForm     string `json:"err_form,omitempty"`     // error: plain | wrap | bare | status (see errform.go)
	ErrCode     int    `json:"err_code,omitempty"`     // error, status form: gRPC code 1..16
	ErrSentinel string `json:"err_sentinel,omitempty"` // error, wrap/bare form: name of the wrapped/returned error
	Again       bool   `json:"again,omitempty"`        // error: the handler fails the follow-up request the same way

	Type  int    `json:"type,omitempty"`  // wrongtype, garbage(ttrpc): ttRPC message type byte
	Level string `json:"level,omitempty"` // undecodable: frame | payload ; garbage: trunk | mux | ttrpc
	Bytes []byte `json:"bytes,omitempty"` // undecodable body / garbage body

	// error and leave: having answered, the plugin leaves ThenMs ms after its response has been
	// written out completely. Then: "" (it stays) | "stop" (stub.Stop()) | "peer" (its end of
	// the connection is closed) | "exit" (launched plugins: the process exits).
	// Kind "leave" is a plugin that answers normally and then leaves.
	Then   string `json:"then,omitempty"`
	ThenMs int    `json:"then_ms,omitempty"`

	// UpdDuring "handler": the plugin issues an unsolicited UpdateContainers call from inside
	// its handler of the first request, before its fault strikes (the call waits behind the
	// request; the plugin is dropped with the update queued). Kinds hang, close (during), error,
	// cut p2r, wrongtype, undecodable.
	UpdDuring string `json:"upd_during,omitempty"`
	// Kind "updrop": while the healthy plugin HoldIdx holds the first request in its handler for
	// HoldMs (50..150), this plugin issues an unsolicited UpdateContainers call from a goroutine
	// of its own and, half-way through the hold, disconnects.
	HoldIdx int `json:"hold_idx,omitempty"`
	HoldMs  int `json:"hold_ms,omitempty"`

	ConnID    uint32 `json:"conn_id,omitempty"`
	DeclLen   uint32 `json:"decl_len,omitempty"`
	StreamSel string `json:"stream_sel,omitempty"`
	Flags     int    `json:"flags,omitempty"`
}

// the nine events relayed by Adaptation.StateChange
var stateEvents = []int32{1, 2, 3, 5, 6, 7, 9, 11, 13}

var eventNames = map[int32]string{
	1: "RunPodSandbox", 2: "StopPodSandbox", 3: "RemovePodSandbox", 5: "PostCreateContainer",
	6: "StartContainer", 7: "PostStartContainer", 9: "PostUpdateContainer", 11: "RemoveContainer",
	13: "PostUpdatePodSandbox",
}

func isPodEvent(e int32) bool { return e == 1 || e == 2 || e == 3 || e == 13 }

// byte sequences no protobuf parser accepts, whatever the message type
var badProto = [][]byte{
	{0xff, 0xff, 0xff, 0xff, 0xff, 0xff, 0xff, 0xff, 0xff, 0xff, 0xff}, // varint overflow in the first tag
	{0x0f},             // field 1, wire type 7
	{0x00},             // field number 0
	{0x0a, 0x05, 0x61}, // length-delimited field 1 running past the end
	{0x08},             // tag without a value
	{0x0b},             // start-group without end
}

func reqGen(t *rapid.T, label string) (string, int32) {
	k := rapid.SampledFrom([]string{"create", "create", "create", "update", "update", "stop", "stop", "updatepod", "event", "event", "event"}).Draw(t, label)
	var e int32
	if k == "event" {
		e = rapid.SampledFrom(stateEvents).Draw(t, label+"-event")
	}
	return k, e
}

func cutK(t *rapid.T) int {
	switch rapid.SampledFrom([]string{"near", "ttrpc", "mux", "near", "far", "ttrpc", "mux", "huge"}).Draw(t, "band") {
	case "mux":
		return rapid.IntRange(0, 7).Draw(t, "k")
	case "ttrpc":
		return rapid.IntRange(8, 17).Draw(t, "k")
	case "near":
		return rapid.IntRange(18, 90).Draw(t, "k")
	case "far":
		return rapid.IntRange(91, 600).Draw(t, "k")
	}
	return rapid.IntRange(601, 9000).Draw(t, "k")
}

func faultGen(t *rapid.T, idx int, slowLeft *int, big bool) Fault {
	kinds := []string{"cut", "close", "error", "dying", "cut", "leave", "undecodable", "hang", "wrongtype", "cut", "garbage", "close", "error",
		"cut", "undecodable", "dying", "wrongtype", "close", "cut", "hang", "garbage", "leave"}
	k := rapid.SampledFrom(kinds).Draw(t, "kind")
	if k == "undecodable" && ev.Known(KnownD11) {
		ev.Get("C07").AddExtra("excluded_"+KnownD11, 1)
		k = "wrongtype"
	}
	if k == "hang" || k == "garbage" {
		// at most two plugins per case may run into the request timeout
		if *slowLeft == 0 {
			k = "cut"
		} else {
			*slowLeft--
		}
	}
	f := Fault{Kind: k}
	switch k {
	case "cut":
		dirs := []string{"p2r", "p2r", "r2p"}
		if big {
			dirs = []string{"r2p", "p2r", "r2p"}
		}
		f.Dir = rapid.SampledFrom(dirs).Draw(t, "dir")
		f.K = cutK(t)
		if f.Dir == "r2p" {
			if big && rapid.IntRange(0, 2).Draw(t, "deep") > 0 {
				// somewhere inside a large request: before and behind what a socket buffer holds
				f.K = rapid.OneOf(rapid.IntRange(18, 300_000), rapid.IntRange(300_000, 3_400_000)).Draw(t, "k-deep")
			}
			f.StallMs = rapid.SampledFrom([]int{0, 20, -1, 1, 100, 0, -1, 5, 250}).Draw(t, "stall")
			if rapid.IntRange(0, 3).Draw(t, "press") == 0 {
				// socket pressure from the plugin's own calls; the peer stops reading early
				f.PressCalls = rapid.SampledFrom([]int{1, 4, 8, 2}).Draw(t, "press-calls")
				f.PressKB = rapid.SampledFrom([]int{300, 10, 0}).Draw(t, "press-kb")
				f.K = rapid.SampledFrom([]int{0, 12, 3, 40, 5000}).Draw(t, "press-k")
				f.StallMs = rapid.SampledFrom([]int{-1, 40, -1, 100, 5, -1, 250}).Draw(t, "press-stall")
			}
			if f.StallMs < 0 {
				// stops reading for good: costs one request timeout, like a hanging handler
				if *slowLeft == 0 {
					f.StallMs = 20
				} else {
					*slowLeft--
				}
			}
		}
	case "dying":
		f.K = rapid.IntRange(1, 71).Draw(t, "k")
	case "close":
		f.When = rapid.SampledFrom([]string{"before", "during", "during", "after"}).Draw(t, "when")
		switch f.When {
		case "before":
			f.DelayUs = rapid.SampledFrom([]int{0, 0, 100, 1000, 20000}).Draw(t, "delay")
		case "during":
			f.Block = rapid.Bool().Draw(t, "block")
		}
	case "error":
		f.ErrText = fmt.Sprintf("c07 veto by plugin %02d", idx)
		if x := rapid.SampledFrom(trickyTexts).Draw(t, "err-extra"); x != "" {
			if rapid.Bool().Draw(t, "err-extra-first") {
				f.ErrText = x + ": " + f.ErrText
			} else {
				f.ErrText += ": " + x
			}
		}
		f.ErrForm = rapid.SampledFrom([]string{"status", "plain", "wrap", "status", "bare", "status", "wrap"}).Draw(t, "err-form")
		switch f.ErrForm {
		case "status":
			f.ErrCode = rapid.SampledFrom([]int{8, 4, 1, 14, 13, 10, 2, 3, 5, 6, 7, 9, 11, 12, 15, 16}).Draw(t, "err-code")
		case "wrap", "bare":
			f.ErrSentinel = rapid.SampledFrom(sentinelNames).Draw(t, "err-sentinel")
		}
		f.Again = rapid.Bool().Draw(t, "err-again")
		if rapid.IntRange(0, 2).Draw(t, "err-then") == 0 {
			// vetoes and leaves
			f.Again = false
			f.Then = rapid.SampledFrom([]string{"stop", "peer"}).Draw(t, "then")
			f.ThenMs = rapid.SampledFrom(thenDelays).Draw(t, "then-ms")
		}
	case "leave":
		f.Then = rapid.SampledFrom([]string{"stop", "peer"}).Draw(t, "then")
		f.ThenMs = rapid.SampledFrom(thenDelays).Draw(t, "then-ms")
	case "wrongtype":
		f.Type = rapid.SampledFrom([]int{0, 1, 3, 4, 0x7f, 0xff}).Draw(t, "type")
	case "undecodable":
		f.Level = rapid.SampledFrom([]string{"frame", "payload"}).Draw(t, "level")
		i := rapid.IntRange(0, len(badProto)-1).Draw(t, "bad")
		f.Bytes = append([]byte{}, badProto[i]...)
		if i <= 2 { // rejected at the first tag: anything may follow
			f.Bytes = append(f.Bytes, rapid.SliceOfN(rapid.Byte(), 0, 24).Draw(t, "tail")...)
		}
	case "garbage":
		f.Level = rapid.SampledFrom([]string{"trunk", "mux", "ttrpc"}).Draw(t, "level")
		f.Bytes = rapid.SliceOfN(rapid.Byte(), 0, 64).Draw(t, "bytes")
		switch f.Level {
		case "trunk":
			f.ConnID = rapid.OneOf(rapid.SampledFrom([]uint32{0, 1, 2, 3, 0xffffffff}), rapid.Uint32()).Draw(t, "conn")
			n := uint32(len(f.Bytes))
			f.DeclLen = rapid.OneOf(
				rapid.SampledFrom([]uint32{n, n + 1, n + 10, 4096, 4<<20 + 10, 4<<20 + 11, MaxDeclaredLen}),
				rapid.Uint32Range(n, 1<<20),
			).Draw(t, "decl")
		case "ttrpc":
			n := uint32(len(f.Bytes))
			f.DeclLen = rapid.OneOf(
				rapid.SampledFrom([]uint32{n, n, n + 1, 0, 4 << 20, 4<<20 + 1, MaxDeclaredLen}),
				rapid.Uint32Range(0, 1<<20),
			).Draw(t, "decl")
			f.StreamSel = rapid.SampledFrom([]string{"zero", "even", "far", "active"}).Draw(t, "stream")
			f.Type = rapid.SampledFrom([]int{0, 1, 2, 3, 4, 0xff}).Draw(t, "type")
			f.Flags = rapid.IntRange(0, 255).Draw(t, "flags")
		}
	}
	return f
}

// joinerFaultGen draws what strikes the late joiner during its Configure or Synchronize.
func joinerFaultGen(t *rapid.T, idx int) Fault {
	k := rapid.SampledFrom([]string{"error", "cut", "hang", "close", "cut", "error", "undecodable", "wrongtype", "garbage", "cut"}).Draw(t, "jkind")
	f := Fault{Kind: k}
	switch k {
	case "error":
		f.ErrText = fmt.Sprintf("c07 joiner %02d refuses", idx)
		f.ErrForm = rapid.SampledFrom([]string{"plain", "status", "wrap", "status"}).Draw(t, "err-form")
		switch f.ErrForm {
		case "status":
			f.ErrCode = rapid.SampledFrom([]int{4, 8, 1, 14, 13, 2}).Draw(t, "err-code")
		case "wrap":
			f.ErrSentinel = rapid.SampledFrom(sentinelNames).Draw(t, "err-sentinel")
		}
	case "close":
		f.When = "during"
	case "cut":
		f.Dir = rapid.SampledFrom([]string{"p2r", "r2p", "p2r"}).Draw(t, "dir")
		f.K = rapid.SampledFrom([]int{0, 3, 8, 12, 17, 18, 25, 40, 200}).Draw(t, "k")
		if f.Dir == "r2p" {
			f.StallMs = rapid.SampledFrom([]int{0, 0, 20, 100}).Draw(t, "stall")
		}
	case "wrongtype":
		f.Type = rapid.SampledFrom([]int{3, 1, 0, 0xff}).Draw(t, "type")
	case "undecodable":
		f.Level = rapid.SampledFrom([]string{"payload", "frame"}).Draw(t, "level")
		f.Bytes = append([]byte{}, badProto[rapid.IntRange(0, len(badProto)-1).Draw(t, "bad")]...)
	case "garbage":
		f.Level = "ttrpc"
		f.StreamSel = rapid.SampledFrom([]string{"zero", "even", "far"}).Draw(t, "stream")
		f.Type = rapid.SampledFrom([]int{2, 3, 0}).Draw(t, "type")
		f.Bytes = rapid.SliceOfN(rapid.Byte(), 0, 32).Draw(t, "bytes")
		f.DeclLen = uint32(len(f.Bytes))
	}
	return f
}

var thenDelays = []int{0, 5, 1, 20, 45, 100}

// launchedFaultGen draws what goes wrong with a pre-installed plugin: only what a process of
// its own can do by itself (nothing sits between it and the runtime).
func launchedFaultGen(t *rapid.T, idx int, slowLeft *int) Fault {
	k := rapid.SampledFrom([]string{"exit", "hang", "close", "leave", "error", "exit", "hang", "close", "error"}).Draw(t, "lkind")
	if k == "hang" {
		if *slowLeft == 0 {
			k = "exit"
		} else {
			*slowLeft--
		}
	}
	f := Fault{Kind: k}
	switch k {
	case "exit":
		f.K = rapid.SampledFrom([]int{0, 1, 3}).Draw(t, "status")
	case "close":
		f.When = "during"
	case "error":
		f.ErrText = fmt.Sprintf("c07 veto by plugin %02d", idx)
		f.ErrForm = rapid.SampledFrom([]string{"plain", "status"}).Draw(t, "err-form")
		if f.ErrForm == "status" {
			f.ErrCode = rapid.SampledFrom([]int{8, 4, 14, 2}).Draw(t, "err-code")
		}
		f.Again = rapid.Bool().Draw(t, "err-again")
		if rapid.Bool().Draw(t, "err-then") {
			f.Again = false
			f.Then = "exit"
			f.ThenMs = rapid.SampledFrom(thenDelays).Draw(t, "then-ms")
		}
	case "leave":
		f.Then = "exit"
		f.ThenMs = rapid.SampledFrom(thenDelays).Draw(t, "then-ms")
	}
	return f
}

func genC07(t *rapid.T) C07Case {
	var c C07Case
	c.Req, c.Event = reqGen(t, "req")
	c.Follow, c.FollowEvent = reqGen(t, "follow")
	ctxKinds := []string{"deadline", "", "values", "cancel", "values+deadline", "", "cancel+deadline", "deadline"}
	c.Ctx = rapid.SampledFrom(ctxKinds).Draw(t, "ctx")
	c.FollowCtx = rapid.SampledFrom(ctxKinds).Draw(t, "follow-ctx")
	c.CtxDeadlineS = rapid.IntRange(30, 60).Draw(t, "ctx-deadline")
	sizes := []string{"", "1m", "", "256k", "", "3m", "", ""}
	c.RtOpts = rapid.SampledFrom([]string{"", "", "", "client-interceptor", "", "", "client-chain", "", "", "server-interceptor", "", "", "client+server", "", "", ""}).Draw(t, "rt-opts")
	c.ReqSize = rapid.SampledFrom(sizes).Draw(t, "req-size")
	c.FollowSize = rapid.SampledFrom([]string{"", "", "", "1m", "", "", "256k", "3m"}).Draw(t, "follow-size")
	n := rapid.SampledFrom([]int{2, 3, 3, 4, 4, 5}).Draw(t, "plugins")
	withJoiner := rapid.IntRange(0, 5).Draw(t, "joiner") == 0
	if withJoiner && n > 3 {
		n = 3 // the two joiners take two of the five places
	}
	var idx []int
	if withJoiner {
		all := rapid.SliceOfNDistinct(rapid.IntRange(0, 99), n+2, n+2, rapid.ID[int]).Draw(t, "indices+joiners")
		idx = all[:n]
		c.Joiner = &JoinerSpec{Idx: all[n], Idx2: all[n+1]}
	} else {
		idx = rapid.SliceOfNDistinct(rapid.IntRange(0, 99), n, n, rapid.ID[int]).Draw(t, "indices")
	}
	nf := rapid.SampledFrom([]int{1, 1, 2, 1, 1, 2, 1, 2, 3, 1, 2, 0}).Draw(t, "nfaults")
	if nf > n {
		nf = n
	}
	// which plugins (by rank in invocation order) fail: biased towards early positions so that
	// healthy plugins run after them
	ranks := rapid.SliceOfNDistinct(rapid.IntRange(0, n-1), nf, nf, rapid.ID[int]).Draw(t, "faulty")
	sorted := append([]int{}, idx...)
	sort.Ints(sorted)
	faultyIdx := map[int]bool{}
	for _, r := range ranks {
		if r == n-1 && n > 1 && rapid.IntRange(0, 2).Draw(t, "pull") > 0 {
			r = rapid.IntRange(0, n-2).Draw(t, "earlier")
		}
		faultyIdx[sorted[r]] = true
	}
	slow := 2
	// a modest share of the cases has pre-installed plugins: all of them, or a drawn subset
	launchMode := rapid.SampledFrom([]string{"", "", "all", "", "", "mixed", "", "", "", ""}).Draw(t, "launched")
	for _, i := range idx {
		ps := PluginSpec{Idx: i, Fault: Fault{Kind: "none"}}
		ps.Big = rapid.IntRange(0, 7).Draw(t, "big") == 0
		ps.Launched = launchMode == "all" || (launchMode == "mixed" && rapid.Bool().Draw(t, "launch"))
		if faultyIdx[i] {
			if ps.Launched {
				ps.Fault = launchedFaultGen(t, i, &slow)
			} else {
				ps.Fault = faultGen(t, i, &slow, c.ReqSize != "")
			}
		}
		c.Plugins = append(c.Plugins, ps)
	}
	// updates issued during the first request
	var holders []int
	for _, ps := range c.Plugins {
		if !ps.Launched && ps.Fault.Kind == "none" {
			holders = append(holders, ps.Idx)
		}
	}
	for i := range c.Plugins {
		ps := &c.Plugins[i]
		if ps.Launched {
			continue
		}
		ft := &ps.Fault
		eligible := ft.Kind == "hang" || ft.Kind == "wrongtype" || ft.Kind == "undecodable" || (ft.Kind == "error" && ft.Then == "") ||
			(ft.Kind == "close" && ft.When == "during") || (ft.Kind == "cut" && ft.Dir == "p2r")
		switch d := rapid.IntRange(0, 3).Draw(t, "upd-during"); {
		case eligible && d == 0:
			ft.UpdDuring = "handler"
		case eligible && d == 1 && len(holders) > 0 && ft.Kind != "hang" && ft.Kind != "error":
			// instead: disconnects with an update queued while a healthy plugin holds the request
			*ft = Fault{Kind: "updrop", HoldIdx: rapid.SampledFrom(holders).Draw(t, "holder"),
				HoldMs: rapid.SampledFrom([]int{50, 150, 100}).Draw(t, "hold-ms")}
			holders = nil // one per case
		}
	}
	if c.Joiner != nil {
		c.Joiner.Phase = rapid.SampledFrom([]string{"synchronize", "configure", "synchronize"}).Draw(t, "join-phase")
		c.Joiner.Fault = joinerFaultGen(t, c.Joiner.Idx)
		c.SyncSwallow = rapid.Bool().Draw(t, "sync-swallow")
	}
	if rapid.IntRange(0, 3).Draw(t, "hook") == 0 {
		c.HookPoint = rapid.SampledFrom([]string{"mux.write.payload", "mux.conn.read", "mux.close", "mux.reader.queue"}).Draw(t, "hook-point")
		c.HookSleepUs = rapid.SampledFrom([]int{50, 200, 1000}).Draw(t, "hook-sleep")
	}
	return c
}
