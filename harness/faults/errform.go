package faults

import (
	"context"
	"errors"
	"fmt"
	"io"
	"net"
	"os"
	"syscall"

	"github.com/containerd/ttrpc"
	"google.golang.org/grpc/codes"
	"google.golang.org/grpc/status"
	"google.golang.org/protobuf/proto"
)

// The error a handler returns deliberately has a form besides its text. Forms:
//
//	plain   errors.New(text)
//	wrap    fmt.Errorf("<text>: %w", sentinel)   (the sentinel's text is appended)
//	bare    the sentinel itself (its text is all the runtime can be shown)
//	status  status.Error(codes.Code(ErrCode), text), ErrCode 1..16
//
// The sentinels are the errors the runtime uses to recognise a broken connection or protocol
// when they come from its own transport; coming back from a plugin's handler they are just the
// plugin's answer.
var sentinels = map[string]error{
	"ttrpc.ErrClosed":          ttrpc.ErrClosed,
	"ttrpc.ErrServerClosed":    ttrpc.ErrServerClosed,
	"ttrpc.ErrProtocol":        ttrpc.ErrProtocol,
	"ttrpc.ErrStreamClosed":    ttrpc.ErrStreamClosed,
	"ttrpc.Oversized":          ttrpc.OversizedMessageError(5 << 20),
	"context.DeadlineExceeded": context.DeadlineExceeded,
	"context.Canceled":         context.Canceled,
	"io.EOF":                   io.EOF,
	"io.ErrUnexpectedEOF":      io.ErrUnexpectedEOF,
	"io.ErrClosedPipe":         io.ErrClosedPipe,
	"net.ErrClosed":            net.ErrClosed,
	"os.ErrNotExist":           os.ErrNotExist,
	"os.ErrDeadlineExceeded":   os.ErrDeadlineExceeded,
	"syscall.EPIPE":            syscall.EPIPE,
	"syscall.ECONNRESET":       syscall.ECONNRESET,
	"syscall.ENOMEM":           syscall.ENOMEM,
	"proto.Error":              proto.Error,
}

var sentinelNames = []string{
	"context.DeadlineExceeded", "ttrpc.ErrClosed", "io.ErrUnexpectedEOF", "ttrpc.ErrProtocol", "proto.Error", "ttrpc.Oversized",
	"context.Canceled", "io.EOF", "ttrpc.ErrServerClosed", "syscall.EPIPE", "syscall.ECONNRESET", "net.ErrClosed",
	"ttrpc.ErrStreamClosed", "io.ErrClosedPipe", "os.ErrNotExist", "os.ErrDeadlineExceeded", "syscall.ENOMEM",
}

// texts of transport failures, to be embedded in a handler's own message
var trickyTexts = []string{
	"", "ttrpc: closed", "context deadline exceeded", "EOF", "unexpected EOF", "protocol error",
	"proto: cannot parse invalid wire-format data", "use of closed network connection", "write unix @->/run/x.sock: broken pipe",
	"context canceled", "ttrpc: server closed", "message length 5242880 exceed maximum message size of 4194304",
	"connection reset by peer", "cannot allocate memory",
}

// handlerError builds the error a vetoing handler returns, and the text the caller must be
// shown (a substring of the request's error).
func handlerError(ft Fault) (error, string) {
	text := ft.ErrText
	switch ft.ErrForm {
	case "status":
		c := codes.Code(ft.ErrCode)
		if c == codes.OK || c > codes.Unauthenticated {
			c = codes.Unknown
		}
		return status.Error(c, text), text
	case "wrap":
		if s, ok := sentinels[ft.ErrSentinel]; ok {
			return fmt.Errorf("%s: %w", text, s), text
		}
	case "bare":
		if s, ok := sentinels[ft.ErrSentinel]; ok {
			return s, s.Error()
		}
	}
	return errors.New(text), text
}

func errClass(ft Fault) string {
	switch ft.ErrForm {
	case "status":
		return "error:status:" + codes.Code(ft.ErrCode).String()
	case "wrap", "bare":
		return "error:" + ft.ErrForm + ":" + ft.ErrSentinel
	}
	return "error:plain"
}
