package syncsplit

import (
	"context"
	"errors"
	"fmt"
	"io"
	"net"
	"os"
	"syscall"

	"github.com/containerd/ttrpc"
	"google.golang.org/grpc/codes"
	"google.golang.org/grpc/status"
	"google.golang.org/protobuf/proto"
	"pgregory.net/rapid"
)

// A failing Synchronize handler: "registration fails cleanly" - the handler was invoked
// exactly once (with the complete state), the plugin is not activated - whatever the FORM of
// the error the handler returns. Forms (the same 49 the other engines draw): a gRPC status of
// each code 1..16, a transport-looking sentinel bare or wrapped, a plain error.

// ErrPlan is the error a round's Synchronize handler returns.
type ErrPlan struct {
	Form     string `json:"form"` // status | wrap | bare | plain
	Code     int    `json:"code,omitempty"`
	Sentinel string `json:"sentinel,omitempty"`
	Text     string `json:"text,omitempty"`
	// Once: only the first invocation of the round fails; a later one - should the runtime
	// cause one - succeeds. Otherwise every invocation fails.
	Once bool `json:"once,omitempty"`
}

var errSentinels = map[string]error{
	"context.DeadlineExceeded": context.DeadlineExceeded,
	"context.Canceled":         context.Canceled,
	"io.EOF":                   io.EOF,
	"io.ErrUnexpectedEOF":      io.ErrUnexpectedEOF,
	"io.ErrClosedPipe":         io.ErrClosedPipe,
	"ttrpc.ErrClosed":          ttrpc.ErrClosed,
	"ttrpc.ErrServerClosed":    ttrpc.ErrServerClosed,
	"ttrpc.ErrProtocol":        ttrpc.ErrProtocol,
	"ttrpc.ErrStreamClosed":    ttrpc.ErrStreamClosed,
	"ttrpc.Oversized":          ttrpc.OversizedMessageError(5 << 20),
	"proto.Error":              proto.Error,
	"net.ErrClosed":            net.ErrClosed,
	"os.ErrDeadlineExceeded":   os.ErrDeadlineExceeded,
	"syscall.EPIPE":            syscall.EPIPE,
	"syscall.ECONNRESET":       syscall.ECONNRESET,
	"syscall.ENOMEM":           syscall.ENOMEM,
}

var errSentinelNames = []string{
	"ttrpc.Oversized", "context.DeadlineExceeded", "ttrpc.ErrClosed", "io.ErrUnexpectedEOF", "proto.Error", "context.Canceled",
	"io.EOF", "ttrpc.ErrProtocol", "ttrpc.ErrServerClosed", "ttrpc.ErrStreamClosed", "io.ErrClosedPipe", "net.ErrClosed",
	"os.ErrDeadlineExceeded", "syscall.EPIPE", "syscall.ECONNRESET", "syscall.ENOMEM",
}

var errTexts = []string{
	"cannot place the existing containers", "", "resource exhausted", "message length 5242880 exceed maximum message size of 4194304",
	"ttrpc: closed", "context deadline exceeded", "ünïcödé ✗", "%s %d",
}

func (e *ErrPlan) valid() bool {
	switch e.Form {
	case "status":
		return e.Code >= 1 && e.Code <= 16
	case "wrap", "bare":
		_, ok := errSentinels[e.Sentinel]
		return ok
	case "plain":
		return true
	}
	return false
}

func (e *ErrPlan) build() error {
	switch e.Form {
	case "status":
		return status.Error(codes.Code(e.Code), e.Text)
	case "wrap":
		return fmt.Errorf("%s: %w", e.Text, errSentinels[e.Sentinel])
	case "bare":
		return errSentinels[e.Sentinel]
	}
	return errors.New(e.Text)
}

func (e *ErrPlan) class() string {
	switch e.Form {
	case "status":
		return "status:" + codes.Code(e.Code).String()
	case "wrap", "bare":
		return e.Form + ":" + e.Sentinel
	}
	return "plain"
}

// genErrPlan: status 3/8, wrap 2/8, bare 2/8, plain 1/8 (fair coins); within "status" one draw in four
// is ResourceExhausted (the code the sender's own oversize errors carry), the rest uniform.
func genErrPlan(t *rapid.T) *ErrPlan {
	e := &ErrPlan{Text: errTexts[coin(t, "herr-text", 3)%len(errTexts)], Once: rapid.Bool().Draw(t, "herr-once")}
	switch coin(t, "herr-form", 3) {
	case 0, 1, 2:
		e.Form = "status"
		e.Code = 1 + coin(t, "herr-code", 4)%16
		if coin(t, "herr-re", 2) == 0 {
			e.Code = int(codes.ResourceExhausted)
		}
	case 3, 4:
		e.Form, e.Sentinel = "wrap", errSentinelNames[coin(t, "herr-sentinel", 4)%len(errSentinelNames)]
	case 5, 6:
		e.Form, e.Sentinel = "bare", errSentinelNames[coin(t, "herr-sentinel", 4)%len(errSentinelNames)]
	default:
		e.Form = "plain"
	}
	return e
}
