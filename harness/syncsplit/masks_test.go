package syncsplit

import (
	"context"
	"fmt"
	"math/bits"
	"time"

	"github.com/containerd/nri/pkg/api"
	"pgregory.net/rapid"

	"nriverif/fx"
)

// The registering plugin's event subscription is part of every round: Synchronize is not an
// event, so whatever the plugin subscribes to, its handler gets exactly the runtime's pods
// and containers. The mask is what the plugin's Configure handler returns (0 = everything).

func bit(e api.Event) api.EventMask { return api.EventMask(1) << (e - 1) }

var (
	podEventMask = bit(api.Event_RUN_POD_SANDBOX) | bit(api.Event_STOP_POD_SANDBOX) | bit(api.Event_REMOVE_POD_SANDBOX) |
		bit(api.Event_UPDATE_POD_SANDBOX) | bit(api.Event_POST_UPDATE_POD_SANDBOX)
	ctrEventMask    = api.ValidEvents &^ podEventMask
	removeCtrMask   = bit(api.Event_REMOVE_CONTAINER)
	allEvents       = []api.Event{1, 2, 3, 4, 5, 6, 7, 8, 9, 10, 11, 12, 13}
	probePreference = []api.Event{3, 1, 2, 13, 11, 5, 6, 7, 9, 4, 8, 10, 12} // cheap state changes first
)

// coin draws n fair bits (rapid's integer generators favour small values; Bool does not).
func coin(t *rapid.T, label string, n int) int {
	v := 0
	for i := 0; i < n; i++ {
		v <<= 1
		if rapid.Bool().Draw(t, label) {
			v |= 1
		}
	}
	return v
}

func subset(t *rapid.T, label string, of api.EventMask) api.EventMask {
	var m api.EventMask
	for _, e := range allEvents {
		if of&bit(e) != 0 && rapid.Bool().Draw(t, label) {
			m |= bit(e)
		}
	}
	return m
}

// genMask draws the subscription: eight equally likely families.
func genMask(t *rapid.T) int {
	var m api.EventMask
	switch coin(t, "mask-family", 3) {
	case 0: // everything
		m = 0
	case 1: // one event
		m = bit(allEvents[coin(t, "mask-event", 4)%len(allEvents)])
	case 2:
		m = podEventMask
	case 3:
		m = ctrEventMask
	case 4:
		m = removeCtrMask
	case 5:
		m = removeCtrMask | podEventMask
	case 6: // any subset
		m = subset(t, "mask-bit", api.ValidEvents)
	default: // any subset of the pod events and RemoveContainer
		m = subset(t, "mask-bit", podEventMask|removeCtrMask)
	}
	return int(m)
}

func maskClasses(mask int) []string {
	m := api.EventMask(mask)
	if m == 0 || m == api.ValidEvents {
		return []string{"mask:all"}
	}
	var out []string
	switch {
	case bits.OnesCount32(uint32(m)) == 1:
		out = append(out, "mask:single-event")
	case m&^podEventMask == 0:
		out = append(out, "mask:pod-events-only")
	case m&^ctrEventMask == 0:
		out = append(out, "mask:container-events-only")
	default:
		out = append(out, "mask:mixed")
	}
	if m == removeCtrMask {
		out = append(out, "mask:remove-container-only")
	}
	if m&ctrEventMask == 0 {
		out = append(out, "mask:no-container-event")
	}
	if m&removeCtrMask != 0 && m&(ctrEventMask&^removeCtrMask) == 0 {
		out = append(out, "mask:remove-container-as-only-container-event")
	}
	return out
}

// probeEvent picks an event the plugin is subscribed to; activity is observed through it.
func probeEvent(mask int) api.Event {
	m := api.EventMask(mask)
	if m == 0 {
		m = api.ValidEvents
	}
	for _, e := range probePreference {
		if m&bit(e) != 0 {
			return e
		}
	}
	return api.Event_REMOVE_POD_SANDBOX
}

// probe raises one event of the given kind for the fixture's probe pod.
func (f *fixture) probe(e api.Event) error {
	ctx := context.Background()
	pod := &api.PodSandbox{Id: fx.ProbePodID}
	ctr := &api.Container{Id: "verif-probe-ctr", PodSandboxId: fx.ProbePodID}
	evt := &api.StateChangeEvent{Pod: pod, Container: ctr}
	a := f.r.A
	var err error
	switch e {
	case api.Event_RUN_POD_SANDBOX:
		err = a.RunPodSandbox(ctx, evt)
	case api.Event_STOP_POD_SANDBOX:
		err = a.StopPodSandbox(ctx, evt)
	case api.Event_REMOVE_POD_SANDBOX:
		err = a.RemovePodSandbox(ctx, evt)
	case api.Event_POST_UPDATE_POD_SANDBOX:
		err = a.PostUpdatePodSandbox(ctx, evt)
	case api.Event_POST_CREATE_CONTAINER:
		err = a.PostCreateContainer(ctx, evt)
	case api.Event_START_CONTAINER:
		err = a.StartContainer(ctx, evt)
	case api.Event_POST_START_CONTAINER:
		err = a.PostStartContainer(ctx, evt)
	case api.Event_POST_UPDATE_CONTAINER:
		err = a.PostUpdateContainer(ctx, evt)
	case api.Event_REMOVE_CONTAINER:
		err = a.RemoveContainer(ctx, evt)
	case api.Event_CREATE_CONTAINER:
		_, err = a.CreateContainer(ctx, &api.CreateContainerRequest{Pod: pod, Container: ctr})
	case api.Event_UPDATE_CONTAINER:
		_, err = a.UpdateContainer(ctx, &api.UpdateContainerRequest{Pod: pod, Container: ctr, LinuxResources: &api.LinuxResources{}})
	case api.Event_STOP_CONTAINER:
		_, err = a.StopContainer(ctx, &api.StopContainerRequest{Pod: pod, Container: ctr})
	case api.Event_UPDATE_POD_SANDBOX:
		_, err = a.UpdatePodSandbox(ctx, &api.UpdatePodSandboxRequest{Pod: pod})
	default:
		err = fmt.Errorf("no probe for event %v", e)
	}
	return err
}

// waitActive probes with event e until the named plugin has seen a probe raised after the
// call began, or the timeout expires.
func (f *fixture) waitActive(e api.Event, name string, timeout time.Duration) error {
	base := f.w.Count(name)
	deadline := time.Now().Add(timeout)
	for {
		if err := f.probe(e); err != nil {
			return fmt.Errorf("probe (%v) failed: %w", e, err)
		}
		if f.w.Count(name) > base {
			return nil
		}
		if time.Now().After(deadline) {
			return fmt.Errorf("plugin %s not active after %v (probe event %v)", name, timeout, e)
		}
		time.Sleep(time.Millisecond)
	}
}

// seeProbes routes every handler of a plugin to the activity watcher for probe pods.
func seeProbes(p *fx.Plugin, seen func()) {
	see := func(pod *api.PodSandbox) {
		if fx.IsProbe(pod) {
			seen()
		}
	}
	p.OnEvent = func(_ context.Context, _ api.Event, pod *api.PodSandbox, _ *api.Container) error {
		see(pod)
		return nil
	}
	p.OnCreate = func(_ context.Context, pod *api.PodSandbox, _ *api.Container) (*api.ContainerAdjustment, []*api.ContainerUpdate, error) {
		see(pod)
		return nil, nil, nil
	}
	p.OnUpdate = func(_ context.Context, pod *api.PodSandbox, _ *api.Container, _ *api.LinuxResources) ([]*api.ContainerUpdate, error) {
		see(pod)
		return nil, nil
	}
	p.OnStop = func(_ context.Context, pod *api.PodSandbox, _ *api.Container) ([]*api.ContainerUpdate, error) {
		see(pod)
		return nil, nil
	}
	p.OnUpdatePod = func(_ context.Context, pod *api.PodSandbox, _, _ *api.LinuxResources) error {
		see(pod)
		return nil
	}
}
