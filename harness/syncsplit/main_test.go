// Package syncsplit holds the check for property C09: synchronization delivers the
// runtime's complete state however it must be split.
//
// The code under test is the sender in pkg/adaptation/plugin.go (synchronize,
// recalcObjsPerSyncMsg), the receiver in pkg/stub/stub.go (Synchronize, collectSync,
// deliverSync) and the accept loop of pkg/adaptation/adaptation.go (no activation after a
// failed sync). Everything is driven through the public API: an in-process Adaptation on a
// real unix socket (fx.Runtime) and stub based plugins (fx.Plugin).
package syncsplit

import (
	"context"
	"errors"
	"fmt"
	"os"
	"runtime/debug"
	"strings"
	"sync"
	"testing"
	"time"

	"github.com/containerd/nri/pkg/adaptation"
	"github.com/containerd/nri/pkg/api"

	"nriverif/fx"
)

// reqTimeout is the (process-wide) plugin request timeout. synchronize() applies it to the
// whole, possibly split, transfer. The property has no time clause, so the timeout is set
// far above the measured cost of the largest state (40 MB: 0.2-0.4 s) and a transfer that
// ran into it without the sender visibly spinning is treated as overload, not as a
// violation (see judgeTimeout).
const reqTimeout = 20 * time.Second

func TestMain(m *testing.M) {
	adaptation.SetPluginRequestTimeout(reqTimeout)
	// registration (handshake) is not what this property is about: keep its timeout out of
	// the way on a loaded machine.
	adaptation.SetPluginRegistrationTimeout(reqTimeout)
	installHooks()
	code := m.Run()
	fixMu.Lock()
	if fix != nil && !fix.dead {
		fix.r.Stop()
	}
	fixMu.Unlock()
	os.Exit(code)
}

// slot describes the registration the fixture expects next and receives what the runtime's
// sync callback saw for it.
type slot struct {
	pods   []*api.PodSandbox
	ctrs   []*api.Container
	rtFail bool // the runtime itself fails the synchronization after the callback returned
	done   chan struct{}

	mu      sync.Mutex
	cancel  context.CancelFunc
	aborted bool

	// results, valid after done is closed
	returned bool // the NRI callback returned (did not panic)
	updates  []*api.ContainerUpdate
	err      error
	panicked string
	elapsed  time.Duration
}

// abort cancels the context of the registration's sync callback (see observer.stuck).
func (s *slot) abort() {
	s.mu.Lock()
	s.aborted = true
	if s.cancel != nil {
		s.cancel()
	}
	s.mu.Unlock()
}

var errRuntimeFails = errors.New("verif: runtime failed to apply the plugin's updates")

// fixture is the process-wide runtime. The adaptation keeps no state between registrations
// (apart from its plugin list, which every case cleans up), so it is shared by all cases.
type fixture struct {
	r    *fx.Runtime
	w    *fx.ActiveWatcher
	mu   sync.Mutex
	cur  *slot
	dead bool
	// stray counts SyncFn invocations nobody asked for (other than Start()'s own).
	stray int
}

var (
	fixMu sync.Mutex
	fix   *fixture
	seq   int
)

func getFixture() (*fixture, error) {
	fixMu.Lock()
	defer fixMu.Unlock()
	if fix != nil && !fix.dead {
		return fix, nil
	}
	r, err := fx.NewRuntime()
	if err != nil {
		return nil, err
	}
	f := &fixture{r: r, w: &fx.ActiveWatcher{}}
	// Adaptation.Start() has already made its own SyncFn call (pre-installed plugins, none
	// here) through the default path; from now on every call belongs to an external plugin.
	r.SyncFn = f.syncFn
	fix = f
	return f, nil
}

func nextSeq() int {
	fixMu.Lock()
	defer fixMu.Unlock()
	seq++
	return seq
}

// abandon marks the fixture unusable (a registration never came back) and tries to stop
// it in the background.
func (f *fixture) abandon() {
	fixMu.Lock()
	f.dead = true
	fixMu.Unlock()
	go f.r.Stop()
}

func (f *fixture) expect(s *slot) {
	f.mu.Lock()
	f.cur = s
	f.mu.Unlock()
}

// syncFn is the runtime's SyncFn. It runs on the adaptation's accept goroutine: a panic in
// plugin.synchronize unwinds through here. It is recovered and recorded (the oracle turns
// it into "runtime crashed"); the accept loop survives only because of this recover.
func (f *fixture) syncFn(ctx context.Context, cb adaptation.SyncCB) (err error) {
	f.mu.Lock()
	s := f.cur
	f.cur = nil
	if s == nil {
		f.stray++
	}
	f.mu.Unlock()
	if s == nil {
		_, err := cb(ctx, nil, nil)
		return err
	}
	t0 := time.Now()
	defer func() {
		if p := recover(); p != nil {
			s.panicked = fmt.Sprintf("%v\n%s", p, shortStack(debug.Stack()))
			err = errors.New("verif: recovered a panic in the sync callback")
		}
		s.elapsed = time.Since(t0)
		close(s.done)
	}()
	cctx, cancel := context.WithCancel(ctx)
	defer cancel()
	s.mu.Lock()
	s.cancel = cancel
	if s.aborted {
		cancel()
	}
	s.mu.Unlock()
	u, e := cb(cctx, s.pods, s.ctrs)
	s.returned, s.updates, s.err = true, u, e
	if e == nil && s.rtFail {
		return errRuntimeFails
	}
	return e
}

// shortStack keeps the frames of the panicking goroutine that matter for a report.
func shortStack(b []byte) string {
	lines := strings.Split(string(b), "\n")
	var out []string
	for i := 0; i < len(lines) && len(out) < 12; i++ {
		l := lines[i]
		if strings.Contains(l, "/pkg/adaptation/") || strings.Contains(l, "adaptation.") {
			out = append(out, strings.TrimSpace(l))
		}
	}
	return strings.Join(out, "\n")
}
