package syncsplit

import (
	"context"
	"fmt"
	"math"
	"os"
	"runtime"
	"sort"
	"strings"
	"sync"
	"sync/atomic"
	"testing"
	"time"

	"github.com/containerd/nri/pkg/adaptation"
	"github.com/containerd/nri/pkg/api"
	"github.com/containerd/nri/pkg/stub"
	"github.com/containerd/nri/pkg/verifhook"
	"github.com/containerd/ttrpc"
	"google.golang.org/protobuf/proto"
	"pgregory.net/rapid"

	"nriverif/ev"
	"nriverif/fx"
)

// spinLimit: see observer.stuck.
const spinLimit = 2000

// noAbort disables the short cut for a sender that stopped making progress.
var noAbort = os.Getenv("VERIF_C09_NOABORT") == "1"

const (
	// msgMax is ttrpc's messageLengthMax: a request whose encoding is longer is refused on
	// the sending side with an OversizedMessageErr.
	msgMax = 4 << 20
	// margin is kept between "fits" in the oracle's classification and the real limit. It
	// covers the ttrpc request envelope (service and method name, timeout, payload header:
	// < 100 bytes) many times over; states closer to the limit than this fall into the
	// lenient class (c).
	margin = 64 << 10
	// minObjs mirrors minObjsPerMsg of recalcObjsPerSyncMsg: the sender never splits a
	// message that holds this many objects or fewer.
	minObjs = 8

	maxPods = 300
	maxCtrs = 2000
	// maxPad bounds one object's padding so that every object is transmissible on its own.
	maxPad = msgMax - 4096
	// maxTotal bounds the padding of a whole generated state; replayed cases may exceed it a
	// little (hand-written regress cases) but not without bound.
	maxTotal    = 40 << 20
	maxTotalAny = 48 << 20
)

// At gives one object an explicit padding size.
type At struct {
	I    int `json:"i"`
	Size int `json:"size"`
}

// ListPlan describes one of the two object lists by sizes only; the objects themselves
// are rebuilt from it (ids are "p0000".. / "c00000".., unique and ordered).
type ListPlan struct {
	N     int    `json:"n"`
	Dist  string `json:"dist"`           // label of the size distribution (histogram only)
	Base  int    `json:"base"`           // padding bytes of every object not listed in Over
	Over  []At   `json:"over,omitempty"` // explicit padding sizes, strictly increasing index
	Field int    `json:"field"`          // which field carries the padding (see build*)
}

// UpdPlan is one container update the plugin returns from Synchronize.
type UpdPlan struct {
	Ctr    int    `json:"ctr"` // index into the container list; out of range = unknown id
	Shares uint64 `json:"shares"`
	Mem    int64  `json:"mem"`
	Ignore bool   `json:"ignore"`
}

// Round is one registration of the plugin against a runtime holding the planned state.
type Round struct {
	Pods    ListPlan  `json:"pods"`
	Ctrs    ListPlan  `json:"ctrs"`
	Updates []UpdPlan `json:"updates,omitempty"`
	// RuntimeFails: the runtime's SyncFn reports failure after the plugin synchronized
	// (the transfer itself is still judged); the plugin must not be activated.
	RuntimeFails bool `json:"runtime_fails,omitempty"`
	// AbortAfter k > 0: the runtime gives up in the middle of a split transfer - the context
	// it passed to the NRI sync callback is cancelled once the stub has accepted the k-th
	// "more" chunk (before the reply to that chunk leaves the plugin, so no chunk is in
	// flight). Without effect when the transfer has fewer than k "more" chunks.
	AbortAfter int `json:"abort_after,omitempty"`
	// Mask is the event subscription the plugin's Configure handler returns in this round
	// (0 = everything). Synchronize is not an event: the oracle does not depend on it.
	Mask int `json:"mask,omitempty"`
	// HoldPrevClose (rounds after the first): where in this round the close notification of
	// the stub's PREVIOUS session is let through (see hold_test.go): "start", "first-request",
	// "after-chunk" (with HoldChunk = k: after the k-th accepted "more" chunk), "end".
	// Hooks build only; without hooks a round with a hold restarts the stub without settling.
	HoldPrevClose string `json:"hold_prev_close,omitempty"`
	HoldChunk     int    `json:"hold_chunk,omitempty"`
	// HandlerErr: the plugin's Synchronize handler fails in this round (errforms_test.go).
	HandlerErr *ErrPlan `json:"handler_err,omitempty"`
	// ReqTimeout: the plugin request timeout configured at the runtime while this round's
	// plugin registers and synchronizes (process-wide setting, restored afterwards):
	// "" = the harness's 20 s, "default" = the package default (2 s; raised to 20 s for states
	// above 8 MB, slowness is never judged), "1h", "100y", "max" = math.MaxInt64 ("no timeout").
	ReqTimeout string `json:"req_timeout,omitempty"`
}

var reqTimeouts = map[string]time.Duration{
	"":        reqTimeout,
	"default": adaptation.DefaultPluginRequestTimeout,
	"1h":      time.Hour,
	"100y":    100 * 365 * 24 * time.Hour,
	"max":     time.Duration(math.MaxInt64),
}

// maxRounds bounds the registrations of one case.
const maxRounds = 3

// C09Case is a history of 1..3 registrations (rounds) of ONE stub instance: the first round
// inline (the format of single-registration cases is unchanged), later rounds in Next. Each
// round has its own state; between rounds the session is ended (by the adaptation when the
// synchronization failed, else by Stop) and the same stub calls Start again.
type C09Case struct {
	Round
	Next []Round `json:"next,omitempty"`
}

func (l ListPlan) sizes(max int) ([]int, error) {
	if l.N < 0 || l.N > max {
		return nil, fmt.Errorf("count %d outside 0..%d", l.N, max)
	}
	if l.Base < 0 || l.Base > maxPad {
		return nil, fmt.Errorf("base size %d outside 0..%d", l.Base, maxPad)
	}
	out := make([]int, l.N)
	for i := range out {
		out[i] = l.Base
	}
	prev := -1
	for _, o := range l.Over {
		if o.I <= prev || o.I >= l.N {
			return nil, fmt.Errorf("override index %d out of order or range", o.I)
		}
		if o.Size < 0 || o.Size > maxPad {
			return nil, fmt.Errorf("object size %d outside 0..%d", o.Size, maxPad)
		}
		out[o.I] = o.Size
		prev = o.I
	}
	return out, nil
}

// padSrc is shared by all objects: padding strings are substrings (no allocation), rotated
// per object so that equal-sized neighbours differ in content.
var padSrc = func() string {
	b := make([]byte, msgMax+64)
	for i := range b {
		b[i] = 'a' + byte(i%26)
	}
	return string(b)
}()

func pad(i, n int) string { off := i % 26; return padSrc[off : off+n] }

func buildPods(l ListPlan, sz []int, tag string) []*api.PodSandbox {
	out := make([]*api.PodSandbox, len(sz))
	for i, n := range sz {
		p := &api.PodSandbox{
			Id:        fmt.Sprintf("%sp%04d", tag, i),
			Name:      fmt.Sprintf("pod-%d", i),
			Uid:       fmt.Sprintf("uid-%d", i),
			Namespace: "ns",
		}
		if n > 0 {
			switch l.Field % 2 {
			case 0:
				p.Annotations = map[string]string{"verif/pad": pad(i, n)}
			default:
				p.Labels = map[string]string{"pad": pad(i, n)}
			}
		}
		out[i] = p
	}
	return out
}

func buildCtrs(l ListPlan, sz []int, pods []*api.PodSandbox, tag string) []*api.Container {
	out := make([]*api.Container, len(sz))
	for i, n := range sz {
		c := &api.Container{
			Id:    fmt.Sprintf("%sc%05d", tag, i),
			Name:  fmt.Sprintf("ctr-%d", i),
			State: api.ContainerState_CONTAINER_RUNNING,
		}
		if len(pods) > 0 {
			c.PodSandboxId = pods[i%len(pods)].Id
		} else {
			c.PodSandboxId = "gone"
		}
		if n > 0 {
			switch l.Field % 4 {
			case 0:
				c.Annotations = map[string]string{"verif/pad": pad(i, n)}
			case 1:
				c.Labels = map[string]string{"pad": pad(i, n)}
			case 2:
				c.Env = []string{"HOME=/", "PAD=" + pad(i, n)}
			default:
				c.Args = []string{"sh", "-c", pad(i, n)}
			}
		}
		out[i] = c
	}
	return out
}

func buildUpdates(us []UpdPlan, ctrs []*api.Container) []*api.ContainerUpdate {
	var out []*api.ContainerUpdate
	for _, u := range us {
		id := fmt.Sprintf("unknown-%d", u.Ctr)
		if u.Ctr >= 0 && u.Ctr < len(ctrs) {
			id = ctrs[u.Ctr].Id
		}
		cu := &api.ContainerUpdate{ContainerId: id, IgnoreFailure: u.Ignore}
		cu.SetLinuxCPUShares(u.Shares)
		cu.SetLinuxMemoryLimit(u.Mem)
		out = append(out, cu)
	}
	return out
}

// ---------------------------------------------------------------------------------------
// classification

type shape struct {
	Class  string `json:"class"`        // a, b, c (x = an object does not fit alone: outside the domain)
	Whole  int    `json:"whole_bytes"`  // proto.Size of the unsplit request
	Worst  int    `json:"worst8_bytes"` // proto.Size of the largest request of <=8 consecutive pods + <=8 consecutive containers
	Single int    `json:"single_bytes"` // proto.Size of the largest single-object request
}

// worstRun returns the start of the run of min(k, len) consecutive elements with the
// largest total encoded size (encoded sizes are positive, so a longest run is a worst run).
func worstRun(sz []int, k int) (start, n int) {
	n = k
	if len(sz) < n {
		n = len(sz)
	}
	sum := 0
	for i := 0; i < n; i++ {
		sum += sz[i]
	}
	best, start := sum, 0
	for i := n; i < len(sz); i++ {
		sum += sz[i] - sz[i-n]
		if sum > best {
			best, start = sum, i-n+1
		}
	}
	return start, n
}

// classify sorts a state into the classes of DESIGN.md, with sizes taken from proto.Size on
// real api.SynchronizeRequest values.
func classify(pods []*api.PodSandbox, ctrs []*api.Container) shape {
	sh := shape{}
	sh.Whole = proto.Size(&api.SynchronizeRequest{Pods: pods, Containers: ctrs})
	psz := make([]int, len(pods))
	csz := make([]int, len(ctrs))
	pmax, cmax := -1, -1
	for i, p := range pods {
		psz[i] = proto.Size(p)
		if pmax < 0 || psz[i] > psz[pmax] {
			pmax = i
		}
	}
	for i, c := range ctrs {
		csz[i] = proto.Size(c)
		if cmax < 0 || csz[i] > csz[cmax] {
			cmax = i
		}
	}
	if pmax >= 0 {
		sh.Single = proto.Size(&api.SynchronizeRequest{Pods: pods[pmax : pmax+1], More: true})
	}
	if cmax >= 0 {
		if s := proto.Size(&api.SynchronizeRequest{Containers: ctrs[cmax : cmax+1], More: true}); s > sh.Single {
			sh.Single = s
		}
	}
	ps, pn := worstRun(psz, minObjs)
	cs, cn := worstRun(csz, minObjs)
	sh.Worst = proto.Size(&api.SynchronizeRequest{Pods: pods[ps : ps+pn], Containers: ctrs[cs : cs+cn], More: true})
	switch {
	case sh.Whole+margin <= msgMax:
		sh.Class = "a"
	case sh.Worst+margin <= msgMax:
		sh.Class = "b"
	case sh.Single+1024 <= msgMax:
		sh.Class = "c"
	default:
		sh.Class = "x"
	}
	return sh
}

// ---------------------------------------------------------------------------------------
// generator

func genCount(t *rapid.T, label string, max int, edges []int) int {
	// edges: ascending upper bounds of the count bands; a band is drawn first so that tiny
	// counts (which force the chunk floor) and large ones are both common.
	b := rapid.IntRange(0, len(edges)).Draw(t, label+"-band")
	lo, hi := 0, 0
	switch {
	case b == 0:
		return 0
	case b == 1:
		lo, hi = 1, edges[0]
	default:
		lo, hi = edges[b-2]+1, edges[b-1]
	}
	if hi > max {
		hi = max
	}
	return rapid.IntRange(lo, hi).Draw(t, label+"-n")
}

// (rapid favours the front of a sampled list: the divisors around the 8-object floor come first)
var nearK = []int{9, 16, 8, 17, 12, 4, 15, 2, 1, 3, 5, 7, 24, 33, 64}
var nearSlack = []int{4096, 8 << 10, 60 << 10, 64<<10 + 200, 70 << 10, 128 << 10}

// genList draws a list plan of about `budget` padding bytes. n is a hint: distributions
// that fix the object size derive the count from the budget.
func genList(t *rapid.T, label string, n, max, budget int, dists []string) ListPlan {
	l := ListPlan{N: n, Field: rapid.IntRange(0, 3).Draw(t, label+"-field")}
	if n == 0 {
		l.Dist = "none"
		return l
	}
	l.Dist = rapid.SampledFrom(dists).Draw(t, label+"-dist")
	if l.Dist == "explicit" && n > 16 {
		l.Dist = "uniform"
	}
	switch l.Dist {
	case "tiny":
		l.Base = rapid.IntRange(0, 64).Draw(t, label+"-base")
	case "uniform":
		if need := budget/maxPad + 1; l.N < need {
			l.N = need
		}
		if l.N > max {
			l.N = max
		}
		l.Base = budget / l.N
		if l.Base > maxPad {
			l.Base = maxPad
		}
	case "nearlimit":
		k := rapid.SampledFrom(nearK).Draw(t, label+"-k")
		slack := rapid.SampledFrom(nearSlack).Draw(t, label+"-slack")
		l.Base = (msgMax-slack)/k - 64
		if l.Base > maxPad {
			l.Base = maxPad
		}
		l.N = budget / l.Base
		if l.N < 1 {
			l.N = 1
		}
		if l.N > max {
			l.N = max
		}
		l.Dist = fmt.Sprintf("nearlimit/%d", k)
	case "fewhuge":
		// (drawn "from the top": rapid favours small integers, the interesting states have
		// several objects near the limit)
		h := 12 - rapid.IntRange(0, 11).Draw(t, label+"-huge")
		if h > l.N {
			h = l.N
		}
		var idx []int
		if rapid.Bool().Draw(t, label+"-spaced") && l.N > minObjs {
			// huge objects at least 8 apart: every run of 8 holds at most one of them
			gap := rapid.IntRange(minObjs, minObjs+8).Draw(t, label+"-gap")
			start := rapid.IntRange(0, minObjs-1).Draw(t, label+"-start")
			for i := start; i < l.N && len(idx) < h; i += gap {
				idx = append(idx, i)
			}
			if len(idx) == 0 {
				idx = []int{0}
			}
		} else {
			idx = rapid.SliceOfNDistinct(rapid.IntRange(0, l.N-1), h, h, rapid.ID[int]).Draw(t, label+"-at")
			sort.Ints(idx)
		}
		left := budget
		for _, i := range idx {
			if left < maxPad/8 && len(l.Over) > 0 {
				break
			}
			s := maxPad - rapid.IntRange(0, maxPad/8*7).Draw(t, label+"-hsize")
			if s > left {
				s = left
			}
			left -= s
			l.Over = append(l.Over, At{I: i, Size: s})
		}
		l.Base = 60000 - rapid.IntRange(0, 60000).Draw(t, label+"-base")
		if l.Base > left/l.N {
			l.Base = left / l.N
		}
	case "explicit":
		left := budget
		avg := budget / l.N
		if avg > maxPad/2 {
			avg = maxPad / 2
		}
		for i := 0; i < l.N; i++ {
			s := rapid.OneOf(rapid.IntRange(avg/2, 2*avg), rapid.IntRange(0, 2*avg), rapid.IntRange(0, 200), rapid.IntRange(0, maxPad)).Draw(t, label+"-size")
			if s > left {
				s = left
			}
			left -= s
			l.Over = append(l.Over, At{I: i, Size: s})
		}
	}
	return l
}

var (
	podEdges = []int{3, 16, maxPods}
	ctrEdges = []int{8, 64, maxCtrs}
	lightD   = []string{"tiny", "tiny", "uniform"}
	heavyD   = []string{"uniform", "uniform", "fewhuge", "fewhuge", "nearlimit", "nearlimit", "explicit"}
	anyD     = []string{"tiny", "uniform", "fewhuge", "nearlimit", "explicit"}
)

// genC09 draws a history of 1..3 registrations of one stub. Every round but the last is
// steered towards ending in the middle of a split transfer (the runtime gives up after k
// chunks, or the tail of the state cannot be sent at all), because that is what leaves
// something behind in the stub; the last round is unconstrained.
func genC09(t *rapid.T) C09Case {
	var c C09Case
	n := rapid.SampledFrom([]int{1, 1, 2, 2, 3}).Draw(t, "rounds")
	for i := 0; i < n; i++ {
		kind := "any"
		if i < n-1 {
			kind = rapid.SampledFrom([]string{"abort", "tail", "any"}).Draw(t, "round-kind")
		}
		hold, holdChunk := "", 0
		if i > 0 && rapid.Bool().Draw(t, "hold") {
			hold = rapid.SampledFrom(holdKinds).Draw(t, "hold-kind")
			if hold == holdAfterChunk {
				holdChunk = rapid.IntRange(1, 3).Draw(t, "hold-chunk")
				if kind == "any" && rapid.IntRange(0, 2).Draw(t, "hold-split") > 0 {
					kind = "split3" // a state of at least three messages, so that the point exists
				}
			}
		}
		r := genRound(t, kind)
		r.HoldPrevClose, r.HoldChunk = hold, holdChunk
		if i == 0 {
			c.Round = r
		} else {
			c.Next = append(c.Next, r)
		}
	}
	return c
}

// genTail draws a state whose head can be sent in chunks and whose tail cannot: many small
// objects and, in the second half of one list, a block of 2..6 adjacent objects that
// together exceed the message limit (class (c): refused after chunks were accepted).
func genTail(t *rapid.T) (ListPlan, ListPlan) {
	k := rapid.IntRange(2, 6).Draw(t, "tail-k")
	size := rapid.IntRange(msgMax/k+100000, maxPad).Draw(t, "tail-size")
	n := rapid.IntRange(12, 200).Draw(t, "tail-n")
	small := rapid.IntRange(20000, 200000).Draw(t, "tail-small")
	if small > (maxTotal-k*size)/n {
		small = (maxTotal - k*size) / n
	}
	start := rapid.IntRange(n/2, n-k).Draw(t, "tail-start")
	heavy := ListPlan{N: n, Dist: "tailblock", Base: small, Field: rapid.IntRange(0, 3).Draw(t, "tail-field")}
	for i := 0; i < k; i++ {
		heavy.Over = append(heavy.Over, At{I: start + i, Size: size})
	}
	other := genList(t, "tail-other", rapid.IntRange(0, 20).Draw(t, "tail-other-n"), 20, rapid.IntRange(0, 100<<10).Draw(t, "tail-light"), lightD)
	if rapid.IntRange(0, 3).Draw(t, "tail-in-pods") == 0 {
		return heavy, other
	}
	return other, heavy
}

func genRound(t *rapid.T, kind string) Round {
	var c Round
	np := genCount(t, "pods", maxPods, podEdges)
	nc := genCount(t, "ctrs", maxCtrs, ctrEdges)
	mode := rapid.SampledFrom([]string{"fill", "fill", "fill", "fill", "fill", "fill", "floor", "floor", "headtail", "headtail", "free", "free", "small"}).Draw(t, "mode")
	switch kind {
	case "abort":
		mode = "abortfill"
		c.AbortAfter = rapid.IntRange(1, 3).Draw(t, "abort-after")
	case "tail":
		mode = "tail"
	case "split3":
		mode = "abortfill"
	default:
		if rapid.IntRange(0, 7).Draw(t, "abort") == 0 {
			c.AbortAfter = rapid.IntRange(1, 4).Draw(t, "abort-after")
		}
	}
	switch mode {
	case "tail":
		c.Pods, c.Ctrs = genTail(t)
	case "headtail":
		c.Pods, c.Ctrs = genHeadTail(t)
	case "abortfill": // class (b), at least three messages: 32+ equal objects, 9..24 MB
		total := rapid.IntRange(9<<20, 24<<20).Draw(t, "total")
		light := genList(t, "light", rapid.IntRange(0, 20).Draw(t, "light-n"), 20, rapid.IntRange(0, 100<<10).Draw(t, "light-bytes"), lightD)
		if rapid.IntRange(0, 3).Draw(t, "heavy-pods") == 0 {
			n := rapid.IntRange(32, maxPods).Draw(t, "heavy-n")
			c.Pods, c.Ctrs = ListPlan{N: n, Dist: "uniform", Base: total / n, Field: rapid.IntRange(0, 3).Draw(t, "pods-field")}, light
		} else {
			n := rapid.IntRange(32, maxCtrs).Draw(t, "heavy-n")
			c.Pods, c.Ctrs = light, ListPlan{N: n, Dist: "uniform", Base: total / n, Field: rapid.IntRange(0, 3).Draw(t, "ctrs-field")}
		}
	case "small": // class (a): everything fits one message
		total := rapid.IntRange(0, 3<<20).Draw(t, "total")
		share := rapid.IntRange(0, 100).Draw(t, "pod-share")
		c.Pods = genList(t, "pods", np, maxPods, total/100*share, []string{"tiny", "uniform", "explicit"})
		c.Ctrs = genList(t, "ctrs", nc, maxCtrs, total/100*(100-share), []string{"tiny", "uniform", "explicit"})
		// fixed-size distributions are not offered here, so the counts are as drawn
	case "fill": // the state must be split: one or both lists carry 4.2..40 MB
		total := rapid.OneOf(rapid.IntRange(msgMax, 6<<20), rapid.IntRange(6<<20, 12<<20), rapid.IntRange(12<<20, maxTotal)).Draw(t, "total")
		heavy := rapid.SampledFrom([]string{"ctrs", "ctrs", "ctrs", "pods", "both"}).Draw(t, "heavy")
		if heavy == "pods" && np == 0 {
			np = rapid.IntRange(1, maxPods).Draw(t, "pods-n2")
		}
		if heavy != "pods" && nc == 0 {
			nc = rapid.IntRange(1, maxCtrs).Draw(t, "ctrs-n2")
		}
		if heavy == "both" && np == 0 {
			np = rapid.IntRange(1, maxPods).Draw(t, "pods-n2")
		}
		light := rapid.IntRange(0, 200<<10).Draw(t, "light")
		switch heavy {
		case "ctrs":
			c.Pods = genList(t, "pods", np, maxPods, light, lightD)
			c.Ctrs = genList(t, "ctrs", nc, maxCtrs, total, heavyD)
		case "pods":
			c.Pods = genList(t, "pods", np, maxPods, total, heavyD)
			c.Ctrs = genList(t, "ctrs", nc, maxCtrs, light, lightD)
		default:
			share := rapid.IntRange(10, 90).Draw(t, "pod-share")
			c.Pods = genList(t, "pods", np, maxPods, total/100*share, heavyD)
			c.Ctrs = genList(t, "ctrs", nc, maxCtrs, total/100*(100-share), heavyD)
		}
	case "floor": // 9..24 equal objects just too big for one message: the chunk floor decides
		n := rapid.IntRange(minObjs+1, 3*minObjs).Draw(t, "floor-n")
		np = rapid.IntRange(0, n).Draw(t, "floor-pods")
		nc = n - np
		w := min(np, minObjs) + min(nc, minObjs) // objects in the largest message at the floor
		d := rapid.IntRange(w, n).Draw(t, "floor-div")
		slack := rapid.SampledFrom(nearSlack).Draw(t, "floor-slack")
		size := (msgMax-slack)/d - 64
		c.Pods = ListPlan{N: np, Dist: "floor", Base: size, Field: rapid.IntRange(0, 3).Draw(t, "pods-field")}
		c.Ctrs = ListPlan{N: nc, Dist: "floor", Base: size, Field: rapid.IntRange(0, 3).Draw(t, "ctrs-field")}
	default: // anything
		total := rapid.IntRange(0, maxTotal).Draw(t, "total")
		share := rapid.IntRange(0, 100).Draw(t, "pod-share")
		c.Pods = genList(t, "pods", np, maxPods, total/100*share, anyD)
		c.Ctrs = genList(t, "ctrs", nc, maxCtrs, total/100*(100-share), anyD)
	}
	nu := rapid.IntRange(0, 12).Draw(t, "updates")
	for i := 0; i < nu; i++ {
		c.Updates = append(c.Updates, UpdPlan{
			Ctr:    rapid.IntRange(-1, c.Ctrs.N).Draw(t, "upd-ctr"),
			Shares: rapid.Uint64Range(0, 1<<18).Draw(t, "upd-shares"),
			Mem:    rapid.Int64Range(0, 1<<40).Draw(t, "upd-mem"),
			Ignore: rapid.Bool().Draw(t, "upd-ignore"),
		})
	}
	c.RuntimeFails = rapid.IntRange(0, 4).Draw(t, "runtime-fails") == 0
	c.Mask = genMask(t)
	if coin(t, "handler-fails", 2) == 0 {
		c.HandlerErr = genErrPlan(t)
	}
	c.ReqTimeout = []string{"", "", "default", "1h", "100y", "100y", "max", "max"}[coin(t, "req-timeout", 3)]
	return c
}

// ---------------------------------------------------------------------------------------
// observation

// Chunk is a run of identical Synchronize RPCs as decoded at the plugin's ttrpc server
// (passively, through an interceptor): P pods, C containers, the More flag, N times.
type Chunk struct {
	P    int  `json:"p"`
	C    int  `json:"c"`
	More bool `json:"more"`
	N    int  `json:"n"`
}

type observer struct {
	mu     sync.Mutex
	chunks []Chunk
	rpcs   int
	sumP   int // objects received over all RPCs
	sumC   int
	// stuck is set (and onStuck called once) when the sender has demonstrably stopped making
	// progress: spinLimit consecutive object-less "more" messages, or more than three times
	// the runtime's objects (+50) transmitted. The transfer is then cut short by cancelling
	// the context the runtime handed to the NRI callback; left alone it would run into the
	// request timeout (a regress replay of D5 does exactly that when VERIF_C09_NOABORT=1).
	limitP  int
	limitC  int
	stuck   string
	onStuck func()
	// the round's state and answer
	pods []*api.PodSandbox
	ctrs []*api.Container
	want []*api.ContainerUpdate
	// runtime-side abort (Round.AbortAfter)
	abortAfter int
	// release of the previous session's held close notification (Round.HoldPrevClose)
	releaseKind  string
	releaseChunk int
	released     bool
	releasedAt   int // "more" chunks accepted when it was released (-1: before the first request was handled)
	release      func()

	maxChunk  int // largest Synchronize request that reached the plugin (proto.Size)
	moreDone  int // "more" chunks the stub has accepted (its handler returned without error)
	abortedAt int
	onAbort   func()
	roundDone <-chan struct{}

	herr     error // what the handler returns (Round.HandlerErr)
	herrOnce bool
	calls    int    // invocations of the plugin's Synchronize handler
	diff     string // first difference between a delivered state and the runtime's
	gotP     int
	gotC     int
}

func (o *observer) intercept(ctx context.Context, um ttrpc.Unmarshaler, _ *ttrpc.UnaryServerInfo, m ttrpc.Method) (interface{}, error) {
	more := false
	resp, err := m(ctx, o.observe(um, &more))
	if more && err == nil {
		// the stub has accepted one more chunk of a split state
		o.mu.Lock()
		o.moreDone++
		abort := o.abortAfter > 0 && o.moreDone == o.abortAfter && o.abortedAt == 0 && o.onAbort != nil
		if abort {
			o.abortedAt = o.moreDone
		}
		rel := o.release != nil && o.releaseKind == holdAfterChunk && o.moreDone == o.releaseChunk && !o.released
		if rel {
			o.released, o.releasedAt = true, o.moreDone
		}
		o.mu.Unlock()
		if rel {
			// the previous session's close notification runs now, while this chunk's reply is
			// held: between two chunks of the split state
			o.release()
		}
		if abort {
			// The runtime gives up now: cancel its context and hold this chunk's reply until
			// the runtime's SyncFn has returned, so that no further chunk is on its way when
			// the connection goes down.
			o.onAbort()
			select {
			case <-o.roundDone:
			case <-time.After(15 * time.Second):
			}
		}
	}
	return resp, err
}

func (o *observer) observe(um ttrpc.Unmarshaler, more *bool) ttrpc.Unmarshaler {
	return func(v interface{}) error {
		err := um(v)
		if req, ok := v.(*api.SynchronizeRequest); ok && err == nil {
			*more = req.More
			sz := proto.Size(req)
			o.mu.Lock()
			if o.release != nil && o.releaseKind == holdFirstRequest && !o.released {
				o.released, o.releasedAt = true, -1
				o.mu.Unlock()
				o.release() // before the stub handles the first message of this session
				o.mu.Lock()
			}
			if sz > o.maxChunk {
				o.maxChunk = sz
			}
			o.rpcs++
			o.sumP += len(req.Pods)
			o.sumC += len(req.Containers)
			ch := Chunk{P: len(req.Pods), C: len(req.Containers), More: req.More, N: 1}
			if n := len(o.chunks); n > 0 && o.chunks[n-1].P == ch.P && o.chunks[n-1].C == ch.C && o.chunks[n-1].More == ch.More {
				o.chunks[n-1].N++
			} else if n < 400 {
				o.chunks = append(o.chunks, ch)
			}
			var cb func()
			if o.stuck == "" && o.onStuck != nil {
				if l := o.chunks[len(o.chunks)-1]; l.P == 0 && l.C == 0 && l.More && l.N >= spinLimit {
					o.stuck = fmt.Sprintf("%d consecutive messages without any object that announced more", l.N)
				} else if o.sumP > o.limitP || o.sumC > o.limitC {
					o.stuck = fmt.Sprintf("%d pods and %d containers were transmitted, the runtime holds %d and %d",
						o.sumP, o.sumC, (o.limitP-50)/3, (o.limitC-50)/3)
				}
				if o.stuck != "" {
					cb = o.onStuck
				}
			}
			o.mu.Unlock()
			if cb != nil {
				cb()
			}
		}
		return err
	}
}

// spinning reports how many trailing RPCs carried no object at all while announcing more.
func (o *observer) spinning() int {
	o.mu.Lock()
	defer o.mu.Unlock()
	if n := len(o.chunks); n > 0 {
		if l := o.chunks[n-1]; l.P == 0 && l.C == 0 && l.More {
			return l.N
		}
	}
	return 0
}

// diffState compares what a handler got with what the runtime holds: same ids in the same
// order, then same content.
func diffState(wp, gp []*api.PodSandbox, wc, gc []*api.Container) string {
	for i := 0; i < len(wp) || i < len(gp); i++ {
		switch {
		case i >= len(gp):
			return fmt.Sprintf("pods: got %d, runtime has %d (first missing %s)", len(gp), len(wp), wp[i].Id)
		case i >= len(wp):
			return fmt.Sprintf("pods: got %d, runtime has %d (first extra %s)", len(gp), len(wp), gp[i].GetId())
		case gp[i].GetId() != wp[i].Id:
			return fmt.Sprintf("pod #%d: got id %q, want %q", i, gp[i].GetId(), wp[i].Id)
		}
	}
	for i := 0; i < len(wc) || i < len(gc); i++ {
		switch {
		case i >= len(gc):
			return fmt.Sprintf("containers: got %d, runtime has %d (first missing %s)", len(gc), len(wc), wc[i].Id)
		case i >= len(wc):
			return fmt.Sprintf("containers: got %d, runtime has %d (first extra %s)", len(gc), len(wc), gc[i].GetId())
		case gc[i].GetId() != wc[i].Id:
			return fmt.Sprintf("container #%d: got id %q, want %q", i, gc[i].GetId(), wc[i].Id)
		}
	}
	for i := range wp {
		if !proto.Equal(wp[i], gp[i]) {
			return fmt.Sprintf("pod %s: content differs (%d vs %d bytes)", wp[i].Id, proto.Size(gp[i]), proto.Size(wp[i]))
		}
	}
	for i := range wc {
		if !proto.Equal(wc[i], gc[i]) {
			return fmt.Sprintf("container %s: content differs (%d vs %d bytes)", wc[i].Id, proto.Size(gc[i]), proto.Size(wc[i]))
		}
	}
	return ""
}

func diffUpdates(want, got []*api.ContainerUpdate) string {
	if len(want) != len(got) {
		return fmt.Sprintf("%d updates reached the runtime, the plugin returned %d", len(got), len(want))
	}
	for i := range want {
		if !proto.Equal(want[i], got[i]) {
			return fmt.Sprintf("update #%d differs: got %v, want %v", i, got[i], want[i])
		}
	}
	return ""
}

// ---------------------------------------------------------------------------------------
// run + oracle

type roundHistory struct {
	Round    int     `json:"round"`
	Shape    shape   `json:"shape"`
	Chunks   []Chunk `json:"chunks"`
	RPCs     int     `json:"sync_rpcs"`
	SentPods int     `json:"rpc_pods_total"`
	SentCtrs int     `json:"rpc_ctrs_total"`
	MoreDone int     `json:"more_chunks_accepted"`
	MaxChunk int     `json:"largest_message_bytes"`
	// PredictedRejections: oversize rejections according to the harness's mirror of the
	// sender's arithmetic (classification only)
	PredictedRejections int    `json:"predicted_rejections"`
	HoldReleasedAt      string `json:"prev_close_released,omitempty"` // where the previous session's close notification was let through
	AbortedAt           int    `json:"runtime_aborted_after_chunk,omitempty"`
	Calls               int    `json:"handler_calls"`
	GotPods             int    `json:"handler_pods"`
	GotCtrs             int    `json:"handler_ctrs"`
	StartErr            string `json:"start_err,omitempty"`
	SyncErr             string `json:"sync_err,omitempty"`
	Panic               string `json:"panic,omitempty"`
	ElapsedMs           int64  `json:"sync_ms"`
	Note                string `json:"note,omitempty"`
}

type history struct {
	Plugin string          `json:"plugin"`
	Rounds []*roundHistory `json:"rounds"`
}

func runC09(c C09Case) ev.Outcome {
	var first ev.Outcome
	for attempt := 0; attempt < 3; attempt++ {
		o, timeClause := runOnce(c)
		if !timeClause {
			if attempt > 0 && o.Fail == "" {
				// a time related failure did not repeat: overload, not a violation
				o.Overloaded = true
			}
			return o
		}
		if attempt == 0 {
			first = o
		}
	}
	return first
}

func bandOf(n int, edges []int) string {
	if n == 0 {
		return "0"
	}
	lo := 1
	for _, e := range edges {
		if n <= e {
			return fmt.Sprintf("%d-%d", lo, e)
		}
		lo = e + 1
	}
	return "more"
}

type roundSizes struct{ pods, ctrs []int }

func (r Round) validate() (roundSizes, error) {
	var rs roundSizes
	var err error
	if rs.pods, err = r.Pods.sizes(hardMaxObjs); err != nil {
		return rs, err
	}
	if rs.ctrs, err = r.Ctrs.sizes(hardMaxObjs); err != nil {
		return rs, err
	}
	total := 0
	for _, s := range rs.pods {
		total += s
	}
	for _, s := range rs.ctrs {
		total += s
	}
	if total > maxTotalAny || len(r.Updates) > 64 || r.AbortAfter < 0 || r.AbortAfter > 64 ||
		r.Mask < 0 || api.EventMask(r.Mask)&^api.ValidEvents != 0 || r.HoldChunk < 0 || r.HoldChunk > 64 {
		return rs, fmt.Errorf("out of domain")
	}
	if _, ok := reqTimeouts[r.ReqTimeout]; !ok {
		return rs, fmt.Errorf("out of domain")
	}
	if r.HandlerErr != nil && !r.HandlerErr.valid() {
		return rs, fmt.Errorf("out of domain")
	}
	switch r.HoldPrevClose {
	case "", holdStart, holdFirstRequest, holdAfterChunk, holdEnd:
	default:
		return rs, fmt.Errorf("out of domain")
	}
	return rs, nil
}

// session is one stub instance that registers once per round of a case.
type session struct {
	f      *fixture
	id     int
	name   string
	p      *fx.Plugin
	cur    atomic.Pointer[observer] // the round in progress
	starts int32                    // Start calls that got as far as a connection
	hist   *history
	// failedAfterChunks: an earlier round of this case ended in failure after the stub had
	// accepted at least one "more" chunk.
	failedAfterChunks bool
}

func (se *session) intercept(ctx context.Context, um ttrpc.Unmarshaler, info *ttrpc.UnaryServerInfo, m ttrpc.Method) (interface{}, error) {
	if o := se.cur.Load(); o != nil {
		return o.intercept(ctx, um, info, m)
	}
	return m(ctx, um)
}

// roundResult is what one round contributes to the case's outcome.
type roundResult struct {
	out        ev.Outcome // Fail set on a violation; Excluded set when the round could not be judged
	timeClause bool
	classes    []string
	lenient    []string
	nonTrivial bool
}

// runOnce executes the case. The second result is true when the outcome is a failure that
// rests on elapsed time only (to be confirmed by re-execution).
func runOnce(c C09Case) (ev.Outcome, bool) {
	rounds := append([]Round{c.Round}, c.Next...)
	if len(rounds) > maxRounds {
		return ev.Outcome{Excluded: "out-of-domain"}, false
	}
	sizes := make([]roundSizes, len(rounds))
	for i, r := range rounds {
		rs, err := r.validate()
		if err != nil {
			return ev.Outcome{Excluded: "out-of-domain"}, false
		}
		sizes[i] = rs
	}
	f, err := getFixture()
	if err != nil {
		return ev.Outcome{Excluded: "fixture: " + err.Error(), Overloaded: true}, false
	}
	id := nextSeq()
	se := &session{f: f, id: id, name: fmt.Sprintf("sync%d", id)}
	se.hist = &history{Plugin: se.name}

	// One plugin, one stub instance for all rounds. Its handlers judge against the round in
	// progress.
	p := &fx.Plugin{Name: se.name, Idx: "10"}
	se.p = p
	p.OnSynchronize = func(_ context.Context, gp []*api.PodSandbox, gc []*api.Container) ([]*api.ContainerUpdate, error) {
		o := se.cur.Load()
		if o == nil {
			return nil, nil
		}
		d := diffState(o.pods, gp, o.ctrs, gc)
		o.mu.Lock()
		o.calls++
		if o.calls == 1 || o.diff == "" {
			o.diff, o.gotP, o.gotC = d, len(gp), len(gc)
		}
		n := o.calls
		o.mu.Unlock()
		if o.herr != nil && (n == 1 || !o.herrOnce) {
			return nil, o.herr
		}
		return o.want, nil
	}
	seeProbes(p, func() { f.w.Seen(se.name) })
	if err := p.NewStub(f.r.Socket, nil, stub.WithTTRPCOptions(nil,
		[]ttrpc.ServerOpt{ttrpc.WithUnaryServerInterceptor(se.intercept)})); err != nil {
		return ev.Outcome{Excluded: "stub: " + err.Error(), Overloaded: true}, false
	}
	defer p.Stub.Stop()

	classes := []string{fmt.Sprintf("rounds:%d", len(rounds))}
	var lenient []string
	nonTrivial := false
	defer gate.release() // nothing stays held beyond the case
	for i, r := range rounds {
		var next *Round
		if i+1 < len(rounds) {
			next = &rounds[i+1]
		}
		rr := se.runRound(i, r, sizes[i], next)
		classes = append(classes, rr.classes...)
		lenient = append(lenient, rr.lenient...)
		nonTrivial = nonTrivial || rr.nonTrivial
		if rr.out.Fail != "" || rr.out.Excluded != "" {
			rr.out.History = se.hist
			rr.out.Classes = classes
			rr.out.NonTrivial = nonTrivial
			return rr.out, rr.timeClause
		}
	}
	return ev.Outcome{NonTrivial: nonTrivial, Classes: append(classes, lenient...), Lenient: lenient}, false
}

// runRound registers the session's stub once against a runtime holding the round's state
// and judges this registration against this state only.
func (se *session) runRound(idx int, c Round, rs roundSizes, next *Round) (rr roundResult) {
	f := se.f
	name := se.name
	tag := ""
	if idx > 0 {
		tag = fmt.Sprintf("r%d-", idx+1)
	}
	pods := buildPods(c.Pods, rs.pods, tag)
	ctrs := buildCtrs(c.Ctrs, rs.ctrs, pods, tag)
	want := buildUpdates(c.Updates, ctrs)
	sh := classify(pods, ctrs)
	if sh.Class == "x" {
		// "each individually transmissible" is the property's precondition
		rr.out = ev.Outcome{Excluded: "object-too-big"}
		return rr
	}
	hist := &roundHistory{Round: idx + 1, Shape: sh}
	se.hist.Rounds = append(se.hist.Rounds, hist)
	obs := &observer{limitP: 3*len(pods) + 50, limitC: 3*len(ctrs) + 50,
		pods: pods, ctrs: ctrs, want: want, abortAfter: c.AbortAfter}
	if c.HandlerErr != nil {
		obs.herr, obs.herrOnce = c.HandlerErr.build(), c.HandlerErr.Once
	}

	rr.nonTrivial = sh.Class != "a"
	rr.classes = []string{
		"class-" + sh.Class,
		"pods:" + bandOf(len(pods), podEdges),
		"ctrs:" + bandOf(len(ctrs), ctrEdges),
		"pdist:" + strings.SplitN(c.Pods.Dist, "/", 2)[0],
		"cdist:" + strings.SplitN(c.Ctrs.Dist, "/", 2)[0],
	}
	if idx > 0 {
		rr.classes = append(rr.classes, "re-registration")
	}
	rr.classes = append(rr.classes, maskClasses(c.Mask)...)
	pe := probeEvent(c.Mask) // activity is observed through an event the plugin subscribed to
	// how many oversize rejections the sender's arithmetic needs for this state (mirror)
	predRej, predMsgs, predGaveUp := mirrorSender(pods, ctrs)
	rr.classes = append(rr.classes, rejectionBand(predRej))
	hist.PredictedRejections = predRej
	if sh.Class != "a" {
		rr.classes = append(rr.classes, "split")
	}
	if c.RuntimeFails {
		rr.classes = append(rr.classes, "runtime-fails")
	}
	switch {
	case sh.Whole < msgMax:
		rr.classes = append(rr.classes, "bytes:<4M")
	case sh.Whole < 12<<20:
		rr.classes = append(rr.classes, "bytes:4-12M")
	default:
		rr.classes = append(rr.classes, "bytes:12M+")
	}

	snapshot := func() {
		obs.mu.Lock()
		hist.Chunks, hist.RPCs, hist.Calls, hist.GotPods, hist.GotCtrs = obs.chunks, obs.rpcs, obs.calls, obs.gotP, obs.gotC
		hist.SentPods, hist.SentCtrs, hist.MoreDone, hist.AbortedAt = obs.sumP, obs.sumC, obs.moreDone, obs.abortedAt
		hist.MaxChunk = obs.maxChunk
		obs.mu.Unlock()
	}
	fail := func(format string, a ...any) roundResult {
		rr.out = ev.Failf("[round %d, class %s, %d pods, %d containers, %d bytes unsplit] "+format,
			append([]any{idx + 1, sh.Class, len(pods), len(ctrs), sh.Whole}, a...)...)
		snapshot()
		return rr
	}
	failTime := func(format string, a ...any) roundResult {
		fail(format, a...)
		rr.timeClause = true
		return rr
	}
	notJudged := func(why string) roundResult {
		snapshot()
		rr.out = ev.Outcome{Excluded: why, Overloaded: true}
		return rr
	}

	// --- register --------------------------------------------------------------------------
	s := &slot{pods: pods, ctrs: ctrs, rtFail: c.RuntimeFails, done: make(chan struct{})}
	if !noAbort {
		obs.onStuck = s.abort
	}
	obs.onAbort = s.abort
	obs.roundDone = s.done
	se.cur.Store(obs)
	defer se.cur.Store(nil)
	f.expect(s)
	base := f.w.Count(name) // probe events seen in earlier rounds
	p := se.p

	// Start returns once the plugin is configured - or with an error when the adaptation has
	// already closed the connection: a synchronization that fails at once (a state that is
	// refused without sending anything) can be over before the stub has seen the reply to
	// its registration request. That is a legitimate face of "registration fails", so the
	// verdict is taken from the runtime's side below and Start's error only recorded.
	p.Mask = api.EventMask(c.Mask)

	// --- the runtime's plugin request timeout for this round ----------------------------------
	roundTimeout := reqTimeouts[c.ReqTimeout]
	if c.ReqTimeout == "default" && sh.Whole > 8<<20 {
		roundTimeout = reqTimeout
		rr.classes = append(rr.classes, "timeout:default-raised")
	} else if c.ReqTimeout != "" {
		rr.classes = append(rr.classes, "timeout:"+c.ReqTimeout)
	}
	if roundTimeout >= time.Hour {
		rr.classes = append(rr.classes, "timeout:huge")
		if len(pods)+len(ctrs) >= 1000 {
			rr.classes = append(rr.classes, "timeout:huge+1000-objects")
		}
	}
	adaptation.SetPluginRequestTimeout(roundTimeout)
	defer adaptation.SetPluginRequestTimeout(reqTimeout)
	effTimeout := min(roundTimeout, reqTimeout) // what a time clause may refer to

	// --- timing of the previous session's close notification (hold_test.go) ------------------
	holdHere := idx > 0 && c.HoldPrevClose != ""
	holdNext := next != nil && next.HoldPrevClose != ""
	prevStarts := se.starts
	releasedHere, confirmed := false, false
	releaseNow := func() {
		releasedHere = true
		gate.release()
		// ... and it has run (the stub reports every closed session through onClose)
		deadline := time.Now().Add(5 * time.Second)
		for p.Closed.Load() < prevStarts && time.Now().Before(deadline) {
			time.Sleep(100 * time.Microsecond)
		}
		confirmed = p.Closed.Load() >= prevStarts
		if holdNext {
			gate.arm() // this session's own notification is held for the next round
		}
	}
	if holdHere {
		rr.classes = append(rr.classes, "restart-timing-drawn") // either build
	}
	if verifhook.Enabled {
		if holdNext && !holdHere {
			gate.arm()
		}
		if holdHere {
			rr.classes = append(rr.classes, "hold:"+c.HoldPrevClose)
			switch c.HoldPrevClose {
			case holdStart:
				releaseNow()
			case holdFirstRequest, holdAfterChunk:
				obs.releaseKind, obs.releaseChunk, obs.release = c.HoldPrevClose, max(1, c.HoldChunk), releaseNow
			}
		}
	} else if holdHere {
		rr.classes = append(rr.classes, "immediate-restart")
	}

	startErr := p.Stub.Start(context.Background())
	se.starts++
	// whatever happens, the session is ended before the next round (or the end of the case)
	defer func() {
		p.Stub.Stop()
		if !holdNext {
			// the close notification of every session so far (Start is callable again as soon
			// as Stop returned; a late notification of an old session is ignored by the stub)
			deadline := time.Now().Add(5 * time.Second)
			for p.Closed.Load() < se.starts && time.Now().Before(deadline) {
				time.Sleep(200 * time.Microsecond)
			}
		}
		_ = f.r.Probe() // lets the adaptation drop the closed plugin
	}()
	if startErr != nil {
		hist.StartErr = startErr.Error()
		select {
		case <-s.done:
		case <-time.After(10 * time.Second):
			// the registration never reached synchronization (handshake trouble, registration
			// timeouts under load): not what this property is about - not judged
			f.expect(nil)
			select {
			case <-s.done: // it did after all, between the timer and expect(nil)
			default:
				return notJudged("registration-did-not-reach-sync")
			}
		}
	}

	// Registration outcome is known once the runtime's SyncFn has returned. synchronize()
	// bounds itself by the request timeout; the watchdog is far beyond that.
	select {
	case <-s.done:
	case <-time.After(reqTimeout + 70*time.Second):
		f.abandon()
		buf := make([]byte, 1<<20)
		hist.Note = string(buf[:runtime.Stack(buf, true)])
		return failTime("synchronization neither completed nor failed %v after the plugin registered (request timeout %v)", reqTimeout+70*time.Second, reqTimeout)
	}
	hist.ElapsedMs = s.elapsed.Milliseconds()
	if s.err != nil {
		hist.SyncErr = s.err.Error()
	}
	hist.Panic = s.panicked
	if verifhook.Enabled && holdHere {
		obs.mu.Lock()
		viaObserver, at := obs.released, obs.releasedAt
		obs.release = nil
		obs.mu.Unlock()
		if !releasedHere && !viaObserver {
			if c.HoldPrevClose != holdEnd {
				rr.classes = append(rr.classes, "hold:point-not-reached")
			}
			releaseNow()
		}
		hist.HoldReleasedAt = fmt.Sprintf("%s (accepted 'more' chunks at that time: %d, notification seen to have run: %v)", c.HoldPrevClose, at, confirmed)
		if viaObserver && at >= 1 && confirmed {
			rr.classes = append(rr.classes, "hold:released-between-chunks")
		}
		if confirmed {
			rr.classes = append(rr.classes, "hold:notification-ran")
		}
	}

	// --- "the runtime does not crash" ------------------------------------------------------
	if s.panicked != "" {
		return fail("runtime crashed: panic on the accept goroutine while synchronizing the plugin: %s", strings.SplitN(s.panicked, "\n", 2)[0])
	}

	obs.mu.Lock()
	calls, diff, stuck, abortedAt, moreDone := obs.calls, obs.diff, obs.stuck, obs.abortedAt, obs.moreDone
	obs.mu.Unlock()
	stale := ""
	if se.failedAfterChunks {
		stale = " (an earlier registration of this stub failed after it had accepted part of a split state)"
	}

	delivered := false // exact delivery established
	if c.HandlerErr != nil {
		rr.classes = append(rr.classes, "handler-error")
	}
	switch {
	case c.HandlerErr != nil && calls >= 1:
		// The handler was reached and its (first) invocation failed: "registration fails
		// cleanly" - invoked exactly once, with the complete state, and no activation -
		// whatever the form of the handler's error.
		form := c.HandlerErr.class()
		if calls != 1 {
			return fail("the plugin's Synchronize handler failed (%s) and was then invoked again: %d invocations (last state seen: %d pods, %d containers%s)",
				form, calls, obs.gotP, obs.gotC, map[bool]string{true: "", false: "; " + diff}[diff == ""])
		}
		if diff != "" {
			return fail("the handler (which then failed, %s) did not get the runtime's state: %s", form, diff)
		}
		if s.err == nil {
			return fail("registration succeeded although the plugin's Synchronize handler failed (%s)", form)
		}
		rr.classes = append(rr.classes, "handler-error/"+form, map[bool]string{true: "handler-fails-once", false: "handler-fails-always"}[c.HandlerErr.Once])
	case s.err == nil:
		// registration succeeded: for every class this must be an exact delivery
		if startErr != nil {
			return fail("synchronization succeeded but the plugin's Start had failed: %v", startErr)
		}
		if calls != 1 {
			return fail("synchronization succeeded but the plugin's handler was invoked %d times, not once", calls)
		}
		if diff != "" {
			return fail("synchronization succeeded but the handler did not get the runtime's state%s: %s", stale, diff)
		}
		if d := diffUpdates(want, s.updates); d != "" {
			return fail("the plugin's updates did not reach the runtime's sync callback: %s", d)
		}
		delivered = true
		if sh.Class == "c" {
			rr.lenient = append(rr.lenient, "c-delivered")
		}
	case abortedAt > 0 || sh.Class == "c":
		// The runtime gave up mid-way (its context was cancelled by the harness after the
		// stub had accepted abortedAt chunks), or the state cannot be transmitted: "registration
		// fails cleanly" - no handler call with a partial state.
		if calls > 0 && diff != "" {
			return fail("synchronization failed (%v) after the handler was invoked %d time(s) with a partial state: %s", s.err, calls, diff)
		}
		if calls > 1 {
			return fail("synchronization failed (%v) after the handler was invoked %d times", s.err, calls)
		}
		if abortedAt > 0 {
			rr.classes = append(rr.classes, "runtime-aborted")
		} else {
			rr.lenient = append(rr.lenient, "c-refused")
			if startErr != nil {
				rr.lenient = append(rr.lenient, "c-refused-before-start-returned")
			}
		}
	default:
		// class (a)/(b): every message the sender can form at its floor fits, so the state
		// can be transmitted and must be.
		if stuck != "" {
			return fail("registration failed (%v) although every run of <=8 pods plus <=8 containers fits one message (largest: %d bytes): the sender stopped making progress (%s); the harness cut the transfer short, it would have ended at the %v request timeout",
				s.err, sh.Worst, stuck, reqTimeout)
		}
		if s.elapsed >= effTimeout*9/10 {
			if n := obs.spinning(); n >= 1000 {
				// not slowness: the sender spent its time sending messages without objects
				return fail("registration failed (%v) although every run of <=8 pods plus <=8 containers fits one message (largest: %d bytes): the sender made no progress, its last %d messages carried no object and announced more, until the %v request timeout",
					s.err, sh.Worst, n, reqTimeout)
			}
			obs.mu.Lock()
			sp, sc := obs.sumP, obs.sumC
			obs.mu.Unlock()
			if sp > len(pods) || sc > len(ctrs) {
				// not slowness either: the sender transmitted more objects than the runtime has
				return fail("registration failed (%v) although every run of <=8 pods plus <=8 containers fits one message (largest: %d bytes): until the %v request timeout the sender transmitted %d pods and %d containers, more than the runtime holds",
					s.err, sh.Worst, reqTimeout, sp, sc)
			}
			return failTime("registration failed after %v (%v); the request timeout of %v may have expired because of load", s.elapsed, s.err, reqTimeout)
		}
		return fail("registration failed (%v) although every run of <=8 pods plus <=8 containers fits one message (largest such message: %d bytes, limit %d)",
			s.err, sh.Worst, msgMax)
	}
	if c.AbortAfter > 0 && abortedAt == 0 {
		rr.classes = append(rr.classes, "abort-not-reached")
	}
	if !delivered && moreDone > 0 {
		rr.classes = append(rr.classes, "failed-after-chunks")
	}
	if delivered && se.failedAfterChunks {
		rr.classes = append(rr.classes, "resync-after-failed-split")
	}

	// --- activation ------------------------------------------------------------------------
	expectActive := delivered && !c.RuntimeFails
	if expectActive {
		if err := f.waitActive(pe, name, 10*time.Second); err != nil {
			return failTime("synchronization succeeded but the plugin is not active: %v", err)
		}
	}

	// --- the adaptation keeps serving: a small plugin registers and a request succeeds ------
	fname := fmt.Sprintf("after%d-%d", se.id, idx+1)
	fpods := []*api.PodSandbox{{Id: "fp0", Name: "follow-up"}}
	fctrs := []*api.Container{{Id: "fc0", PodSandboxId: "fp0", Name: "follow-up"}}
	var fmu sync.Mutex
	fcalls, fdiff := 0, ""
	fp := &fx.Plugin{Name: fname, Idx: "20"}
	fp.OnSynchronize = func(_ context.Context, gp []*api.PodSandbox, gc []*api.Container) ([]*api.ContainerUpdate, error) {
		fmu.Lock()
		fcalls++
		fdiff = diffState(fpods, gp, fctrs, gc)
		fmu.Unlock()
		return nil, nil
	}
	fp.OnEvent = func(_ context.Context, _ api.Event, pod *api.PodSandbox, _ *api.Container) error {
		if fx.IsProbe(pod) {
			f.w.Seen(fname)
		}
		return nil
	}
	fp.OnCreate = func(_ context.Context, _ *api.PodSandbox, ctr *api.Container) (*api.ContainerAdjustment, []*api.ContainerUpdate, error) {
		a := &api.ContainerAdjustment{}
		a.AddAnnotation("verif/seen-by", fname)
		return a, nil, nil
	}
	fs := &slot{pods: fpods, ctrs: fctrs, done: make(chan struct{})}
	f.expect(fs)
	if err := f.r.Connect(fp); err != nil {
		// (re-executed: registration has its own timeouts, which a loaded machine can hit)
		f.expect(nil)
		return failTime("after this synchronization the adaptation no longer accepts plugins: %v", err)
	}
	defer fp.Stub.Stop()
	select {
	case <-fs.done:
	case <-time.After(reqTimeout + 70*time.Second):
		f.abandon()
		return failTime("after this synchronization a small plugin's registration did not complete within %v", reqTimeout+70*time.Second)
	}
	if fs.panicked != "" || fs.err != nil {
		return fail("after this synchronization a small plugin could not be synchronized: err=%v panic=%s", fs.err, fs.panicked)
	}
	fmu.Lock()
	fc, fd := fcalls, fdiff
	fmu.Unlock()
	if fc != 1 || fd != "" {
		return fail("after this synchronization a small plugin's handler was invoked %d times / got a wrong state: %s", fc, fd)
	}
	if err := f.r.WaitActive(f.w, 10*time.Second, fname); err != nil {
		return failTime("after this synchronization a small plugin did not become active: %v", err)
	}
	rpl, err := f.r.A.CreateContainer(context.Background(), &api.CreateContainerRequest{
		Pod:       &api.PodSandbox{Id: "fp0"},
		Container: &api.Container{Id: fmt.Sprintf("new%d-%d", se.id, idx+1), PodSandboxId: "fp0"},
	})
	if err != nil {
		return fail("after this synchronization a CreateContainer request failed: %v", err)
	}
	if rpl.GetAdjust().GetAnnotations()["verif/seen-by"] != fname {
		return fail("after this synchronization a CreateContainer request was not served by the active plugin (adjustment %v)", rpl.GetAdjust())
	}

	// --- "the plugin is not activated" -------------------------------------------------------
	// The accept loop is serial: it finished this plugin's registration (including any
	// activation) before it handled the follow-up plugin, which is active by now. Probe
	// events are delivered synchronously to every active plugin.
	if !expectActive {
		for i := 0; i < 3; i++ {
			if err := f.probe(pe); err != nil {
				return fail("probe event failed: %v", err)
			}
		}
		if n := f.w.Count(name) - base; n != 0 {
			return fail("the plugin was activated although its synchronization failed (sync error: %v, runtime-side failure: %v): it received %d probe events",
				s.err, c.RuntimeFails, n)
		}
	}

	// the handler must not be invoked again later either
	obs.mu.Lock()
	calls = obs.calls
	nchunks := obs.rpcs
	maxChunk := obs.maxChunk
	floor := false
	for _, ch := range obs.chunks {
		if ch.More && ch.P+ch.C <= minObjs {
			floor = true
		}
	}
	obs.mu.Unlock()
	if delivered && calls != 1 {
		return fail("the plugin's handler was invoked %d times, not once", calls)
	}
	if !delivered && moreDone > 0 {
		se.failedAfterChunks = true
	}
	snapshot()

	switch {
	case nchunks <= 1:
		rr.classes = append(rr.classes, "msgs:1")
	case nchunks <= 4:
		rr.classes = append(rr.classes, "msgs:2-4")
	case nchunks <= 16:
		rr.classes = append(rr.classes, "msgs:5-16")
	default:
		rr.classes = append(rr.classes, "msgs:17+")
	}
	if floor {
		rr.classes = append(rr.classes, "chunk-at-floor")
	}
	if maxChunk > msgMax {
		// cannot happen through ttrpc (both ends refuse such a message); recorded, not judged
		rr.classes = append(rr.classes, "message-over-limit-seen")
	} else if maxChunk >= msgMax-128 {
		rr.classes = append(rr.classes, "chunk-near-limit")
	}
	if delivered && nchunks > 1 {
		rr.classes = append(rr.classes, "delivered-split")
	}
	if delivered && abortedAt == 0 {
		if !predGaveUp && predMsgs == nchunks {
			rr.classes = append(rr.classes, "mirror-agrees")
		} else {
			rr.classes = append(rr.classes, "mirror-differs")
		}
	}
	return rr
}

func TestProp_C09(t *testing.T) { ev.Run(t, "C09", genC09, runC09) }

// ---------------------------------------------------------------------------------------
// directed sweep: boundary shapes around the chunk floor and the message limit

func uniform(n, size int) ListPlan { return ListPlan{N: n, Dist: "uniform", Base: size} }

func sweepCases() []C09Case {
	var out []C09Case
	round := func(p, c ListPlan) Round {
		return Round{Pods: p, Ctrs: c, Updates: []UpdPlan{{Ctr: 0, Shares: 7, Mem: 1 << 20}}}
	}
	add := func(p, c ListPlan) { out = append(out, C09Case{Round: round(p, c)}) }
	none := ListPlan{Dist: "none"}
	add(none, none)
	add(uniform(1, 0), none)
	add(none, uniform(1, maxPad))
	// the two shapes of D5 (DESIGN.md section 3)
	add(uniform(2, 0), uniform(12, 1000000))
	add(uniform(1, 0), uniform(100, 100000))
	// few pods, spaced huge containers: class (b), scaled chunk falls below the floor
	add(uniform(2, 0), ListPlan{N: 17, Dist: "fewhuge", Base: 100, Over: []At{{0, 3900000}, {8, 3900000}, {16, 3900000}}})
	// pods only / containers only / both heavy
	add(uniform(300, 100000), none)
	add(none, uniform(2000, 20000))
	add(uniform(100, 100000), uniform(100, 100000))
	add(uniform(3, 1000000), uniform(3, 1000000))
	// around the 8-object floor and the limit
	for _, n := range []int{8, 9, 10, 16, 17} {
		for _, k := range []int{8, 9, 16, 17} {
			add(uniform(1, 10), uniform(n, (msgMax-70<<10)/k))
			add(uniform(n, (msgMax-70<<10)/k), uniform(1, 10))
		}
	}
	for _, n := range []int{4, 5, 9} {
		add(uniform(n, (msgMax-70<<10)/16), uniform(n, (msgMax-70<<10)/16))
		add(uniform(n, (msgMax-70<<10)/8), uniform(n, (msgMax-70<<10)/8))
	}
	// the runtime itself fails the synchronization: unsplit and split
	add(uniform(2, 100), uniform(3, 100))
	out[len(out)-1].RuntimeFails = true
	add(uniform(3, 100), uniform(40, 300000))
	out[len(out)-1].RuntimeFails = true

	// --- histories: the same stub registers again -----------------------------------------
	aborted := func(r Round, after int) Round { r.AbortAfter = after; return r }
	tail := ListPlan{N: 104, Dist: "tailblock", Base: 100000, Over: []At{{100, 1200000}, {101, 1200000}, {102, 1200000}, {103, 1200000}}}
	// refused after chunks were accepted (the tail cannot be sent), then a transmissible state
	out = append(out, C09Case{Round: round(uniform(1, 0), tail), Next: []Round{round(uniform(1, 0), uniform(100, 1000))}})
	out = append(out, C09Case{Round: round(tail, uniform(3, 10)), Next: []Round{round(uniform(2, 10), uniform(60, 100000))}})
	// the runtime gives up after 1, 2, 3 chunks, then delivers
	out = append(out, C09Case{Round: aborted(round(uniform(1, 0), uniform(100, 100000)), 1), Next: []Round{round(uniform(2, 10), uniform(3, 10))}})
	out = append(out, C09Case{Round: aborted(round(uniform(300, 100000), uniform(5, 10)), 2),
		Next: []Round{round(uniform(4, 100), uniform(90, 100000)), round(uniform(1, 0), uniform(1, 0))}})
	out = append(out, C09Case{Round: aborted(round(uniform(20, 1000), uniform(2000, 10000)), 3),
		Next: []Round{aborted(round(uniform(20, 1000), uniform(2000, 10000)), 1), round(uniform(20, 1000), uniform(2000, 10000))}})
	// nothing is left behind by a successful split transfer or by a runtime-side failure either
	out = append(out, C09Case{Round: round(uniform(3, 100), uniform(50, 200000)), Next: []Round{round(uniform(5, 100), uniform(70, 150000)), round(none, none)}})
	// --- subscriptions: unsplit and split states, one history --------------------------------
	for _, m := range []api.EventMask{removeCtrMask, podEventMask, removeCtrMask | podEventMask, ctrEventMask,
		bit(api.Event_CREATE_CONTAINER), bit(api.Event_STOP_CONTAINER), bit(api.Event_UPDATE_POD_SANDBOX), api.ValidEvents} {
		small, split := round(uniform(2, 100), uniform(5, 100)), round(uniform(3, 100), uniform(60, 150000))
		small.Mask, split.Mask = int(m), int(m)
		out = append(out, C09Case{Round: small}, C09Case{Round: split})
	}
	mh := round(uniform(3, 100), uniform(60, 150000))
	mh.Mask = int(removeCtrMask)
	mh2 := round(uniform(1, 100), uniform(9, 480000))
	mh2.Mask = int(podEventMask)
	out = append(out, C09Case{Round: aborted(mh, 1), Next: []Round{mh2, mh}})
	// --- huge request timeouts ("no timeout") with a thousand and more objects -----------------
	for _, tmo := range []string{"max", "100y", "1h", "default"} {
		one, many := round(uniform(200, 0), uniform(1000, 0)), round(uniform(100, 100), uniform(2400, 2048))
		one.ReqTimeout, many.ReqTimeout = tmo, tmo
		out = append(out, C09Case{Round: one}, C09Case{Round: many})
	}
	// --- a failing Synchronize handler: unsplit (15 objects) and split, once / always --------
	for _, st := range []Round{round(uniform(3, 100), uniform(12, 100)), round(uniform(3, 100), uniform(50, 200<<10))} {
		for _, once := range []bool{true, false} {
			for _, e := range []ErrPlan{{Form: "status", Code: 8, Text: "resource exhausted"}, {Form: "status", Code: 14, Text: "unavailable"},
				{Form: "status", Code: 4, Text: "deadline"}, {Form: "bare", Sentinel: "ttrpc.Oversized"}, {Form: "plain", Text: "cannot place"}} {
				r, e := st, e
				e.Once = once
				r.HandlerErr = &e
				out = append(out, C09Case{Round: r})
			}
		}
	}
	// ... and the same stub registers again afterwards
	he := round(uniform(3, 100), uniform(50, 200<<10))
	he.HandlerErr = &ErrPlan{Form: "status", Code: 8, Text: "resource exhausted", Once: true}
	out = append(out, C09Case{Round: he, Next: []Round{round(uniform(3, 100), uniform(50, 200<<10))}})
	// --- the previous session's close notification arrives inside the next session ------------
	held := func(r Round, kind string, k int) Round { r.HoldPrevClose, r.HoldChunk = kind, k; return r }
	split3 := round(uniform(3, 100), uniform(40, 200<<10))
	small5 := round(uniform(2, 100), uniform(5, 100))
	out = append(out, C09Case{Round: small5, Next: []Round{held(split3, holdAfterChunk, 1)}})
	out = append(out, C09Case{Round: split3, Next: []Round{held(small5, holdFirstRequest, 0), held(split3, holdAfterChunk, 2)}})
	out = append(out, C09Case{Round: aborted(split3, 1), Next: []Round{held(split3, holdAfterChunk, 1)}})
	out = append(out, C09Case{Round: round(uniform(1, 0), tail), Next: []Round{held(split3, holdEnd, 0), held(round(uniform(300, 40000), uniform(3, 10)), holdAfterChunk, 1)}})
	out = append(out, C09Case{Round: small5, Next: []Round{held(split3, holdStart, 0), held(split3, holdFirstRequest, 0)}})
	rf := round(uniform(3, 100), uniform(50, 200000))
	rf.RuntimeFails = true
	out = append(out, C09Case{Round: rf, Next: []Round{round(uniform(3, 100), uniform(50, 200000))}})
	return out
}

func TestExh_C09(t *testing.T) {
	if i, _ := ev.Shard(); i != 0 {
		t.Skip("sweep runs in shard 0 only")
	}
	r := ev.Get("C09")
	defer r.Flush()
	n, between := 0, 0
	for _, c := range sweepCases() {
		raw := ev.Snapshot(c)
		r.Journal(raw)
		o := runC09(c)
		r.ClearJournal()
		for _, k := range o.Classes {
			if k == "hold:released-between-chunks" {
				between++
			}
		}
		// keep the sweep out of the generator-health histogram keys
		for i, k := range o.Classes {
			o.Classes[i] = "sweep/" + k
		}
		o.Classes = append([]string{"sweep"}, o.Classes...)
		r.Record(raw, o)
		n++
		if o.Fail != "" {
			r.SetExtra("sweep_cases", n)
			t.Fatalf("C09 sweep: %s", o.Fail)
		}
	}
	r.SetExtra("sweep_cases", n)
	// generator health of the hooks build (props.d floors cannot tell the two builds apart):
	// the directed histories must have placed the stale close notification between two chunks
	if verifhook.Enabled && between < 4 {
		t.Fatalf("C09 sweep: the held close notification was released between chunks in %d rounds only (expected 4): the yield point stub.connclosed is not effective", between)
	}
	runHeadTailSweep(t, r)
	runBoundarySweep(t, r)
}
