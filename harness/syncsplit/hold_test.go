package syncsplit

import (
	"sync"
	"time"

	"github.com/containerd/nri/pkg/verifhook"
)

// Timing of a session's close notification relative to the NEXT session of the same stub.
//
// The stub learns that a connection is gone from an asynchronous callback of its ttrpc
// client. After Stop(); Start() the notification of the old session can arrive at any
// point of the new session - before its first chunk, between two chunks of a split state,
// after the last one. It belongs to a session that is over and must not disturb the new one.
//
// In the hooks build the notification is HELD at the yield point "stub.connclosed" (it sits
// in front of connClosed(), before any lock is taken) from the beginning of round k and
// released at the point of round k+1 the case names (Round.HoldPrevClose). All stubs of the
// process pass the same yield point; the cases run one at a time, so what is held besides
// the notification of the stub under test are only those of the follow-up plugins, which
// are never restarted. Without hooks the timing cannot be steered: such a round then
// restarts the stub at once (no settling after Stop), so that the overlap is at least possible.

const (
	holdStart        = "start"         // released just before this round's Start (control)
	holdFirstRequest = "first-request" // when the first Synchronize request of this round has arrived, before the stub handles it
	holdAfterChunk   = "after-chunk"   // after the stub accepted the HoldChunk-th "more" chunk, before the reply leaves
	holdEnd          = "end"           // after the runtime's SyncFn returned
)

var holdKinds = []string{holdAfterChunk, holdAfterChunk, holdAfterChunk, holdFirstRequest, holdEnd, holdStart}

type closeGate struct {
	mu    sync.Mutex
	armed bool
	ch    chan struct{}
	held  int // notifications that waited at the gate since it was armed
}

var gate closeGate

func (g *closeGate) arm() {
	g.mu.Lock()
	if !g.armed {
		g.armed, g.ch, g.held = true, make(chan struct{}), 0
	}
	g.mu.Unlock()
}

// release lets every held (and any later) notification through; it returns how many waited.
func (g *closeGate) release() int {
	g.mu.Lock()
	defer g.mu.Unlock()
	if g.armed {
		g.armed = false
		close(g.ch)
	}
	return g.held
}

// hook is installed with verifhook.Set in the hooks build.
func (g *closeGate) hook(point string) {
	if point != "stub.connclosed" {
		return
	}
	g.mu.Lock()
	if !g.armed {
		g.mu.Unlock()
		return
	}
	ch := g.ch
	g.held++
	g.mu.Unlock()
	select {
	case <-ch:
	case <-time.After(60 * time.Second): // never wedge a notification for good
	}
}

func installHooks() {
	if verifhook.Enabled {
		verifhook.Set(gate.hook)
	}
}
