package syncsplit

import (
	"os"
	"runtime"
	"testing"
)

// temporary: provoke "sync failed before stub.Start returned"
func TestTmpRace(t *testing.T) {
	if os.Getenv("C09_TMP") == "" {
		t.Skip()
	}
	runtime.GOMAXPROCS(1)
	c := C09Case{Pods: ListPlan{Dist: "none"}, Ctrs: uniform(2, 2148694)}
	seen := map[string]int{}
	for i := 0; i < 3000; i++ {
		o := runC09(c)
		if o.Fail != "" {
			t.Fatalf("iteration %d: %s", i, o.Fail)
		}
		for _, l := range o.Lenient {
			seen[l]++
		}
		if o.Excluded != "" {
			seen["excluded:"+o.Excluded]++
		}
	}
	t.Logf("%v", seen)
}
