package syncsplit

import (
	"testing"

	"github.com/containerd/nri/pkg/api"
	"google.golang.org/protobuf/encoding/protowire"
	"google.golang.org/protobuf/proto"
	"pgregory.net/rapid"

	"nriverif/ev"
)

// Plan family "heavy head, long light tail": a few objects of 600-900 kB that together
// nearly fill a message, in front of (or inside, or alternating with) thousands of objects
// of ~200 bytes. The sender scales object COUNTS by the byte ratio (at most -10 % per
// rejection), so with the bytes at the head of the list a transmissible state legitimately
// needs dozens of oversize rejections before its first chunk fits. All these states are
// class (b): every run of 8 objects fits, they must be delivered.

// hardMaxObjs bounds either list of a replayed / directed case ("from zero to thousands").
const hardMaxObjs = 20000

// mirrorSender replays the sender's arithmetic (synchronize + recalcObjsPerSyncMsg) on the
// encoded element sizes of a state and counts the oversize rejections and the messages that
// go through. It classifies cases and is compared with what the plugin observed
// (mirror-agrees / mirror-differs); no verdict depends on it.
func mirrorSender(pods []*api.PodSandbox, ctrs []*api.Container) (rejections, accepted int, gaveUp bool) {
	elem := func(n int) int { return 1 + protowire.SizeVarint(uint64(n)) + n }
	pp := make([]int, len(pods)+1) // prefix sums
	for i, p := range pods {
		pp[i+1] = pp[i] + elem(proto.Size(p))
	}
	cp := make([]int, len(ctrs)+1)
	for i, c := range ctrs {
		cp[i+1] = cp[i] + elem(proto.Size(c))
	}
	pi, ci, pn, cn := 0, 0, len(pods), len(ctrs)
	for guard := 0; guard < 1000000; guard++ {
		more := pi+pn < len(pods) || ci+cn < len(ctrs)
		size := pp[pi+pn] - pp[pi] + cp[ci+cn] - cp[ci]
		if more {
			size += 2
		}
		if size+envGuess <= msgMax {
			accepted++
			if !more {
				return rejections, accepted, false
			}
			pi, ci = pi+pn, ci+cn
			pn, cn = min(pn, len(pods)-pi), min(cn, len(ctrs)-ci)
			continue
		}
		if pn+cn <= minObjs {
			return rejections, accepted, true
		}
		rejections++
		pn, cn = predictChunk(pn, cn, size+envGuess, len(pods)-pi, len(ctrs)-ci)
	}
	return rejections, accepted, true
}

func rejectionBand(n int) string {
	switch {
	case n == 0:
		return "rejections:0"
	case n <= 4:
		return "rejections:1-4"
	case n <= 16:
		return "rejections:5-16"
	}
	return "rejections:17+"
}

// headTail builds one list: `light` objects of `small` padding bytes with runs of heavy
// objects at the given start indices (each run: k objects of `size` bytes).
func headTail(light, small, k, size int, starts []int, where string) ListPlan {
	l := ListPlan{N: light + k*len(starts), Dist: where, Base: small}
	for _, s := range starts {
		for i := 0; i < k; i++ {
			l.Over = append(l.Over, At{I: s + i, Size: size})
		}
	}
	return l
}

// genHeadTail draws a state of the family. Tail lengths are tier dependent: a 20000 object
// state costs seconds.
func genHeadTail(t *rapid.T) (ListPlan, ListPlan) {
	k := rapid.IntRange(3, 6).Draw(t, "ht-k")
	// the heavy run alone nearly fills a message: 3.95 .. 4.10 MB, every 8-run still fits
	sum := 4100000 - rapid.IntRange(0, 150000).Draw(t, "ht-under")
	size := sum / k
	if size > 900000 {
		size = 900000
	}
	maxTail := ev.Pick(8000, hardMaxObjs-64)
	light := maxTail - rapid.IntRange(0, maxTail-1000).Draw(t, "ht-tail") // drawn from the top
	small := 200 - rapid.IntRange(0, 200).Draw(t, "ht-small")
	var heavy ListPlan
	switch rapid.SampledFrom([]string{"head", "head", "head", "middle", "alternating"}).Draw(t, "ht-where") {
	case "head":
		heavy = headTail(light, small, k, size, []int{0}, "heavyhead")
	case "middle":
		heavy = headTail(light, small, k, size, []int{rapid.IntRange(light/8, light/2).Draw(t, "ht-at")}, "heavymiddle")
	default:
		// heavy runs separated by light runs of at least 8 objects (no 8-run spans two of them)
		runs := rapid.IntRange(2, 6).Draw(t, "ht-runs")
		var starts []int
		at := 0
		for i := 0; i < runs; i++ {
			starts = append(starts, at)
			at += k + rapid.IntRange(minObjs, light/runs).Draw(t, "ht-gap")
		}
		if at > light+k*runs {
			light = at - k*runs
		}
		heavy = headTail(light, small, k, size, starts, "heavyalternating")
	}
	heavy.Field = rapid.IntRange(0, 3).Draw(t, "ht-field")
	other := genList(t, "ht-other", rapid.IntRange(0, 4).Draw(t, "ht-other-n"), 4, rapid.IntRange(0, 2000).Draw(t, "ht-other-bytes"), lightD)
	if rapid.IntRange(0, 3).Draw(t, "ht-in-pods") == 0 {
		return heavy, other
	}
	return other, heavy
}

func headTailSweep() []C09Case {
	var out []C09Case
	add := func(p, c ListPlan) { out = append(out, C09Case{Round: bround(p, c)}) }
	none := ListPlan{Dist: "none"}
	// the seeder's state: 2 small pods, 5 containers of ~820 kB, 20000 containers of ~200 B
	add(uniform(2, 50), headTail(hardMaxObjs-5, 120, 5, 820000, []int{0}, "heavyhead"))
	// the same bytes at the tail (control) and in the pod list
	add(uniform(2, 50), headTail(4000, 120, 5, 820000, []int{4000}, "heavytail"))
	add(headTail(3000, 100, 4, 1000000, []int{0}, "heavyhead"), uniform(3, 10))
	// a shorter tail behind a head that leaves only ~70 kB of a message free (27 rejections)
	add(uniform(1, 0), headTail(5000, 120, 5, 824000, []int{0}, "heavyhead"))
	// middle, alternating
	add(none, headTail(4000, 150, 6, 670000, []int{1500}, "heavymiddle"))
	add(uniform(1, 0), headTail(3000, 100, 3, 900000, []int{0, 700, 1500, 2400}, "heavyalternating"))
	if ev.Thorough() {
		add(uniform(2, 50), headTail(8000, 120, 5, 820000, []int{0}, "heavyhead"))
		add(uniform(2, 50), headTail(2000, 120, 5, 820000, []int{0}, "heavyhead"))
		add(headTail(hardMaxObjs-4, 80, 4, 1010000, []int{0}, "heavyhead"), none)
		add(headTail(8000, 200, 3, 900000, []int{4000}, "heavymiddle"), uniform(9, 100000))
		add(none, headTail(hardMaxObjs-6, 60, 6, 680000, []int{10000}, "heavymiddle"))
		add(none, headTail(12000, 100, 4, 1000000, []int{0, 3000, 6000, 9000, 11990}, "heavyalternating"))
		add(uniform(3, 0), headTail(8000, 0, 5, 810000, []int{100, 200, 300, 400, 500, 600, 700}, "heavyalternating"))
	}
	return out
}

func runHeadTailSweep(t *testing.T, r *ev.Recorder) {
	n := 0
	for _, c := range headTailSweep() {
		raw := ev.Snapshot(c)
		r.Journal(raw)
		o := runC09(c)
		r.ClearJournal()
		var keep []string
		for _, k := range o.Classes {
			if len(k) > 11 && k[:11] == "rejections:" || k == "mirror-agrees" || k == "mirror-differs" {
				keep = append(keep, "htsweep/"+k)
			}
		}
		kind := c.Ctrs.Dist
		if len(c.Pods.Dist) > 5 && c.Pods.Dist[:5] == "heavy" {
			kind = "pods-" + c.Pods.Dist
		}
		o.Classes = append([]string{"htsweep", "htsweep/" + kind}, keep...)
		r.Record(raw, o)
		n++
		if o.Fail != "" {
			r.SetExtra("headtail_points", n)
			t.Fatalf("C09 heavy-head sweep: %s", o.Fail)
		}
	}
	r.SetExtra("headtail_points", n)
}
