package syncsplit

import (
	"fmt"
	"testing"

	"github.com/containerd/nri/pkg/api"
	"google.golang.org/protobuf/proto"

	"nriverif/ev"
)

// Boundary sweep: states whose encoded SynchronizeRequest - the whole state, or the chunk
// the sender will form first (or second) after a rejection - is exactly msgMax+d bytes, for
// every d in -64..+64. Random sizes practically never fall into that window, and it is where
// a size test that is off by a constant, or that measures a slightly different quantity
// (payload vs payload plus the ~53 byte ttrpc envelope), misbehaves.
//
// The encoder (proto.Size on real requests) is the ruler. To aim a CHUNK at the limit the
// construction has to guess which objects the sender will put into it; predictChunk mirrors
// the sender's arithmetic for that purpose only. A wrong guess costs the aim, never the
// verdict: every point is an ordinary case judged by runC09 (all points are class (b): 40
// and more objects of ~100-230 kB, so the state must be delivered exactly), and whether a
// message within 128 bytes of the limit really went over the wire is observed at the plugin
// (class chunk-near-limit) and has a floor in props.d.

const envGuess = 53 // ttrpc request envelope around the payload, for aiming only

func setOver(l *ListPlan, i, size int) {
	for k := range l.Over {
		if l.Over[k].I == i {
			l.Over[k].Size = size
			return
		}
	}
	l.Over = append(l.Over, At{I: i, Size: size})
	for k := len(l.Over) - 1; k > 0 && l.Over[k-1].I > l.Over[k].I; k-- {
		l.Over[k-1], l.Over[k] = l.Over[k], l.Over[k-1]
	}
}

func sizeAt(l ListPlan, i int) int {
	for _, o := range l.Over {
		if o.I == i {
			return o.Size
		}
	}
	return l.Base
}

func buildRound(r Round) ([]*api.PodSandbox, []*api.Container) {
	rs, err := r.validate()
	if err != nil {
		return nil, nil
	}
	pods := buildPods(r.Pods, rs.pods, "")
	return pods, buildCtrs(r.Ctrs, rs.ctrs, pods, "")
}

// window names a message: pods[p0:p0+pn] and ctrs[c0:c0+cn] with the More flag.
type window struct {
	p0, pn, c0, cn int
	more           bool
}

func (w window) size(r Round) int {
	pods, ctrs := buildRound(r)
	if pods == nil && ctrs == nil && r.Pods.N+r.Ctrs.N > 0 {
		return -1
	}
	return proto.Size(&api.SynchronizeRequest{Pods: pods[w.p0 : w.p0+w.pn], Containers: ctrs[w.c0 : w.c0+w.cn], More: w.more})
}

// tune changes the padding of container a (coarse) and container b (fine; the two have
// different sizes, so their length prefixes do not change width at the same point) until
// the window's encoding is exactly target bytes long.
func tune(r *Round, w window, a, b, target int) bool {
	for it := 0; it < 8; it++ {
		cur := w.size(*r)
		if cur < 0 {
			return false
		}
		if cur == target {
			return true
		}
		ns := sizeAt(r.Ctrs, a) + target - cur
		if ns < 0 || ns > maxPad {
			return false
		}
		setOver(&r.Ctrs, a, ns)
	}
	sa, sb := sizeAt(r.Ctrs, a), sizeAt(r.Ctrs, b)
	for da := -4; da <= 4; da++ {
		for db := 0; db <= 4; db++ {
			if sa+da < 0 {
				continue
			}
			setOver(&r.Ctrs, a, sa+da)
			setOver(&r.Ctrs, b, sb+db)
			if w.size(*r) == target {
				return true
			}
		}
	}
	return false
}

// predictChunk mirrors recalcObjsPerSyncMsg plus the clamping in synchronize: the counts
// the sender will try after a message of msgLen bytes holding p pods and c containers was
// refused. Used for aiming only.
func predictChunk(p, c, msgLen, remP, remC int) (int, int) {
	factor := float64(msgMax) / float64(msgLen)
	if factor > 0.9 {
		factor = 0.9
	}
	scale := func(n int) int {
		if s := int(float64(n) * factor); s > 0 || n == 0 {
			return s
		}
		return 1
	}
	p, c = scale(p), scale(c)
	if p+c < minObjs {
		p, c = minObjs/2, minObjs/2
	}
	return min(p, remP), min(c, remC)
}

type bpoint struct {
	kind string
	d    int
	c    C09Case
}

func bround(p, c ListPlan) Round {
	return Round{Pods: p, Ctrs: c, Updates: []UpdPlan{{Ctr: 0, Shares: 3, Mem: 1 << 20}}}
}

// wholePoint: the whole state (np pods and nc containers of about equal size) encodes to
// exactly msgMax+d bytes.
func wholePoint(np, nc, d int) (C09Case, bool) {
	u := msgMax/(np+nc) - 80
	r := bround(uniform(np, u), uniform(nc, u))
	r.Pods.Dist, r.Ctrs.Dist = "boundary", "boundary"
	ok := tune(&r, window{0, np, 0, nc, false}, 0, 1, msgMax+d)
	return C09Case{Round: r}, ok
}

// chunkPoint: a state of about 2.3 limits whose first (which=1) or second (which=2) chunk
// after the rejection of the whole state encodes to exactly msgMax+d bytes.
func chunkPoint(np, nc, which, d int) (C09Case, bool) {
	n := np + nc
	// n*f (f = limit/whole) decides the chunk's object count; start it near x.6 so that the
	// few hundred kB added by the steering object do not move it across an integer
	for _, objs := range []float64{19.6, 18.6, 20.6, 17.6} {
		u := int(float64(msgMax)/objs) - 80
		r := bround(uniform(np, u), uniform(nc, u))
		r.Pods.Dist, r.Ctrs.Dist = "boundary", "boundary"
		var last window
		for it := 0; it < 6; it++ {
			whole := window{0, np, 0, nc, false}.size(r)
			pp, cc := predictChunk(np, nc, whole+envGuess, np, nc)
			w := window{0, pp, 0, cc, pp < np || cc < nc}
			if which == 2 {
				p2, c2 := min(pp, np-pp), min(cc, nc-cc)
				w = window{pp, p2, cc, c2, pp+p2 < np || cc+c2 < nc}
			}
			if w.cn < 2 {
				break
			}
			if !tune(&r, w, w.c0, w.c0+1, msgMax+d) {
				break
			}
			if it > 0 && w == last {
				// stable; make sure the guess does not hinge on the envelope's exact length
				whole = window{0, np, 0, nc, false}.size(r)
				p1, c1 := predictChunk(np, nc, whole+envGuess-40, np, nc)
				p2, c2 := predictChunk(np, nc, whole+envGuess+40, np, nc)
				if p1 == p2 && c1 == c2 && (which == 2 || window{0, p1, 0, c1, w.more} == w) {
					if which == 2 {
						// the first chunk has to go through for the second one to be formed
						if (window{0, pp, 0, cc, true}).size(r)+envGuess+64 > msgMax {
							break
						}
					}
					return C09Case{Round: r}, true
				}
				break
			}
			last = w
		}
	}
	_ = n
	return C09Case{}, false
}

func boundaryPoints() []bpoint {
	var out []bpoint
	add := func(kind string, d int, c C09Case, ok bool) {
		if ok {
			out = append(out, bpoint{kind, d, c})
		} else {
			out = append(out, bpoint{kind + "-unbuilt", d, C09Case{}})
		}
	}
	for d := -64; d <= 64; d++ {
		// quick tier: every offset up to +16 (whole) / +8 (chunk), then every fourth - further
		// above the limit nothing distinguishes one offset from the next
		if ev.Thorough() || d <= 16 || d%4 == 0 {
			c, ok := wholePoint(0, 40, d)
			add("whole", d, c, ok)
		}
		if ev.Thorough() || d <= 8 || d%4 == 0 {
			c, ok := chunkPoint(0, 44, 1, d)
			add("chunk1", d, c, ok)
		}
		if ev.Thorough() {
			c, ok := wholePoint(20, 20, d)
			add("whole-mixed", d, c, ok)
			c, ok = wholePoint(1, 16, d)
			add("whole-17", d, c, ok)
			c, ok = chunkPoint(0, 44, 2, d)
			add("chunk2", d, c, ok)
			c, ok = chunkPoint(10, 34, 1, d)
			add("chunk1-mixed", d, c, ok)
		}
	}
	return out
}

func runBoundarySweep(t *testing.T, r *ev.Recorder) {
	n, unbuilt := 0, 0
	for _, bp := range boundaryPoints() {
		if bp.c.Pods.N+bp.c.Ctrs.N == 0 {
			unbuilt++
			continue
		}
		raw := ev.Snapshot(bp.c)
		r.Journal(raw)
		o := runC09(bp.c)
		r.ClearJournal()
		band := "d>0"
		switch {
		case bp.d < -envGuess:
			band = "d<-53"
		case bp.d < 0:
			band = "d-53..-1"
		case bp.d == 0:
			band = "d=0"
		}
		near := false
		for _, k := range o.Classes {
			if k == "chunk-near-limit" {
				near = true
			}
		}
		o.Classes = []string{"bsweep", "bsweep/" + bp.kind, "bsweep/" + band}
		if near {
			o.Classes = append(o.Classes, "bsweep/chunk-near-limit", "bsweep/"+bp.kind+"/near-limit-message-seen")
		}
		r.Record(raw, o)
		n++
		if o.Fail != "" {
			r.SetExtra("boundary_points", n)
			t.Fatalf("C09 boundary sweep (%s, encoded size = limit%+d): %s", bp.kind, bp.d, o.Fail)
		}
	}
	r.SetExtra("boundary_points", n)
	r.SetExtra("boundary_points_unbuilt", unbuilt)
	if unbuilt > n/10 {
		t.Fatalf("C09 boundary sweep: %d of %d points could not be constructed", unbuilt, n+unbuilt)
	}
}

// TestBoundaryAim documents (and checks) what the constructions produce: exact sizes.
func TestBoundaryAim(t *testing.T) {
	for _, d := range []int{-64, -53, -1, 0, 1, 64} {
		c, ok := wholePoint(0, 40, d)
		if !ok {
			t.Fatalf("whole %d: not constructed", d)
		}
		if got := (window{0, 0, 0, 40, false}).size(c.Round); got != msgMax+d {
			t.Fatalf("whole %d: size %d", d, got)
		}
		for _, which := range []int{1, 2} {
			if _, ok := chunkPoint(0, 44, which, d); !ok {
				t.Fatalf("chunk%d %d: not constructed", which, d)
			}
		}
	}
	_ = fmt.Sprint
}
