package launch

import (
	"fmt"
	"io"
	"os"
	"path/filepath"
	"strconv"
	"strings"
	"sync"
	"syscall"
	"testing"
	"time"
	"unicode/utf8"

	"github.com/containerd/nri/pkg/adaptation"
	"github.com/sirupsen/logrus"

	"nriverif/ev"
)

// Process-wide timeouts (nri's setters are process-wide). Healthy latencies measured on this
// box: launch to registered ≈ 7 ms per plugin, one request through one plugin < 1 ms, a
// dropped plugin's process gone ≤ 1 ms after the request returned (nri kills it from a
// goroutine; all other kills are synchronous). Every bound is ≥ 100 times the typical value.
// A plugin that never registers costs one registration timeout, a plugin that hangs in a
// handler one request timeout; at most one of each is generated per case. The thorough tier
// runs 16 shards side by side and doubles the registration timeout.
var regTimeout = time.Duration(ev.Pick(1000, 2000)) * time.Millisecond

const (
	reqTimeout = 1 * time.Second
	// how long a process nri stopped or dropped may take to disappear
	deathBound = 1 * time.Second
	// harness-side synchronisation (a probe's own exit, an external plugin's registration):
	// not a clause of the property; exceeding it discards the case as overloaded
	syncBound = 10 * time.Second
	// time given to nri to notice a closed connection (typical: well below 1 ms) before an
	// external plugin registers; matters for sensitivity only, never for a verdict
	noticeGrace = 50 * time.Millisecond
)

var (
	probeSrc  string // $VERIF_BIN/probeplugin
	masterDir string // per-process copies of the probe binary, one per file mode
	masterMu  sync.Mutex
	masters   = map[uint32]string{}

	// every process the probes reported, for the final sweep
	allPidsMu sync.Mutex
	allPids   = map[int]string{} // pid -> start time
)

func validUTF8(s string) bool { return utf8.ValidString(s) }

func TestMain(m *testing.M) {
	logrus.SetLevel(logrus.PanicLevel)
	logrus.SetOutput(io.Discard)
	adaptation.SetPluginRegistrationTimeout(regTimeout)
	adaptation.SetPluginRequestTimeout(reqTimeout)

	// Descriptors this test process inherited without close-on-exec are the environment's,
	// not nri's: normalise them so that they cannot be mistaken for a leak.
	if ents, err := os.ReadDir("/proc/self/fd"); err == nil {
		for _, e := range ents {
			if n, err := strconv.Atoi(e.Name()); err == nil && n > 2 {
				syscall.CloseOnExec(n)
			}
		}
	}

	if bin := os.Getenv("VERIF_BIN"); bin != "" {
		probeSrc = filepath.Join(bin, "probeplugin")
	}
	var err error
	masterDir, err = os.MkdirTemp("/tmp", "nv18m")
	if err != nil {
		fmt.Fprintln(os.Stderr, "cannot create scratch directory:", err)
		os.Exit(2)
	}
	code := m.Run()
	sweepProcesses()
	os.RemoveAll(masterDir)
	os.Exit(code)
}

// master returns a per-process copy of the probe binary with the given mode; plugin files
// are hard links to it (the mode lives in the inode, so one copy per mode).
func master(mode uint32) (string, error) {
	masterMu.Lock()
	defer masterMu.Unlock()
	if p, ok := masters[mode]; ok {
		return p, nil
	}
	if probeSrc == "" {
		return "", fmt.Errorf("VERIF_BIN is not set (directory holding the built probeplugin)")
	}
	in, err := os.Open(probeSrc)
	if err != nil {
		return "", err
	}
	defer in.Close()
	dst := filepath.Join(masterDir, fmt.Sprintf("probe.%03o", mode))
	out, err := os.OpenFile(dst, os.O_CREATE|os.O_WRONLY|os.O_EXCL, 0o600)
	if err != nil {
		return "", err
	}
	if _, err := io.Copy(out, in); err != nil {
		out.Close()
		return "", err
	}
	if err := out.Close(); err != nil {
		return "", err
	}
	if err := os.Chmod(dst, os.FileMode(mode)); err != nil {
		return "", err
	}
	masters[mode] = dst
	return dst, nil
}

// install places a copy of the probe with the given mode at dst (hard link, else copy).
func install(dst string, mode uint32) error {
	src, err := master(mode)
	if err != nil {
		return err
	}
	if err := os.Link(src, dst); err == nil {
		return nil
	}
	in, err := os.Open(probeSrc)
	if err != nil {
		return err
	}
	defer in.Close()
	out, err := os.OpenFile(dst, os.O_CREATE|os.O_WRONLY|os.O_EXCL, 0o600)
	if err != nil {
		return err
	}
	if _, err := io.Copy(out, in); err != nil {
		out.Close()
		return err
	}
	if err := out.Close(); err != nil {
		return err
	}
	return os.Chmod(dst, os.FileMode(mode))
}

// procState reports whether process pid with the given start time (field 22 of
// /proc/<pid>/stat) is still a live process. A zombie, a vanished pid, or a pid that now
// belongs to another process (different start time) all mean "not alive".
func procAlive(pid int, start string) (alive bool, state string) {
	b, err := os.ReadFile("/proc/" + strconv.Itoa(pid) + "/stat")
	if err != nil {
		return false, "gone"
	}
	s := string(b)
	i := strings.LastIndexByte(s, ')')
	if i < 0 {
		return false, "gone"
	}
	f := strings.Fields(s[i+1:])
	if len(f) < 20 {
		return false, "gone"
	}
	if start != "" && f[19] != start {
		return false, "reused"
	}
	switch f[0] {
	case "Z", "X", "x":
		return false, f[0]
	}
	return true, f[0]
}

// waitDead polls until the process is not alive or the bound expires.
func waitDead(pid int, start string, bound time.Duration) (dead bool, state string, took time.Duration) {
	t0 := time.Now()
	for {
		alive, st := procAlive(pid, start)
		if !alive {
			return true, st, time.Since(t0)
		}
		if time.Since(t0) > bound {
			return false, st, time.Since(t0)
		}
		time.Sleep(500 * time.Microsecond)
	}
}

// waitGone polls until the process has been waited for — its pid is gone or belongs to
// another process — or the bound expires. A zombie is not gone.
func waitGone(pid int, start string, bound time.Duration) (gone bool, state string, took time.Duration) {
	t0 := time.Now()
	for {
		_, st := procAlive(pid, start)
		if st == "gone" || st == "reused" {
			return true, st, time.Since(t0)
		}
		if time.Since(t0) > bound {
			return false, st, time.Since(t0)
		}
		time.Sleep(500 * time.Microsecond)
	}
}

func trackPid(pid int, start string) {
	allPidsMu.Lock()
	allPids[pid] = start
	allPidsMu.Unlock()
}

// killIfAlive kills a probe process that is still around (same pid and start time).
func killIfAlive(pid int, start string) {
	if alive, _ := procAlive(pid, start); alive && start != "" {
		syscall.Kill(pid, syscall.SIGKILL)
	}
}

func sweepProcesses() {
	allPidsMu.Lock()
	defer allPidsMu.Unlock()
	for pid, st := range allPids {
		killIfAlive(pid, st)
	}
}
