package launch

// C18 — case type and generator.
//
// A case is the complete content of a plugin directory and of a drop-in directory, the
// descriptors the runtime holds while it starts nri, and the lifecycle requests it sends.

import (
	"encoding/json"
	"fmt"
	"sort"
	"strconv"
	"strings"
	"time"

	"github.com/containerd/nri/pkg/api"
	"pgregory.net/rapid"

	"nriverif/ev"
)

// behaviours of a launched executable (see cmd/probeplugin)
const (
	bOK        = "ok"
	bExit      = "exit"        // exits at once (K = exit status)
	bSleep     = "sleep"       // never registers, lingers
	bCloseFD   = "closefd"     // closes the socket without registering, lingers
	bCfgFail   = "cfgfail"     // fails Configure
	bCfgHang   = "cfghang"     // never answers Configure (nri's request timeout), lingers until killed
	bBadMask   = "badmask"     // speaks ttrpc itself: registers, answers Configure asking for events the runtime does not know (variant K)
	bSyncFail  = "syncfail"    // fails Synchronize
	bSyncHang  = "synchang"    // never answers Synchronize (request timeout), lingers until killed
	bSyncClose = "syncclose"   // closes its connection instead of answering Synchronize, keeps running
	bDie       = "die"         // exits inside the handler of its K-th lifecycle event
	bDieAfter  = "dieafter"    // exits right after answering its K-th lifecycle event
	bLinger    = "lingerafter" // closes its connection right after answering its K-th lifecycle event, keeps running
	bCloseAt   = "closeat"     // closes its connection inside the handler of its K-th lifecycle event, keeps running
	bHang      = "hang"        // never answers its K-th lifecycle event
	bGarbage   = "garbage"     // executable regular file that is no program: fails to start
)

// Mode is a set of permission bits; in JSON an octal string ("0755").
type Mode uint32

func (m Mode) MarshalJSON() ([]byte, error) { return []byte(fmt.Sprintf("\"%04o\"", uint32(m))), nil }

func (m *Mode) UnmarshalJSON(b []byte) error {
	var s string
	if err := json.Unmarshal(b, &s); err != nil {
		return err
	}
	v, err := strconv.ParseUint(s, 8, 32)
	if err != nil {
		return err
	}
	*m = Mode(v)
	return nil
}

// Plugin is one executable regular file NN-<stem>_<behaviour>[K] in the plugin directory.
type Plugin struct {
	Idx     string `json:"idx"`
	Stem    string `json:"stem"`
	Behav   string `json:"behav"`
	K       int    `json:"k,omitempty"`
	Mode    Mode   `json:"mode"`              // permission bits, at least one execute bit
	Garbage string `json:"garbage,omitempty"` // content kind of a garbage file: empty, text, elf
	// Link: the directory entry is a symbolic link to the real file kept outside the plugin
	// directory. Such an entry is not a regular file: whether nri launches it is counted, not judged.
	Link bool `json:"link,omitempty"`
}

func (p Plugin) hasK() bool {
	switch p.Behav {
	case bExit, bBadMask, bDie, bDieAfter, bLinger, bCloseAt, bHang:
		return true
	}
	return false
}

// failsAtSync: the plugin registers and is configured, and fails when nri synchronizes it.
func (p Plugin) failsAtSync() bool {
	return p.Behav == bSyncFail || p.Behav == bSyncHang || p.Behav == bSyncClose
}

// reachesSync: the plugin gets through nri's start() and is handed to the synchronization.
func (p Plugin) reachesSync() bool { return p.startsUp() || p.failsAtSync() }

// failsAtEvent: the plugin starts up all right and fails at its K-th lifecycle event.
func (p Plugin) failsAtEvent() bool {
	switch p.Behav {
	case bDie, bDieAfter, bLinger, bCloseAt, bHang:
		return true
	}
	return false
}

// failsAfterAnswer: the failure happens on the plugin's own initiative after it answered
// its K-th event; nri notices it later (closed connection) and drops the plugin then.
func (p Plugin) failsAfterAnswer() bool { return p.Behav == bDieAfter || p.Behav == bLinger }

// Base is the plugin name nri derives from the file name (everything after the first dash).
func (p Plugin) Base() string {
	s := p.Stem + "_" + p.Behav
	if p.hasK() {
		s += fmt.Sprint(p.K)
	}
	return s
}

// File is the file name in the plugin directory.
func (p Plugin) File() string { return p.Idx + "-" + p.Base() }

// reachesConfigure: the process registers and is sent Configure.
func (p Plugin) reachesConfigure() bool {
	switch p.Behav {
	case bOK, bCfgFail, bCfgHang, bBadMask, bSyncFail, bSyncHang, bSyncClose, bDie, bDieAfter, bLinger, bCloseAt, bHang:
		return true
	}
	return false
}

// startsUp: the process gets through registration, configuration and synchronization.
func (p Plugin) startsUp() bool {
	switch p.Behav {
	case bOK, bDie, bDieAfter, bLinger, bCloseAt, bHang:
		return true
	}
	return false
}

// Entry is something else in the plugin directory: a non-executable file or a directory.
type Entry struct {
	Name    string `json:"name"`
	Kind    string `json:"kind"`              // file | dir | dirlink | filelink | fifo | sock | fifolink | socklink | devlink (the last five: not regular files, with execute bits)
	Mode    Mode   `json:"mode"`              // files: no execute bit
	Content string `json:"content,omitempty"` // files: text | empty | probe (a copy of the probe binary)
	Inner   string `json:"inner,omitempty"`   // dirs: name of an executable probe placed inside
}

// Ext is an external plugin: an in-process stub that connects to nri's socket. It registers
// in slot Join and leaves (stops its stub) in slot Leave; slot i lies before request i
// (slot len(ops) lies between the last request and Stop). Leave = len(ops)+1: it stays until
// after Stop. In a slot, leaves happen before joins.
type Ext struct {
	Idx   string `json:"idx"`
	Name  string `json:"name"`
	Join  int    `json:"join"`
	Leave int    `json:"leave"`
}

func (x Ext) Key() string { return "ext/" + x.Idx + "-" + x.Name }

// Conf is one regular file in the drop-in directory.
type Conf struct {
	File    string `json:"file"`
	Content string `json:"content"`
	Link    bool   `json:"link,omitempty"` // the drop-in is a symbolic link to the file kept elsewhere
}

type C18Case struct {
	Plugins     []Plugin `json:"plugins"`
	Others      []Entry  `json:"others,omitempty"`
	Confs       []Conf   `json:"confs,omitempty"`
	NoPluginDir bool     `json:"no_plugin_dir,omitempty"` // only with no plugins and no other entries
	NoConfDir   bool     `json:"no_conf_dir,omitempty"`   // only with no drop-in files
	Ops         []string `json:"ops"`                     // lifecycle requests, in order
	Held        []string `json:"held,omitempty"`          // descriptors the runtime holds: file dir unix tcp pipe
	Listen      bool     `json:"listen,omitempty"`        // external plugin socket enabled (always with Exts)
	Exts        []Ext    `json:"exts,omitempty"`
	// RegTimeoutMs overrides nri's registration timeout for this case (0: the tier's default).
	// Used by the "stacked waits" shape: several plugins that never register (or never
	// answer Configure) ahead of a healthy one, whose runtime-side waits add up to more than
	// the 5 s a stub-based plugin itself allows for its registration.
	RegTimeoutMs int `json:"reg_timeout_ms,omitempty"`
	// ReqTimeoutMs overrides nri's request timeout for this case (0: 1 s). Cases with a
	// multi-megabyte synchronization state use 5 s: one such Synchronize takes ≈ 100 ms here.
	ReqTimeoutMs int `json:"req_timeout_ms,omitempty"`
	SyncPods     int `json:"sync_pods,omitempty"`
	SyncCtrs     int `json:"sync_ctrs,omitempty"`
	// SyncCtrKiB: every container handed out by the runtime's SyncFn carries an annotation of
	// that many KiB (0: none). ttrpc messages are limited to 4 MiB: 19 x 200 KiB stays just
	// below, 40 x 200 KiB is well above and has to be sent to each plugin in several messages.
	SyncCtrKiB int `json:"sync_ctr_kib,omitempty"`
	// SyncFn is what the runtime's own synchronization function does during Start:
	// "" succeeds; "fail_before" returns an error without calling nri's plugin-sync callback
	// (listing pods failed); "fail_after" calls the callback and then returns an error
	// (applying the plugins' updates failed). Start then fails as a whole.
	SyncFn string `json:"runtime_syncfn,omitempty"`
	// StopAfter is when the runtime calls Stop relative to the return of the last request:
	// "" after the harness has watched the last request's drops complete (settled); "0"
	// immediately, "1ms", "20ms", "500ms" that much later — in these cases nothing is
	// waited for or looked at between the last request and Stop.
	StopAfter string `json:"stop_after,omitempty"`
	// StartThread is where the runtime calls Start from: "" an ordinary goroutine;
	// "locked_thread_exits" a goroutine that locked itself to its OS thread and ends right
	// after Start returned without unlocking (Go then terminates that thread); the first
	// request follows 300 ms later.
	StartThread string `json:"start_thread,omitempty"`
	// PluginPath / ConfPath: the shape of the path handed to WithPluginPath /
	// WithPluginConfigPath: "" the directory itself; symlink (a symbolic link to it);
	// symlink2 (a link to a link); symparent (a symbolic link among the parent components);
	// slash (trailing slash); dots ("/./" and "//" inside); relative (relative to the
	// working directory of the process); dot, dotslash, dotdot (".", "./", "./.": the
	// directory is the working directory); rel_parent, rel_dotparent, rel_updown, rel_sibling
	// ("p", "./p", "reports/../p", "../p": relative with a directory component, the working
	// directory being the parent resp. a sibling). At most one of the two paths has a shape
	// that decides the working directory.
	PluginPath string `json:"plugin_path,omitempty"`
	ConfPath   string `json:"conf_path,omitempty"`
}

// nBadMasks is the number of invalid event masks the probe knows (cmd/probeplugin badMasks).
const nBadMasks = 7

func isSpecialKind(k string) bool {
	switch k {
	case "fifo", "sock", "fifolink", "socklink", "devlink":
		return true
	}
	return false
}

var pathShapes = []string{"", "", "", "symlink", "symlink2", "symparent", "slash", "dots", "relative", "dot", "dotslash", "dotdot",
	"rel_parent", "rel_dotparent", "rel_updown", "rel_sibling"}

// chdirFor: shapes for which the harness changes the working directory of the process, and
// into which directory below the case root ("" = the root itself; name = the directory the
// path is for). rel_parent "p", rel_dotparent "./p", rel_updown "reports/../p" are given
// relative to the parent of the directory, rel_sibling "../p" relative to a sibling.
func chdirFor(shape, name string) (dir string, ok bool) {
	switch shape {
	case "dot", "dotslash", "dotdot":
		return name, true
	case "rel_parent", "rel_dotparent", "rel_updown":
		return "", true
	case "rel_sibling":
		return "reports", true
	}
	return "", false
}

// isDotShape: the path is ".", "./" or "./." — the directory is the working directory of the
// process (the harness changes into it for the duration of Start).
func isDotShape(s string) bool { return s == "dot" || s == "dotslash" || s == "dotdot" }

func isPathShape(s string) bool {
	for _, k := range pathShapes {
		if k == s {
			return true
		}
	}
	return false
}

var stopDelays = map[string]time.Duration{"": 0, "0": 0, "1ms": time.Millisecond, "20ms": 20 * time.Millisecond, "500ms": 500 * time.Millisecond}

var opKinds = []string{
	"RunPodSandbox", "UpdatePodSandbox", "PostUpdatePodSandbox", "StopPodSandbox", "RemovePodSandbox",
	"CreateContainer", "PostCreateContainer", "StartContainer", "PostStartContainer",
	"UpdateContainer", "PostUpdateContainer", "StopContainer", "RemoveContainer",
}

func isOpKind(s string) bool {
	for _, k := range opKinds {
		if k == s {
			return true
		}
	}
	return false
}

var (
	idxPool  = []string{"00", "01", "05", "10", "10", "10", "20", "20", "50", "99"}
	stemPool = []string{"a", "a", "b", "c", "a-b", "b-a", "x.y", "p_q", "conf", "a.conf", "UP", "ok"}
	// execute bits for owner, group and/or others: nri launches a file that has any of them
	execModes    = []Mode{0o755, 0o755, 0o755, 0o755, 0o755, 0o700, 0o555, 0o711, 0o750, 0o100, 0o010, 0o001}
	nonExecModes = []Mode{0o644, 0o644, 0o600, 0o444, 0o640, 0o000}
	// names that do not parse as NN-name: fine for non-executables and directories only
	malformedNames = []string{"README", "notes.txt", "1-a_ok", "abc-a_ok", "100-a_ok", "-a_ok", "10_a_ok", ".hidden", "a_ok", "1a-b_ok", " 10-a_ok", "plugins.d", "1O-l_ok"}
)

func confContentGen() *rapid.Generator[string] {
	return rapid.OneOf(
		rapid.Just(""),
		rapid.Just("x"),
		rapid.StringMatching(`([a-z]{1,8}: [a-z0-9]{1,8}\n){1,6}`),
		rapid.StringMatching(`\{"[a-z]{1,5}": \[[0-9]{1,3}(, [0-9]{1,3}){0,3}\]\}`),
		rapid.StringN(0, 40, 200),
		rapid.Custom(func(t *rapid.T) string {
			n := rapid.IntRange(1000, 9000).Draw(t, "len")
			unit := rapid.SampledFrom([]string{"k: v\n", "0123456789abcdef", "é✓\n"}).Draw(t, "unit")
			return strings.Repeat(unit, n/len(unit)+1)[:n/len(unit)*len(unit)]
		}),
	)
}

func genC18(t *rapid.T) C18Case {
	var c C18Case
	nOps := rapid.SampledFrom([]int{1, 2, 3, 3, 4, 4, 5, 6}).Draw(t, "nops")
	c.Ops = rapid.SliceOfN(rapid.SampledFrom(opKinds), nOps, nOps).Draw(t, "ops")

	used := map[string]bool{}
	nPlug := rapid.SampledFrom([]int{0, 1, 2, 2, 3, 3, 3, 4, 4, 5}).Draw(t, "nplugins")
	sleepers, hangers := 0, 0
	cfgHangers := 0
	closeK := 0
	// the size of the state the runtime hands out at synchronization; with a big state the
	// request timeout is raised for the case and no plugin that runs into it is drawn
	syncState := rapid.SampledFrom([]string{"small", "small", "above", "small", "below", "small", "above", "small"}).Draw(t, "sync_state")
	if syncState != "small" {
		c.ReqTimeoutMs = 5000
		hangers, cfgHangers = 1, 1
	}
	// stacked waits (≈ 6 s per case, hence rare): three or four plugins that never register /
	// never answer Configure with the lowest indices, healthy ones behind them
	// Only in the thorough tier (the quick tier's sweep has one such case): probability 2^-5
	// per case, drawn with fair coins (rapid's integer generators favour small values and
	// boundaries).
	stack := ev.Thorough()
	for j := 0; stack && j < 5; j++ {
		stack = rapid.Bool().Draw(t, "stack_coin")
	}
	if stack {
		c.RegTimeoutMs = 2000
		c.ReqTimeoutMs, syncState = 0, "small" // the stack's waits are counted in default request timeouts
		shape := rapid.SampledFrom([][]string{
			{bSleep, bSleep, bSleep},
			{bSleep, bSleep, bCfgHang, bCfgHang},
			{bSleep, bCfgHang, bSleep, bCfgHang},
		}).Draw(t, "stack_shape")
		for j, b := range shape {
			p := Plugin{Idx: fmt.Sprintf("0%d", j), Stem: rapid.SampledFrom(stemPool).Draw(t, "sstem"), Behav: b, Mode: 0o755}
			for used[p.File()] {
				p.Stem += "x"
			}
			used[p.File()] = true
			c.Plugins = append(c.Plugins, p)
		}
		sleepers, cfgHangers = 1, 1 // no further slow plugins
		hangers = 1
		nPlug = rapid.IntRange(1, 5-len(shape)).Draw(t, "stack_healthy")
	}
	stackBase := len(c.Plugins)
	for i := stackBase; i < stackBase+nPlug; i++ {
		var p Plugin
		p.Idx = rapid.SampledFrom(idxPool).Draw(t, "idx")
		if stackBase > 0 {
			p.Idx = rapid.SampledFrom([]string{"10", "10", "20", "50", "99"}).Draw(t, "idx_behind")
		}
		p.Mode = rapid.SampledFrom(execModes).Draw(t, "mode")
		p.Link = rapid.IntRange(0, 6).Draw(t, "link") == 3
		nest := i > 0 && rapid.IntRange(0, 4).Draw(t, "nest") == 0
		var src *Plugin
		if nest {
			// the base name of this plugin is the whole file name of an earlier one:
			// its name.conf is the other's NN-name.conf
			j := rapid.IntRange(0, i-1).Draw(t, "nest_of")
			if q := c.Plugins[j]; q.Behav != bSleep && q.Behav != bHang && q.Behav != bCfgHang {
				src = &q
			}
		}
		if src != nil {
			p.Stem, p.Behav, p.K, p.Garbage = src.Idx+"-"+src.Stem, src.Behav, src.K, src.Garbage
		} else {
			p.Stem = rapid.SampledFrom(stemPool).Draw(t, "stem")
			pool := []string{bOK, bOK, bOK, bOK, bOK, bOK, bExit, bExit, bCloseFD, bCfgFail, bSyncFail, bSyncFail, bSyncClose, bBadMask, bBadMask, bDie, bDie, bDieAfter, bDieAfter, bLinger, bLinger, bCloseAt, bCloseAt, bCloseAt, bGarbage}
			if sleepers == 0 {
				pool = append(pool, bSleep)
			}
			if hangers == 0 {
				pool = append(pool, bHang)
			}
			if cfgHangers == 0 && hangers == 0 {
				pool = append(pool, bCfgHang) // at most one request-timeout plugin per ordinary case
			}
			if stackBase > 0 && i == stackBase {
				pool = []string{bOK} // at least one healthy plugin behind the stack
			}
			p.Behav = rapid.SampledFrom(pool).Draw(t, "behav")
			switch p.Behav {
			case bSleep:
				sleepers++
			case bHang:
				hangers++
			case bCfgHang, bSyncHang:
				cfgHangers++
				hangers++
			case bBadMask:
				p.K = rapid.IntRange(0, nBadMasks-1).Draw(t, "badmask")
			case bExit:
				p.K = rapid.SampledFrom([]int{0, 0, 1, 7}).Draw(t, "status")
			case bGarbage:
				p.Garbage = rapid.SampledFrom([]string{"empty", "text", "elf"}).Draw(t, "garbage")
			}
			if p.failsAtEvent() {
				// K = len(ops)+1: the fault never triggers, the plugin lives until Stop
				p.K = rapid.IntRange(1, len(c.Ops)+1).Draw(t, "k")
				// several plugins found closed by one request, ideally the last one before Stop
				if p.Behav == bCloseAt && rapid.Bool().Draw(t, "k_last") {
					p.K = len(c.Ops)
				}
				if p.Behav == bCloseAt {
					// clusters: further closeat plugins tend to pick the same request
					if closeK > 0 && rapid.Bool().Draw(t, "k_same") {
						p.K = closeK
					}
					closeK = p.K
				}
				if p.Behav == bLinger && len(c.Ops) > 1 && rapid.Bool().Draw(t, "k_before_last") {
					p.K = len(c.Ops) - 1
				}
			}
		}
		// construction, not filtering: make the file name unique by growing the stem
		for used[p.File()] {
			p.Stem += "x"
		}
		used[p.File()] = true
		c.Plugins = append(c.Plugins, p)
	}

	// burst (1 case in 4): all healthy plugins but one close their connection in the last
	// request and keep running, and Stop follows within a millisecond
	burst := rapid.SampledFrom([]bool{false, true, false, false, true, false, false, false}).Draw(t, "burst")
	if burst {
		kept := false
		for i := range c.Plugins {
			p := &c.Plugins[i]
			if p.Behav != bOK {
				continue
			}
			if !kept {
				kept = true
				continue
			}
			delete(used, p.File())
			p.Behav, p.K = bCloseAt, len(c.Ops)
			for used[p.File()] {
				p.Stem += "x"
			}
			used[p.File()] = true
		}
	}

	// sync shape (3 cases in 8): the plugin that directly precedes a healthy launched plugin,
	// among those nri hands to the synchronization, fails at the Synchronize stage
	if rapid.SampledFrom([]bool{false, true, false, true, false, false, true, false}).Draw(t, "sync_shape") {
		order := make([]int, 0, len(c.Plugins))
		for i, p := range c.Plugins {
			if p.reachesSync() {
				order = append(order, i)
			}
		}
		sort.Slice(order, func(a, b int) bool { return c.Plugins[order[a]].File() < c.Plugins[order[b]].File() })
		var healthy []int // positions in order of plugins that start up
		for pos, i := range order {
			if c.Plugins[i].startsUp() {
				healthy = append(healthy, pos)
			}
		}
		if len(healthy) > 0 {
			kinds := []string{bSyncFail, bSyncFail, bSyncClose, bSyncFail, bSyncClose}
			if hangers == 0 {
				kinds = append(kinds, bSyncHang) // costs a request timeout
			}
			kind := rapid.SampledFrom(kinds).Draw(t, "sync_kind")
			pos := healthy[rapid.IntRange(0, len(healthy)-1).Draw(t, "sync_behind")]
			var a *Plugin
			if pos > 0 {
				a = &c.Plugins[order[pos-1]]
				delete(used, a.File())
			} else {
				c.Plugins = append(c.Plugins, Plugin{Idx: "00", Stem: "s", Mode: 0o755})
				a = &c.Plugins[len(c.Plugins)-1]
			}
			a.Behav, a.K, a.Garbage = kind, 0, ""
			for used[a.File()] {
				a.Stem += "x"
			}
			used[a.File()] = true
			if kind == bSyncHang {
				hangers++
			}
		}
	}

	// other entries of the plugin directory
	nOther := rapid.SampledFrom([]int{0, 0, 1, 1, 2, 3}).Draw(t, "nothers")
	for i := 0; i < nOther; i++ {
		var e Entry
		wellFormed := rapid.Bool().Draw(t, "wellformed")
		if wellFormed {
			e.Name = rapid.SampledFrom(idxPool).Draw(t, "oidx") + "-" + rapid.SampledFrom(stemPool).Draw(t, "ostem") + "_ok"
		} else {
			e.Name = rapid.SampledFrom(malformedNames).Draw(t, "oname")
		}
		if wellFormed && rapid.IntRange(0, 2).Draw(t, "islink") == 1 {
			// a symbolic link to a directory or to a non-executable file, named like a plugin
			e.Kind = rapid.SampledFrom([]string{"dirlink", "filelink", "fifo", "fifo", "sock", "fifolink", "socklink", "devlink"}).Draw(t, "linkkind")
			e.Mode = 0o644
			if isSpecialKind(e.Kind) {
				e.Mode = 0o755 // execute bits: only the file type keeps it from being a plugin
			}
		} else if rapid.IntRange(0, 2).Draw(t, "isdir") == 0 {
			e.Kind = "dir"
			e.Mode = rapid.SampledFrom([]Mode{0o755, 0o700, 0o711}).Draw(t, "dmode")
			if rapid.Bool().Draw(t, "inner") {
				e.Inner = rapid.SampledFrom(idxPool).Draw(t, "iidx") + "-inner_ok"
			}
		} else {
			e.Kind = "file"
			e.Mode = rapid.SampledFrom(nonExecModes).Draw(t, "fmode")
			e.Content = rapid.SampledFrom([]string{"text", "text", "empty", "probe"}).Draw(t, "content")
			if e.Content == "probe" {
				e.Mode = 0o644 // one shared copy of the binary per mode
			}
		}
		for used[e.Name] {
			e.Name += "x"
		}
		used[e.Name] = true
		c.Others = append(c.Others, e)
	}

	// drop-in files
	confNames := map[string]bool{}
	addConf := func(file string, label string) {
		if confNames[file] || file == "" || strings.ContainsAny(file, "/\x00") || file == "." || file == ".." {
			return
		}
		confNames[file] = true
		body := confContentGen().Draw(t, label)
		if body != "" {
			body = "# " + file + "\n" + body // contents are distinct
		}
		c.Confs = append(c.Confs, Conf{File: file, Content: body, Link: rapid.IntRange(0, 4).Draw(t, label+"_link") == 2})
	}
	for i, p := range c.Plugins {
		switch rapid.SampledFrom([]string{"none", "idx", "base", "both", "both"}).Draw(t, "confkind") {
		case "idx":
			addConf(p.File()+".conf", fmt.Sprintf("conf%d", i))
		case "base":
			addConf(p.Base()+".conf", fmt.Sprintf("conf%d", i))
		case "both":
			// either order of creation; nri must still prefer NN-name.conf
			if rapid.Bool().Draw(t, "basefirst") {
				addConf(p.Base()+".conf", fmt.Sprintf("conf%db", i))
				addConf(p.File()+".conf", fmt.Sprintf("conf%di", i))
			} else {
				addConf(p.File()+".conf", fmt.Sprintf("conf%di", i))
				addConf(p.Base()+".conf", fmt.Sprintf("conf%db", i))
			}
		}
	}
	if len(c.Plugins) > 0 {
		nDis := rapid.SampledFrom([]int{0, 0, 1, 2, 3}).Draw(t, "nconfdistract")
		for i := 0; i < nDis; i++ {
			p := c.Plugins[rapid.IntRange(0, len(c.Plugins)-1).Draw(t, "dis_of")]
			otherIdx := rapid.SampledFrom(idxPool).Draw(t, "dis_idx")
			name := rapid.SampledFrom([]string{
				p.File() + ".conf.bak", p.Base() + ".config", p.File() + ".CONF", p.Idx + ".conf", p.File(),
				"conf", p.Stem + ".conf", "-" + p.Base() + ".conf", p.Idx + "-.conf", otherIdx + "-" + p.Base() + ".conf",
				p.File() + ".conf~", p.Base() + ".conf.d", "." + p.Base() + ".conf", p.Base() + "conf",
			}).Draw(t, "dis_name")
			addConf(name, fmt.Sprintf("dis%d", i))
		}
	}
	if len(c.Plugins) == 0 && len(c.Others) == 0 {
		c.NoPluginDir = rapid.Bool().Draw(t, "noplugindir")
	}
	c.PluginPath = rapid.SampledFrom(pathShapes).Draw(t, "plugin_path")
	c.ConfPath = rapid.SampledFrom(pathShapes).Draw(t, "conf_path")

	if len(c.Confs) == 0 {
		c.NoConfDir = rapid.Bool().Draw(t, "noconfdir")
	}
	if c.NoPluginDir && isDotShape(c.PluginPath) {
		c.PluginPath = ""
	}
	_, pcd := chdirFor(c.PluginPath, "p")
	if _, ccd := chdirFor(c.ConfPath, "c"); ccd && (pcd || (c.NoConfDir && isDotShape(c.ConfPath))) {
		c.ConfPath = "" // one working directory per process
	}

	held := []string{}
	for _, h := range []string{"file", "dir", "unix", "tcp", "pipe"} {
		if rapid.IntRange(0, 2).Draw(t, "held_"+h) != 0 {
			held = append(held, h)
		}
	}
	c.Held = held
	c.Listen = rapid.Bool().Draw(t, "listen")
	// external plugins joining and leaving between the requests
	nExt := rapid.SampledFrom([]int{0, 0, 1, 1, 1, 2}).Draw(t, "nexts")
	var afterFailure []int // slots that directly follow a launched plugin's own failure
	for _, p := range c.Plugins {
		if p.failsAfterAnswer() && p.K <= len(c.Ops) {
			afterFailure = append(afterFailure, p.K)
		}
	}
	for i := 0; i < nExt; i++ {
		x := Ext{Idx: rapid.SampledFrom(idxPool).Draw(t, "xidx"), Name: fmt.Sprintf("e%d", i)}
		if len(afterFailure) > 0 && rapid.IntRange(0, 2).Draw(t, "xafter") != 0 {
			x.Join = rapid.SampledFrom(afterFailure).Draw(t, "xjoin_after")
		} else {
			x.Join = rapid.IntRange(0, len(c.Ops)).Draw(t, "xjoin")
		}
		if rapid.Bool().Draw(t, "xstays") {
			x.Leave = len(c.Ops) + 1
		} else {
			x.Leave = rapid.IntRange(x.Join+1, len(c.Ops)+1).Draw(t, "xleave")
		}
		c.Exts = append(c.Exts, x)
	}
	if len(c.Exts) > 0 {
		c.Listen = true
	}
	c.SyncPods = rapid.IntRange(0, 3).Draw(t, "syncpods")
	c.SyncCtrs = rapid.IntRange(0, 3).Draw(t, "syncctrs")
	switch syncState {
	case "below":
		c.SyncCtrs, c.SyncCtrKiB = rapid.IntRange(17, 19).Draw(t, "ctrs_below"), 200
	case "above":
		c.SyncCtrs, c.SyncCtrKiB = rapid.SampledFrom([]int{22, 40, 40, 60}).Draw(t, "ctrs_above"), 200
	}
	c.StopAfter = rapid.SampledFrom([]string{"0", "0", "", "", "0", "1ms", "20ms", "500ms"}).Draw(t, "stop_after")
	if burst {
		c.StopAfter = rapid.SampledFrom([]string{"0", "0", "1ms"}).Draw(t, "stop_after_burst")
	}
	if c.StopAfter != "" {
		// nothing may happen between the last request and Stop
		for i := range c.Exts {
			if c.Exts[i].Join == len(c.Ops) {
				c.Exts[i].Join = len(c.Ops) - 1
			}
			if c.Exts[i].Leave == len(c.Ops) {
				c.Exts[i].Leave = len(c.Ops) + 1
			}
		}
	}
	c.StartThread = rapid.SampledFrom([]string{"", "", "", "", "locked_thread_exits", "", "", "", "", ""}).Draw(t, "start_thread")
	c.SyncFn = rapid.SampledFrom([]string{"", "", "", "", "", "", "", "", "fail_before", "fail_after"}).Draw(t, "runtime_syncfn")
	return c
}

// validate checks the preconditions of the property and the structural assumptions of run
// (a generated case always satisfies them; a hand-written replay file might not).
func validate(c C18Case) error {
	names := map[string]bool{}
	sleepers, hangers, cfgHangers := 0, 0, 0
	for _, p := range c.Plugins {
		if len(p.Idx) != 2 || p.Idx[0] < '0' || p.Idx[0] > '9' || p.Idx[1] < '0' || p.Idx[1] > '9' {
			return fmt.Errorf("plugin index %q is not two digits", p.Idx)
		}
		if p.Stem == "" || strings.ContainsAny(p.Stem, "/\x00") {
			return fmt.Errorf("bad stem %q", p.Stem)
		}
		switch p.Behav {
		case bOK, bExit, bCloseFD, bCfgFail, bBadMask, bSyncFail, bSyncClose, bDie, bDieAfter, bLinger, bCloseAt, bGarbage:
		case bCfgHang, bSyncHang:
			cfgHangers++
		case bSleep:
			sleepers++
		case bHang:
			hangers++
		default:
			return fmt.Errorf("unknown behaviour %q", p.Behav)
		}
		if p.hasK() && p.K < 0 || (p.Behav != bExit && p.Behav != bBadMask && p.hasK() && p.K < 1) {
			return fmt.Errorf("bad k %d", p.K)
		}
		if p.Mode&0o111 == 0 || p.Mode&^0o777 != 0 {
			return fmt.Errorf("plugin mode %o has no execute bit", p.Mode)
		}
		if names[p.File()] {
			return fmt.Errorf("duplicate name %q", p.File())
		}
		names[p.File()] = true
	}
	if c.ReqTimeoutMs != 0 && (c.ReqTimeoutMs < 500 || c.ReqTimeoutMs > 10000) {
		return fmt.Errorf("request timeout %d ms out of range", c.ReqTimeoutMs)
	}
	if c.RegTimeoutMs != 0 && (c.RegTimeoutMs < 500 || c.RegTimeoutMs > 4000) {
		return fmt.Errorf("registration timeout %d ms out of range", c.RegTimeoutMs)
	}
	if sleepers > 6 || hangers > 2 || cfgHangers > 4 || len(c.Plugins) > 8 {
		return fmt.Errorf("too many slow plugins")
	}
	for _, e := range c.Others {
		if e.Name == "" || e.Name == "." || e.Name == ".." || strings.ContainsAny(e.Name, "/\x00") || names[e.Name] {
			return fmt.Errorf("bad or duplicate entry name %q", e.Name)
		}
		names[e.Name] = true
		switch e.Kind {
		case "file":
			if e.Mode&0o111 != 0 || e.Mode&^0o777 != 0 {
				return fmt.Errorf("entry %q: a distractor file must not be executable", e.Name)
			}
		case "dir":
			if e.Inner != "" && strings.ContainsAny(e.Inner, "/\x00") {
				return fmt.Errorf("bad inner name")
			}
		case "fifo", "sock", "fifolink", "socklink", "devlink":
			if _, _, err := api.ParsePluginName(e.Name); err != nil {
				return fmt.Errorf("entry %q: special files are placed with well-formed plugin names", e.Name)
			}
			if e.Mode&^0o777 != 0 {
				return fmt.Errorf("entry %q: bad mode", e.Name)
			}
		case "dirlink", "filelink":
			// nri looks at a symbolic link's own mode (always rwx): a link with a name that does
			// not parse would abort Start like an executable with such a name (precondition)
			if _, _, err := api.ParsePluginName(e.Name); err != nil {
				return fmt.Errorf("entry %q: a symbolic link needs a well-formed plugin name", e.Name)
			}
		default:
			return fmt.Errorf("entry kind %q", e.Kind)
		}
	}
	cn := map[string]bool{}
	for _, f := range c.Confs {
		if f.File == "" || f.File == "." || f.File == ".." || strings.ContainsAny(f.File, "/\x00") || cn[f.File] {
			return fmt.Errorf("bad or duplicate drop-in name %q", f.File)
		}
		cn[f.File] = true
		if !validUTF8(f.Content) {
			return fmt.Errorf("drop-in %q is not valid UTF-8 (the configuration travels in a protobuf string)", f.File)
		}
	}
	if c.NoPluginDir && (len(c.Plugins) > 0 || len(c.Others) > 0) {
		return fmt.Errorf("no_plugin_dir with entries")
	}
	if c.NoConfDir && len(c.Confs) > 0 {
		return fmt.Errorf("no_conf_dir with files")
	}
	if len(c.Ops) == 0 || len(c.Ops) > 40 {
		return fmt.Errorf("need 1..40 ops")
	}
	for _, o := range c.Ops {
		if !isOpKind(o) {
			return fmt.Errorf("unknown op %q", o)
		}
	}
	xn := map[string]bool{}
	for _, x := range c.Exts {
		if len(x.Idx) != 2 || x.Idx[0] < '0' || x.Idx[0] > '9' || x.Idx[1] < '0' || x.Idx[1] > '9' {
			return fmt.Errorf("external plugin index %q is not two digits", x.Idx)
		}
		if x.Name == "" || xn[x.Name] || strings.ContainsAny(x.Name, "/\x00 ") {
			return fmt.Errorf("bad or duplicate external plugin name %q", x.Name)
		}
		xn[x.Name] = true
		if x.Join < 0 || x.Join > len(c.Ops) || x.Leave <= x.Join || x.Leave > len(c.Ops)+1 {
			return fmt.Errorf("external plugin %s: join %d / leave %d out of range", x.Name, x.Join, x.Leave)
		}
	}
	if len(c.Exts) > 0 && !c.Listen {
		return fmt.Errorf("external plugins need the socket")
	}
	if c.SyncFn != "" && c.SyncFn != "fail_before" && c.SyncFn != "fail_after" {
		return fmt.Errorf("unknown runtime_syncfn %q", c.SyncFn)
	}
	if _, a := chdirFor(c.PluginPath, "p"); a {
		if _, b := chdirFor(c.ConfPath, "c"); b {
			return fmt.Errorf("only one of the two paths can decide the working directory")
		}
	}
	if isDotShape(c.PluginPath) && isDotShape(c.ConfPath) {
		return fmt.Errorf("only one of the two directories can be the working directory")
	}
	if (isDotShape(c.PluginPath) && c.NoPluginDir) || (isDotShape(c.ConfPath) && c.NoConfDir) {
		return fmt.Errorf("the working directory must exist")
	}
	if !isPathShape(c.PluginPath) || !isPathShape(c.ConfPath) {
		return fmt.Errorf("unknown path shape %q / %q", c.PluginPath, c.ConfPath)
	}
	if c.StartThread != "" && c.StartThread != "locked_thread_exits" {
		return fmt.Errorf("unknown start_thread %q", c.StartThread)
	}
	if _, ok := stopDelays[c.StopAfter]; !ok {
		return fmt.Errorf("unknown stop_after %q", c.StopAfter)
	}
	if c.SyncPods < 0 || c.SyncPods > 10 || c.SyncCtrs < 0 || c.SyncCtrs > 80 || c.SyncCtrKiB < 0 || c.SyncCtrKiB > 1024 || c.SyncCtrs*c.SyncCtrKiB > 16*1024 {
		return fmt.Errorf("synchronization state out of range")
	}
	if len(c.Exts) > 8 {
		return fmt.Errorf("too many external plugins")
	}
	return nil
}

func sortedKeys(m map[string]int) []string {
	ks := make([]string, 0, len(m))
	for k := range m {
		ks = append(ks, k)
	}
	sort.Strings(ks)
	return ks
}
