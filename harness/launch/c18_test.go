package launch

// C18 — pre-installed plugins are launched, configured and reaped as documented.
//
// Every case builds a scratch tree (plugin directory, drop-in directory, report directory),
// starts an in-process Adaptation on it, sends a few lifecycle requests, stops it, and judges
// what the launched probe processes (cmd/probeplugin) reported about themselves:
// environment, open descriptors, configuration, invocation order, and whether the
// processes nri stopped or dropped are gone.

import (
	"context"
	"encoding/json"
	"errors"
	"fmt"
	"hash/fnv"
	"net"
	"os"
	"path/filepath"
	"runtime"
	"sort"
	"strconv"
	"strings"
	"syscall"
	"testing"
	"time"

	"github.com/containerd/nri/pkg/adaptation"
	"github.com/containerd/nri/pkg/api"
	"github.com/containerd/nri/pkg/stub"

	"nriverif/ev"
)

// Report and Line mirror cmd/probeplugin.
type FD struct {
	N      int    `json:"n"`
	Target string `json:"target"`
	Type   string `json:"type"`
	Ino    uint64 `json:"ino,omitempty"`
	// set: opened by the probe process itself after exec (an inherited descriptor survived
	// exec, so its close-on-exec flag is necessarily clear)
	Cloexec bool   `json:"cloexec,omitempty"`
	Err     string `json:"err,omitempty"`
}

type Report struct {
	File      string   `json:"file"`
	Argv      []string `json:"argv"`
	Pid       int      `json:"pid"`
	Ppid      int      `json:"ppid"`
	StartTime string   `json:"starttime"`
	Env       []string `json:"env"`
	FDs       []FD     `json:"fds"`
	Cwd       string   `json:"cwd"`
	T         int64    `json:"t"`
	ListErr   string   `json:"list_err,omitempty"`
}

type Line struct {
	P   string  `json:"p"`
	Pid int     `json:"pid"`
	Ev  string  `json:"ev"`
	Tag string  `json:"tag"`
	Cfg *string `json:"cfg,omitempty"`
	RT  string  `json:"rt,omitempty"`
	N   int     `json:"n"`
	T   int64   `json:"t"`
}

// history is what goes into the replay file of a failing case.
type history struct {
	Timeline []string `json:"timeline"`
	Reports  []Report `json:"reports,omitempty"`
	Log      []Line   `json:"log,omitempty"`
	OwnFDs   []string `json:"runtime_fds_at_start,omitempty"`
}

func (h *history) note(format string, a ...any) {
	h.Timeline = append(h.Timeline, fmt.Sprintf(format, a...))
}

const (
	pluginDirName = "p"
	confDirName   = "c"
)

func tagOf(i int) string { return "r" + strconv.Itoa(i) }

// verdict of one execution
type verdict struct {
	out       ev.Outcome
	timeBound bool // the failure is one that a too slow machine could have produced
}

func failNow(h *history, format string, a ...any) verdict {
	o := ev.Failf(format, a...)
	o.History = h
	return verdict{out: o}
}

func failTimed(h *history, format string, a ...any) verdict {
	v := failNow(h, format, a...)
	v.timeBound = true
	return v
}

func writeFileMode(path string, data []byte, mode Mode) error {
	if err := os.WriteFile(path, data, 0o600); err != nil {
		return err
	}
	return os.Chmod(path, os.FileMode(mode))
}

// ownFDs lists the test process' descriptors (diagnostics only).
func ownFDs() map[string]string {
	m := map[string]string{}
	ents, err := os.ReadDir("/proc/self/fd")
	if err != nil {
		return m
	}
	for _, e := range ents {
		if t, err := os.Readlink("/proc/self/fd/" + e.Name()); err == nil {
			m[e.Name()] = t
		}
	}
	return m
}

// normFile maps what a probe derived from its argv[0] back to the real plugin directory
// when it was launched through a symbolic link to that directory.
func normFile(f string) string {
	for _, pre := range []string{pluginDirName + "l2/", pluginDirName + "l/"} {
		if strings.HasPrefix(f, pre) {
			return pluginDirName + "/" + strings.TrimPrefix(f, pre)
		}
	}
	return f
}

// shapedPath returns the path to hand to nri for the real directory <root>/<name>.
func shapedPath(root, name, shape string) (string, error) {
	real := filepath.Join(root, name)
	switch shape {
	case "symlink":
		l := filepath.Join(root, name+"l")
		return l, os.Symlink(name, l)
	case "symlink2":
		l1, l2 := filepath.Join(root, name+"l"), filepath.Join(root, name+"l2")
		if err := os.Symlink(real, l1); err != nil {
			return "", err
		}
		return l2, os.Symlink(name+"l", l2)
	case "symparent":
		up := filepath.Join(root, "up")
		if _, err := os.Lstat(up); err != nil {
			if err := os.Symlink(root, up); err != nil {
				return "", err
			}
		}
		return up + "/" + name, nil
	case "rel_parent":
		return name, nil
	case "rel_dotparent":
		return "./" + name, nil
	case "rel_updown":
		return "reports/../" + name, nil
	case "rel_sibling":
		return "../" + name, nil
	case "dot":
		return ".", nil
	case "dotslash":
		return "./", nil
	case "dotdot":
		return "./.", nil
	case "slash":
		return real + "/", nil
	case "dots":
		return root + "/.//" + name, nil
	case "relative":
		wd, err := os.Getwd()
		if err != nil {
			return "", err
		}
		return filepath.Rel(wd, real)
	}
	return real, nil
}

func readReports(root string) ([]Report, error) {
	ents, err := os.ReadDir(filepath.Join(root, "reports"))
	if err != nil {
		return nil, err
	}
	var reps []Report
	for _, e := range ents {
		if !strings.HasSuffix(e.Name(), ".json") || strings.HasPrefix(e.Name(), ".") {
			continue
		}
		b, err := os.ReadFile(filepath.Join(root, "reports", e.Name()))
		if err != nil {
			return nil, err
		}
		var r Report
		if err := json.Unmarshal(b, &r); err != nil {
			return nil, fmt.Errorf("report %s: %v", e.Name(), err)
		}
		r.File = normFile(r.File)
		reps = append(reps, r)
	}
	sort.Slice(reps, func(i, j int) bool {
		if reps[i].File != reps[j].File {
			return reps[i].File < reps[j].File
		}
		return reps[i].T < reps[j].T
	})
	return reps, nil
}

func readLog(root string) ([]Line, error) {
	b, err := os.ReadFile(filepath.Join(root, "events.log"))
	if os.IsNotExist(err) {
		return nil, nil
	}
	if err != nil {
		return nil, err
	}
	var lines []Line
	for _, s := range strings.Split(string(b), "\n") {
		if s == "" {
			continue
		}
		var l Line
		if err := json.Unmarshal([]byte(s), &l); err != nil {
			return nil, fmt.Errorf("event log line %q: %v", s, err)
		}
		l.P = normFile(l.P)
		lines = append(lines, l)
	}
	return lines, nil
}

func issue(a *adaptation.Adaptation, kind, tag string) error {
	ctx := context.Background()
	pod := &api.PodSandbox{Id: tag, Name: "pod-" + tag, Uid: "uid-" + tag, Namespace: "ns"}
	pod0 := &api.PodSandbox{Id: "pod0", Name: "pod0", Uid: "uid0", Namespace: "ns"}
	ctr := &api.Container{Id: tag, PodSandboxId: "pod0", Name: "ctr-" + tag}
	var err error
	switch kind {
	case "RunPodSandbox":
		err = a.RunPodSandbox(ctx, &api.StateChangeEvent{Pod: pod})
	case "UpdatePodSandbox":
		_, err = a.UpdatePodSandbox(ctx, &api.UpdatePodSandboxRequest{Pod: pod, OverheadLinuxResources: &api.LinuxResources{}, LinuxResources: &api.LinuxResources{}})
	case "PostUpdatePodSandbox":
		err = a.PostUpdatePodSandbox(ctx, &api.StateChangeEvent{Pod: pod})
	case "StopPodSandbox":
		err = a.StopPodSandbox(ctx, &api.StateChangeEvent{Pod: pod})
	case "RemovePodSandbox":
		err = a.RemovePodSandbox(ctx, &api.StateChangeEvent{Pod: pod})
	case "CreateContainer":
		_, err = a.CreateContainer(ctx, &api.CreateContainerRequest{Pod: pod0, Container: ctr})
	case "PostCreateContainer":
		err = a.PostCreateContainer(ctx, &api.StateChangeEvent{Pod: pod0, Container: ctr})
	case "StartContainer":
		err = a.StartContainer(ctx, &api.StateChangeEvent{Pod: pod0, Container: ctr})
	case "PostStartContainer":
		err = a.PostStartContainer(ctx, &api.StateChangeEvent{Pod: pod0, Container: ctr})
	case "UpdateContainer":
		_, err = a.UpdateContainer(ctx, &api.UpdateContainerRequest{Pod: pod0, Container: ctr, LinuxResources: &api.LinuxResources{}})
	case "PostUpdateContainer":
		err = a.PostUpdateContainer(ctx, &api.StateChangeEvent{Pod: pod0, Container: ctr})
	case "StopContainer":
		_, err = a.StopContainer(ctx, &api.StopContainerRequest{Pod: pod0, Container: ctr})
	case "RemoveContainer":
		err = a.RemoveContainer(ctx, &api.StateChangeEvent{Pod: pod0, Container: ctr})
	default:
		err = fmt.Errorf("unknown op %q", kind)
	}
	return err
}

// held is one descriptor the runtime keeps open while nri launches plugins.
type held struct{ close func() }

func openHeld(root string, kinds []string, h *history) []held {
	var hs []held
	for _, k := range kinds {
		switch k {
		case "file":
			if f, err := os.Open(filepath.Join(root, ".c18root")); err == nil {
				hs = append(hs, held{func() { f.Close() }})
			}
		case "dir":
			if f, err := os.Open(root); err == nil {
				hs = append(hs, held{func() { f.Close() }})
			}
		case "unix":
			if l, err := net.Listen("unix", filepath.Join(root, "rt.sock")); err == nil {
				hs = append(hs, held{func() { l.Close() }})
			} else {
				h.note("held unix listener: %v", err)
			}
		case "tcp":
			if l, err := net.Listen("tcp", "127.0.0.1:0"); err == nil {
				hs = append(hs, held{func() { l.Close() }})
			} else {
				h.note("held tcp listener: %v", err)
			}
		case "pipe":
			if r, w, err := os.Pipe(); err == nil {
				hs = append(hs, held{func() { r.Close(); w.Close() }})
			}
		}
	}
	return hs
}

// expectedConfig: the content of NN-name.conf if present, else name.conf, else empty —
// computed from the drop-in directory's actual file list, so shared and crossing names
// are judged correctly.
func expectedConfig(c C18Case, p Plugin) (cfg string, kind string) {
	files := map[string]string{}
	has := map[string]bool{}
	for _, f := range c.Confs {
		files[f.File] = f.Content
		has[f.File] = true
	}
	i, b := has[p.File()+".conf"], has[p.Base()+".conf"]
	switch {
	case i && b:
		return files[p.File()+".conf"], "idx+base"
	case i:
		return files[p.File()+".conf"], "idx"
	case b:
		return files[p.Base()+".conf"], "base"
	}
	return "", "none"
}

func short(s string) string {
	if len(s) > 120 {
		return fmt.Sprintf("%q…(%d bytes)", s[:120], len(s))
	}
	return fmt.Sprintf("%q", s)
}

// extPlugin is an external plugin: an in-process stub connected to nri's socket. Every
// handler appends one line to the shared event log (same O_APPEND file the probes use, one
// write per line), so launched and external plugins share one global invocation order.
type extPlugin struct {
	key   string
	logf  *os.File
	syncC chan struct{}
	stub  stub.Stub
}

func (e *extPlugin) line(evn, tag string) {
	b, _ := json.Marshal(Line{P: e.key, Pid: os.Getpid(), Ev: evn, Tag: tag, T: time.Now().UnixNano()})
	e.logf.Write(append(b, '\n'))
}

func (e *extPlugin) Configure(context.Context, string, string, string) (api.EventMask, error) {
	return 0, nil
}
func (e *extPlugin) Synchronize(context.Context, []*api.PodSandbox, []*api.Container) ([]*api.ContainerUpdate, error) {
	select {
	case e.syncC <- struct{}{}:
	default:
	}
	return nil, nil
}
func (e *extPlugin) RunPodSandbox(_ context.Context, p *api.PodSandbox) error {
	e.line("RunPodSandbox", p.GetId())
	return nil
}
func (e *extPlugin) UpdatePodSandbox(_ context.Context, p *api.PodSandbox, _, _ *api.LinuxResources) error {
	e.line("UpdatePodSandbox", p.GetId())
	return nil
}
func (e *extPlugin) PostUpdatePodSandbox(_ context.Context, p *api.PodSandbox) error {
	e.line("PostUpdatePodSandbox", p.GetId())
	return nil
}
func (e *extPlugin) StopPodSandbox(_ context.Context, p *api.PodSandbox) error {
	e.line("StopPodSandbox", p.GetId())
	return nil
}
func (e *extPlugin) RemovePodSandbox(_ context.Context, p *api.PodSandbox) error {
	e.line("RemovePodSandbox", p.GetId())
	return nil
}
func (e *extPlugin) CreateContainer(_ context.Context, _ *api.PodSandbox, c *api.Container) (*api.ContainerAdjustment, []*api.ContainerUpdate, error) {
	e.line("CreateContainer", c.GetId())
	return nil, nil, nil
}
func (e *extPlugin) PostCreateContainer(_ context.Context, _ *api.PodSandbox, c *api.Container) error {
	e.line("PostCreateContainer", c.GetId())
	return nil
}
func (e *extPlugin) StartContainer(_ context.Context, _ *api.PodSandbox, c *api.Container) error {
	e.line("StartContainer", c.GetId())
	return nil
}
func (e *extPlugin) PostStartContainer(_ context.Context, _ *api.PodSandbox, c *api.Container) error {
	e.line("PostStartContainer", c.GetId())
	return nil
}
func (e *extPlugin) UpdateContainer(_ context.Context, _ *api.PodSandbox, c *api.Container, _ *api.LinuxResources) ([]*api.ContainerUpdate, error) {
	e.line("UpdateContainer", c.GetId())
	return nil, nil
}
func (e *extPlugin) PostUpdateContainer(_ context.Context, _ *api.PodSandbox, c *api.Container) error {
	e.line("PostUpdateContainer", c.GetId())
	return nil
}
func (e *extPlugin) StopContainer(_ context.Context, _ *api.PodSandbox, c *api.Container) ([]*api.ContainerUpdate, error) {
	e.line("StopContainer", c.GetId())
	return nil, nil
}
func (e *extPlugin) RemoveContainer(_ context.Context, _ *api.PodSandbox, c *api.Container) error {
	e.line("RemoveContainer", c.GetId())
	return nil
}

// joinExt connects an external plugin and returns once nri has it on its plugin list.
// No request is relayed to find that out (a relayed request would make nri drop closed
// plugins itself): the stub's Start returns after Configure; the Synchronize handler runs
// while nri holds its plugin-sync lock, which it releases only after it has appended the
// plugin and re-sorted its list; BlockPluginSync (public API) then waits for that release.
// slow: a harness-side wait expired.
func joinExt(a *adaptation.Adaptation, x Ext, socket string, logf *os.File) (e *extPlugin, err error, slow bool) {
	e = &extPlugin{key: x.Key(), logf: logf, syncC: make(chan struct{}, 1)}
	e.stub, err = stub.New(e,
		stub.WithPluginName(x.Name), stub.WithPluginIdx(x.Idx),
		stub.WithSocketPath(socket), stub.WithOnClose(func() {}))
	if err != nil {
		return nil, err, false
	}
	startC := make(chan error, 1)
	go func() { startC <- e.stub.Start(context.Background()) }()
	select {
	case err := <-startC:
		if err != nil {
			return nil, fmt.Errorf("stub start: %w", err), true
		}
	case <-time.After(syncBound):
		go func() { <-startC; e.stub.Stop() }()
		return nil, fmt.Errorf("stub start did not return within %v", syncBound), true
	}
	select {
	case <-e.syncC:
	case <-time.After(syncBound):
		e.stub.Stop()
		return nil, fmt.Errorf("not synchronized within %v", syncBound), true
	}
	a.BlockPluginSync().Unblock()
	return e, nil, false
}

// waitLogLine polls the event log for a line of plugin p with event evn.
func waitLogLine(root, p, evn string, bound time.Duration) bool {
	t0 := time.Now()
	for {
		if ls, err := readLog(root); err == nil {
			for _, l := range ls {
				if l.P == p && l.Ev == evn {
					return true
				}
			}
		}
		if time.Since(t0) > bound {
			return false
		}
		time.Sleep(time.Millisecond)
	}
}

var errRuntimeSync = errors.New("verif: the runtime's synchronization function failed on purpose")

// runOnce executes the case once on a fresh tree.
func runOnce(c C18Case) verdict {
	h := &history{}
	if err := validate(c); err != nil {
		return verdict{out: ev.Outcome{Excluded: "invalid_case", Classes: []string{"invalid"}}}
	}
	infra := func(format string, a ...any) verdict {
		// harness-side trouble (disk, missing binary): never a violation
		h.note("infrastructure: "+format, a...)
		return verdict{out: ev.Outcome{Excluded: "infrastructure", Classes: []string{"infrastructure"}, History: h}}
	}

	root, err := os.MkdirTemp("/tmp", "nv18-")
	if err != nil {
		return infra("%v", err)
	}
	var reports []Report
	defer func() {
		for _, r := range reports {
			killIfAlive(r.Pid, r.StartTime)
		}
		// directories without owner permissions would defeat RemoveAll for non-root users
		filepath.Walk(root, func(p string, fi os.FileInfo, err error) error {
			if err == nil && fi.IsDir() {
				os.Chmod(p, 0o755)
			}
			return nil
		})
		os.RemoveAll(root)
	}()
	pdir := filepath.Join(root, pluginDirName)
	cdir := filepath.Join(root, confDirName)
	if err := os.WriteFile(filepath.Join(root, ".c18root"), []byte("c18\n"), 0o644); err != nil {
		return infra("%v", err)
	}
	if err := os.Mkdir(filepath.Join(root, "reports"), 0o755); err != nil {
		return infra("%v", err)
	}

	// --- the plugin directory ------------------------------------------------------------
	canExec := map[string]bool{} // plugin file -> the runtime is allowed to execute it
	var fifos []string           // FIFOs placed in (or linked from) the plugin directory
	if !c.NoPluginDir {
		if err := os.Mkdir(pdir, 0o755); err != nil {
			return infra("%v", err)
		}
	}
	for _, p := range c.Plugins {
		dst := filepath.Join(pdir, p.File())
		if p.Link {
			// the real file lives outside the plugin directory, the entry is a symbolic link
			if err := os.MkdirAll(filepath.Join(root, "bin"), 0o755); err != nil {
				return infra("%v", err)
			}
			if err := os.Symlink(filepath.Join(root, "bin", p.File()), dst); err != nil {
				return infra("%v", err)
			}
			dst = filepath.Join(root, "bin", p.File())
		}
		if p.Behav == bGarbage {
			var data []byte
			switch p.Garbage {
			case "text":
				data = []byte("this is a text file with execute permission, not a program\n")
			case "elf":
				data = append([]byte("\x7fELF\x02\x01\x01"), make([]byte, 57)...)
			}
			if err := writeFileMode(dst, data, p.Mode); err != nil {
				return infra("%v", err)
			}
		} else if err := install(dst, uint32(p.Mode)); err != nil {
			return infra("installing probe: %v", err)
		}
		canExec[p.File()] = syscall.Access(dst, 1 /* X_OK */) == nil
	}
	for _, e := range c.Others {
		dst := filepath.Join(pdir, e.Name)
		switch e.Kind {
		case "fifo", "sock", "fifolink", "socklink", "devlink":
			// entries that are not regular files, with execute bits and a plugin's name
			target := dst
			if e.Kind == "fifolink" || e.Kind == "socklink" {
				if err := os.MkdirAll(filepath.Join(root, "elsewhere"), 0o755); err != nil {
					return infra("%v", err)
				}
				target = filepath.Join(root, "elsewhere", e.Name)
			}
			switch e.Kind {
			case "fifo", "fifolink":
				if err := syscall.Mkfifo(target, 0o600); err != nil {
					return infra("mkfifo: %v", err)
				}
				fifos = append(fifos, target)
			case "sock", "socklink":
				l, err := net.ListenUnix("unix", &net.UnixAddr{Name: target, Net: "unix"})
				if err != nil {
					return infra("socket entry: %v", err)
				}
				l.SetUnlinkOnClose(false)
				l.Close()
			case "devlink":
				if err := os.Symlink("/dev/null", dst); err != nil {
					return infra("%v", err)
				}
			}
			if e.Kind != "devlink" {
				if err := os.Chmod(target, os.FileMode(e.Mode)); err != nil {
					return infra("%v", err)
				}
			}
			if target != dst {
				if err := os.Symlink(target, dst); err != nil {
					return infra("%v", err)
				}
			}
		case "dirlink":
			if err := os.MkdirAll(filepath.Join(root, "elsewhere", e.Name+".d"), 0o755); err != nil {
				return infra("%v", err)
			}
			if err := os.Symlink(filepath.Join(root, "elsewhere", e.Name+".d"), dst); err != nil {
				return infra("%v", err)
			}
		case "filelink":
			if err := os.MkdirAll(filepath.Join(root, "elsewhere"), 0o755); err != nil {
				return infra("%v", err)
			}
			if err := writeFileMode(filepath.Join(root, "elsewhere", e.Name), []byte("# not a plugin\n"), 0o644); err != nil {
				return infra("%v", err)
			}
			if err := os.Symlink(filepath.Join(root, "elsewhere", e.Name), dst); err != nil {
				return infra("%v", err)
			}
		case "dir":
			if err := os.Mkdir(dst, 0o755); err != nil {
				return infra("%v", err)
			}
			if e.Inner != "" {
				if err := install(filepath.Join(dst, e.Inner), 0o755); err != nil {
					return infra("installing inner probe: %v", err)
				}
			}
			if err := os.Chmod(dst, os.FileMode(e.Mode)); err != nil {
				return infra("%v", err)
			}
		case "file":
			switch e.Content {
			case "probe":
				if err := install(dst, uint32(e.Mode)); err != nil {
					return infra("installing non-executable probe copy: %v", err)
				}
			case "empty":
				if err := writeFileMode(dst, nil, e.Mode); err != nil {
					return infra("%v", err)
				}
			default:
				if err := writeFileMode(dst, []byte("# "+e.Name+": not a plugin\n"), e.Mode); err != nil {
					return infra("%v", err)
				}
			}
		}
	}
	// --- the drop-in directory -----------------------------------------------------------
	if !c.NoConfDir {
		if err := os.Mkdir(cdir, 0o755); err != nil {
			return infra("%v", err)
		}
	}
	for _, f := range c.Confs {
		dst := filepath.Join(cdir, f.File)
		if f.Link {
			if err := os.MkdirAll(filepath.Join(root, "cdata"), 0o755); err != nil {
				return infra("%v", err)
			}
			if err := os.Symlink(filepath.Join(root, "cdata", f.File), dst); err != nil {
				return infra("%v", err)
			}
			dst = filepath.Join(root, "cdata", f.File)
		}
		if err := os.WriteFile(dst, []byte(f.Content), 0o644); err != nil {
			return infra("%v", err)
		}
	}

	// a path that is "." makes that directory the working directory of the process (cases run
	// one at a time); restored when the case is over
	wdDir, needWd := chdirFor(c.PluginPath, pluginDirName)
	if !needWd {
		wdDir, needWd = chdirFor(c.ConfPath, confDirName)
	}
	if needWd {
		old, err := os.Getwd()
		if err != nil {
			return infra("%v", err)
		}
		if err := os.Chdir(filepath.Join(root, wdDir)); err != nil {
			return infra("chdir: %v", err)
		}
		defer os.Chdir(old)
	}
	// --- the paths handed to nri ------------------------------------------------------------
	pluginPath, err := shapedPath(root, pluginDirName, c.PluginPath)
	if err != nil {
		return infra("plugin path: %v", err)
	}
	confPath, err := shapedPath(root, confDirName, c.ConfPath)
	if err != nil {
		return infra("drop-in path: %v", err)
	}
	h.note("plugin path %s, drop-in path %s", pluginPath, confPath)

	// --- the runtime ---------------------------------------------------------------------
	hs := openHeld(root, c.Held, h)
	defer func() {
		for _, x := range hs {
			x.close()
		}
	}()
	own := ownFDs()
	for _, k := range sortedKeysS(own) {
		h.OwnFDs = append(h.OwnFDs, k+" -> "+own[k])
	}

	var pods []*api.PodSandbox
	var ctrs []*api.Container
	for i := 0; i < c.SyncPods; i++ {
		pods = append(pods, &api.PodSandbox{Id: fmt.Sprintf("sp%d", i), Name: fmt.Sprintf("sp%d", i)})
	}
	for i := 0; i < c.SyncCtrs; i++ {
		ct := &api.Container{Id: fmt.Sprintf("sc%d", i), PodSandboxId: "sp0", Name: fmt.Sprintf("sc%d", i)}
		if c.SyncCtrKiB > 0 {
			ct.Annotations = map[string]string{"verif/bulk": strings.Repeat(fmt.Sprintf("%04d-0123456789ab", i), c.SyncCtrKiB*64)} // 16 bytes x 64 = 1 KiB
		}
		ctrs = append(ctrs, ct)
	}
	wantSync := stateDigest(pods, ctrs)
	opts := []adaptation.Option{
		adaptation.WithPluginPath(pluginPath),
		adaptation.WithPluginConfigPath(confPath),
		adaptation.WithSocketPath(filepath.Join(root, "nri.sock")),
	}
	if !c.Listen {
		opts = append(opts, adaptation.WithDisabledExternalConnections())
	}
	a, err := adaptation.New("verif-c18", "1.8",
		func(ctx context.Context, cb adaptation.SyncCB) error {
			if c.SyncFn == "fail_before" {
				return errRuntimeSync
			}
			_, err := cb(ctx, pods, ctrs)
			if c.SyncFn == "fail_after" && err == nil {
				return errRuntimeSync
			}
			return err
		},
		func(context.Context, []*api.ContainerUpdate) ([]*api.ContainerUpdate, error) { return nil, nil },
		opts...)
	if err != nil {
		return infra("adaptation.New: %v", err)
	}

	if c.RegTimeoutMs != 0 {
		adaptation.SetPluginRegistrationTimeout(time.Duration(c.RegTimeoutMs) * time.Millisecond)
		defer adaptation.SetPluginRegistrationTimeout(regTimeout)
	}
	req := reqTimeout
	if c.ReqTimeoutMs != 0 {
		req = time.Duration(c.ReqTimeoutMs) * time.Millisecond
		adaptation.SetPluginRequestTimeout(req)
		defer adaptation.SetPluginRequestTimeout(reqTimeout)
	}
	// Start must return. Its legitimate waits are the timeouts of the plugins that never
	// register or never answer; the watchdog is a flat 10 s ("does not hang") on top of twice those.
	reg := regTimeout
	if c.RegTimeoutMs != 0 {
		reg = time.Duration(c.RegTimeoutMs) * time.Millisecond
	}
	startBound := 10 * time.Second
	for _, p := range c.Plugins {
		switch p.Behav {
		case bSleep:
			startBound += 2 * reg
		case bCfgHang, bSyncHang:
			startBound += 2 * req
		}
	}
	t0 := time.Now()
	var startErr error
	startC := make(chan error, 1)
	go func() {
		if c.StartThread == "locked_thread_exits" {
			// never unlocked: when this goroutine ends, Go terminates the thread that forked
			// the plugin processes
			runtime.LockOSThread()
		}
		startC <- a.Start()
	}()
	select {
	case startErr = <-startC:
	case <-time.After(startBound):
		// Start holds the adaptation's lock: Stop would block as well. Abandon the instance,
		// kill what was launched (the deferred clean-up does, from the reports).
		// if nri sits in open(2) on a FIFO, let it go on (a writer makes the open return) so
		// that no goroutine stays blocked behind this case
		for _, f := range fifos {
			if fd, err := syscall.Open(f, syscall.O_WRONLY|syscall.O_NONBLOCK|syscall.O_CLOEXEC, 0); err == nil {
				syscall.Close(fd)
			}
		}
		select {
		case <-startC:
			h.note("Start returned after the harness opened the FIFOs for writing")
			a.Stop()
		case <-time.After(3 * time.Second):
		}
		reports, _ = readReports(root)
		for _, r := range reports {
			trackPid(r.Pid, r.StartTime)
		}
		h.Reports = reports
		h.Log, _ = readLog(root)
		h.note("goroutines:\n%s", nriStacks())
		return failTimed(h, "Adaptation.Start did not return within %v (%d plugins in the directory, synchronization state %s) — start-up hangs, the launched plugins are neither served nor stopped",
			startBound, len(c.Plugins), wantSync)
	}
	h.note("Start returned %v after %v", startErr, time.Since(t0).Round(time.Millisecond))
	if c.StartThread != "" {
		time.Sleep(300 * time.Millisecond) // the calling thread is gone by now
	}
	stopped := false
	defer func() {
		if !stopped {
			a.Stop()
		}
	}()

	reports, err = readReports(root)
	if err != nil {
		return infra("reading reports: %v", err)
	}
	h.Reports = reports
	byFile := map[string][]Report{}
	for _, r := range reports {
		byFile[r.File] = append(byFile[r.File], r)
		trackPid(r.Pid, r.StartTime)
	}
	plugOf := map[string]Plugin{}
	for _, p := range c.Plugins {
		plugOf[pluginDirName+"/"+p.File()] = p
	}

	// "reaped": killed and waited for — the pid is gone or re-used, not a zombie. nri's stop()
	// is Kill+Wait; every process nri launched, whether it stops, drops or gives up on it, is
	// reaped (since the fix of D20 also one that ended or closed its connection before
	// registering).
	notReaped := func(when string, r Report, p Plugin) verdict {
		gone, st, took := waitGone(r.Pid, r.StartTime, deathBound)
		h.note("%s: process %d of %s: reaped=%v state=%s after %v", when, r.Pid, p.File(), gone, st, took.Round(time.Microsecond))
		if !gone {
			what := fmt.Sprintf("is still alive (state %s)", st)
			if st == "Z" || st == "X" || st == "x" {
				what = "is an unreaped zombie (nobody waited for it)"
			}
			return failTimed(h, "%s: process %d of plugin %s (%s) %s %v later — a registered plugin that nri stops or drops must be killed and reaped",
				when, r.Pid, p.File(), p.Behav, what, took.Round(time.Millisecond))
		}
		return verdict{}
	}
	overloaded := func(format string, a ...any) verdict {
		h.note("overloaded: "+format, a...)
		return verdict{out: ev.Outcome{Overloaded: true, Classes: []string{"overloaded"}, History: h}}
	}
	if c.SyncFn != "" {
		if startErr == nil {
			// not something C18 speaks about; nothing to judge in this shape
			h.note("Start succeeded although the runtime's SyncFn returned an error")
			return verdict{out: ev.Outcome{Excluded: "start_succeeded_despite_syncfn_error", Classes: []string{"excluded"}, History: h}}
		}
		// Start-up failed on the runtime's side: nri must not leave behind what it launched.
		// Every launched process is killed and reaped when Start returns (startPlugins stops
		// the started plugins on its way out; those that failed earlier were stopped then) —
		// without the runtime having to call Stop.
		for _, r := range reports {
			p := plugOf[r.File]
			if v := notReaped("after the failed Start (the runtime's SyncFn returned an error; nri must stop the plugins it launched)", r, p); v.out.Fail != "" {
				return v
			}
		}
	}
	if startErr == nil {
		for _, p := range c.Plugins {
			switch p.Behav {
			case bExit, bCloseFD, bSleep, bCfgFail, bCfgHang, bBadMask, bSyncFail, bSyncHang, bSyncClose:
				// every process nri launched and gave up on during start-up is killed and
				// reaped once Start has returned — also one that ended on its own or closed its
				// connection before registering
				for _, r := range byFile[pluginDirName+"/"+p.File()] {
					if v := notReaped("after Start (plugin failed to register/configure/synchronize)", r, p); v.out.Fail != "" {
						return v
					}
				}
			}
		}
	}

	// --- external plugins and lifecycle requests ----------------------------------------------
	extLog, err := os.OpenFile(filepath.Join(root, "events.log"), os.O_WRONLY|os.O_APPEND|os.O_CREATE, 0o644)
	if err != nil {
		return infra("%v", err)
	}
	defer extLog.Close()
	exts := map[int]*extPlugin{}
	defer func() {
		for _, e := range exts {
			e.stub.Stop()
		}
	}()
	type pend struct {
		p Plugin
		r Report
	}
	var pending []pend // plugins that failed on their own after answering; nri drops them at its next step
	justFailed := false
	if startErr == nil {
		for i := 0; i <= len(c.Ops); i++ {
			// slot i: leaves, then joins
			for xi, x := range c.Exts {
				if x.Leave == i && exts[xi] != nil {
					exts[xi].stub.Stop()
					h.note("slot %d: external plugin %s left", i, x.Key())
				}
			}
			for xi, x := range c.Exts {
				if x.Join != i {
					continue
				}
				if justFailed {
					time.Sleep(noticeGrace)
					justFailed = false
				}
				e, err, slow := joinExt(a, x, filepath.Join(root, "nri.sock"), extLog)
				if slow {
					return overloaded("external plugin %s: %v", x.Key(), err)
				}
				if err != nil {
					return infra("external plugin %s: %v", x.Key(), err)
				}
				exts[xi] = e
				h.note("slot %d: external plugin %s registered and synchronized", i, x.Key())
			}
			justFailed = false
			if i == len(c.Ops) {
				break
			}
			op := c.Ops[i]
			t1 := time.Now()
			err := issue(a, op, tagOf(i))
			h.note("%s %s returned %v after %v", op, tagOf(i), err, time.Since(t1).Round(time.Microsecond))
			if c.StopAfter != "" && i == len(c.Ops)-1 {
				// Stop follows at a drawn distance: nothing is waited for or looked at in
				// between; everything is judged after Stop
				break
			}
			// a plugin that failed on its own earlier has been dropped by now at the latest
			for _, pd := range pending {
				if v := notReaped(fmt.Sprintf("after request %s (the first request after the plugin closed its connection following its event %d)", tagOf(i), pd.p.K), pd.r, pd.p); v.out.Fail != "" {
					return v
				}
			}
			pending = nil
			for _, p := range c.Plugins {
				if !p.failsAtEvent() || p.K != i+1 {
					continue
				}
				for _, r := range byFile[pluginDirName+"/"+p.File()] {
					switch {
					case !p.failsAfterAnswer():
						if v := notReaped(fmt.Sprintf("after request %s (the plugin's event %d)", tagOf(i), p.K), r, p); v.out.Fail != "" {
							return v
						}
					case p.Behav == bDieAfter:
						// harness synchronisation only: the process ends on its own
						if dead, st, took := waitDead(r.Pid, r.StartTime, syncBound); !dead {
							return overloaded("probe %s did not exit on its own within %v (state %s)", p.File(), took, st)
						}
						pending = append(pending, pend{p, r})
						justFailed = true
					case p.Behav == bLinger:
						if !waitLogLine(root, pluginDirName+"/"+p.File(), "ConnClosed", syncBound) {
							return overloaded("probe %s did not report its closed connection", p.File())
						}
						pending = append(pending, pend{p, r})
						justFailed = true
					}
				}
			}
		}
	}

	// --- stop ------------------------------------------------------------------------------
	if d := stopDelays[c.StopAfter]; d > 0 && startErr == nil {
		time.Sleep(d)
	}
	t2 := time.Now()
	a.Stop()
	stopped = true
	h.note("Stop returned after %v", time.Since(t2).Round(time.Microsecond))
	var lenient []string
	for _, r := range reports {
		if v := notReaped("after Stop", r, plugOf[r.File]); v.out.Fail != "" {
			return v
		}
	}
	for _, e := range exts {
		e.stub.Stop()
	}

	lines, err := readLog(root)
	if err != nil {
		return infra("reading the event log: %v", err)
	}
	h.Log = lines

	v := judge(c, h, startErr, reports, lines, canExec, own, wantSync)
	if os.Getenv("C18_DEBUG") != "" {
		fmt.Fprintf(os.Stderr, "--- %d plugins, fail=%q\n  %s\n", len(c.Plugins), v.out.Fail, strings.Join(h.Timeline, "\n  "))
	}
	v.out.Lenient = append(v.out.Lenient, lenient...)
	return v
}

func sortedKeysS(m map[string]string) []string {
	ks := make([]string, 0, len(m))
	for k := range m {
		ks = append(ks, k)
	}
	sort.Slice(ks, func(i, j int) bool {
		a, _ := strconv.Atoi(ks[i])
		b, _ := strconv.Atoi(ks[j])
		return a < b
	})
	return ks
}

var lifecycle = func() map[string]bool {
	m := map[string]bool{}
	for _, k := range opKinds {
		m[k] = true
	}
	return m
}()

// judge is the oracle over the reports and the event log.
func judge(c C18Case, h *history, startErr error, reports []Report, lines []Line, canExec map[string]bool, own map[string]string, wantSync string) verdict {
	classes := map[string]int{}
	cls := func(k string) { classes[k]++ }

	byFile := map[string][]Report{}
	for _, r := range reports {
		byFile[r.File] = append(byFile[r.File], r)
	}
	startNote := ""
	if startErr != nil {
		startNote = fmt.Sprintf(" (Adaptation.Start failed: %v)", startErr)
	}

	// -- launched exactly once / nothing else launched ------------------------------------
	expectLaunch := map[string]Plugin{}
	var linkLenient []string
	launched := 0
	for _, p := range c.Plugins {
		key := pluginDirName + "/" + p.File()
		cls("behav:" + p.Behav)
		if p.Mode != 0o755 {
			cls(fmt.Sprintf("mode:%03o", p.Mode))
		}
		if p.Behav == bGarbage {
			continue
		}
		if !canExec[p.File()] {
			cls("not_executable_by_runtime")
			continue
		}
		if p.Link {
			// a symbolic link is not a regular file: the statement neither demands nor forbids
			// launching it. If nri launched it, it is judged like any other plugin.
			if len(byFile[key]) == 0 {
				linkLenient = append(linkLenient, "symlink_entry_not_launched")
				continue
			}
			linkLenient = append(linkLenient, "symlink_entry_launched")
		}
		expectLaunch[key] = p
		launched++
	}
	for _, r := range reports {
		if _, ok := expectLaunch[r.File]; !ok {
			return failNow(h, "a process was launched from %q (pid %d), which is not an executable regular file NN-name of the plugin directory", r.File, r.Pid)
		}
	}
	for _, key := range sortedKeysP(expectLaunch) {
		p := expectLaunch[key]
		switch n := len(byFile[key]); {
		case n == 0:
			// Start-up as a whole failing, or nri skipping the file, both end here.
			// (time-explainable: on a badly overloaded machine a launched process can be killed
			// by the registration timeout before its main function has run)
			return failTimed(h, "executable regular file %s (mode %03o) was not launched: no report%s", p.File(), p.Mode, startNote)
		case n > 1:
			return failNow(h, "executable regular file %s was launched %d times (pids %d, %d, …)", p.File(), n, byFile[key][0].Pid, byFile[key][1].Pid)
		}
	}

	// -- environment and descriptors --------------------------------------------------------
	for _, key := range sortedKeysP(expectLaunch) {
		p := expectLaunch[key]
		r := byFile[key][0]
		want := []string{"NRI_PLUGIN_IDX=" + p.Idx, "NRI_PLUGIN_NAME=" + p.Base(), "NRI_PLUGIN_SOCKET=3"}
		got := append([]string{}, r.Env...)
		sort.Strings(got)
		if strings.Join(got, "\x00") != strings.Join(want, "\x00") {
			return failNow(h, "plugin %s: environment is %q, want exactly %q", p.File(), got, want)
		}
		if r.ListErr != "" {
			return verdict{out: ev.Outcome{Excluded: "infrastructure", History: h}}
		}
		var extra []string
		seen := map[int]FD{}
		for _, fd := range r.FDs {
			if fd.Cloexec {
				continue // not inherited: opened by the probe's own runtime after exec
			}
			if fd.Err != "" {
				return verdict{out: ev.Outcome{Excluded: "infrastructure", History: h}}
			}
			seen[fd.N] = fd
			if fd.N > 3 {
				who := ""
				for n, t := range own {
					if t == fd.Target {
						who = fmt.Sprintf(" (same object as the runtime's descriptor %s)", n)
						break
					}
				}
				extra = append(extra, fmt.Sprintf("%d -> %s%s", fd.N, fd.Target, who))
			}
		}
		if len(extra) > 0 {
			sock := ""
			if s, ok := seen[3]; ok {
				sock = s.Target
			}
			return failNow(h, "plugin %s inherited descriptors besides 0-2 and its socket 3 (%s): %s", p.File(), sock, strings.Join(extra, "; "))
		}
		for n := 0; n <= 2; n++ {
			fd, ok := seen[n]
			if !ok {
				return failNow(h, "plugin %s: descriptor %d is not open", p.File(), n)
			}
			if fd.Target != "/dev/null" {
				return failNow(h, "plugin %s: descriptor %d is %s (%s), a descriptor of the runtime, not /dev/null", p.File(), n, fd.Target, fd.Type)
			}
		}
		if fd, ok := seen[3]; !ok || fd.Type != "sock" {
			return failNow(h, "plugin %s: NRI_PLUGIN_SOCKET=3 but descriptor 3 is %+v, not a socket", p.File(), fd)
		}
	}

	// -- split the log --------------------------------------------------------------------------
	extKeys := map[string]bool{}
	for _, x := range c.Exts {
		extKeys[x.Key()] = true
	}
	cfgLines := map[string][]Line{}
	syncCount := map[string]int{}
	syncTag := map[string]string{}
	lateSync := ""
	var life []Line
	for _, l := range lines {
		switch {
		case l.Ev == "Synchronize":
			syncCount[l.P]++
			syncTag[l.P] = l.Tag
			if len(life) > 0 && lateSync == "" {
				lateSync = l.P
			}
		case l.Ev == "Configure":
			cfgLines[l.P] = append(cfgLines[l.P], l)
		case lifecycle[l.Ev]:
			life = append(life, l)
		}
		if _, ok := expectLaunch[l.P]; !ok && !extKeys[l.P] {
			return failNow(h, "event log has a line from %q, which should never have run", l.P)
		}
	}

	// -- configuration --------------------------------------------------------------------------
	for _, key := range sortedKeysP(expectLaunch) {
		p := expectLaunch[key]
		want, kind := expectedConfig(c, p)
		cls("conf:" + kind)
		ls := cfgLines[key]
		if !p.reachesConfigure() {
			if len(ls) != 0 {
				return failNow(h, "plugin %s (%s) never registers but was configured", p.File(), p.Behav)
			}
			continue
		}
		if len(ls) == 0 {
			return failTimed(h, "plugin %s (%s) registered but was never configured%s", p.File(), p.Behav, startNote)
		}
		if len(ls) > 1 {
			return failNow(h, "plugin %s was configured %d times", p.File(), len(ls))
		}
		got := ""
		if ls[0].Cfg != nil {
			got = *ls[0].Cfg
		}
		if got != want {
			return failNow(h, "plugin %s received configuration %s, want %s (drop-ins present: %s; NN-name.conf wins over name.conf, none means empty)",
				p.File(), short(got), short(want), kind)
		}
	}

	// -- synchronization: every launched plugin that got through registration and configuration
	// is synchronized, once, before any request is relayed — whatever happened to the plugins
	// synchronized before it ("a plugin that fails to … synchronize is skipped without
	// affecting the others")
	if startErr == nil || c.SyncFn == "fail_after" {
		for _, key := range sortedKeysP(expectLaunch) {
			p := expectLaunch[key]
			n := syncCount[key]
			switch {
			case !p.reachesSync() && n != 0:
				return failNow(h, "plugin %s (%s) never got through registration and configuration but was synchronized", p.File(), p.Behav)
			case p.reachesSync() && n == 0:
				return failTimed(h, "plugin %s (%s) registered and was configured but was never synchronized%s", p.File(), p.Behav, syncBehind(c, expectLaunch, p))
			case p.reachesSync() && n > 1:
				return failNow(h, "plugin %s (%s) had its Synchronize handler invoked %d times (a state split over several messages is still one synchronization)", p.File(), p.Behav, n)
			case p.reachesSync() && syncTag[key] != wantSync:
				return failNow(h, "plugin %s (%s) was synchronized with %s, the runtime handed out %s", p.File(), p.Behav, syncTag[key], wantSync)
			}
		}
		if lateSync != "" {
			return failNow(h, "plugin %q was synchronized after requests had been relayed", lateSync)
		}
	}

	// -- invocation: every request reaches the active plugins — launched ones that started up
	// and have not failed, external ones between their registration and their leaving —
	// once each, in index order over all of them together
	type part struct {
		idx, label, behav string
		k                 int
		ext               bool
	}
	active := map[string]part{}
	ops := c.Ops
	runtimeStartFailure := c.SyncFn != "" && startErr != nil
	if runtimeStartFailure {
		ops = nil // nothing is relayed after a failed Start; nobody may have been invoked
	}
	for key, p := range expectLaunch {
		if p.startsUp() && !runtimeStartFailure {
			active[key] = part{idx: p.Idx, label: p.File(), behav: p.Behav, k: p.K}
		}
	}
	if len(active) > 0 {
		cls(fmt.Sprintf("active_at_start:%d", len(active)))
	}
	activeKeys := func() []string {
		ks := make([]string, 0, len(active))
		for k := range active {
			ks = append(ks, k)
		}
		sort.Strings(ks)
		return ks
	}
	// the log must be grouped by request in issue order
	pos := 0
	dropsAtEvent, survivors := 0, 0
	equalIdx, equalIdxMixed, mixedRequests := false, false, 0
	selfFailedAt := -1 // slot directly after a launched plugin's own failure (dieafter/lingerafter)
	for i, op := range ops {
		if startErr == nil {
			for _, x := range c.Exts {
				if x.Leave == i {
					delete(active, x.Key())
					cls("ext:left_before_stop")
				}
			}
			for _, x := range c.Exts {
				if x.Join == i {
					active[x.Key()] = part{idx: x.Idx, label: "external " + x.Idx + "-" + x.Name, behav: "external", ext: true}
					cls("ext:joined")
					if i == 0 {
						cls("ext:joined_before_first_request")
					}
					if selfFailedAt == i {
						cls("ext:joined_right_after_launched_plugin_failed")
					}
				}
			}
		}
		nExt, nLaunched := 0, 0
		byIdx := map[string][2]int{}
		for _, pt := range active {
			v := byIdx[pt.idx]
			if pt.ext {
				nExt++
				v[1]++
			} else {
				nLaunched++
				v[0]++
			}
			byIdx[pt.idx] = v
		}
		for _, v := range byIdx {
			if v[0]+v[1] > 1 {
				equalIdx = true
			}
			if v[0] > 0 && v[1] > 0 {
				equalIdxMixed = true
			}
		}
		if nExt > 0 && nLaunched > 0 {
			mixedRequests++
		}
		tag := tagOf(i)
		var got []Line
		for pos < len(life) && life[pos].Tag == tag {
			got = append(got, life[pos])
			pos++
		}
		seen := map[string]int{}
		prevIdx := ""
		for _, l := range got {
			p, ok := active[l.P]
			if !ok {
				if q, was := expectLaunch[l.P]; was {
					return failNow(h, "request %s %s: plugin %s (%s) was invoked although it is not (any longer) an active plugin", tag, op, q.File(), q.Behav)
				}
				if extKeys[l.P] {
					return failNow(h, "request %s %s: external plugin %s was invoked outside its registration", tag, op, l.P)
				}
				return failNow(h, "request %s %s: invocation of unknown plugin %q", tag, op, l.P)
			}
			if l.Ev != op {
				return failNow(h, "request %s: plugin %s saw event %s, the request was %s", tag, p.label, l.Ev, op)
			}
			seen[l.P]++
			if seen[l.P] > 1 {
				return failNow(h, "request %s %s: plugin %s was invoked twice", tag, op, p.label)
			}
			if p.idx < prevIdx {
				return failNow(h, "request %s %s: plugin %s (index %s) was invoked after a plugin with index %s — not in index order: %s",
					tag, op, p.label, p.idx, prevIdx, orderOf(got))
			}
			prevIdx = p.idx
		}
		for _, key := range activeKeys() {
			if seen[key] == 0 {
				p := active[key]
				return failTimed(h, "request %s %s: active plugin %s (%s) was not invoked (invoked: %s)%s", tag, op, p.label, p.behav, orderOf(got), startNote)
			}
		}
		dropped := false
		for key, p := range active {
			if !p.ext && p.k == i+1 && (p.behav == bDie || p.behav == bDieAfter || p.behav == bLinger || p.behav == bCloseAt || p.behav == bHang) {
				delete(active, key)
				dropped = true
				dropsAtEvent++
				if p.behav == bDieAfter || p.behav == bLinger {
					selfFailedAt = i + 1
				}
			}
		}
		if dropped && i+1 < len(ops) && len(active) > 0 {
			survivors++
		}
	}
	if startErr == nil {
		for _, x := range c.Exts {
			if x.Join == len(c.Ops) {
				cls("ext:joined")
				cls("ext:joined_after_last_request")
				if selfFailedAt == len(c.Ops) {
					cls("ext:joined_right_after_launched_plugin_failed")
				}
			}
			if x.Leave == len(c.Ops) {
				cls("ext:left_before_stop")
			}
		}
	}
	if pos < len(life) {
		l := life[pos]
		return failNow(h, "event log: invocation %s %s of plugin %q out of request order (position %d of %d)", l.Ev, l.Tag, l.P, pos, len(life))
	}
	if equalIdx {
		cls("equal_index_active")
	}
	if equalIdxMixed {
		cls("equal_index_launched_and_external")
	}
	if mixedRequests > 0 {
		cls("requests_with_launched_and_external")
	}

	// -- classes / non-triviality -----------------------------------------------------------------
	distractors := 0
	for _, e := range c.Others {
		distractors++
		if e.Kind == "dirlink" || e.Kind == "filelink" || isSpecialKind(e.Kind) {
			cls("distractor:" + e.Kind)
			if isSpecialKind(e.Kind) {
				cls("distractor:not_a_regular_file_with_execute_bits")
			}
		} else if e.Kind == "dir" {
			cls("distractor:dir")
			if e.Inner != "" {
				cls("distractor:dir_with_executable_inside")
			}
		} else {
			cls("distractor:nonexec_" + e.Content)
		}
		if _, _, err := api.ParsePluginName(e.Name); err != nil {
			cls("distractor:malformed_name")
		} else {
			cls("distractor:plugin_like_name")
		}
	}
	misbehaving := 0
	for _, p := range c.Plugins {
		if p.Behav != bOK {
			misbehaving++
		}
	}
	competing := 0
	usedBy := map[string]int{}
	for _, p := range expectLaunch {
		_, kind := expectedConfig(c, p)
		if kind == "idx+base" {
			competing++
		}
		if kind == "base" || kind == "idx+base" {
			usedBy[p.Base()+".conf"]++
		}
		for _, q := range c.Plugins {
			if q.File() != p.File() && q.File() == p.Base() {
				cls("conf:base_name_is_other_plugins_file_name")
			}
		}
	}
	for _, n := range usedBy {
		if n > 1 {
			cls("conf:base_shared_by_plugins")
			break
		}
	}
	known := map[string]bool{}
	for _, p := range c.Plugins {
		known[p.File()+".conf"], known[p.Base()+".conf"] = true, true
	}
	for _, f := range c.Confs {
		if !known[f.File] {
			cls("distractor:dropin_other_name")
			distractors++
			break
		}
	}
	if misbehaving > 0 {
		cls("with_misbehaving")
	}
	if c.SyncFn != "fail_before" {
		ps := syncOrder(c, expectLaunch)
		for i := 1; i < len(ps); i++ {
			if ps[i-1].failsAtSync() && ps[i].startsUp() {
				cls("healthy_launched_plugin_directly_behind_sync_failure")
				if ps[i].Behav == bOK {
					cls("ok_plugin_directly_behind_sync_failure")
				}
				break
			}
		}
		for i := 1; i < len(ps); i++ {
			if ps[i-1].failsAtSync() && ps[i].failsAtSync() {
				cls("sync_failure_directly_behind_sync_failure")
				break
			}
		}
	}
	// launched plugins whose running processes one and the same request finds closed (they
	// closed their connection or hung in that request, or closed it after the previous one)
	if !runtimeStartFailure && startErr == nil {
		most, atLast := 0, 0
		for e := 1; e <= len(c.Ops); e++ {
			n := 0
			for _, p := range expectLaunch {
				if ((p.Behav == bCloseAt || p.Behav == bHang) && p.K == e) || (p.Behav == bLinger && p.K == e-1) {
					n++
				}
			}
			if n > most {
				most = n
			}
			if e == len(c.Ops) {
				atLast = n
			}
		}
		if most >= 2 {
			cls(fmt.Sprintf("running_plugins_dropped_by_one_request:%d", most))
		}
		sa := c.StopAfter
		if sa == "" {
			sa = "settled"
		}
		cls("stop_after:" + sa)
		if atLast >= 2 && (c.StopAfter == "0" || c.StopAfter == "1ms") {
			cls("several_running_plugins_dropped_by_last_request_then_stop_within_1ms")
		}
	}
	{
		kib := c.SyncCtrs * c.SyncCtrKiB
		nSync := len(syncOrder(c, expectLaunch))
		switch {
		case kib > 4096:
			cls("sync_state:above_4MiB")
			if nSync > 0 && c.SyncFn != "fail_before" {
				cls("launched_plugin_synchronized_with_state_above_4MiB")
			}
		case kib > 3000:
			cls("sync_state:just_below_4MiB")
		default:
			cls("sync_state:small")
		}
	}
	if c.StartThread != "" {
		cls("start_thread:" + c.StartThread)
		if len(active) > 0 || dropsAtEvent > 0 {
			cls("healthy_plugins_outlive_the_thread_that_called_start")
		}
	}
	if c.SyncFn != "" {
		cls("runtime_syncfn:" + c.SyncFn)
		n := 0
		for _, p := range expectLaunch {
			if p.startsUp() {
				n++
			}
		}
		if n > 0 {
			cls("runtime_start_failure_with_registered_plugins")
		}
		if n > 1 {
			cls("runtime_start_failure_with_several_registered_plugins")
		}
	}
	// runtime-side waits spent on plugins that never register / never answer Configure and
	// sort before a healthy plugin: beyond 5 s they exceed a stub's own registration window
	{
		reg := regTimeout
		if c.RegTimeoutMs != 0 {
			reg = time.Duration(c.RegTimeoutMs) * time.Millisecond
		}
		var wait time.Duration
		var worst time.Duration
		ps := append([]Plugin{}, c.Plugins...)
		sort.SliceStable(ps, func(i, j int) bool { return ps[i].File() < ps[j].File() }) // nri launches in directory order
		for _, p := range ps {
			if _, ok := expectLaunch[pluginDirName+"/"+p.File()]; !ok {
				continue
			}
			switch {
			case p.Behav == bSleep:
				wait += reg
			case p.Behav == bCfgHang:
				wait += reqTimeout
			case p.startsUp() && wait > worst:
				worst = wait
			}
		}
		if worst >= 5500*time.Millisecond {
			cls("healthy_behind_stacked_waits_over_5s")
		} else if worst > 0 {
			cls("healthy_behind_a_wait")
		}
	}
	if dropsAtEvent > 0 {
		cls("dropped_at_event")
	}
	if survivors > 0 {
		cls("others_invoked_after_a_drop")
	}
	startFaults := 0
	for _, p := range c.Plugins {
		if !p.startsUp() {
			startFaults++
		}
	}
	if startFaults > 0 && len(active)+dropsAtEvent > 0 {
		cls("others_started_despite_startup_fault")
	}
	if c.Listen {
		cls("external_socket:on")
	} else {
		cls("external_socket:off")
	}
	if len(c.Held) > 0 {
		cls("runtime_holds_descriptors")
	}
	cls(fmt.Sprintf("ops:%d", len(c.Ops)))
	if c.NoPluginDir {
		cls("no_plugin_dir")
	}

	if c.PluginPath != "" {
		cls("plugin_path:" + c.PluginPath)
	}
	if c.ConfPath != "" {
		cls("conf_path:" + c.ConfPath)
	}
	for _, f := range c.Confs {
		if f.Link {
			cls("dropin_is_symlink")
			break
		}
	}
	o := ev.Outcome{
		Lenient:    linkLenient,
		NonTrivial: launched >= 2 && (distractors+misbehaving+competing) >= 1,
		Classes:    []string{fmt.Sprintf("launched:%d", launched)},
	}
	for _, k := range sortedKeys(classes) {
		for n := 0; n < classes[k]; n++ {
			o.Classes = append(o.Classes, k)
		}
	}
	return verdict{out: o}
}

// stateDigest mirrors StateDigest of cmd/probeplugin.
func stateDigest(pods []*api.PodSandbox, ctrs []*api.Container) string {
	var sum uint64
	one := func(kind, id string, ann map[string]string) {
		keys := make([]string, 0, len(ann))
		for k := range ann {
			keys = append(keys, k)
		}
		sort.Strings(keys)
		hh := fnv.New64a()
		hh.Write([]byte(kind + "\x00" + id))
		for _, k := range keys {
			hh.Write([]byte("\x00" + k + "\x00" + ann[k]))
		}
		sum += hh.Sum64()
	}
	for _, p := range pods {
		one("pod", p.GetId(), p.GetAnnotations())
	}
	for _, c := range ctrs {
		one("ctr", c.GetId(), c.GetAnnotations())
	}
	return fmt.Sprintf("pods=%d ctrs=%d sum=%016x", len(pods), len(ctrs), sum)
}

// nriStacks returns the stacks of the goroutines that are inside nri (for a hang report).
func nriStacks() string {
	buf := make([]byte, 1<<20)
	buf = buf[:runtime.Stack(buf, true)]
	var keep []string
	for _, g := range strings.Split(string(buf), "\n\n") {
		if strings.Contains(g, "containerd/nri/pkg/adaptation") {
			if len(g) > 1500 {
				g = g[:1500] + " …"
			}
			keep = append(keep, g)
		}
		if len(keep) >= 6 {
			break
		}
	}
	return strings.Join(keep, "\n\n")
}

// syncOrder lists the launched plugins nri hands to the synchronization, in directory order.
func syncOrder(c C18Case, expectLaunch map[string]Plugin) []Plugin {
	var ps []Plugin
	for _, p := range c.Plugins {
		if _, ok := expectLaunch[pluginDirName+"/"+p.File()]; ok && p.reachesSync() {
			ps = append(ps, p)
		}
	}
	sort.Slice(ps, func(i, j int) bool { return ps[i].File() < ps[j].File() })
	return ps
}

// syncBehind says which plugin is synchronized directly before p (for the verdict text).
func syncBehind(c C18Case, expectLaunch map[string]Plugin, p Plugin) string {
	ps := syncOrder(c, expectLaunch)
	for i := range ps {
		if ps[i].File() == p.File() && i > 0 {
			return fmt.Sprintf(" (it comes directly behind %s, %s)", ps[i-1].File(), ps[i-1].Behav)
		}
	}
	return ""
}

func orderOf(ls []Line) string {
	var s []string
	for _, l := range ls {
		s = append(s, strings.TrimPrefix(l.P, pluginDirName+"/"))
	}
	if len(s) == 0 {
		return "none"
	}
	return strings.Join(s, " < ")
}

func sortedKeysP(m map[string]Plugin) []string {
	ks := make([]string, 0, len(m))
	for k := range m {
		ks = append(ks, k)
	}
	sort.Strings(ks)
	return ks
}

// confirmedTimed counts time-bound failures that were confirmed in this process.
var confirmedTimed int

// runC18 executes the case; a failure that slowness could explain (a healthy plugin dropped
// by one of nri's timeouts, a kill not visible within the bound) is confirmed by
// re-executing the same case, alone, on a fresh tree: three times for the first such failure
// of the process, once for later ones and for cases that take more than 4 s per execution. It is a violation only if every execution fails;
// if one passes the case is counted as overloaded and not judged.
func runC18(c C18Case) ev.Outcome {
	t0 := time.Now()
	v := runOnce(c)
	if v.out.Fail == "" || !v.timeBound {
		return v.out
	}
	reruns := 3
	if confirmedTimed > 0 || time.Since(t0) > 4*time.Second {
		reruns = 1 // (a case with stacked waits takes 6 s and more per execution)
	}
	for i := 0; i < reruns; i++ {
		again := runOnce(c)
		if again.out.Fail == "" {
			o := again.out
			o.Overloaded = true
			o.NonTrivial = false
			o.Classes = append([]string{"overloaded"}, o.Classes...)
			return o
		}
		if !again.timeBound {
			return again.out
		}
		v = again
	}
	confirmedTimed++
	return v.out
}

// TestExh_C18 is a fixed sweep (shard 0 only) that guarantees every behaviour and every
// drop-in combination is exercised whatever the seed: each behaviour once between two
// healthy neighbours, and all 8 presence combinations of {10-a_ok.conf, 20-a_ok.conf,
// a_ok.conf} for two plugins sharing the base name.
func TestExh_C18(t *testing.T) {
	if probeSrc == "" {
		t.Fatal("VERIF_BIN is not set")
	}
	r := ev.Get("C18")
	defer r.Flush()
	ops := []string{"RunPodSandbox", "CreateContainer", "StartContainer", "StopContainer"}
	var cases []C18Case
	for i, b := range []string{bOK, bExit, bSleep, bCloseFD, bCfgFail, bCfgHang, bBadMask, bSyncFail, bSyncHang, bSyncClose, bDie, bDieAfter, bLinger, bCloseAt, bHang, bGarbage} {
		x := Plugin{Idx: "20", Stem: "x", Behav: b, Mode: 0o755}
		switch b {
		case bExit:
			x.K = 1
		case bDie, bDieAfter, bLinger, bCloseAt, bHang:
			x.K = 2
		case bGarbage:
			x.Garbage = []string{"empty", "text", "elf"}[i%3]
		}
		c := C18Case{
			Plugins: []Plugin{{Idx: "10", Stem: "a", Behav: bOK, Mode: 0o755}, x, {Idx: "30", Stem: "c", Behav: bOK, Mode: 0o700}},
			Others:  []Entry{{Name: "README", Kind: "file", Mode: 0o644, Content: "text"}, {Name: "40-d_ok", Kind: "dir", Mode: 0o755, Inner: "41-inner_ok"}},
			Confs: []Conf{
				{File: x.File() + ".conf", Content: "# idx\nfor: " + x.File() + "\n"},
				{File: x.Base() + ".conf", Content: "# base\nfor: " + x.Base() + "\n"},
				{File: "a_ok.conf", Content: "# base\nfor: a_ok\n"},
			},
			Ops:  ops,
			Held: []string{"file", "unix", "pipe"},
		}
		cases = append(cases, c)
	}
	for m := 0; m < 8; m++ {
		c := C18Case{
			Plugins: []Plugin{{Idx: "10", Stem: "a", Behav: bOK, Mode: 0o755}, {Idx: "20", Stem: "a", Behav: bOK, Mode: 0o755}},
			Ops:     ops[:2],
			Listen:  true,
		}
		for bit, f := range []string{"10-a_ok.conf", "20-a_ok.conf", "a_ok.conf"} {
			if m&(1<<bit) != 0 {
				c.Confs = append(c.Confs, Conf{File: f, Content: "content of " + f + "\n"})
			}
		}
		c.NoConfDir = len(c.Confs) == 0
		cases = append(cases, c)
	}
	// a launched plugin fails on its own after its k-th event, then an external plugin
	// registers before the next request (k=2) or before Stop (k=4); and an external plugin
	// sharing an index with a launched one that comes and goes
	for _, b := range []string{bDieAfter, bLinger} {
		for _, k := range []int{2, 4} {
			cases = append(cases, C18Case{
				Plugins: []Plugin{{Idx: "10", Stem: "a", Behav: bOK, Mode: 0o755}, {Idx: "20", Stem: "x", Behav: b, K: k, Mode: 0o755}, {Idx: "30", Stem: "c", Behav: bOK, Mode: 0o755}},
				Ops:     ops,
				Listen:  true,
				Exts:    []Ext{{Idx: "15", Name: "e0", Join: k, Leave: len(ops) + 1}},
			})
		}
	}
	cases = append(cases, C18Case{
		Plugins: []Plugin{{Idx: "10", Stem: "a", Behav: bOK, Mode: 0o755}, {Idx: "30", Stem: "c", Behav: bOK, Mode: 0o755}},
		Ops:     ops,
		Listen:  true,
		Exts:    []Ext{{Idx: "10", Name: "e0", Join: 0, Leave: 2}, {Idx: "20", Name: "e1", Join: 1, Leave: len(ops) + 1}, {Idx: "05", Name: "e2", Join: 3, Leave: 4}},
	})
	// the plugin directory, or the drop-in directory, is the working directory: ".", "./", "./.";
	// or it is given relative to its parent ("p", "./p", "reports/../p") or to a sibling ("../p")
	for _, shape := range []string{"dot", "dotslash", "dotdot", "rel_parent", "rel_dotparent", "rel_updown", "rel_sibling"} {
		for _, which := range []int{0, 1} {
			c := C18Case{
				Plugins: []Plugin{{Idx: "10", Stem: "a", Behav: bOK, Mode: 0o755}, {Idx: "20", Stem: "b", Behav: bOK, Mode: 0o700}},
				Others:  []Entry{{Name: "notes.txt", Kind: "file", Mode: 0o644, Content: "text"}},
				Confs:   []Conf{{File: "10-a_ok.conf", Content: "idx\n"}, {File: "a_ok.conf", Content: "base\n"}, {File: "b_ok.conf", Content: "base of b\n"}},
				Ops:     ops[:2],
			}
			if which == 0 {
				c.PluginPath = shape
			} else {
				c.ConfPath = shape
			}
			cases = append(cases, c)
		}
	}
	// Start is called from a goroutine locked to its OS thread which ends right afterwards
	for _, n := range []int{1, 3} {
		c := C18Case{Ops: ops, StartThread: "locked_thread_exits", StopAfter: "20ms"}
		for j := 0; j < n; j++ {
			c.Plugins = append(c.Plugins, Plugin{Idx: fmt.Sprintf("%d0", j+1), Stem: "t", Behav: bOK, Mode: 0o755})
		}
		cases = append(cases, c)
	}
	// entries that are not regular files, with execute bits and plugin names, between healthy
	// plugins: never launched, Start returns, nobody else is affected
	for _, kind := range []string{"fifo", "sock", "devlink", "fifolink", "socklink"} {
		cases = append(cases, C18Case{
			Plugins: []Plugin{{Idx: "10", Stem: "a", Behav: bOK, Mode: 0o755}, {Idx: "30", Stem: "c", Behav: bOK, Mode: 0o755}},
			Others:  []Entry{{Name: "20-" + kind + "_ok", Kind: kind, Mode: 0o755}, {Name: "05-" + kind + "_ok", Kind: kind, Mode: 0o711}},
			Confs:   []Conf{{File: "20-" + kind + "_ok.conf", Content: "nobody reads this\n"}},
			Ops:     ops[:2],
		})
	}
	// plugins that answer Configure with an event mask the runtime does not know (every
	// variant), between healthy ones
	for k := 0; k < nBadMasks; k++ {
		cases = append(cases, C18Case{
			Plugins: []Plugin{{Idx: "10", Stem: "a", Behav: bOK, Mode: 0o755}, {Idx: "20", Stem: "m", Behav: bBadMask, K: k, Mode: 0o755}, {Idx: "30", Stem: "c", Behav: bOK, Mode: 0o755}},
			Confs:   []Conf{{File: fmt.Sprintf("20-m_badmask%d.conf", k), Content: "for the plugin with the unknown events\n"}},
			Ops:     ops[:2], StopAfter: "0",
		})
	}
	// the state handed out while launched plugins synchronize: just below and well above the
	// 4 MiB message limit, with healthy and failing plugins, and an external one joining later
	for _, v := range []struct{ ctrs int }{{19}, {40}, {60}} {
		cases = append(cases, C18Case{
			Plugins: []Plugin{{Idx: "10", Stem: "a", Behav: bOK, Mode: 0o755}, {Idx: "20", Stem: "s", Behav: bSyncFail, Mode: 0o755}, {Idx: "30", Stem: "c", Behav: bOK, Mode: 0o755}},
			Ops:     ops[:2], SyncPods: 3, SyncCtrs: v.ctrs, SyncCtrKiB: 200, Listen: true,
			Exts: []Ext{{Idx: "15", Name: "e0", Join: 1, Leave: 3}},
		})
	}
	cases = append(cases, C18Case{
		Plugins: []Plugin{{Idx: "10", Stem: "a", Behav: bOK, Mode: 0o755}}, Ops: ops[:1], SyncPods: 3, SyncCtrs: 40, SyncCtrKiB: 200, ReqTimeoutMs: 5000,
	})
	// failures at the Synchronize stage directly in front of a healthy plugin
	mk := func(behavs ...string) []Plugin {
		var ps []Plugin
		for j, b := range behavs {
			ps = append(ps, Plugin{Idx: fmt.Sprintf("%d0", j+1), Stem: "y", Behav: b, Mode: 0o755})
		}
		return ps
	}
	for _, bs := range [][]string{
		{bOK, bSyncFail, bOK}, {bSyncFail, bOK}, {bSyncFail, bSyncFail, bOK}, {bOK, bSyncHang, bOK},
		{bSyncClose, bOK}, {bOK, bSyncClose, bSyncFail, bOK, bOK},
	} {
		cases = append(cases, C18Case{Plugins: mk(bs...), Ops: ops[:3], SyncPods: 2, SyncCtrs: 3, StopAfter: "0"})
	}
	cases = append(cases, C18Case{
		Plugins: mk(bSyncFail, bOK), Ops: ops, Listen: true, SyncPods: 1,
		Exts: []Ext{{Idx: "15", Name: "e0", Join: 0, Leave: len(ops) + 1}, {Idx: "05", Name: "e1", Join: 1, Leave: 3}},
	})
	// every shape of the configured paths, for both directories at once; and directory entries
	// and drop-ins that are symbolic links
	for _, shape := range []string{"symlink", "symlink2", "symparent", "slash", "dots", "relative"} {
		cases = append(cases, C18Case{
			Plugins:    []Plugin{{Idx: "10", Stem: "a", Behav: bOK, Mode: 0o755}, {Idx: "20", Stem: "b", Behav: bOK, Mode: 0o700}},
			Others:     []Entry{{Name: "30-d_ok", Kind: "dir", Mode: 0o755, Inner: "31-inner_ok"}, {Name: "notes.txt", Kind: "file", Mode: 0o644, Content: "text"}},
			Confs:      []Conf{{File: "10-a_ok.conf", Content: "idx\n"}, {File: "a_ok.conf", Content: "base\n"}, {File: "b_ok.conf", Content: "base of b\n"}},
			Ops:        ops[:2],
			PluginPath: shape, ConfPath: shape,
		})
	}
	cases = append(cases, C18Case{
		Plugins: []Plugin{{Idx: "10", Stem: "a", Behav: bOK, Mode: 0o755}, {Idx: "20", Stem: "l", Behav: bOK, Mode: 0o755, Link: true}, {Idx: "30", Stem: "c", Behav: bOK, Mode: 0o755}},
		Others:  []Entry{{Name: "40-dl_ok", Kind: "dirlink", Mode: 0o644}, {Name: "41-fl_ok", Kind: "filelink", Mode: 0o644}},
		Confs:   []Conf{{File: "10-a_ok.conf", Content: "linked idx\n", Link: true}, {File: "a_ok.conf", Content: "base\n"}, {File: "c_ok.conf", Content: "linked base\n", Link: true}},
		Ops:     ops[:2],
	})
	// several launched plugins are found closed, with their processes running, by the last
	// request, and Stop follows at once / 1 ms / 20 ms later
	for _, v := range []struct {
		behav []string
		stop  string
	}{
		{[]string{bCloseAt, bCloseAt, bCloseAt, bCloseAt}, "0"},
		{[]string{bCloseAt, bCloseAt, bCloseAt, bCloseAt}, "0"},
		{[]string{bCloseAt, bLinger, bCloseAt, bLinger}, "0"},
		{[]string{bCloseAt, bCloseAt, bCloseAt, bCloseAt, bCloseAt, bCloseAt}, "0"},
		{[]string{bCloseAt, bCloseAt, bCloseAt, bCloseAt, bCloseAt, bCloseAt}, "0"},
		{[]string{bCloseAt, bCloseAt, bCloseAt, bCloseAt}, "1ms"},
		{[]string{bLinger, bLinger, bCloseAt}, "20ms"},
	} {
		c := C18Case{Ops: ops, StopAfter: v.stop}
		for j, b := range v.behav {
			k := len(ops)
			if b == bLinger {
				k = len(ops) - 1
			}
			c.Plugins = append(c.Plugins, Plugin{Idx: fmt.Sprintf("%d0", j+1), Stem: "q", Behav: b, K: k, Mode: 0o755})
		}
		c.Plugins = append(c.Plugins, Plugin{Idx: "25", Stem: "a", Behav: bOK, Mode: 0o755})
		cases = append(cases, c)
	}
	// the runtime's own SyncFn fails during Start, before or after it ran nri's plugin-sync
	// callback: with one healthy plugin, and with healthy ones among the usual bad ones
	for _, mode := range []string{"fail_before", "fail_after"} {
		cases = append(cases,
			C18Case{
				Plugins: []Plugin{{Idx: "10", Stem: "a", Behav: bOK, Mode: 0o755}},
				Ops:     ops[:2], SyncFn: mode, SyncPods: 1, SyncCtrs: 2,
			},
			C18Case{
				Plugins: []Plugin{
					{Idx: "05", Stem: "e", Behav: bExit, K: 1, Mode: 0o755}, {Idx: "10", Stem: "a", Behav: bOK, Mode: 0o755},
					{Idx: "20", Stem: "f", Behav: bCfgFail, Mode: 0o755}, {Idx: "30", Stem: "s", Behav: bSyncFail, Mode: 0o755},
					{Idx: "40", Stem: "d", Behav: bDie, K: 1, Mode: 0o700},
				},
				Others: []Entry{{Name: "README", Kind: "file", Mode: 0o644, Content: "text"}},
				Confs:  []Conf{{File: "10-a_ok.conf", Content: "x: y\n"}, {File: "d_die1.conf", Content: "base\n"}},
				Ops:    ops, SyncFn: mode, Listen: true, Held: []string{"pipe", "unix"},
				Exts: []Ext{{Idx: "15", Name: "e0", Join: 1, Leave: len(ops) + 1}},
			})
	}
	// stacked waits: a healthy plugin behind plugins that never register / never answer
	// Configure, whose runtime-side waits add up to ≈ 6 s — more than the 5 s a stub-based
	// plugin allows for its own registration. Each costs ≈ 6 s: one in quick, three in thorough.
	stacks := [][]string{{bSleep, bSleep, bSleep}}
	if ev.Thorough() {
		stacks = append(stacks, []string{bSleep, bSleep, bCfgHang, bCfgHang}, []string{bCfgHang, bSleep, bCfgHang, bSleep})
	}
	for _, shape := range stacks {
		c := C18Case{Ops: ops[:3], RegTimeoutMs: 2000, Held: []string{"unix"}}
		for j, b := range shape {
			c.Plugins = append(c.Plugins, Plugin{Idx: fmt.Sprintf("%d0", j+1), Stem: "s", Behav: b, Mode: 0o755})
		}
		okp := Plugin{Idx: "60", Stem: "late", Behav: bOK, Mode: 0o755}
		c.Plugins = append(c.Plugins, okp)
		c.Confs = []Conf{{File: okp.File() + ".conf", Content: "for: the plugin behind the stack\n"}, {File: okp.Base() + ".conf", Content: "not this one\n"}}
		cases = append(cases, c)
	}
	for _, c := range cases {
		raw := ev.Snapshot(c)
		r.Journal(raw)
		o := runC18(c)
		r.ClearJournal()
		o.Classes = append(o.Classes, "sweep")
		r.Record(raw, o)
		if o.Fail != "" {
			t.Fatalf("C18: %s", o.Fail)
		}
	}
	r.SetExtra("sweep_cases", len(cases))
}

func TestProp_C18(t *testing.T) {
	if probeSrc == "" {
		t.Fatal("VERIF_BIN is not set: the driver builds cmd/probeplugin into $VERIF_BIN/probeplugin")
	}
	ev.Run(t, "C18", genC18, boundedShrink(runC18, shrinkBudget))
}

// shrinkBudget bounds the time spent on minimising a failing case. rapid looks at its own
// -rapid.shrinktime only between whole minimisation steps, and one step can be a hundred
// executions that cost a second or more each here (timeouts of misbehaving plugins).
const shrinkBudget = 15 * time.Second

// boundedShrink wraps run: once the budget since the first failing case of the process is
// used up, the most recent failing case keeps its recorded outcome (rapid asks for it again to
// produce its report, and whenever it lowered random bits that do not change the case); every
// other candidate is answered "not judged" without being run, so
// rapid stops minimising. The reported case is always one that was executed and failed.
func boundedShrink(run func(C18Case) ev.Outcome, budget time.Duration) func(C18Case) ev.Outcome {
	var firstFail time.Time
	var lastFail string
	var lastOutcome ev.Outcome
	return func(c C18Case) ev.Outcome {
		key := string(ev.Snapshot(c))
		if key == lastFail {
			// the shrinker often lowers random bits that do not change the case at all
			return lastOutcome
		}
		if !firstFail.IsZero() && time.Since(firstFail) > budget {
			return ev.Outcome{Excluded: "shrink_budget_exhausted", Classes: []string{"excluded"}}
		}
		o := run(c)
		if o.Fail != "" {
			if firstFail.IsZero() {
				firstFail = time.Now()
			}
			lastFail, lastOutcome = key, o
		}
		return o
	}
}
