// Package ev is the glue between a property (generator + run function + oracle) and the
// driver: it runs the property under rapid, journals cases, records evidence counters and
// writes replay files. Nothing in here knows about nri.
package ev

import (
	"encoding/json"
	"fmt"
	"hash/fnv"
	"os"
	"path/filepath"
	"sort"
	"strings"
	"sync"
	"testing"
	"time"

	"pgregory.net/rapid"
)

// Outcome is what running one case produced.
type Outcome struct {
	Fail       string   // non-empty: the property was violated, with this verdict text
	History    any      // optional recorded history / extra data for the replay file
	NonTrivial bool     // the case satisfies the property's stated non-triviality rule
	Classes    []string // histogram keys this case falls in
	Lenient    []string // oracle accepted more than one outcome for a stated reason
	Excluded   string   // non-empty: case was not judged (reason), e.g. a known finding shape
	Overloaded bool     // a time clause failed / machine overloaded: inconclusive, not a violation
}

func Failf(format string, a ...any) Outcome { return Outcome{Fail: fmt.Sprintf(format, a...)} }

// Recorder accumulates evidence for one shard.
type Recorder struct {
	mu         sync.Mutex
	Prop       string
	outDir     string
	evals      int
	nontrivial map[uint64]struct{}
	classes    map[string]int
	lenient    map[string]int
	excluded   map[string]int
	overloaded int
	samples    []sample
	perClass   map[string]int
	extra      map[string]any
	failures   int
	firstFail  bool
	journal    bool
	start      time.Time
}

type sample struct {
	size int
	raw  json.RawMessage
	nt   bool
}

var (
	recMu sync.Mutex
	recs  = map[string]*Recorder{}
)

// OutDir is the shard's scratch/output directory (VERIF_OUT), created on demand.
func OutDir() string {
	d := os.Getenv("VERIF_OUT")
	if d == "" {
		d = filepath.Join(os.TempDir(), fmt.Sprintf("nv-out-%d", os.Getpid()))
	}
	_ = os.MkdirAll(d, 0o755)
	return d
}

// Get returns the process-wide recorder for a property.
func Get(prop string) *Recorder {
	recMu.Lock()
	defer recMu.Unlock()
	if r, ok := recs[prop]; ok {
		return r
	}
	r := &Recorder{
		Prop:       prop,
		outDir:     OutDir(),
		nontrivial: map[uint64]struct{}{},
		classes:    map[string]int{},
		lenient:    map[string]int{},
		excluded:   map[string]int{},
		extra:      map[string]any{},
		journal:    true,
		start:      time.Now(),
	}
	recs[prop] = r
	return r
}

// NoJournal disables the per-case journal (pure-function properties cannot crash the
// process outside the calling goroutine).
func (r *Recorder) NoJournal() { r.journal = false }

// SetExtra stores an additional evidence key (merged by the driver: numbers are summed,
// bools and-ed, everything else last-wins).
func (r *Recorder) SetExtra(k string, v any) {
	r.mu.Lock()
	r.extra[k] = v
	r.mu.Unlock()
}

func (r *Recorder) AddExtra(k string, n int) {
	r.mu.Lock()
	cur, _ := r.extra[k].(int)
	r.extra[k] = cur + n
	r.mu.Unlock()
}

func hash64(b []byte) uint64 {
	h := fnv.New64a()
	h.Write(b)
	return h.Sum64()
}

// Journal writes the case about to be executed, so that a hard crash leaves it behind.
func (r *Recorder) Journal(c any) {
	if !r.journal {
		return
	}
	b, err := json.Marshal(map[string]any{"property": r.Prop, "verdict": "crash or hang while this case was executing", "case": c})
	if err != nil {
		return
	}
	_ = os.WriteFile(filepath.Join(r.outDir, r.Prop+".journal.json"), b, 0o644)
}

// Snapshot serialises a case before it is executed (run functions may mutate their input).
func Snapshot(c any) json.RawMessage {
	raw, err := json.Marshal(c)
	if err != nil {
		raw = []byte(fmt.Sprintf("%q", fmt.Sprint(c)))
	}
	return raw
}

// ClearJournal removes the journal after a case returned.
func (r *Recorder) ClearJournal() {
	if r.journal {
		_ = os.Remove(filepath.Join(r.outDir, r.Prop+".journal.json"))
	}
}

// Record accounts for one executed case.
func (r *Recorder) Record(c any, o Outcome) {
	raw, ok := c.(json.RawMessage)
	if !ok {
		raw = Snapshot(c)
	}
	r.mu.Lock()
	defer r.mu.Unlock()
	r.evals++
	if o.Excluded != "" {
		r.excluded[o.Excluded]++
	}
	if o.Overloaded {
		r.overloaded++
	}
	for _, k := range o.Classes {
		r.classes[k]++
	}
	for _, k := range o.Lenient {
		r.lenient[k]++
	}
	if o.NonTrivial && o.Excluded == "" {
		r.nontrivial[hash64(raw)] = struct{}{}
	}
	// keep a bounded, class-diverse pool of candidate samples (prefer non-trivial ones)
	if len(raw) <= 6000 && o.Excluded == "" {
		key := ""
		if len(o.Classes) > 0 {
			key = o.Classes[0]
		}
		if r.perClass == nil {
			r.perClass = map[string]int{}
		}
		if (r.perClass[key] < 3 && len(r.samples) < 64 && (o.NonTrivial || r.perClass[key] == 0)) || (o.NonTrivial && len(r.samples) < 8) {
			r.perClass[key]++
			r.samples = append(r.samples, sample{size: len(raw), raw: raw, nt: o.NonTrivial})
		}
	}
	if o.Fail != "" {
		r.failures++
		rep := map[string]any{
			"property": r.Prop,
			"verdict":  o.Fail,
			"case":     json.RawMessage(raw),
		}
		if o.History != nil {
			rep["history"] = o.History
		}
		b, _ := json.MarshalIndent(rep, "", " ")
		if !r.firstFail {
			r.firstFail = true
			_ = os.WriteFile(filepath.Join(r.outDir, r.Prop+".firstfail.json"), b, 0o644)
		}
		_ = os.WriteFile(filepath.Join(r.outDir, r.Prop+".fail.json"), b, 0o644)
	}
}

// Flush writes the shard result for the driver.
func (r *Recorder) Flush() {
	r.mu.Lock()
	defer r.mu.Unlock()
	hs := make([]string, 0, len(r.nontrivial))
	for h := range r.nontrivial {
		hs = append(hs, fmt.Sprintf("%016x", h))
	}
	sort.Strings(hs)
	// samples: smallest, median, largest among non-trivial if any, else among all
	pool := []sample{}
	for _, s := range r.samples {
		if s.nt {
			pool = append(pool, s)
		}
	}
	if len(pool) == 0 {
		pool = r.samples
	}
	sort.Slice(pool, func(i, j int) bool { return pool[i].size < pool[j].size })
	var out []json.RawMessage
	if n := len(pool); n > 0 {
		idx := []int{0, n / 5, 2 * n / 5, 3 * n / 5, 4 * n / 5, n - 1}
		seen := map[int]bool{}
		for _, i := range idx {
			if !seen[i] {
				seen[i] = true
				out = append(out, pool[i].raw)
			}
		}
	}
	res := map[string]any{
		"property":   r.Prop,
		"evals":      r.evals,
		"nontrivial": hs,
		"classes":    r.classes,
		"lenient":    r.lenient,
		"excluded":   r.excluded,
		"overloaded": r.overloaded,
		"samples":    out,
		"extra":      r.extra,
		"failures":   r.failures,
		"wall_s":     time.Since(r.start).Seconds(),
	}
	b, _ := json.Marshal(res)
	_ = os.WriteFile(filepath.Join(r.outDir, r.Prop+".result.json"), b, 0o644)
}

// Known reports whether a known-finding slug is active (the driver replayed its saved case
// and it still fails), in which case generators exclude that shape by construction.
func Known(slug string) bool {
	for _, s := range strings.Split(os.Getenv("VERIF_KNOWN"), ",") {
		if s == slug {
			return true
		}
	}
	return false
}

// Tier returns "quick" or "thorough".
func Tier() string {
	if os.Getenv("VERIF_TIER") == "thorough" {
		return "thorough"
	}
	return "quick"
}

func Thorough() bool { return Tier() == "thorough" }

// Pick returns q in the quick tier and th in the thorough tier.
func Pick(q, th int) int {
	if Thorough() {
		return th
	}
	return q
}

// Shard returns this process' shard index and the number of shards.
func Shard() (int, int) {
	var i, n int
	fmt.Sscanf(os.Getenv("VERIF_SHARD"), "%d/%d", &i, &n)
	if n == 0 {
		n = 1
	}
	return i, n
}

// Run is the standard entry point of a property test: under VERIF_REPLAY it re-executes
// the saved case without rapid; otherwise it runs rapid.Check over gen/run.
//
// run must be a function of the case only (plus the code under test).
func Run[C any](t *testing.T, prop string, gen func(*rapid.T) C, run func(C) Outcome) {
	r := Get(prop)
	defer r.Flush()
	if p := os.Getenv("VERIF_REPLAY"); p != "" {
		var rep struct {
			Property string          `json:"property"`
			Case     json.RawMessage `json:"case"`
		}
		b, err := os.ReadFile(p)
		if err != nil {
			t.Fatalf("replay: %v", err)
		}
		if err := json.Unmarshal(b, &rep); err != nil {
			t.Fatalf("replay: %v", err)
		}
		if rep.Property != "" && rep.Property != prop {
			t.Skipf("replay file is for %s", rep.Property)
		}
		var c C
		if err := json.Unmarshal(rep.Case, &c); err != nil {
			t.Fatalf("replay: cannot decode case: %v", err)
		}
		raw := Snapshot(c)
		r.Journal(raw)
		o := run(c)
		r.ClearJournal()
		r.Record(raw, o)
		if o.Fail != "" {
			t.Fatalf("REPLAY-FAIL %s: %s", prop, o.Fail)
		}
		if o.Overloaded {
			t.Logf("REPLAY-OVERLOADED %s", prop)
		}
		return
	}
	rapid.Check(t, func(rt *rapid.T) {
		c := gen(rt)
		raw := Snapshot(c)
		r.Journal(raw)
		o := run(c)
		r.ClearJournal()
		r.Record(raw, o)
		if o.Fail != "" {
			rt.Fatalf("%s: %s", prop, o.Fail)
		}
	})
}
