package fx

import (
	"context"
	"testing"
	"time"

	"github.com/containerd/nri/pkg/api"
)

func TestFixtureSmoke(t *testing.T) {
	r, err := NewRuntime()
	if err != nil {
		t.Fatal(err)
	}
	defer r.Stop()
	w := &ActiveWatcher{}
	var got int
	p := &Plugin{Name: "a", Idx: "10"}
	p.OnEvent = func(_ context.Context, e api.Event, pod *api.PodSandbox, _ *api.Container) error {
		if IsProbe(pod) {
			w.Seen(p.Name)
		}
		return nil
	}
	p.OnCreate = func(context.Context, *api.PodSandbox, *api.Container) (*api.ContainerAdjustment, []*api.ContainerUpdate, error) {
		got++
		a := &api.ContainerAdjustment{}
		a.AddAnnotation("k", "v")
		return a, nil, nil
	}
	if err := r.Connect(p); err != nil {
		t.Fatal(err)
	}
	if err := r.WaitActive(w, 5*time.Second, "a"); err != nil {
		t.Fatal(err)
	}
	rpl, err := r.A.CreateContainer(context.Background(), &api.CreateContainerRequest{Pod: &api.PodSandbox{Id: "p"}, Container: &api.Container{Id: "c"}})
	if err != nil || got != 1 || rpl.Adjust.Annotations["k"] != "v" {
		t.Fatalf("rpl=%v err=%v got=%d", rpl, err, got)
	}
	p.Stub.Stop()
}
