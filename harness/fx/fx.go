// Package fx provides fixtures shared by the engines: an in-process nri Adaptation served on
// a real unix socket, and stub-based plugins whose handlers are plain function fields.
package fx

import (
	"context"
	"fmt"
	"io"
	"net"
	"os"
	"path/filepath"
	"sync"
	"sync/atomic"
	"time"

	"github.com/containerd/nri/pkg/adaptation"
	"github.com/containerd/nri/pkg/api"
	"github.com/containerd/nri/pkg/stub"
	"github.com/sirupsen/logrus"
)

func init() {
	// nri logs through logrus by default; keep the test output readable.
	logrus.SetLevel(logrus.PanicLevel)
	logrus.SetOutput(io.Discard)
}

// ShortDir creates a short scratch directory (unix socket paths are limited to 108 bytes).
func ShortDir() string {
	d, err := os.MkdirTemp("/tmp", "nv")
	if err != nil {
		panic(err)
	}
	return d
}

// Runtime is an in-process Adaptation plus the runtime-side callbacks.
type Runtime struct {
	A      *adaptation.Adaptation
	Dir    string
	Socket string

	mu       sync.Mutex
	Pods     []*api.PodSandbox // state handed to synchronizing plugins (under mu)
	Ctrs     []*api.Container
	SyncFn   func(ctx context.Context, cb adaptation.SyncCB) error // optional override
	UpdateFn func(ctx context.Context, u []*api.ContainerUpdate) ([]*api.ContainerUpdate, error)
	// SyncUpdates receives what plugins returned from Synchronize (through the default SyncFn).
	SyncUpdates [][]*api.ContainerUpdate
	SyncErrs    []error
}

// NewRuntime creates and starts an adaptation listening on <dir>/nri.sock.
func NewRuntime(opts ...adaptation.Option) (*Runtime, error) {
	r := &Runtime{Dir: ShortDir()}
	r.Socket = filepath.Join(r.Dir, "nri.sock")
	all := append([]adaptation.Option{
		adaptation.WithSocketPath(r.Socket),
		adaptation.WithPluginPath(filepath.Join(r.Dir, "plugins")),
		adaptation.WithPluginConfigPath(filepath.Join(r.Dir, "conf.d")),
	}, opts...)
	a, err := adaptation.New("verif", "0.0", r.sync, r.update, all...)
	if err != nil {
		os.RemoveAll(r.Dir)
		return nil, err
	}
	r.A = a
	if err := a.Start(); err != nil {
		os.RemoveAll(r.Dir)
		return nil, err
	}
	return r, nil
}

// SetState replaces the pods and containers handed to synchronizing plugins.
func (r *Runtime) SetState(pods []*api.PodSandbox, ctrs []*api.Container) {
	r.mu.Lock()
	r.Pods, r.Ctrs = pods, ctrs
	r.mu.Unlock()
}

func (r *Runtime) sync(ctx context.Context, cb adaptation.SyncCB) (err error) {
	r.mu.Lock()
	f := r.SyncFn
	pods, ctrs := r.Pods, r.Ctrs
	r.mu.Unlock()
	if f != nil {
		return f(ctx, cb)
	}
	u, err := cb(ctx, pods, ctrs)
	r.mu.Lock()
	r.SyncUpdates = append(r.SyncUpdates, u)
	r.SyncErrs = append(r.SyncErrs, err)
	r.mu.Unlock()
	return err
}

func (r *Runtime) update(ctx context.Context, u []*api.ContainerUpdate) ([]*api.ContainerUpdate, error) {
	r.mu.Lock()
	f := r.UpdateFn
	r.mu.Unlock()
	if f != nil {
		return f(ctx, u)
	}
	return nil, nil
}

// Stop stops the adaptation and removes its scratch directory.
func (r *Runtime) Stop() {
	r.A.Stop()
	os.RemoveAll(r.Dir)
}

// Plugin implements every stub handler interface by delegating to optional function fields.
// (A nil field means "succeed with an empty answer".) Subscription is narrowed with Mask:
// the stub subscribes a plugin to what Configure returns.
type Plugin struct {
	Name string
	Idx  string
	Mask api.EventMask // 0 = everything

	Stub   stub.Stub
	Closed atomic.Int32 // number of onClose notifications

	OnConfigure   func(ctx context.Context, config, runtime, version string) (api.EventMask, error)
	OnSynchronize func(context.Context, []*api.PodSandbox, []*api.Container) ([]*api.ContainerUpdate, error)
	OnCreate      func(context.Context, *api.PodSandbox, *api.Container) (*api.ContainerAdjustment, []*api.ContainerUpdate, error)
	OnUpdate      func(context.Context, *api.PodSandbox, *api.Container, *api.LinuxResources) ([]*api.ContainerUpdate, error)
	OnStop        func(context.Context, *api.PodSandbox, *api.Container) ([]*api.ContainerUpdate, error)
	OnUpdatePod   func(context.Context, *api.PodSandbox, *api.LinuxResources, *api.LinuxResources) error
	// OnEvent receives every other state change, named by its api.Event.
	OnEvent func(context.Context, api.Event, *api.PodSandbox, *api.Container) error
	OnClose func()
}

func (p *Plugin) Configure(ctx context.Context, config, runtime, version string) (api.EventMask, error) {
	if p.OnConfigure != nil {
		return p.OnConfigure(ctx, config, runtime, version)
	}
	return p.Mask, nil
}

func (p *Plugin) Synchronize(ctx context.Context, pods []*api.PodSandbox, ctrs []*api.Container) ([]*api.ContainerUpdate, error) {
	if p.OnSynchronize != nil {
		return p.OnSynchronize(ctx, pods, ctrs)
	}
	return nil, nil
}

func (p *Plugin) CreateContainer(ctx context.Context, pod *api.PodSandbox, c *api.Container) (*api.ContainerAdjustment, []*api.ContainerUpdate, error) {
	if p.OnCreate != nil {
		return p.OnCreate(ctx, pod, c)
	}
	return nil, nil, nil
}

func (p *Plugin) UpdateContainer(ctx context.Context, pod *api.PodSandbox, c *api.Container, r *api.LinuxResources) ([]*api.ContainerUpdate, error) {
	if p.OnUpdate != nil {
		return p.OnUpdate(ctx, pod, c, r)
	}
	return nil, nil
}

func (p *Plugin) StopContainer(ctx context.Context, pod *api.PodSandbox, c *api.Container) ([]*api.ContainerUpdate, error) {
	if p.OnStop != nil {
		return p.OnStop(ctx, pod, c)
	}
	return nil, nil
}

func (p *Plugin) UpdatePodSandbox(ctx context.Context, pod *api.PodSandbox, o, r *api.LinuxResources) error {
	if p.OnUpdatePod != nil {
		return p.OnUpdatePod(ctx, pod, o, r)
	}
	return nil
}

func (p *Plugin) event(ctx context.Context, e api.Event, pod *api.PodSandbox, c *api.Container) error {
	if p.OnEvent != nil {
		return p.OnEvent(ctx, e, pod, c)
	}
	return nil
}

func (p *Plugin) RunPodSandbox(ctx context.Context, pod *api.PodSandbox) error {
	return p.event(ctx, api.Event_RUN_POD_SANDBOX, pod, nil)
}
func (p *Plugin) StopPodSandbox(ctx context.Context, pod *api.PodSandbox) error {
	return p.event(ctx, api.Event_STOP_POD_SANDBOX, pod, nil)
}
func (p *Plugin) RemovePodSandbox(ctx context.Context, pod *api.PodSandbox) error {
	return p.event(ctx, api.Event_REMOVE_POD_SANDBOX, pod, nil)
}
func (p *Plugin) PostUpdatePodSandbox(ctx context.Context, pod *api.PodSandbox) error {
	return p.event(ctx, api.Event_POST_UPDATE_POD_SANDBOX, pod, nil)
}
func (p *Plugin) StartContainer(ctx context.Context, pod *api.PodSandbox, c *api.Container) error {
	return p.event(ctx, api.Event_START_CONTAINER, pod, c)
}
func (p *Plugin) RemoveContainer(ctx context.Context, pod *api.PodSandbox, c *api.Container) error {
	return p.event(ctx, api.Event_REMOVE_CONTAINER, pod, c)
}
func (p *Plugin) PostCreateContainer(ctx context.Context, pod *api.PodSandbox, c *api.Container) error {
	return p.event(ctx, api.Event_POST_CREATE_CONTAINER, pod, c)
}
func (p *Plugin) PostStartContainer(ctx context.Context, pod *api.PodSandbox, c *api.Container) error {
	return p.event(ctx, api.Event_POST_START_CONTAINER, pod, c)
}
func (p *Plugin) PostUpdateContainer(ctx context.Context, pod *api.PodSandbox, c *api.Container) error {
	return p.event(ctx, api.Event_POST_UPDATE_CONTAINER, pod, c)
}

// NewStub creates (but does not start) the stub of a plugin for the given socket; dialer may
// be nil (plain unix dial).
func (p *Plugin) NewStub(socket string, dialer func(string) (net.Conn, error), extra ...stub.Option) error {
	opts := []stub.Option{
		stub.WithPluginName(p.Name),
		stub.WithPluginIdx(p.Idx),
		stub.WithSocketPath(socket),
		stub.WithOnClose(func() {
			p.Closed.Add(1)
			if p.OnClose != nil {
				p.OnClose()
			}
		}),
	}
	if dialer != nil {
		opts = append(opts, stub.WithDialer(dialer))
	}
	opts = append(opts, extra...)
	s, err := stub.New(p, opts...)
	if err != nil {
		return err
	}
	p.Stub = s
	return nil
}

// Connect creates and starts the plugin's stub against the runtime. Start returns once
// the plugin is configured; use WaitActive to know that it is synchronized and in the
// runtime's plugin list.
func (r *Runtime) Connect(p *Plugin) error {
	if err := p.NewStub(r.Socket, nil); err != nil {
		return err
	}
	return p.Stub.Start(context.Background())
}

// ProbePodID is the pod id used by probe events; handlers can ignore requests carrying it.
const ProbePodID = "verif-probe-pod"

// IsProbe tells whether a pod belongs to a fixture probe event.
func IsProbe(pod *api.PodSandbox) bool { return pod != nil && pod.Id == ProbePodID }

// Probe sends a RemovePodSandbox state change for the probe pod through the adaptation.
func (r *Runtime) Probe() error {
	return r.A.RemovePodSandbox(context.Background(), &api.StateChangeEvent{Pod: &api.PodSandbox{Id: ProbePodID}})
}

// ActiveWatcher lets a fixture wait until a set of plugins receives probe events. Plugins
// must route probe events to Seen (their masks must include REMOVE_POD_SANDBOX).
type ActiveWatcher struct {
	mu   sync.Mutex
	seen map[string]int
}

func (w *ActiveWatcher) Seen(name string) {
	w.mu.Lock()
	if w.seen == nil {
		w.seen = map[string]int{}
	}
	w.seen[name]++
	w.mu.Unlock()
}

func (w *ActiveWatcher) Count(name string) int {
	w.mu.Lock()
	defer w.mu.Unlock()
	return w.seen[name]
}

// WaitActive probes until every named plugin has seen a probe issued after the call began,
// or the timeout expires.
func (r *Runtime) WaitActive(w *ActiveWatcher, timeout time.Duration, names ...string) error {
	base := map[string]int{}
	for _, n := range names {
		base[n] = w.Count(n)
	}
	deadline := time.Now().Add(timeout)
	for {
		if err := r.Probe(); err != nil {
			return fmt.Errorf("probe failed: %w", err)
		}
		ok := true
		for _, n := range names {
			if w.Count(n) <= base[n] {
				ok = false
			}
		}
		if ok {
			return nil
		}
		if time.Now().After(deadline) {
			return fmt.Errorf("plugins %v not active after %v", names, timeout)
		}
		time.Sleep(time.Millisecond)
	}
}
