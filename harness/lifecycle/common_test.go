// Package lifecycle holds engine E2: lifecycle histories (C06) and unsolicited updates (C19).
package lifecycle

import (
	"context"
	"encoding/json"
	"errors"
	"fmt"
	"hash/fnv"
	"io"
	"os"
	"path/filepath"
	"strings"
	"sync"
	"sync/atomic"
	"testing"
	"time"

	"google.golang.org/grpc/status"
	"google.golang.org/protobuf/proto"

	"github.com/containerd/nri/pkg/adaptation"
	"github.com/containerd/nri/pkg/api"
	"github.com/containerd/nri/pkg/stub"
	"github.com/containerd/ttrpc"
	"github.com/sirupsen/logrus"

	"nriverif/fx"
)

// runtimeErrors keeps the last error-level log lines of the adaptation / stub (they say why a
// plugin was closed); histories attach them for diagnosis only.
type errLog struct {
	mu    sync.Mutex
	lines []string
}

var runtimeErrors errLog

func (l *errLog) Levels() []logrus.Level {
	return []logrus.Level{logrus.ErrorLevel, logrus.WarnLevel}
}

func (l *errLog) Fire(e *logrus.Entry) error {
	l.mu.Lock()
	if len(l.lines) >= 200 {
		l.lines = l.lines[100:]
	}
	m := e.Message
	if len(m) > 300 {
		m = m[:300]
	}
	l.lines = append(l.lines, time.Now().Format("15:04:05.000 ")+m)
	l.mu.Unlock()
	return nil
}

func (l *errLog) reset() {
	l.mu.Lock()
	l.lines = nil
	l.mu.Unlock()
}

func (l *errLog) snapshot() []string {
	l.mu.Lock()
	defer l.mu.Unlock()
	return append([]string(nil), l.lines...)
}

// stall monitor: a goroutine that should wake every 2 ms records the longest time it was kept
// from running. It measures how badly the machine is oversubscribed while a case runs; it is
// never an oracle, only evidence for setting an execution aside as overloaded.
var stallMaxNs atomic.Int64

func init() {
	go func() {
		last := time.Now()
		for {
			time.Sleep(2 * time.Millisecond)
			now := time.Now()
			if gap := int64(now.Sub(last)); gap > stallMaxNs.Load() {
				stallMaxNs.Store(gap)
			}
			last = now
		}
	}()
}

func stallReset()             { stallMaxNs.Store(0) }
func stallMax() time.Duration { return time.Duration(stallMaxNs.Load()) }

func init() {
	logrus.SetLevel(logrus.WarnLevel) // output stays discarded (fx), the hook sees warnings and errors
	logrus.AddHook(&runtimeErrors)
}

func init() {
	// Handlers in this package answer at once (apart from a drawn widening sleep of at most a
	// few ms). The defaults (5 s registration, 2 s request) would turn a badly overloaded
	// machine into dropped plugins, i.e. into false alarms; neither property is about time.
	adaptation.SetPluginRegistrationTimeout(30 * time.Second)
	adaptation.SetPluginRequestTimeout(30 * time.Second)
}

const allMask = int32(1<<13 - 1) // 8191: the thirteen events (deliberately not taken from api.ValidEvents)

// the thirteen lifecycle events in enum order (1..13)
var eventNames = map[int32]string{
	1: "RunPodSandbox", 2: "StopPodSandbox", 3: "RemovePodSandbox", 4: "CreateContainer",
	5: "PostCreateContainer", 6: "StartContainer", 7: "PostStartContainer", 8: "UpdateContainer",
	9: "PostUpdateContainer", 10: "StopContainer", 11: "RemoveContainer", 12: "UpdatePodSandbox",
	13: "PostUpdatePodSandbox",
}

func evName(e int32) string {
	if n, ok := eventNames[e]; ok {
		return n
	}
	return fmt.Sprintf("event(%d)", e)
}

// maskHas is the reference reading of a subscription mask: bit e-1 stands for event e.
func maskHas(mask int32, e int32) bool { return e >= 1 && e <= 13 && mask&(1<<(uint(e)-1)) != 0 }

func isPodEvent(e int32) bool { return e == 1 || e == 2 || e == 3 || e == 12 || e == 13 }

func hashOdd(tag string, n int) bool {
	h := fnv.New32a()
	h.Write([]byte(tag))
	h.Write([]byte{byte(n), byte(n >> 8)})
	return h.Sum32()&1 == 1
}

func podOf(tag string) *api.PodSandbox {
	return &api.PodSandbox{Id: tag, Name: "pod", Namespace: "ns", Uid: "uid-" + tag}
}

func ctrOf(tag string) *api.Container {
	return &api.Container{Id: tag, PodSandboxId: "pod-" + tag, Name: "ctr", Annotations: map[string]string{"orig": "v"}}
}

// tagOf returns the request tag a handler was shown: the container id of container events,
// the pod id of pod events.
func tagOf(pod *api.PodSandbox, ct *api.Container) string {
	if ct != nil {
		return ct.GetId()
	}
	return pod.GetId()
}

// fire issues one lifecycle request for event e through the public entry point of that
// event. Pod events carry the tag as pod id, container events as container id.
func fire(a *adaptation.Adaptation, e int32, tag string) (any, error) {
	ctx := context.Background()
	switch api.Event(e) {
	case api.Event_RUN_POD_SANDBOX:
		return nil, a.RunPodSandbox(ctx, &api.StateChangeEvent{Pod: podOf(tag)})
	case api.Event_STOP_POD_SANDBOX:
		return nil, a.StopPodSandbox(ctx, &api.StateChangeEvent{Pod: podOf(tag)})
	case api.Event_REMOVE_POD_SANDBOX:
		return nil, a.RemovePodSandbox(ctx, &api.StateChangeEvent{Pod: podOf(tag)})
	case api.Event_POST_UPDATE_POD_SANDBOX:
		return nil, a.PostUpdatePodSandbox(ctx, &api.StateChangeEvent{Pod: podOf(tag)})
	case api.Event_UPDATE_POD_SANDBOX:
		r, err := a.UpdatePodSandbox(ctx, &api.UpdatePodSandboxRequest{Pod: podOf(tag),
			OverheadLinuxResources: &api.LinuxResources{}, LinuxResources: &api.LinuxResources{}})
		if r == nil {
			return nil, err
		}
		return r, err
	case api.Event_CREATE_CONTAINER:
		r, err := a.CreateContainer(ctx, &api.CreateContainerRequest{Pod: podOf("pod-" + tag), Container: ctrOf(tag)})
		if r == nil {
			return nil, err
		}
		return r, err
	case api.Event_UPDATE_CONTAINER:
		r, err := a.UpdateContainer(ctx, &api.UpdateContainerRequest{Pod: podOf("pod-" + tag), Container: ctrOf(tag),
			LinuxResources: &api.LinuxResources{Cpu: &api.LinuxCPU{Shares: api.UInt64(77)}}})
		if r == nil {
			return nil, err
		}
		return r, err
	case api.Event_STOP_CONTAINER:
		r, err := a.StopContainer(ctx, &api.StopContainerRequest{Pod: podOf("pod-" + tag), Container: ctrOf(tag)})
		if r == nil {
			return nil, err
		}
		return r, err
	case api.Event_POST_CREATE_CONTAINER:
		return nil, a.PostCreateContainer(ctx, &api.StateChangeEvent{Pod: podOf("pod-" + tag), Container: ctrOf(tag)})
	case api.Event_START_CONTAINER:
		return nil, a.StartContainer(ctx, &api.StateChangeEvent{Pod: podOf("pod-" + tag), Container: ctrOf(tag)})
	case api.Event_POST_START_CONTAINER:
		return nil, a.PostStartContainer(ctx, &api.StateChangeEvent{Pod: podOf("pod-" + tag), Container: ctrOf(tag)})
	case api.Event_POST_UPDATE_CONTAINER:
		return nil, a.PostUpdateContainer(ctx, &api.StateChangeEvent{Pod: podOf("pod-" + tag), Container: ctrOf(tag)})
	case api.Event_REMOVE_CONTAINER:
		return nil, a.RemoveContainer(ctx, &api.StateChangeEvent{Pod: podOf("pod-" + tag), Container: ctrOf(tag)})
	}
	return nil, fmt.Errorf("harness: no entry point for event %d", e)
}

// wireZeroMask makes the plugin's ConfigureResponse carry a literal 0 event mask (the stub
// itself replaces 0 by the set of implemented handlers before sending): the empty mask of
// the property ("= everything") then reaches the adaptation as such.
func wireZeroMask() ttrpc.ServerOpt {
	return ttrpc.WithUnaryServerInterceptor(func(ctx context.Context, um ttrpc.Unmarshaler, _ *ttrpc.UnaryServerInfo, m ttrpc.Method) (interface{}, error) {
		r, err := m(ctx, um)
		if cr, ok := r.(*api.ConfigureResponse); ok && cr != nil {
			cr.Events = 0
		}
		return r, err
	})
}

// connection is the outcome of connecting one stub plugin.
type connection struct {
	startErr error
	refused  bool // the runtime closed the connection before the plugin was synchronized
	timedOut bool // neither synchronized nor closed within the watchdog
}

// connectAndWait starts the plugin's stub and returns when the plugin is in the adaptation's
// plugin list (or was turned away). "In the list" is established without relying on the
// plugin's subscription: the accept loop holds the plugin-sync lock from before the
// plugin's Synchronize until after it appended the plugin, so once Synchronize was entered
// BlockPluginSync() (public API) returns only after the append.
// synced/closed must be buffered channels fed by the plugin's OnSynchronize / OnClose.
func connectAndWait(rt *lcRuntime, p *fx.Plugin, synced, closed <-chan struct{}, wireZero bool) connection {
	var extra []stub.Option
	if wireZero {
		extra = append(extra, stub.WithTTRPCOptions(nil, []ttrpc.ServerOpt{wireZeroMask()}))
	}
	if err := p.NewStub(rt.Socket, nil, extra...); err != nil {
		return connection{startErr: err}
	}
	if err := p.Stub.Start(context.Background()); err != nil {
		return connection{startErr: err}
	}
	select {
	case <-synced:
	case <-closed:
		return connection{refused: true}
	case <-time.After(20 * time.Second):
		return connection{timedOut: true}
	}
	b := rt.A.BlockPluginSync()
	b.Unblock()
	return connection{}
}

func shortErr(err error) string {
	if err == nil {
		return ""
	}
	s := err.Error()
	if len(s) > 300 {
		s = s[:300] + "…"
	}
	return s
}

func joinInts(xs []int) string {
	ss := make([]string, len(xs))
	for i, x := range xs {
		ss[i] = fmt.Sprint(x)
	}
	return strings.Join(ss, ",")
}

// lcRuntime is this package's runtime side: an in-process Adaptation on a unix socket, like
// fx.Runtime, but with the Adaptation's own life cycle in the harness's hands: the same
// Adaptation object can be stopped before its first start and stopped and started again.
type lcRuntime struct {
	A      *adaptation.Adaptation
	Dir    string
	Socket string

	mu       sync.Mutex
	UpdateFn func(context.Context, []*api.ContainerUpdate) ([]*api.ContainerUpdate, error)
}

// newLCRuntime creates and starts an adaptation; with preStop, Stop() is called on it
// before its first Start().
func newLCRuntime(preStop bool) (*lcRuntime, error) {
	return newLCRuntimeOpts(lcOpts{preStop: preStop})
}

// lcOpts: updateFn is installed before the first Start() (pre-installed plugins may update
// as soon as they are configured); setup may populate <dir>/plugins before the first Start().
type lcOpts struct {
	preStop  bool
	updateFn func(context.Context, []*api.ContainerUpdate) ([]*api.ContainerUpdate, error)
	setup    func(dir string) error
}

func newLCRuntimeOpts(o lcOpts) (*lcRuntime, error) {
	preStop := o.preStop
	r := &lcRuntime{Dir: fx.ShortDir(), UpdateFn: o.updateFn}
	r.Socket = filepath.Join(r.Dir, "nri.sock")
	if o.setup != nil {
		if err := o.setup(r.Dir); err != nil {
			os.RemoveAll(r.Dir)
			return nil, err
		}
	}
	a, err := adaptation.New("verif", "0.0", r.sync, r.update,
		adaptation.WithSocketPath(r.Socket),
		adaptation.WithPluginPath(filepath.Join(r.Dir, "plugins")),
		adaptation.WithPluginConfigPath(filepath.Join(r.Dir, "conf.d")))
	if err != nil {
		os.RemoveAll(r.Dir)
		return nil, err
	}
	r.A = a
	if preStop {
		a.Stop()
	}
	if err := a.Start(); err != nil {
		os.RemoveAll(r.Dir)
		return nil, err
	}
	return r, nil
}

func (r *lcRuntime) sync(ctx context.Context, cb adaptation.SyncCB) error {
	_, err := cb(ctx, nil, nil)
	return err
}

func (r *lcRuntime) update(ctx context.Context, u []*api.ContainerUpdate) ([]*api.ContainerUpdate, error) {
	r.mu.Lock()
	f := r.UpdateFn
	r.mu.Unlock()
	if f != nil {
		return f(ctx, u)
	}
	return nil, nil
}

func (r *lcRuntime) setUpdateFn(f func(context.Context, []*api.ContainerUpdate) ([]*api.ContainerUpdate, error)) {
	r.mu.Lock()
	r.UpdateFn = f
	r.mu.Unlock()
}

// Restart stops the Adaptation and starts the same object again. Stop() forgets all plugins
// (external plugins keep their connections but are not listed any more: to take part again
// they have to connect anew).
func (r *lcRuntime) Restart() error {
	r.A.Stop()
	return r.A.Start()
}

func (r *lcRuntime) Stop() {
	r.A.Stop()
	os.RemoveAll(r.Dir)
}

// ---- pre-installed (runtime-launched) plugins -------------------------------------------
//
// The Adaptation launches every executable NN-name in its plugin path over a pre-connected
// socket pair. The test binary plays that part itself: installed (hard-linked) into a plugin
// path it finds NRI_PLUGIN_SOCKET in its environment and runs launchedMain instead of tests.
// What it is to send lies next to the plugin path as <dir>/lp-<NN-name>.plan.json; it
// reports what it got back in <dir>/lp-<NN-name>.result.json.

func TestMain(m *testing.M) {
	if os.Getenv(api.PluginSocketEnvVar) != "" && os.Getenv(api.PluginNameEnvVar) != "" {
		launchedMain()
		return
	}
	os.Exit(m.Run())
}

type lpCall struct {
	Tag     string `json:"tag"`
	DelayMs int    `json:"delay_ms,omitempty"`
	Req     []byte `json:"req"` // marshalled api.UpdateContainersRequest
}

type lpPlan struct {
	Calls []lpCall `json:"calls"`
}

type lpAnswer struct {
	Tag       string `json:"tag"`
	Failed    []byte `json:"failed"` // marshalled api.UpdateContainersResponse
	Err       string `json:"err,omitempty"`
	ErrMsg    string `json:"err_msg,omitempty"`
	NoService bool   `json:"no_service,omitempty"`
	Panic     string `json:"panic,omitempty"`
}

type lpResult struct {
	StartErr string     `json:"start_err,omitempty"`
	Answers  []lpAnswer `json:"answers"`
}

func lpPaths(dir, name string) (plan, result string) {
	return filepath.Join(dir, "lp-"+name+".plan.json"), filepath.Join(dir, "lp-"+name+".result.json")
}

// installLaunched links the running test binary into <dir>/plugins as name and writes its plan.
func installLaunched(dir, name string, plan lpPlan) error {
	pdir := filepath.Join(dir, "plugins")
	if err := os.MkdirAll(pdir, 0o755); err != nil {
		return err
	}
	self, err := os.Executable()
	if err != nil {
		return err
	}
	dst := filepath.Join(pdir, name)
	if err := os.Link(self, dst); err != nil { // a symlink would not do (the runtime uses Lstat)
		in, err := os.Open(self)
		if err != nil {
			return err
		}
		defer in.Close()
		out, err := os.OpenFile(dst, os.O_CREATE|os.O_WRONLY|os.O_TRUNC, 0o755)
		if err != nil {
			return err
		}
		if _, err := io.Copy(out, in); err != nil {
			out.Close()
			return err
		}
		if err := out.Close(); err != nil {
			return err
		}
	}
	b, err := json.Marshal(plan)
	if err != nil {
		return err
	}
	pp, _ := lpPaths(dir, name)
	return os.WriteFile(pp, b, 0o644)
}

func launchedMain() {
	// never outlive the case by much, whatever happens to the runtime
	time.AfterFunc(3*time.Minute, func() { os.Exit(3) })
	dir := filepath.Dir(filepath.Dir(os.Args[0]))
	name := filepath.Base(os.Args[0])
	pp, rp := lpPaths(dir, name)
	var plan lpPlan
	if b, err := os.ReadFile(pp); err != nil || json.Unmarshal(b, &plan) != nil {
		os.Exit(4)
	}
	report := func(res lpResult) {
		b, _ := json.Marshal(res)
		if os.WriteFile(rp+".tmp", b, 0o644) == nil {
			os.Rename(rp+".tmp", rp)
		}
	}
	s, err := stub.New(&fx.Plugin{}, stub.WithOnClose(func() { os.Exit(0) }))
	if err != nil {
		report(lpResult{StartErr: "stub.New: " + err.Error()})
		os.Exit(5)
	}
	if err := s.Start(context.Background()); err != nil {
		report(lpResult{StartErr: err.Error()})
		os.Exit(6)
	}
	var res lpResult
	for _, c := range plan.Calls { // from the main goroutine, not from a handler
		if c.DelayMs > 0 {
			time.Sleep(time.Duration(c.DelayMs) * time.Millisecond)
		}
		a := lpAnswer{Tag: c.Tag}
		var req api.UpdateContainersRequest
		if err := proto.Unmarshal(c.Req, &req); err != nil {
			a.Err = "plan: " + err.Error()
			res.Answers = append(res.Answers, a)
			continue
		}
		func() {
			defer func() {
				if p := recover(); p != nil {
					a.Panic = fmt.Sprint(p)
				}
			}()
			failed, err := s.UpdateContainers(req.Update)
			a.Failed, _ = proto.Marshal(&api.UpdateContainersResponse{Failed: failed})
			if err != nil {
				a.Err = err.Error()
				a.ErrMsg = status.Convert(err).Message()
				a.NoService = errors.Is(err, stub.ErrNoService)
			}
		}()
		res.Answers = append(res.Answers, a)
	}
	report(res)
	s.Wait()
	os.Exit(0)
}

// readLaunched waits for the report of a launched plugin.
func readLaunched(dir, name string, timeout time.Duration) (*lpResult, error) {
	_, rp := lpPaths(dir, name)
	deadline := time.Now().Add(timeout)
	for {
		if b, err := os.ReadFile(rp); err == nil {
			var res lpResult
			if err := json.Unmarshal(b, &res); err != nil {
				return nil, err
			}
			return &res, nil
		}
		if time.Now().After(deadline) {
			return nil, fmt.Errorf("launched plugin %s did not report within %v", name, timeout)
		}
		time.Sleep(2 * time.Millisecond)
	}
}
