// Package lifecycle holds engine E2: lifecycle histories (C06) and unsolicited updates (C19).
package lifecycle

import (
	"context"
	"fmt"
	"hash/fnv"
	"os"
	"path/filepath"
	"strings"
	"sync"
	"time"

	"github.com/containerd/nri/pkg/adaptation"
	"github.com/containerd/nri/pkg/api"
	"github.com/containerd/nri/pkg/stub"
	"github.com/containerd/ttrpc"

	"nriverif/fx"
)

func init() {
	// Handlers in this package answer at once (apart from a drawn widening sleep of at most a
	// few ms). The defaults (5 s registration, 2 s request) would turn a badly overloaded
	// machine into dropped plugins, i.e. into false alarms; neither property is about time.
	adaptation.SetPluginRegistrationTimeout(30 * time.Second)
	adaptation.SetPluginRequestTimeout(30 * time.Second)
}

const allMask = int32(1<<13 - 1) // 8191: the thirteen events (deliberately not taken from api.ValidEvents)

// the thirteen lifecycle events in enum order (1..13)
var eventNames = map[int32]string{
	1: "RunPodSandbox", 2: "StopPodSandbox", 3: "RemovePodSandbox", 4: "CreateContainer",
	5: "PostCreateContainer", 6: "StartContainer", 7: "PostStartContainer", 8: "UpdateContainer",
	9: "PostUpdateContainer", 10: "StopContainer", 11: "RemoveContainer", 12: "UpdatePodSandbox",
	13: "PostUpdatePodSandbox",
}

func evName(e int32) string {
	if n, ok := eventNames[e]; ok {
		return n
	}
	return fmt.Sprintf("event(%d)", e)
}

// maskHas is the reference reading of a subscription mask: bit e-1 stands for event e.
func maskHas(mask int32, e int32) bool { return e >= 1 && e <= 13 && mask&(1<<(uint(e)-1)) != 0 }

func isPodEvent(e int32) bool { return e == 1 || e == 2 || e == 3 || e == 12 || e == 13 }

func hashOdd(tag string, n int) bool {
	h := fnv.New32a()
	h.Write([]byte(tag))
	h.Write([]byte{byte(n), byte(n >> 8)})
	return h.Sum32()&1 == 1
}

func podOf(tag string) *api.PodSandbox {
	return &api.PodSandbox{Id: tag, Name: "pod", Namespace: "ns", Uid: "uid-" + tag}
}

func ctrOf(tag string) *api.Container {
	return &api.Container{Id: tag, PodSandboxId: "pod-" + tag, Name: "ctr", Annotations: map[string]string{"orig": "v"}}
}

// tagOf returns the request tag a handler was shown: the container id of container events,
// the pod id of pod events.
func tagOf(pod *api.PodSandbox, ct *api.Container) string {
	if ct != nil {
		return ct.GetId()
	}
	return pod.GetId()
}

// fire issues one lifecycle request for event e through the public entry point of that
// event. Pod events carry the tag as pod id, container events as container id.
func fire(a *adaptation.Adaptation, e int32, tag string) (any, error) {
	ctx := context.Background()
	switch api.Event(e) {
	case api.Event_RUN_POD_SANDBOX:
		return nil, a.RunPodSandbox(ctx, &api.StateChangeEvent{Pod: podOf(tag)})
	case api.Event_STOP_POD_SANDBOX:
		return nil, a.StopPodSandbox(ctx, &api.StateChangeEvent{Pod: podOf(tag)})
	case api.Event_REMOVE_POD_SANDBOX:
		return nil, a.RemovePodSandbox(ctx, &api.StateChangeEvent{Pod: podOf(tag)})
	case api.Event_POST_UPDATE_POD_SANDBOX:
		return nil, a.PostUpdatePodSandbox(ctx, &api.StateChangeEvent{Pod: podOf(tag)})
	case api.Event_UPDATE_POD_SANDBOX:
		r, err := a.UpdatePodSandbox(ctx, &api.UpdatePodSandboxRequest{Pod: podOf(tag),
			OverheadLinuxResources: &api.LinuxResources{}, LinuxResources: &api.LinuxResources{}})
		if r == nil {
			return nil, err
		}
		return r, err
	case api.Event_CREATE_CONTAINER:
		r, err := a.CreateContainer(ctx, &api.CreateContainerRequest{Pod: podOf("pod-" + tag), Container: ctrOf(tag)})
		if r == nil {
			return nil, err
		}
		return r, err
	case api.Event_UPDATE_CONTAINER:
		r, err := a.UpdateContainer(ctx, &api.UpdateContainerRequest{Pod: podOf("pod-" + tag), Container: ctrOf(tag),
			LinuxResources: &api.LinuxResources{Cpu: &api.LinuxCPU{Shares: api.UInt64(77)}}})
		if r == nil {
			return nil, err
		}
		return r, err
	case api.Event_STOP_CONTAINER:
		r, err := a.StopContainer(ctx, &api.StopContainerRequest{Pod: podOf("pod-" + tag), Container: ctrOf(tag)})
		if r == nil {
			return nil, err
		}
		return r, err
	case api.Event_POST_CREATE_CONTAINER:
		return nil, a.PostCreateContainer(ctx, &api.StateChangeEvent{Pod: podOf("pod-" + tag), Container: ctrOf(tag)})
	case api.Event_START_CONTAINER:
		return nil, a.StartContainer(ctx, &api.StateChangeEvent{Pod: podOf("pod-" + tag), Container: ctrOf(tag)})
	case api.Event_POST_START_CONTAINER:
		return nil, a.PostStartContainer(ctx, &api.StateChangeEvent{Pod: podOf("pod-" + tag), Container: ctrOf(tag)})
	case api.Event_POST_UPDATE_CONTAINER:
		return nil, a.PostUpdateContainer(ctx, &api.StateChangeEvent{Pod: podOf("pod-" + tag), Container: ctrOf(tag)})
	case api.Event_REMOVE_CONTAINER:
		return nil, a.RemoveContainer(ctx, &api.StateChangeEvent{Pod: podOf("pod-" + tag), Container: ctrOf(tag)})
	}
	return nil, fmt.Errorf("harness: no entry point for event %d", e)
}

// wireZeroMask makes the plugin's ConfigureResponse carry a literal 0 event mask (the stub
// itself replaces 0 by the set of implemented handlers before sending): the empty mask of
// the property ("= everything") then reaches the adaptation as such.
func wireZeroMask() ttrpc.ServerOpt {
	return ttrpc.WithUnaryServerInterceptor(func(ctx context.Context, um ttrpc.Unmarshaler, _ *ttrpc.UnaryServerInfo, m ttrpc.Method) (interface{}, error) {
		r, err := m(ctx, um)
		if cr, ok := r.(*api.ConfigureResponse); ok && cr != nil {
			cr.Events = 0
		}
		return r, err
	})
}

// connection is the outcome of connecting one stub plugin.
type connection struct {
	startErr error
	refused  bool // the runtime closed the connection before the plugin was synchronized
	timedOut bool // neither synchronized nor closed within the watchdog
}

// connectAndWait starts the plugin's stub and returns when the plugin is in the adaptation's
// plugin list (or was turned away). "In the list" is established without relying on the
// plugin's subscription: the accept loop holds the plugin-sync lock from before the
// plugin's Synchronize until after it appended the plugin, so once Synchronize was entered
// BlockPluginSync() (public API) returns only after the append.
// synced/closed must be buffered channels fed by the plugin's OnSynchronize / OnClose.
func connectAndWait(rt *lcRuntime, p *fx.Plugin, synced, closed <-chan struct{}, wireZero bool) connection {
	var extra []stub.Option
	if wireZero {
		extra = append(extra, stub.WithTTRPCOptions(nil, []ttrpc.ServerOpt{wireZeroMask()}))
	}
	if err := p.NewStub(rt.Socket, nil, extra...); err != nil {
		return connection{startErr: err}
	}
	if err := p.Stub.Start(context.Background()); err != nil {
		return connection{startErr: err}
	}
	select {
	case <-synced:
	case <-closed:
		return connection{refused: true}
	case <-time.After(20 * time.Second):
		return connection{timedOut: true}
	}
	b := rt.A.BlockPluginSync()
	b.Unblock()
	return connection{}
}

func shortErr(err error) string {
	if err == nil {
		return ""
	}
	s := err.Error()
	if len(s) > 300 {
		s = s[:300] + "…"
	}
	return s
}

func joinInts(xs []int) string {
	ss := make([]string, len(xs))
	for i, x := range xs {
		ss[i] = fmt.Sprint(x)
	}
	return strings.Join(ss, ",")
}

// lcRuntime is this package's runtime side: an in-process Adaptation on a unix socket, like
// fx.Runtime, but with the Adaptation's own life cycle in the harness's hands: the same
// Adaptation object can be stopped before its first start and stopped and started again.
type lcRuntime struct {
	A      *adaptation.Adaptation
	Dir    string
	Socket string

	mu       sync.Mutex
	UpdateFn func(context.Context, []*api.ContainerUpdate) ([]*api.ContainerUpdate, error)
}

// newLCRuntime creates and starts an adaptation; with preStop, Stop() is called on it
// before its first Start().
func newLCRuntime(preStop bool) (*lcRuntime, error) {
	r := &lcRuntime{Dir: fx.ShortDir()}
	r.Socket = filepath.Join(r.Dir, "nri.sock")
	a, err := adaptation.New("verif", "0.0", r.sync, r.update,
		adaptation.WithSocketPath(r.Socket),
		adaptation.WithPluginPath(filepath.Join(r.Dir, "plugins")),
		adaptation.WithPluginConfigPath(filepath.Join(r.Dir, "conf.d")))
	if err != nil {
		os.RemoveAll(r.Dir)
		return nil, err
	}
	r.A = a
	if preStop {
		a.Stop()
	}
	if err := a.Start(); err != nil {
		os.RemoveAll(r.Dir)
		return nil, err
	}
	return r, nil
}

func (r *lcRuntime) sync(ctx context.Context, cb adaptation.SyncCB) error {
	_, err := cb(ctx, nil, nil)
	return err
}

func (r *lcRuntime) update(ctx context.Context, u []*api.ContainerUpdate) ([]*api.ContainerUpdate, error) {
	r.mu.Lock()
	f := r.UpdateFn
	r.mu.Unlock()
	if f != nil {
		return f(ctx, u)
	}
	return nil, nil
}

func (r *lcRuntime) setUpdateFn(f func(context.Context, []*api.ContainerUpdate) ([]*api.ContainerUpdate, error)) {
	r.mu.Lock()
	r.UpdateFn = f
	r.mu.Unlock()
}

// Restart stops the Adaptation and starts the same object again. Stop() forgets all plugins
// (external plugins keep their connections but are not listed any more: to take part again
// they have to connect anew).
func (r *lcRuntime) Restart() error {
	r.A.Stop()
	return r.A.Start()
}

func (r *lcRuntime) Stop() {
	r.A.Stop()
	os.RemoveAll(r.Dir)
}
